import Proofs.Small
/-! C07, the aggregation layer (no index state involved). An answer of `get_webentities_links` is a list of
    rows (`NetRow`: source webentity, a `Counter` of target webentities in insertion order, two page
    tallies). Everything the two variants do to such an answer is `netTouch` (find the row of a source,
    creating it at the end if missing, and update it). This file gives the readings of an answer
    (`netSum`, `netW`, `ctr`), the effect of `netTouch` / `counterAdd` on them, the well-formedness kept
    by every update (`NetOk`: one row per source, one entry per target, positive weights) and the
    look-up form of the readings under `NetOk`. -/
namespace Traph
open State

/-! ### counters -/

/-- total recorded under key `B` (for a well-formed counter: the value of the single entry, else 0) -/
def ctr (d : List (Nat × Nat)) (B : Nat) : Nat := ((d.filter (fun kw => decide (kw.1 = B))).map (·.2)).sum

@[simp] theorem ctr_nil (B : Nat) : ctr [] B = 0 := rfl

theorem ctr_cons (k w : Nat) (d : List (Nat × Nat)) (B : Nat) :
    ctr ((k, w) :: d) B = (if k = B then w else 0) + ctr d B := by
  unfold ctr
  by_cases h : k = B
  · rw [List.filter_cons_of_pos (by simpa using h), if_pos h]; simp
  · rw [List.filter_cons_of_neg (by simpa using h), if_neg h]; simp

theorem ctr_counterAdd (d : List (Nat × Nat)) (k w B : Nat) :
    ctr (counterAdd d k w) B = ctr d B + (if k = B then w else 0) := by
  induction d with
  | nil => simp [counterAdd, ctr_cons]
  | cons a d ih =>
    obtain ⟨k', w'⟩ := a
    unfold counterAdd
    by_cases hk : k' = k
    · rw [if_pos hk, ctr_cons, ctr_cons]
      subst hk
      by_cases hB : k' = B
      · rw [if_pos hB, if_pos hB, if_pos hB]; omega
      · rw [if_neg hB, if_neg hB, if_neg hB]; omega
    · rw [if_neg hk, ctr_cons, ctr_cons, ih]; omega

theorem ctr_of_not_mem : ∀ (d : List (Nat × Nat)) (B : Nat), B ∉ d.map (·.1) → ctr d B = 0
  | [], _, _ => rfl
  | (k, w) :: d, B, h => by
    simp only [List.map_cons, List.mem_cons, not_or] at h
    rw [ctr_cons, if_neg (fun e => h.1 e.symm), ctr_of_not_mem d B h.2]

/-- a counter with one entry per key is read by membership -/
theorem ctr_of_mem : ∀ (d : List (Nat × Nat)) (B w : Nat), (d.map (·.1)).Nodup → (B, w) ∈ d → ctr d B = w
  | [], _, _, _, h => by simp at h
  | (k, w') :: d, B, w, hnd, h => by
    simp only [List.map_cons, List.nodup_cons] at hnd
    rw [ctr_cons]
    rcases List.mem_cons.mp h with e | h'
    · simp only [Prod.mk.injEq] at e
      obtain ⟨rfl, rfl⟩ := e
      rw [if_pos rfl, ctr_of_not_mem d B hnd.1]; rfl
    · have hne : k ≠ B := by
        rintro rfl
        exact hnd.1 (List.mem_map.mpr ⟨(k, w), h', rfl⟩)
      rw [if_neg hne, ctr_of_mem d B w hnd.2 h']; omega

theorem counterAdd_mem_keys (d : List (Nat × Nat)) (k w x : Nat) :
    x ∈ (counterAdd d k w).map (·.1) ↔ x = k ∨ x ∈ d.map (·.1) := by
  induction d with
  | nil => simp [counterAdd]
  | cons a d ih =>
    obtain ⟨k', w'⟩ := a
    unfold counterAdd
    by_cases hk : k' = k
    · rw [if_pos hk]
      subst hk
      simp only [List.map_cons, List.mem_cons]
      constructor
      · intro h; exact Or.inr h
      · rintro (h | h)
        · exact Or.inl h
        · exact h
    · rw [if_neg hk]
      simp only [List.map_cons, List.mem_cons, ih]
      constructor
      · rintro (h | h | h)
        · exact Or.inr (Or.inl h)
        · exact Or.inl h
        · exact Or.inr (Or.inr h)
      · rintro (h | h | h)
        · exact Or.inr (Or.inl h)
        · exact Or.inl h
        · exact Or.inr (Or.inr h)

theorem counterAdd_pos (d : List (Nat × Nat)) (k w : Nat) (hw : 0 < w) (h : ∀ kw ∈ d, 0 < kw.2) :
    ∀ kw ∈ counterAdd d k w, 0 < kw.2 := by
  induction d with
  | nil => intro kw hkw; simp only [counterAdd, List.mem_singleton] at hkw; subst hkw; exact hw
  | cons a d ih =>
    obtain ⟨k', w'⟩ := a
    intro kw hkw
    unfold counterAdd at hkw
    have ha : 0 < w' := h (k', w') (List.mem_cons_self ..)
    by_cases hk : k' = k
    · rw [if_pos hk] at hkw
      rcases List.mem_cons.mp hkw with e | h'
      · subst e; show 0 < w' + w; omega
      · exact h kw (List.mem_cons_of_mem _ h')
    · rw [if_neg hk] at hkw
      rcases List.mem_cons.mp hkw with e | h'
      · subst e; exact ha
      · exact ih (fun kw hm => h kw (List.mem_cons_of_mem _ hm)) kw h'

/-! ### rows -/

/-- the row `netTouch` creates for a source met for the first time -/
def NetRow.fresh (A : Nat) : NetRow := { src := A, targets := [] }

/-- sum of a reading `φ` over the rows of source `A` (for a well-formed answer: `φ` of the single row, else 0) -/
def netSum (φ : NetRow → Nat) (g : List NetRow) (A : Nat) : Nat :=
  ((g.filter (fun r => decide (r.src = A))).map φ).sum

/-- the weight an answer records from webentity `A` to webentity `B` -/
def netW (g : List NetRow) (A B : Nat) : Nat := netSum (fun r => ctr r.targets B) g A

@[simp] theorem netSum_nil (φ : NetRow → Nat) (A : Nat) : netSum φ [] A = 0 := rfl

theorem netSum_cons (φ : NetRow → Nat) (r : NetRow) (g : List NetRow) (A : Nat) :
    netSum φ (r :: g) A = (if r.src = A then φ r else 0) + netSum φ g A := by
  unfold netSum
  by_cases h : r.src = A
  · rw [List.filter_cons_of_pos (by simpa using h), if_pos h]; simp
  · rw [List.filter_cons_of_neg (by simpa using h), if_neg h]; simp

theorem netTouch_nil (A : Nat) (f : NetRow → NetRow) : netTouch [] A f = [f (NetRow.fresh A)] := rfl

theorem netTouch_cons (r : NetRow) (g : List NetRow) (A : Nat) (f : NetRow → NetRow) :
    netTouch (r :: g) A f = if r.src = A then f r :: g else r :: netTouch g A f := rfl

/-- one update adds its increment to the reading of the touched source and to no other -/
theorem netSum_netTouch (φ : NetRow → Nat) (f : NetRow → NetRow) (δ : Nat)
    (hsrc : ∀ r, (f r).src = r.src) (h0 : ∀ A, φ (NetRow.fresh A) = 0) (hφ : ∀ r, φ (f r) = φ r + δ)
    (g : List NetRow) (A A' : Nat) :
    netSum φ (netTouch g A f) A' = netSum φ g A' + (if A = A' then δ else 0) := by
  induction g with
  | nil =>
    rw [netTouch_nil, netSum_cons, hsrc, hφ, h0]
    simp [NetRow.fresh]
  | cons r g ih =>
    rw [netTouch_cons]
    by_cases hr : r.src = A
    · rw [if_pos hr, netSum_cons, netSum_cons, hsrc, hφ, hr]
      by_cases hA : A = A'
      · simp only [if_pos hA]; omega
      · simp only [if_neg hA]; omega
    · rw [if_neg hr, netSum_cons, netSum_cons, ih]; omega

theorem netTouch_srcs (f : NetRow → NetRow) (hsrc : ∀ r, (f r).src = r.src) (g : List NetRow) (A : Nat) :
    (netTouch g A f).map (·.src) =
      if A ∈ g.map (·.src) then g.map (·.src) else g.map (·.src) ++ [A] := by
  induction g with
  | nil => simp [netTouch_nil, hsrc, NetRow.fresh]
  | cons r g ih =>
    rw [netTouch_cons]
    by_cases hr : r.src = A
    · rw [if_pos hr, if_pos (by simp [hr])]
      simp [hsrc]
    · rw [if_neg hr, List.map_cons, ih]
      by_cases hm : A ∈ g.map (·.src)
      · rw [if_pos hm, if_pos (by simp only [List.map_cons, List.mem_cons]; exact Or.inr hm)]; rfl
      · rw [if_neg hm, if_neg (by
          simp only [List.map_cons, List.mem_cons, not_or]; exact ⟨fun e => hr e.symm, hm⟩)]
        rfl

theorem netTouch_mem_srcs (f : NetRow → NetRow) (hsrc : ∀ r, (f r).src = r.src) (g : List NetRow) (A x : Nat) :
    x ∈ (netTouch g A f).map (·.src) ↔ x ∈ g.map (·.src) ∨ x = A := by
  rw [netTouch_srcs f hsrc]
  by_cases hm : A ∈ g.map (·.src)
  · rw [if_pos hm]
    constructor
    · exact Or.inl
    · rintro (h | rfl)
      · exact h
      · exact hm
  · rw [if_neg hm]; simp

theorem netTouch_srcs_nodup (f : NetRow → NetRow) (hsrc : ∀ r, (f r).src = r.src) (g : List NetRow) (A : Nat)
    (h : (g.map (·.src)).Nodup) : ((netTouch g A f).map (·.src)).Nodup := by
  rw [netTouch_srcs f hsrc]
  by_cases hm : A ∈ g.map (·.src)
  · rw [if_pos hm]; exact h
  · rw [if_neg hm]
    rw [List.nodup_append]
    refine ⟨h, by simp, ?_⟩
    intro a ha b hb
    simp only [List.mem_singleton] at hb
    subst hb
    rintro rfl
    exact hm ha

/-- a property of rows that holds of fresh rows and is kept by the update is kept by `netTouch` -/
theorem netTouch_all (Good : NetRow → Prop) (f : NetRow → NetRow) (hfresh : ∀ A, Good (NetRow.fresh A))
    (hf : ∀ r, Good r → Good (f r)) (g : List NetRow) (A : Nat) (h : ∀ r ∈ g, Good r) :
    ∀ r ∈ netTouch g A f, Good r := by
  induction g with
  | nil =>
    intro r hr
    rw [netTouch_nil, List.mem_singleton] at hr
    subst hr
    exact hf _ (hfresh A)
  | cons r0 g ih =>
    intro r hr
    rw [netTouch_cons] at hr
    by_cases hs : r0.src = A
    · rw [if_pos hs] at hr
      rcases List.mem_cons.mp hr with e | h'
      · subst e; exact hf _ (h r0 (List.mem_cons_self ..))
      · exact h r (List.mem_cons_of_mem _ h')
    · rw [if_neg hs] at hr
      rcases List.mem_cons.mp hr with e | h'
      · subst e; exact h _ (List.mem_cons_self ..)
      · exact ih (fun r hm => h r (List.mem_cons_of_mem _ hm)) r h'

/-! ### a whole pass of updates -/

/-- what both variants are: a left fold of `netTouch` over a list of update requests -/
def netFold {α : Type} (key : α → Nat) (f : α → NetRow → NetRow) (g : List NetRow) (l : List α) : List NetRow :=
  l.foldl (fun g x => netTouch g (key x) (f x)) g

theorem netFold_nil {α : Type} (key : α → Nat) (f : α → NetRow → NetRow) (g : List NetRow) :
    netFold key f g [] = g := rfl

theorem netFold_cons {α : Type} (key : α → Nat) (f : α → NetRow → NetRow) (g : List NetRow) (x : α) (l : List α) :
    netFold key f g (x :: l) = netFold key f (netTouch g (key x) (f x)) l := rfl

theorem netFold_sum {α : Type} (key : α → Nat) (f : α → NetRow → NetRow) (φ : NetRow → Nat) (δ : α → Nat)
    (hsrc : ∀ x r, (f x r).src = r.src) (h0 : ∀ A, φ (NetRow.fresh A) = 0)
    (hφ : ∀ x r, φ (f x r) = φ r + δ x) (A : Nat) : ∀ (l : List α) (g : List NetRow),
    netSum φ (netFold key f g l) A = netSum φ g A + ((l.filter (fun x => decide (key x = A))).map δ).sum
  | [], g => by simp [netFold_nil]
  | x :: l, g => by
    rw [netFold_cons, netFold_sum key f φ δ hsrc h0 hφ A l, netSum_netTouch φ (f x) (δ x) (hsrc x) h0 (hφ x)]
    by_cases hk : key x = A
    · rw [if_pos hk, List.filter_cons_of_pos (by simpa using hk)]
      simp only [List.map_cons, List.sum_cons]; omega
    · rw [if_neg hk, List.filter_cons_of_neg (by simpa using hk)]; omega

theorem netFold_mem_srcs {α : Type} (key : α → Nat) (f : α → NetRow → NetRow)
    (hsrc : ∀ x r, (f x r).src = r.src) (A : Nat) : ∀ (l : List α) (g : List NetRow),
    A ∈ (netFold key f g l).map (·.src) ↔ A ∈ g.map (·.src) ∨ ∃ x ∈ l, key x = A
  | [], g => by simp [netFold_nil]
  | x :: l, g => by
    rw [netFold_cons, netFold_mem_srcs key f hsrc A l, netTouch_mem_srcs (f x) (hsrc x)]
    simp only [List.mem_cons, exists_eq_or_imp]
    constructor
    · rintro ((h | h) | h)
      · exact Or.inl h
      · exact Or.inr (Or.inl h.symm)
      · exact Or.inr (Or.inr h)
    · rintro (h | h | h)
      · exact Or.inl (Or.inl h)
      · exact Or.inl (Or.inr h.symm)
      · exact Or.inr h

theorem netFold_srcs_nodup {α : Type} (key : α → Nat) (f : α → NetRow → NetRow)
    (hsrc : ∀ x r, (f x r).src = r.src) : ∀ (l : List α) (g : List NetRow),
    (g.map (·.src)).Nodup → ((netFold key f g l).map (·.src)).Nodup
  | [], _, h => h
  | x :: l, g, h => by
    rw [netFold_cons]
    exact netFold_srcs_nodup key f hsrc l _ (netTouch_srcs_nodup (f x) (hsrc x) g (key x) h)

theorem netFold_all {α : Type} (key : α → Nat) (f : α → NetRow → NetRow) (Good : NetRow → Prop)
    (hfresh : ∀ A, Good (NetRow.fresh A)) : ∀ (l : List α) (g : List NetRow),
    (∀ x ∈ l, ∀ r, Good r → Good (f x r)) → (∀ r ∈ g, Good r) → ∀ r ∈ netFold key f g l, Good r
  | [], _, _, h => h
  | x :: l, g, hf, h => by
    rw [netFold_cons]
    exact netFold_all key f Good hfresh l _ (fun y hy => hf y (List.mem_cons_of_mem _ hy))
      (netTouch_all Good (f x) hfresh (hf x (List.mem_cons_self ..)) g (key x) h)

/-! ### well-formed answers and their look-up reading -/

/-- one row per source webentity, one entry per target webentity, no entry of weight 0 -/
structure NetOk (g : List NetRow) : Prop where
  rows : (g.map (·.src)).Nodup
  keys : ∀ r ∈ g, (r.targets.map (·.1)).Nodup
  pos  : ∀ r ∈ g, ∀ kw ∈ r.targets, 0 < kw.2

theorem netSum_of_not_mem (φ : NetRow → Nat) : ∀ (g : List NetRow) (A : Nat), A ∉ g.map (·.src) → netSum φ g A = 0
  | [], _, _ => rfl
  | r :: g, A, h => by
    simp only [List.map_cons, List.mem_cons, not_or] at h
    rw [netSum_cons, if_neg (fun e => h.1 e.symm), netSum_of_not_mem φ g A h.2]

/-- with one row per source, the reading of a source is the reading of its row -/
theorem netSum_of_mem (φ : NetRow → Nat) : ∀ (g : List NetRow) (r : NetRow), (g.map (·.src)).Nodup → r ∈ g →
    netSum φ g r.src = φ r
  | [], _, _, h => by simp at h
  | r0 :: g, r, hnd, h => by
    simp only [List.map_cons, List.nodup_cons] at hnd
    rw [netSum_cons]
    rcases List.mem_cons.mp h with e | h'
    · subst e
      rw [if_pos rfl, netSum_of_not_mem φ g r.src hnd.1]; rfl
    · have hne : r0.src ≠ r.src := by
        intro e
        exact hnd.1 (e ▸ List.mem_map.mpr ⟨r, h', rfl⟩)
      rw [if_neg hne, netSum_of_mem φ g r hnd.2 h']; omega

/-- the recorded weight is the entry of the row -/
theorem NetOk.weight_of_mem {g : List NetRow} (ok : NetOk g) {r : NetRow} (hr : r ∈ g) {B w : Nat}
    (hB : (B, w) ∈ r.targets) : netW g r.src B = w := by
  unfold netW
  rw [netSum_of_mem _ g r ok.rows hr]
  exact ctr_of_mem _ _ _ (ok.keys r hr) hB

/-- a positive recorded weight is an entry of the (single) row of its source -/
theorem NetOk.mem_of_weight_pos {g : List NetRow} (ok : NetOk g) {A B : Nat} (h : 0 < netW g A B) :
    ∃ r ∈ g, r.src = A ∧ (B, netW g A B) ∈ r.targets := by
  by_cases hA : A ∈ g.map (·.src)
  · obtain ⟨r, hr, rfl⟩ := List.mem_map.mp hA
    refine ⟨r, hr, rfl, ?_⟩
    unfold netW at h ⊢
    rw [netSum_of_mem _ g r ok.rows hr] at h ⊢
    by_cases hB : B ∈ r.targets.map (·.1)
    · obtain ⟨⟨k, w⟩, hkw, rfl⟩ := List.mem_map.mp hB
      rw [ctr_of_mem _ _ _ (ok.keys r hr) hkw]; exact hkw
    · rw [ctr_of_not_mem _ _ hB] at h; omega
  · unfold netW at h
    rw [netSum_of_not_mem _ g A hA] at h; omega

/-- one row per source -/
theorem NetOk.row_unique {g : List NetRow} (ok : NetOk g) {r r' : NetRow} (hr : r ∈ g) (hr' : r' ∈ g)
    (hs : r'.src = r.src) : r' = r := by
  have hnd := ok.rows
  unfold List.Nodup at hnd
  rw [List.pairwise_map] at hnd
  by_cases e : r' = r
  · exact e
  · rcases List.mem_iff_getElem.mp hr' with ⟨i, hi, ei⟩
    rcases List.mem_iff_getElem.mp hr with ⟨j, hj, ej⟩
    have hij : i ≠ j := by rintro rfl; exact e (ei.symm.trans ej)
    rcases Nat.lt_or_gt_of_ne hij with hlt | hlt
    · exact absurd (ei ▸ ej ▸ hs) (List.pairwise_iff_getElem.mp hnd i j hi hj hlt)
    · exact absurd ((ei ▸ ej ▸ hs : g[i].src = g[j].src).symm) (List.pairwise_iff_getElem.mp hnd j i hj hi hlt)

/-- complete membership reading of a well-formed answer against its weight function -/
theorem NetOk.entry_iff {g : List NetRow} (ok : NetOk g) {r : NetRow} (hr : r ∈ g) (B w : Nat) :
    (B, w) ∈ r.targets ↔ 0 < w ∧ w = netW g r.src B := by
  constructor
  · intro hB
    exact ⟨ok.pos r hr _ hB, (ok.weight_of_mem hr hB).symm⟩
  · rintro ⟨hpos, rfl⟩
    obtain ⟨r', hr', hs, hm⟩ := ok.mem_of_weight_pos hpos
    have : r' = r := ok.row_unique hr hr' hs
    subst this
    exact hm

/-- the same without naming the row: `B ↦ w` is an entry of the row of `A` iff `w` is the recorded weight
    and is positive -/
theorem NetOk.edge_iff {g : List NetRow} (ok : NetOk g) (A B w : Nat) :
    (∃ r ∈ g, r.src = A ∧ (B, w) ∈ r.targets) ↔ 0 < w ∧ w = netW g A B := by
  constructor
  · rintro ⟨r, hr, rfl, hB⟩
    exact (ok.entry_iff hr B w).mp hB
  · rintro ⟨hpos, rfl⟩
    exact ok.mem_of_weight_pos hpos

/-! ### the dictionary reading `graph[A][B]` -/

/-- `graph.get(A)` -/
def netRow? (g : List NetRow) (A : Nat) : Option NetRow := g.find? (fun r => decide (r.src = A))

/-- `graph[A][B]` with both defaults (missing row, missing entry) read as 0 -/
def netGet (g : List NetRow) (A B : Nat) : Nat :=
  match netRow? g A with
  | none => 0
  | some r => (dictGet? r.targets B).getD 0

/-- for a well-formed answer the dictionary reading is the recorded weight -/
theorem NetOk.netGet_eq {g : List NetRow} (ok : NetOk g) (A B : Nat) : netGet g A B = netW g A B := by
  unfold netGet netRow?
  cases hf : g.find? (fun r => decide (r.src = A)) with
  | none =>
    have hA : A ∉ g.map (·.src) := by
      intro hm
      obtain ⟨r, hr, e⟩ := List.mem_map.mp hm
      exact absurd (List.find?_eq_none.mp hf r hr) (by simpa using e)
    unfold netW
    rw [netSum_of_not_mem _ g A hA]
  | some r =>
    have hr := List.mem_of_find?_eq_some hf
    have hs : r.src = A := by simpa using List.find?_some hf
    subst hs
    unfold netW
    rw [netSum_of_mem _ g r ok.rows hr]
    simp only
    cases hd : dictGet? r.targets B with
    | none =>
      have hB : B ∉ r.targets.map (·.1) := by
        intro hm
        obtain ⟨kw, hkw, e⟩ := List.mem_map.mp hm
        unfold dictGet? at hd
        rw [Option.map_eq_none_iff] at hd
        exact absurd (List.find?_eq_none.mp hd kw hkw) (by simpa using e)
      rw [ctr_of_not_mem _ _ hB]; rfl
    | some w =>
      have hm : (B, w) ∈ r.targets := by
        unfold dictGet? at hd
        cases hf2 : r.targets.find? (fun p => decide (p.1 = B)) with
        | none => rw [hf2] at hd; cases hd
        | some kw =>
          rw [hf2] at hd
          simp only [Option.map_some, Option.some.injEq] at hd
          have h1 := List.mem_of_find?_eq_some hf2
          have h2 : kw.1 = B := by simpa using List.find?_some hf2
          rw [← hd, ← h2]; exact h1
      rw [ctr_of_mem _ _ _ (ok.keys r hr) hm]; rfl

/-- a row has an empty counter iff nothing is recorded from its source -/
theorem NetOk.targets_nil_iff {g : List NetRow} (ok : NetOk g) {r : NetRow} (hr : r ∈ g) :
    r.targets = [] ↔ ∀ B, netW g r.src B = 0 := by
  constructor
  · intro e B
    unfold netW
    rw [netSum_of_mem _ g r ok.rows hr]
    simp only [e]; rfl
  · intro h
    cases ht : r.targets with
    | nil => rfl
    | cons kw rest =>
      have hm : (kw.1, kw.2) ∈ r.targets := by rw [ht]; exact List.mem_cons_self ..
      have := ok.weight_of_mem hr hm
      have hpos := ok.pos r hr _ hm
      rw [h kw.1] at this
      simp only at hpos
      omega

theorem netOk_nil : NetOk [] := ⟨by simp, by simp, by simp⟩

/-- the invariant part of a pass: fresh rows are fine, updates that keep a row fine keep the answer fine -/
theorem netFold_ok {α : Type} (key : α → Nat) (f : α → NetRow → NetRow)
    (hsrc : ∀ x r, (f x r).src = r.src) (l : List α)
    (hf : ∀ x ∈ l, ∀ r : NetRow, ((r.targets.map (·.1)).Nodup ∧ ∀ kw ∈ r.targets, 0 < kw.2) →
      (((f x r).targets.map (·.1)).Nodup ∧ ∀ kw ∈ (f x r).targets, 0 < kw.2))
    (g : List NetRow) (ok : NetOk g) : NetOk (netFold key f g l) := by
  have hall := netFold_all key f (fun r => (r.targets.map (·.1)).Nodup ∧ ∀ kw ∈ r.targets, 0 < kw.2)
    (fun A => by simp [NetRow.fresh]) l g hf (fun r hr => ⟨ok.keys r hr, ok.pos r hr⟩)
  exact ⟨netFold_srcs_nodup key f hsrc l g ok.rows, fun r hr => (hall r hr).1, fun r hr => (hall r hr).2⟩

/-! ### link events -/

/-- `graph[A][B] += w` -/
def netAdd (e : Nat × Nat × Nat) (r : NetRow) : NetRow := { r with targets := counterAdd r.targets e.2.1 e.2.2 }

/-- the summed weight of the events from `A` to `B` -/
def esum (A B : Nat) (es : List (Nat × Nat × Nat)) : Nat :=
  ((es.filter (fun e => decide (e.1 = A ∧ e.2.1 = B))).map (·.2.2)).sum

@[simp] theorem esum_nil (A B : Nat) : esum A B [] = 0 := rfl

theorem esum_cons (A B : Nat) (e : Nat × Nat × Nat) (es : List (Nat × Nat × Nat)) :
    esum A B (e :: es) = (if e.1 = A ∧ e.2.1 = B then e.2.2 else 0) + esum A B es := by
  unfold esum
  by_cases h : e.1 = A ∧ e.2.1 = B
  · rw [List.filter_cons_of_pos (by simpa using h), if_pos h]; simp
  · rw [List.filter_cons_of_neg (by simpa using h), if_neg h]; simp

theorem esum_append (A B : Nat) (l₁ l₂ : List (Nat × Nat × Nat)) :
    esum A B (l₁ ++ l₂) = esum A B l₁ + esum A B l₂ := by
  unfold esum; rw [List.filter_append, List.map_append, List.sum_append]

theorem esum_flatMap {α : Type} (A B : Nat) (F : α → List (Nat × Nat × Nat)) : ∀ (l : List α),
    esum A B (l.flatMap F) = (l.map (fun x => esum A B (F x))).sum
  | [] => rfl
  | x :: l => by rw [List.flatMap_cons, esum_append, esum_flatMap A B F l]; simp

/-- a pass of link events: every recorded weight grows by the summed weight of the matching events -/
theorem netW_events (g : List NetRow) (es : List (Nat × Nat × Nat)) (A B : Nat) :
    netW (netFold (·.1) netAdd g es) A B = netW g A B + esum A B es := by
  have hsum : ∀ (l : List (Nat × Nat × Nat)),
      ((l.filter (fun e => decide (e.1 = A))).map (fun e => if e.2.1 = B then e.2.2 else 0)).sum = esum A B l := by
    intro l
    induction l with
    | nil => rfl
    | cons e l ih =>
      rw [esum_cons, ← ih]
      by_cases h1 : e.1 = A
      · rw [List.filter_cons_of_pos (by simpa using h1)]
        simp only [List.map_cons, List.sum_cons, h1, true_and]
      · rw [List.filter_cons_of_neg (by simpa using h1)]
        simp [h1]
  unfold netW
  rw [netFold_sum (·.1) netAdd (fun r => ctr r.targets B) (fun e => if e.2.1 = B then e.2.2 else 0)
    (fun _ _ => rfl) (fun _ => rfl) (fun e r => ctr_counterAdd r.targets e.2.1 e.2.2 B) A es g, hsum]

/-- …and no other reading of a row changes -/
theorem netSum_events (φ : NetRow → Nat) (hφ : ∀ e r, φ (netAdd e r) = φ r) (h0 : ∀ A, φ (NetRow.fresh A) = 0)
    (g : List NetRow) (es : List (Nat × Nat × Nat)) (A : Nat) :
    netSum φ (netFold (·.1) netAdd g es) A = netSum φ g A := by
  rw [netFold_sum (·.1) netAdd φ (fun _ => 0) (fun _ _ => rfl) h0 (fun e _ => by rw [hφ]; rfl) A es g]
  have : ∀ (l : List (Nat × Nat × Nat)), (l.map (fun _ => 0)).sum = 0 := by
    intro l; induction l with
    | nil => rfl
    | cons _ _ ih => simp [ih]
  rw [this]; rfl

theorem netOk_events (g : List NetRow) (es : List (Nat × Nat × Nat)) (hpos : ∀ e ∈ es, 0 < e.2.2) (ok : NetOk g) :
    NetOk (netFold (·.1) netAdd g es) :=
  netFold_ok (·.1) netAdd (fun _ _ => rfl) es
    (fun e he _ hr => ⟨counterAdd_keys_nodup _ _ _ hr.1, counterAdd_pos _ _ _ (hpos e he) hr.2⟩) g ok

end Traph

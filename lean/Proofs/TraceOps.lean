import Proofs.TraceCore
/-! Every model function and every public write request (except `clear`) is a `Trace`: a sequence of
    primitive ⊑-increasing storage writes. Same structure as Proofs/FrameOps.lean and Proofs/LeOps.lean,
    with `Le.trans` ↦ `Trace.trans`, `le_appendCell` ↦ `trace_appendCell`, … -/
namespace Traph
open State

/-! ### trie -/

theorem trace_appendCells : ∀ (cs : List Cell) (s : State), Trace s (s.appendCells cs)
  | [], s => Trace.refl s
  | c :: cs, s => by
    rw [appendCells]
    exact (trace_appendCell s c).trans (trace_appendCells cs _)

theorem trace_writeNew (s : State) (stem : Bytes) (p : Nat) (c : Bool) : Trace s (s.writeNew stem p c).1 := by
  unfold writeNew
  exact (trace_appendCell s _).trans (trace_appendCells _ _)

theorem trace_ensureStem (s : State) (start : Nat) (ex : Bool) (stem : Stem) :
    Trace s (s.ensureStem start ex stem).1 := by
  unfold ensureStem
  split
  · exact trace_writeNew _ _ _ _
  · split
    · exact Trace.refl s
    · exact Trace.refl s
    · rename_i last sl hf
      obtain ⟨c, hc, hslot⟩ := findSib_missing s stem _ _ _ _ hf
      refine (trace_writeNew s stem _ false).trans (trace_modCell _ _ _ ?_)
      intro c' hc'
      have hlast : last < s.trie.size := (Array.getElem?_eq_some_iff.mp hc).1
      rw [writeNew_old _ _ _ _ _ hlast, hc] at hc'
      cases hc'
      exact cellLe_setSlot c sl _ hslot

theorem trace_markCanHave (s : State) (n : Nat) (b : Bool) : Trace s (s.markCanHave n b) := by
  unfold markCanHave; split
  · exact trace_modCell _ _ _ (fun c _ => cellLe_clearNoChild c)
  · exact Trace.refl s

theorem trace_addLruDescend (flag : Bool) : ∀ (stems : List Stem) (s : State) (node : Nat) (ex : Bool)
    (pos : Nat) (h : Hist), Trace s (addLruDescend flag s stems node ex pos h).1 := by
  intro stems
  induction stems with
  | nil => intro s node ex pos h; simp only [addLruDescend]; exact Trace.refl s
  | cons stem rest ih =>
    intro s node ex pos h
    rcases he : s.ensureStem node ex stem with ⟨s1, n⟩
    have ht1 : Trace s s1 := by have := trace_ensureStem s node ex stem; rw [he] at this; exact this
    simp only [addLruDescend, he]
    split
    · exact ht1.trans ((trace_markCanHave _ _ _).trans (ih _ _ _ _ _))
    · exact ht1.trans (trace_markCanHave _ _ _)

theorem trace_addLruCreate (flag : Bool) : ∀ (stems : List Stem) (s : State) (node : Nat),
    node < s.trie.size → (stems ≠ [] → (s.cell node).child = 0) →
    Trace s (addLruCreate flag s stems node).1 := by
  intro stems
  induction stems with
  | nil => intro s node _ _; simp only [addLruCreate]; exact Trace.refl s
  | cons stem rest ih =>
    intro s node hn hch
    simp only [addLruCreate]
    rcases hw : s.writeNew stem node (!rest.isEmpty && flag) with ⟨s1, ch⟩
    have ht1 : Trace s s1 := by have := trace_writeNew s stem node (!rest.isEmpty && flag); rw [hw] at this; exact this
    have hidx : ch = s.trie.size := by have := writeNew_idx s stem node (!rest.isEmpty && flag); rw [hw] at this; exact this
    have hlt1 : s.trie.size < s1.trie.size := by have := size_lt_writeNew s stem node (!rest.isEmpty && flag); rw [hw] at this; exact this
    have ht2 : Trace s1 (s1.modCell node (fun c => { c with child := ch })) := by
      apply trace_modCell
      intro c hc
      apply cellLe_setChild
      have := writeNew_old s stem node (!rest.isEmpty && flag) node hn
      rw [hw] at this
      have h0 := hch (by simp)
      unfold cell at h0
      rw [← this, hc] at h0
      simpa using h0
    have hhead : s1.cell ch = headCell stem node (!rest.isEmpty && flag) := by
      have := cell_writeNew_head s stem node (!rest.isEmpty && flag); rw [hw] at this; rw [hidx]; exact this
    have ih' := ih (s1.modCell node (fun c => { c with child := ch })) ch (by simp; omega) (by
      intro _
      rw [cell_modCell]
      have hne : ¬ (node = ch ∧ ch < s1.trie.size) := by omega
      rw [if_neg hne, hhead]; rfl)
    exact ht1.trans (ht2.trans ih')

/-- `add_lru` -/
theorem trace_addLru (s : State) (stems : LRU) (flag : Bool) (h0 : 0 < s.trie.size) :
    Trace s (s.addLru stems flag).1 := by
  cases stems with
  | nil => simp only [addLru, addLruDescend, addLruCreate]; exact Trace.refl s
  | cons a r =>
    have hne : a :: r ≠ [] := by simp
    unfold addLru
    rcases hd : addLruDescend flag s (a :: r) 1 (decide (s.trie.size > 1)) 0 {} with ⟨s1, node, rest, h⟩
    obtain ⟨_, hlt, hch⟩ := addLruDescend_le flag (a :: r) s 1 (decide (s.trie.size > 1)) 0 {} h0
    have ht := trace_addLruDescend flag (a :: r) s 1 (decide (s.trie.size > 1)) 0 {}
    rw [hd] at ht hlt hch
    simp only at ht hlt hch ⊢
    have ht2 := trace_addLruCreate flag rest s1 node (hlt hne) (fun hr => hch hr hne)
    rcases hc : addLruCreate flag s1 rest node with ⟨s2, node2⟩
    rw [hc] at ht2
    exact ht.trans ht2

/-- `add_page` on the trie -/
theorem trace_addPageTrie (s : State) (stems : LRU) (crawled : Bool) (h0 : 0 < s.trie.size) :
    Trace s (s.addPageTrie stems crawled).1 := by
  unfold addPageTrie
  rcases ha : s.addLru stems false with ⟨s1, n, h⟩
  have ht := trace_addLru s stems false h0
  rw [ha] at ht
  simp only at ht ⊢
  split
  · exact ht.trans (trace_modCell _ _ _ (fun c _ => cellLe_flags_page c crawled))
  · split
    · exact ht.trans (trace_modCell _ _ _ (fun c _ => cellLe_flags_crawled c))
    · exact ht

theorem trace_foldl_modCell {α : Type} (g : α → Nat) (f : α → Cell → Cell) (hf : ∀ a c, CellLe c (f a c)) :
    ∀ (l : List α) (s : State), Trace s (l.foldl (fun st a => st.modCell (g a) (f a)) s)
  | [], s => Trace.refl s
  | a :: l, s => by
    rw [List.foldl_cons]
    exact (trace_modCell s (g a) (f a) (fun c _ => hf a c)).trans (trace_foldl_modCell g f hf l _)

/-! ### link store -/

theorem trace_addStubsGo : ∀ (targets : List Nat) (s : State) (tail : Nat), Trace s (s.addStubsGo tail targets).1
  | [], s, tail => by simp only [addStubsGo]; exact Trace.refl s
  | t :: ts, s, tail => by
    simp only [addStubsGo]
    exact (trace_appendStub s _).trans (trace_addStubsGo ts _ _)

theorem trace_addStubs (s : State) (page : Nat) (targets : List Nat) (out : Bool) :
    Trace s (s.addStubs page targets out) := by
  unfold addStubs
  split
  · exact Trace.refl s
  · exact (trace_addStubsGo targets s _).trans (trace_modCell _ _ _ (fun c _ => cellLe_setHead c out _))

theorem trace_flushLists (out : Bool) (pages : List (Bytes × Nat)) :
    ∀ (l : List (Bytes × List Bytes)) (s : State), Trace s (flushLists out pages s l)
  | [], s => by simp only [flushLists]; exact Trace.refl s
  | (p, others) :: rest, s => by
    simp only [flushLists]
    exact (trace_addStubs s _ _ out).trans (trace_flushLists out pages rest _)

/-! ### webentity edits and page insertion -/

theorem trace_genId (s : State) : Trace s s.genId.1 := trace_setHdr s _

theorem trace_addPrefixesScan : ∀ (ps : List Bytes) (s : State) (valid : List (Bytes × Nat)) (nInv : Nat),
    0 < s.trie.size → Trace s (s.addPrefixesScan ps valid nInv).1
  | [], s, valid, nInv, _ => by simp only [addPrefixesScan]; exact Trace.refl s
  | p :: ps, s, valid, nInv, h0 => by
    rcases ha : s.addLru (lruIter p) true with ⟨s1, n, h⟩
    have ht := trace_addLru s (lruIter p) true h0
    rw [ha] at ht
    simp only [addPrefixesScan, ha]
    split
    · exact ht.trans (trace_addPrefixesScan ps s1 _ _ (ht.pos h0))
    · exact ht.trans (trace_addPrefixesScan ps s1 _ _ (ht.pos h0))

theorem trace_addPrefixes (s : State) (prefixes : List Bytes) (best : Bool) (h0 : 0 < s.trie.size) :
    Trace s (s.addPrefixes prefixes best).1 := by
  rcases ha : s.addPrefixesScan prefixes [] 0 with ⟨s1, valid, nInv⟩
  have ht := trace_addPrefixesScan prefixes s [] 0 h0
  rw [ha] at ht
  simp only [addPrefixes, ha]
  split
  · exact ht
  · split
    · exact ht
    · exact ht.trans ((trace_genId s1).trans
        (trace_foldl_modCell (fun pn : Bytes × Nat => pn.2) (fun _ c => { c with we := s1.genId.2 })
          (fun _ c => cellLe_setWe c _) valid _))

theorem trace_createWebentityAuto (s : State) (pfx : Bytes) (h0 : 0 < s.trie.size) :
    Trace s (s.createWebentityAuto pfx).1 := by
  have ht := trace_addPrefixes s (lruVariations pfx) true h0
  unfold createWebentityAuto
  split <;> rename_i heq <;> rw [heq] at ht <;> exact ht

theorem trace_addPageCore (s : State) (lru : Bytes) (crawled : Bool) (h0 : 0 < s.trie.size) :
    Trace s (s.addPageCore lru crawled).1 := by
  rcases ha : s.addPageTrie (lruIter lru) crawled with ⟨s1, n, h⟩
  have ht := trace_addPageTrie s (lruIter lru) crawled h0
  rw [ha] at ht
  have h1 : 0 < s1.trie.size := ht.pos h0
  simp only at ht
  simp only [addPageCore, ha]
  repeat' split
  all_goals first | exact ht | exact ht.trans (trace_createWebentityAuto s1 _ h1)

theorem trace_addPage (s : State) (lru : Bytes) (crawled : Bool) (h0 : 0 < s.trie.size) :
    Trace s (s.addPage lru crawled).1 := by
  simp only [addPage]
  exact trace_addPageCore s lru crawled h0

theorem trace_addPagesGo (always : Bool) : ∀ (ls : List Bytes) (s : State) (crawled : Bool) (rep : Report),
    0 < s.trie.size → Trace s (addPagesGo always s ls crawled rep).1
  | [], s, crawled, rep, _ => by simp only [addPagesGo]; exact Trace.refl s
  | l :: ls, s, crawled, rep, h0 => by
    have ht := trace_addPageCore s l crawled h0
    rw [addPagesGo]
    split
    · rename_i s1 _ e heq
      rw [heq] at ht; exact ht
    · rename_i s1 n r heq
      rw [heq] at ht
      simp only at ht
      have h1 : 0 < s1.trie.size := ht.pos h0
      have ht2 : Trace s1 (if always = true then s1.modCell n (fun c => { c with flags := { c.flags with crawled := true } }) else s1) := by
        split
        · exact trace_modCell _ _ _ (fun c _ => cellLe_flags_crawled c)
        · exact Trace.refl s1
      exact ht.trans (ht2.trans (trace_addPagesGo always ls _ crawled _ (ht2.pos h1)))

theorem trace_addPages (s : State) (lrus : List Bytes) (crawled : Bool) (h0 : 0 < s.trie.size) :
    Trace s (s.addPages lrus crawled).1 := by
  unfold addPages
  exact trace_addPagesGo _ lrus s crawled {} h0

theorem trace_ensurePageCached (s : State) (acc : LinkAcc) (l : Bytes) (crawled : Bool) (h0 : 0 < s.trie.size) :
    Trace s (s.ensurePageCached acc l crawled).1 := by
  have ht := trace_addPageCore s l crawled h0
  unfold ensurePageCached
  split
  · exact Trace.refl s
  · split <;> rename_i heq <;> rw [heq] at ht <;> exact ht

theorem trace_addLinksScan : ∀ (links : List (Bytes × Bytes)) (s : State) (acc : LinkAcc),
    0 < s.trie.size → Trace s (addLinksScan s links acc).1
  | [], s, acc, _ => by simp only [addLinksScan]; exact Trace.refl s
  | (src, tgt) :: rest, s, acc, h0 => by
    have ht1 := trace_ensurePageCached s acc src false h0
    rw [addLinksScan]
    split
    · rename_i heq; rw [heq] at ht1; exact ht1
    · rename_i s1 acc1 heq
      rw [heq] at ht1
      simp only at ht1
      have h1 : 0 < s1.trie.size := ht1.pos h0
      have ht2 := trace_ensurePageCached s1 acc1 tgt false h1
      split
      · rename_i heq2; rw [heq2] at ht2; exact ht1.trans ht2
      · rename_i s2 acc2 heq2
        rw [heq2] at ht2
        simp only at ht2
        exact ht1.trans (ht2.trans (trace_addLinksScan rest s2 _ (ht2.pos h1)))

theorem trace_addLinks (s : State) (links : List (Bytes × Bytes)) (h0 : 0 < s.trie.size) :
    Trace s (s.addLinks links).1 := by
  have ht := trace_addLinksScan links s {} h0
  unfold addLinks
  split
  · rename_i heq; rw [heq] at ht; exact ht
  · rename_i s1 acc heq
    rw [heq] at ht
    simp only at ht ⊢
    exact ht.trans ((trace_flushLists true acc.pages acc.outl s1).trans (trace_flushLists false acc.pages acc.inl _))

theorem trace_batchTargets : ∀ (ts : List Bytes) (s : State) (src : Bytes) (acc : LinkAcc) (tb : List Nat),
    0 < s.trie.size → Trace s (batchTargets s src ts acc tb).1
  | [], s, src, acc, tb, _ => by simp only [batchTargets]; exact Trace.refl s
  | t :: ts, s, src, acc, tb, h0 => by
    have ht1 := trace_ensurePageCached s acc t false h0
    rw [batchTargets]
    split
    · rename_i heq; rw [heq] at ht1; exact ht1
    · rename_i s1 acc1 heq
      rw [heq] at ht1
      simp only at ht1
      exact ht1.trans (trace_batchTargets ts s1 src _ _ (ht1.pos h0))

theorem trace_batchSources : ∀ (data : List (Bytes × List Bytes)) (s : State) (acc : LinkAcc),
    0 < s.trie.size → Trace s (batchSources s data acc).1
  | [], s, acc, _ => by simp only [batchSources]; exact Trace.refl s
  | (src, tgts) :: rest, s, acc, h0 => by
    have ht1 : Trace s (match dictGet? acc.pages src with
        | none => s.ensurePageCached acc src true
        | some n =>
          if !(s.cell n).flags.crawled then
            (s.modCell n (fun c => { c with flags := { c.flags with crawled := true } }), Except.ok acc)
          else (s, Except.ok acc)).1 := by
      split
      · exact trace_ensurePageCached s acc src true h0
      · split
        · exact trace_modCell _ _ _ (fun c _ => cellLe_flags_crawled c)
        · exact Trace.refl s
    rw [batchSources]
    simp only
    split
    · rename_i heq; exact ht1.fst_of_eq heq
    · rename_i s1 acc1 heq
      replace ht1 : Trace s s1 := ht1.fst_of_eq heq
      have h1 : 0 < s1.trie.size := ht1.pos h0
      have ht2 := trace_batchTargets tgts s1 src acc1 [] h1
      split
      · rename_i heq2; rw [heq2] at ht2; exact ht1.trans ht2
      · rename_i s2 acc2 tb heq2
        rw [heq2] at ht2
        simp only at ht2
        have ht3 := trace_addStubs s2 ((dictGet? acc2.pages src).getD 0) tb true
        exact ht1.trans (ht2.trans (ht3.trans (trace_batchSources rest _ acc2 (ht3.pos (ht2.pos h1)))))

theorem trace_batch (s : State) (data : List (Bytes × List Bytes)) (h0 : 0 < s.trie.size) :
    Trace s (s.batch data).1 := by
  have ht := trace_batchSources data s {} h0
  unfold batch
  split
  · rename_i heq; rw [heq] at ht; exact ht
  · rename_i s1 acc heq
    rw [heq] at ht
    simp only at ht ⊢
    exact ht.trans (trace_flushLists false acc.pages acc.inl s1)

/-! ### creation rules -/

theorem trace_addRuleLoop (startBlock : Nat) : ∀ (fuel : Nat) (s : State) (stack : List (Nat × Bytes)) (rep : Report),
    0 < s.trie.size → Trace s (addRuleLoop startBlock fuel s stack rep).1
  | 0, s, stack, rep, _ => by simp only [addRuleLoop]; exact Trace.refl s
  | fuel + 1, s, [], rep, _ => by simp only [addRuleLoop]; exact Trace.refl s
  | fuel + 1, s, (b, lru) :: stack, rep, h0 => by
    have ht1 : Trace s (if (s.cell b).flags.page then
          (match s.addPageCore (lru ++ s.stemAt b) false with
           | (s1, _, .error e) => (s1, Except.error e)
           | (s1, _, .ok r1) => (s1, Except.ok (rep.add r1)))
        else (s, Except.ok rep) : State × Except Err Report).1 := by
      split
      · have := trace_addPageCore s (lru ++ s.stemAt b) false h0
        split <;> rename_i heq <;> exact this.fst_of_eq heq
      · exact Trace.refl s
    rw [addRuleLoop]
    simp only
    split
    · rename_i heq; exact ht1.fst_of_eq heq
    · rename_i s1 rep1 heq
      replace ht1 : Trace s s1 := ht1.fst_of_eq heq
      exact ht1.trans (trace_addRuleLoop startBlock fuel s1 _ _ (ht1.pos h0))

theorem trace_addRule (s : State) (anchor : Bytes) (r : Rule) (w : Bool) (h0 : 0 < s.trie.size) :
    Trace s (s.addRule anchor r w).1 := by
  have ht0 : Trace s { s with rules := dictSet s.rules anchor r } := Trace.of_eq rfl rfl rfl rfl
  rcases ha : State.addLru { s with rules := dictSet s.rules anchor r } (lruIter anchor) false with ⟨s1, n, h⟩
  have ht1 := trace_addLru { s with rules := dictSet s.rules anchor r } (lruIter anchor) false h0
  rw [ha] at ht1
  simp only at ht1
  simp only [addRule, ha]
  split
  · exact ht0
  · have ht2 : Trace s1 (s1.modCell n (fun c => { c with flags := { c.flags with rule := true } })) :=
      trace_modCell _ _ _ (fun c _ => cellLe_setRule c true)
    have h2 := ht2.pos (ht1.pos h0)
    exact ht0.trans (ht1.trans (ht2.trans (trace_addRuleLoop n _ _ _ _ h2)))

theorem trace_removeRule (s : State) (anchor : Bytes) : Trace s (s.removeRule anchor).1 := by
  unfold removeRule
  split
  · exact Trace.refl s
  · simp only
    split
    · exact Trace.of_eq rfl rfl rfl rfl
    · refine Trace.trans ?_ (trace_modCell _ _ _ (fun c _ => cellLe_setRule c false))
      exact Trace.of_eq rfl rfl rfl rfl

/-! ### webentities -/

theorem trace_createWebentity (s : State) (prefixes : List Bytes) (h0 : 0 < s.trie.size) :
    Trace s (s.createWebentity prefixes).1 := by
  have ht := trace_addPrefixes s prefixes false h0
  unfold createWebentity
  split <;> rename_i heq <;> exact ht.fst_of_eq heq

theorem trace_deleteWebentity (s : State) (weid : Nat) (prefixes : List Bytes) :
    Trace s (s.deleteWebentity weid prefixes).1 := by
  unfold deleteWebentity
  split
  · exact Trace.refl s
  · exact trace_foldl_modCell (fun pn : Bytes × Nat => pn.2) (fun _ c => { c with we := 0 })
      (fun _ c => cellLe_setWe c 0) _ s

theorem trace_addPrefix (s : State) (pfx : Bytes) (weid : Nat) (h0 : 0 < s.trie.size) :
    Trace s (s.addPrefix pfx weid).1 := by
  rcases ha : s.addLru (lruIter pfx) true with ⟨s1, n, h⟩
  have ht := trace_addLru s (lruIter pfx) true h0
  rw [ha] at ht
  simp only [addPrefix, ha]
  split
  · exact ht
  · exact ht.trans (trace_modCell _ _ _ (fun c _ => cellLe_setWe c weid))

theorem trace_removePrefix (s : State) (pfx : Bytes) (weid : Option Nat) (h0 : 0 < s.trie.size) :
    Trace s (s.removePrefix pfx weid).1 := by
  rcases ha : s.addLru (lruIter pfx) false with ⟨s1, n, h⟩
  have ht := trace_addLru s (lruIter pfx) false h0
  rw [ha] at ht
  simp only at ht
  simp only [removePrefix, ha]
  repeat' split
  all_goals first | exact ht | exact ht.trans (trace_modCell _ _ _ (fun c _ => cellLe_setWe c 0))

theorem trace_movePrefix (s : State) (pfx : Bytes) (target : Nat) (source : Option Nat) (h0 : 0 < s.trie.size) :
    Trace s (s.movePrefix pfx target source).1 := by
  have ht := trace_removePrefix s pfx source h0
  unfold movePrefix
  split
  · rename_i heq; exact ht.fst_of_eq heq
  · rename_i s1 _ heq
    replace ht : Trace s s1 := ht.fst_of_eq heq
    exact ht.trans (trace_addPrefix s1 pfx target (ht.pos h0))

theorem trace_reopen (s : State) (dflt : Rule) (rules : List (Bytes × Rule)) : Trace s (s.reopen dflt rules) :=
  Trace.of_eq rfl rfl rfl rfl

theorem trace_installRules : ∀ (rules : List (Bytes × Rule)) (s : State) (w : Bool),
    0 < s.trie.size → Trace s (installRules s rules w).1
  | [], s, w, _ => by simp only [installRules]; exact Trace.refl s
  | (a, r) :: rest, s, w, h0 => by
    have ht := trace_addRule s a r w h0
    rw [installRules]
    split
    · rename_i heq; exact ht.fst_of_eq heq
    · rename_i s1 _ heq
      replace ht : Trace s s1 := ht.fst_of_eq heq
      exact ht.trans (trace_installRules rest s1 w (ht.pos h0))

/-- a fresh index is a trace from the state that has just the two header blocks -/
theorem trace_fresh (cfg : Config) (dflt : Rule) (rules : List (Bytes × Rule)) (log : List Write) :
    Trace ({ cfg := cfg, dflt := dflt, log := .linkHdr :: .hdr 0 :: log } : State)
      (State.fresh cfg dflt rules log).1 := by
  unfold fresh
  exact trace_installRules rules _ true Nat.zero_lt_one

/-! ### every write request but `clear` is a trace -/

theorem step_trace (s : State) (op : Op) (hl : Live s) (hop : ∀ d rs, op ≠ .clear d rs) :
    Trace s (s.step op).1 := by
  cases op with
  | addPage l c => exact trace_addPage s l c hl.1
  | addPages ls c => exact trace_addPages s ls c hl.1
  | addLinks ls => exact trace_addLinks s ls hl.1
  | batch d => exact trace_batch s d hl.1
  | create ps => exact trace_createWebentity s ps hl.1
  | delete w ps => exact trace_deleteWebentity s w ps
  | addPrefix p w => exact trace_addPrefix s p w hl.1
  | removePrefix p w => exact trace_removePrefix s p w hl.1
  | movePrefix p t f => exact trace_movePrefix s p t f hl.1
  | addRule a r => exact trace_addRule s a r true hl.1
  | removeRule a => exact trace_removeRule s a
  | reopen d rs => exact trace_reopen s d rs
  | clear d rs => exact absurd rfl (hop d rs)

theorem run_trace : ∀ (ops : List Op) (s : State), Live s → (∀ op ∈ ops, ∀ d rs, op ≠ .clear d rs) →
    Trace s (s.run ops)
  | [], s, _, _ => Trace.refl s
  | op :: ops, s, hl, hop => by
    have h1 := step_trace s op hl (hop op (by simp))
    have h2 := run_trace ops (s.step op).1 (h1.live hl) (fun o ho => hop o (by simp [ho]))
    exact h1.trans h2

#print axioms step_trace
#print axioms run_trace

end Traph

import Proofs.CoDrain
import Proofs.TraverseDepth
import Proofs.DescendSpec
/-! C16 — the hypothesis `WeFin` of `Proofs/CoDrain.lean` ("every atomic walk ends within the atomic fuel") holds on every
    index that represents a search tree (`Shape`, proved of every reachable index): the drained generators give the
    atomic answers unconditionally there. -/
namespace Traph
open State

/-- the webentity walk over a stack of represented trees ends within `fuel` pops when `fuel` exceeds the number of
    nodes waiting -/
theorem weDfsFin_of_stackRep {s : State} (st : Nat) (d : Option Nat) :
    ∀ (fuel : Nat) (ts : List (T × Bytes × Nat)), StackRep s ts → stackSize ts < fuel →
      weDfsFin s st d fuel (ts.map (fun p => (p.1.root, p.2))) := by
  intro fuel
  induction fuel with
  | zero => intro ts _ hf; omega
  | succ f ih =>
    intro ts hs hf
    cases ts with
    | nil => simp [weDfsFin]
    | cons p ts =>
      obtain ⟨t, lru, lvl⟩ := p
      obtain ⟨hr, hn⟩ := hs (t, lru, lvl) (by simp)
      cases t with
      | nil => exact absurd rfl hn
      | node a l c r =>
        obtain ⟨h1, h2, h3⟩ := hr.cell_eq
        obtain ⟨ha, _, rl, rc, rr⟩ := hr
        have hts : StackRep s ts := hs.tail
        simp only [stackSize_cons, T.size] at hf
        simp only [List.map_cons, T.root_node, weDfsFin, weDfsPushD, h1, h2, h3]
        have hsib : (if a ≠ st then
              (if l.root ≠ 0 then (l.root, lru, lvl) ::
                  (if r.root ≠ 0 then (r.root, lru, lvl) :: ts.map (fun p => (p.1.root, p.2))
                   else ts.map (fun p => (p.1.root, p.2)))
               else (if r.root ≠ 0 then (r.root, lru, lvl) :: ts.map (fun p => (p.1.root, p.2))
                   else ts.map (fun p => (p.1.root, p.2))))
              else ts.map (fun p => (p.1.root, p.2)))
            = (if a = st then ts else pushIf l (lru, lvl) (pushIf r (lru, lvl) ts)).map
                (fun p => (p.1.root, p.2)) := by
          by_cases e : a = st
          · simp [e]
          · rw [if_pos e, if_neg e, pushIf_roots r (lru, lvl) ts rr, pushIf_roots l (lru, lvl) _ rl]
        rw [hsib]
        generalize hst : (if a = st then ts else pushIf l (lru, lvl) (pushIf r (lru, lvl) ts)) = stk
        have hst_rep : StackRep s stk := by
          subst hst; split
          · exact hts
          · exact (hts.pushIf rr).pushIf rl
        have hst_sz : stackSize stk ≤ l.size + r.size + stackSize ts := by
          subst hst; split
          · omega
          · rw [pushIf_size, pushIf_size]; omega
        have hchild : weDfsFin s st d f
            ((if c.root ≠ 0 then (c.root, lru ++ s.stemAt a, lvl + 1) :: stk.map (fun p => (p.1.root, p.2))
              else stk.map (fun p => (p.1.root, p.2)))) := by
          rw [pushIf_roots c (lru ++ s.stemAt a, lvl + 1) stk rc]
          exact ih _ (hst_rep.pushIf rc) (by rw [pushIf_size]; omega)
        have hplain : weDfsFin s st d f (stk.map (fun p => (p.1.root, p.2))) := ih _ hst_rep (by omega)
        by_cases hrel : (decide (a = st) || decide ((s.cell a).we = 0)) = true
        · by_cases hc0 : c.root = 0
          · simp only [hrel, hc0, ne_eq, not_true_eq_false, decide_false, Bool.and_false, Bool.false_eq_true, if_false]
            exact hplain
          · cases d with
            | none =>
              simp only [hrel, ne_eq, hc0, not_false_eq_true, decide_true, Bool.and_self, if_true]
              simpa [hc0] using hchild
            | some dd =>
              simp only [hrel, ne_eq, hc0, not_false_eq_true, decide_true, Bool.and_self, if_true]
              by_cases hlv : lvl ≥ dd
              · simp only [hlv, if_true]; exact hplain
              · simp only [hlv, if_false]
                simpa [hc0] using hchild
        · simp only [hrel, Bool.false_and, Bool.false_eq_true, if_false]
          exact hplain

/-- on an index representing a search tree, every walk of a request over well-formed prefixes ends in time -/
theorem weFin_of_shape {s : State} {t : T} (h : Shape s t) (d : Option Nat) (ps : List Bytes)
    (hwf : ∀ pf ∈ ps, lruIter pf ≠ []) : WeFin s d ps := by
  intro pf hpf nn hn
  have hP : (lruIter pf, nn) ∈ t.entries s [] := (lruNode_iff_entries h _ (hwf pf hpf) nn).mp hn
  obtain ⟨l, c, r, lo', hi', h1, _, _, h4, _⟩ :=
    subtree_at_ord (lruIter pf) t none none [] nn h.rep h.ord h.nodup (by simpa using hP)
  have hsz : (T.node nn l c r).size ≤ s.trie.size := Nat.le_trans h4 h.size_le
  have := weDfsFin_of_stackRep (s := s) nn d (s.trie.size + 1) [(T.node nn l c r, lruDirname pf, 0)]
    (by intro p hp; simp only [List.mem_singleton] at hp; subst hp; exact ⟨h1, by simp⟩)
    (by simp only [stackSize_cons, stackSize_nil]; omega)
  simpa using this

/-- **crawled pages, unconditionally on a well-formed index**: the drained generator = the atomic request -/
theorem crawled_drain_shape {s : State} {t : T} (h : Shape s t) (ps : List Bytes) (hwf : ∀ pf ∈ ps, lruIter pf ≠ [])
    (N : Nat) (hN : (s.trie.size + 2) * ps.length + 1 < N) :
    QSt.drain s N (.crawled { cur := { prefixes := ps } }) = s.ask (.crawledPages ps) :=
  crawled_drain s ps (weFin_of_shape h none ps hwf) N hN

/-- **most linked pages, unconditionally on a well-formed index** -/
theorem mostLinked_drain_shape {s : State} {t : T} (h : Shape s t) (ps : List Bytes) (k : Nat) (d : Option Nat)
    (hwf : ∀ pf ∈ ps, lruIter pf ≠ []) (N : Nat) (hN : (s.trie.size + 2) * ps.length < N) :
    QSt.drain s N (.mostLinked { cur := { prefixes := ps, depth := d }, k := k }) = s.ask (.mostLinked ps k d) :=
  mostLinked_drain s ps k d (weFin_of_shape h d ps hwf) N hN

#print axioms crawled_drain_shape
#print axioms mostLinked_drain_shape

end Traph

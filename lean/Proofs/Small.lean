import Traph
/-! Small self-contained facts about helper functions of `Api.lean`. -/
namespace Traph
open State

theorem mem_insertSorted (x y : Nat) : ∀ l : List Nat, y ∈ insertSorted x l ↔ y = x ∨ y ∈ l
  | [] => by simp [insertSorted]
  | z :: zs => by
    simp only [insertSorted]
    split
    · simp
    · split
      · rename_i _ h; subst h; simp
      · simp [mem_insertSorted x y zs]; constructor
        · rintro (h | h | h) <;> simp [h]
        · rintro (h | h | h) <;> simp [h]

theorem mem_sortDedup (y : Nat) (l : List Nat) : y ∈ sortDedup l ↔ y ∈ l := by
  unfold sortDedup
  suffices h : ∀ acc : List Nat, y ∈ l.foldl (fun acc x => insertSorted x acc) acc ↔ y ∈ acc ∨ y ∈ l by
    simpa using h []
  induction l with
  | nil => intro acc; simp
  | cons a as ih =>
    intro acc
    simp only [List.foldl_cons, ih, mem_insertSorted, List.mem_cons]
    constructor
    · rintro ((h | h) | h) <;> simp [h]
    · rintro (h | h | h) <;> simp [h]

/-- strictly ascending -/
def StrictAsc (l : List Nat) : Prop := l.Pairwise (· < ·)

theorem insertSorted_sorted (x : Nat) : ∀ l : List Nat, StrictAsc l → StrictAsc (insertSorted x l)
  | [], _ => by simp [insertSorted, StrictAsc]
  | z :: zs, h => by
    simp only [insertSorted]
    have hz := List.pairwise_cons.mp h
    split
    · rename_i hlt
      refine List.pairwise_cons.mpr ⟨?_, h⟩
      intro a ha
      simp only [List.mem_cons] at ha
      rcases ha with rfl | ha
      · exact hlt
      · exact Nat.lt_trans hlt (hz.1 a ha)
    · split
      · exact h
      · rename_i h1 h2
        refine List.pairwise_cons.mpr ⟨?_, insertSorted_sorted x zs hz.2⟩
        intro a ha
        rcases (mem_insertSorted x a zs).mp ha with rfl | ha
        · omega
        · exact hz.1 a ha

theorem sortDedup_sorted (l : List Nat) : StrictAsc (sortDedup l) := by
  unfold sortDedup
  suffices h : ∀ acc : List Nat, StrictAsc acc → StrictAsc (l.foldl (fun acc x => insertSorted x acc) acc) from
    h [] (by simp [StrictAsc])
  induction l with
  | nil => intro acc h; simpa using h
  | cons a as ih => intro acc h; exact ih _ (insertSorted_sorted a acc h)

/-- `Counter[k] += w` adds `w` to the total -/
theorem counterAdd_total (d : List (Nat × Nat)) (k w : Nat) :
    ((counterAdd d k w).map (·.2)).sum = (d.map (·.2)).sum + w := by
  induction d with
  | nil => simp [counterAdd]
  | cons a as ih =>
    obtain ⟨k', w'⟩ := a
    simp only [counterAdd]
    split
    · simp; omega
    · simp [ih]; omega

theorem counterAdd_keys_nodup (d : List (Nat × Nat)) (k w : Nat) (h : (d.map (·.1)).Nodup) :
    ((counterAdd d k w).map (·.1)).Nodup := by
  induction d with
  | nil => simp [counterAdd]
  | cons a as ih =>
    obtain ⟨k', w'⟩ := a
    simp only [counterAdd]
    simp only [List.map_cons, List.nodup_cons] at h
    split
    · simpa using h
    · rename_i hne
      simp only [List.map_cons, List.nodup_cons]
      refine ⟨?_, ih h.2⟩
      intro hm
      have : ∀ (d : List (Nat × Nat)), k' ∈ (counterAdd d k w).map (·.1) → k' = k ∨ k' ∈ d.map (·.1) := by
        intro d
        induction d with
        | nil => simp [counterAdd]
        | cons b bs ihb =>
          obtain ⟨kb, wb⟩ := b
          simp only [counterAdd]
          split
          · simp only [List.map_cons, List.mem_cons]; intro h; exact Or.inr h
          · simp only [List.map_cons, List.mem_cons]
            rintro (h | h)
            · exact Or.inr (Or.inl h)
            · rcases ihb h with h | h
              · exact Or.inl h
              · exact Or.inr (Or.inr h)
      rcases this as hm with h' | h'
      · exact hne h'
      · exact h.1 h'

/-- a walk history records a webentity id and its position together -/
theorem Hist.visit_inv (h : Hist) (c : Cell) (pos : Nat) (hi : h.we ≠ 0 ↔ h.wePos ≠ none) :
    (h.visit c pos).we ≠ 0 ↔ (h.visit c pos).wePos ≠ none := by
  unfold Hist.visit
  by_cases hw : c.we ≠ 0 <;> by_cases hr : c.flags.rule = true <;> simp [hw, hr, hi]

theorem followLruGo_inv (s : State) : ∀ (stems : List Stem) (node pos : Nat) (h : Hist),
    (h.we ≠ 0 ↔ h.wePos ≠ none) →
    ((s.followLruGo stems node pos h).2.we ≠ 0 ↔ (s.followLruGo stems node pos h).2.wePos ≠ none) := by
  intro stems
  induction stems with
  | nil => intro node pos h hi; simpa [followLruGo] using hi
  | cons stem rest ih =>
    intro node pos h hi
    simp only [followLruGo]
    split
    · rename_i i _
      split
      · exact Hist.visit_inv h _ _ hi
      · split
        · exact Hist.visit_inv h _ _ hi
        · exact ih _ _ _ (Hist.visit_inv h _ _ hi)
    · exact hi

theorem followLru_inv (s : State) (stems : LRU) :
    (s.followLru stems).2.we ≠ 0 ↔ (s.followLru stems).2.wePos ≠ none := by
  unfold followLru
  split
  · simp
  · exact followLruGo_inv s stems 1 0 {} (by simp)

/-- positions recorded by a walk never exceed the byte length walked so far and are positive when stems
    are non-empty -/
theorem Hist.visit_pos (h : Hist) (c : Cell) (pos bound : Nat) (hb : pos ≤ bound)
    (hi : ∀ p, h.wePos = some p → p ≤ bound) : ∀ p, (h.visit c pos).wePos = some p → p ≤ bound := by
  unfold Hist.visit
  intro p
  by_cases hw : c.we ≠ 0 <;> by_cases hr : c.flags.rule = true <;> simp [hw, hr] <;> intro hp
  all_goals first | (subst hp; exact hb) | exact hi p hp

end Traph

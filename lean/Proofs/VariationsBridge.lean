import Traph
/-! C17, part 1: generic facts about the byte-string utilities used by `lruVariations`
    (`startsWith`, `replaceFirst`, `splitOn`, `joinWith`). -/
namespace Traph
open Layout

/-! ### startsWith -/

@[simp] theorem startsWith_nil (b : Bytes) : startsWith b [] = true := by
  cases b <;> rfl

@[simp] theorem startsWith_cons_cons (a : Nat) (as : Bytes) (p : Nat) (ps : Bytes) :
    startsWith (a :: as) (p :: ps) = (a == p && startsWith as ps) := rfl

@[simp] theorem startsWith_nil_cons (p : Nat) (ps : Bytes) : startsWith [] (p :: ps) = false := rfl

theorem startsWith_append_self (p tl : Bytes) : startsWith (p ++ tl) p = true := by
  induction p with
  | nil => simp
  | cons a p ih => simp [ih]

theorem startsWith_append_append (p a b : Bytes) : startsWith (p ++ a) (p ++ b) = startsWith a b := by
  induction p with
  | nil => rfl
  | cons c p ih => simp [ih]

/-- two `sep`-closed, `sep`-free bodies: prefix test = equality -/
theorem startsWith_body (a b tl : Bytes) (ha : 124 ∉ a) (hb : 124 ∉ b) :
    startsWith (a ++ 124 :: tl) (b ++ [124]) = true ↔ a = b := by
  induction a generalizing b with
  | nil =>
    cases b with
    | nil => simp
    | cons d b =>
      have : d ≠ 124 := by intro h; exact hb (by simp [h])
      simp [Ne.symm this]
  | cons c a ih =>
    cases b with
    | nil =>
      have : c ≠ 124 := by intro h; exact ha (by simp [h])
      simp [this]
    | cons d b =>
      have ha' : 124 ∉ a := fun h => ha (by simp [h])
      have hb' : 124 ∉ b := fun h => hb (by simp [h])
      simp [ih b ha' hb']

/-! ### replaceFirst -/

theorem replaceFirst_prefix (old new tl : Bytes) (h : old ≠ []) :
    replaceFirst old new (old ++ tl) = new ++ tl := by
  cases old with
  | nil => exact absurd rfl h
  | cons a old =>
    show (if startsWith (a :: old ++ tl) (a :: old) then _ else _) = _
    rw [if_pos (startsWith_append_self (a :: old) tl)]
    simp

/-- no byte 104 ('h') immediately followed by 58 (':'), and the last byte is not 104 -/
def NoHC : Bytes → Prop
  | [] => True
  | [c] => c ≠ 104
  | c :: d :: r => (c ≠ 104 ∨ d ≠ 58) ∧ NoHC (d :: r)

theorem NoHC_cons_ne (c : Nat) (r : Bytes) (hc : c ≠ 104) (hr : NoHC r) : NoHC (c :: r) := by
  cases r with
  | nil => exact hc
  | cons d r => exact ⟨Or.inl hc, hr⟩

theorem NoHC_no58 (l r : Bytes) (hl : ∀ c ∈ l, c ≠ 58) (hr : NoHC (124 :: r)) : NoHC (l ++ 124 :: r) := by
  induction l with
  | nil => exact hr
  | cons c l ih =>
    have ih' := ih (fun c hc => hl c (by simp [hc]))
    cases l with
    | nil => exact ⟨Or.inr (by decide), hr⟩
    | cons d l => exact ⟨Or.inr (hl d (by simp)), ih'⟩

/-- a prefix without "h:" is skipped by `replaceFirst` of anything that starts with "h:" -/
theorem replaceFirst_skip (pre o new tl : Bytes) (h : NoHC pre) :
    replaceFirst (104 :: 58 :: o) new (pre ++ tl) = pre ++ replaceFirst (104 :: 58 :: o) new tl := by
  induction pre with
  | nil => rfl
  | cons c pre ih =>
    cases pre with
    | nil =>
      have hc : c ≠ 104 := h
      show (if startsWith (c :: tl) (104 :: 58 :: o) then _ else _) = _
      rw [if_neg (by simp [hc])]
      rfl
    | cons d pre =>
      obtain ⟨h1, h2⟩ := h
      show (if startsWith (c :: d :: (pre ++ tl)) (104 :: 58 :: o) then _ else _) = _
      rw [if_neg (by rcases h1 with h1 | h1 <;> simp [h1])]
      show c :: replaceFirst _ _ ((d :: pre) ++ tl) = _
      rw [ih h2]
      rfl

/-! ### splitOn / joinWith -/

theorem splitOnGo_body (b r cur : Bytes) (hb : 124 ∉ b) :
    splitOnGo 124 (b ++ 124 :: r) cur = (cur.reverse ++ b) :: splitOnGo 124 r [] := by
  induction b generalizing cur with
  | nil => simp [splitOnGo]
  | cons c b ih =>
    have hc : c ≠ 124 := by intro h; exact hb (by simp [h])
    have hb' : 124 ∉ b := fun h => hb (by simp [h])
    show (if (c == 124) = true then _ else _) = _
    rw [if_neg (by simp [hc])]
    show splitOnGo 124 (b ++ 124 :: r) (c :: cur) = _
    rw [ih (c :: cur) hb']
    simp

/-- splitting a concatenation of `sep`-closed bodies gives the bodies back, plus a final empty piece -/
theorem splitOn_flatten (bodies : List Bytes) (h : ∀ b ∈ bodies, 124 ∉ b) :
    splitOn 124 (bodies.map (· ++ [124])).flatten = bodies ++ [[]] := by
  induction bodies with
  | nil => rfl
  | cons b bodies ih =>
    have := splitOnGo_body b (bodies.map (· ++ [124])).flatten [] (h b (by simp))
    simp only [List.map_cons, List.flatten_cons, List.append_assoc, List.singleton_append, splitOn]
    rw [this]
    simp only [splitOn] at ih
    rw [ih (fun b hb => h b (by simp [hb]))]
    simp

theorem joinWith_cons_cons (a b : Bytes) (l : List Bytes) :
    joinWith 124 (a :: b :: l) = a ++ 124 :: joinWith 124 (b :: l) := rfl

/-- `sep.join(parts) + sep` is the concatenation of the `sep`-closed parts (non-empty list) -/
theorem joinWith_sep (l : List Bytes) (h : l ≠ []) :
    joinWith 124 l ++ [124] = (l.map (· ++ [124])).flatten := by
  induction l with
  | nil => exact absurd rfl h
  | cons a l ih =>
    cases l with
    | nil => simp [joinWith]
    | cons b l =>
      rw [joinWith_cons_cons, List.append_assoc, List.cons_append, ih (by simp)]
      simp

end Traph

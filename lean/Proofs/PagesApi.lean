import Proofs.PageSet
import Proofs.ForPrefixes
import Proofs.MarksInsert
/-! C05 at the API level: `get_webentity_pages(weid, prefixes)` / `get_webentity_crawled_pages`, asked with the
    full current prefix list of the webentity, in any order.

    * `IsPrefixOf s w P` / `Prefixes s t w P`: `P` is a stored path whose block carries webentity id `w`;
      `FullPrefixList s w ps`: the byte strings `ps` cut (by `lru_iter`) into exactly those paths.
    * `resolveAlong_entry_iff`: resolution of a stored path, in terms of the finite map: the id at the longest
      stored stem-prefix carrying one.
    * `weDfs_walk_iff`: the walk from a prefix node, in terms of the finite map.
    * `C05_member`, `C05_nodup`, `C05_partition`, `C05_crawled`, and `C05_reachable` for every reachable state.

    What the model (= the code) does with a prefix given twice: the pages below it are listed twice
    (`C05_count`); a nested prefix of the *same* webentity does not cause repetitions, because the walk is
    cut by every node carrying a webentity id, whatever the id. -/
namespace Traph
open State

/-! ### A. the subtree hanging below a stored path (no mark invariant needed) -/

theorem sib_subtree_ord {s : State} : ∀ (u : T) (lo hi : Option Stem) (a : Nat), Rep s u → OrdT s u lo hi →
    u.addrs.Nodup → a ∈ u.sibs →
    ∃ l r lo' hi', Rep s (.node a l (u.childAt a) r) ∧ OrdT s (.node a l (u.childAt a) r) lo' hi' ∧
      (T.node a l (u.childAt a) r).addrs.Nodup ∧ (T.node a l (u.childAt a) r).size ≤ u.size
  | .nil, _, _, a, _, _, _, h => by simp [T.sibs] at h
  | .node d l c r, lo, hi, a, hr, ho, hnd, h => by
    have hn := T.nodup_node hnd
    simp only [T.sibs, List.mem_append, List.mem_cons] at h
    rcases h with h | h | h
    · rw [T.childAt_node_left hnd h]
      obtain ⟨l', r', lo', hi', h1, h2, h3, h4⟩ := sib_subtree_ord l _ _ a hr.2.2.1 ho.2.2.1 hn.2.2.2.1 h
      exact ⟨l', r', lo', hi', h1, h2, h3, by simp only [T.size] at h4 ⊢; omega⟩
    · subst h
      rw [T.childAt_node_self]; exact ⟨l, r, lo, hi, hr, ho, hnd, Nat.le_refl _⟩
    · rw [T.childAt_node_right hnd h]
      obtain ⟨l', r', lo', hi', h1, h2, h3, h4⟩ :=
        sib_subtree_ord r _ _ a hr.2.2.2.2 ho.2.2.2.1 hn.2.2.2.2.2.1 h
      exact ⟨l', r', lo', hi', h1, h2, h3, by simp only [T.size] at h4 ⊢; omega⟩

/-- the node stored under `pre ++ stems` is the root of a represented, ordered, duplicate-free subtree whose
    child tree holds exactly the entries whose path properly extends `pre ++ stems` -/
theorem subtree_at_ord {s : State} : ∀ (stems : List Stem) (u : T) (lo hi : Option Stem) (pre : LRU) (a : Nat),
    Rep s u → OrdT s u lo hi → u.addrs.Nodup → (pre ++ stems, a) ∈ u.entries s pre →
    ∃ l c r lo' hi', Rep s (.node a l c r) ∧ OrdT s (.node a l c r) lo' hi' ∧
      (T.node a l c r).addrs.Nodup ∧ (T.node a l c r).size ≤ u.size ∧
      ∀ q b, (q, b) ∈ c.entries s (pre ++ stems) ↔
        ((q, b) ∈ u.entries s pre ∧ ∃ x rest, q = pre ++ (stems ++ x :: rest)) := by
  intro stems
  induction stems with
  | nil =>
    intro u lo hi pre a _ _ _ hent
    obtain ⟨x, rest, e⟩ := entries_prefix _ _ _ _ hent
    have := congrArg List.length e
    simp at this
  | cons stem tl ih =>
    intro u lo hi pre a hr hord hnd hent
    obtain ⟨a0, hmem, hfa, hcase⟩ := entry_head_find hord hnd hent
    obtain ⟨_, hst⟩ := T.find_sound u a0 hfa
    obtain ⟨l0, r0, lo0, hi0, h1, h2, h3, h4⟩ := sib_subtree_ord u lo hi a0 hr hord hnd hmem
    have E : ∀ (tl' : List Stem) (b : Nat), tl' ≠ [] →
        ((pre ++ stem :: tl', b) ∈ u.entries s pre ↔
          (pre ++ stem :: tl', b) ∈ (u.childAt a0).entries s (pre ++ [stem])) := by
      intro tl' b htl'
      constructor
      · intro hq
        obtain ⟨a1, _, hf1, hc1⟩ := entry_head_find hord hnd hq
        rw [hfa] at hf1
        cases hf1
        rcases hc1 with ⟨e, _⟩ | ⟨_, hin⟩
        · exact absurd e htl'
        · exact hin
      · intro hin
        have := T.childAt_entries (s := s) (x := (pre ++ stem :: tl', b)) u pre a0 hmem
          (by rw [hst]; exact hin)
        exact this
    rcases hcase with ⟨htl, hba⟩ | ⟨htl, hin⟩
    · subst htl; subst hba
      refine ⟨l0, u.childAt a, r0, lo0, hi0, h1, h2, h3, h4, fun q b => ?_⟩
      constructor
      · intro hc
        obtain ⟨x, rest, e⟩ := entries_prefix _ _ _ _ hc
        have e' : q = pre ++ stem :: (x :: rest) := by rw [e]; simp
        subst e'
        exact ⟨(E (x :: rest) b (by simp)).mpr hc, x, rest, by simp⟩
      · rintro ⟨hq, x, rest, e⟩
        have e' : q = pre ++ stem :: (x :: rest) := by rw [e]; simp
        subst e'
        exact (E (x :: rest) b (by simp)).mp hq
    · have hord' := OrdT.childAt u lo hi a0 hord hmem
      have hnd' := T.childAt_nodup u a0 hnd hmem
      have hin' : (pre ++ [stem] ++ tl, a) ∈ (u.childAt a0).entries s (pre ++ [stem]) := by
        simpa using hin
      obtain ⟨l, c, r, lo', hi', g1, g2, g3, g4, hiff⟩ :=
        ih (u.childAt a0) none none (pre ++ [stem]) a h1.2.2.2.1 hord' hnd' hin'
      have hsz := T.childAt_size u a0
      refine ⟨l, c, r, lo', hi', g1, g2, g3, by omega, fun q b => ?_⟩
      have hpath : pre ++ [stem] ++ tl = pre ++ stem :: tl := by simp
      rw [hpath] at hiff
      constructor
      · intro hc
        obtain ⟨hin2, x, rest, e⟩ := (hiff q b).mp hc
        have e' : q = pre ++ stem :: (tl ++ x :: rest) := by rw [e]; simp
        subst e'
        exact ⟨(E (tl ++ x :: rest) b (by simp)).mpr hin2, x, rest, by simp⟩
      · rintro ⟨hq, x, rest, e⟩
        have e' : q = pre ++ stem :: (tl ++ x :: rest) := by rw [e]; simp
        subst e'
        exact (hiff _ b).mpr ⟨(E (tl ++ x :: rest) b (by simp)).mp hq, x, rest, by simp⟩

/-- the finite map of a tree read below a longer prefix is the same map with the prefix prepended -/
theorem pa_entries_shift {s : State} : ∀ (u : T) (pre pre' : LRU),
    u.entries s (pre ++ pre') = (u.entries s pre').map (fun x => (pre ++ x.1, x.2))
  | .nil, _, _ => by simp [T.entries]
  | .node a l c r, pre, pre' => by
    simp only [T.entries, List.map_append, List.map_cons, List.append_assoc]
    rw [pa_entries_shift l pre pre', pa_entries_shift r pre pre']
    have := pa_entries_shift (s := s) c pre (pre' ++ [s.stemAt a])
    rw [this]

theorem pa_entries_shift_mem {s : State} (u : T) (pre q : LRU) (b : Nat) :
    (pre ++ q, b) ∈ u.entries s pre ↔ (q, b) ∈ u.entries s [] := by
  have := pa_entries_shift (s := s) u pre []
  rw [List.append_nil] at this
  rw [this, List.mem_map]
  constructor
  · rintro ⟨⟨q', b'⟩, hm, e⟩
    simp only [Prod.mk.injEq] at e
    obtain ⟨e1, rfl⟩ := e
    have : q' = q := List.append_cancel_left e1
    subst this; exact hm
  · intro hm; exact ⟨(q, b), hm, rfl⟩

/-! ### B. resolution of a stored path in terms of the finite map -/

/-- the last non-null id of a list, by position -/
theorem lastWe_eq_iff_getElem {w : Nat} (hw : w ≠ 0) : ∀ (l : List Nat),
    lastWe l = w ↔ ∃ k : Nat, l[k]? = some w ∧ ∀ j : Nat, k < j → ∀ y, l[j]? = some y → y = 0
  | [] => by simp [hw.symm]
  | x :: l => by
    have ih := lastWe_eq_iff_getElem hw l
    rw [lastWe_cons, lastWeFrom_eq]
    by_cases hl : lastWe l ≠ 0
    · rw [if_pos hl, ih]
      constructor
      · rintro ⟨k, hk, hz⟩
        refine ⟨k + 1, by simpa using hk, fun j hj y hy => ?_⟩
        cases j with
        | zero => omega
        | succ j => exact hz j (by omega) y (by simpa using hy)
      · rintro ⟨k, hk, hz⟩
        cases k with
        | zero =>
          exfalso
          apply hl
          rw [lastWe_eq_zero_iff]
          intro y hy
          obtain ⟨j, hj, rfl⟩ := List.getElem_of_mem hy
          exact hz (j + 1) (by omega) _ (by simp [hj])
        | succ k =>
          refine ⟨k, by simpa using hk, fun j hj y hy => ?_⟩
          exact hz (j + 1) (by omega) y (by simpa using hy)
    · rw [if_neg hl]
      have hl0 : lastWe l = 0 := by omega
      have hall := (lastWe_eq_zero_iff l).mp hl0
      constructor
      · rintro rfl
        refine ⟨0, by simp, fun j hj y hy => ?_⟩
        cases j with
        | zero => omega
        | succ j =>
          simp only [List.getElem?_cons_succ] at hy
          exact hall y (List.mem_of_getElem? hy)
      · rintro ⟨k, hk, hz⟩
        cases k with
        | zero => simpa using hk
        | succ k =>
          simp only [List.getElem?_cons_succ] at hk
          exact absurd (hall w (List.mem_of_getElem? hk)) hw

/-- the `k`-th id met by the descent of a stored path is the id of the node stored under its first `k+1`
    stems -/
theorem pa_pathWes_getElem {s : State} {u : T} {lo hi : Option Stem} (hord : OrdT s u lo hi)
    (hnd : u.addrs.Nodup) {pre X : LRU} {b : Nat} (h : (pre ++ X, b) ∈ u.entries s pre)
    (k : Nat) (hk : k < X.length) :
    ∃ a, (pre ++ X.take (k + 1), a) ∈ u.entries s pre ∧ (u.pathWes s X)[k]? = some (s.cell a).we := by
  have hlen := pathCells_length_of_entry hord hnd h
  have hlt : k < (u.pathCells s X).length := by omega
  have hget : (u.pathCells s X)[k]? = some ((u.pathCells s X)[k]) := List.getElem?_eq_getElem hlt
  refine ⟨((u.pathCells s X)[k]).1, (pathCells_entries_getElem? X u lo hi pre hord hnd k _ hget).1, ?_⟩
  unfold T.pathWes
  rw [List.getElem?_map, hget]; rfl

/-- RESOLUTION, finite-map phrasing: a stored path resolves to `w ≠ 0` iff `w` is attached to one of its
    stored stem-prefixes and no longer stem-prefix (the path itself included) carries a webentity -/
theorem resolveAlong_entry_iff {s : State} {u : T} {lo hi : Option Stem} (hord : OrdT s u lo hi)
    (hnd : u.addrs.Nodup) {pre X : LRU} {b : Nat} (h : (pre ++ X, b) ∈ u.entries s pre)
    {w : Nat} (hw : w ≠ 0) :
    u.resolveAlong s X 0 = w ↔
      ∃ k a, 0 < k ∧ k ≤ X.length ∧ (pre ++ X.take k, a) ∈ u.entries s pre ∧ (s.cell a).we = w ∧
        ∀ j, k < j → j ≤ X.length → ∀ a', (pre ++ X.take j, a') ∈ u.entries s pre → (s.cell a').we = 0 := by
  have hlen : (u.pathWes s X).length = X.length := by
    unfold T.pathWes; rw [List.length_map]; exact pathCells_length_of_entry hord hnd h
  unfold T.resolveAlong
  rw [lastWeFrom_zero, lastWe_eq_iff_getElem hw]
  constructor
  · rintro ⟨k, hk, hz⟩
    have hkl : k < X.length := by
      rw [← hlen]; exact (List.getElem?_eq_some_iff.mp hk).1
    obtain ⟨a, ha, hwa⟩ := pa_pathWes_getElem hord hnd h k hkl
    rw [hk] at hwa
    refine ⟨k + 1, a, by omega, by omega, ha, (Option.some.inj hwa).symm, fun j hj hjl a' ha' => ?_⟩
    obtain ⟨a'', ha'', hwa''⟩ := pa_pathWes_getElem hord hnd h (j - 1) (by omega)
    have e1 : j - 1 + 1 = j := by omega
    rw [e1] at ha''
    have := entries_path_injective hord hnd ha' ha''
    subst this
    exact hz (j - 1) (by omega) _ hwa''
  · rintro ⟨k, a, hk0, hkl, ha, hwa, hz⟩
    obtain ⟨a', ha', hwa'⟩ := pa_pathWes_getElem hord hnd h (k - 1) (by omega)
    have e1 : k - 1 + 1 = k := by omega
    rw [e1] at ha'
    have := entries_path_injective hord hnd ha ha'
    subst this
    refine ⟨k - 1, by rw [hwa', hwa], fun j hj y hy => ?_⟩
    have hjl : j < X.length := by
      rw [← hlen]; exact (List.getElem?_eq_some_iff.mp hy).1
    obtain ⟨a'', ha'', hwa''⟩ := pa_pathWes_getElem hord hnd h j hjl
    rw [hy] at hwa''
    rw [Option.some.inj hwa'']
    exact hz (j + 1) (by omega) (by omega) a'' ha''

/-! ### C. the walk from a prefix node in terms of the finite map -/

/-- the start LRU of the walk: the dirname of the prefix plus the stem of its node is the prefix itself
    (bytes after the last separator are dropped by `lru_iter`) -/
theorem pa_dirname_stem {s : State} {t : T} (h : Shape s t) {p : Bytes} {n : Nat}
    (hP : (lruIter p, n) ∈ t.entries s []) : lruDirname p ++ s.stemAt n = (lruIter p).flatten := by
  obtain ⟨q, e, _⟩ := entries_last_and_ptrs t [] _ n h.rep hP
  unfold lruDirname Traph.flatten
  rw [e]; simp

/-- the take of an extension, past the prefix -/
theorem pa_take_append_add {α : Type} (P q : List α) (k : Nat) : (P ++ q).take (P.length + k) = P ++ q.take k := by
  rw [List.take_append, List.take_of_length_le (by omega)]
  simp

/-- WALK, finite-map phrasing: the walk of `webentity_dfs_iter` started at the node of the stored prefix `p`
    meets exactly the stored paths extending the prefix such that no stem-prefix strictly longer than the
    prefix (the path itself included) carries a webentity; it reports the flattened path -/
theorem weDfs_walk_iff {s : State} {t : T} (h : Shape s t) {p : Bytes} {n : Nat}
    (hP : (lruIter p, n) ∈ t.entries s []) (b : Nat) (lru : Bytes) :
    (b, lru) ∈ s.weDfs n p none ↔
      ∃ X, (X, b) ∈ t.entries s [] ∧ lruIter p <+: X ∧ lru = X.flatten ∧
        ∀ j, (lruIter p).length < j → j ≤ X.length → ∀ b', (X.take j, b') ∈ t.entries s [] →
          (s.cell b').we = 0 := by
  generalize hPe : lruIter p = P at hP
  have hdir : lruDirname p ++ s.stemAt n = P.flatten := by rw [← hPe]; exact pa_dirname_stem h (hPe ▸ hP)
  obtain ⟨l, c, r, lo', hi', h1, h2, h3, h4, hiff⟩ :=
    subtree_at_ord P t none none [] n h.rep h.ord h.nodup (by simpa using hP)
  simp only [List.nil_append] at hiff
  have hsz : (T.node n l c r).size ≤ s.trie.size := Nat.le_trans h4 h.size_le
  have hc : ∀ q b, (q, b) ∈ c.entries s [] ↔ ((P ++ q, b) ∈ t.entries s [] ∧ q ≠ []) := by
    intro q b
    rw [← pa_entries_shift_mem c P q b, hiff]
    constructor
    · rintro ⟨hm, x, rest, e⟩
      have : q = x :: rest := List.append_cancel_left e
      exact ⟨hm, by rw [this]; simp⟩
    · rintro ⟨hm, hq⟩
      cases q with
      | nil => exact absurd rfl hq
      | cons x rest => exact ⟨hm, x, rest, rfl⟩
  rw [weDfs_mem_iff h1 hsz h2 h3 p b lru, hdir]
  constructor
  · rintro (⟨rfl, rfl⟩ | ⟨q, hne, hq, rfl, hz⟩)
    · exact ⟨P, hP, List.prefix_refl _, rfl, fun j hj1 hj2 => by omega⟩
    · refine ⟨P ++ q, ((hc q b).mp hq).1, List.prefix_append _ _, by simp, fun j hj1 hj2 b' hb' => ?_⟩
      rw [List.length_append] at hj2
      have ej : j = P.length + (j - P.length) := by omega
      rw [ej, pa_take_append_add] at hb'
      refine hz (j - P.length) (by omega) (by omega) b' ((hc _ _).mpr ⟨hb', ?_⟩)
      intro e
      have := congrArg List.length e
      rw [List.length_take] at this
      have hql : 0 < q.length := List.length_pos_iff.mpr hne
      simp only [List.length_nil] at this
      omega
  · rintro ⟨X, hX, ⟨q, rfl⟩, rfl, hz⟩
    by_cases hq : q = []
    · subst hq
      rw [List.append_nil] at hX
      have := entries_path_injective h.ord h.nodup hX hP
      subst this
      exact Or.inl ⟨rfl, by simp⟩
    · refine Or.inr ⟨q, hq, (hc q b).mpr ⟨hX, hq⟩, by simp, fun k hk1 hk2 b' hb' => ?_⟩
      have hb := ((hc _ _).mp hb').1
      refine hz (P.length + k) (by omega) (by rw [List.length_append]; omega) b' ?_
      rw [pa_take_append_add]; exact hb

/-! ### D. prefixes of a webentity, full prefix lists -/

/-- `P` is a prefix of webentity `w`, in the model's own terms: a non-empty stem path that `lru_node` finds,
    whose node carries the id `w` -/
def IsPrefixOf (s : State) (w : Nat) (P : LRU) : Prop :=
  P ≠ [] ∧ ∃ n, s.lruNode P = some n ∧ (s.cell n).we = w

/-- the same in terms of the finite map of the ghost tree -/
def Prefixes (s : State) (t : T) (w : Nat) (P : LRU) : Prop :=
  ∃ n, (P, n) ∈ t.entries s [] ∧ (s.cell n).we = w

theorem pa_entry_ne_nil {s : State} {u : T} {X : LRU} {b : Nat} (h : (X, b) ∈ u.entries s []) : X ≠ [] := by
  obtain ⟨x, rest, e⟩ := entries_prefix _ _ _ _ h
  rw [e]; simp

theorem isPrefixOf_iff {s : State} {t : T} (h : Shape s t) (w : Nat) (P : LRU) :
    IsPrefixOf s w P ↔ Prefixes s t w P := by
  constructor
  · rintro ⟨hne, n, hn, hw⟩
    exact ⟨n, (lruNode_iff_entries h P hne n).mp hn, hw⟩
  · rintro ⟨n, hn, hw⟩
    exact ⟨pa_entry_ne_nil hn, n, (lruNode_iff_entries h P (pa_entry_ne_nil hn) n).mpr hn, hw⟩

/-- `ps` is the full prefix list of the webentity `w ≠ 0`, in any order (and possibly with repetitions):
    cut into stems, the byte strings of `ps` are exactly the prefixes of `w` -/
structure FullPrefixList (s : State) (w : Nat) (ps : List Bytes) : Prop where
  ne : w ≠ 0
  full : ∀ P, P ∈ ps.map lruIter ↔ IsPrefixOf s w P

/-- `retrieve_webentity`, for a byte string with at least one stem: the abstract resolution -/
theorem pa_retrieveWebentity_iff {s : State} {t : T} (h : Shape s t) (lru : Bytes) (hne : lruIter lru ≠ [])
    {w : Nat} (hw : w ≠ 0) :
    s.retrieveWebentity lru = .ok w ↔ t.resolveAlong s (lruIter lru) 0 = w := by
  unfold retrieveWebentity
  rw [← followLru_we_resolveAlong h _ hne]
  simp only
  split
  · rename_i h0
    constructor
    · intro hh; cases hh
    · intro hh; rw [h0] at hh; exact absurd hh.symm hw
  · constructor
    · intro hh; cases hh; rfl
    · intro hh; rw [hh]

/-- the answer for one prefix -/
def onePrefix (s : State) (n : Nat) (p : Bytes) : List (Bytes × Bool) :=
  ((s.weDfs n p none).filter (fun bl => (s.cell bl.1).flags.page)).map
    (fun bl => (bl.2, (s.cell bl.1).flags.crawled))

theorem pa_webentityPages_eq (s : State) (ps : List Bytes) :
    s.webentityPages ps = s.forPrefixes ps (onePrefix s) := rfl

/-- the answer for one stored prefix, in terms of the finite map -/
theorem onePrefix_mem {s : State} {t : T} (h : Shape s t) {p : Bytes} {n : Nat}
    (hP : (lruIter p, n) ∈ t.entries s []) (lru : Bytes) (c : Bool) :
    (lru, c) ∈ onePrefix s n p ↔
      ∃ X b, (X, b) ∈ t.entries s [] ∧ (s.cell b).flags.page = true ∧ c = (s.cell b).flags.crawled ∧
        lru = X.flatten ∧ lruIter p <+: X ∧
        ∀ j, (lruIter p).length < j → j ≤ X.length → ∀ b', (X.take j, b') ∈ t.entries s [] →
          (s.cell b').we = 0 := by
  unfold onePrefix
  simp only [List.mem_map, List.mem_filter, Prod.mk.injEq]
  constructor
  · rintro ⟨⟨b, lru'⟩, ⟨hbl, hpg⟩, rfl, rfl⟩
    obtain ⟨X, hX, hpx, hl, hz⟩ := (weDfs_walk_iff h hP b lru').mp hbl
    exact ⟨X, b, hX, hpg, rfl, hl, hpx, hz⟩
  · rintro ⟨X, b, hX, hpg, rfl, rfl, hpx, hz⟩
    exact ⟨(b, X.flatten), ⟨(weDfs_walk_iff h hP b _).mpr ⟨X, hX, hpx, rfl, hz⟩, hpg⟩, rfl, rfl⟩

/-! ### E. C05 -/

/-- under a full prefix list the request is answered (no prefix is unknown) -/
theorem C05_ok {s : State} {w : Nat} {ps : List Bytes} (hf : FullPrefixList s w ps) :
    ∃ l, s.webentityPages ps = .ok l := by
  cases hl : s.webentityPages ps with
  | ok l => exact ⟨l, rfl⟩
  | error e =>
    obtain ⟨_, p, hp, hn⟩ := forPrefixes_err s ps _ e hl
    obtain ⟨_, n, hn', _⟩ := (hf.full _).mp (List.mem_map.mpr ⟨p, hp, rfl⟩)
    rw [hn] at hn'; cases hn'

/-- C05, membership: asked with its full prefix list (any order), the webentity `w` is answered exactly the
    indexed pages that resolve to `w`, each with its current crawled mark. (The LRU of an answer is the
    concatenation of its stems, hence `lru = (lruIter lru).flatten`.) -/
theorem C05_member {s : State} {t : T} (h : Shape s t) (hi : Inv s t) {w : Nat} {ps : List Bytes}
    (hf : FullPrefixList s w ps) {l : List (Bytes × Bool)} (hl : s.webentityPages ps = .ok l)
    (lru : Bytes) (c : Bool) :
    (lru, c) ∈ l ↔
      lru = (lruIter lru).flatten ∧ IsPage s t (lruIter lru) ∧ s.retrieveWebentity lru = .ok w ∧
        (c = true ↔ IsCrawled s t (lruIter lru)) := by
  rw [pa_webentityPages_eq] at hl
  rw [forPrefixes_mem s ps _ l hl (lru, c)]
  constructor
  · rintro ⟨p, hp, n, hn, hx⟩
    obtain ⟨hne, n', hn', hwn⟩ := (hf.full _).mp (List.mem_map.mpr ⟨p, hp, rfl⟩)
    rw [hn] at hn'; cases hn'
    have hP := (lruNode_iff_entries h _ hne n).mp hn
    obtain ⟨X, b, hX, hpg, rfl, rfl, hpx, hz⟩ := (onePrefix_mem h hP lru c).mp hx
    have hXi : lruIter X.flatten = X := lruIter_flatten X (hi.wf X b hX)
    have hXne : X ≠ [] := pa_entry_ne_nil hX
    rw [hXi]
    refine ⟨rfl, ⟨b, hX, hpg⟩, ?_, ?_⟩
    · rw [pa_retrieveWebentity_iff h _ (by rw [hXi]; exact hXne) hf.ne, hXi,
        resolveAlong_entry_iff h.ord h.nodup (pre := []) (by simpa using hX) hf.ne]
      have hlen : (lruIter p).length ≤ X.length := hpx.length_le
      refine ⟨(lruIter p).length, n, List.length_pos_iff.mpr hne, hlen, ?_, hwn, ?_⟩
      · have e := List.prefix_iff_eq_take.mp hpx
        rw [List.nil_append, ← e]; exact hP
      · simpa using hz
    · constructor
      · intro hc; exact ⟨b, hX, hpg, hc⟩
      · rintro ⟨b', hX', _, hc'⟩
        have := entries_path_injective h.ord h.nodup hX hX'
        subst this; exact hc'
  · rintro ⟨hfl, ⟨b, hX, hpg⟩, hret, hcr⟩
    have hXne : lruIter lru ≠ [] := pa_entry_ne_nil hX
    rw [pa_retrieveWebentity_iff h lru hXne hf.ne,
      resolveAlong_entry_iff h.ord h.nodup (pre := []) (by simpa using hX) hf.ne] at hret
    obtain ⟨k, a, hk0, hkl, ha, hwa, hz⟩ := hret
    simp only [List.nil_append] at ha hz
    have hpre : IsPrefixOf s w ((lruIter lru).take k) :=
      ⟨pa_entry_ne_nil ha, a, (lruNode_iff_entries h _ (pa_entry_ne_nil ha) a).mpr ha, hwa⟩
    obtain ⟨p, hp, hpe⟩ := List.mem_map.mp ((hf.full _).mpr hpre)
    refine ⟨p, hp, a, by rw [hpe]; exact (lruNode_iff_entries h _ (pa_entry_ne_nil ha) a).mpr ha, ?_⟩
    · rw [← hpe] at ha
      refine (onePrefix_mem h ha lru c).mpr ⟨lruIter lru, b, hX, hpg, ?_, hfl, ?_, ?_⟩
      · cases hcb : (s.cell b).flags.crawled with
        | true => exact hcr.mpr ⟨b, hX, hpg, hcb⟩
        | false =>
          cases c with
          | false => rfl
          | true =>
            obtain ⟨b', hX', _, hc'⟩ := hcr.mp rfl
            have := entries_path_injective h.ord h.nodup hX hX'
            subst this; rw [hcb] at hc'; cases hc'
      · rw [hpe]; exact List.take_prefix _ _
      · rw [hpe, List.length_take, Nat.min_eq_left hkl]; exact hz

/-! ### F. no repetition -/

/-- the webentity walk is a sub-walk of the plain DFS -/
theorem pa_wePre_sublist_pre {s : State} (start : Nat) : ∀ (u : T) (lru : Bytes),
    (u.wePre s start lru).Sublist (u.pre s lru)
  | .nil, _ => by simp [T.wePre, T.pre]
  | .node a l c r, lru => by
    have ic := pa_wePre_sublist_pre (s := s) start c (lru ++ s.stemAt a)
    have il := pa_wePre_sublist_pre (s := s) start l lru
    have ir := pa_wePre_sublist_pre (s := s) start r lru
    simp only [T.wePre, T.pre]
    have h1 : (if a = start ∨ (s.cell a).we = 0 then
        (a, lru ++ s.stemAt a) :: c.wePre s start (lru ++ s.stemAt a) else []).Sublist
        ((a, lru ++ s.stemAt a) :: c.pre s (lru ++ s.stemAt a)) := by
      split
      · exact ic.cons_cons _
      · exact List.nil_sublist _
    have h2 : (if a = start then [] else l.wePre s start lru ++ r.wePre s start lru).Sublist
        (l.pre s lru ++ r.pre s lru) := by
      split
      · exact List.nil_sublist _
      · exact il.append ir
    have := h1.append h2
    simpa [List.append_assoc] using this

/-- the walk from a stored node meets no block twice -/
theorem pa_weDfs_addrs_nodup {s : State} {t : T} (h : Shape s t) {P : LRU} {n : Nat}
    (hP : (P, n) ∈ t.entries s []) (p : Bytes) : ((s.weDfs n p none).map (·.1)).Nodup := by
  obtain ⟨l, c, r, lo', hi', h1, _, h3, h4, _⟩ :=
    subtree_at_ord P t none none [] n h.rep h.ord h.nodup (by simpa using hP)
  have hsz : (T.node n l c r).size ≤ s.trie.size := Nat.le_trans h4 h.size_le
  rw [weDfs_eq' h1 hsz p, ← T.wePre_start s n l c r]
  have hsub := (pa_wePre_sublist_pre (s := s) n (T.node n l c r) (lruDirname p)).map (·.1)
  exact List.Nodup.sublist hsub ((pre_addrs_perm _ _).nodup_iff.mpr h3)

/-- the answer for one stored prefix lists no LRU twice -/
theorem onePrefix_nodup {s : State} {t : T} (h : Shape s t) (hw : WfStems s t) {p : Bytes} {n : Nat}
    (hP : (lruIter p, n) ∈ t.entries s []) : ((onePrefix s n p).map (·.1)).Nodup := by
  unfold onePrefix
  rw [List.map_map]
  have h1 := pa_weDfs_addrs_nodup h hP p
  unfold List.Nodup at h1 ⊢
  rw [List.pairwise_map] at h1 ⊢
  refine List.Pairwise.imp_of_mem ?_ (h1.filter _)
  intro x y hx hy hne e
  apply hne
  obtain ⟨hx, _⟩ := List.mem_filter.mp hx
  obtain ⟨hy, _⟩ := List.mem_filter.mp hy
  obtain ⟨X, hX, _, ex, _⟩ := (weDfs_walk_iff h hP x.1 x.2).mp hx
  obtain ⟨Y, hY, _, ey, _⟩ := (weDfs_walk_iff h hP y.1 y.2).mp hy
  have e' : x.2 = y.2 := e
  have hXY : X = Y := by
    rw [← lruIter_flatten X (hw X _ hX), ← lruIter_flatten Y (hw Y _ hY), ← ex, ← ey, e']
  subst hXY
  exact entries_path_injective h.ord h.nodup hX hY

/-- the anchor of a stored path is unique: two stored stem-prefixes carrying a webentity, each with no
    webentity on any longer stem-prefix, are the same -/
theorem pa_anchor_unique {s : State} {t : T} {X P₁ P₂ : LRU} {n₁ n₂ : Nat}
    (hp₁ : P₁ <+: X) (hp₂ : P₂ <+: X) (h₁ : (P₁, n₁) ∈ t.entries s []) (h₂ : (P₂, n₂) ∈ t.entries s [])
    (hw₁ : (s.cell n₁).we ≠ 0) (hw₂ : (s.cell n₂).we ≠ 0)
    (hz₁ : ∀ j, P₁.length < j → j ≤ X.length → ∀ b', (X.take j, b') ∈ t.entries s [] → (s.cell b').we = 0)
    (hz₂ : ∀ j, P₂.length < j → j ≤ X.length → ∀ b', (X.take j, b') ∈ t.entries s [] → (s.cell b').we = 0) :
    P₁ = P₂ := by
  have e₁ := List.prefix_iff_eq_take.mp hp₁
  have e₂ := List.prefix_iff_eq_take.mp hp₂
  have l₁ := hp₁.length_le
  have l₂ := hp₂.length_le
  rcases Nat.lt_trichotomy P₁.length P₂.length with hlt | heq | hgt
  · rw [e₂] at h₂
    exact absurd (hz₁ _ hlt l₂ _ h₂) hw₂
  · rw [e₁, e₂, heq]
  · rw [e₁] at h₁
    exact absurd (hz₂ _ hgt l₁ _ h₁) hw₁

/-- the request, under a full prefix list: the concatenation of the per-prefix answers -/
theorem pa_webentityPages_flatMap {s : State} {ps : List Bytes} {l : List (Bytes × Bool)}
    (hl : s.webentityPages ps = .ok l) :
    l = ps.flatMap (fun p => match s.lruNode (lruIter p) with | some n => onePrefix s n p | none => []) := by
  rw [pa_webentityPages_eq, forPrefixes_eq] at hl
  split at hl
  · cases hl; rfl
  · cases hl

/-- C05, no repetition: if no prefix is given twice, no page appears twice within one answer -/
theorem C05_nodup {s : State} {t : T} (h : Shape s t) (hi : Inv s t) {w : Nat} {ps : List Bytes}
    (hf : FullPrefixList s w ps) (hnd : (ps.map lruIter).Nodup) {l : List (Bytes × Bool)}
    (hl : s.webentityPages ps = .ok l) : (l.map (·.1)).Nodup := by
  rw [pa_webentityPages_flatMap hl, List.map_flatMap]
  unfold List.Nodup at hnd ⊢
  rw [List.pairwise_map] at hnd
  rw [List.pairwise_flatMap]
  have hstored : ∀ p ∈ ps, ∃ n, s.lruNode (lruIter p) = some n ∧ (lruIter p, n) ∈ t.entries s [] ∧
      (s.cell n).we = w := by
    intro p hp
    obtain ⟨hne, n, hn, hwn⟩ := (hf.full _).mp (List.mem_map.mpr ⟨p, hp, rfl⟩)
    exact ⟨n, hn, (lruNode_iff_entries h _ hne n).mp hn, hwn⟩
  constructor
  · intro p hp
    obtain ⟨n, hn, hP, _⟩ := hstored p hp
    rw [hn]
    exact onePrefix_nodup h hi.wf hP
  · refine List.Pairwise.imp_of_mem ?_ hnd
    intro p₁ p₂ hp₁ hp₂ hne x hx y hy e
    subst e
    apply hne
    obtain ⟨n₁, hn₁, hP₁, hw₁⟩ := hstored p₁ hp₁
    obtain ⟨n₂, hn₂, hP₂, hw₂⟩ := hstored p₂ hp₂
    simp only [hn₁, List.mem_map] at hx
    simp only [hn₂, List.mem_map] at hy
    obtain ⟨⟨lru₁, c₁⟩, hx, rfl⟩ := hx
    obtain ⟨⟨lru₂, c₂⟩, hy, e⟩ := hy
    simp only at e
    subst e
    obtain ⟨X, b, hX, _, _, ex, hpx, hzx⟩ := (onePrefix_mem h hP₁ _ _).mp hx
    obtain ⟨Y, b', hY, _, _, ey, hpy, hzy⟩ := (onePrefix_mem h hP₂ _ _).mp hy
    have hXY : X = Y := by
      rw [← lruIter_flatten X (hi.wf X _ hX), ← lruIter_flatten Y (hi.wf Y _ hY), ← ex, ← ey]
    subst hXY
    exact pa_anchor_unique hpx hpy hP₁ hP₂ (by rw [hw₁]; exact hf.ne) (by rw [hw₂]; exact hf.ne) hzx hzy

/-- a page has one mark per answer (also without the no-repetition hypothesis on the prefix list) -/
theorem C05_mark_unique {s : State} {t : T} (h : Shape s t) (hi : Inv s t) {w : Nat} {ps : List Bytes}
    (hf : FullPrefixList s w ps) {l : List (Bytes × Bool)} (hl : s.webentityPages ps = .ok l)
    {lru : Bytes} {c c' : Bool} (h1 : (lru, c) ∈ l) (h2 : (lru, c') ∈ l) : c = c' := by
  have a1 := ((C05_member h hi hf hl lru c).mp h1).2.2.2
  have a2 := ((C05_member h hi hf hl lru c').mp h2).2.2.2
  have : c = true ↔ c' = true := a1.trans a2.symm
  cases c <;> cases c' <;> simp_all

/-! ### G. partition, crawled-only variant -/

/-- C05, partition: every indexed page that resolves to `w` is in `w`'s answer; a page of `w`'s answer
    resolves to `w`, hence is in no other webentity's answer; a page that resolves to no webentity is in
    no answer -/
theorem C05_partition {s : State} {t : T} (h : Shape s t) (hi : Inv s t) {w : Nat} {ps : List Bytes}
    (hf : FullPrefixList s w ps) {l : List (Bytes × Bool)} (hl : s.webentityPages ps = .ok l) :
    (∀ X, IsPage s t X → s.retrieveWebentity X.flatten = .ok w → ∃ c, (X.flatten, c) ∈ l) ∧
    (∀ lru c, (lru, c) ∈ l → s.retrieveWebentity lru = .ok w) ∧
    (∀ lru c, (lru, c) ∈ l → ∀ w' ps' l', FullPrefixList s w' ps' → s.webentityPages ps' = .ok l' →
      (∃ c', (lru, c') ∈ l') → w' = w) ∧
    (∀ lru e, s.retrieveWebentity lru = .error e → ∀ c, (lru, c) ∉ l) := by
  refine ⟨fun X hX hret => ?_, fun lru c hm => ((C05_member h hi hf hl lru c).mp hm).2.2.1,
    fun lru c hm w' ps' l' hf' hl' ⟨c', hm'⟩ => ?_, fun lru e he c hm => ?_⟩
  · obtain ⟨b, hb, hpg⟩ := hX
    have hXi : lruIter X.flatten = X := lruIter_flatten X (hi.wf X b hb)
    refine ⟨(s.cell b).flags.crawled, (C05_member h hi hf hl _ _).mpr ⟨by rw [hXi], ?_, hret, ?_⟩⟩
    · rw [hXi]; exact ⟨b, hb, hpg⟩
    · rw [hXi]
      constructor
      · intro hc; exact ⟨b, hb, hpg, hc⟩
      · rintro ⟨b', hb', _, hc'⟩
        have := entries_path_injective h.ord h.nodup hb hb'
        subst this; exact hc'
  · have r1 := ((C05_member h hi hf hl lru c).mp hm).2.2.1
    have r2 := ((C05_member h hi hf' hl' lru c').mp hm').2.2.1
    rw [r1] at r2
    cases r2; rfl
  · have r1 := ((C05_member h hi hf hl lru c).mp hm).2.2.1
    rw [he] at r1; cases r1

/-- C05, crawled-only variant: the answer of `get_webentity_crawled_pages` is the answer of
    `get_webentity_pages` filtered by the mark; it lists exactly the crawled pages that resolve to `w`,
    all marked crawled, without repetition if no prefix is given twice -/
theorem C05_crawled {s : State} {t : T} (h : Shape s t) (hi : Inv s t) {w : Nat} {ps : List Bytes}
    (hf : FullPrefixList s w ps) {l : List (Bytes × Bool)} (hl : s.webentityPages ps = .ok l) :
    s.webentityCrawledPages ps = .ok (l.filter (·.2)) ∧
    (∀ lru c, (lru, c) ∈ l.filter (·.2) ↔
      c = true ∧ lru = (lruIter lru).flatten ∧ IsCrawled s t (lruIter lru) ∧
        s.retrieveWebentity lru = .ok w) ∧
    ((ps.map lruIter).Nodup → ((l.filter (·.2)).map (·.1)).Nodup) := by
  refine ⟨by unfold webentityCrawledPages; rw [hl]; rfl, fun lru c => ?_, fun hnd => ?_⟩
  · rw [List.mem_filter, C05_member h hi hf hl]
    constructor
    · rintro ⟨⟨hfl, _, hret, hcr⟩, hc⟩
      have hc' : c = true := by simpa using hc
      exact ⟨hc', hfl, hcr.mp hc', hret⟩
    · rintro ⟨hc, hfl, hcr, hret⟩
      exact ⟨⟨hfl, hcr.isPage, hret, fun _ => hcr, fun _ => hc⟩, by simpa using hc⟩
  · exact List.Nodup.sublist ((List.filter_sublist (l := l)).map (·.1)) (C05_nodup h hi hf hnd hl)

/-! ### H. the same without the ghost tree: everything in terms of the model's own queries -/

theorem pa_retrieveWebentity_nil_err (s : State) (lru : Bytes) (hnil : lruIter lru = []) :
    s.retrieveWebentity lru = .error .traph := by
  have hwe : (s.followLru (lruIter lru)).2.we = 0 := by
    unfold followLru
    rw [hnil]
    split <;> rfl
  unfold retrieveWebentity
  simp only [hwe, if_true]

/-- C05, membership, model level: `(lru, c)` is in the answer iff `lru` is the LRU of an indexed page
    (`lru_node` finds it and its block is flagged as a page), `retrieve_webentity` maps it to `w`, and
    `c` is the block's crawled flag -/
theorem C05_member_model {s : State} {t : T} (h : Shape s t) (hi : Inv s t) {w : Nat} {ps : List Bytes}
    (hf : FullPrefixList s w ps) {l : List (Bytes × Bool)} (hl : s.webentityPages ps = .ok l)
    (lru : Bytes) (c : Bool) :
    (lru, c) ∈ l ↔
      lru = (lruIter lru).flatten ∧ s.retrieveWebentity lru = .ok w ∧
        ∃ b, s.lruNode (lruIter lru) = some b ∧ (s.cell b).flags.page = true ∧
          c = (s.cell b).flags.crawled := by
  rw [C05_member h hi hf hl]
  constructor
  · rintro ⟨hfl, ⟨b, hb, hpg⟩, hret, hcr⟩
    refine ⟨hfl, hret, b, (lruNode_iff_entries h _ (pa_entry_ne_nil hb) b).mpr hb, hpg, ?_⟩
    cases hcb : (s.cell b).flags.crawled with
    | true => exact hcr.mpr ⟨b, hb, hpg, hcb⟩
    | false =>
      cases c with
      | false => rfl
      | true =>
        obtain ⟨b', hb', _, hc'⟩ := hcr.mp rfl
        have := entries_path_injective h.ord h.nodup hb hb'
        subst this; rw [hcb] at hc'; cases hc'
  · rintro ⟨hfl, hret, b, hb, hpg, hc⟩
    have hne : lruIter lru ≠ [] := by
      intro e
      rw [pa_retrieveWebentity_nil_err s lru e] at hret
      cases hret
    have hb' := (lruNode_iff_entries h _ hne b).mp hb
    refine ⟨hfl, ⟨b, hb', hpg⟩, hret, ?_⟩
    constructor
    · intro hc'; exact ⟨b, hb', hpg, by rw [← hc]; exact hc'⟩
    · rintro ⟨b'', hb'', _, hc''⟩
      have := entries_path_injective h.ord h.nodup hb' hb''
      subst this; rw [hc]; exact hc''

/-- C05, nested webentities: if a page of `w`'s answer lies below a stored prefix `Q` of any webentity
    (`w` itself or another one), then it lies below a prefix of `w` that is at least as long as `Q`: pages
    below a nested webentity's prefix are not in the enclosing webentity's answer, unless `w` itself has a
    prefix nested deeper still (`w ⊃ v ⊃ w`), from which they are reached -/
theorem C05_nested {s : State} {t : T} (h : Shape s t) (hi : Inv s t) {w : Nat} {ps : List Bytes}
    (hf : FullPrefixList s w ps) {l : List (Bytes × Bool)} (hl : s.webentityPages ps = .ok l)
    {lru : Bytes} {c : Bool} (hm : (lru, c) ∈ l) {Q : LRU} {v : Nat} (hv : v ≠ 0)
    (hQ : IsPrefixOf s v Q) (hQX : Q <+: lruIter lru) :
    ∃ P, IsPrefixOf s w P ∧ Q <+: P ∧ P <+: lruIter lru := by
  obtain ⟨_, ⟨b, hX, _⟩, hret, _⟩ := (C05_member h hi hf hl lru c).mp hm
  rw [pa_retrieveWebentity_iff h lru (pa_entry_ne_nil hX) hf.ne,
    resolveAlong_entry_iff h.ord h.nodup (pre := []) (by simpa using hX) hf.ne] at hret
  obtain ⟨k, a, hk0, hkl, ha, hwa, hz⟩ := hret
  simp only [List.nil_append] at ha hz
  obtain ⟨nq, hnq, hwq⟩ := (isPrefixOf_iff h v Q).mp hQ
  have eQ := List.prefix_iff_eq_take.mp hQX
  have hle : Q.length ≤ k := by
    apply Classical.byContradiction
    intro hlt
    rw [eQ] at hnq
    exact hv (hwq ▸ hz Q.length (by omega) hQX.length_le nq hnq)
  refine ⟨(lruIter lru).take k, (isPrefixOf_iff h w _).mpr ⟨a, ha, hwa⟩, ?_, List.take_prefix _ _⟩
  rw [eQ]
  exact List.take_prefix_take_left hle

/-! ### I. what happens when a prefix is given more than once -/

theorem pa_count_flatMap_key {α β γ : Type} [BEq β] [BEq γ] (f : α → List β) (key : α → γ)
    (x : β) (K : γ) : ∀ (ps : List α), (∀ p ∈ ps, (f p).count x = if key p == K then 1 else 0) →
    (ps.flatMap f).count x = (ps.map key).count K
  | [], _ => by simp
  | p :: ps, h => by
    rw [List.flatMap_cons, List.count_append, List.map_cons, List.count_cons,
      pa_count_flatMap_key f key x K ps (fun q hq => h q (by simp [hq])), h p (by simp)]
    omega

/-- C05, repetitions: a page of the answer is listed exactly as many times as its prefix — the longest
    stored stem-prefix of the page carrying a webentity, which is a prefix of `w` — occurs in the list given
    (as cut by `lru_iter`: bytes after the last separator of a prefix are ignored). In particular a prefix
    given twice makes every page below it appear twice. -/
theorem C05_count {s : State} {t : T} (h : Shape s t) (hi : Inv s t) {w : Nat} {ps : List Bytes}
    (hf : FullPrefixList s w ps) {l : List (Bytes × Bool)} (hl : s.webentityPages ps = .ok l)
    {lru : Bytes} {c : Bool} (hm : (lru, c) ∈ l) :
    ∃ P, P <+: lruIter lru ∧ IsPrefixOf s w P ∧ (l.map (·.1)).count lru = (ps.map lruIter).count P := by
  have hstored : ∀ p ∈ ps, ∃ n, s.lruNode (lruIter p) = some n ∧ (lruIter p, n) ∈ t.entries s [] ∧
      (s.cell n).we = w := by
    intro p hp
    obtain ⟨hne, n, hn, hwn⟩ := (hf.full _).mp (List.mem_map.mpr ⟨p, hp, rfl⟩)
    exact ⟨n, hn, (lruNode_iff_entries h _ hne n).mp hn, hwn⟩
  have hl' := hl
  rw [pa_webentityPages_eq] at hl'
  obtain ⟨p₀, hp₀, n₀, hn₀, hx₀⟩ := (forPrefixes_mem s ps _ l hl' (lru, c)).mp hm
  obtain ⟨n₀', hn₀', hP₀, hw₀⟩ := hstored p₀ hp₀
  rw [hn₀] at hn₀'; cases hn₀'
  obtain ⟨X, b, hX, hpg, hc, hfl, hpx, hz⟩ := (onePrefix_mem h hP₀ lru c).mp hx₀
  have hXi : lruIter lru = X := by rw [hfl]; exact lruIter_flatten X (hi.wf X b hX)
  refine ⟨lruIter p₀, by rw [hXi]; exact hpx, (hf.full _).mp (List.mem_map.mpr ⟨p₀, hp₀, rfl⟩), ?_⟩
  rw [pa_webentityPages_flatMap hl, List.map_flatMap]
  apply pa_count_flatMap_key
  intro p hp
  obtain ⟨n, hn, hP, hwn⟩ := hstored p hp
  simp only [hn]
  rw [(onePrefix_nodup h hi.wf hP).count]
  have key : lru ∈ (onePrefix s n p).map (·.1) ↔ lruIter p = lruIter p₀ := by
    constructor
    · intro hmem
      obtain ⟨⟨lru', c'⟩, hmem', e⟩ := List.mem_map.mp hmem
      simp only at e; subst e
      obtain ⟨Y, b', hY, _, _, ey, hpy, hzy⟩ := (onePrefix_mem h hP _ _).mp hmem'
      have hXY : X = Y := by
        rw [← lruIter_flatten X (hi.wf X _ hX), ← lruIter_flatten Y (hi.wf Y _ hY), ← hfl, ← ey]
      subst hXY
      exact pa_anchor_unique hpy hpx hP hP₀ (by rw [hwn]; exact hf.ne) (by rw [hw₀]; exact hf.ne) hzy hz
    · intro e
      refine List.mem_map.mpr ⟨(lru, c), (onePrefix_mem h hP lru c).mpr ⟨X, b, hX, hpg, hc, hfl, ?_, ?_⟩, rfl⟩
      · rw [e]; exact hpx
      · rw [e]; exact hz
  by_cases e : lruIter p = lruIter p₀
  · rw [if_pos (key.mpr e), if_pos (beq_iff_eq.mpr e)]
  · rw [if_neg (fun hmem => e (key.mp hmem)), if_neg (fun hb => e (beq_iff_eq.mp hb))]

/-! ### J. the hypothesis is satisfiable from the API itself: `webentity_prefix_iter` -/

/-- the prefixes that `webentity_prefix_iter` lists for `w` -/
def prefixesOf (s : State) (w : Nat) : List Bytes :=
  (s.prefixIter.filter (fun x => x.2 == w)).map (·.1)

theorem pa_prefixIter_mem {s : State} {t : T} (h : Shape s t) (lru : Bytes) (w : Nat) :
    (lru, w) ∈ s.prefixIter ↔ ∃ X b, (X, b) ∈ t.entries s [] ∧ lru = X.flatten ∧ (s.cell b).we = w ∧ w ≠ 0 := by
  unfold prefixIter
  simp only [List.mem_map, List.mem_filter, Prod.mk.injEq, decide_eq_true_eq]
  constructor
  · rintro ⟨⟨b, lru'⟩, ⟨hm, hw⟩, rfl, rfl⟩
    obtain ⟨X, hX, e⟩ := (dfsIter_mem_iff h b lru').mp hm
    exact ⟨X, b, hX, e, rfl, hw⟩
  · rintro ⟨X, b, hX, rfl, rfl, hw⟩
    exact ⟨(b, X.flatten), ⟨(dfsIter_mem_iff h b _).mpr ⟨X, hX, rfl⟩, hw⟩, rfl, rfl⟩

/-- every webentity id `w ≠ 0` has a full prefix list without repetition, and `webentity_prefix_iter`
    provides it -/
theorem prefixesOf_full {s : State} {t : T} (h : Shape s t) (hi : Inv s t) {w : Nat} (hw : w ≠ 0) :
    FullPrefixList s w (prefixesOf s w) ∧ ((prefixesOf s w).map lruIter).Nodup := by
  constructor
  · refine ⟨hw, fun P => ?_⟩
    rw [isPrefixOf_iff h]
    unfold prefixesOf
    simp only [List.mem_map, List.mem_filter, beq_iff_eq]
    constructor
    · rintro ⟨lru, ⟨⟨lru', w'⟩, ⟨hm, hw'⟩, rfl⟩, rfl⟩
      subst hw'
      obtain ⟨X, b, hX, e, hwb, _⟩ := (pa_prefixIter_mem h lru' w').mp hm
      rw [e, lruIter_flatten X (hi.wf X b hX)]
      exact ⟨b, hX, hwb⟩
    · rintro ⟨b, hX, hwb⟩
      exact ⟨P.flatten, ⟨(P.flatten, w), ⟨(pa_prefixIter_mem h _ _).mpr ⟨P, b, hX, rfl, hwb, hw⟩, rfl⟩, rfl⟩,
        lruIter_flatten P (hi.wf P b hX)⟩
  · have hD : ((s.dfsIter none false).map (fun bl => lruIter bl.2)).Nodup := by
      have h1 : ((s.dfsIter none false).map (·.1)).Nodup := dfsIter_nodup h
      unfold List.Nodup at h1 ⊢
      rw [List.pairwise_map] at h1 ⊢
      refine List.Pairwise.imp_of_mem ?_ h1
      intro x y hx hy hne e
      apply hne
      obtain ⟨X, hX, ex⟩ := (dfsIter_mem_iff h x.1 x.2).mp hx
      obtain ⟨Y, hY, ey⟩ := (dfsIter_mem_iff h y.1 y.2).mp hy
      rw [ex, ey, lruIter_flatten X (hi.wf X _ hX), lruIter_flatten Y (hi.wf Y _ hY)] at e
      subst e
      exact entries_path_injective h.ord h.nodup hX hY
    refine List.Nodup.sublist ?_ hD
    unfold prefixesOf prefixIter
    rw [List.filter_map, List.map_map, List.map_map]
    exact ((List.filter_sublist).trans (List.filter_sublist)).map _

/-! ### K. every reachable state -/

/-- C05 for every reachable index state: after any history of write requests (well-formed, no `KeyError`
    answer, no `clear`) on a fresh index with any constructor rules, for every webentity id `w` and every
    full prefix list `ps` of `w` in any order:
    the request is answered; the answer lists exactly the indexed pages that resolve to `w`, each with its
    crawled mark; a page is repeated exactly as often as its prefix is repeated in `ps` (so never, if no
    prefix is given twice); every page resolving to `w` is there, no page of the answer is in the answer of
    another webentity, pages resolving to no webentity are in no answer; the crawled-only variant is the
    filter by the mark and lists exactly the crawled pages resolving to `w`. Moreover every `w ≠ 0` has
    such a list (the one `webentity_prefix_iter` yields). -/
theorem C05_reachable (cfg : Config) (dflt : Rule) (rules : List (Bytes × Rule)) (ops : List Op)
    (hrules : ∀ ar ∈ rules, lruIter ar.1 ≠ [])
    (hop : ∀ op ∈ ops, ∀ d rs, op ≠ .clear d rs) (hwf : ∀ op ∈ ops, OpWf op)
    (hok : NoKeyErr (State.fresh cfg dflt rules []).1 ops)
    (s : State) (hs : s = (State.fresh cfg dflt rules []).1.run ops) :
    ∃ t, Shape s t ∧ Inv s t ∧
      (∀ w ps, FullPrefixList s w ps →
        ∃ l, s.webentityPages ps = .ok l ∧
          (∀ lru c, (lru, c) ∈ l ↔
            lru = (lruIter lru).flatten ∧ IsPage s t (lruIter lru) ∧ s.retrieveWebentity lru = .ok w ∧
              (c = true ↔ IsCrawled s t (lruIter lru))) ∧
          ((ps.map lruIter).Nodup → (l.map (·.1)).Nodup) ∧
          (∀ lru c, (lru, c) ∈ l → ∃ P, P <+: lruIter lru ∧ IsPrefixOf s w P ∧
            (l.map (·.1)).count lru = (ps.map lruIter).count P) ∧
          (∀ X, IsPage s t X → s.retrieveWebentity X.flatten = .ok w → ∃ c, (X.flatten, c) ∈ l) ∧
          (∀ lru c, (lru, c) ∈ l → ∀ w' ps' l', FullPrefixList s w' ps' → s.webentityPages ps' = .ok l' →
            (∃ c', (lru, c') ∈ l') → w' = w) ∧
          (∀ lru e, s.retrieveWebentity lru = .error e → ∀ c, (lru, c) ∉ l) ∧
          s.webentityCrawledPages ps = .ok (l.filter (·.2)) ∧
          (∀ lru c, (lru, c) ∈ l.filter (·.2) ↔
            c = true ∧ lru = (lruIter lru).flatten ∧ IsCrawled s t (lruIter lru) ∧
              s.retrieveWebentity lru = .ok w)) ∧
      (∀ w, w ≠ 0 → FullPrefixList s w (prefixesOf s w) ∧ ((prefixesOf s w).map lruIter).Nodup) := by
  subst hs
  obtain ⟨t, h, hi⟩ := inv_run cfg dflt rules ops hrules hop hwf hok
  refine ⟨t, h, hi, fun w ps hf => ?_, fun w hw => prefixesOf_full h hi hw⟩
  obtain ⟨l, hl⟩ := C05_ok hf
  obtain ⟨p1, p2, p3, p4⟩ := C05_partition h hi hf hl
  obtain ⟨c1, c2, _⟩ := C05_crawled h hi hf hl
  exact ⟨l, hl, C05_member h hi hf hl, fun hnd => C05_nodup h hi hf hnd hl,
    fun lru c hm => C05_count h hi hf hl hm, p1, p3, p4, c1, c2⟩

/-- the same with no reference to the ghost tree: everything is phrased with the model's own queries
    (`lru_node`, the block flags, `retrieve_webentity`) -/
theorem C05_reachable_model (cfg : Config) (dflt : Rule) (rules : List (Bytes × Rule)) (ops : List Op)
    (hrules : ∀ ar ∈ rules, lruIter ar.1 ≠ [])
    (hop : ∀ op ∈ ops, ∀ d rs, op ≠ .clear d rs) (hwf : ∀ op ∈ ops, OpWf op)
    (hok : NoKeyErr (State.fresh cfg dflt rules []).1 ops)
    (s : State) (hs : s = (State.fresh cfg dflt rules []).1.run ops)
    (w : Nat) (ps : List Bytes) (hf : FullPrefixList s w ps) :
    ∃ l, s.webentityPages ps = .ok l ∧
      (∀ lru c, (lru, c) ∈ l ↔
        lru = (lruIter lru).flatten ∧ s.retrieveWebentity lru = .ok w ∧
          ∃ b, s.lruNode (lruIter lru) = some b ∧ (s.cell b).flags.page = true ∧
            c = (s.cell b).flags.crawled) ∧
      ((ps.map lruIter).Nodup → (l.map (·.1)).Nodup) ∧
      s.webentityCrawledPages ps = .ok (l.filter (·.2)) := by
  subst hs
  obtain ⟨t, h, hi⟩ := inv_run cfg dflt rules ops hrules hop hwf hok
  obtain ⟨l, hl⟩ := C05_ok hf
  exact ⟨l, hl, C05_member_model h hi hf hl, fun hnd => C05_nodup h hi hf hnd hl,
    (C05_crawled h hi hf hl).1⟩

/-! ### L. the model on concrete indexes (kernel-checked evaluations)

    `a|` and `a|b|c|` belong to webentity 1, `a|b|` to webentity 2 (`w ⊃ v ⊃ w`); pages `a|x|`, `a|b|`,
    `a|b|c|`, `a|b|c|d|`. -/
section Examples

private def exA : Bytes := [97, 124]
private def exAB : Bytes := [97, 124, 98, 124]
private def exABC : Bytes := [97, 124, 98, 124, 99, 124]
private def exABCD : Bytes := [97, 124, 98, 124, 99, 124, 100, 124]
private def exAX : Bytes := [97, 124, 120, 124]
private def exS : State :=
  (State.fresh {} .never [] []).1.run
    [.create [exA], .create [exAB], .addPrefix exABC 1, .addPage exAX false, .addPage exAB true,
     .addPage exABC false, .addPage exABCD true]
/-- the same webentity nested in itself: `a|` and `a|b|` both belong to webentity 1 -/
private def exS' : State :=
  (State.fresh {} .never [] []).1.run
    [.create [exA], .addPrefix exAB 1, .addPage exAX false, .addPage exAB true, .addPage exABC false]

/-- full prefix list of 1, either order: each page once; the page of webentity 2 is excluded, the pages
    below the inner prefix of 1 are reached from that prefix -/
example : (exS.webentityPages [exA, exABC]).toOption
    = some [(exAX, false), (exABC, false), (exABCD, true)] := by decide
example : (exS.webentityPages [exABC, exA]).toOption
    = some [(exABC, false), (exABCD, true), (exAX, false)] := by decide
example : (exS.webentityPages [exAB]).toOption = some [(exAB, true)] := by decide
example : (exS.webentityCrawledPages [exABC, exA]).toOption = some [(exABCD, true)] := by decide
/-- a prefix nested in a prefix of the same webentity causes no repetition (the walk is cut by any id) -/
example : (exS'.webentityPages [exA, exAB]).toOption
    = some [(exAX, false), (exAB, true), (exABC, false)] := by decide
/-- a prefix given twice: every page below it is listed twice -/
example : (exS'.webentityPages [exAB, exAB]).toOption
    = some [(exAB, true), (exABC, false), (exAB, true), (exABC, false)] := by decide
/-- …also when the two byte strings differ only after the last separator (`lru_iter` drops that part) -/
example : (exS'.webentityPages [exAB, exAB ++ [122]]).toOption
    = some [(exAB, true), (exABC, false), (exAB, true), (exABC, false)] := by decide

end Examples

#print axioms resolveAlong_entry_iff
#print axioms weDfs_walk_iff
#print axioms C05_member
#print axioms C05_member_model
#print axioms C05_nodup
#print axioms C05_count
#print axioms C05_nested
#print axioms C05_partition
#print axioms C05_crawled
#print axioms prefixesOf_full
#print axioms C05_reachable
#print axioms C05_reachable_model

end Traph

import Traph
/-! Pagination, API level, part 0: the state-free core shared by `paginate_webentity_pages` and
    `paginate_webentity_pagelinks`.

    Both requests walk a sequence of items (prefix after prefix, each prefix in order), count the items
    that *bear* output, remember the position of the last item that *marks* a resume point, and stop in
    front of the `(k+1)`-th bearing item.  `gRun` is that loop; `Segs` is the decomposition of a sequence
    into the segments answered call after call; `Episode` is the sequence of answers obtained by feeding
    every token back; `episode_of_segs` turns a decomposition into an episode, given that the request
    called with the token of an item runs the loop on the items after it. -/
namespace Traph
namespace Pag

/-- the accumulators of the loops -/
structure GAcc (β : Type) where
  n : Nat := 0
  out : List β := []
  lastI : Option Nat := none
  lastPath : Option Nat := none

/-- how a loop reads an item: its token coordinates, whether it records a resume point, whether it is
    counted (and then contributes `out`) -/
structure Cls (X β : Type) where
  idx : X → Nat
  path : X → Nat
  mark : X → Bool
  bear : X → Bool
  out : X → List β

variable {X β : Type} (C : Cls X β)

/-- number of counted items -/
def Cls.cnt (xs : List X) : Nat := (xs.filter C.bear).length
/-- output of the counted items, in order -/
def Cls.outs (xs : List X) : List β := (xs.filter C.bear).flatMap C.out

@[simp] theorem Cls.cnt_nil : C.cnt [] = 0 := rfl
@[simp] theorem Cls.outs_nil : C.outs [] = [] := rfl

theorem Cls.cnt_cons (x : X) (xs : List X) : C.cnt (x :: xs) = (if C.bear x then 1 else 0) + C.cnt xs := by
  unfold Cls.cnt
  by_cases h : C.bear x = true
  · simp [h]; omega
  · simp [h]

theorem Cls.outs_cons (x : X) (xs : List X) :
    C.outs (x :: xs) = (if C.bear x then C.out x else []) ++ C.outs xs := by
  unfold Cls.outs
  by_cases h : C.bear x = true
  · simp [h]
  · simp [h]

theorem Cls.cnt_append (xs ys : List X) : C.cnt (xs ++ ys) = C.cnt xs + C.cnt ys := by
  unfold Cls.cnt; rw [List.filter_append, List.length_append]

theorem Cls.outs_append (xs ys : List X) : C.outs (xs ++ ys) = C.outs xs ++ C.outs ys := by
  unfold Cls.outs; rw [List.filter_append, List.flatMap_append]

theorem Cls.cnt_le_length (xs : List X) : C.cnt xs ≤ xs.length := List.length_filter_le _ _

theorem outs_flatten : ∀ (segs : List (List X)), C.outs segs.flatten = segs.flatMap C.outs
  | [] => rfl
  | l :: ls => by rw [List.flatten_cons, Cls.outs_append, List.flatMap_cons, outs_flatten ls]

/-- one non-stopping step of the loop -/
def gStep (acc : GAcc β) (x : X) : GAcc β :=
  if C.bear x then
    { n := acc.n + 1, out := acc.out ++ C.out x, lastI := some (C.idx x), lastPath := some (C.path x) }
  else if C.mark x then { acc with lastI := some (C.idx x), lastPath := some (C.path x) }
  else acc

def gFold (xs : List X) (acc : GAcc β) : GAcc β := xs.foldl (gStep C) acc

/-- the loop with limit `k`: `(true, acc)` = stopped in front of the `(k+1)`-th counted item with the
    accumulators `acc`; `(false, acc)` = ran to the end -/
def gRun (k : Nat) : List X → GAcc β → Bool × GAcc β
  | [], acc => (false, acc)
  | x :: rest, acc =>
    if C.bear x && decide (acc.n + 1 > k) then (true, acc) else gRun k rest (gStep C acc x)

theorem gRun_cons_stop (k : Nat) (x : X) (rest : List X) (acc : GAcc β) (hb : C.bear x = true)
    (hk : acc.n + 1 > k) : gRun C k (x :: rest) acc = (true, acc) := by
  have : (C.bear x && decide (acc.n + 1 > k)) = true := by simp [hb, hk]
  rw [gRun, this]; rfl

theorem gRun_cons_go (k : Nat) (x : X) (rest : List X) (acc : GAcc β)
    (h : C.bear x = false ∨ ¬ acc.n + 1 > k) : gRun C k (x :: rest) acc = gRun C k rest (gStep C acc x) := by
  have : (C.bear x && decide (acc.n + 1 > k)) = false := by
    rcases h with h | h
    · simp [h]
    · simp [h]
  rw [gRun, this]; rfl

theorem gStep_bear (acc : GAcc β) (x : X) (hb : C.bear x = true) :
    gStep C acc x
      = { n := acc.n + 1, out := acc.out ++ C.out x, lastI := some (C.idx x), lastPath := some (C.path x) } := by
  simp [gStep, hb]

theorem gStep_mark (acc : GAcc β) (x : X) (hb : C.bear x = false) (hm : C.mark x = true) :
    gStep C acc x = { acc with lastI := some (C.idx x), lastPath := some (C.path x) } := by
  simp [gStep, hb, hm]

theorem gStep_skip (acc : GAcc β) (x : X) (hb : C.bear x = false) (hm : C.mark x = false) :
    gStep C acc x = acc := by
  simp [gStep, hb, hm]

/-- the loop without limit -/
theorem gFold_nil (acc : GAcc β) : gFold C [] acc = acc := rfl
theorem gFold_cons (x : X) (xs : List X) (acc : GAcc β) : gFold C (x :: xs) acc = gFold C xs (gStep C acc x) := rfl
theorem gFold_append (xs ys : List X) (acc : GAcc β) : gFold C (xs ++ ys) acc = gFold C ys (gFold C xs acc) := by
  unfold gFold; rw [List.foldl_append]

theorem gStep_n (acc : GAcc β) (x : X) : (gStep C acc x).n = acc.n + (if C.bear x then 1 else 0) := by
  unfold gStep
  by_cases h : C.bear x = true
  · simp [h]
  · by_cases h2 : C.mark x = true <;> simp [h, h2]

theorem gStep_out (acc : GAcc β) (x : X) :
    (gStep C acc x).out = acc.out ++ (if C.bear x then C.out x else []) := by
  unfold gStep
  by_cases h : C.bear x = true
  · simp [h]
  · by_cases h2 : C.mark x = true <;> simp [h, h2]

theorem gFold_n : ∀ (xs : List X) (acc : GAcc β), (gFold C xs acc).n = acc.n + C.cnt xs
  | [], acc => by simp [gFold_nil]
  | x :: xs, acc => by
    rw [gFold_cons, gFold_n xs, gStep_n, Cls.cnt_cons]; omega

theorem gFold_out : ∀ (xs : List X) (acc : GAcc β), (gFold C xs acc).out = acc.out ++ C.outs xs
  | [], acc => by simp [gFold_nil]
  | x :: xs, acc => by
    rw [gFold_cons, gFold_out xs, gStep_out, Cls.outs_cons, List.append_assoc]

/-- items that neither count nor mark leave the accumulators alone -/
theorem gFold_skip : ∀ (zs : List X) (acc : GAcc β),
    (∀ x ∈ zs, C.mark x = false ∧ C.bear x = false) → gFold C zs acc = acc
  | [], _, _ => rfl
  | z :: zs, acc, h => by
    obtain ⟨h1, h2⟩ := h z (by simp)
    rw [gFold_cons]
    have : gStep C acc z = acc := by simp [gStep, h1, h2]
    rw [this]
    exact gFold_skip zs acc (fun x hx => h x (by simp [hx]))

/-- the recorded resume point is the last item that counts or marks -/
theorem gFold_last (ys zs : List X) (z : X) (acc : GAcc β) (hz : C.mark z = true ∨ C.bear z = true)
    (hzs : ∀ x ∈ zs, C.mark x = false ∧ C.bear x = false) :
    (gFold C (ys ++ z :: zs) acc).lastI = some (C.idx z) ∧
    (gFold C (ys ++ z :: zs) acc).lastPath = some (C.path z) := by
  rw [gFold_append, gFold_cons, gFold_skip C zs _ hzs]
  unfold gStep
  by_cases h : C.bear z = true
  · simp [h]
  · have h2 : C.mark z = true := by
      rcases hz with hz | hz
      · exact hz
      · exact absurd hz h
    simp [h, h2]

/-- as long as the limit is not exceeded the loop is the fold -/
theorem gRun_append (k : Nat) : ∀ (xs ys : List X) (acc : GAcc β), acc.n + C.cnt xs ≤ k →
    gRun C k (xs ++ ys) acc = gRun C k ys (gFold C xs acc)
  | [], _, _, _ => rfl
  | x :: xs, ys, acc, h => by
    rw [Cls.cnt_cons] at h
    have hstop : (C.bear x && decide (acc.n + 1 > k)) = false := by
      by_cases hb : C.bear x = true
      · simp [hb] at h ⊢; omega
      · simp [hb]
    rw [List.cons_append, gRun, hstop, gFold_cons]
    simp only [Bool.false_eq_true, if_false]
    apply gRun_append k xs ys
    rw [gStep_n]; omega

theorem gRun_all (k : Nat) (xs : List X) (acc : GAcc β) (h : acc.n + C.cnt xs ≤ k) :
    gRun C k xs acc = (false, gFold C xs acc) := by
  have := gRun_append C k xs [] acc h
  rw [List.append_nil] at this
  rw [this]; rfl

theorem gRun_stop (k : Nat) (xs ys : List X) (b : X) (acc : GAcc β) (h : acc.n + C.cnt xs = k)
    (hb : C.bear b = true) : gRun C k (xs ++ b :: ys) acc = (true, gFold C xs acc) := by
  rw [gRun_append C k xs _ acc (by omega), gRun]
  have : (C.bear b && decide ((gFold C xs acc).n + 1 > k)) = true := by
    rw [gFold_n]; simp [hb]; omega
  rw [this]; rfl

/-! ### splitting a sequence in front of its `(k+1)`-th counted item -/

theorem split_count (k : Nat) : ∀ (xs : List X), k < C.cnt xs →
    ∃ x1 b x2, xs = x1 ++ b :: x2 ∧ C.bear b = true ∧ C.cnt x1 = k := by
  induction k with
  | zero =>
    intro xs
    induction xs with
    | nil => intro h; simp at h
    | cons x xs ih =>
      intro h
      by_cases hb : C.bear x = true
      · exact ⟨[], x, xs, rfl, hb, rfl⟩
      · rw [Cls.cnt_cons] at h
        simp only [hb, Bool.false_eq_true, if_false, Nat.zero_add] at h
        obtain ⟨x1, b, x2, e, h1, h2⟩ := ih h
        refine ⟨x :: x1, b, x2, by rw [e]; rfl, h1, ?_⟩
        rw [Cls.cnt_cons]; simp [hb, h2]
  | succ k ihk =>
    intro xs
    induction xs with
    | nil => intro h; simp at h
    | cons x xs ih =>
      intro h
      rw [Cls.cnt_cons] at h
      by_cases hb : C.bear x = true
      · simp only [hb, if_true] at h
        obtain ⟨x1, b, x2, e, h1, h2⟩ := ihk xs (by omega)
        refine ⟨x :: x1, b, x2, by rw [e]; rfl, h1, ?_⟩
        rw [Cls.cnt_cons]; simp [hb, h2]; omega
      · simp only [hb, Bool.false_eq_true, if_false, Nat.zero_add] at h
        obtain ⟨x1, b, x2, e, h1, h2⟩ := ih h
        refine ⟨x :: x1, b, x2, by rw [e]; rfl, h1, ?_⟩
        rw [Cls.cnt_cons]; simp [hb, h2]

/-- a sequence with a counted item has a last item that counts or marks -/
theorem last_mark : ∀ (xs : List X), 0 < C.cnt xs →
    ∃ ys z zs, xs = ys ++ z :: zs ∧ (C.mark z = true ∨ C.bear z = true) ∧
      ∀ x ∈ zs, C.mark x = false ∧ C.bear x = false
  | [], h => by simp at h
  | x :: xs, h => by
    by_cases hall : ∀ y ∈ xs, C.mark y = false ∧ C.bear y = false
    · have hx : C.bear x = true := by
        rw [Cls.cnt_cons] at h
        have h0 : C.cnt xs = 0 := by
          unfold Cls.cnt
          rw [List.length_eq_zero_iff, List.filter_eq_nil_iff]
          intro y hy; rw [(hall y hy).2]; simp
        by_cases hb : C.bear x = true
        · exact hb
        · simp [hb, h0] at h
      exact ⟨[], x, xs, rfl, Or.inr hx, hall⟩
    · have hpos : 0 < C.cnt xs ∨ ∃ y ∈ xs, C.mark y = true ∨ C.bear y = true := by
        right
        apply Classical.byContradiction
        intro hno
        apply hall
        intro y hy
        constructor
        · cases hm : C.mark y with
          | false => rfl
          | true => exact absurd ⟨y, hy, Or.inl hm⟩ hno
        · cases hm : C.bear y with
          | false => rfl
          | true => exact absurd ⟨y, hy, Or.inr hm⟩ hno
      -- generalised form: a sequence with a marking or counted item
      have gen : ∀ (l : List X), (∃ y ∈ l, C.mark y = true ∨ C.bear y = true) →
          ∃ ys z zs, l = ys ++ z :: zs ∧ (C.mark z = true ∨ C.bear z = true) ∧
            ∀ x ∈ zs, C.mark x = false ∧ C.bear x = false := by
        intro l
        induction l with
        | nil => rintro ⟨y, hy, _⟩; simp at hy
        | cons a l ih =>
          intro hex
          by_cases hl : ∃ y ∈ l, C.mark y = true ∨ C.bear y = true
          · obtain ⟨ys, z, zs, e, hz, hzs⟩ := ih hl
            exact ⟨a :: ys, z, zs, by rw [e]; rfl, hz, hzs⟩
          · obtain ⟨y, hy, hym⟩ := hex
            have hya : y = a := by
              rcases List.mem_cons.mp hy with e | hy'
              · exact e
              · exact absurd ⟨y, hy', hym⟩ hl
            subst hya
            refine ⟨[], y, l, rfl, hym, fun x hx => ?_⟩
            constructor
            · cases hm : C.mark x with
              | false => rfl
              | true => exact absurd ⟨x, hx, Or.inl hm⟩ hl
            · cases hm : C.bear x with
              | false => rfl
              | true => exact absurd ⟨x, hx, Or.inr hm⟩ hl
      have hex : ∃ y ∈ xs, C.mark y = true ∨ C.bear y = true := by
        rcases hpos with hp | hp
        · unfold Cls.cnt at hp
          obtain ⟨y, hy⟩ := List.exists_mem_of_length_pos hp
          obtain ⟨hy1, hy2⟩ := List.mem_filter.mp hy
          exact ⟨y, hy1, Or.inr hy2⟩
        · exact hp
      obtain ⟨ys, z, zs, e, hz, hzs⟩ := gen xs hex
      exact ⟨x :: ys, z, zs, by rw [e]; rfl, hz, hzs⟩

/-! ### the decomposition answered call after call -/

/-- `Segs k xs segs`: `segs` cuts `xs` into consecutive segments, each but the last holding exactly `k`
    counted items and followed by a counted item; the last holds at most `k` -/
inductive Segs (k : Nat) : List X → List (List X) → Prop
  | last (xs : List X) : C.cnt xs ≤ k → Segs k xs [xs]
  | more (x1 : List X) (b : X) (x2 : List X) (segs : List (List X)) :
      C.cnt x1 = k → C.bear b = true → Segs k (b :: x2) segs → Segs k (x1 ++ b :: x2) (x1 :: segs)

theorem segs_exists (k : Nat) (hk : 1 ≤ k) : ∀ (n : Nat) (xs : List X), xs.length ≤ n → ∃ segs, Segs C k xs segs := by
  intro n
  induction n with
  | zero =>
    intro xs h
    have : xs = [] := List.length_eq_zero_iff.mp (by omega)
    subst this
    exact ⟨[[]], Segs.last [] (by simp)⟩
  | succ n ih =>
    intro xs h
    by_cases hc : C.cnt xs ≤ k
    · exact ⟨[xs], Segs.last xs hc⟩
    · obtain ⟨x1, b, x2, e, hb, h1⟩ := split_count C k xs (by omega)
      have hlen : 1 ≤ x1.length := by
        have := C.cnt_le_length x1; omega
      have : (b :: x2).length ≤ n := by
        have := congrArg List.length e
        simp only [List.length_append, List.length_cons] at this h ⊢
        omega
      obtain ⟨segs, hs⟩ := ih (b :: x2) this
      exact ⟨x1 :: segs, e ▸ Segs.more x1 b x2 segs h1 hb hs⟩

theorem Segs.flatten {k : Nat} {xs : List X} {segs : List (List X)} (h : Segs C k xs segs) : segs.flatten = xs := by
  induction h with
  | last xs _ => simp
  | more x1 b x2 segs _ _ _ ih => rw [List.flatten_cons, ih]

theorem Segs.ne_nil {k : Nat} {xs : List X} {segs : List (List X)} (h : Segs C k xs segs) : segs ≠ [] := by
  cases h <;> simp

/-- every segment but the last holds exactly `k` counted items; the last at most `k`, and at least one
    unless it is the only one -/
theorem Segs.counts {k : Nat} {xs : List X} {segs : List (List X)} (h : Segs C k xs segs) :
    (∀ seg ∈ segs.dropLast, C.cnt seg = k) ∧
    (∃ l, segs.getLast? = some l ∧ C.cnt l ≤ k ∧ (1 < segs.length → 1 ≤ C.cnt l)) ∧
    C.cnt xs = (segs.length - 1) * k + (match segs.getLast? with | some l => C.cnt l | none => 0) := by
  induction h with
  | last xs hc => exact ⟨by simp, ⟨xs, rfl, hc, by simp⟩, by simp⟩
  | more x1 b x2 segs h1 hb hs ih =>
    obtain ⟨i1, ⟨l, hl, hl1, hl2⟩, i3⟩ := ih
    have hne := hs.ne_nil
    obtain ⟨s0, rest, e⟩ := List.exists_cons_of_ne_nil hne
    refine ⟨?_, ⟨l, ?_, hl1, ?_⟩, ?_⟩
    · intro seg hseg
      rw [e, List.dropLast_cons_cons] at hseg
      rcases List.mem_cons.mp hseg with rfl | hseg
      · exact h1
      · exact i1 seg (by rw [e]; exact hseg)
    · rw [e, List.getLast?_cons_cons, ← e]; exact hl
    · intro _
      by_cases hlen : 1 < segs.length
      · exact hl2 hlen
      · -- the only remaining segment starts with a counted item
        have hrest : rest = [] := by
          rw [e] at hlen; simp only [List.length_cons] at hlen
          exact List.length_eq_zero_iff.mp (by omega)
        subst hrest
        rw [e] at hl hs
        simp only [List.getLast?_singleton, Option.some.injEq] at hl
        subst hl
        have hfl := hs.flatten
        simp only [List.flatten_cons, List.flatten_nil, List.append_nil] at hfl
        rw [hfl, Cls.cnt_cons]; simp [hb]
    · rw [Cls.cnt_append, h1, i3]
      have e2 : (x1 :: segs).getLast? = segs.getLast? := by
        rw [e, List.getLast?_cons_cons]
      rw [e2]
      have : (x1 :: segs).length - 1 = (segs.length - 1) + 1 := by
        rw [e]; simp
      rw [this, Nat.add_mul]; omega

/-- number of segments: one more than the full ones -/
theorem Segs.length_le {k : Nat} (hk : 1 ≤ k) {xs : List X} {segs : List (List X)} (h : Segs C k xs segs) :
    segs.length ≤ C.cnt xs / k + 1 := by
  obtain ⟨_, _, h3⟩ := h.counts
  have : (segs.length - 1) * k ≤ C.cnt xs := by omega
  have := (Nat.le_div_iff_mul_le (by omega : 0 < k)).mpr this
  omega

/-- unless there is a single segment, the full segments do not exhaust the counted items: no empty
    final answer after a full one -/
theorem Segs.length_tight {k : Nat} {xs : List X} {segs : List (List X)} (h : Segs C k xs segs) :
    segs.length = 1 ∨ (segs.length - 1) * k < C.cnt xs := by
  obtain ⟨_, ⟨l, hl, _, hl2⟩, h3⟩ := h.counts
  by_cases h1 : 1 < segs.length
  · right
    rw [hl] at h3
    have := hl2 h1
    simp only at h3
    omega
  · left
    have := h.ne_nil
    have : 0 < segs.length := List.length_pos_iff.mpr this
    omega

/-! ### lists related element by element -/

inductive Forall2 {α γ : Type} (R : α → γ → Prop) : List α → List γ → Prop
  | nil : Forall2 R [] []
  | cons {a : α} {c : γ} {as : List α} {cs : List γ} : R a c → Forall2 R as cs → Forall2 R (a :: as) (c :: cs)

theorem Forall2.length_eq {α γ : Type} {R : α → γ → Prop} {as : List α} {cs : List γ} (h : Forall2 R as cs) :
    as.length = cs.length := by
  induction h with
  | nil => rfl
  | cons _ _ ih => simp [ih]

theorem Forall2.imp {α γ : Type} {R R' : α → γ → Prop} {as : List α} {cs : List γ} (h : Forall2 R as cs)
    (hi : ∀ a c, R a c → R' a c) : Forall2 R' as cs := by
  induction h with
  | nil => exact Forall2.nil
  | cons h1 _ ih => exact Forall2.cons (hi _ _ h1) ih

theorem Forall2.flatMap_eq {α γ δ : Type} {R : α → γ → Prop} {as : List α} {cs : List γ} (h : Forall2 R as cs)
    (f : α → List δ) (g : γ → List δ) (hfg : ∀ a c, R a c → f a = g c) : as.flatMap f = cs.flatMap g := by
  induction h with
  | nil => rfl
  | cons h1 _ ih => rw [List.flatMap_cons, List.flatMap_cons, hfg _ _ h1, ih]

theorem Forall2.map_eq {α γ δ : Type} {R : α → γ → Prop} {as : List α} {cs : List γ} (h : Forall2 R as cs)
    (f : α → δ) (g : γ → δ) (hfg : ∀ a c, R a c → f a = g c) : as.map f = cs.map g := by
  induction h with
  | nil => rfl
  | cons h1 _ ih => rw [List.map_cons, List.map_cons, hfg _ _ h1, ih]

theorem Forall2.mem_left {α γ : Type} {R : α → γ → Prop} {as : List α} {cs : List γ} (h : Forall2 R as cs) :
    ∀ a ∈ as, ∃ c ∈ cs, R a c := by
  induction h with
  | nil => intro a ha; simp at ha
  | cons h1 _ ih =>
    intro a ha
    rcases List.mem_cons.mp ha with rfl | ha
    · exact ⟨_, by simp, h1⟩
    · obtain ⟨c, hc, hr⟩ := ih a ha
      exact ⟨c, by simp [hc], hr⟩

theorem Forall2.dropLast {α γ : Type} {R : α → γ → Prop} {as : List α} {cs : List γ} (h : Forall2 R as cs) :
    Forall2 R as.dropLast cs.dropLast := by
  induction h with
  | nil => exact Forall2.nil
  | cons h1 h2 ih =>
    cases h2 with
    | nil => exact Forall2.nil
    | cons g1 g2 =>
      rw [List.dropLast_cons_cons, List.dropLast_cons_cons]
      exact Forall2.cons h1 ih

theorem Forall2.getLast? {α γ : Type} {R : α → γ → Prop} {as : List α} {cs : List γ} (h : Forall2 R as cs)
    {a : α} (ha : as.getLast? = some a) : ∃ c, cs.getLast? = some c ∧ R a c := by
  induction h with
  | nil => simp at ha
  | cons h1 h2 ih =>
    cases h2 with
    | nil =>
      simp only [List.getLast?_singleton, Option.some.injEq] at ha
      subst ha
      exact ⟨_, by simp, h1⟩
    | cons g1 g2 =>
      rw [List.getLast?_cons_cons] at ha ⊢
      exact ih ha

theorem Forall2.map_right {α γ δ : Type} {R : α → δ → Prop} (f : γ → δ) {as : List α} {cs : List γ}
    (h : Forall2 (fun a c => R a (f c)) as cs) : Forall2 R as (cs.map f) := by
  induction h with
  | nil => exact Forall2.nil
  | cons h1 _ ih => exact Forall2.cons h1 ih

theorem filter_flatten' {α : Type} (q : α → Bool) : ∀ (ls : List (List α)),
    (ls.map (fun l => l.filter q)).flatten = ls.flatten.filter q
  | [] => rfl
  | l :: ls => by rw [List.map_cons, List.flatten_cons, List.flatten_cons, List.filter_append, filter_flatten' q ls]

/-- the resume point recorded by the fold is the one it started with or that of one of its items -/
theorem gFold_last_mem : ∀ (xs : List X) (acc : GAcc β),
    ((gFold C xs acc).lastI = acc.lastI ∧ (gFold C xs acc).lastPath = acc.lastPath) ∨
    ∃ z ∈ xs, (gFold C xs acc).lastI = some (C.idx z) ∧ (gFold C xs acc).lastPath = some (C.path z) ∧
      (C.mark z = true ∨ C.bear z = true)
  | [], acc => Or.inl ⟨rfl, rfl⟩
  | x :: xs, acc => by
    rw [gFold_cons]
    rcases gFold_last_mem xs (gStep C acc x) with ⟨h1, h2⟩ | ⟨z, hz, h⟩
    · by_cases hb : C.bear x = true
      · right
        refine ⟨x, by simp, ?_, ?_, Or.inr hb⟩
        · rw [h1, gStep_bear C _ _ hb]
        · rw [h2, gStep_bear C _ _ hb]
      · have hb' : C.bear x = false := by simpa using hb
        by_cases hm : C.mark x = true
        · right
          refine ⟨x, by simp, ?_, ?_, Or.inl hm⟩
          · rw [h1, gStep_mark C _ _ hb' hm]
          · rw [h2, gStep_mark C _ _ hb' hm]
        · have hm' : C.mark x = false := by simpa using hm
          left
          rw [h1, h2, gStep_skip C _ _ hb' hm']
          exact ⟨rfl, rfl⟩
    · exact Or.inr ⟨z, by simp [hz], h⟩

/-! ### episodes: feeding every token back -/

section episode
variable {Ch : Type} (call : Option Bytes → Except Err Ch) (done : Ch → Bool) (token : Ch → Option Bytes)

/-- `Episode call done token tok chunks`: calling with `tok`, then with the token of every answer in turn,
    never fails and yields the answers `chunks`, the last of which (and only it) says done -/
inductive Episode : Option Bytes → List Ch → Prop
  | last {tok : Option Bytes} {ch : Ch} : call tok = .ok ch → done ch = true → token ch = none →
      Episode tok [ch]
  | more {tok : Option Bytes} {ch : Ch} {t : Bytes} {rest : List Ch} : call tok = .ok ch → done ch = false →
      token ch = some t → Episode (some t) rest → Episode tok (ch :: rest)

/-- the executable reading: iterate at most `fuel` calls; `none` = an error or out of fuel -/
def runEpisode : Nat → Option Bytes → Option (List Ch)
  | 0, _ => none
  | fuel + 1, tok =>
    match call tok with
    | .error _ => none
    | .ok ch =>
      if done ch then some [ch] else
      match token ch with
      | none => none
      | some t => (runEpisode fuel (some t)).map (ch :: ·)

variable {call done token}

theorem Episode.det {tok : Option Bytes} {a b : List Ch} (ha : Episode call done token tok a)
    (hb : Episode call done token tok b) : a = b := by
  induction ha generalizing b with
  | last h1 h2 h3 =>
    cases hb with
    | last g1 _ _ => rw [h1] at g1; cases g1; rfl
    | more g1 g2 _ _ => rw [h1] at g1; cases g1; rw [h2] at g2; cases g2
  | more h1 h2 h3 _ ih =>
    cases hb with
    | last g1 g2 _ => rw [h1] at g1; cases g1; rw [h2] at g2; cases g2
    | more g1 _ g3 g4 =>
      rw [h1] at g1; cases g1
      rw [h3] at g3; cases g3
      rw [ih g4]

theorem Episode.ne_nil {tok : Option Bytes} {a : List Ch} (ha : Episode call done token tok a) : a ≠ [] := by
  cases ha <;> simp

/-- only the last answer says done; every other one carries a token -/
theorem Episode.flags {tok : Option Bytes} {a : List Ch} (ha : Episode call done token tok a) :
    (∀ ch ∈ a.dropLast, done ch = false ∧ (token ch).isSome = true) ∧
    ∃ l, a.getLast? = some l ∧ done l = true ∧ token l = none := by
  induction ha with
  | last h1 h2 h3 => exact ⟨by simp, _, rfl, h2, h3⟩
  | more h1 h2 h3 h4 ih =>
    obtain ⟨i1, l, hl, i2⟩ := ih
    obtain ⟨s0, rest, e⟩ := List.exists_cons_of_ne_nil h4.ne_nil
    refine ⟨?_, l, ?_, i2⟩
    · intro ch hch
      rw [e, List.dropLast_cons_cons] at hch
      rcases List.mem_cons.mp hch with rfl | hch
      · exact ⟨h2, by rw [h3]; rfl⟩
      · exact i1 ch (by rw [e]; exact hch)
    · rw [e, List.getLast?_cons_cons, ← e]; exact hl

/-- an episode is what the iteration computes, with as many calls as answers -/
theorem Episode.run {tok : Option Bytes} {a : List Ch} (ha : Episode call done token tok a) :
    ∀ fuel, a.length ≤ fuel → runEpisode call done token fuel tok = some a := by
  induction ha with
  | last h1 h2 h3 =>
    intro fuel hf
    cases fuel with
    | zero => simp at hf
    | succ f => simp [runEpisode, h1, h2]
  | more h1 h2 h3 h4 ih =>
    intro fuel hf
    cases fuel with
    | zero => simp at hf
    | succ f =>
      simp only [List.length_cons] at hf
      simp [runEpisode, h1, h2, h3, ih f (by omega)]

/-- how an answer is assembled from the outcome of the loop -/
structure MkOk (mk : Bool × GAcc β → Except Err Ch) (done : Ch → Bool) (token : Ch → Option Bytes) : Prop where
  stop : ∀ (acc : GAcc β) (i p : Nat), acc.lastI = some i → acc.lastPath = some p →
    ∃ ch, mk (true, acc) = .ok ch ∧ done ch = false ∧ token ch = some (buildToken i p)
  fin : ∀ (acc : GAcc β), ∃ ch, mk (false, acc) = .ok ch ∧ done ch = true ∧ token ch = none

/-- from a decomposition to an episode: if calling with the token of any item of the whole walk `G` runs
    the loop on the items after it, then every decomposition of a tail of `G` is answered segment by
    segment (`zs0` = items, neither counted nor marking, lying between the resume point and the tail) -/
theorem episode_of_segs {mk : Bool × GAcc β → Except Err Ch} (hmk : MkOk mk done token)
    (G : List X) (k : Nat) (hk : 1 ≤ k)
    (hres : ∀ pre x post, G = pre ++ x :: post →
      call (some (buildToken (C.idx x) (C.path x))) = mk (gRun C k post {})) :
    ∀ (xs : List X) (segs : List (List X)), Segs C k xs segs →
      ∀ (tok : Option Bytes) (zs0 : List X), (∀ x ∈ zs0, C.mark x = false ∧ C.bear x = false) →
        call tok = mk (gRun C k (zs0 ++ xs) {}) → (∃ pre, G = pre ++ (zs0 ++ xs)) →
        ∃ chunks, Episode call done token tok chunks ∧
          Forall2 (fun ch seg => ∃ st, mk (st, gFold C seg {}) = .ok ch) chunks segs := by
  intro xs segs hs
  induction hs with
  | last xs hc =>
    intro tok zs0 hz hcall _
    have hrun : gRun C k (zs0 ++ xs) {} = (false, gFold C xs {}) := by
      rw [gRun_all C k _ _ (by
        rw [Cls.cnt_append]
        have : C.cnt zs0 = 0 := by
          unfold Cls.cnt
          rw [List.length_eq_zero_iff, List.filter_eq_nil_iff]
          intro y hy; rw [(hz y hy).2]; simp
        simp [this]; exact hc)]
      rw [gFold_append, gFold_skip C zs0 _ hz]
    rw [hrun] at hcall
    obtain ⟨ch, h1, h2, h3⟩ := hmk.fin (gFold C xs {})
    exact ⟨[ch], Episode.last (hcall.trans h1) h2 h3, Forall2.cons ⟨false, h1⟩ Forall2.nil⟩
  | more x1 b x2 segs h1 hb hs ih =>
    intro tok zs0 hz hcall hpre
    have hz0 : C.cnt zs0 = 0 := by
      unfold Cls.cnt
      rw [List.length_eq_zero_iff, List.filter_eq_nil_iff]
      intro y hy; rw [(hz y hy).2]; simp
    have hrun : gRun C k (zs0 ++ (x1 ++ b :: x2)) {} = (true, gFold C x1 {}) := by
      rw [← List.append_assoc, gRun_stop C k (zs0 ++ x1) x2 b {} (by rw [Cls.cnt_append]; simp [hz0, h1]) hb]
      rw [gFold_append, gFold_skip C zs0 _ hz]
    rw [hrun] at hcall
    obtain ⟨ys, z, zs, e, hzm, hzs⟩ := last_mark C x1 (by omega)
    obtain ⟨l1, l2⟩ := gFold_last C ys zs z {} hzm hzs
    rw [← e] at l1 l2
    obtain ⟨ch, c1, c2, c3⟩ := hmk.stop (gFold C x1 {}) _ _ l1 l2
    obtain ⟨pre, hG⟩ := hpre
    have hG' : G = (pre ++ zs0 ++ ys) ++ z :: (zs ++ b :: x2) := by
      rw [hG, e]; simp [List.append_assoc]
    have hnext := hres _ z _ hG'
    obtain ⟨chunks, he, hf⟩ := ih (some (buildToken (C.idx z) (C.path z))) zs hzs hnext
      ⟨pre ++ zs0 ++ ys ++ [z], by rw [hG']; simp [List.append_assoc]⟩
    exact ⟨ch :: chunks, Episode.more (hcall.trans c1) c2 c3 he, Forall2.cons ⟨true, c1⟩ hf⟩

end episode

end Pag
end Traph

import Proofs.SinceClear
import Proofs.LinkBagC03
import Proofs.MarksOps
import Proofs.LinkInv
import Proofs.PtrOkTrace
import Proofs.MostLinked
import Proofs.SizesRun
/-! The invariants of EVERY reachable state — histories with `clear` and `reopen` included, no hypothesis on the
    answers: the only hypotheses are that submitted LRUs have at least one stem (`OpWf`), that the constructor's
    rule anchors are complete LRUs (`rulesCanonical`) and the API's discipline (`Disciplined`).

    The constructor and `clear` both build `installRules b rs true` on a blank index `b` (`Blank`: both files hold
    their header block only). `based_run` collects, for a clear-free disciplined history from such a state, every
    invariant proved in this library together with the history-level facts (pages = submitted pages, links =
    submitted links); `history_based` puts every history in that form by cutting it at its last `clear`
    (`run_sinceClear`). `Reachable`, `reachable_invariants` are the per-state form. -/
namespace Traph
open State

/-- both files hold their header block only -/
structure Blank (b : State) : Prop where
  trie : b.trie = #[{}]
  links : b.links = #[{}]

theorem blank_clearBase (s : State) (d : Option Rule) (rs : Option (List (Bytes × Rule))) :
    Blank (s.clearBase d rs) := ⟨rfl, rfl⟩

theorem blank_freshBase (cfg : Config) (dflt : Rule) (log : List Write) :
    Blank ({ cfg := cfg, dflt := dflt, log := .linkHdr :: .hdr 0 :: log } : State) := ⟨rfl, rfl⟩

theorem ua_opWF_of_opWf {op : Op} (h : OpWf op) : op.WF := by
  cases op <;> first | exact h | trivial

/-! ### the state the constructor / `clear` builds -/

/-- rules installed on a blank index: every invariant, no page, no link, no webentity -/
theorem based_init {b : State} (hb : Blank b) (rs : List (Bytes × Rule)) (hc : rulesCanonical rs) :
    ∃ t, Good (installRules b rs true).1 t ∧ Inv (installRules b rs true).1 t ∧
      (∀ p, ¬ IsPage (installRules b rs true).1 t p) ∧ Graph (installRules b rs true).1 t [] ∧
      RulesOk (installRules b rs true).1 ∧ Live (installRules b rs true).1 ∧
      (installRules b rs true).1.weMap = (fun _ => 0) ∧ (installRules b rs true).2 = .ok () := by
  have h0 : Shape b .nil := shape_of_trie_init b hb.trie
  obtain ⟨t, x, f⟩ := installRules_step rs b .nil true h0
  have a := f (fun ar har => (hc ar har).1) (inv_nil b)
  obtain ⟨t', k, _, hok, _⟩ := installRules_noPages rs b .nil (good_of_trie_init b hb.trie)
    (noPages_of_trie_init b hb.trie)
  have e : t' = t := LinkBag.shape_unique k.good.shape x.shape
  subst e
  have hnp : ∀ p, ¬ IsPage (installRules b rs true).1 t' p := by
    intro p hp
    rcases (a.page p).mp hp with hp | ⟨_, hx, _⟩
    · exact not_isPage_nil _ p hp
    · simp at hx
  have pe := ptrEq_installRules rs b true
  have hl0 : LinksOk b := linksOk_of_init hb.trie hb.links
  have hbag : ∀ o c, (installRules b rs true).1.bag o c = [] := by
    intro o c
    rw [pe.bag]
    unfold State.bag
    have hcell : b.cell c = {} := by
      unfold State.cell
      rw [hb.trie]
      cases c <;> rfl
    rw [hcell]
    cases o <;> exact lbWalk0_zero _
  have hsz : (installRules b rs true).1.links.size = 1 := by rw [pe.size, hb.links]; rfl
  have hlive : Live b := ⟨by rw [hb.trie]; exact Nat.zero_lt_one, by rw [hb.links]; exact Nat.zero_lt_one⟩
  refine ⟨t', k.good, a.inv, hnp,
    ⟨pe.linksOk hl0, fun st hst => by simp at hst, fun a b' => by rw [hbag]; rfl, fun a b' => by rw [hbag]; rfl,
      by rw [hsz]; rfl⟩,
    rulesOk_installRules rs b .nil h0 hc (rulesOk_of_trie_init b hb.trie),
    hlive.mono (le_installRules rs b true hlive.1), ?_, hok⟩
  have hn : NoPageCells b := noPages_of_trie_init b hb.trie
  rw [installRules_nopage rs b .nil true h0 hn]
  exact weMap_of_trie_init b hb.trie

/-! ### a clear-free disciplined history from such a state -/

/-- the invariants and the history-level facts, all at once -/
theorem based_run {b : State} (hb : Blank b) (rs : List (Bytes × Rule)) (hc : rulesCanonical rs) (seg : List Op)
    (hfree : ∀ op ∈ seg, ∀ d rs, op ≠ .clear d rs) (hwf : ∀ op ∈ seg, OpWf op)
    (hd : Disciplined (installRules b rs true).1 seg) :
    NoKeyErr (installRules b rs true).1 seg ∧
    ∃ t, LinkView ((installRules b rs true).1.run seg) t (seg.flatMap Op.links) ∧
      (∀ p, IsPage ((installRules b rs true).1.run seg) t p ↔ Submitted seg p) ∧
      (∀ p, (IsCrawled ((installRules b rs true).1.run seg) t p →
                ∃ op ∈ seg, ∃ x ∈ op.pages, x.1 = p ∧ x.2.2 = true) ∧
            ((∃ op ∈ seg, ∃ x ∈ op.pages, x.1 = p ∧ x.2.1 = true) →
                IsCrawled ((installRules b rs true).1.run seg) t p)) ∧
      SizeOk ((installRules b rs true).1.run seg) t ∧ MarkOk ((installRules b rs true).1.run seg) t ∧
      LkOk ((installRules b rs true).1.run seg) t [] ∧ RulesOk ((installRules b rs true).1.run seg) ∧
      Whole ((installRules b rs true).1.run seg) ∧ HeaderStub ((installRules b rs true).1.run seg) := by
  obtain ⟨t0, g0, hi0, hnp, gr0, ok0, hlive, _, _⟩ := based_init hb rs hc
  obtain ⟨hok, okf, tg, gf⟩ := disciplined_run seg _ t0 g0 ok0 hd
  refine ⟨hok, ?_⟩
  -- pages
  obtain ⟨t, x, f⟩ := run_spec seg _ t0 g0.shape hfree
  have a := f hwf hi0 hok
  -- links
  obtain ⟨t1, h1, _, gr⟩ := run_graph seg _ t0 [] g0.shape hi0 gr0 hfree hwf hok
  have e1 : t1 = t := LinkBag.shape_unique h1 x.shape
  subst e1
  rw [List.nil_append] at gr
  -- sizes
  have e2 : tg = t1 := LinkBag.shape_unique gf.shape x.shape
  subst e2
  -- parents
  have hpar : ParOk ((installRules b rs true).1.run seg) tg 0 := by
    have k : LinkBag.ParKeeps b ((installRules b rs true).1.run seg) :=
      (LinkBag.parKeeps_installRules rs b true).trans (LinkBag.run_parKeeps seg _ hfree)
    obtain ⟨t', h', hp'⟩ := k .nil (shape_of_trie_init b hb.trie) (parOk_nil _)
    rw [LinkBag.shape_unique x.shape h']
    exact hp'
  -- marks
  have hmark : MarkOk ((installRules b rs true).1.run seg) tg := by
    obtain ⟨t', h', hm'⟩ := run_minv seg _ (minv_installRules rs b true (minv_of_trie_init b hb.trie))
    rw [LinkBag.shape_unique x.shape h']
    exact hm'
  -- stubs target pages
  have hlk : LkOk ((installRules b rs true).1.run seg) tg [] := by
    obtain ⟨t', h', hk'⟩ := li_run seg _ hwf (li_installRules rs b true (li_init b hb.trie hb.links))
    rw [li_shape_unique x.shape h']
    exact hk'
  -- pointers
  have hwhole : Whole ((installRules b rs true).1.run seg) := by
    have hw0 : Whole b := Whole.of_eq (whole_base {} .never []) hb.trie hb.links
    exact (((wt_installRules rs b true).trans
      (run_wt seg _ hfree (fun op ho => ua_opWF_of_opWf (hwf op ho)))) hw0).2
  -- header stub
  have hhdr : HeaderStub ((installRules b rs true).1.run seg) := by
    have hbl : Live b := ⟨by rw [hb.trie]; exact Nat.zero_lt_one, by rw [hb.links]; exact Nat.zero_lt_one⟩
    have hle1 := le_installRules rs b true hbl.1
    have hle2 := (run_le (installRules b rs true).1 seg hlive hfree).1
    have hs : b.links[0]? = some ({} : Stub) := by rw [hb.links]; rfl
    exact ⟨({} : Stub), hle2.stubs 0 _ (hle1.stubs 0 _ hs), rfl⟩
  refine ⟨tg, ⟨x.shape, a.inv, hpar, gr⟩, fun p => ?_, fun p => ⟨fun hcr => ?_, ?_⟩, gf.sizeOk, hmark, hlk, okf,
    hwhole, hhdr⟩
  · rw [a.page]
    unfold Submitted
    simp only [List.mem_flatMap]
    constructor
    · rintro (hp | ⟨y, ⟨op, ho, hy⟩, e⟩)
      · exact absurd hp (hnp p)
      · exact ⟨op, ho, y, hy, e⟩
    · rintro ⟨op, ho, y, hy, e⟩
      exact Or.inr ⟨y, ⟨op, ho, hy⟩, e⟩
  · rcases a.may p hcr with hcr | ⟨y, hy, e⟩
    · exact absurd hcr.isPage (hnp p)
    · obtain ⟨op, ho, hy⟩ := List.mem_flatMap.mp hy
      exact ⟨op, ho, y, hy, e⟩
  · rintro ⟨op, ho, y, hy, e⟩
    exact a.must p (Or.inr ⟨y, List.mem_flatMap.mpr ⟨op, ho, hy⟩, e⟩)

/-- the prefix map is the fold of the abstract edits over the transcript -/
theorem based_weMap {b : State} (hb : Blank b) (rs : List (Bytes × Rule)) (hc : rulesCanonical rs) (seg : List Op)
    (hfree : ∀ op ∈ seg, ∀ d rs, op ≠ .clear d rs) (hwe : ∀ op ∈ seg, OpWfWe op)
    (hd : Disciplined (installRules b rs true).1 seg) :
    ((installRules b rs true).1.run seg).weMap = specFold (fun _ => 0) ((installRules b rs true).1.transcript seg) := by
  obtain ⟨t0, g0, _, _, _, ok0, _, hw0, _⟩ := based_init hb rs hc
  have hok := disciplined_noKeyErr g0 ok0 hd
  rw [weMap_run seg _ t0 g0.shape hfree hwe hok, hw0]

/-! ### every history, cut at its last `clear` -/

/-- **NORMAL FORM of a history**: the state reached by any disciplined history on a fresh index is reached by the
    requests since the last `clear`, from rules installed on a blank index (those of the constructor, or of that
    `clear`), and the history since is disciplined from there; the transcript since the last `clear` is the
    transcript of that run -/
theorem history_based (cfg : Config) (dflt : Rule) (rules : List (Bytes × Rule)) (ops : List Op)
    (hr : rulesCanonical rules) (hd : Disciplined (State.fresh cfg dflt rules []).1 ops) :
    ∃ b rs, Blank b ∧ rulesCanonical rs ∧
      (State.fresh cfg dflt rules []).1.run ops = (installRules b rs true).1.run (sinceClear ops) ∧
      Disciplined (installRules b rs true).1 (sinceClear ops) ∧
      sinceClearT ((State.fresh cfg dflt rules []).1.transcript ops) =
        (installRules b rs true).1.transcript (sinceClear ops) ∧
      (lastClearArgs ops = none → b = { cfg := cfg, dflt := dflt, log := [.linkHdr, .hdr 0] } ∧ rs = rules) ∧
      (∀ d l, lastClearArgs ops = some (d, l) →
        b = ((State.fresh cfg dflt rules []).1.run (beforeClear ops)).clearBase d l ∧ rs = l.getD []) := by
  obtain ⟨hd1, hd2⟩ := disciplined_sinceClear _ ops hd
  obtain ⟨ht1, ht2⟩ := sinceClearT_transcript (State.fresh cfg dflt rules []).1 ops
  rcases run_sinceClear (State.fresh cfg dflt rules []).1 ops with ⟨hf, hs⟩ | ⟨d, l, ha, _, hrun, _⟩
  · have hn := lastClearArgs_of_free ops hf
    refine ⟨{ cfg := cfg, dflt := dflt, log := [.linkHdr, .hdr 0] }, rules, ⟨rfl, rfl⟩, hr, ?_, hd1 hn, ht1 hn,
      fun _ => ⟨rfl, rfl⟩, fun d l h => (by rw [hn] at h; cases h)⟩
    rw [hs]; rfl
  · obtain ⟨hcan, hdis⟩ := hd2 d l ha
    have hcl : ∀ s : State, (s.clear d l).1 = (installRules (s.clearBase d l) (l.getD []) true).1 := fun s => by
      rw [clear_eq_installRules]
    refine ⟨((State.fresh cfg dflt rules []).1.run (beforeClear ops)).clearBase d l, l.getD [],
      blank_clearBase _ d l, ?_, ?_, ?_, ?_, fun h => (by rw [ha] at h; cases h), fun d' l' h => ?_⟩
    · cases l with
      | none => intro ar har; simp at har
      | some r => exact hcan r rfl
    · rw [hrun, hcl]
    · rw [← hcl]; exact hdis
    · rw [ht2 d l ha, hcl]
    · rw [ha] at h; cases h; exact ⟨rfl, rfl⟩

/-! ### reachable states -/

/-- the states reached from a fresh index (constructor anchors complete LRUs) by any history of well-formed
    requests — `clear` and `reopen` included — that follows the API's discipline -/
def Reachable (s : State) : Prop :=
  ∃ cfg dflt rules ops, rulesCanonical rules ∧ (∀ op ∈ ops, OpWf op) ∧
    Disciplined (State.fresh cfg dflt rules []).1 ops ∧ s = (State.fresh cfg dflt rules []).1.run ops

theorem reachable_fresh (cfg : Config) (dflt : Rule) (rules : List (Bytes × Rule)) (ops : List Op)
    (hr : rulesCanonical rules) (hwf : ∀ op ∈ ops, OpWf op)
    (hd : Disciplined (State.fresh cfg dflt rules []).1 ops) :
    Reachable ((State.fresh cfg dflt rules []).1.run ops) := ⟨cfg, dflt, rules, ops, hr, hwf, hd, rfl⟩

/-- a reachable state is reached without `clear` from rules installed on a blank index -/
theorem reachable_based {s : State} (h : Reachable s) :
    ∃ b rs seg, Blank b ∧ rulesCanonical rs ∧ (∀ op ∈ seg, ∀ d rs, op ≠ .clear d rs) ∧ (∀ op ∈ seg, OpWf op) ∧
      Disciplined (installRules b rs true).1 seg ∧ s = (installRules b rs true).1.run seg := by
  obtain ⟨cfg, dflt, rules, ops, hr, hwf, hd, rfl⟩ := h
  obtain ⟨b, rs, hb, hc, hrun, hdis, _⟩ := history_based cfg dflt rules ops hr hd
  exact ⟨b, rs, sinceClear ops, hb, hc, sinceClear_free ops, fun op ho => hwf op (sinceClear_sub ops op ho), hdis,
    hrun⟩

/-- **EVERY REACHABLE STATE satisfies every invariant of the library**: the ghost tree with its shape, the page-set
    invariants, the block accounting, the parent pointers, the pruning marks, stubs targeting pages, well-formed
    link lists that are the bags of some list of submitted links, rule flags backed by RAM rules, all pointers
    inside the files, the link header never rewritten -/
theorem reachable_invariants {s : State} (h : Reachable s) :
    ∃ t, Shape s t ∧ Inv s t ∧ SizeOk s t ∧ ParOk s t 0 ∧ MarkOk s t ∧ LkOk s t [] ∧ LinksOk s ∧ RulesOk s ∧
      Whole s ∧ HeaderStub s ∧ ∃ L, Graph s t L := by
  obtain ⟨b, rs, seg, hb, hc, hfree, hwf, hd, rfl⟩ := reachable_based h
  obtain ⟨_, t, v, _, _, hsz, hm, hk, ok, hw, hh⟩ := based_run hb rs hc seg hfree hwf hd
  exact ⟨t, v.shape, v.inv, hsz, v.par, hm, hk, v.graph.ok, ok, hw, hh, _, v.graph⟩

/-- the ghost tree of a state is unique: the invariants may be used one by one -/
theorem reachable_tree_unique {s : State} {t t' : T} (h : Shape s t) (h' : Shape s t') : t = t' :=
  LinkBag.shape_unique h h'

/-- a request of a disciplined history never answers `KeyError`, wherever the `clear`s are -/
theorem reachable_noKeyErr (cfg : Config) (dflt : Rule) (rules : List (Bytes × Rule)) (ops : List Op)
    (hr : rulesCanonical rules) (hd : Disciplined (State.fresh cfg dflt rules []).1 ops) :
    NoKeyErr (State.fresh cfg dflt rules []).1 ops := (disciplined_fresh cfg dflt rules [] ops hr hd).1

/-- one more request from a reachable state -/
theorem reachable_step {s : State} (h : Reachable s) (op : Op) (hwf : OpWf op) (hd : StepOk s op) :
    Reachable (s.step op).1 := by
  obtain ⟨cfg, dflt, rules, ops, hr, hwfs, hds, rfl⟩ := h
  refine ⟨cfg, dflt, rules, ops ++ [op], hr, fun o ho => ?_, ?_, ?_⟩
  · rcases List.mem_append.mp ho with ho | ho
    · exact hwfs o ho
    · rw [List.mem_singleton.mp ho]; exact hwf
  · rw [disciplined_append]; exact ⟨hds, hd, trivial⟩
  · rw [run_append]; rfl

#print axioms based_run
#print axioms history_based
#print axioms reachable_invariants

end Traph

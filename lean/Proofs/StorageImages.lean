import Proofs.StorageBridge
import Proofs.ReachableAll
/-! C15, images. The two storage machines of `Traph/Storage.lean`, fed the storage calls of a history (and the
    truncations of `clear`: `open(path, "wb+")` on files, `storage.clear()` in memory), hold identical bytes,
    equal to the codec image (`encodeTrie` / `encodeLinks`) of the model state — after every request and after
    every single call; the memory-mapped reader returns the blocks of the model state.

    * `sb_FileStores` / `sb_MemStores`: the two stores of an index on each back-end; `.event` = one storage call
      or truncation; `.run` = a list of them, with what each `write` answered.
    * `sb_run_sim`: admissible events ⇒ both machines hold the images of the replayed files, same answers.
    * `C15_images`, `C15_images_every_write`, `C15_mmap_blocks`, `C15_node_image`, `C15_discipline*`,
      `C15_backends`: the statements for every history. -/
namespace Traph
open State Layout LayoutOk

/-! ### the two stores of an index, on each back-end -/

/-- `Traph(folder=…)`: two file objects -/
structure sb_FileStores where
  trie  : FileSt := {}
  links : FileSt := {}

/-- `Traph(folder=None)`: two bytearrays -/
structure sb_MemStores where
  trie  : MemSt := {}
  links : MemSt := {}

def sb_FileStores.get (st : sb_FileStores) : sb_StoreId → FileSt
  | .trie => st.trie
  | .links => st.links

def sb_FileStores.set (st : sb_FileStores) : sb_StoreId → FileSt → sb_FileStores
  | .trie, x => { st with trie := x }
  | .links, x => { st with links := x }

def sb_MemStores.get (st : sb_MemStores) : sb_StoreId → MemSt
  | .trie => st.trie
  | .links => st.links

def sb_MemStores.set (st : sb_MemStores) : sb_StoreId → MemSt → sb_MemStores
  | .trie, x => { st with trie := x }
  | .links, x => { st with links := x }

/-- one event on the file back-end: `FileStorage.write(data, block)` on the store of the call, or the
    truncation `open(path, "wb+")` (empty file, cursor 0). Answers what `write` returned. -/
def sb_FileStores.event (st : sb_FileStores) : Event → sb_FileStores × Option Nat
  | .write w =>
    let r := (st.get w.sb_store).write w.sb_store.bs w.sb_data w.sb_block
    (st.set w.sb_store r.1, some r.2)
  | .truncTrie => (st.set .trie {}, none)
  | .truncLinks => (st.set .links {}, none)

/-- one event on the memory back-end: `MemoryStorage.write(data, block)`, or `storage.clear()` -/
def sb_MemStores.event (st : sb_MemStores) : Event → sb_MemStores × Option Nat
  | .write w =>
    let r := (st.get w.sb_store).write w.sb_store.bs w.sb_data w.sb_block
    (st.set w.sb_store r.1, some r.2)
  | .truncTrie => (st.set .trie {}, none)
  | .truncLinks => (st.set .links {}, none)

def sb_FileStores.run (st : sb_FileStores) : List Event → sb_FileStores × List (Option Nat)
  | [] => (st, [])
  | e :: es =>
    let r := st.event e
    let rest := r.1.run es
    (rest.1, r.2 :: rest.2)

def sb_MemStores.run (st : sb_MemStores) : List Event → sb_MemStores × List (Option Nat)
  | [] => (st, [])
  | e :: es =>
    let r := st.event e
    let rest := r.1.run es
    (rest.1, r.2 :: rest.2)

/-- both stores hold the images of the files `f` -/
def sb_FileStores.Abs (st : sb_FileStores) (f : Files) : Prop := ∀ i, (st.get i).data = f.sb_image i
def sb_MemStores.Abs (st : sb_MemStores) (f : Files) : Prop := ∀ i, (st.get i).data = f.sb_image i

theorem sb_image_empty (i : sb_StoreId) : ({} : Files).sb_image i = [] := by
  cases i <;> rfl

theorem sb_fileStores_abs_empty : ({} : sb_FileStores).Abs {} := fun i => by
  rw [sb_image_empty]; cases i <;> rfl

theorem sb_memStores_abs_empty : ({} : sb_MemStores).Abs {} := fun i => by
  rw [sb_image_empty]; cases i <;> rfl

@[simp] theorem sb_FileStores.get_set (st : sb_FileStores) (i j : sb_StoreId) (x : FileSt) :
    (st.set i x).get j = if j = i then x else st.get j := by
  cases i <;> cases j <;> rfl

@[simp] theorem sb_MemStores.get_set (st : sb_MemStores) (i j : sb_StoreId) (x : MemSt) :
    (st.set i x).get j = if j = i then x else st.get j := by
  cases i <;> cases j <;> rfl

/-! ### one event -/

theorem sb_event_sim (f : Files) (fs : sb_FileStores) (ms : sb_MemStores) (hf : fs.Abs f) (hm : ms.Abs f)
    (e : Event) (hok : e.sb_Ok f) :
    (fs.event e).1.Abs (f.applyE e) ∧ (ms.event e).1.Abs (f.applyE e) ∧ (fs.event e).2 = (ms.event e).2 := by
  cases e with
  | write w =>
    obtain ⟨hd, hw, hother⟩ := sb_write_sim f w hok
    have hwf := sb_blocks_wf f w.sb_store
    have hF := FileSt.write_sim (fs.get w.sb_store) (f.sb_blocks w.sb_store) (hf w.sb_store) hwf
      w.sb_data w.sb_block hd
    have hM := MemSt.write_sim (ms.get w.sb_store) (f.sb_blocks w.sb_store) (hm w.sb_store) hwf
      w.sb_data w.sb_block hd
    rw [sb_blocks_bs] at hF hM
    refine ⟨fun i => ?_, fun i => ?_, ?_⟩
    · simp only [sb_FileStores.event, sb_FileStores.get_set, Files.applyE]
      by_cases hi : i = w.sb_store
      · subst hi; rw [if_pos rfl]
        have := hF.1; rw [hw] at this; exact this
      · rw [if_neg hi, hf i]; unfold Files.sb_image; rw [hother i hi]
    · simp only [sb_MemStores.event, sb_MemStores.get_set, Files.applyE]
      by_cases hi : i = w.sb_store
      · subst hi; rw [if_pos rfl]
        have := hM.1; rw [hw] at this; exact this
      · rw [if_neg hi, hm i]; unfold Files.sb_image; rw [hother i hi]
    · simp only [sb_FileStores.event, sb_MemStores.event]
      rw [hF.2, hM.2]
  | truncTrie =>
    refine ⟨fun i => ?_, fun i => ?_, rfl⟩
    · cases i
      · rfl
      · exact hf .links
    · cases i
      · rfl
      · exact hm .links
  | truncLinks =>
    refine ⟨fun i => ?_, fun i => ?_, rfl⟩
    · cases i
      · exact hf .trie
      · rfl
    · cases i
      · exact hm .trie
      · rfl

/-! ### a list of events -/

/-- admissible events: both machines end up holding the images of the replayed files, and every `write`
    answered the same offset on both -/
theorem sb_run_sim : ∀ (es : List Event) (f : Files) (fs : sb_FileStores) (ms : sb_MemStores),
    fs.Abs f → ms.Abs f → sb_EvOk f es →
    (fs.run es).1.Abs (es.foldl Files.applyE f) ∧ (ms.run es).1.Abs (es.foldl Files.applyE f) ∧
    (fs.run es).2 = (ms.run es).2
  | [], _, _, _, hf, hm, _ => ⟨hf, hm, rfl⟩
  | e :: es, f, fs, ms, hf, hm, hok => by
    obtain ⟨h1, h2, h3⟩ := sb_event_sim f fs ms hf hm e hok.1
    obtain ⟨r1, r2, r3⟩ := sb_run_sim es _ _ _ h1 h2 hok.2
    simp only [sb_FileStores.run, sb_MemStores.run, List.foldl_cons]
    exact ⟨r1, r2, by rw [h3, r3]⟩

/-- from two empty stores -/
theorem sb_run_images (es : List Event) (hok : sb_EvOk {} es) (i : sb_StoreId) :
    ((({} : sb_FileStores).run es).1.get i).data = (replayE es).sb_image i ∧
    ((({} : sb_MemStores).run es).1.get i).data = (replayE es).sb_image i ∧
    (({} : sb_FileStores).run es).2 = (({} : sb_MemStores).run es).2 := by
  obtain ⟨h1, h2, h3⟩ := sb_run_sim es {} {} {} sb_fileStores_abs_empty sb_memStores_abs_empty hok
  exact ⟨h1 i, h2 i, h3⟩

/-! ### the same, as `SOp` lists per store (clear-free stretches): `AllDisciplined`, `back_ends_agree` -/

/-- the `storage.write` calls a list of log entries makes on one store -/
def sb_opsOf (st : sb_StoreId) (ws : List Write) : List SOp :=
  (ws.filter (fun w => w.sb_store = st)).map (fun w => .write w.sb_data w.sb_block)

/-- admissible writes are `AllDisciplined` on each store, and run the abstract blocks of the files to the
    abstract blocks of the files after -/
theorem sb_allDisciplined (st : sb_StoreId) : ∀ (ws : List Write) (f : Files), sb_WsOk f ws →
    (f.sb_blocks st).AllDisciplined (sb_opsOf st ws) ∧
    ((f.sb_blocks st).runOps (sb_opsOf st ws)).1 = (ws.foldl Files.apply f).sb_blocks st
  | [], _, _ => ⟨trivial, rfl⟩
  | w :: ws, f, hok => by
    obtain ⟨hd, hw, hother⟩ := sb_write_sim f w hok.1
    obtain ⟨ih1, ih2⟩ := sb_allDisciplined st ws _ hok.2
    by_cases hst : w.sb_store = st
    · subst hst
      have e : sb_opsOf w.sb_store (w :: ws) = .write w.sb_data w.sb_block :: sb_opsOf w.sb_store ws := by
        simp [sb_opsOf]
      rw [e]
      simp only [Blocks.AllDisciplined, Blocks.runOps, List.foldl_cons]
      rw [hw]
      exact ⟨⟨hd, ih1⟩, ih2⟩
    · have e : sb_opsOf st (w :: ws) = sb_opsOf st ws := by
        simp [sb_opsOf, hst]
      rw [e, List.foldl_cons]
      rw [hother st (fun h => hst h.symm)] at ih1 ih2
      exact ⟨ih1, ih2⟩

/-- … hence, by `back_ends_agree`, `FileSt.runOps` and `MemSt.runOps` from the empty store give the same answers
    and hold the image of the replayed files -/
theorem sb_runOps_images (st : sb_StoreId) (ws : List Write) (hok : sb_WsOk {} ws) :
    (⟨st.bs, []⟩ : Blocks).AllDisciplined (sb_opsOf st ws) ∧
    ((({} : FileSt).runOps st.bs (sb_opsOf st ws)).2 = (({} : MemSt).runOps st.bs (sb_opsOf st ws)).2) ∧
    (({} : FileSt).runOps st.bs (sb_opsOf st ws)).1.data = (replay ws).sb_image st ∧
    (({} : MemSt).runOps st.bs (sb_opsOf st ws)).1.data = (replay ws).sb_image st := by
  obtain ⟨h1, h2⟩ := sb_allDisciplined st ws {} hok
  have hb : ({} : Files).sb_blocks st = ⟨st.bs, []⟩ := by cases st <;> rfl
  rw [hb] at h1 h2
  obtain ⟨a1, a2, a3, a4, _⟩ := back_ends_agree (sb_opsOf st ws) {} {} ⟨st.bs, []⟩ rfl rfl
    (by cases st <;> exact ⟨by decide, by simp⟩) h1
  refine ⟨h1, a1.trans a2.symm, ?_, ?_⟩
  · rw [FileSt.Abs, h2] at a3; exact a3
  · rw [MemSt.Abs, h2] at a4; exact a4

/-! ### reading blocks back -/

theorem sb_trieBlocks_get (f : Files) (b : Nat) (h0 : 0 < b) (hb : b < f.trie.size) :
    f.sb_trieBlocks[b]? = some (encodeCell f.trie[b]) := by
  have hne : f.trie.size ≠ 0 := by omega
  obtain ⟨k, rfl⟩ : ∃ k, b = k + 1 := ⟨b - 1, by omega⟩
  simp only [Files.sb_trieBlocks, if_neg hne, List.getElem?_cons_succ, List.getElem?_map, List.getElem?_drop]
  rw [Nat.add_comm 1 k]
  simp [hb]

theorem sb_linkBlocks_get (f : Files) (b : Nat) (h0 : 0 < b) (hb : b < f.links.size) :
    f.sb_linkBlocks[b]? = some (encodeStub f.links[b]) := by
  have hne : f.links.size ≠ 0 := by omega
  obtain ⟨k, rfl⟩ : ∃ k, b = k + 1 := ⟨b - 1, by omega⟩
  simp only [Files.sb_linkBlocks, if_neg hne, List.getElem?_cons_succ, List.getElem?_map, List.getElem?_drop]
  rw [Nat.add_comm 1 k]
  simp [hb]

theorem sb_trieBlocks_zero (f : Files) (h : 0 < f.trie.size) :
    f.sb_trieBlocks[0]? = some (encodeTrieHeader f.hdrId) := by
  have hne : f.trie.size ≠ 0 := by omega
  simp [Files.sb_trieBlocks, hne]

theorem sb_linkBlocks_zero (f : Files) (h : 0 < f.links.size) :
    f.sb_linkBlocks[0]? = some encodeLinkHeader := by
  have hne : f.links.size ≠ 0 := by omega
  simp [Files.sb_linkBlocks, hne]

/-- `MemMapStorage.read(b * block_size)` on the image of a store is block `b` of the abstract list
    (`none` past the end) -/
theorem sb_mmap_image (f : Files) (st : sb_StoreId) (b : Nat) :
    mmapRead (f.sb_image st) st.bs (b * st.bs) = (f.sb_blocks st).blocks[b]? := by
  have hw := sb_blocks_wf f st
  have h := mmapRead_sim (f.sb_blocks st) hw (b * st.bs) (by rw [sb_blocks_bs]; exact Nat.mul_mod_left _ _)
  rw [sb_blocks_bs] at h
  rw [Files.sb_image, h, Blocks.read, sb_blocks_bs, Nat.mul_div_cancel]
  cases st <;> decide

/-! ### a range of blocks: nodes with stems of any length -/

/-- blocks `i .. i+n-1` (`1 ≤ i`) of the trie image are the encodings of cells `i .. i+n-1`, concatenated -/
theorem sb_image_slice (f : Files) (i n : Nat) (hi : 0 < i) (h : 0 < f.trie.size) :
    ((f.sb_image .trie).drop (i * trieBlock)).take (n * trieBlock) =
      (((f.trie.toList.drop i).take n).map encodeCell).flatten := by
  have hw : ∀ x ∈ f.sb_trieBlocks, x.length = trieBlock := (sb_blocks_wf f .trie).2
  have hne : f.trie.size ≠ 0 := by omega
  show ((f.sb_trieBlocks.flatten).drop (i * trieBlock)).take (n * trieBlock) = _
  rw [flatten_drop_mul trieBlock _ hw i,
    flatten_take_mul trieBlock _ (fun x hx => hw x (List.mem_of_mem_drop hx)) n]
  obtain ⟨k, rfl⟩ : ∃ k, i = k + 1 := ⟨i - 1, by omega⟩
  simp only [Files.sb_trieBlocks, if_neg hne, List.drop_succ_cons, ← List.map_drop, ← List.map_take,
    List.drop_drop]
  rw [Nat.add_comm 1 k]

/-! ### every history -/

/-- the two stores of a folder index / a memory index after the events `es`, from empty stores;
    second component: what each `storage.write` answered -/
def sb_fileOf (es : List Event) : sb_FileStores × List (Option Nat) := ({} : sb_FileStores).run es
def sb_memOf (es : List Event) : sb_MemStores × List (Option Nat) := ({} : sb_MemStores).run es

/-- **C15, images after every single storage call.** Any history on a fresh index (any configuration, any
    constructor rules, any requests, `clear` anywhere), cut after any number `k` of its storage events: both
    back-ends hold, in both stores, exactly the image of the files decoded from those `k` events, and every
    `write` so far answered the same block offset on both. -/
theorem C15_images_every_write (cfg : Config) (dflt : Rule) (rules : List (Bytes × Rule)) (ops : List Op)
    (k : Nat) (i : sb_StoreId) :
    let es := (historyEvents cfg dflt rules ops).take k
    ((sb_fileOf es).1.get i).data = (replayE es).sb_image i ∧
    ((sb_memOf es).1.get i).data = (replayE es).sb_image i ∧
    (sb_fileOf es).2 = (sb_memOf es).2 :=
  sb_run_images _ (sb_evOk_take _ k _ (sb_history_ok cfg dflt rules ops)) i

/-- **C15, images after every request.** Both back-ends, fed the storage calls of the whole history, hold
    `encodeTrie s` and `encodeLinks s` of the model state `s` the history reaches; same answers to every call. -/
theorem C15_images (cfg : Config) (dflt : Rule) (rules : List (Bytes × Rule)) (ops : List Op) :
    let s := (State.fresh cfg dflt rules []).1.run ops
    let es := historyEvents cfg dflt rules ops
    (sb_fileOf es).1.trie.data = encodeTrie s ∧ (sb_memOf es).1.trie.data = encodeTrie s ∧
    (sb_fileOf es).1.links.data = encodeLinks s ∧ (sb_memOf es).1.links.data = encodeLinks s ∧
    (sb_fileOf es).2 = (sb_memOf es).2 := by
  intro s es
  have hok := sb_history_ok cfg dflt rules ops
  have hend : replayE es = s.files := historyEvents_end cfg dflt rules ops
  obtain ⟨t1, t2, r⟩ := sb_run_images es hok .trie
  obtain ⟨l1, l2, _⟩ := sb_run_images es hok .links
  rw [hend, sb_image_trie] at t1 t2
  rw [hend, sb_image_links] at l1 l2
  exact ⟨t1, t2, l1, l2, r⟩

/-- the events of the first `n` requests are a prefix of the events of the whole history: "after every
    request" is an instance of "after every storage call" -/
theorem sb_history_prefix (cfg : Config) (dflt : Rule) (rules : List (Bytes × Rule)) (ops : List Op) (n : Nat) :
    historyEvents cfg dflt rules (ops.take n) =
      (historyEvents cfg dflt rules ops).take (historyEvents cfg dflt rules (ops.take n)).length := by
  conv => rhs; rw [← List.take_append_drop n ops, historyEvents_append]
  simp

/-- for every reachable state (`Proofs/ReachableAll`): some admissible event history leaves both back-ends
    holding exactly its codec images -/
theorem C15_images_reachable {s : State} (h : Reachable s) :
    ∃ es : List Event, sb_EvOk {} es ∧ replayE es = s.files ∧
      (sb_fileOf es).1.trie.data = encodeTrie s ∧ (sb_memOf es).1.trie.data = encodeTrie s ∧
      (sb_fileOf es).1.links.data = encodeLinks s ∧ (sb_memOf es).1.links.data = encodeLinks s := by
  obtain ⟨cfg, dflt, rules, ops, _, _, _, rfl⟩ := h
  obtain ⟨a, b, c, d, _⟩ := C15_images cfg dflt rules ops
  exact ⟨_, sb_history_ok cfg dflt rules ops, historyEvents_end cfg dflt rules ops, a, b, c, d⟩

/-- **between two writes of one request**: a cut that falls inside a request other than `clear` leaves both
    back-ends holding the codec images of a model state `m` between the state before and the state after that
    request (`Trace`: the log is faithful after every single write) -/
theorem C15_images_mid_request (cfg : Config) (dflt : Rule) (rules : List (Bytes × Rule)) (ops : List Op)
    (k n : Nat) (op : Op) (hop : ops[n]? = some op) (hc : op.isClear = false)
    (h1 : (historyEvents cfg dflt rules (ops.take n)).length < k)
    (h2 : k ≤ (historyEvents cfg dflt rules (ops.take (n + 1))).length) :
    let fr := (State.fresh cfg dflt rules []).1
    let es := (historyEvents cfg dflt rules ops).take k
    ∃ m : State, fr.run (ops.take n) ⊑ m ∧ m ⊑ fr.run (ops.take (n + 1)) ∧
      (sb_fileOf es).1.trie.data = encodeTrie m ∧ (sb_memOf es).1.trie.data = encodeTrie m ∧
      (sb_fileOf es).1.links.data = encodeLinks m ∧ (sb_memOf es).1.links.data = encodeLinks m := by
  dsimp only
  have hn : n < ops.length := (List.getElem?_eq_some_iff.mp hop).1
  have hT : ops.take (n + 1) = ops.take n ++ [op] := by
    rw [List.take_add_one, hop, Option.toList_some]
  -- the events of the first `n + 1` requests: those of the first `n`, then those of request `n`
  have eA : historyEvents cfg dflt rules (ops.take (n + 1)) =
      historyEvents cfg dflt rules (ops.take n) ++
        ((State.fresh cfg dflt rules []).1.run (ops.take n)).stepEvents op := by
    rw [hT, historyEvents_append]; simp
  have e1 : historyEvents cfg dflt rules ops =
      historyEvents cfg dflt rules (ops.take n) ++
        ((State.fresh cfg dflt rules []).1.run (ops.take n)).stepEvents op ++
        ((State.fresh cfg dflt rules []).1.run (ops.take (n + 1))).events (ops.drop (n + 1)) := by
    conv => lhs; rw [← List.take_append_drop (n + 1) ops, historyEvents_append, eA]
  have hlen := congrArg List.length eA
  rw [List.length_append] at hlen
  have e2 : (historyEvents cfg dflt rules ops).take k = historyEvents cfg dflt rules (ops.take n) ++
      (((State.fresh cfg dflt rules []).1.run (ops.take n)).stepEvents op).take
        (k - (historyEvents cfg dflt rules (ops.take n)).length) := by
    rw [e1, List.take_append_of_le_length (by rw [List.length_append]; omega), List.take_append,
      List.take_of_length_le (by omega)]
  have hl := live_run (ops.take n) _ (live_fresh cfg dflt rules [])
  have hpre : replayE (historyEvents cfg dflt rules (ops.take n)) =
      ((State.fresh cfg dflt rules []).1.run (ops.take n)).files :=
    historyEvents_end cfg dflt rules (ops.take n)
  have hcut := stepEvents_cut ((State.fresh cfg dflt rules []).1.run (ops.take n)) hl _ hpre op
    (k - (historyEvents cfg dflt rules (ops.take n)).length) (by omega) (by omega)
  unfold CutOf at hcut
  rw [hc, if_neg Bool.false_ne_true] at hcut
  obtain ⟨m, hm1, hm2, hm3⟩ := hcut
  rw [← e2] at hm3
  have hrun : (((State.fresh cfg dflt rules []).1.run (ops.take n)).step op).1 =
      (State.fresh cfg dflt rules []).1.run (ops.take (n + 1)) := by
    rw [hT, run_append]; rfl
  rw [hrun] at hm2
  refine ⟨m, hm1, hm2, ?_⟩
  obtain ⟨t1, t2, _⟩ := C15_images_every_write cfg dflt rules ops k .trie
  obtain ⟨l1, l2, _⟩ := C15_images_every_write cfg dflt rules ops k .links
  rw [hm3, sb_image_trie] at t1 t2
  rw [hm3, sb_image_links] at l1 l2
  exact ⟨t1, t2, l1, l2⟩

/-! ### discipline as `AllDisciplined` lists of `SOp`, on the stretch since the stores were last emptied -/

/-- a history without `clear`: the calls on each store, from the empty store, are `AllDisciplined` for the
    abstract block list of block size 128 (trie) resp. 16 (links); `FileSt.runOps` and `MemSt.runOps` give the
    same answers and end with the image of the state -/
theorem C15_discipline_noclear (cfg : Config) (dflt : Rule) (rules : List (Bytes × Rule)) (ops : List Op)
    (hfree : ∀ op ∈ ops, op.isClear = false) (st : sb_StoreId) :
    let s := (State.fresh cfg dflt rules []).1.run ops
    let calls := sb_opsOf st s.log.reverse
    (⟨st.bs, []⟩ : Blocks).AllDisciplined calls ∧
    (({} : FileSt).runOps st.bs calls).2 = (({} : MemSt).runOps st.bs calls).2 ∧
    (({} : FileSt).runOps st.bs calls).1.data = s.files.sb_image st ∧
    (({} : MemSt).runOps st.bs calls).1.data = s.files.sb_image st := by
  intro s calls
  have hev := historyEvents_noclear cfg dflt rules ops hfree
  have hok : sb_WsOk {} s.log.reverse := by
    rw [← sb_evOk_map_write, ← hev]; exact sb_history_ok cfg dflt rules ops
  have hrep : replay s.log.reverse = s.files := by
    rw [← replayE_map_write, ← hev]; exact historyEvents_end cfg dflt rules ops
  have := sb_runOps_images st s.log.reverse hok
  rw [hrep] at this
  exact this

/-- a history whose last `clear` is followed by the clear-free requests `seg`: the same for the calls since that
    `clear` emptied the two stores (its own header writes first). `s.files` is the model state of the WHOLE
    history. -/
theorem C15_discipline_segment (cfg : Config) (dflt : Rule) (rules : List (Bytes × Rule)) (pre : List Op)
    (d : Option Rule) (rs : Option (List (Bytes × Rule))) (seg : List Op)
    (hseg : ∀ op ∈ seg, op.isClear = false) (st : sb_StoreId) :
    let s := (State.fresh cfg dflt rules []).1.run (pre ++ .clear d rs :: seg)
    let calls := sb_opsOf st ((((State.fresh cfg dflt rules []).1.run pre).cleared d rs).run seg).log.reverse
    (⟨st.bs, []⟩ : Blocks).AllDisciplined calls ∧
    (({} : FileSt).runOps st.bs calls).2 = (({} : MemSt).runOps st.bs calls).2 ∧
    (({} : FileSt).runOps st.bs calls).1.data = s.files.sb_image st ∧
    (({} : MemSt).runOps st.bs calls).1.data = s.files.sb_image st := by
  intro s calls
  have hev : historyEvents cfg dflt rules (pre ++ .clear d rs :: seg) =
      historyEvents cfg dflt rules pre ++ clearTruncations ++
        (((((State.fresh cfg dflt rules []).1.run pre).cleared d rs).run seg).log.reverse).map .write := by
    rw [historyEvents_append, events_clear_segment _ d rs seg hseg, List.append_assoc]
  have hall := sb_history_ok cfg dflt rules (pre ++ .clear d rs :: seg)
  rw [hev, sb_evOk_append, List.foldl_append, foldl_clearTruncations, sb_evOk_map_write] at hall
  have hrep : replay ((((State.fresh cfg dflt rules []).1.run pre).cleared d rs).run seg).log.reverse = s.files := by
    rw [← replayE_clear_writes (historyEvents cfg dflt rules pre), ← hev]
    exact historyEvents_end cfg dflt rules _
  have := sb_runOps_images st _ hall.2
  rw [hrep] at this
  exact this

/-! ### the memory-mapped reader -/

/-- **C15, mmap.** `MemMapStorage.read` on the image of any state, at the offset of block `b`: the header for
    `b = 0`, the encoding of the model's cell / stub for an existing block `b ≥ 1`, `None` past the end -/
theorem C15_mmap_blocks (s : State) (b : Nat) :
    (0 < s.trie.size → mmapRead (encodeTrie s) trieBlock 0 = some (encodeTrieHeader s.hdrId)) ∧
    (0 < b → b < s.trie.size → mmapRead (encodeTrie s) trieBlock (b * trieBlock) = some (encodeCell (s.cell b))) ∧
    (s.trie.size ≤ b → mmapRead (encodeTrie s) trieBlock (b * trieBlock) = none) ∧
    (0 < s.links.size → mmapRead (encodeLinks s) linkBlock 0 = some encodeLinkHeader) ∧
    (∀ x, 0 < b → s.links[b]? = some x →
      mmapRead (encodeLinks s) linkBlock (b * linkBlock) = some (encodeStub x)) ∧
    (s.links.size ≤ b → mmapRead (encodeLinks s) linkBlock (b * linkBlock) = none) := by
  have ht : ∀ b, mmapRead (encodeTrie s) trieBlock (b * trieBlock) = s.files.sb_trieBlocks[b]? := fun b => by
    have := sb_mmap_image s.files .trie b; rw [sb_image_trie] at this; exact this
  have hl : ∀ b, mmapRead (encodeLinks s) linkBlock (b * linkBlock) = s.files.sb_linkBlocks[b]? := fun b => by
    have := sb_mmap_image s.files .links b; rw [sb_image_links] at this; exact this
  refine ⟨fun h => ?_, fun h0 hb => ?_, fun hb => ?_, fun h => ?_, fun x h0 hx => ?_, fun hb => ?_⟩
  · have := ht 0; rw [Nat.zero_mul] at this
    rw [this]; exact sb_trieBlocks_zero s.files h
  · rw [ht b]
    have hc : s.cell b = s.trie[b] := by
      unfold State.cell; rw [Array.getElem?_eq_getElem hb]; rfl
    rw [hc]; exact sb_trieBlocks_get s.files b h0 hb
  · rw [ht b]
    exact List.getElem?_eq_none (by show s.files.sb_trieBlocks.length ≤ b; rw [sb_trieBlocks_length]; exact hb)
  · have := hl 0; rw [Nat.zero_mul] at this
    rw [this]; exact sb_linkBlocks_zero s.files h
  · rw [hl b]
    obtain ⟨hb, rfl⟩ := Array.getElem?_eq_some_iff.mp hx
    exact sb_linkBlocks_get s.files b h0 hb
  · rw [hl b]
    exact List.getElem?_eq_none (by show s.files.sb_linkBlocks.length ≤ b; rw [sb_linkBlocks_length]; exact hb)

/-- the three readers agree on stores that hold the images: at every block offset, `MemMapStorage.read` on the
    file's bytes = `FileStorage.read(block)` = `MemoryStorage.read(block)` -/
theorem C15_readers_agree (f : Files) (fs : sb_FileStores) (ms : sb_MemStores) (hf : fs.Abs f) (hm : ms.Abs f)
    (st : sb_StoreId) (b : Nat) :
    mmapRead (fs.get st).data st.bs (b * st.bs) = ((fs.get st).read st.bs (some (b * st.bs))).2 ∧
    mmapRead (fs.get st).data st.bs (b * st.bs) = (ms.get st).read st.bs (b * st.bs) ∧
    mmapRead (fs.get st).data st.bs (b * st.bs) = (f.sb_blocks st).blocks[b]? := by
  have hw := sb_blocks_wf f st
  have ha : (b * st.bs) % (f.sb_blocks st).bs = 0 := by rw [sb_blocks_bs]; exact Nat.mul_mod_left _ _
  have h1 := mmapRead_file_sim (fs.get st) (f.sb_blocks st) (hf st) hw _ ha
  have h2 := MemSt.read_sim (ms.get st) (f.sb_blocks st) (hm st) hw _ ha
  have h3 := ((fs.get st).read_sim (f.sb_blocks st) (hf st) hw _ ha).1
  rw [sb_blocks_bs] at h1 h2 h3
  refine ⟨h1, by rw [h1, h3, h2], ?_⟩
  rw [hf st]; exact sb_mmap_image f st b

/-! ### nodes with stems of any length -/

/-- **C15, multi-block stems.** Blocks `i .. i+n-1` (`i ≥ 1`) of the trie image of any state are the encodings
    of its cells `i .. i+n-1`, concatenated: the byte image of a node whose stem takes `n - 1` tail blocks is its
    head block encoding followed by its tail block encodings — on both back-ends, since both hold `encodeTrie s` -/
theorem C15_node_image (s : State) (i n : Nat) (hi : 0 < i) :
    ((encodeTrie s).drop (i * trieBlock)).take (n * trieBlock) =
      (((s.trie.toList.drop i).take n).map encodeCell).flatten := by
  by_cases h : 0 < s.trie.size
  · rw [← sb_image_trie]; exact sb_image_slice s.files i n hi h
  · have h0 : s.trie.size = 0 := by omega
    have : s.trie.toList = [] := by
      have := Array.length_toList (xs := s.trie); rw [h0] at this; exact List.eq_nil_of_length_eq_zero this
    simp [encodeTrie, h0, this]

/-- writing a new node (`LRUTrieNode(stem=…).write()`: head block, then one append per tail chunk) extends
    the image by exactly the head encoding followed by the tail encodings, whatever the length of the stem -/
theorem C15_writeNew_image (s : State) (h0 : 0 < s.trie.size) (stem : Bytes) (p : Nat) (c : Bool) :
    encodeTrie (s.writeNew stem p c).1 =
      encodeTrie s ++ encodeCell (headCell stem p c) ++ ((tailsOf stem).map encodeCell).flatten := by
  have hne : s.trie.size ≠ 0 := by omega
  have hl : 0 < s.trie.toList.length := by simp; omega
  have hsz : (s.writeNew stem p c).1.trie.size ≠ 0 := by
    have := size_lt_writeNew s stem p c; omega
  unfold encodeTrie
  rw [if_neg hne, if_neg hsz, (writeNew_rest s stem p c).2.1, writeNew_trie]
  simp only [Array.toList_append, Array.toList_push, List.append_assoc]
  rw [List.drop_append_of_le_length (by omega)]
  simp

/-! ### headline -/

/-- the answers of the write requests of a history, in order -/
def sb_answers : State → List Op → List Ans
  | _, [] => []
  | s, op :: ops => (s.step op).2 :: sb_answers (s.step op).1 ops

theorem sb_answers_addLog : ∀ (ops : List Op) (s : State) (l : List Write),
    sb_answers (s.addLog l) ops = sb_answers s ops
  | [], _, _ => rfl
  | op :: ops, s, l => by
    simp only [sb_answers, step_addLog]
    rw [sb_answers_addLog ops]

/-- **C15, headline.** For every history — requests `ops` on an index created fresh with any configuration
    `cfg`, default rule and constructor rules; `clear` and `reopen` allowed anywhere:

    (a) there is ONE model for both back-ends (`State.step` has no back-end argument), so answers and reports
        are a function of the history alone; the only storage-related component of the model state, the ghost
        write log, influences neither the answers nor the rest of the state;
    (b) the file back-end (`FileSt`: bytes + cursor, truncation = `open(…, "wb+")`) and the memory back-end
        (`MemSt`: bytearray with slice assignment, truncation = `clear()`), fed the storage calls of the history,
        hold identical bytes in both stores and got identical answers from every `write` — after every single
        storage call (`k` arbitrary), and in particular after every request, where the bytes are the codec
        images `encodeTrie` / `encodeLinks` of the model state;
    (c) the memory-mapped reader on the file's bytes returns, for every block, what the file reader and the
        memory reader return: the header, resp. the encoding of the model's cell / stub. -/
theorem C15_backends (cfg : Config) (dflt : Rule) (rules : List (Bytes × Rule)) (ops : List Op) :
    let fr := (State.fresh cfg dflt rules []).1
    let es := historyEvents cfg dflt rules ops
    -- (a)
    (∀ log : List Write,
      sb_answers (State.fresh cfg dflt rules log).1 ops = sb_answers fr ops ∧
      (State.fresh cfg dflt rules log).2 = (State.fresh cfg dflt rules []).2 ∧
      (State.fresh cfg dflt rules log).1.run ops = (fr.run ops).addLog log) ∧
    -- (b) after every single storage call
    (∀ k : Nat, ∀ i : sb_StoreId,
      ((sb_fileOf (es.take k)).1.get i).data = ((sb_memOf (es.take k)).1.get i).data ∧
      ((sb_fileOf (es.take k)).1.get i).data = (replayE (es.take k)).sb_image i ∧
      (sb_fileOf (es.take k)).2 = (sb_memOf (es.take k)).2) ∧
    -- (b) after every request
    (∀ n : Nat,
      let sn := fr.run (ops.take n)
      let en := historyEvents cfg dflt rules (ops.take n)
      en = es.take en.length ∧
      (sb_fileOf en).1.trie.data = encodeTrie sn ∧ (sb_memOf en).1.trie.data = encodeTrie sn ∧
      (sb_fileOf en).1.links.data = encodeLinks sn ∧ (sb_memOf en).1.links.data = encodeLinks sn) ∧
    -- (c) the memory-mapped reader, after every request
    (∀ n b : Nat,
      let sn := fr.run (ops.take n)
      let en := historyEvents cfg dflt rules (ops.take n)
      (∀ i : sb_StoreId,
        mmapRead ((sb_fileOf en).1.get i).data i.bs (b * i.bs) = (((sb_fileOf en).1.get i).read i.bs (some (b * i.bs))).2 ∧
        mmapRead ((sb_fileOf en).1.get i).data i.bs (b * i.bs) = ((sb_memOf en).1.get i).read i.bs (b * i.bs)) ∧
      (0 < b → b < sn.trie.size →
        mmapRead (sb_fileOf en).1.trie.data trieBlock (b * trieBlock) = some (encodeCell (sn.cell b))) ∧
      (∀ x, 0 < b → sn.links[b]? = some x →
        mmapRead (sb_fileOf en).1.links.data linkBlock (b * linkBlock) = some (encodeStub x)) ∧
      mmapRead (sb_fileOf en).1.trie.data trieBlock 0 = some (encodeTrieHeader sn.hdrId) ∧
      mmapRead (sb_fileOf en).1.links.data linkBlock 0 = some encodeLinkHeader) := by
  intro fr es
  refine ⟨fun log => ?_, fun k i => ?_, fun n => ?_, fun n b => ?_⟩
  · have e := fresh_addLog cfg dflt rules log
    refine ⟨?_, ?_, ?_⟩
    · rw [e]; exact sb_answers_addLog ops _ log
    · rw [e]
    · rw [e]; exact run_addLog ops _ log
  · obtain ⟨h1, h2, h3⟩ := C15_images_every_write cfg dflt rules ops k i
    exact ⟨h1.trans h2.symm, h1, h3⟩
  · obtain ⟨a, b, c, d, _⟩ := C15_images cfg dflt rules (ops.take n)
    exact ⟨sb_history_prefix cfg dflt rules ops n, a, b, c, d⟩
  · intro sn en
    have hok := sb_history_ok cfg dflt rules (ops.take n)
    obtain ⟨hF, hM, _⟩ := sb_run_sim en {} {} {} sb_fileStores_abs_empty sb_memStores_abs_empty hok
    have hend : en.foldl Files.applyE {} = sn.files := historyEvents_end cfg dflt rules (ops.take n)
    rw [hend] at hF hM
    have hl := live_run (ops.take n) fr (live_fresh cfg dflt rules [])
    obtain ⟨a, _, c, _, _⟩ := C15_images cfg dflt rules (ops.take n)
    obtain ⟨m1, m2, _, m4, m5, _⟩ := C15_mmap_blocks sn b
    refine ⟨fun i => ?_, fun h0 hb => ?_, fun x h0 hx => ?_, ?_, ?_⟩
    · obtain ⟨r1, r2, _⟩ := C15_readers_agree sn.files _ _ hF hM i b
      exact ⟨r1, r2⟩
    · show mmapRead (sb_fileOf (historyEvents cfg dflt rules (ops.take n))).1.trie.data _ _ = _
      rw [a]; exact m2 h0 hb
    · show mmapRead (sb_fileOf (historyEvents cfg dflt rules (ops.take n))).1.links.data _ _ = _
      rw [c]; exact m5 x h0 hx
    · show mmapRead (sb_fileOf (historyEvents cfg dflt rules (ops.take n))).1.trie.data _ _ = _
      rw [a]; exact m1 hl.1
    · show mmapRead (sb_fileOf (historyEvents cfg dflt rules (ops.take n))).1.links.data _ _ = _
      rw [c]; exact m4 hl.2

#print axioms sb_run_sim
#print axioms sb_runOps_images
#print axioms C15_images_every_write
#print axioms C15_images
#print axioms C15_images_mid_request
#print axioms C15_discipline_noclear
#print axioms C15_discipline_segment
#print axioms C15_mmap_blocks
#print axioms C15_node_image
#print axioms C15_writeNew_image
#print axioms C15_backends

end Traph

import Proofs.WeMap
import Proofs.Ids
import Proofs.Marks
/-! What each webentity edit request does to the prefix map `s.weMap` and what it answers, as a
    function of the map before (and of the id counter for creations):
    `addPrefix_spec`, `removePrefix_spec`, `movePrefix_spec`, `deleteWebentity_spec`,
    `addPrefixes_spec` (the shared `__add_prefixes`), `createWebentity_spec`,
    `createWebentityAuto_spec`. Every byte-string prefix is assumed to cut into at least one stem
    (`lruIter p ≠ []`); see `root_alias` in the report for what the code does otherwise. -/
namespace Traph
open State Layout

/-! ### abstract edits -/

/-- attach to `id` every listed path that carries nothing -/
def mapAttach (M : LRU → Nat) (qs : List LRU) (id : Nat) : LRU → Nat :=
  fun q => if q ∈ qs ∧ M q = 0 then id else M q

/-- set every listed path to `v` -/
def mapSetAll (M : LRU → Nat) (qs : List LRU) (v : Nat) : LRU → Nat :=
  fun q => if q ∈ qs then v else M q

theorem mapSetAll_nil (M : LRU → Nat) (v : Nat) : mapSetAll M [] v = M := by
  funext q; simp [mapSetAll]

theorem mapSetAll_cons (M : LRU → Nat) (q : LRU) (qs : List LRU) (v : Nat) :
    mapSetAll M (q :: qs) v = mapSetAll (mapSet M q v) qs v := by
  funext p
  unfold mapSetAll mapSet
  by_cases h1 : p ∈ qs <;> by_cases h2 : p = q <;> simp [h1, h2]

theorem mapSet_mapSet (M : LRU → Nat) (q : LRU) (v w : Nat) : mapSet (mapSet M q v) q w = mapSet M q w := by
  funext p; unfold mapSet; split <;> rfl

/-! ### dictionaries -/

theorem dictSet_keys {β : Type} : ∀ (d : List (Bytes × β)) (k : Bytes) (v : β),
    (dictSet d k v).map (·.1) = if k ∈ d.map (·.1) then d.map (·.1) else d.map (·.1) ++ [k]
  | [], k, v => by simp [dictSet]
  | (k', v') :: rest, k, v => by
    simp only [dictSet]
    by_cases e : k' = k
    · subst e; simp
    · rw [if_neg e]
      simp only [List.map_cons, List.mem_cons]
      rw [dictSet_keys rest k v]
      have e' : ¬ k = k' := fun h => e h.symm
      by_cases hm : k ∈ rest.map (·.1)
      · simp [hm]
      · simp [hm, e']

/-- keys of a dict after `d[p] = …` for every `p` of a list, in insertion order -/
def keysAdd : List Bytes → List Bytes → List Bytes
  | acc, [] => acc
  | acc, p :: ps => keysAdd (if p ∈ acc then acc else acc ++ [p]) ps

theorem mem_keysAdd : ∀ (ps acc : List Bytes) (x : Bytes), x ∈ keysAdd acc ps ↔ x ∈ acc ∨ x ∈ ps
  | [], acc, x => by simp [keysAdd]
  | p :: ps, acc, x => by
    rw [keysAdd, mem_keysAdd ps]
    by_cases hp : p ∈ acc
    · rw [if_pos hp]
      simp only [List.mem_cons]
      constructor
      · rintro (h | h)
        · exact Or.inl h
        · exact Or.inr (Or.inr h)
      · rintro (h | rfl | h)
        · exact Or.inl h
        · exact Or.inl hp
        · exact Or.inr h
    · rw [if_neg hp]
      simp only [List.mem_append, List.mem_cons, List.not_mem_nil, or_false]
      constructor
      · rintro ((h | h) | h)
        · exact Or.inl h
        · exact Or.inr (Or.inl h)
        · exact Or.inr (Or.inr h)
      · rintro (h | h | h)
        · exact Or.inl (Or.inl h)
        · exact Or.inl (Or.inr h)
        · exact Or.inr h

/-! ### a run of id writes -/

theorem weMap_foldl_setWe {t : T} (v : Nat) : ∀ (l : List (Bytes × Nat)) (s : State), Shape s t →
    (∀ pn ∈ l, (lruIter pn.1, pn.2) ∈ t.entries s []) →
    (l.foldl (fun st pn => st.modCell pn.2 (fun c => { c with we := v })) s).weMap
      = mapSetAll s.weMap (l.map (fun pn => lruIter pn.1)) v
  | [], s, _, _ => by rw [List.foldl_nil, List.map_nil, mapSetAll_nil]
  | pn :: l, s, h, hm => by
    rw [List.foldl_cons, List.map_cons, mapSetAll_cons]
    have ns : NoStruct s (s.modCell pn.2 (fun c => { c with we := v })) :=
      noStruct_modCell s pn.2 _ (fun _ => ⟨rfl, rfl, rfl, rfl, rfl⟩)
    have e := ns.entries t []
    rw [weMap_foldl_setWe v l _ (ns.shape h) (fun x hx => by rw [e]; exact hm x (by simp [hx])),
      weMap_setWe h (hm pn (by simp)) v]
    rfl

/-! ### `add_prefix_to_webentity` -/

/-- attaching a prefix that is already attached is refused (the library's own error) and changes
    nothing in the map; otherwise the prefix is attached -/
theorem addPrefix_spec {s : State} {t : T} (h : Shape s t) (pfx : Bytes) (w : Nat) (hne : lruIter pfx ≠ []) :
    (s.weMap (lruIter pfx) ≠ 0 →
      (s.addPrefix pfx w).2 = .error .traph ∧ (s.addPrefix pfx w).1.weMap = s.weMap) ∧
    (s.weMap (lruIter pfx) = 0 →
      (s.addPrefix pfx w).2 = .ok () ∧ (s.addPrefix pfx w).1.weMap = mapSet s.weMap (lruIter pfx) w) := by
  obtain ⟨t1, k1, hent⟩ := keeps_addLruIter h pfx true
  have hw := weMap_addLru h (lruIter pfx) true
  rcases ha : s.addLru (lruIter pfx) true with ⟨s1, n, hh⟩
  rw [ha] at k1 hent hw
  simp only at k1 hent hw
  have hc : (s1.cell n).we = s.weMap (lruIter pfx) := by
    rw [← weMap_entry k1.shape (hent hne), hw]
  simp only [addPrefix, ha]
  constructor
  · intro hz
    rw [if_pos (by rw [hc]; exact hz)]
    exact ⟨rfl, hw⟩
  · intro hz
    rw [if_neg (by rw [hc]; simpa using hz)]
    refine ⟨rfl, ?_⟩
    rw [weMap_setWe k1.shape (hent hne) w, hw]; rfl

/-- ROOT ALIAS: a prefix argument that contains no separator cuts into no stem; `add_lru([])` then returns
    block 1, so the request reads and writes the webentity field of the FIRST node ever inserted (the root of
    the top-level sibling tree), whatever its stem is. This is why the specifications assume
    `lruIter pfx ≠ []`. -/
theorem addPrefix_root_alias (s : State) (pfx : Bytes) (w : Nat) (hnil : lruIter pfx = []) :
    s.addPrefix pfx w =
      if (s.cell 1).we ≠ 0 then (s, .error .traph)
      else (s.modCell 1 (fun c => { c with we := w }), .ok ()) := by
  unfold addPrefix
  rw [hnil, addLru_nil]

/-! ### `remove_prefix_from_webentity` -/

/-- the owner check of `remove_prefix_from_webentity` / `move_prefix_to_webentity` -/
def removeOk (M : LRU → Nat) (q : LRU) : Option Nat → Prop
  | none => True
  | some w => w = 0 ∨ M q = w

theorem removePrefix_spec {s : State} {t : T} (h : Shape s t) (pfx : Bytes) (weid : Option Nat)
    (hne : lruIter pfx ≠ []) :
    (removeOk s.weMap (lruIter pfx) weid →
      (s.removePrefix pfx weid).2 = .ok () ∧
      (s.removePrefix pfx weid).1.weMap = mapSet s.weMap (lruIter pfx) 0) ∧
    (¬ removeOk s.weMap (lruIter pfx) weid →
      (s.removePrefix pfx weid).2 = .error .traph ∧ (s.removePrefix pfx weid).1.weMap = s.weMap) := by
  obtain ⟨t1, k1, hent⟩ := keeps_addLruIter h pfx false
  have hw := weMap_addLru h (lruIter pfx) false
  rcases ha : s.addLru (lruIter pfx) false with ⟨s1, n, hh⟩
  rw [ha] at k1 hent hw
  simp only at k1 hent hw
  have hc : (s1.cell n).we = s.weMap (lruIter pfx) := by
    rw [← weMap_entry k1.shape (hent hne), hw]
  have hset : (s1.modCell n (fun c => { c with we := 0 })).weMap = mapSet s.weMap (lruIter pfx) 0 := by
    rw [weMap_setWe k1.shape (hent hne) 0, hw]; rfl
  simp only [removePrefix, ha]
  cases weid with
  | none =>
    simp only [removeOk, if_true, not_true_eq_false, false_imp_iff, and_true, true_imp_iff]
    exact ⟨by first | rfl | trivial, hset⟩
  | some w =>
    simp only [removeOk, hc]
    by_cases hok : w = 0 ∨ s.weMap (lruIter pfx) = w
    · have : (decide (w = 0) || decide (s.weMap (lruIter pfx) = w)) = true := by
        rcases hok with h1 | h1 <;> simp [h1]
      rw [if_pos this]
      exact ⟨fun _ => ⟨rfl, hset⟩, fun hn => absurd hok hn⟩
    · have : ¬ (decide (w = 0) || decide (s.weMap (lruIter pfx) = w)) = true := by
        simp only [Bool.or_eq_true, decide_eq_true_eq]; exact hok
      rw [if_neg this]
      exact ⟨fun hy => absurd hy hok, fun _ => ⟨rfl, hw⟩⟩

theorem shape_removePrefix {s : State} {t : T} (h : Shape s t) (pfx : Bytes) (weid : Option Nat) :
    ∃ t', Shape (s.removePrefix pfx weid).1 t' := by
  obtain ⟨t', k⟩ := keeps_removePrefix h pfx weid
  exact ⟨t', k.shape⟩

/-! ### `move_prefix_to_webentity` -/

theorem movePrefix_spec {s : State} {t : T} (h : Shape s t) (pfx : Bytes) (target : Nat) (source : Option Nat)
    (hne : lruIter pfx ≠ []) :
    (removeOk s.weMap (lruIter pfx) source →
      (s.movePrefix pfx target source).2 = .ok () ∧
      (s.movePrefix pfx target source).1.weMap = mapSet s.weMap (lruIter pfx) target) ∧
    (¬ removeOk s.weMap (lruIter pfx) source →
      (s.movePrefix pfx target source).2 = .error .traph ∧
      (s.movePrefix pfx target source).1.weMap = s.weMap) := by
  obtain ⟨r1, r2⟩ := removePrefix_spec h pfx source hne
  obtain ⟨t1, h1⟩ := shape_removePrefix h pfx source
  unfold movePrefix
  rcases hr : s.removePrefix pfx source with ⟨s1, e | u⟩
  · rw [hr] at r1 r2
    simp only at r1 r2 ⊢
    constructor
    · intro hok; have := (r1 hok).1; cases this
    · intro hok
      obtain ⟨e1, e2⟩ := r2 hok
      simp only [Except.error.injEq] at e1
      rw [e1]; exact ⟨rfl, e2⟩
  · rw [hr] at r1 r2 h1
    simp only at r1 r2 h1 ⊢
    constructor
    · intro hok
      obtain ⟨_, e2⟩ := r1 hok
      obtain ⟨_, a2⟩ := addPrefix_spec h1 pfx target hne
      have hz : s1.weMap (lruIter pfx) = 0 := by rw [e2, mapSet_same]
      obtain ⟨b1, b2⟩ := a2 hz
      refine ⟨b1, ?_⟩
      rw [b2, e2, mapSet_mapSet]
    · intro hok; have := (r2 hok).1; cases this

/-! ### `delete_webentity` -/

/-- the corruption check of `delete_webentity`: every listed prefix is attached to that webentity -/
def deleteOk (M : LRU → Nat) (w : Nat) (ps : List Bytes) : Prop :=
  ∀ p ∈ ps, M (lruIter p) = w ∧ w ≠ 0

theorem deleteScanChecked_spec {s : State} {t : T} (h : Shape s t) (w : Nat) :
    ∀ (ps : List Bytes) (idx : List (Bytes × Nat)), (∀ p ∈ ps, lruIter p ≠ []) →
      (∀ pn ∈ idx, (lruIter pn.1, pn.2) ∈ t.entries s []) →
      (deleteOk s.weMap w ps → ∃ idx', deleteScanChecked s w ps idx = .ok idx' ∧
        (∀ pn ∈ idx', (lruIter pn.1, pn.2) ∈ t.entries s []) ∧
        (∀ q, q ∈ idx'.map (fun pn => lruIter pn.1) ↔
          q ∈ idx.map (fun pn => lruIter pn.1) ∨ q ∈ ps.map lruIter)) ∧
      (¬ deleteOk s.weMap w ps → deleteScanChecked s w ps idx = .error .traph)
  | [], idx, _, hidx => by
    simp only [deleteScanChecked]
    exact ⟨fun _ => ⟨idx, rfl, hidx, fun q => by simp⟩, fun hn => absurd (fun p hp => by simp at hp) hn⟩
  | p :: ps, idx, hne, hidx => by
    simp only [deleteScanChecked]
    have hp := hne p (by simp)
    cases hl : s.lruNode (lruIter p) with
    | none =>
      have hz : s.weMap (lruIter p) = 0 := by
        unfold State.weMap; rw [if_neg hp, hl]
      simp only
      refine ⟨fun hok => ?_, fun _ => by first | rfl | trivial⟩
      obtain ⟨e1, e2⟩ := hok p (by simp)
      rw [hz] at e1; exact absurd e1.symm e2
    | some n =>
      have hm := (lruNode_iff_entries h _ hp n).mp hl
      have hc : (s.cell n).we = s.weMap (lruIter p) := (weMap_entry h hm).symm
      simp only
      by_cases hgood : s.weMap (lruIter p) = w ∧ w ≠ 0
      · have hcond : ¬ ((decide ((s.cell n).we = 0) || decide ((s.cell n).we ≠ w)) = true) := by
          rw [hc, hgood.1]; simp [hgood.2]
        rw [if_neg hcond]
        obtain ⟨i1, i2⟩ := deleteScanChecked_spec h w ps (dictSet idx p n)
          (fun p' hp' => hne p' (by simp [hp'])) (fun pn hpn => by
            rcases mem_dictSet idx p n pn hpn with rfl | hpn
            · exact hm
            · exact hidx pn hpn)
        constructor
        · intro hok
          obtain ⟨idx', e1, e2, e3⟩ := i1 (fun p' hp' => hok p' (by simp [hp']))
          refine ⟨idx', e1, e2, fun q => ?_⟩
          rw [e3]
          have hk : q ∈ (dictSet idx p n).map (fun pn => lruIter pn.1) ↔
              q ∈ idx.map (fun pn => lruIter pn.1) ∨ q = lruIter p := by
            have := dictSet_keys idx p n
            have hmm : ∀ d : List (Bytes × Nat), d.map (fun pn => lruIter pn.1) = (d.map (·.1)).map lruIter := by
              intro d; rw [List.map_map]; rfl
            rw [hmm, hmm, this]
            split
            · rename_i hin
              constructor
              · exact Or.inl
              · rintro (h1 | rfl)
                · exact h1
                · exact List.mem_map.mpr ⟨p, hin, rfl⟩
            · simp only [List.map_append, List.mem_append, List.map_cons, List.map_nil, List.mem_singleton]
          rw [hk]
          simp only [List.map_cons, List.mem_cons]
          constructor
          · rintro ((h1 | h1) | h1)
            · exact Or.inl h1
            · exact Or.inr (Or.inl h1)
            · exact Or.inr (Or.inr h1)
          · rintro (h1 | h1 | h1)
            · exact Or.inl (Or.inl h1)
            · exact Or.inl (Or.inr h1)
            · exact Or.inr h1
        · intro hn
          apply i2
          intro hok
          apply hn
          intro p' hp'
          rcases List.mem_cons.mp hp' with rfl | hp'
          · exact hgood
          · exact hok p' hp'
      · have hcond : (decide ((s.cell n).we = 0) || decide ((s.cell n).we ≠ w)) = true := by
          rw [hc]
          by_cases e1 : s.weMap (lruIter p) = w
          · have : w = 0 := by
              by_cases e2 : w = 0
              · exact e2
              · exact absurd ⟨e1, e2⟩ hgood
            simp [e1, this]
          · simp [e1]
        rw [if_pos hcond]
        exact ⟨fun hok => absurd (hok p (by simp)) hgood, fun _ => rfl⟩

/-- `delete_webentity(w, prefixes)`: when every listed prefix is attached to `w`, all of them are detached;
    otherwise the request is refused and the state is untouched -/
theorem deleteWebentity_spec {s : State} {t : T} (h : Shape s t) (w : Nat) (ps : List Bytes)
    (hne : ∀ p ∈ ps, lruIter p ≠ []) :
    (deleteOk s.weMap w ps →
      (s.deleteWebentity w ps).2 = .ok () ∧
      (s.deleteWebentity w ps).1.weMap = mapSetAll s.weMap (ps.map lruIter) 0) ∧
    (¬ deleteOk s.weMap w ps →
      (s.deleteWebentity w ps).2 = .error .traph ∧ (s.deleteWebentity w ps).1 = s) := by
  obtain ⟨i1, i2⟩ := deleteScanChecked_spec h w ps [] hne (fun pn hpn => by simp at hpn)
  unfold deleteWebentity
  constructor
  · intro hok
    obtain ⟨idx', e1, e2, e3⟩ := i1 hok
    rw [e1]
    refine ⟨rfl, ?_⟩
    simp only
    rw [weMap_foldl_setWe 0 idx' s h e2]
    funext q
    unfold mapSetAll
    have := e3 q
    simp only [List.map_nil, List.not_mem_nil, false_or] at this
    by_cases hq : q ∈ ps.map lruIter
    · rw [if_pos (this.mpr hq), if_pos hq]
    · rw [if_neg (fun hx => hq (this.mp hx)), if_neg hq]
  · intro hn
    rw [i2 hn]
    exact ⟨rfl, rfl⟩

/-! ### `__add_prefixes` -/

theorem addPrefixesScan_spec (M : LRU → Nat) : ∀ (ps : List Bytes) (s : State) (t : T)
    (valid : List (Bytes × Nat)) (nInv : Nat),
    Shape s t → s.weMap = M → (∀ p ∈ ps, lruIter p ≠ []) →
    (∀ pn ∈ valid, (lruIter pn.1, pn.2) ∈ t.entries s []) →
    ∃ t', Ext s t (s.addPrefixesScan ps valid nInv).1 t' ∧
      (s.addPrefixesScan ps valid nInv).1.weMap = M ∧
      (∀ pn ∈ (s.addPrefixesScan ps valid nInv).2.1,
        (lruIter pn.1, pn.2) ∈ t'.entries (s.addPrefixesScan ps valid nInv).1 []) ∧
      (s.addPrefixesScan ps valid nInv).2.1.map (·.1)
        = keysAdd (valid.map (·.1)) (ps.filter (fun p => decide (M (lruIter p) = 0))) ∧
      (s.addPrefixesScan ps valid nInv).2.2
        = nInv + (ps.filter (fun p => decide (M (lruIter p) ≠ 0))).length
  | [], s, t, valid, nInv, h, hM, _, hv => by
    simp only [addPrefixesScan]
    exact ⟨t, Ext.refl h, hM, hv, by simp [keysAdd], by simp⟩
  | p :: ps, s, t, valid, nInv, h, hM, hne, hv => by
    have hp := hne p (by simp)
    obtain ⟨t1, k1, hent⟩ := keeps_addLruIter h p true
    have hw := weMap_addLru h (lruIter p) true
    rcases ha : s.addLru (lruIter p) true with ⟨s1, n, hh⟩
    rw [ha] at k1 hent hw
    simp only at k1 hent hw
    have hM1 : s1.weMap = M := hw.trans hM
    have hc : (s1.cell n).we = M (lruIter p) := by
      rw [← weMap_entry k1.shape (hent hp), hM1]
    simp only [addPrefixesScan, ha]
    by_cases hz : M (lruIter p) = 0
    · rw [if_neg (by rw [hc]; simpa using hz)]
      obtain ⟨t2, x2, e1, e2, e3, e4⟩ := addPrefixesScan_spec M ps s1 t1 (dictSet valid p n) nInv k1.shape hM1
        (fun p' hp' => hne p' (by simp [hp'])) (fun pn hpn => by
          rcases mem_dictSet valid p n pn hpn with rfl | hpn
          · exact hent hp
          · exact k1.ext.keep _ _ (hv pn hpn))
      refine ⟨t2, k1.ext.trans x2, e1, e2, ?_, ?_⟩
      · rw [e3, dictSet_keys, List.filter_cons_of_pos (by simpa using hz), keysAdd]
      · rw [e4, List.filter_cons_of_neg (by simpa using hz)]
    · rw [if_pos (by rw [hc]; exact hz)]
      obtain ⟨t2, x2, e1, e2, e3, e4⟩ := addPrefixesScan_spec M ps s1 t1 valid (nInv + 1) k1.shape hM1
        (fun p' hp' => hne p' (by simp [hp'])) (fun pn hpn => k1.ext.keep _ _ (hv pn hpn))
      refine ⟨t2, k1.ext.trans x2, e1, e2, ?_, ?_⟩
      · rw [e3, List.filter_cons_of_neg (by simpa using hz)]
      · rw [e4, List.filter_cons_of_pos (by simpa using hz), List.length_cons]; omega

/-- the prefixes of a list that are free in `M`, in the order and with the de-duplication of the code -/
def freeOf (M : LRU → Nat) (ps : List Bytes) : List Bytes :=
  keysAdd [] (ps.filter (fun p => decide (M (lruIter p) = 0)))

/-- how many of the listed prefixes (with repetitions) are already attached in `M` -/
def takenCount (M : LRU → Nat) (ps : List Bytes) : Nat :=
  (ps.filter (fun p => decide (M (lruIter p) ≠ 0))).length

theorem mem_freeOf (M : LRU → Nat) (ps : List Bytes) (p : Bytes) :
    p ∈ freeOf M ps ↔ p ∈ ps ∧ M (lruIter p) = 0 := by
  unfold freeOf
  rw [mem_keysAdd]
  simp

theorem takenCount_eq_zero (M : LRU → Nat) (ps : List Bytes) :
    takenCount M ps = 0 ↔ ∀ p ∈ ps, M (lruIter p) = 0 := by
  unfold takenCount
  rw [List.length_eq_zero_iff, List.filter_eq_nil_iff]
  simp

theorem takenCount_eq_length (M : LRU → Nat) (ps : List Bytes) :
    takenCount M ps = ps.length ↔ ∀ p ∈ ps, M (lruIter p) ≠ 0 := by
  unfold takenCount
  rw [List.length_filter_eq_length_iff]
  simp

/-- `__add_prefixes(prefixes, use_best_case)`.
    * some listed prefix is taken and `best = false`: refused, map unchanged;
    * every listed prefix is taken (in particular the empty list): nothing created, no id drawn;
    * otherwise the next id is drawn and every listed prefix that is free gets it. -/
theorem addPrefixes_spec {s : State} {t : T} (h : Shape s t) (ps : List Bytes) (best : Bool)
    (hne : ∀ p ∈ ps, lruIter p ≠ []) :
    (∃ t', Ext s t (s.addPrefixes ps best).1 t') ∧
    ((0 < takenCount s.weMap ps ∧ best = false) →
      (s.addPrefixes ps best).2 = .error .traph ∧ (s.addPrefixes ps best).1.weMap = s.weMap ∧
      (s.addPrefixes ps best).1.hdrId = s.hdrId) ∧
    (¬ (0 < takenCount s.weMap ps ∧ best = false) → takenCount s.weMap ps = ps.length →
      (s.addPrefixes ps best).2 = .ok (none, []) ∧ (s.addPrefixes ps best).1.weMap = s.weMap ∧
      (s.addPrefixes ps best).1.hdrId = s.hdrId) ∧
    (¬ (0 < takenCount s.weMap ps ∧ best = false) → takenCount s.weMap ps ≠ ps.length →
      (s.addPrefixes ps best).2 = .ok (some (s.hdrId + 1), freeOf s.weMap ps) ∧
      (s.addPrefixes ps best).1.weMap = mapAttach s.weMap (ps.map lruIter) (s.hdrId + 1) ∧
      (s.addPrefixes ps best).1.hdrId = s.hdrId + 1) := by
  obtain ⟨t1, x1, e1, e2, e3, e4⟩ := addPrefixesScan_spec s.weMap ps s t [] 0 h rfl hne (fun pn hpn => by simp at hpn)
  have hid := hdrId_addPrefixesScan ps s [] 0
  rcases hs : s.addPrefixesScan ps [] 0 with ⟨s1, valid, nInv⟩
  rw [hs] at x1 e1 e2 e3 e4 hid
  simp only at x1 e1 e2 e3 e4 hid
  rw [Nat.zero_add] at e4
  have e4' : nInv = takenCount s.weMap ps := e4
  have e3' : valid.map (·.1) = freeOf s.weMap ps := e3
  have k2 := keeps_genId x1.shape
  have k3 := keeps_foldl_modCell (fun pn : Bytes × Nat => pn.2) (fun _ c => { c with we := s1.genId.2 })
        (fun _ _ => ⟨rfl, rfl, rfl, rfl, rfl⟩) (fun _ _ => rfl) (fun _ _ => rfl) valid _ t1 k2.shape
  simp only [addPrefixes, hs]
  refine ⟨?_, ?_, ?_, ?_⟩
  · split
    · exact ⟨t1, x1⟩
    · split
      · exact ⟨t1, x1⟩
      · exact ⟨t1, x1.trans (k2.ext.trans k3.ext)⟩
  · rintro ⟨h1, h2⟩
    rw [if_pos (by rw [e4', h2]; simpa using h1)]
    exact ⟨rfl, e1, hid⟩
  · intro h1 h2
    rw [if_neg (by
      rw [e4']; intro hc
      simp only [Bool.and_eq_true, decide_eq_true_eq, Bool.not_eq_true'] at hc
      exact h1 hc), if_pos (by rw [e4']; exact h2)]
    exact ⟨rfl, e1, hid⟩
  · intro h1 h2
    rw [if_neg (by
      rw [e4']; intro hc
      simp only [Bool.and_eq_true, decide_eq_true_eq, Bool.not_eq_true'] at hc
      exact h1 hc), if_neg (by rw [e4']; exact h2)]
    simp only
    refine ⟨by rw [e3', snd_genId, hid], ?_, by rw [hdrId_foldl_modCell, hdrId_genId, hid]⟩
    have hg : s1.genId.1.weMap = s1.weMap := weMap_trie_eq rfl
    rw [weMap_foldl_setWe _ valid _ k2.shape (fun pn hpn => k2.ext.keep _ _ (e2 pn hpn)), hg, e1, snd_genId, hid]
    funext q
    unfold mapSetAll mapAttach
    have hmem : q ∈ valid.map (fun pn => lruIter pn.1) ↔ q ∈ ps.map lruIter ∧ s.weMap q = 0 := by
      have : valid.map (fun pn => lruIter pn.1) = (valid.map (·.1)).map lruIter := by
        rw [List.map_map]; rfl
      rw [this, e3']
      simp only [List.mem_map, mem_freeOf]
      constructor
      · rintro ⟨p, ⟨hp1, hp2⟩, rfl⟩; exact ⟨⟨p, hp1, rfl⟩, hp2⟩
      · rintro ⟨⟨p, hp1, rfl⟩, hp2⟩; exact ⟨p, ⟨hp1, hp2⟩, rfl⟩
    by_cases hq : q ∈ ps.map lruIter ∧ s.weMap q = 0
    · rw [if_pos (hmem.mpr hq), if_pos hq]
    · rw [if_neg (fun hx => hq (hmem.mp hx)), if_neg hq]

/-! ### `create_webentity` -/

/-- `create_webentity(prefixes)`: refused when some listed prefix is already attached; otherwise a new
    webentity with the next id owns all of them (an empty list creates nothing and reports `None`) -/
theorem createWebentity_spec {s : State} {t : T} (h : Shape s t) (ps : List Bytes)
    (hne : ∀ p ∈ ps, lruIter p ≠ []) :
    ((∃ p ∈ ps, s.weMap (lruIter p) ≠ 0) →
      (s.createWebentity ps).2 = .error .traph ∧ (s.createWebentity ps).1.weMap = s.weMap ∧
      (s.createWebentity ps).1.hdrId = s.hdrId) ∧
    ((∀ p ∈ ps, s.weMap (lruIter p) = 0) → ps = [] →
      (s.createWebentity ps).2 = .ok { we := [(none, [])] } ∧ (s.createWebentity ps).1.weMap = s.weMap ∧
      (s.createWebentity ps).1.hdrId = s.hdrId) ∧
    ((∀ p ∈ ps, s.weMap (lruIter p) = 0) → ps ≠ [] →
      (s.createWebentity ps).2 = .ok { we := [(some (s.hdrId + 1), keysAdd [] ps)] } ∧
      (s.createWebentity ps).1.weMap = mapSetAll s.weMap (ps.map lruIter) (s.hdrId + 1) ∧
      (s.createWebentity ps).1.hdrId = s.hdrId + 1) := by
  obtain ⟨_, a1, a2, a3⟩ := addPrefixes_spec h ps false hne
  unfold createWebentity
  refine ⟨?_, ?_, ?_⟩
  · rintro ⟨p, hp, hz⟩
    have hpos : 0 < takenCount s.weMap ps := by
      rcases Nat.eq_zero_or_pos (takenCount s.weMap ps) with h0 | h0
      · exact absurd ((takenCount_eq_zero _ _).mp h0 p hp) hz
      · exact h0
    obtain ⟨b1, b2, b3⟩ := a1 ⟨hpos, rfl⟩
    rcases hr : s.addPrefixes ps false with ⟨s1, res⟩
    rw [hr] at b1 b2 b3
    simp only at b1 b2 b3
    subst b1
    exact ⟨rfl, b2, b3⟩
  · intro hall hnil
    have h0 := (takenCount_eq_zero _ _).mpr hall
    obtain ⟨b1, b2, b3⟩ := a2 (by rw [h0]; simp) (by rw [h0, hnil]; rfl)
    rcases hr : s.addPrefixes ps false with ⟨s1, res⟩
    rw [hr] at b1 b2 b3
    simp only at b1 b2 b3
    subst b1
    exact ⟨rfl, b2, b3⟩
  · intro hall hnil
    have h0 := (takenCount_eq_zero _ _).mpr hall
    obtain ⟨b1, b2, b3⟩ := a3 (by rw [h0]; simp) (by
      rw [h0]; intro hc; exact hnil (List.eq_nil_of_length_eq_zero hc.symm))
    rcases hr : s.addPrefixes ps false with ⟨s1, res⟩
    rw [hr] at b1 b2 b3
    simp only at b1 b2 b3
    subst b1
    have hfree : freeOf s.weMap ps = keysAdd [] ps := by
      unfold freeOf
      rw [List.filter_eq_self.mpr (fun p hp => by simpa using hall p hp)]
    have hmap : mapAttach s.weMap (ps.map lruIter) (s.hdrId + 1) = mapSetAll s.weMap (ps.map lruIter) (s.hdrId + 1) := by
      funext q
      unfold mapAttach mapSetAll
      by_cases hq : q ∈ ps.map lruIter
      · obtain ⟨p, hp, rfl⟩ := List.mem_map.mp hq
        rw [if_pos ⟨hq, hall p hp⟩, if_pos hq]
      · rw [if_neg (fun hx => hq hx.1), if_neg hq]
    exact ⟨by rw [hfree], by rw [b2, hmap], b3⟩

/-! ### `__create_webentity` (automatic creation) -/

/-- `__create_webentity(K, expand=True, use_best_case=True)`: when some variation of `K` is free, a new
    webentity (next id) owns exactly the free ones, and they are reported; when all are taken nothing
    happens and nothing is reported -/
theorem createWebentityAuto_spec {s : State} {t : T} (h : Shape s t) (pfx : Bytes)
    (hne : ∀ p ∈ lruVariations pfx, lruIter p ≠ []) :
    (∃ t', Ext s t (s.createWebentityAuto pfx).1 t') ∧
    ((∀ p ∈ lruVariations pfx, s.weMap (lruIter p) ≠ 0) →
      (s.createWebentityAuto pfx).2 = {} ∧ (s.createWebentityAuto pfx).1.weMap = s.weMap ∧
      (s.createWebentityAuto pfx).1.hdrId = s.hdrId) ∧
    ((∃ p ∈ lruVariations pfx, s.weMap (lruIter p) = 0) →
      (s.createWebentityAuto pfx).2 = { we := [(some (s.hdrId + 1), freeOf s.weMap (lruVariations pfx))] } ∧
      (s.createWebentityAuto pfx).1.weMap
        = mapAttach s.weMap ((lruVariations pfx).map lruIter) (s.hdrId + 1) ∧
      (s.createWebentityAuto pfx).1.hdrId = s.hdrId + 1) := by
  obtain ⟨x, _, a2, a3⟩ := addPrefixes_spec h (lruVariations pfx) true hne
  unfold createWebentityAuto
  refine ⟨?_, ?_, ?_⟩
  · obtain ⟨t', x⟩ := x
    refine ⟨t', ?_⟩
    split <;> rename_i heq <;> rw [heq] at x <;> exact x
  · intro hall
    obtain ⟨b1, b2, b3⟩ := a2 (by simp) ((takenCount_eq_length _ _).mpr hall)
    rcases hr : s.addPrefixes (lruVariations pfx) true with ⟨s1, res⟩
    rw [hr] at b1 b2 b3
    simp only at b1 b2 b3
    subst b1
    exact ⟨rfl, b2, b3⟩
  · rintro ⟨p, hp, hz⟩
    obtain ⟨b1, b2, b3⟩ := a3 (by simp) (fun hc => (takenCount_eq_length _ _).mp hc p hp hz)
    rcases hr : s.addPrefixes (lruVariations pfx) true with ⟨s1, res⟩
    rw [hr] at b1 b2 b3
    simp only at b1 b2 b3
    subst b1
    exact ⟨rfl, b2, b3⟩

end Traph

import Proofs.WeMapBulk
/-! C04 at the level of whole request histories.
    * `specOp M op ans`: the abstract edit of the prefix map performed by request `op` that answered `ans`
      (explicit edits: a point update / a detach-all; every report: replay of the reported creations);
    * `weMap_step`: one request; `weMap_run`: `(s.run ops).weMap = specFold s.weMap (s.transcript ops)`;
    * `pureStep`: for the six explicit webentity requests the edit AND the answer are a pure function of
      the map and the id counter (`edit_step`, `edits_run`);
    * `fresh_weMap`: a fresh index has the empty map;
    * `C04_history`, `C04_history_fresh`, `C04_history_edits`: resolution after any history. -/
namespace Traph
open State Layout

/-- every prefix argument of a webentity request cuts into at least one stem -/
def OpWfWe : Op → Prop
  | .create ps => ∀ p ∈ ps, lruIter p ≠ []
  | .delete _ ps => ∀ p ∈ ps, lruIter p ≠ []
  | .addPrefix p _ => lruIter p ≠ []
  | .removePrefix p _ => lruIter p ≠ []
  | .movePrefix p _ _ => lruIter p ≠ []
  | _ => True

/-- the abstract edit of the prefix map by a request, given its answer -/
def specOp (M : LRU → Nat) : Op → Ans → (LRU → Nat)
  | .addPrefix p w, .unit => mapSet M (lruIter p) w
  | .removePrefix p _, .unit => mapSet M (lruIter p) 0
  | .movePrefix p tg _, .unit => mapSet M (lruIter p) tg
  | .delete _ ps, .unit => mapSetAll M (ps.map lruIter) 0
  | _, .report r => applyCreated M r.we
  | _, _ => M

/-! ### errors of `add_webentity_creation_rule` -/

theorem ruleVisit_err (s : State) (b : Nat) (lru : Bytes) (rep : Report) (e : Err)
    (h : (ruleVisit s b lru rep).2 = .error e) : e = .other "KeyError" := by
  unfold ruleVisit at h
  split at h
  · split at h
    · rename_i s1 _ e' heq
      have := addPageCore_err s _ false e' (by rw [heq])
      cases h; exact this
    · cases h
  · cases h

theorem addRuleLoop_err_wm (start : Nat) : ∀ (fuel : Nat) (s : State) (stack : List (Nat × Bytes)) (rep : Report)
    (e : Err), (addRuleLoop start fuel s stack rep).2 = .error e → e = .other "KeyError"
  | 0, s, stack, rep, e, h => by simp [addRuleLoop] at h
  | fuel + 1, s, [], rep, e, h => by simp [addRuleLoop] at h
  | fuel + 1, s, (b, lru) :: stack, rep, e, h => by
    rw [addRuleLoop_succ_cons] at h
    split at h
    · rename_i s1 e' heq
      have := ruleVisit_err s b lru rep e' (by rw [heq])
      cases h; exact this
    · exact addRuleLoop_err_wm start fuel _ _ _ e h

theorem addRule_err (s : State) (anchor : Bytes) (r : Rule) (w : Bool) (e : Err)
    (h : (s.addRule anchor r w).2 = .error e) : e = .other "KeyError" := by
  unfold addRule at h
  simp only at h
  split at h
  · cases h
  · exact addRuleLoop_err_wm _ _ _ _ _ e h

/-! ### one request -/

theorem applyCreated_of_rep {M0 : LRU → Nat} {s' : State} {x : Except Err Report}
    {lo : Nat} (hrep : ∃ rep', RepOk M0 lo s' rep' ∧ ∀ r, x = .ok r → r = rep')
    (herr : ∀ e, x = .error e → e = .other "KeyError")
    (hok : Ans.ofExcept .report x ≠ .err (.other "KeyError")) :
    ∃ r, x = .ok r ∧ s'.weMap = applyCreated M0 r.we := by
  obtain ⟨r, hr⟩ := ofExcept_ok_of_noKeyErr herr hok
  obtain ⟨rep', h1, h2⟩ := hrep
  have := h2 r hr
  subst this
  exact ⟨r, hr, h1.map⟩

/-- what one write request does to the prefix map -/
theorem weMap_step {s : State} {t : T} (h : Shape s t) (op : Op) (hop : ∀ d rs, op ≠ .clear d rs)
    (hwf : OpWfWe op) (hok : (s.step op).2 ≠ .err (.other "KeyError")) :
    (s.step op).1.weMap = specOp s.weMap op (s.step op).2 := by
  cases op with
  | addPage l c =>
    simp only [State.step, State.addPage] at hok ⊢
    rcases addPageCore_weMap_cases h l c with ⟨e, _⟩ | ⟨r, e, h2, h3, _⟩ | ⟨r, fl, e, h2, h3, _⟩
    · rw [e] at hok; exact absurd rfl hok
    · rw [e, h3]; simp only [Ans.ofExcept, specOp, h2, applyCreated_nil]
    · rw [e, h3]; simp only [Ans.ofExcept, specOp, h2, applyCreated_single]
  | addPages ls c =>
    simp only [State.step, State.addPages] at hok ⊢
    obtain ⟨r, hr, hm⟩ := applyCreated_of_rep
      (addPagesGo_rep s.weMap s.hdrId _ ls s t c {} h (RepOk.init s)) (addPagesGo_err _ ls s c {}) hok
    rw [hr, hm]; rfl
  | addLinks links =>
    simp only [State.step] at hok ⊢
    obtain ⟨r, hr, hm⟩ := applyCreated_of_rep (addLinks_rep s.weMap s.hdrId h links (RepOk.init s)) (addLinks_err s links) hok
    rw [hr, hm]; rfl
  | batch data =>
    simp only [State.step] at hok ⊢
    obtain ⟨r, hr, hm⟩ := applyCreated_of_rep (batch_rep s.weMap s.hdrId h data (RepOk.init s)) (batch_err s data) hok
    rw [hr, hm]; rfl
  | addRule a r =>
    simp only [State.step] at hok ⊢
    obtain ⟨rp, hr, hm⟩ := applyCreated_of_rep (addRule_rep h a r true) (addRule_err s a r true) hok
    rw [hr, hm]; rfl
  | create ps =>
    simp only [State.step]
    obtain ⟨c1, c2, c3⟩ := createWebentity_spec h ps hwf
    by_cases htaken : ∃ p ∈ ps, s.weMap (lruIter p) ≠ 0
    · obtain ⟨e1, e2, _⟩ := c1 htaken
      rw [e1, e2]; rfl
    · have hall : ∀ p ∈ ps, s.weMap (lruIter p) = 0 := fun p hp =>
        Classical.byContradiction (fun hz => htaken ⟨p, hp, hz⟩)
      by_cases hnil : ps = []
      · obtain ⟨e1, e2, _⟩ := c2 hall hnil
        rw [e1, e2]; rfl
      · obtain ⟨e1, e2, _⟩ := c3 hall hnil
        rw [e1, e2]
        simp only [Ans.ofExcept, specOp, applyCreated_single]
        exact mapSetAll_congr _ _ (fun q => by
          simp only [List.mem_map, mem_keysAdd, List.not_mem_nil, false_or])
  | delete w ps =>
    simp only [State.step]
    obtain ⟨d1, d2⟩ := deleteWebentity_spec h w ps hwf
    by_cases hgood : deleteOk s.weMap w ps
    · obtain ⟨e1, e2⟩ := d1 hgood
      rw [e1, e2]; rfl
    · obtain ⟨e1, e2⟩ := d2 hgood
      rw [e1, e2]; rfl
  | addPrefix p w =>
    simp only [State.step]
    obtain ⟨a1, a2⟩ := addPrefix_spec h p w hwf
    by_cases hz : s.weMap (lruIter p) = 0
    · obtain ⟨e1, e2⟩ := a2 hz
      rw [e1, e2]; rfl
    · obtain ⟨e1, e2⟩ := a1 hz
      rw [e1, e2]; rfl
  | removePrefix p w =>
    simp only [State.step]
    obtain ⟨a1, a2⟩ := removePrefix_spec h p w hwf
    by_cases hgood : removeOk s.weMap (lruIter p) w
    · obtain ⟨e1, e2⟩ := a1 hgood
      rw [e1, e2]; rfl
    · obtain ⟨e1, e2⟩ := a2 hgood
      rw [e1, e2]; rfl
  | movePrefix p tg src =>
    simp only [State.step]
    obtain ⟨a1, a2⟩ := movePrefix_spec h p tg src hwf
    by_cases hgood : removeOk s.weMap (lruIter p) src
    · obtain ⟨e1, e2⟩ := a1 hgood
      rw [e1, e2]; rfl
    · obtain ⟨e1, e2⟩ := a2 hgood
      rw [e1, e2]; rfl
  | removeRule a =>
    simp only [State.step]
    have hw : (s.removeRule a).1.weMap = s.weMap := by
      unfold removeRule
      split
      · rfl
      · simp only
        have k0 : Keeps s t { s with rules := s.rules.filter (fun p => p.1 ≠ a) } t := Keeps.of_trie_eq h rfl
        have w0 : ({ s with rules := s.rules.filter (fun p => p.1 ≠ a) } : State).weMap = s.weMap :=
          weMap_trie_eq rfl
        split
        · exact w0
        · dsimp only
          refine Eq.trans (weMap_modCell k0.shape _ _ ?_ ?_) w0 <;> intro _ <;> first | rfl | exact ⟨rfl, rfl, rfl, rfl, rfl⟩
    rw [hw]
    cases (s.removeRule a).2 <;> rfl
  | reopen d rs =>
    simp only [State.step]
    exact weMap_trie_eq rfl
  | clear d rs => exact absurd rfl (hop d rs)

/-! ### page-submitting requests, whatever they answer (KeyError included) -/

/-- attachments present before are untouched; every new one carries an id drawn in between -/
def WeGrows (s s' : State) : Prop :=
  s.hdrId ≤ s'.hdrId ∧ (∀ p, s.weMap p ≠ 0 → s'.weMap p = s.weMap p) ∧
  (∀ p, s.weMap p = 0 → s'.weMap p ≠ 0 → s.hdrId < s'.weMap p ∧ s'.weMap p ≤ s'.hdrId)

theorem RepOk.grows {s s' : State} {rep : Report} (h : RepOk s.weMap s.hdrId s' rep) : WeGrows s s' :=
  ⟨h.lo_le, h.old, h.fresh⟩

/-- the requests that submit pages (and may therefore create webentities automatically) -/
def IsPageOp : Op → Prop
  | .addPage _ _ | .addPages _ _ | .addLinks _ | .batch _ | .addRule _ _ => True
  | _ => False

/-- a page-submitting request never detaches or re-attaches an existing prefix, whatever it answers — in
    particular when it stops on a KeyError half-way; what it adds are automatic creations with fresh ids -/
theorem weMap_step_grows {s : State} {t : T} (h : Shape s t) (op : Op) (hp : IsPageOp op) :
    WeGrows s (s.step op).1 := by
  cases op with
  | addPage l c =>
    obtain ⟨rep', hr, _⟩ := (RepOk.init s).addPage h l c
    exact hr.grows
  | addPages ls c =>
    obtain ⟨rep', hr, _⟩ := addPagesGo_rep s.weMap s.hdrId s.cfg.addPagesAlwaysCrawled ls s t c {} h (RepOk.init s)
    exact hr.grows
  | addLinks links =>
    obtain ⟨rep', hr, _⟩ := addLinks_rep s.weMap s.hdrId h links (RepOk.init s)
    exact hr.grows
  | batch data =>
    obtain ⟨rep', hr, _⟩ := batch_rep s.weMap s.hdrId h data (RepOk.init s)
    exact hr.grows
  | addRule a r =>
    obtain ⟨rep', hr, _⟩ := addRule_rep h a r true
    exact hr.grows
  | create _ => exact absurd hp (by simp [IsPageOp])
  | delete _ _ => exact absurd hp (by simp [IsPageOp])
  | addPrefix _ _ => exact absurd hp (by simp [IsPageOp])
  | removePrefix _ _ => exact absurd hp (by simp [IsPageOp])
  | movePrefix _ _ _ => exact absurd hp (by simp [IsPageOp])
  | removeRule _ => exact absurd hp (by simp [IsPageOp])
  | reopen _ _ => exact absurd hp (by simp [IsPageOp])
  | clear _ _ => exact absurd hp (by simp [IsPageOp])

/-! ### histories -/

/-- the requests of a history with the answers they got -/
def State.transcript : State → List Op → List (Op × Ans)
  | _, [] => []
  | s, op :: ops => (op, (s.step op).2) :: State.transcript (s.step op).1 ops

/-- the fold of the abstract edits over a transcript -/
def specFold (M : LRU → Nat) (tr : List (Op × Ans)) : LRU → Nat :=
  tr.foldl (fun M oa => specOp M oa.1 oa.2) M

/-- NET EFFECT: after any history (no `clear`, no request answering KeyError) the prefix map of the index is
    the fold of the abstract edits over the transcript of the history -/
theorem weMap_run : ∀ (ops : List Op) (s : State) (t : T), Shape s t →
    (∀ op ∈ ops, ∀ d rs, op ≠ .clear d rs) → (∀ op ∈ ops, OpWfWe op) → NoKeyErr s ops →
    (s.run ops).weMap = specFold s.weMap (s.transcript ops)
  | [], _, _, _, _, _, _ => rfl
  | op :: ops, s, t, h, hop, hwf, hok => by
    obtain ⟨t1, h1, _⟩ := shape_step_any s t h op (hop op (by simp))
    have e1 := weMap_step h op (hop op (by simp)) (hwf op (by simp)) hok.1
    have e2 := weMap_run ops (s.step op).1 t1 h1 (fun o ho => hop o (by simp [ho]))
      (fun o ho => hwf o (by simp [ho])) hok.2
    rw [run_cons, e2, e1]
    rfl

/-! ### the six explicit webentity requests as a pure function of (map, counter) -/

def removeOkB (M : LRU → Nat) (q : LRU) : Option Nat → Bool
  | none => true
  | some w => w == 0 || M q == w

def deleteOkB (M : LRU → Nat) (w : Nat) (ps : List Bytes) : Bool :=
  ps.all (fun p => M (lruIter p) == w && w != 0)

theorem removeOkB_iff (M : LRU → Nat) (q : LRU) (w : Option Nat) : removeOkB M q w = true ↔ removeOk M q w := by
  cases w with
  | none => simp [removeOkB, removeOk]
  | some w => simp [removeOkB, removeOk]

theorem deleteOkB_iff (M : LRU → Nat) (w : Nat) (ps : List Bytes) : deleteOkB M w ps = true ↔ deleteOk M w ps := by
  simp [deleteOkB, deleteOk]

/-- the requests covered by `pureStep` -/
def IsEdit : Op → Prop
  | .create _ | .delete _ _ | .addPrefix _ _ | .removePrefix _ _ | .movePrefix _ _ _ => True
  | _ => False

/-- specification of the explicit webentity requests on (prefix map, id counter): new pair and answer -/
def pureStep (Mc : (LRU → Nat) × Nat) : Op → ((LRU → Nat) × Nat) × Ans
  | .addPrefix p w =>
    if Mc.1 (lruIter p) ≠ 0 then (Mc, .err .traph) else ((mapSet Mc.1 (lruIter p) w, Mc.2), .unit)
  | .removePrefix p w =>
    if removeOkB Mc.1 (lruIter p) w then ((mapSet Mc.1 (lruIter p) 0, Mc.2), .unit) else (Mc, .err .traph)
  | .movePrefix p tg src =>
    if removeOkB Mc.1 (lruIter p) src then ((mapSet Mc.1 (lruIter p) tg, Mc.2), .unit) else (Mc, .err .traph)
  | .delete w ps =>
    if deleteOkB Mc.1 w ps then ((mapSetAll Mc.1 (ps.map lruIter) 0, Mc.2), .unit) else (Mc, .err .traph)
  | .create ps =>
    if ps.any (fun p => Mc.1 (lruIter p) != 0) then (Mc, .err .traph)
    else if ps.isEmpty then (Mc, .report { we := [(none, [])] })
    else ((mapSetAll Mc.1 (ps.map lruIter) (Mc.2 + 1), Mc.2 + 1),
          .report { we := [(some (Mc.2 + 1), keysAdd [] ps)] })
  | _ => (Mc, .unit)

/-- an explicit webentity request: new map, new counter and answer are `pureStep` of the old ones -/
theorem edit_step {s : State} {t : T} (h : Shape s t) (op : Op) (he : IsEdit op) (hwf : OpWfWe op) :
    (((s.step op).1.weMap, (s.step op).1.hdrId), (s.step op).2) = pureStep (s.weMap, s.hdrId) op := by
  cases op with
  | addPrefix p w =>
    simp only [State.step, pureStep]
    obtain ⟨a1, a2⟩ := addPrefix_spec h p w hwf
    by_cases hz : s.weMap (lruIter p) = 0
    · obtain ⟨e1, e2⟩ := a2 hz
      rw [if_neg (by simpa using hz), e1, e2, hdrId_addPrefix]; rfl
    · obtain ⟨e1, e2⟩ := a1 hz
      rw [if_pos hz, e1, e2, hdrId_addPrefix]; rfl
  | removePrefix p w =>
    simp only [State.step, pureStep]
    obtain ⟨a1, a2⟩ := removePrefix_spec h p w hwf
    by_cases hgood : removeOk s.weMap (lruIter p) w
    · obtain ⟨e1, e2⟩ := a1 hgood
      rw [if_pos ((removeOkB_iff _ _ _).mpr hgood), e1, e2, hdrId_removePrefix]; rfl
    · obtain ⟨e1, e2⟩ := a2 hgood
      rw [if_neg (fun hx => hgood ((removeOkB_iff _ _ _).mp hx)), e1, e2, hdrId_removePrefix]; rfl
  | movePrefix p tg src =>
    simp only [State.step, pureStep]
    obtain ⟨a1, a2⟩ := movePrefix_spec h p tg src hwf
    by_cases hgood : removeOk s.weMap (lruIter p) src
    · obtain ⟨e1, e2⟩ := a1 hgood
      rw [if_pos ((removeOkB_iff _ _ _).mpr hgood), e1, e2, hdrId_movePrefix]; rfl
    · obtain ⟨e1, e2⟩ := a2 hgood
      rw [if_neg (fun hx => hgood ((removeOkB_iff _ _ _).mp hx)), e1, e2, hdrId_movePrefix]; rfl
  | delete w ps =>
    simp only [State.step, pureStep]
    obtain ⟨d1, d2⟩ := deleteWebentity_spec h w ps hwf
    by_cases hgood : deleteOk s.weMap w ps
    · obtain ⟨e1, e2⟩ := d1 hgood
      rw [if_pos ((deleteOkB_iff _ _ _).mpr hgood), e1, e2, hdrId_deleteWebentity]; rfl
    · obtain ⟨e1, e2⟩ := d2 hgood
      rw [if_neg (fun hx => hgood ((deleteOkB_iff _ _ _).mp hx)), e1, e2]; rfl
  | create ps =>
    simp only [State.step, pureStep]
    obtain ⟨c1, c2, c3⟩ := createWebentity_spec h ps hwf
    by_cases htaken : ∃ p ∈ ps, s.weMap (lruIter p) ≠ 0
    · obtain ⟨e1, e2, e3⟩ := c1 htaken
      have : ps.any (fun p => s.weMap (lruIter p) != 0) = true := by
        obtain ⟨p, hp, hz⟩ := htaken
        exact List.any_eq_true.mpr ⟨p, hp, by simpa using hz⟩
      rw [if_pos this, e1, e2, e3]; rfl
    · have hall : ∀ p ∈ ps, s.weMap (lruIter p) = 0 := fun p hp =>
        Classical.byContradiction (fun hz => htaken ⟨p, hp, hz⟩)
      have : ¬ ps.any (fun p => s.weMap (lruIter p) != 0) = true := by
        intro hx
        obtain ⟨p, hp, hz⟩ := List.any_eq_true.mp hx
        exact htaken ⟨p, hp, by simpa using hz⟩
      rw [if_neg this]
      by_cases hnil : ps = []
      · obtain ⟨e1, e2, e3⟩ := c2 hall hnil
        rw [if_pos (by rw [hnil]; rfl), e1, e2, e3]; rfl
      · obtain ⟨e1, e2, e3⟩ := c3 hall hnil
        rw [if_neg (by cases ps with | nil => exact absurd rfl hnil | cons x xs => simp), e1, e2, e3]; rfl
  | addPage _ _ => exact absurd he (by simp [IsEdit])
  | addPages _ _ => exact absurd he (by simp [IsEdit])
  | addLinks _ => exact absurd he (by simp [IsEdit])
  | batch _ => exact absurd he (by simp [IsEdit])
  | addRule _ _ => exact absurd he (by simp [IsEdit])
  | removeRule _ => exact absurd he (by simp [IsEdit])
  | reopen _ _ => exact absurd he (by simp [IsEdit])
  | clear _ _ => exact absurd he (by simp [IsEdit])

/-- the pure run: final (map, counter) and the list of answers -/
def pureRun (Mc : (LRU → Nat) × Nat) : List Op → ((LRU → Nat) × Nat) × List Ans
  | [] => (Mc, [])
  | op :: ops => ((pureRun (pureStep Mc op).1 ops).1, (pureStep Mc op).2 :: (pureRun (pureStep Mc op).1 ops).2)

theorem isEdit_not_clear {op : Op} (he : IsEdit op) : ∀ d rs, op ≠ .clear d rs := by
  intro d rs e; subst e; exact he

/-- histories made of explicit webentity requests only: the final map, the final counter and every answer
    are computed by the pure specification from the initial map and counter -/
theorem edits_run : ∀ (ops : List Op) (s : State) (t : T), Shape s t →
    (∀ op ∈ ops, IsEdit op) → (∀ op ∈ ops, OpWfWe op) →
    (((s.run ops).weMap, (s.run ops).hdrId), (s.transcript ops).map (·.2)) = pureRun (s.weMap, s.hdrId) ops
  | [], _, _, _, _, _ => rfl
  | op :: ops, s, t, h, he, hwf => by
    obtain ⟨t1, h1, _⟩ := shape_step_any s t h op (isEdit_not_clear (he op (by simp)))
    have e1 := edit_step h op (he op (by simp)) (hwf op (by simp))
    have e2 := edits_run ops (s.step op).1 t1 h1 (fun o ho => he o (by simp [ho]))
      (fun o ho => hwf o (by simp [ho]))
    have e11 : ((s.step op).1.weMap, (s.step op).1.hdrId) = (pureStep (s.weMap, s.hdrId) op).1 := by rw [← e1]
    have e12 : (s.step op).2 = (pureStep (s.weMap, s.hdrId) op).2 := by rw [← e1]
    rw [run_cons]
    simp only [State.transcript, List.map_cons, pureRun]
    rw [← e11, ← e2, e12]

/-! ### a fresh index has the empty map -/

def NoPageCells (s : State) : Prop := ∀ b, (s.cell b).flags.page = false

theorem addRuleLoop_nopage (start : Nat) : ∀ (fuel : Nat) (s : State) (stack : List (Nat × Bytes)) (rep : Report),
    NoPageCells s → addRuleLoop start fuel s stack rep = (s, .ok rep)
  | 0, _, _, _, _ => by simp [addRuleLoop]
  | fuel + 1, s, [], rep, _ => by simp [addRuleLoop]
  | fuel + 1, s, (b, lru) :: stack, rep, hn => by
    rw [addRuleLoop_succ_cons]
    have : ruleVisit s b lru rep = (s, .ok rep) := by
      unfold ruleVisit; rw [hn b]; rfl
    rw [this]
    exact addRuleLoop_nopage start fuel s _ rep hn

theorem noPageCells_attrStep {s s' : State} (a : AttrStep s s') (hn : NoPageCells s) : NoPageCells s' := by
  intro b
  by_cases hb : b < s.trie.size
  · rw [(a.old b hb).page]; exact hn b
  · exact (a.new b (Nat.le_of_not_lt hb)).page

theorem addRule_nopage {s : State} {t : T} (h : Shape s t) (hn : NoPageCells s) (anchor : Bytes) (r : Rule)
    (w : Bool) :
    NoPageCells (s.addRule anchor r w).1 ∧ (s.addRule anchor r w).1.weMap = s.weMap ∧
    ∃ rp, (s.addRule anchor r w).2 = .ok rp := by
  have k0 : Keeps s t { s with rules := dictSet s.rules anchor r } t := Keeps.of_trie_eq h rfl
  have w0 : ({ s with rules := dictSet s.rules anchor r } : State).weMap = s.weMap := weMap_trie_eq rfl
  have n0 : NoPageCells ({ s with rules := dictSet s.rules anchor r } : State) := hn
  obtain ⟨t1, k1, _⟩ := keeps_addLruIter k0.shape anchor false
  have w1 := weMap_addLru k0.shape (lruIter anchor) false
  have n1 := noPageCells_attrStep (attrStep_addLru { s with rules := dictSet s.rules anchor r } (lruIter anchor) false) n0
  rcases ha : State.addLru { s with rules := dictSet s.rules anchor r } (lruIter anchor) false with ⟨s1, n, hh⟩
  rw [ha] at k1 w1 n1
  simp only at k1 w1 n1
  simp only [addRule, ha]
  split
  · exact ⟨n0, w0, _, rfl⟩
  · have w2 : (s1.modCell n (fun c => { c with flags := { c.flags with rule := true } })).weMap = s1.weMap :=
      weMap_modCell k1.shape n _ (fun _ => ⟨rfl, rfl, rfl, rfl, rfl⟩) (fun _ => rfl)
    have n2 : NoPageCells (s1.modCell n (fun c => { c with flags := { c.flags with rule := true } })) := by
      intro b
      rw [cell_modCell]
      split
      · exact n1 b
      · exact n1 b
    rw [addRuleLoop_nopage _ _ _ _ _ n2]
    exact ⟨n2, w2.trans (w1.trans w0), _, rfl⟩

theorem installRules_nopage : ∀ (rules : List (Bytes × Rule)) (s : State) (t : T) (w : Bool), Shape s t →
    NoPageCells s → (installRules s rules w).1.weMap = s.weMap
  | [], _, _, _, _, _ => rfl
  | (a, r) :: rest, s, t, w, h, hn => by
    obtain ⟨t1, x1, _⟩ := addRule_step h a r w
    obtain ⟨n1, w1, rp, e1⟩ := addRule_nopage h hn a r w
    rw [installRules]
    split
    · rename_i s1 e heq
      rw [heq] at e1; cases e1
    · rename_i s1 _ heq
      rw [heq] at x1 n1 w1
      simp only at x1 n1 w1
      rw [installRules_nopage rest s1 t1 w x1.shape n1, w1]

theorem weMap_of_trie_init (s : State) (h : s.trie = #[{}]) : s.weMap = fun _ => 0 := by
  funext p
  unfold State.weMap State.lruNode
  rw [h]
  simp

/-- a fresh index (whatever the constructor rules) has the empty prefix map -/
theorem fresh_weMap (cfg : Config) (dflt : Rule) (rules : List (Bytes × Rule)) (log : List Write) :
    (State.fresh cfg dflt rules log).1.weMap = fun _ => 0 := by
  have h0 : Shape ({ cfg := cfg, dflt := dflt, log := .linkHdr :: .hdr 0 :: log } : State) .nil :=
    shape_of_trie_init _ rfl
  have hn : NoPageCells ({ cfg := cfg, dflt := dflt, log := .linkHdr :: .hdr 0 :: log } : State) := by
    intro b
    unfold State.cell
    cases b with
    | zero => rfl
    | succ b => rfl
  unfold State.fresh
  rw [installRules_nopage rules _ .nil true h0 hn]
  exact weMap_of_trie_init _ rfl

/-! ### C04 -/

/-- resolution of any query in terms of a map equal to the index's prefix map -/
theorem resolve_of_weMap {s : State} {t : T} (h : Shape s t) {M : LRU → Nat} (hM : s.weMap = M) (q : Bytes) :
    (∀ w, s.retrieveWebentity q = .ok w ↔ ∃ k, LongestAt M (lruIter q) k ∧ w = M ((lruIter q).take k)) ∧
    (∀ e, s.retrieveWebentity q = .error e ↔ e = .traph ∧ NoneAt M (lruIter q)) ∧
    (∀ p, s.retrievePrefix q = .ok p ↔ ∃ k, LongestAt M (lruIter q) k ∧ p = ((lruIter q).take k).flatten) ∧
    (∀ e, s.retrievePrefix q = .error e ↔ e = .traph ∧ NoneAt M (lruIter q)) := by
  subst hM
  exact ⟨retrieveWebentity_ok_iff h q, retrieveWebentity_error_iff h q, retrievePrefix_ok_iff h q,
    retrievePrefix_error_iff h q⟩

/-- C04 over histories, from any state satisfying the shape invariant: after the history, every LRU `q`
    (indexed or not) resolves to the webentity attached — in the NET map `specFold …`, i.e. after all
    creations, deletions, prefix additions / removals / moves and automatic creations so far — to the
    longest stem-prefix of `q` that carries one; both resolutions fail, with the library's own error,
    iff no stem-prefix carries one -/
theorem C04_history {s : State} {t : T} (h : Shape s t) (ops : List Op)
    (hop : ∀ op ∈ ops, ∀ d rs, op ≠ .clear d rs) (hwf : ∀ op ∈ ops, OpWfWe op) (hok : NoKeyErr s ops)
    (q : Bytes) :
    (∀ w, (s.run ops).retrieveWebentity q = .ok w ↔
      ∃ k, LongestAt (specFold s.weMap (s.transcript ops)) (lruIter q) k ∧
        w = specFold s.weMap (s.transcript ops) ((lruIter q).take k)) ∧
    (∀ e, (s.run ops).retrieveWebentity q = .error e ↔
      e = .traph ∧ NoneAt (specFold s.weMap (s.transcript ops)) (lruIter q)) ∧
    (∀ p, (s.run ops).retrievePrefix q = .ok p ↔
      ∃ k, LongestAt (specFold s.weMap (s.transcript ops)) (lruIter q) k ∧ p = ((lruIter q).take k).flatten) ∧
    (∀ e, (s.run ops).retrievePrefix q = .error e ↔
      e = .traph ∧ NoneAt (specFold s.weMap (s.transcript ops)) (lruIter q)) := by
  obtain ⟨t', h', _⟩ := shape_run_from s t h ops hop
  exact resolve_of_weMap h' (weMap_run ops s t h hop hwf hok) q

/-- C04 for histories on a fresh index: the net map starts empty -/
theorem C04_history_fresh (cfg : Config) (dflt : Rule) (rules : List (Bytes × Rule)) (ops : List Op)
    (hop : ∀ op ∈ ops, ∀ d rs, op ≠ .clear d rs) (hwf : ∀ op ∈ ops, OpWfWe op)
    (hok : NoKeyErr (State.fresh cfg dflt rules []).1 ops) (q : Bytes) :
    let s0 := (State.fresh cfg dflt rules []).1
    let M := specFold (fun _ => 0) (s0.transcript ops)
    (∀ w, (s0.run ops).retrieveWebentity q = .ok w ↔
      ∃ k, LongestAt M (lruIter q) k ∧ w = M ((lruIter q).take k)) ∧
    (∀ e, (s0.run ops).retrieveWebentity q = .error e ↔ e = .traph ∧ NoneAt M (lruIter q)) ∧
    (∀ p, (s0.run ops).retrievePrefix q = .ok p ↔
      ∃ k, LongestAt M (lruIter q) k ∧ p = ((lruIter q).take k).flatten) ∧
    (∀ e, (s0.run ops).retrievePrefix q = .error e ↔ e = .traph ∧ NoneAt M (lruIter q)) := by
  intro s0 M
  obtain ⟨t0, h0, _⟩ := fresh_spec cfg dflt rules []
  have := C04_history h0 ops hop hwf hok q
  rw [fresh_weMap] at this
  exact this

/-- C04 for histories of explicit webentity requests: the net map is computed by the pure specification
    `pureRun` from the initial map and id counter alone -/
theorem C04_history_edits {s : State} {t : T} (h : Shape s t) (ops : List Op)
    (he : ∀ op ∈ ops, IsEdit op) (hwf : ∀ op ∈ ops, OpWfWe op) (q : Bytes) :
    let M := (pureRun (s.weMap, s.hdrId) ops).1.1
    (∀ w, (s.run ops).retrieveWebentity q = .ok w ↔
      ∃ k, LongestAt M (lruIter q) k ∧ w = M ((lruIter q).take k)) ∧
    (∀ e, (s.run ops).retrieveWebentity q = .error e ↔ e = .traph ∧ NoneAt M (lruIter q)) ∧
    (∀ p, (s.run ops).retrievePrefix q = .ok p ↔
      ∃ k, LongestAt M (lruIter q) k ∧ p = ((lruIter q).take k).flatten) ∧
    (∀ e, (s.run ops).retrievePrefix q = .error e ↔ e = .traph ∧ NoneAt M (lruIter q)) := by
  intro M
  obtain ⟨t', h', _⟩ := shape_run_from s t h ops (fun op ho => isEdit_not_clear (he op ho))
  have e := edits_run ops s t h he hwf
  have hM : (s.run ops).weMap = M := by
    show _ = (pureRun (s.weMap, s.hdrId) ops).1.1
    rw [← e]
  exact resolve_of_weMap h' hM q

end Traph

section
open Traph
#print axioms weMap_step
#print axioms weMap_run
#print axioms weMap_step_grows
#print axioms edits_run
#print axioms fresh_weMap
#print axioms C04_history
#print axioms C04_history_fresh
#print axioms C04_history_edits
#print axioms C06_post_creation
#print axioms C06_post_no_creation
#print axioms C06_potential
end

import Proofs.RuleInstall
import Proofs.RuleFuelBytes
import Proofs.KnownRun
/-! The fuel of the rule-installation walk suffices: `8 * (n + 2)²` for a trie of `n` blocks (the bound the
    model gives the `while` loop of `add_webentity_creation_rule_iter`) exceeds the size of the trie at the
    end of the re-insertions, for every state that satisfies the block accounting invariant `SizeOk`
    (all reachable states do). Each re-inserted page allocates at most the nodes of the (at most four)
    scheme / www variations of the rule proposal, each of which is cut out of the page's own LRU. -/
set_option linter.unusedSimpArgs false
namespace Traph
open State Layout

/-! ### blocks of a stem list -/

/-- blocks occupied by the nodes of a list of stems -/
def pathBlocks (l : LRU) : Nat := (l.map blocksFor).sum

@[simp] theorem pathBlocks_nil : pathBlocks [] = 0 := rfl
@[simp] theorem pathBlocks_cons (x : Stem) (l : LRU) : pathBlocks (x :: l) = blocksFor x + pathBlocks l := by simp [pathBlocks]

theorem blocksFor_bounds (x : Bytes) :
    1 ≤ blocksFor x ∧ x.length ≤ 74 * blocksFor x ∧ 74 * blocksFor x ≤ 74 + x.length := by
  unfold blocksFor
  have e : Layout.stemCap = 74 := rfl
  rw [e]
  split <;> omega

theorem pathBlocks_bounds : ∀ (l : LRU), l.length ≤ pathBlocks l ∧ l.flatten.length ≤ 74 * pathBlocks l ∧
    74 * pathBlocks l ≤ 74 * l.length + l.flatten.length
  | [] => by simp
  | x :: l => by
    obtain ⟨h1, h2, h3⟩ := pathBlocks_bounds l
    obtain ⟨b1, b2, b3⟩ := blocksFor_bounds x
    simp only [pathBlocks_cons, List.length_cons, List.flatten_cons, List.length_append]
    refine ⟨by omega, by omega, by omega⟩

theorem pathBlocks_lruIter_le (v : Bytes) : 74 * pathBlocks (lruIter v) ≤ 74 * nsep v + v.length := by
  obtain ⟨_, _, h3⟩ := pathBlocks_bounds (lruIter v)
  rw [lruIter_length] at h3
  obtain ⟨tl, e⟩ := lruIter_prefix v
  have := congrArg List.length e
  rw [List.length_append] at this
  omega

theorem sum_map_le_mul {α : Type} (f : α → Nat) (c : Nat) : ∀ (l : List α), (∀ x ∈ l, f x ≤ c) →
    (l.map f).sum ≤ l.length * c
  | [], _ => by simp
  | x :: l, h => by
    have h1 := h x (by simp)
    have h2 := sum_map_le_mul f c l (fun y hy => h y (by simp [hy]))
    simp only [List.map_cons, List.sum_cons, List.length_cons]
    rw [Nat.add_mul, Nat.one_mul]; omega

/-- the nodes of a stored path are among the nodes the accounting invariant counts -/
theorem pathBlocks_entry_le {s : State} : ∀ (u : T) (pre p : LRU) (b : Nat), (p, b) ∈ u.entries s pre →
    pathBlocks (p.drop pre.length) ≤ ((u.entries s pre).map (fun pb => blocksFor (s.stemAt pb.2))).sum
  | .nil, _, _, _, h => by simp [T.entries] at h
  | .node a l c r, pre, p, b, h => by
    simp only [T.entries, List.mem_append, List.mem_cons, Prod.mk.injEq] at h
    simp only [T.entries, List.map_append, List.map_cons, List.sum_append, List.sum_cons]
    rcases h with h | ⟨rfl, _⟩ | h | h
    · have := pathBlocks_entry_le l pre p b h; omega
    · simp only [List.drop_left', pathBlocks_cons, pathBlocks_nil]; omega
    · have ih := pathBlocks_entry_le c (pre ++ [s.stemAt a]) p b h
      obtain ⟨x, rest, e⟩ := entries_prefix c _ p b h
      have e1 : p.drop pre.length = s.stemAt a :: p.drop (pre ++ [s.stemAt a]).length := by
        rw [e]; simp [List.drop_append]
      rw [e1, pathBlocks_cons]; omega
    · have := pathBlocks_entry_le r pre p b h; omega

theorem pathBlocks_stored_le {s : State} {t : T} (hz : SizeOk s t) {p : LRU} {b : Nat}
    (hm : (p, b) ∈ t.entries s []) : pathBlocks p + 1 ≤ s.trie.size := by
  have := pathBlocks_entry_le t [] p b hm
  unfold SizeOk at hz
  simp only [List.length_nil, List.drop_zero] at this
  omega

/-! ### growth of `__create_webentity` and of a re-insertion -/

theorem addLru_size_le {s : State} {t : T} (h : Shape s t) (stems : LRU) (flag : Bool) :
    (s.addLru stems flag).1.trie.size ≤ s.trie.size + pathBlocks stems := by
  by_cases hne : stems = []
  · subst hne; rw [addLru_nil]; simp
  · exact addLru_growth_le h stems hne flag

theorem addPrefixesScan_size : ∀ (ps : List Bytes) (s : State) (t : T) (valid : List (Bytes × Nat)) (nInv : Nat),
    Shape s t → (s.addPrefixesScan ps valid nInv).1.trie.size ≤ s.trie.size + (ps.map (fun p => pathBlocks (lruIter p))).sum
  | [], s, t, valid, nInv, _ => by simp [addPrefixesScan]
  | p :: ps, s, t, valid, nInv, h => by
    obtain ⟨t1, k1, _⟩ := keeps_addLruIter h p true
    have g1 := addLru_size_le h (lruIter p) true
    rcases ha : s.addLru (lruIter p) true with ⟨s1, n, hh⟩
    rw [ha] at k1 g1
    simp only at k1 g1
    simp only [addPrefixesScan, ha, List.map_cons, List.sum_cons]
    split
    · have := addPrefixesScan_size ps s1 t1 valid (nInv + 1) k1.shape; omega
    · have := addPrefixesScan_size ps s1 t1 (dictSet valid p n) nInv k1.shape; omega

theorem createWebentityAuto_size {s : State} {t : T} (h : Shape s t) (pfx : Bytes) :
    (s.createWebentityAuto pfx).1.trie.size ≤
      s.trie.size + ((lruVariations pfx).map (fun p => pathBlocks (lruIter p))).sum := by
  have g1 := addPrefixesScan_size (lruVariations pfx) s t [] 0 h
  have key : (s.addPrefixes (lruVariations pfx) true).1.trie.size =
      (s.addPrefixesScan (lruVariations pfx) [] 0).1.trie.size := by
    rcases ha : s.addPrefixesScan (lruVariations pfx) [] 0 with ⟨s1, valid, nInv⟩
    simp only [addPrefixes, ha]
    split
    · rfl
    · split
      · rfl
      · have n2 : NoStruct s1 s1.genId.1 := noStruct_of_trie_eq rfl
        have n3 := chain_foldl_modCell (fun pn : Bytes × Nat => pn.2) (fun _ c => { c with we := s1.genId.2 })
          (fun _ _ => ⟨rfl, rfl, rfl, rfl, rfl⟩) valid s1.genId.1
        exact (n2.trans n3).1
  have e : (s.createWebentityAuto pfx).1 = (s.addPrefixes (lruVariations pfx) true).1 := by
    unfold createWebentityAuto
    split <;> rename_i heq <;> rw [heq]
  rw [e, key]; exact g1

/-- a rule proposal cut out of an LRU of `n` stems and `ℓ` bytes: every variation occupies few blocks -/
theorem variation_W_le {lru K v : Bytes} (hK : K.length ≤ lru.length ∧ nsep K ≤ nsep lru)
    (hv : v ∈ lruVariations K) {B : Nat} (hn : nsep lru ≤ B) (hl : lru.length ≤ 74 * B) :
    pathBlocks (lruIter v) ≤ 2 * B + 1 := by
  obtain ⟨v1, v2⟩ := lruVariations_bounds K v hv
  have := pathBlocks_lruIter_le v
  omega

/-- re-inserting a stored page whose path occupies at most `B` blocks grows the trie by at most `8B + 4` -/
theorem addPageCore_known_size {s : State} {t : T} (h : Shape s t) {p : LRU} {b : Nat}
    (hm : (p, b) ∈ t.entries s []) (hw : ∀ x ∈ p, StemWf x) {B : Nat} (hB : pathBlocks p ≤ B) :
    (s.addPageCore p.flatten false).1.trie.size ≤ s.trie.size + (8 * B + 4) := by
  have e2 : lruIter p.flatten = p := lruIter_flatten p hw
  have hpne : p ≠ [] := entry_ne_nil hm
  obtain ⟨t1, x1, _⟩ := addPageTrie_step h (lruIter p.flatten) false (lruIter_wf _)
  have hsz1 := (addPageTrie_known_no_growth h (lruIter p.flatten) (by rw [e2]; exact hpne) false b
    (by rw [e2]; exact hm)).1
  obtain ⟨w1, w2, _⟩ := pathBlocks_bounds p
  have hn : nsep p.flatten ≤ B := by rw [nsep_flatten_wf p hw]; omega
  have hl : p.flatten.length ≤ 74 * B := by omega
  rw [addPageCore_eq]
  cases hd : (s.addPageTrie (lruIter p.flatten) false).1.autoDecision p.flatten
      (s.addPageTrie (lruIter p.flatten) false).2.2 with
  | none => simp only; omega
  | some o =>
    cases o with
    | none => simp only; omega
    | some K =>
      simp only
      have hK := autoDecision_bounds hd
      have g := createWebentityAuto_size x1.shape K
      have hsum := sum_map_le_mul (fun v => pathBlocks (lruIter v)) (2 * B + 1) (lruVariations K)
        (fun v hv => variation_W_le hK hv hn hl)
      have h4 := lruVariations_length_le K
      have : (lruVariations K).length * (2 * B + 1) ≤ 4 * (2 * B + 1) := Nat.mul_le_mul_right _ h4
      omega

/-- re-inserting a list of stored pages, each occupying at most `B` blocks on its path -/
theorem reinsert_growth (B : Nat) : ∀ (L : List Bytes) (s : State) (t : T) (rep : Report), Shape s t →
    (∀ lru ∈ L, ∃ p b, (p, b) ∈ t.entries s [] ∧ (∀ x ∈ p, StemWf x) ∧ lru = p.flatten ∧ pathBlocks p ≤ B) →
    (s.reinsert L rep).1.trie.size ≤ s.trie.size + L.length * (8 * B + 4)
  | [], s, t, rep, _, _ => by simp [State.reinsert]
  | lru :: L, s, t, rep, h, hL => by
    obtain ⟨p, b, hm, hw, rfl, hB⟩ := hL lru (by simp)
    have g1 := addPageCore_known_size h hm hw hB
    obtain ⟨t1, x1, _⟩ := addPageCore_step h p.flatten false
    have hL1 : ∀ lru ∈ L, ∃ q b, (q, b) ∈ t1.entries (s.addPageCore p.flatten false).1 [] ∧
        (∀ x ∈ q, StemWf x) ∧ lru = q.flatten ∧ pathBlocks q ≤ B := by
      intro lru hl
      obtain ⟨p', b', hm', hw', e', hB'⟩ := hL lru (by simp [hl])
      exact ⟨p', b', x1.keep _ _ hm', hw', e', hB'⟩
    rcases hA : s.addPageCore p.flatten false with ⟨s1, n1, res⟩
    rw [hA] at g1 x1 hL1
    simp only at g1 x1 hL1
    simp only [State.reinsert, hA, List.length_cons]
    rw [Nat.add_mul, Nat.one_mul]
    cases res with
    | error e => simp only; omega
    | ok r1 =>
      simp only
      have := reinsert_growth B L s1 t1 (rep.add r1) x1.shape hL1
      omega

/-! ### the prologue keeps the accounting invariant -/

theorem rulePrologue_sizeOk {s : State} {t : T} (h : Shape s t) (hz : SizeOk s t) (anchor : Bytes) (r : Rule)
    (hne : lruIter anchor ≠ []) :
    ∃ t2, Keeps s t (s.rulePrologue anchor r).1 t2 ∧ SizeOk (s.rulePrologue anchor r).1 t2 ∧
      (lruIter anchor, (s.rulePrologue anchor r).2) ∈ t2.entries (s.rulePrologue anchor r).1 [] := by
  have k0 : Keeps s t { s with rules := dictSet s.rules anchor r } t := Keeps.of_trie_eq h rfl
  have z0 : SizeOk { s with rules := dictSet s.rules anchor r } t :=
    hz.noStruct (noStruct_of_trie_eq rfl)
  obtain ⟨t1, g1, z1, hent⟩ := addLru_sizeOk k0.shape z0 (lruIter anchor) hne false
  have k1 : Keeps { s with rules := dictSet s.rules anchor r } t
      (State.addLru { s with rules := dictSet s.rules anchor r } (lruIter anchor) false).1 t1 :=
    Keeps.of_grow k0.shape g1 (attrStep_addLru _ _ _) (lruIter_wf anchor)
  have k2 := keeps_setRule k1.shape
    (State.addLru { s with rules := dictSet s.rules anchor r } (lruIter anchor) false).2.1 true
  have n2 : NoStruct (State.addLru { s with rules := dictSet s.rules anchor r } (lruIter anchor) false).1
      (s.rulePrologue anchor r).1 :=
    Traph.noStruct_modCell _ _ _ (fun _ => ⟨rfl, rfl, rfl, rfl, rfl⟩)
  exact ⟨t1, k0.trans (k1.trans k2), z1.noStruct n2, k2.ext.keep _ _ hent⟩

/-- the number of listed pages is at most the number of blocks -/
theorem pagesBelow_length_le {s : State} {t : T} (h : Shape s t) {anchor : Bytes} {n : Nat}
    (hP : (lruIter anchor, n) ∈ t.entries s []) : (s.pagesBelow n anchor).length ≤ s.trie.size := by
  have hnd := dfsIter_some_addrs_nodup h hP
  have hlt : ∀ x ∈ (s.dfsIter (some (n, anchor)) false).map (·.1), x < s.trie.size := by
    intro x hx
    obtain ⟨e, he, rfl⟩ := List.mem_map.mp hx
    obtain ⟨X, hX, _, _⟩ := (dfsIter_some_mem_iff h hP e.1 e.2).mp he
    exact entry_lt h hX
  have h1 := nodup_length_le _ _ hnd hlt
  unfold State.pagesBelow
  rw [List.length_map]
  have h2 := List.length_filter_le (fun e : Nat × Bytes => (s.cell e.1).flags.page)
    (s.dfsIter (some (n, anchor)) false)
  rw [List.length_map] at h1
  omega

/-- MAIN (fuel): the bound the model gives the walk exceeds the size of the trie after all re-insertions -/
theorem rule_fuel_ok {s : State} {t : T} (h : Shape s t) (hi : Inv s t) (hz : SizeOk s t) (anchor : Bytes)
    (r : Rule) (hne : lruIter anchor ≠ []) :
    ((s.rulePrologue anchor r).1.reinsert
        ((s.rulePrologue anchor r).1.pagesBelow (s.rulePrologue anchor r).2 anchor) {}).1.trie.size <
      8 * ((s.rulePrologue anchor r).1.trie.size + 2) * ((s.rulePrologue anchor r).1.trie.size + 2) := by
  obtain ⟨t2, k2, z2, hP⟩ := rulePrologue_sizeOk h hz anchor r hne
  have hi2 : Inv (s.rulePrologue anchor r).1 t2 := (k2.adds hi).inv
  generalize (s.rulePrologue anchor r).1 = s2 at *
  generalize (s.rulePrologue anchor r).2 = n at *
  have hlen := pagesBelow_length_le k2.shape hP
  have hL : ∀ lru ∈ s2.pagesBelow n anchor, ∃ p b, (p, b) ∈ t2.entries s2 [] ∧ (∀ x ∈ p, StemWf x) ∧
      lru = p.flatten ∧ pathBlocks p ≤ s2.trie.size - 1 := by
    intro lru hl
    obtain ⟨p, ⟨b, hm, _⟩, _, e⟩ := (pagesBelow_mem_iff k2.shape hP lru).mp hl
    have := pathBlocks_stored_le z2 hm
    exact ⟨p, b, hm, hi2.wf p b hm, e, by omega⟩
  have g := reinsert_growth (s2.trie.size - 1) (s2.pagesBelow n anchor) s2 t2 {} k2.shape hL
  have hpos : 0 < s2.trie.size := k2.shape.live
  have hmul : (s2.pagesBelow n anchor).length * (8 * (s2.trie.size - 1) + 4) ≤
      s2.trie.size * (8 * (s2.trie.size - 1) + 4) := Nat.mul_le_mul_right _ hlen
  generalize s2.trie.size = S at *
  have e1 : S * (8 * (S - 1) + 4) ≤ 8 * S * S := by
    have : 8 * (S - 1) + 4 ≤ 8 * S := by omega
    calc S * (8 * (S - 1) + 4) ≤ S * (8 * S) := Nat.mul_le_mul_left _ this
      _ = 8 * S * S := by rw [Nat.mul_comm S (8 * S)]
  have e2 : 8 * (S + 2) * (S + 2) = 8 * S * S + 32 * S + 32 := by
    simp only [Nat.mul_add, Nat.add_mul]; omega
  omega

/-! ### the ghost tree of a state is unique -/

theorem Rep.unique {s : State} : ∀ (t t' : T), Rep s t → Rep s t' → t.root = t'.root → t = t' := by
  intro t
  induction t with
  | nil =>
    intro t' _ hr' e
    exact (hr'.eq_nil_of_root e.symm).symm
  | node a l c r ihl ihc ihr =>
    intro t' hr hr' e
    cases t' with
    | nil => exact absurd e hr.1
    | node a' l' c' r' =>
      simp only [T.root_node] at e
      subst e
      obtain ⟨h1, h2, h3⟩ := hr.cell_eq
      obtain ⟨g1, g2, g3⟩ := hr'.cell_eq
      rw [ihl l' hr.2.2.1 hr'.2.2.1 (h1.symm.trans g1), ihc c' hr.2.2.2.1 hr'.2.2.2.1 (h2.symm.trans g2),
        ihr r' hr.2.2.2.2 hr'.2.2.2.2 (h3.symm.trans g3)]

theorem Shape.unique {s : State} {t t' : T} (h : Shape s t) (h' : Shape s t') : t = t' :=
  Rep.unique t t' h.rep h'.rep (h.root.trans h'.root.symm)

/-! ### the unconditional statement -/

/-- C06, rule installation: for a state satisfying the invariants of reachable states,
    `add_webentity_creation_rule(anchor, rule)` = prologue (RAM rule, `add_lru(anchor)`, rule flag), then the
    re-insertion through `__add_page(lru)` of every page beneath the anchor, in the order of the model's DFS,
    reports summed; the first `KeyError` aborts both sides in the same state -/
theorem C06_rule_install_full {s : State} {t : T} (h : Shape s t) (hi : Inv s t) (hz : SizeOk s t)
    (anchor : Bytes) (r : Rule) (hne : lruIter anchor ≠ []) :
    s.addRule anchor r true =
      (s.rulePrologue anchor r).1.reinsert
        ((s.rulePrologue anchor r).1.pagesBelow (s.rulePrologue anchor r).2 anchor) {} :=
  C06_rule_install h hi anchor r hne (rule_fuel_ok h hi hz anchor r hne)

/-- the invariants used above hold, on one and the same ghost tree, in every state reached by a history of
    well-formed write requests from a fresh index -/
theorem reachable_invs (cfg : Config) (dflt : Rule) (rules : List (Bytes × Rule)) (ops : List Op)
    (hrules : ∀ ar ∈ rules, lruIter ar.1 ≠ [])
    (hop : ∀ op ∈ ops, ∀ d rs, op ≠ .clear d rs) (hwf : ∀ op ∈ ops, OpWf op)
    (hok : NoKeyErr (State.fresh cfg dflt rules []).1 ops) :
    ∃ t, Shape ((State.fresh cfg dflt rules []).1.run ops) t ∧ Inv ((State.fresh cfg dflt rules []).1.run ops) t ∧
      SizeOk ((State.fresh cfg dflt rules []).1.run ops) t := by
  obtain ⟨t, h, hi⟩ := inv_run cfg dflt rules ops hrules hop hwf hok
  obtain ⟨t', g⟩ := good_run cfg dflt rules ops hop
  have := Shape.unique h g.shape
  subst this
  exact ⟨t, h, hi, g.sizeOk⟩

/-- (5) C06, rule installation, for every reachable state: after any history of well-formed write requests
    (no `clear`, none aborted by `KeyError`) on a fresh index with any default rule and constructor rules,
    installing a rule at a well-formed anchor is the prologue followed by the re-insertion of the pages
    beneath the anchor; that list holds exactly the pages whose LRU has the anchor as a stem-prefix, each
    once -/
theorem C06_rule_install_reachable (cfg : Config) (dflt : Rule) (rules : List (Bytes × Rule)) (ops : List Op)
    (hrules : ∀ ar ∈ rules, lruIter ar.1 ≠ [])
    (hop : ∀ op ∈ ops, ∀ d rs, op ≠ .clear d rs) (hwf : ∀ op ∈ ops, OpWf op)
    (hok : NoKeyErr (State.fresh cfg dflt rules []).1 ops)
    (anchor : Bytes) (r : Rule) (hne : lruIter anchor ≠ []) :
    let s := (State.fresh cfg dflt rules []).1.run ops
    let L := (s.rulePrologue anchor r).1.pagesBelow (s.rulePrologue anchor r).2 anchor
    (s.step (.addRule anchor r)).1 = ((s.rulePrologue anchor r).1.reinsert L {}).1 ∧
    (s.step (.addRule anchor r)).2 = Ans.ofExcept .report ((s.rulePrologue anchor r).1.reinsert L {}).2 ∧
    L.Nodup ∧
    ∃ t, Shape s t ∧ ∀ lru, lru ∈ L ↔ ∃ p, IsPage s t p ∧ lruIter anchor <+: p ∧ lru = p.flatten := by
  intro s L
  obtain ⟨t, h, hi, hz⟩ := reachable_invs cfg dflt rules ops hrules hop hwf hok
  have e := C06_rule_install_full h hi hz anchor r hne
  refine ⟨?_, ?_, pagesBelow_prologue_nodup h hi anchor r hne, t, h,
    fun lru => pagesBelow_prologue_iff h hi anchor r hne lru⟩
  · show (s.addRule anchor r true).1 = _
    rw [e]
  · show Ans.ofExcept .report (s.addRule anchor r true).2 = _
    rw [e]

end Traph

import Proofs.CoDrainShape
/-! C16 — `get_webentities_links_slow_iter` drained on a fixed index = `get_webentities_links_slow`.
    The generator walks the whole trie (`dfs_with_webentity_iter`), reads the Counter of every page that has a list and
    a webentity, and yields only after an entry that adds to the graph. -/
namespace Traph
open State

/-- the walk from `stack` empties its stack within `fuel` pops -/
def dfsWeFin (s : State) : Nat → List (Nat × Nat) → Prop
  | _, [] => True
  | 0, _ :: _ => False
  | f + 1, (b, we) :: rest =>
    dfsWeFin s f (dfsWePush b we (if (s.cell b).we ≠ 0 then (s.cell b).we else we) (s.cell b) rest)

theorem dfsWeGo_step (s : State) (f b we : Nat) (rest : List (Nat × Nat)) :
    s.dfsWeGo (f + 1) ((b, we) :: rest) =
      (b, if (s.cell b).we ≠ 0 then (s.cell b).we else we) ::
        s.dfsWeGo f (dfsWePush b we (if (s.cell b).we ≠ 0 then (s.cell b).we else we) (s.cell b) rest) := by
  simp only [dfsWeGo, dfsWePush]

section SL
variable (s : State) (out auto : Bool)

/-- one Counter entry of the page of webentity `src` -/
def cdSlowInner (src : Nat) (acc : List NetRow × List (Nat × Nat)) (tw : Nat × Nat) : List NetRow × List (Nat × Nat) :=
  let (tWe, cache) := match dictGet? acc.2 tw.1 with
    | some w => (w, acc.2)
    | none => let w := s.windupWe tw.1; (w, if w = 0 then acc.2 else dictSet acc.2 tw.1 w)
  if tWe = 0 then (acc.1, cache)
  else if !auto && src = tWe then (acc.1, cache)
  else (netTouch acc.1 src (fun r => { r with targets := counterAdd r.targets tWe tw.2 }), cache)

/-- one node of the walk -/
def cdSlowStep (acc : List NetRow × List (Nat × Nat)) (bw : Nat × Nat) : List NetRow × List (Nat × Nat) :=
  let c := s.cell bw.1
  let head := if out then c.out else c.inn
  if !c.flags.page || head = 0 || bw.2 = 0 then acc else
  (s.weighted head).foldl (cdSlowInner s auto bw.2) (acc.1, dictSet acc.2 bw.1 bw.2)

theorem cd_networkSlow_eq : s.networkSlow out auto = (s.dfsWe.foldl (cdSlowStep s out auto) ([], [])).1 := rfl

def slFuel (q : SlowSt) : Nat := (s.trie.size + 2) * (s.links.size + 3) + q.stack.length + q.curList.length + 4

def slR (fuel N : Nat) (q : SlowSt) : Ans :=
  match slowResume fuel s q with
  | (q1, .yielded) => QSt.drain s N (.netSlow q1)
  | (_, .done a) => a
  | (_, .failed e) => .err e

theorem drain_sl_unfold (N : Nat) (q : SlowSt) : QSt.drain s (N + 1) (.netSlow q) = slR s (slFuel s q) N q := by
  simp only [QSt.drain, QSt.resume, slR, slFuel]
  rcases slowResume ((s.trie.size + 2) * (s.links.size + 3) + q.stack.length + q.curList.length + 4) s q with ⟨q1, o⟩
  cases o <;> rfl

/-- the loop over the Counter entries of the page in progress; `K` is what follows -/
theorem sl_list (F : List NetRow × List (Nat × Nat) → Ans) (B Y : Nat) (hB : B + 1 ≤ (s.trie.size + 2) * (s.links.size + 3))
    (stack : List (Nat × Nat)) (pend : Option (Nat × Nat × Nat × Cell)) (src : Nat)
    (hK : ∀ (graph : List NetRow) (cache : List (Nat × Nat)) (fuel N : Nat), B + 1 ≤ fuel → Y < N →
      slR s fuel N { out := out, auto := auto, started := true, stack := stack, pend := pend, cache := cache,
                     curSrc := src, curList := [], graph := graph } = F (graph, cache)) :
    ∀ (L : List (Nat × Nat)) (graph : List NetRow) (cache : List (Nat × Nat)) (fuel N : Nat),
      L.length + B + 1 ≤ fuel → L.length + Y < N →
      slR s fuel N { out := out, auto := auto, started := true, stack := stack, pend := pend, cache := cache,
                     curSrc := src, curList := L, graph := graph } =
        F (L.foldl (cdSlowInner s auto src) (graph, cache)) := by
  intro L
  induction L with
  | nil =>
    intro graph cache fuel N hf hN
    exact hK graph cache fuel N (by simpa using hf) (by simpa using hN)
  | cons tw more ih =>
    intro graph cache fuel N hf hN
    obtain ⟨t, w⟩ := tw
    obtain ⟨k, rfl⟩ : ∃ k, fuel = k + 1 := ⟨fuel - 1, by omega⟩
    simp only [List.length_cons] at hf hN
    simp only [List.foldl_cons]
    cases hget : dictGet? cache t with
    | some x =>
      by_cases h0 : x = 0
      · have := ih graph cache k N (by omega) (by omega)
        simp only [slR, slowResume, hget, h0, if_true] at this ⊢
        simpa [cdSlowInner, hget, h0] using this
      · by_cases ha : (!auto && src = x) = true
        · have := ih graph cache k N (by omega) (by omega)
          simp only [slR, slowResume, hget, h0, if_false, ha, if_true] at this ⊢
          simpa [cdSlowInner, hget, h0, ha] using this
        · obtain ⟨N', rfl⟩ : ∃ N', N = N' + 1 := ⟨N - 1, by omega⟩
          have := ih (netTouch graph src (fun r => { r with targets := counterAdd r.targets x w })) cache
            (slFuel s { out := out, auto := auto, started := true, stack := stack, pend := pend, cache := cache,
                        curSrc := src, curList := more,
                        graph := netTouch graph src (fun r => { r with targets := counterAdd r.targets x w }) }) N'
            (by simp only [slFuel]; omega) (by omega)
          simp only [slR, slowResume, hget, h0, if_false, ha, Bool.false_eq_true]
          rw [drain_sl_unfold, this]
          simp [cdSlowInner, hget, h0, ha]
    | none =>
      by_cases h0 : s.windupWe t = 0
      · have := ih graph cache k N (by omega) (by omega)
        simp only [slR, slowResume, hget, h0, if_true] at this ⊢
        simpa [cdSlowInner, hget, h0] using this
      · by_cases ha : (!auto && src = s.windupWe t) = true
        · have := ih graph (dictSet cache t (s.windupWe t)) k N (by omega) (by omega)
          simp only [slR, slowResume, hget, h0, if_false, ha, if_true] at this ⊢
          simpa [cdSlowInner, hget, h0, ha] using this
        · obtain ⟨N', rfl⟩ : ∃ N', N = N' + 1 := ⟨N - 1, by omega⟩
          have := ih (netTouch graph src (fun r => { r with targets := counterAdd r.targets (s.windupWe t) w }))
            (dictSet cache t (s.windupWe t))
            (slFuel s { out := out, auto := auto, started := true, stack := stack, pend := pend,
                        cache := dictSet cache t (s.windupWe t), curSrc := src, curList := more,
                        graph := netTouch graph src (fun r => { r with targets := counterAdd r.targets (s.windupWe t) w }) }) N'
            (by simp only [slFuel]; omega) (by omega)
          simp only [slR, slowResume, hget, h0, if_false, ha, Bool.false_eq_true]
          rw [drain_sl_unfold, this]
          simp [cdSlowInner, hget, h0, ha]

theorem cd_walkGo_length_le : ∀ (fuel i : Nat), (s.walkGo fuel i).length ≤ fuel := by
  intro fuel
  induction fuel with
  | zero => intro i; simp [walkGo]
  | succ f ih =>
    intro i
    unfold walkGo
    cases s.links[i]? with
    | none => simp
    | some st =>
      simp only [List.length_cons]
      split
      · have := ih st.prev; omega
      · simp

theorem cd_countInto_length_le (acc : List (Nat × Nat)) (t : Nat) : (countInto acc t).length ≤ acc.length + 1 := by
  induction acc with
  | nil => simp [countInto]
  | cons p rest ih =>
    obtain ⟨k, n⟩ := p
    unfold countInto
    split <;> simp <;> omega

theorem cd_weighted_length_le (head : Nat) : (s.weighted head).length ≤ s.links.size + 1 := by
  have key : ∀ (l : List Nat) (acc : List (Nat × Nat)), (l.foldl countInto acc).length ≤ acc.length + l.length := by
    intro l
    induction l with
    | nil => intro acc; simp
    | cons x xs ih =>
      intro acc
      have h1 := ih (countInto acc x)
      have h2 := cd_countInto_length_le acc x
      simp only [List.foldl_cons, List.length_cons]
      omega
  have h1 := key (s.walk head) []
  have h2 := cd_walkGo_length_le s (s.links.size + 1) head
  simp only [weighted, walk, List.length_nil] at h1 h2 ⊢
  omega

theorem sl_norm (g N : Nat) (stack : List (Nat × Nat)) (b we cur : Nat) (c : Cell) (cache : List (Nat × Nat)) (src : Nat)
    (graph : List NetRow) :
    slR s (g + 1) N { out := out, auto := auto, started := true, stack := stack, pend := some (b, we, cur, c),
                      cache := cache, curSrc := src, curList := [], graph := graph } =
      slR s (g + 1) N { out := out, auto := auto, started := true, stack := dfsWePush b we cur c stack, pend := none,
                        cache := cache, curSrc := src, curList := [], graph := graph } := rfl

theorem slowResume_pop (g b we : Nat) (rest : List (Nat × Nat)) (cache : List (Nat × Nat)) (src : Nat)
    (graph : List NetRow) :
    slowResume (g + 1) s { out := out, auto := auto, started := true, stack := (b, we) :: rest, pend := none,
                           cache := cache, curSrc := src, curList := [], graph := graph } =
      if ((s.cell b).flags.page && decide ((if out then (s.cell b).out else (s.cell b).inn) ≠ 0) &&
          decide ((if (s.cell b).we ≠ 0 then (s.cell b).we else we) ≠ 0)) = true then
        slowResume g s { out := out, auto := auto, started := true, stack := rest,
                         pend := some (b, we, (if (s.cell b).we ≠ 0 then (s.cell b).we else we), s.cell b),
                         cache := dictSet cache b (if (s.cell b).we ≠ 0 then (s.cell b).we else we),
                         curSrc := (if (s.cell b).we ≠ 0 then (s.cell b).we else we),
                         curList := s.weighted (if out then (s.cell b).out else (s.cell b).inn), graph := graph }
      else
        slowResume g s { out := out, auto := auto, started := true,
                         stack := dfsWePush b we (if (s.cell b).we ≠ 0 then (s.cell b).we else we) (s.cell b) rest,
                         pend := none, cache := cache, curSrc := src, curList := [], graph := graph } := rfl

/-- the walk: from a stack, with no list in progress, the drained machine folds `cdSlowStep` over what `dfsWeGo` lists -/
theorem sl_stack : ∀ (f : Nat) (stk : List (Nat × Nat)), dfsWeFin s f stk → f ≤ s.trie.size + 1 →
    ∀ (graph : List NetRow) (cache : List (Nat × Nat)) (src fuel N : Nat),
      f * (s.links.size + 2) + 1 ≤ fuel → f * (s.links.size + 1) < N →
      slR s fuel N { out := out, auto := auto, started := true, stack := stk, pend := none, cache := cache,
                     curSrc := src, curList := [], graph := graph } =
        .net ((s.dfsWeGo f stk).foldl (cdSlowStep s out auto) (graph, cache)).1 := by
  intro f
  induction f with
  | zero =>
    intro stk hfin _ graph cache src fuel N hf _
    cases stk with
    | nil =>
      obtain ⟨k, rfl⟩ : ∃ k, fuel = k + 1 := ⟨fuel - 1, by omega⟩
      simp [slR, slowResume, dfsWeGo]
    | cons p rest => exact absurd hfin (by simp [dfsWeFin])
  | succ f ih =>
    intro stk hfin hsz graph cache src fuel N hf hN
    obtain ⟨k, rfl⟩ : ∃ k, fuel = k + 1 := ⟨fuel - 1, by omega⟩
    cases stk with
    | nil => simp [slR, slowResume, dfsWeGo]
    | cons p rest =>
      obtain ⟨b, we⟩ := p
      simp only [dfsWeFin] at hfin
      rw [dfsWeGo_step, List.foldl_cons]
      have hmul : (f + 1) * (s.links.size + 2) = f * (s.links.size + 2) + (s.links.size + 2) := Nat.succ_mul _ _
      have hmul2 : (f + 1) * (s.links.size + 1) = f * (s.links.size + 1) + (s.links.size + 1) := Nat.succ_mul _ _
      have ih' := ih _ hfin (by omega)
      generalize hcur : (if (s.cell b).we ≠ 0 then (s.cell b).we else we) = cur at hfin ih' ⊢
      generalize hhead : (if out then (s.cell b).out else (s.cell b).inn) = head
      by_cases hcond : ((s.cell b).flags.page && decide (head ≠ 0) && decide (cur ≠ 0)) = true
      · have hstep : cdSlowStep s out auto (graph, cache) (b, cur) =
            (s.weighted head).foldl (cdSlowInner s auto cur) (graph, dictSet cache b cur) := by
          simp only [Bool.and_eq_true, decide_eq_true_eq] at hcond
          simp [cdSlowStep, hhead, hcond.1.1, hcond.1.2, hcond.2]
        rw [hstep]
        have hlen := cd_weighted_length_le s head
        have hB : f * (s.links.size + 2) + 1 ≤ (s.trie.size + 2) * (s.links.size + 3) := by
          have h1 : f * (s.links.size + 2) ≤ (s.trie.size + 1) * (s.links.size + 2) := Nat.mul_le_mul_right _ (by omega)
          have h2 : (s.trie.size + 1) * (s.links.size + 2) + 1 ≤ (s.trie.size + 2) * (s.links.size + 3) := by
            have : (s.trie.size + 1) * (s.links.size + 2) ≤ (s.trie.size + 2) * (s.links.size + 2) :=
              Nat.mul_le_mul_right _ (by omega)
            have h3 : (s.trie.size + 2) * (s.links.size + 3) = (s.trie.size + 2) * (s.links.size + 2) + (s.trie.size + 2) := by
              rw [Nat.mul_succ]
            omega
          omega
        have := sl_list s out auto (fun acc => Ans.net ((s.dfsWeGo f (dfsWePush b we cur (s.cell b) rest)).foldl
            (cdSlowStep s out auto) acc).1) (f * (s.links.size + 2)) (f * (s.links.size + 1)) hB rest
            (some (b, we, cur, s.cell b)) cur
            (fun graph cache fuel N hf hN => by
              obtain ⟨g, rfl⟩ : ∃ g, fuel = g + 1 := ⟨fuel - 1, by omega⟩
              rw [sl_norm]
              exact ih' graph cache cur (g + 1) N hf hN)
            (s.weighted head) graph (dictSet cache b cur) k N (by omega) (by omega)
        rw [← this]
        simp only [slR, slowResume_pop, hcur, hhead, hcond, if_true]
      · have hstep : cdSlowStep s out auto (graph, cache) (b, cur) = (graph, cache) := by
          simp only [Bool.and_eq_true, decide_eq_true_eq, not_and, Decidable.not_not] at hcond
          simp only [cdSlowStep, hhead]
          by_cases hp : (s.cell b).flags.page = true
          · by_cases hh : head = 0
            · simp [hp, hh]
            · simp [hp, hh, hcond ⟨hp, hh⟩]
          · simp [hp]
        rw [hstep, ← ih' graph cache src k N (by omega) (by omega)]
        simp only [slR, slowResume_pop, hcur, hhead, hcond, Bool.false_eq_true, if_false]

theorem sl_start (g N : Nat) :
    slR s (g + 1) N { out := out, auto := auto } =
      slR s (g + 1) N { out := out, auto := auto, started := true,
                        stack := if s.trie.size ≤ 1 then [] else [(1, 0)] } := rfl

/-- **`get_webentities_links_slow_iter` drained = `get_webentities_links_slow`** on every index whose walk ends within
    the atomic fuel -/
theorem netSlow_drain (hfin : s.trie.size ≤ 1 ∨ dfsWeFin s (s.trie.size + 1) [(1, 0)]) (N : Nat)
    (hN : (s.trie.size + 1) * (s.links.size + 1) + 1 < N) :
    QSt.drain s N (.netSlow { out := out, auto := auto }) = s.ask (.network out auto true) := by
  obtain ⟨N', rfl⟩ : ∃ N', N = N' + 1 := ⟨N - 1, by omega⟩
  rw [drain_sl_unfold]
  have hfuel : (s.trie.size + 1) * (s.links.size + 2) + 1 ≤ slFuel s { out := out, auto := auto } := by
    simp only [slFuel, List.length_nil]
    have : (s.trie.size + 1) * (s.links.size + 2) ≤ (s.trie.size + 2) * (s.links.size + 2) :=
      Nat.mul_le_mul_right _ (by omega)
    have h3 : (s.trie.size + 2) * (s.links.size + 3) = (s.trie.size + 2) * (s.links.size + 2) + (s.trie.size + 2) := by
      rw [Nat.mul_succ]
    omega
  obtain ⟨g, hg⟩ : ∃ g, slFuel s { out := out, auto := auto } = g + 1 :=
    ⟨slFuel s { out := out, auto := auto } - 1, by omega⟩
  rw [hg, sl_start]
  simp only [State.ask, if_true, cd_networkSlow_eq, dfsWe]
  by_cases hsz : s.trie.size ≤ 1
  · simp only [hsz, if_true]
    have := sl_stack s out auto 0 [] trivial (by omega) [] [] 0 (g + 1) N' (by simp) (by simp only [Nat.zero_mul]; omega)
    simpa [dfsWeGo] using this
  · simp only [hsz, if_false]
    rcases hfin with h | h
    · exact absurd h hsz
    · exact sl_stack s out auto (s.trie.size + 1) [(1, 0)] h (Nat.le_refl _) [] [] 0 (g + 1) N' (by omega) (by omega)

end SL

/-! ### under `Shape` -/

theorem dfsWeFin_of_stackRep {s : State} :
    ∀ (fuel : Nat) (ts : List (T × Nat)), StackRep s ts → stackSize ts < fuel →
      dfsWeFin s fuel (ts.map (fun p => (p.1.root, p.2))) := by
  intro fuel
  induction fuel with
  | zero => intro ts _ hf; omega
  | succ f ih =>
    intro ts hs hf
    cases ts with
    | nil => simp [dfsWeFin]
    | cons p ts =>
      obtain ⟨t, we⟩ := p
      obtain ⟨hr, hn⟩ := hs (t, we) (by simp)
      cases t with
      | nil => exact absurd rfl hn
      | node a l c r =>
        obtain ⟨h1, h2, h3⟩ := hr.cell_eq
        obtain ⟨ha, _, rl, rc, rr⟩ := hr
        have hts : StackRep s ts := hs.tail
        simp only [stackSize_cons, T.size] at hf
        simp only [List.map_cons, T.root_node, dfsWeFin, dfsWePush, h1, h2, h3]
        rw [pushIf_roots r we ts rr, pushIf_roots l we _ rl, pushIf_roots c _ _ rc]
        exact ih _ (((hts.pushIf rr).pushIf rl).pushIf rc) (by rw [pushIf_size, pushIf_size, pushIf_size]; omega)

/-- **slow network query, unconditionally on a well-formed index** -/
theorem netSlow_drain_shape {s : State} {t : T} (h : Shape s t) (out auto : Bool) (N : Nat)
    (hN : (s.trie.size + 1) * (s.links.size + 1) + 1 < N) :
    QSt.drain s N (.netSlow { out := out, auto := auto }) = s.ask (.network out auto true) := by
  refine netSlow_drain s out auto ?_ N hN
  have hroot := h.root
  by_cases hsz : s.trie.size ≤ 1
  · exact Or.inl hsz
  · right
    rw [if_neg hsz] at hroot
    cases t with
    | nil => simp at hroot
    | node a l c r =>
      simp only [T.root_node] at hroot
      subst hroot
      have hle := h.size_le
      have := dfsWeFin_of_stackRep (s := s) (s.trie.size + 1) [(T.node 1 l c r, 0)]
        (by intro p hp; simp only [List.mem_singleton] at hp; subst hp; exact ⟨h.rep, by simp⟩)
        (by simp only [stackSize_cons, stackSize_nil]; omega)
      simpa using this

#print axioms netSlow_drain_shape

end Traph

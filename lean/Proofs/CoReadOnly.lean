import Proofs.CoMachines
import Proofs.CoSys
/-! C16 — the nine query generators (`get_webentity_pages_iter`, `get_webentities_links_iter` and the seven
    machines of `QSt`) never write: a section of any of them, in ANY private state, returns the index it was
    given; a reader stays a reader; hence a schedule that advances only readers leaves the index as it was,
    and in a mixed schedule the index changes in the sections of the writers only. -/
namespace Traph
open State

/-- the generators that only read: everything but a crawl batch and a rule installation -/
def CoSt.isReader : CoSt → Prop
  | .batch _ => False
  | .rule _ => False
  | _ => True

instance : DecidablePred CoSt.isReader := fun c => by
  cases c <;> simp only [CoSt.isReader] <;> infer_instance

/-- a section of a reader returns the index unchanged (by computation: the resume functions of the readers
    do not even return an index) -/
theorem resume_reader_state (s : State) (c : CoSt) (h : c.isReader) : (c.resume s).1 = s := by
  cases c with
  | batch b => exact absurd h id
  | rule r => exact absurd h id
  | pages p => rfl
  | net n => rfl
  | query q => rfl
  | finished => rfl

/-- a reader stays a reader -/
theorem resume_reader_reader (s : State) (c : CoSt) (h : c.isReader) : (c.resume s).2.1.isReader := by
  by_cases ho : (c.resume s).2.2 = .yielded
  · cases c with
    | batch b => exact absurd h id
    | rule r => exact absurd h id
    | pages p => rw [resume_pages_out] at ho; rw [resume_pages_yielded s p ho]; trivial
    | net n => rw [resume_net_out] at ho; rw [resume_net_yielded s n ho]; trivial
    | query q => rw [resume_query_out] at ho; rw [resume_query_yielded s q ho]; trivial
    | finished => trivial
  · rw [resume_not_yielded s c ho]; trivial

/-- the seven machines keep their kind while they yield -/
theorem QSt.resume_kind (s : State) (q : QSt) :
    match q, (q.resume s).1 with
    | .crawled _, .crawled _ => True
    | .mostLinked _, .mostLinked _ => True
    | .children _, .children _ => True
    | .pagelinks _, .pagelinks _ => True
    | .cited _, .cited _ => True
    | .netSlow _, .netSlow _ => True
    | _, _ => False := by
  cases q <;> simp only [QSt.resume] <;> trivial

/-- **a schedule of readers does not touch the index** (whatever their private states) -/
theorem readers_schedule (sched : Sched) (σ : Sys) (h : ∀ c ∈ σ.2, c.isReader) :
    (σ.run sched).1.1 = σ.1 ∧ ∀ c ∈ (σ.run sched).1.2, c.isReader := by
  have key := Sys.run_invariant (fun τ => τ.1 = σ.1 ∧ ∀ c ∈ τ.2, c.isReader) (fun τ i c hp hc => by
    have hr : c.isReader := hp.2 c (List.mem_of_getElem? hc)
    refine ⟨by rw [resume_reader_state τ.1 c hr]; exact hp.1, fun c' hc' => ?_⟩
    rcases List.mem_or_eq_of_mem_set hc' with h1 | h1
    · exact hp.2 c' h1
    · rw [h1]; exact resume_reader_reader τ.1 c hr) sched σ ⟨rfl, h⟩
  exact key

/-- in a mixed system, a turn given to a reader leaves the index alone: the index after a schedule is the index
    after the schedule with that turn removed — stated for the head of a schedule -/
theorem reader_turn (σ : Sys) (i : Nat) (c : CoSt) (hc : σ.2[i]? = some c) (h : c.isReader) :
    (σ.step i).1.1 = σ.1 := by
  rw [Sys.step_some hc]
  exact resume_reader_state σ.1 c h

#print axioms resume_reader_state
#print axioms resume_reader_reader
#print axioms readers_schedule
#print axioms reader_turn

end Traph

import Proofs.CoSections
/-! C16 — the page query `get_webentity_pages_iter` as a generator interleaved with writers.

    Part 1 (soundness of what is true; the clause "no item that qualified at no moment" is false, finding
    F16): the local invariant `PagesOk` — the traversal stack holds blocks of the tree, the stale copy of
    the block visited last is below the block's current contents, and **every item already collected is a
    page of the current index** (crawled if it says so). It is stable under the sections of all other
    generators and re-established by every section of the query; hence every item of the final answer was a
    page when it was visited and is a page ever after.

    Part 2 (completeness): a page that is reachable from the prefix node through tree pointers present when
    the query starts its prefix, is a page from then on, and none of whose ancestors below the prefix (nor
    itself) carries a webentity at any moment of the query, is in the answer (`Cover`). -/
namespace Traph
open State Layout

/-! ### stacks of `(block, lru of the parent, level)` -/

def WStackOk (s : State) (t : T) (stack : List (Nat × Bytes × Nat)) : Prop :=
  ∀ b lru lvl, (b, lru, lvl) ∈ stack → ∃ p, (p, b) ∈ t.entries s [] ∧ lru = p.dropLast.flatten

theorem WStackOk.mono {s s' : State} {t t' : T} {stack : List (Nat × Bytes × Nat)} (x : Ext s t s' t')
    (h : WStackOk s t stack) : WStackOk s' t' stack := fun b lru lvl hm => by
  obtain ⟨p, h1, h2⟩ := h b lru lvl hm
  exact ⟨p, x.keep _ _ h1, h2⟩

theorem mem_weDfsPush {start b : Nat} {lru cur : Bytes} {level : Nat} {c : Cell}
    {stack : List (Nat × Bytes × Nat)} {x : Nat × Bytes × Nat}
    (h : x ∈ weDfsPush start b lru cur level c stack) :
    x ∈ stack ∨ (x = (c.right, lru, level) ∧ c.right ≠ 0 ∧ b ≠ start) ∨
      (x = (c.left, lru, level) ∧ c.left ≠ 0 ∧ b ≠ start) ∨
      (x = (c.child, cur, level + 1) ∧ c.child ≠ 0 ∧ (b = start ∨ c.we = 0)) := by
  unfold weDfsPush at h
  rcases mem_ite_cons h with h | ⟨h, hP⟩
  · split at h
    · rename_i hb
      rcases mem_ite_cons h with h | ⟨h, hP⟩
      · rcases mem_ite_cons h with h | ⟨h, hP⟩
        · exact Or.inl h
        · exact Or.inr (Or.inl ⟨h, hP, hb⟩)
      · exact Or.inr (Or.inr (Or.inl ⟨h, hP, hb⟩))
    · exact Or.inl h
  · refine Or.inr (Or.inr (Or.inr ⟨h, ?_, ?_⟩))
    · simp only [Bool.and_eq_true, decide_eq_true_eq] at hP; exact hP.2
    · simp only [Bool.and_eq_true, Bool.or_eq_true, decide_eq_true_eq] at hP; exact hP.1

/-- the converse: what the push puts on the stack -/
theorem weDfsPush_mem {start b : Nat} {lru cur : Bytes} {level : Nat} {c : Cell}
    {stack : List (Nat × Bytes × Nat)} :
    (∀ x ∈ stack, x ∈ weDfsPush start b lru cur level c stack) ∧
    (c.right ≠ 0 → b ≠ start → (c.right, lru, level) ∈ weDfsPush start b lru cur level c stack) ∧
    (c.left ≠ 0 → b ≠ start → (c.left, lru, level) ∈ weDfsPush start b lru cur level c stack) ∧
    (c.child ≠ 0 → (b = start ∨ c.we = 0) → (c.child, cur, level + 1) ∈ weDfsPush start b lru cur level c stack) := by
  unfold weDfsPush
  have key : ∀ x, x ∈ (if b ≠ start then
      (if c.left ≠ 0 then (c.left, lru, level) :: (if c.right ≠ 0 then (c.right, lru, level) :: stack else stack)
       else (if c.right ≠ 0 then (c.right, lru, level) :: stack else stack)) else stack) →
      x ∈ (if ((decide (b = start) || decide (c.we = 0)) && decide (c.child ≠ 0)) = true then
        (c.child, cur, level + 1) :: (if b ≠ start then
          (if c.left ≠ 0 then (c.left, lru, level) :: (if c.right ≠ 0 then (c.right, lru, level) :: stack else stack)
           else (if c.right ≠ 0 then (c.right, lru, level) :: stack else stack)) else stack)
        else (if b ≠ start then
          (if c.left ≠ 0 then (c.left, lru, level) :: (if c.right ≠ 0 then (c.right, lru, level) :: stack else stack)
           else (if c.right ≠ 0 then (c.right, lru, level) :: stack else stack)) else stack)) := by
    intro x hx
    split
    · exact List.mem_cons_of_mem _ hx
    · exact hx
  refine ⟨fun x hx => key x ?_, fun hr hb => key _ ?_, fun hl hb => key _ ?_, fun hc hrel => ?_⟩
  · split
    · split
      · split
        · exact List.mem_cons_of_mem _ (List.mem_cons_of_mem _ hx)
        · exact List.mem_cons_of_mem _ hx
      · split
        · exact List.mem_cons_of_mem _ hx
        · exact hx
    · exact hx
  · rw [if_pos hb, if_pos hr]
    split
    · exact List.mem_cons_of_mem _ List.mem_cons_self
    · exact List.mem_cons_self
  · rw [if_pos hb, if_pos hl]
    exact List.mem_cons_self
  · have : ((decide (b = start) || decide (c.we = 0)) && decide (c.child ≠ 0)) = true := by
      simp only [Bool.and_eq_true, Bool.or_eq_true, decide_eq_true_eq]
      exact ⟨hrel, hc⟩
    simp only [this, if_true]
    exact List.mem_cons_self

theorem wstackOk_push_stale {s : State} {t : T} (h : Shape s t) {start b : Nat} {lru cur : Bytes} {lvl : Nat}
    {c : Cell} {stack : List (Nat × Bytes × Nat)} (hs : WStackOk s t stack) (cl : CellLe c (s.cell b))
    {p : LRU} (hp : (p, b) ∈ t.entries s []) (e1 : lru = p.dropLast.flatten) (e2 : cur = p.flatten) :
    WStackOk s t (weDfsPush start b lru cur lvl c stack) := by
  intro b' lru' lvl' hm
  obtain ⟨q, e, f1, f2, f3⟩ := entries_last_and_ptrs t [] p b h.rep hp
  have hq : p.dropLast = q := by rw [e, List.dropLast_concat]
  rcases mem_weDfsPush hm with hm | ⟨hm, hne, _⟩ | ⟨hm, hne, _⟩ | ⟨hm, hne, _⟩
  · exact hs b' lru' lvl' hm
  · obtain ⟨rfl, rfl, rfl⟩ := Prod.mk.inj hm |>.imp id Prod.mk.inj
    have e' := cl.right hne
    have hent := f2 (by rw [e']; exact hne)
    rw [e'] at hent
    exact ⟨_, hent, by rw [List.dropLast_concat, e1, hq]⟩
  · obtain ⟨rfl, rfl, rfl⟩ := Prod.mk.inj hm |>.imp id Prod.mk.inj
    have e' := cl.left hne
    have hent := f1 (by rw [e']; exact hne)
    rw [e'] at hent
    exact ⟨_, hent, by rw [List.dropLast_concat, e1, hq]⟩
  · obtain ⟨rfl, rfl, rfl⟩ := Prod.mk.inj hm |>.imp id Prod.mk.inj
    have e' := cl.child hne
    have hent := f3 (by rw [e']; exact hne)
    rw [e'] at hent
    exact ⟨_, hent, by rw [List.dropLast_concat, e2]⟩

/-! ### pages persist -/

theorem IsPage.co_mono {s s' : State} {t t' : T} (h : Shape s t) (x : Ext s t s' t') (le : s ⊑ s') {p : LRU}
    (hp : IsPage s t p) : IsPage s' t' p := by
  obtain ⟨b, hm, hf⟩ := hp
  exact ⟨b, x.keep _ _ hm, (le.cell_le b (entry_lt h hm)).page hf⟩

theorem IsCrawled.co_mono {s s' : State} {t t' : T} (h : Shape s t) (x : Ext s t s' t') (le : s ⊑ s') {p : LRU}
    (hp : IsCrawled s t p) : IsCrawled s' t' p := by
  obtain ⟨b, hm, hf, hc⟩ := hp
  exact ⟨b, x.keep _ _ hm, (le.cell_le b (entry_lt h hm)).page hf, (le.cell_le b (entry_lt h hm)).crawled hc⟩

/-- an answer item: the byte string is a page, crawled if the item says so -/
def ItemOk (s : State) (t : T) (x : Bytes × Bool) : Prop :=
  IsPage s t (lruIter x.1) ∧ (x.2 = true → IsCrawled s t (lruIter x.1))

theorem ItemOk.mono {s s' : State} {t t' : T} (h : Shape s t) (x : Ext s t s' t') (le : s ⊑ s')
    {i : Bytes × Bool} (hi : ItemOk s t i) : ItemOk s' t' i :=
  ⟨hi.1.co_mono h x le, fun hc => (hi.2 hc).co_mono h x le⟩

/-! ### the local invariant of the page query -/

/-- the stack the next section starts from: the stale copy of the block visited last is expanded first -/
def PagesSt.pending (p : PagesSt) : List (Nat × Bytes × Nat) :=
  match p.pend with
  | some (b, lru, cur, level, c) => weDfsPush p.start b lru cur level c p.stack
  | none => p.stack

def PagesSt.norm (p : PagesSt) : PagesSt := { p with stack := p.pending, pend := none }

theorem pagesResume_norm (fuel : Nat) (s : State) (p : PagesSt) :
    pagesResume (fuel + 1) s p = pagesResume (fuel + 1) s p.norm := by
  rw [pagesResume, pagesResume]
  rfl

structure PagesOk (s : State) (t : T) (p : PagesSt) : Prop where
  wf    : ∀ pf ∈ p.prefixes, lruIter pf ≠ []
  stack : WStackOk s t p.stack
  pend  : ∀ b lru cur lvl c, p.pend = some (b, lru, cur, lvl, c) →
            CellLe c (s.cell b) ∧ ∃ q, (q, b) ∈ t.entries s [] ∧ lru = q.dropLast.flatten ∧ cur = q.flatten
  pages : ∀ x ∈ p.pages, ItemOk s t x

theorem PagesOk.mono {s s' : State} {t t' : T} {p : PagesSt}
    (h : Shape s t) (x : Ext s t s' t') (le : s ⊑ s') (hp : PagesOk s t p) : PagesOk s' t' p where
  wf := hp.wf
  stack := hp.stack.mono x
  pend := fun b lru cur lvl c e => by
    obtain ⟨cl, q, hm, e1, e2⟩ := hp.pend b lru cur lvl c e
    exact ⟨cl.trans (le.cell_le b (entry_lt h hm)), q, x.keep _ _ hm, e1, e2⟩
  pages := fun i hi => (hp.pages i hi).mono h x le

theorem PagesOk.norm {s : State} {t : T} {p : PagesSt} (h : Shape s t) (hp : PagesOk s t p) :
    PagesOk s t p.norm where
  wf := hp.wf
  stack := by
    show WStackOk s t p.pending
    unfold PagesSt.pending
    split
    · rename_i b lru cur lvl c e
      obtain ⟨cl, q, hm, e1, e2⟩ := hp.pend b lru cur lvl c e
      exact wstackOk_push_stale h hp.stack cl hm e1 e2
    · exact hp.stack
  pend := fun b lru cur lvl c e => by simp [PagesSt.norm] at e
  pages := hp.pages

theorem PagesOk.init (s : State) (t : T) (prefixes : List Bytes) (hwf : ∀ pf ∈ prefixes, lruIter pf ≠ []) :
    PagesOk s t { prefixes := prefixes } :=
  ⟨hwf, fun _ _ _ hm => by simp at hm, fun _ _ _ _ _ e => by simp at e, fun _ hm => by simp at hm⟩

/-- the items of an answer -/
def AnswerOk (s : State) (t : T) (a : Ans) : Prop := ∃ l, a = .pages l ∧ ∀ x ∈ l, ItemOk s t x

theorem AnswerOk.mono {s s' : State} {t t' : T} (h : Shape s t) (x : Ext s t s' t') (le : s ⊑ s') {a : Ans}
    (ha : AnswerOk s t a) : AnswerOk s' t' a := by
  obtain ⟨l, e, hl⟩ := ha
  exact ⟨l, e, fun i hi => (hl i hi).mono h x le⟩

theorem pagesResume_ok_aux : ∀ (fuel : Nat) (s : State) (t : T) (prefixes : List Bytes) (start : Nat)
    (stack : List (Nat × Bytes × Nat)) (pages : List (Bytes × Bool)), Shape s t → Inv s t →
    PagesOk s t ⟨prefixes, start, stack, none, pages⟩ →
    ((pagesResume fuel s ⟨prefixes, start, stack, none, pages⟩).2 = .yielded →
      PagesOk s t (pagesResume fuel s ⟨prefixes, start, stack, none, pages⟩).1) ∧
    (∀ a, (pagesResume fuel s ⟨prefixes, start, stack, none, pages⟩).2 = .done a → AnswerOk s t a) ∧
    (∀ e, (pagesResume fuel s ⟨prefixes, start, stack, none, pages⟩).2 = .failed e →
      e = .traph ∨ e = .other "fuel")
  | 0, s, t, prefixes, start, stack, pages, _, _, _ => by
    refine ⟨fun ho => by simp [pagesResume] at ho, fun a ho => by simp [pagesResume] at ho, fun e he => ?_⟩
    simp only [pagesResume, CoOut.failed.injEq] at he
    exact Or.inr he.symm
  | fuel + 1, s, t, prefixes, start, stack, pages, h, hi, hp => by
    rw [pagesResume]
    simp only
    cases stack with
    | nil =>
      simp only
      cases prefixes with
      | nil =>
        simp only
        refine ⟨fun ho => by simp at ho, fun a ho => ?_, fun e he => by simp at he⟩
        simp only [CoOut.done.injEq] at ho
        exact ⟨pages, ho.symm, hp.pages⟩
      | cons pf more =>
        simp only
        cases hn : s.lruNode (lruIter pf) with
        | none =>
          simp only
          refine ⟨fun ho => by simp at ho, fun a ho => by simp at ho, fun e he => ?_⟩
          simp only [CoOut.failed.injEq] at he
          exact Or.inl he.symm
        | some n =>
          simp only
          refine pagesResume_ok_aux fuel s t more n [(n, lruDirname pf, 0)] pages h hi
            ⟨fun x hx => hp.wf x (List.mem_cons_of_mem _ hx), ?_, fun _ _ _ _ _ e => by simp at e, hp.pages⟩
          intro b lru lvl hm
          simp only [List.mem_singleton, Prod.mk.injEq] at hm
          obtain ⟨rfl, rfl, _⟩ := hm
          have hne := hp.wf pf (by simp)
          exact ⟨lruIter pf, (lruNode_iff_entries h _ hne b).mp hn, rfl⟩
    | cons top rest =>
      obtain ⟨b, lru, lvl⟩ := top
      simp only
      obtain ⟨q, hm, e1⟩ := hp.stack b lru lvl (by simp)
      obtain ⟨q0, e, _⟩ := entries_last_and_ptrs t [] q b h.rep hm
      have hcur : lru ++ s.stemAt b = q.flatten := by
        rw [e1, e, List.dropLast_concat]; simp
      have hrest : WStackOk s t rest := fun b' lru' lvl' hm' => hp.stack b' lru' lvl' (List.mem_cons_of_mem _ hm')
      split
      · rename_i hc
        simp only [Bool.and_eq_true] at hc
        refine ⟨fun _ => ⟨hp.wf, hrest, ?_, ?_⟩, fun a ho => by simp at ho, fun e he => by simp at he⟩
        · intro b' lru' cur' lvl' c' e'
          simp only [Option.some.injEq, Prod.mk.injEq] at e'
          obtain ⟨rfl, rfl, rfl, rfl, rfl⟩ := e'
          exact ⟨CellLe.refl _, q, hm, e1, hcur⟩
        · intro x hx
          rcases List.mem_append.mp hx with hx | hx
          · exact hp.pages x hx
          · simp only [List.mem_singleton] at hx
            subst hx
            have hq : lruIter (lru ++ s.stemAt b) = q := by
              rw [hcur]; exact lruIter_flatten q (hi.wf q b hm)
            refine ⟨?_, fun hcr => ?_⟩
            · show IsPage s t (lruIter (lru ++ s.stemAt b))
              rw [hq]; exact ⟨b, hm, hc.2⟩
            · show IsCrawled s t (lruIter (lru ++ s.stemAt b))
              rw [hq]; exact ⟨b, hm, hc.2, hcr⟩
      · refine pagesResume_ok_aux fuel s t prefixes start _ pages h hi
          ⟨hp.wf, ?_, fun _ _ _ _ _ e => by simp at e, hp.pages⟩
        exact wstackOk_push_stale h hrest (CellLe.refl _) hm e1 hcur

/-- **one section of the page query**: the local invariant is re-established (in particular every item
    collected so far is a page of the index); an answer only lists pages; the only failures are the
    `TraphException` of a prefix that is not in the trie, and running out of the section's fuel -/
theorem pagesResume_ok (fuel : Nat) (s : State) (t : T) (p : PagesSt) (h : Shape s t) (hi : Inv s t)
    (hp : PagesOk s t p) :
    ((pagesResume fuel s p).2 = .yielded → PagesOk s t (pagesResume fuel s p).1) ∧
    (∀ a, (pagesResume fuel s p).2 = .done a → AnswerOk s t a) ∧
    (∀ e, (pagesResume fuel s p).2 = .failed e → e = .traph ∨ e = .other "fuel") := by
  cases fuel with
  | zero =>
    refine ⟨fun ho => by simp [pagesResume] at ho, fun a ho => by simp [pagesResume] at ho, fun e he => ?_⟩
    simp only [pagesResume, CoOut.failed.injEq] at he
    exact Or.inr he.symm
  | succ fuel =>
    rw [pagesResume_norm]
    exact pagesResume_ok_aux (fuel + 1) s t p.prefixes p.start p.pending p.pages h hi (hp.norm h)

/-! ## Part 2: completeness -/

/-- a path of tree pointers from block `b'` (whose parent has flattened LRU `lru'`) to block `b` (whose own
    flattened LRU is `cur`), never leaving block `start` sideways; `anc` lists the blocks at which the path
    descends to a child: the proper ancestors of `b` on the way -/
inductive HPath (s : State) (start : Nat) : Nat → Bytes → Nat → Bytes → List Nat → Prop
  | here (b : Nat) (lru : Bytes) : HPath s start b lru b (lru ++ s.stemAt b) []
  | left {b' : Nat} {lru' : Bytes} {b : Nat} {cur : Bytes} {anc : List Nat} :
      b' ≠ start → (s.cell b').left ≠ 0 → HPath s start (s.cell b').left lru' b cur anc →
      HPath s start b' lru' b cur anc
  | right {b' : Nat} {lru' : Bytes} {b : Nat} {cur : Bytes} {anc : List Nat} :
      b' ≠ start → (s.cell b').right ≠ 0 → HPath s start (s.cell b').right lru' b cur anc →
      HPath s start b' lru' b cur anc
  | child {b' : Nat} {lru' : Bytes} {b : Nat} {cur : Bytes} {anc : List Nat} :
      (s.cell b').child ≠ 0 → HPath s start (s.cell b').child (lru' ++ s.stemAt b') b cur anc →
      HPath s start b' lru' b cur (b' :: anc)

/-- the stem of a block of the tree never changes -/
theorem co_stemAt_of_ext {s s' : State} {t t' : T} (h : Shape s t) (x : Ext s t s' t') {p : LRU} {b : Nat}
    (hm : (p, b) ∈ t.entries s []) : s'.stemAt b = s.stemAt b := by
  obtain ⟨q, e, _⟩ := entries_last_and_ptrs t [] p b h.rep hm
  obtain ⟨q', e', _⟩ := entries_last_and_ptrs t' [] p b x.shape.rep (x.keep _ _ hm)
  have := e.symm.trans e'
  have h2 := congrArg List.getLast? this
  simpa using h2.symm

/-- paths persist: pointers, once set, never change, and stems never change -/
theorem HPath.mono {s s' : State} {t t' : T} (h : Shape s t) (x : Ext s t s' t') (le : s ⊑ s') {start : Nat}
    {b' : Nat} {lru' : Bytes} {b : Nat} {cur : Bytes} {anc : List Nat} (hp : HPath s start b' lru' b cur anc) :
    (∃ p, (p, b') ∈ t.entries s [] ∧ lru' = p.dropLast.flatten) → HPath s' start b' lru' b cur anc := by
  induction hp with
  | here b lru =>
    rintro ⟨p, hm, _⟩
    rw [← co_stemAt_of_ext h x hm]
    exact HPath.here b lru
  | @left b' lru' b cur anc hne hl _ ih =>
    rintro ⟨p, hm, e1⟩
    obtain ⟨q, e, f1, _, _⟩ := entries_last_and_ptrs t [] p b' h.rep hm
    have hq : p.dropLast = q := by rw [e, List.dropLast_concat]
    have hptr := (le.cell_le b' (entry_lt h hm)).left hl
    have ih' := ih ⟨_, f1 hl, by rw [List.dropLast_concat, e1, hq]⟩
    rw [← hptr] at ih'
    exact HPath.left hne (by rw [hptr]; exact hl) ih'
  | @right b' lru' b cur anc hne hl _ ih =>
    rintro ⟨p, hm, e1⟩
    obtain ⟨q, e, _, f2, _⟩ := entries_last_and_ptrs t [] p b' h.rep hm
    have hq : p.dropLast = q := by rw [e, List.dropLast_concat]
    have hptr := (le.cell_le b' (entry_lt h hm)).right hl
    have ih' := ih ⟨_, f2 hl, by rw [List.dropLast_concat, e1, hq]⟩
    rw [← hptr] at ih'
    exact HPath.right hne (by rw [hptr]; exact hl) ih'
  | @child b' lru' b cur anc hl _ ih =>
    rintro ⟨p, hm, e1⟩
    obtain ⟨q, e, _, _, f3⟩ := entries_last_and_ptrs t [] p b' h.rep hm
    have hq : p.dropLast = q := by rw [e, List.dropLast_concat]
    have hptr := (le.cell_le b' (entry_lt h hm)).child hl
    have hcur : lru' ++ s.stemAt b' = p.flatten := by rw [e1, hq, e]; simp
    have ih' := ih ⟨_, f3 hl, by rw [List.dropLast_concat, hcur]⟩
    rw [← hptr, ← co_stemAt_of_ext h x hm] at ih'
    exact HPath.child (by rw [hptr]; exact hl) ih'

/-- what the completeness claim is about: a block `b` with flattened LRU `cur`, reached from the prefix node
    `root` through the ancestors `anc` -/
structure QTarget where
  root : Nat
  b    : Nat
  cur  : Bytes
  anc  : List Nat

/-- the target "qualifies" in state `s`: it is a page, and neither it nor any of its ancestors below the
    prefix node carries a webentity -/
def QClear (s : State) (g : QTarget) : Prop :=
  (∀ n ∈ g.anc, n = g.root ∨ (s.cell n).we = 0) ∧ (g.b = g.root ∨ (s.cell g.b).we = 0) ∧
    (s.cell g.b).flags.page = true

/-- the query has listed the target, or will still come across it: through an entry of its stack, or when
    it starts a prefix it has not started yet -/
def QCovers (s : State) (p : PagesSt) (g : QTarget) : Prop :=
  (∃ cr, (g.cur, cr) ∈ p.pages) ∨
  (p.start = g.root ∧ ∃ x ∈ p.pending, ∃ anc', (∀ a ∈ anc', a ∈ g.anc) ∧ HPath s g.root x.1 x.2.1 g.b g.cur anc') ∨
  (∃ pf ∈ p.prefixes, s.lruNode (lruIter pf) = some g.root ∧
    ∃ anc', (∀ a ∈ anc', a ∈ g.anc) ∧ HPath s g.root g.root (lruDirname pf) g.b g.cur anc')

/-- stability under the sections of the other generators -/
theorem QCovers.mono {s s' : State} {t t' : T} {p : PagesSt} {g : QTarget} (h : Shape s t) (hp : PagesOk s t p)
    (x : Ext s t s' t') (le : s ⊑ s') (hc : QCovers s p g) : QCovers s' p g := by
  rcases hc with hc | ⟨hs, y, hy, anc', ha, hpath⟩ | ⟨pf, hpf, hn, anc', ha, hpath⟩
  · exact Or.inl hc
  · refine Or.inr (Or.inl ⟨hs, y, hy, anc', ha, hpath.mono h x le ?_⟩)
    obtain ⟨b', lru', lvl'⟩ := y
    exact (hp.norm h).stack b' lru' lvl' hy
  · have hne := hp.wf pf hpf
    have hent := (lruNode_iff_entries h _ hne g.root).mp hn
    refine Or.inr (Or.inr ⟨pf, hpf, (lruNode_iff_entries x.shape _ hne g.root).mpr (x.keep _ _ hent), anc', ha,
      hpath.mono h x le ⟨lruIter pf, hent, rfl⟩⟩)

theorem pending_of_pend_none (prefixes : List Bytes) (start : Nat) (stack : List (Nat × Bytes × Nat))
    (pages : List (Bytes × Bool)) : (PagesSt.mk prefixes start stack none pages).pending = stack := rfl

theorem QCovers.norm {s : State} {p : PagesSt} {g : QTarget} (hc : QCovers s p g) : QCovers s p.norm g := by
  rcases hc with hc | ⟨hs, y, hy, rest⟩ | hc
  · exact Or.inl hc
  · exact Or.inr (Or.inl ⟨hs, y, hy, rest⟩)
  · exact Or.inr (Or.inr hc)

/-- **one section of the page query, completeness side**: a target that qualifies now and is covered stays
    covered when the section yields, and is in the answer when the section returns -/
theorem pagesResume_cover_aux : ∀ (fuel : Nat) (s : State) (prefixes : List Bytes) (start : Nat)
    (stack : List (Nat × Bytes × Nat)) (pages : List (Bytes × Bool)) (g : QTarget), QClear s g →
    QCovers s ⟨prefixes, start, stack, none, pages⟩ g →
    ((pagesResume fuel s ⟨prefixes, start, stack, none, pages⟩).2 = .yielded →
      QCovers s (pagesResume fuel s ⟨prefixes, start, stack, none, pages⟩).1 g) ∧
    (∀ l, (pagesResume fuel s ⟨prefixes, start, stack, none, pages⟩).2 = .done (.pages l) →
      ∃ cr, (g.cur, cr) ∈ l)
  | 0, s, prefixes, start, stack, pages, g, _, _ => by
    exact ⟨fun ho => by simp [pagesResume] at ho, fun l ho => by simp [pagesResume] at ho⟩
  | fuel + 1, s, prefixes, start, stack, pages, ⟨groot, gb, gcur, ganc⟩, hcl, hc => by
    rw [pagesResume]
    simp only
    cases stack with
    | nil =>
      simp only
      have hc' : (∃ cr, (gcur, cr) ∈ pages) ∨ (∃ pf ∈ prefixes, s.lruNode (lruIter pf) = some groot ∧
          ∃ anc', (∀ a ∈ anc', a ∈ ganc) ∧ HPath s groot groot (lruDirname pf) gb gcur anc') := by
        rcases hc with hc | ⟨_, y, hy, _⟩ | hc
        · exact Or.inl hc
        · rw [pending_of_pend_none] at hy; simp at hy
        · exact Or.inr hc
      cases prefixes with
      | nil =>
        simp only
        refine ⟨fun ho => by simp at ho, fun l ho => ?_⟩
        simp only [CoOut.done.injEq, Ans.pages.injEq] at ho
        subst ho
        rcases hc' with hc' | ⟨pf, hpf, _⟩
        · exact hc'
        · simp at hpf
      | cons pf more =>
        simp only
        cases hn : s.lruNode (lruIter pf) with
        | none =>
          simp only
          exact ⟨fun ho => by simp at ho, fun l ho => by simp at ho⟩
        | some n =>
          simp only
          refine pagesResume_cover_aux fuel s more n [(n, lruDirname pf, 0)] pages ⟨groot, gb, gcur, ganc⟩ hcl ?_
          rcases hc' with hc' | ⟨pf', hpf', hn', anc', ha, hpath⟩
          · exact Or.inl hc'
          · rcases List.mem_cons.mp hpf' with rfl | hpf'
            · rw [hn] at hn'
              cases hn'
              refine Or.inr (Or.inl ⟨rfl, (groot, lruDirname pf', 0), ?_, anc', ha, hpath⟩)
              rw [pending_of_pend_none]; simp
            · exact Or.inr (Or.inr ⟨pf', hpf', hn', anc', ha, hpath⟩)
    | cons top rest =>
      obtain ⟨b', lru', lvl⟩ := top
      simp only
      -- the stack the walk continues with, in both branches
      have hpush : (∃ cr, (gcur, cr) ∈ pages) ∨ (b' = gb ∧ start = groot ∧ gcur = lru' ++ s.stemAt b') ∨
          (start = groot ∧ ∃ y ∈ weDfsPush start b' lru' (lru' ++ s.stemAt b') lvl (s.cell b') rest,
            ∃ anc', (∀ a ∈ anc', a ∈ ganc) ∧ HPath s groot y.1 y.2.1 gb gcur anc') ∨
          (∃ pf ∈ prefixes, s.lruNode (lruIter pf) = some groot ∧
            ∃ anc', (∀ a ∈ anc', a ∈ ganc) ∧ HPath s groot groot (lruDirname pf) gb gcur anc') := by
        rcases hc with hc | ⟨hs, y, hy, anc', ha, hpath⟩ | hc
        · exact Or.inl hc
        · rw [pending_of_pend_none] at hy
          simp only at hs
          obtain ⟨m1, m2, m3, m4⟩ := @weDfsPush_mem start b' lru' (lru' ++ s.stemAt b') lvl (s.cell b') rest
          rcases List.mem_cons.mp hy with rfl | hy
          · simp only at hpath hs
            subst hs
            cases hpath with
            | here => exact Or.inr (Or.inl ⟨rfl, rfl, rfl⟩)
            | left hne hl hrest =>
              exact Or.inr (Or.inr (Or.inl ⟨rfl, _, m3 hl hne, anc', ha, hrest⟩))
            | right hne hl hrest =>
              exact Or.inr (Or.inr (Or.inl ⟨rfl, _, m2 hl hne, anc', ha, hrest⟩))
            | @child _ _ _ _ anc'' hl hrest =>
              have hrel : b' = start ∨ (s.cell b').we = 0 := hcl.1 b' (ha b' (by simp))
              exact Or.inr (Or.inr (Or.inl ⟨rfl, _, m4 hl hrel, anc'',
                fun a haa => ha a (List.mem_cons_of_mem _ haa), hrest⟩))
          · exact Or.inr (Or.inr (Or.inl ⟨hs, y, m1 y hy, anc', ha, hpath⟩))
        · exact Or.inr (Or.inr (Or.inr hc))
      split
      · rename_i hcond
        refine ⟨fun _ => ?_, fun l ho => by simp at ho⟩
        rcases hpush with hp | ⟨rfl, rfl, e⟩ | ⟨hs, y, hy, rest'⟩ | hp
        · exact Or.inl (by obtain ⟨cr, hcr⟩ := hp; exact ⟨cr, List.mem_append_left _ hcr⟩)
        · exact Or.inl ⟨_, by rw [e]; exact List.mem_append_right _ (List.mem_singleton.mpr rfl)⟩
        · exact Or.inr (Or.inl ⟨hs, y, hy, rest'⟩)
        · exact Or.inr (Or.inr hp)
      · rename_i hcond
        refine pagesResume_cover_aux fuel s prefixes start _ pages ⟨groot, gb, gcur, ganc⟩ hcl ?_
        rcases hpush with hp | ⟨rfl, rfl, e⟩ | ⟨hs, y, hy, rest'⟩ | hp
        · exact Or.inl hp
        · exfalso
          apply hcond
          simp only [Bool.and_eq_true, Bool.or_eq_true, decide_eq_true_eq]
          exact ⟨hcl.2.1, hcl.2.2⟩
        · exact Or.inr (Or.inl ⟨hs, y, by rw [pending_of_pend_none]; exact hy, rest'⟩)
        · exact Or.inr (Or.inr hp)

theorem pagesResume_cover (fuel : Nat) (s : State) (p : PagesSt) (g : QTarget) (hcl : QClear s g)
    (hc : QCovers s p g) :
    ((pagesResume fuel s p).2 = .yielded → QCovers s (pagesResume fuel s p).1 g) ∧
    (∀ l, (pagesResume fuel s p).2 = .done (.pages l) → ∃ cr, (g.cur, cr) ∈ l) := by
  cases fuel with
  | zero => exact ⟨fun ho => by simp [pagesResume] at ho, fun l ho => by simp [pagesResume] at ho⟩
  | succ fuel =>
    rw [pagesResume_norm]
    exact pagesResume_cover_aux (fuel + 1) s p.prefixes p.start p.pending p.pages g hcl hc.norm

end Traph

import Proofs.Tst
/-! The explicit-stack traversals of `Traph/Trie.lean` (`dfsGo`, `weDfsGo`, `dfsWeGo`) and the recursive
    in-order `inorderGo` equal structural recursions over the ghost tree. Pattern of the design spike
    `spike_dfs_stack`: generalise over a stack of represented non-empty trees (each with its payload:
    LRU prefix, level, inherited webentity), induct on fuel. -/
namespace Traph
open State

/-! ### stacks of represented trees -/

/-- every tree on the stack is represented and non-empty -/
def StackRep {α : Type} (s : State) (ts : List (T × α)) : Prop := ∀ p ∈ ts, Rep s p.1 ∧ p.1 ≠ .nil

/-- push a tree (with its payload) only when it is non-empty: the ghost of `if ptr ≠ 0 then push` -/
def pushIf {α : Type} (t : T) (x : α) (ts : List (T × α)) : List (T × α) :=
  match t with
  | .nil => ts
  | t => (t, x) :: ts

/-- total number of nodes waiting on the stack -/
def stackSize {α : Type} (ts : List (T × α)) : Nat := (ts.map (fun p => p.1.size)).sum

@[simp] theorem stackSize_nil {α : Type} : stackSize ([] : List (T × α)) = 0 := rfl
@[simp] theorem stackSize_cons {α : Type} (p : T × α) (ts : List (T × α)) :
    stackSize (p :: ts) = p.1.size + stackSize ts := by simp [stackSize]

theorem pushIf_size {α : Type} (t : T) (x : α) (ts : List (T × α)) :
    stackSize (pushIf t x ts) = t.size + stackSize ts := by
  cases t <;> simp [pushIf, T.size]

/-- the code's conditional push is the ghost `pushIf` -/
theorem pushIf_roots {α : Type} {s : State} (t : T) (x : α) (ts : List (T × α)) (hr : Rep s t) :
    (if t.root ≠ 0 then (t.root, x) :: ts.map (fun p => (p.1.root, p.2)) else ts.map (fun p => (p.1.root, p.2)))
      = (pushIf t x ts).map (fun p => (p.1.root, p.2)) := by
  cases t with
  | nil => simp [pushIf]
  | node a l c r => simp [pushIf, hr.1]

theorem pushIf_forall {α : Type} {P : T → Prop} {t : T} {x : α} {ts : List (T × α)}
    (hs : ∀ p ∈ ts, P p.1) (ht : t ≠ .nil → P t) : ∀ p ∈ pushIf t x ts, P p.1 := by
  cases t with
  | nil => simpa [pushIf] using hs
  | node a l c r =>
    intro p hp
    simp only [pushIf, List.mem_cons] at hp
    rcases hp with rfl | hp
    · exact ht (by simp)
    · exact hs p hp

theorem StackRep.pushIf {α : Type} {s : State} {t : T} {x : α} {ts : List (T × α)}
    (hs : StackRep s ts) (hr : Rep s t) : StackRep s (pushIf t x ts) :=
  pushIf_forall (P := fun t => Rep s t ∧ t ≠ .nil) hs (fun hn => ⟨hr, hn⟩)

theorem StackRep.tail {α : Type} {s : State} {p : T × α} {ts : List (T × α)}
    (hs : StackRep s (p :: ts)) : StackRep s ts := fun q hq => hs q (by simp [hq])

theorem pushIf_flatten {α β : Type} (t : T) (x : α) (ts : List (T × α)) (F : T → α → List β)
    (hF : ∀ y, F .nil y = []) :
    ((pushIf t x ts).map (fun p => F p.1 p.2)).flatten = F t x ++ (ts.map (fun p => F p.1 p.2)).flatten := by
  cases t <;> simp [pushIf, hF]

/-- what `Rep` says about the cell read at pop time -/
theorem Rep.cell_eq {s : State} {a : Nat} {l c r : T} (hr : Rep s (.node a l c r)) :
    (s.cell a).left = l.root ∧ (s.cell a).child = c.root ∧ (s.cell a).right = r.root := by
  obtain ⟨_, ⟨cell, hc, h1, h2, h3⟩, _⟩ := hr
  have : s.cell a = cell := by simp [State.cell, hc]
  rw [this]; exact ⟨h1, h2, h3⟩

/-! ### 1. `dfs_iter` -/

/-- the loop of `dfs_iter` over a stack of represented trees is the concatenation of their structural
    pre-orders; either the walk is from the root, or the start block is none of the waiting blocks -/
theorem dfsGo_eq_pre_gen {s : State} (fr : Bool) (start : Nat) :
    ∀ (fuel : Nat) (ts : List (T × Bytes)), StackRep s ts →
      (fr = true ∨ ∀ p ∈ ts, start ∉ p.1.addrs) → stackSize ts < fuel →
      s.dfsGo fr start false fuel (ts.map (fun p => (p.1.root, p.2)))
        = (ts.map (fun p => p.1.pre s p.2)).flatten := by
  intro fuel
  induction fuel with
  | zero => intro ts _ _ hf; omega
  | succ f ih =>
    intro ts hs hst hf
    cases ts with
    | nil => simp [dfsGo]
    | cons p ts =>
      obtain ⟨t, lru⟩ := p
      obtain ⟨hr, hn⟩ := hs (t, lru) (by simp)
      cases t with
      | nil => exact absurd rfl hn
      | node a l c r =>
        obtain ⟨h1, h2, h3⟩ := hr.cell_eq
        obtain ⟨ha, _, rl, rc, rr⟩ := hr
        have hts : StackRep s ts := hs.tail
        have hcond : (fr || decide (a ≠ start)) = true := by
          rcases hst with h | h
          · simp [h]
          · have := h (T.node a l c r, lru) (by simp)
            simp only [T.addrs, List.mem_cons, not_or] at this
            have hne : a ≠ start := fun e => this.1 e.symm
            simp [hne]
        simp only [List.map_cons, T.root_node, dfsGo, h1, h2, h3, hcond, if_true, Bool.false_and]
        simp only [Bool.false_eq_true, if_false]
        rw [pushIf_roots r lru ts rr, pushIf_roots l lru _ rl, pushIf_roots c _ _ rc]
        have hs' : StackRep s (pushIf c (lru ++ s.stemAt a) (pushIf l lru (pushIf r lru ts))) :=
          ((hts.pushIf rr).pushIf rl).pushIf rc
        have hst' : fr = true ∨ ∀ p ∈ pushIf c (lru ++ s.stemAt a) (pushIf l lru (pushIf r lru ts)), start ∉ p.1.addrs := by
          rcases hst with h | h
          · exact Or.inl h
          · right
            have h0 := h (T.node a l c r, lru) (by simp)
            simp only [T.addrs, List.mem_cons, List.mem_append, not_or] at h0
            have ht : ∀ p ∈ ts, start ∉ p.1.addrs := fun p hp => h p (by simp [hp])
            exact pushIf_forall (P := fun t => start ∉ t.addrs)
              (pushIf_forall (P := fun t => start ∉ t.addrs)
                (pushIf_forall (P := fun t => start ∉ t.addrs) ht (fun _ => h0.2.2))
                (fun _ => h0.2.1.1)) (fun _ => h0.2.1.2)
        have hsz : stackSize (pushIf c (lru ++ s.stemAt a) (pushIf l lru (pushIf r lru ts))) < f := by
          rw [pushIf_size, pushIf_size, pushIf_size]
          simp [T.size] at hf
          omega
        rw [ih _ hs' hst' hsz]
        rw [pushIf_flatten c _ _ (fun t x => t.pre s x) (fun _ => rfl),
            pushIf_flatten l _ _ (fun t x => t.pre s x) (fun _ => rfl),
            pushIf_flatten r _ _ (fun t x => t.pre s x) (fun _ => rfl)]
        simp [T.pre]

/-- item 1: the full traversal (`fromRoot = true`; `startBlock` is irrelevant) -/
theorem dfsGo_eq_pre {s : State} (start : Nat) (fuel : Nat) (stack : List (T × Bytes))
    (hs : ∀ p ∈ stack, Rep s p.1 ∧ p.1 ≠ .nil) (hf : (stack.map (fun p => p.1.size)).sum < fuel) :
    s.dfsGo true start false fuel (stack.map (fun (t, lru) => (t.root, lru)))
      = (stack.map (fun (t, lru) => t.pre s lru)).flatten :=
  dfsGo_eq_pre_gen true start fuel stack hs (Or.inl rfl) hf

theorem dfsIter_root {s : State} {t : T} (h : Shape s t) : s.dfsIter none false = t.pre s [] := by
  have hroot := h.root
  by_cases hsz : s.trie.size ≤ 1
  · rw [if_pos hsz] at hroot
    cases t with
    | nil => simp [dfsIter, hsz, T.pre]
    | node a l c r => exact absurd hroot h.rep.1
  · rw [if_neg hsz] at hroot
    cases t with
    | nil => simp at hroot
    | node a l c r =>
      simp only [T.root_node] at hroot
      subst hroot
      have hle := h.size_le
      have := dfsGo_eq_pre_gen (s := s) true 1 (s.trie.size + 1) [(T.node 1 l c r, [])]
        (by intro p hp; simp only [List.mem_singleton] at hp; subst hp; exact ⟨h.rep, by simp⟩)
        (Or.inl rfl) (by simp; omega)
      simpa [dfsIter, hsz] using this

/-- the structural pre-order lists every address of the tree exactly once -/
theorem pre_addrs_perm {s : State} : ∀ (t : T) (lru : Bytes), ((t.pre s lru).map (·.1)).Perm t.addrs := by
  intro t
  induction t with
  | nil => intro _; simp [T.pre, T.addrs]
  | node a l c r ihl ihc ihr =>
    intro lru
    simp only [T.pre, T.addrs, List.map_cons, List.map_append]
    refine List.Perm.cons _ ?_
    have h1 := ihc (lru ++ s.stemAt a)
    have h2 := ihl lru
    have h3 := ihr lru
    exact ((h1.append h2).append h3).trans
      (List.perm_append_comm.append_right _)

theorem dfsIter_nodup {s : State} {t : T} (h : Shape s t) : ((s.dfsIter none false).map (·.1)).Nodup := by
  rw [dfsIter_root h]
  exact (pre_addrs_perm t []).nodup_iff.mpr h.nodup

/-- every node of the tree is met by the traversal -/
theorem dfsIter_mem {s : State} {t : T} (h : Shape s t) (a : Nat) :
    a ∈ (s.dfsIter none false).map (·.1) ↔ a ∈ t.addrs := by
  rw [dfsIter_root h]
  exact (pre_addrs_perm t []).mem_iff

/-! ### 2. `dfs_iter` started from a node -/

theorem dfsIter_from {s : State} {a : Nat} {l c r : T} (hr : Rep s (.node a l c r))
    (hnd : (T.node a l c r).addrs.Nodup) (hsz : (T.node a l c r).size ≤ s.trie.size) (lru : Bytes) :
    s.dfsGo false a false (s.trie.size + 1) [(a, lru)]
      = (a, lru ++ s.stemAt a) :: c.pre s (lru ++ s.stemAt a) := by
  obtain ⟨h1, h2, h3⟩ := hr.cell_eq
  obtain ⟨ha, _, rl, rc, rr⟩ := hr
  simp only [dfsGo, h2, Bool.false_or, ne_eq, not_true_eq_false, decide_false, Bool.false_and,
    Bool.false_eq_true, if_false]
  have hna : a ∉ c.addrs := by
    simp only [T.addrs, List.nodup_cons, List.mem_append, not_or] at hnd
    exact hnd.1.1.2
  have e := pushIf_roots c (lru ++ s.stemAt a) ([] : List (T × Bytes)) rc
  simp only [List.map_nil] at e
  rw [e]
  have := dfsGo_eq_pre_gen (s := s) false a s.trie.size (pushIf c (lru ++ s.stemAt a) [])
    (StackRep.pushIf (fun _ hp => by simp at hp) rc)
    (Or.inr (pushIf_forall (P := fun t => a ∉ t.addrs) (fun _ hp => by simp at hp) (fun _ => hna)))
    (by rw [pushIf_size]; simp [T.size] at hsz ⊢; omega)
  rw [this, pushIf_flatten c _ _ (fun t x => t.pre s x) (fun _ => rfl)]
  simp

/-- the same through the entry point `dfsIter (some (a, lru))` (which starts at `lruDirname lru`) -/
theorem dfsIter_some {s : State} {a : Nat} {l c r : T} (hr : Rep s (.node a l c r))
    (hnd : (T.node a l c r).addrs.Nodup) (hsz : (T.node a l c r).size ≤ s.trie.size) (lru : Bytes) :
    s.dfsIter (some (a, lru)) false
      = (a, lruDirname lru ++ s.stemAt a) :: c.pre s (lruDirname lru ++ s.stemAt a) :=
  dfsIter_from hr hnd hsz (lruDirname lru)

/-! ### 3. `webentity_dfs_iter` (no depth limit) -/

/-- structural counterpart of `weDfsGo start none`: a node is relevant when it is the start or carries no
    webentity; relevant nodes are emitted and their child tree visited; siblings are visited unless the
    node is the start. Order as in the code: node, child tree, left tree, right tree. -/
def T.wePre (s : State) (start : Nat) : T → Bytes → List (Nat × Bytes)
  | .nil, _ => []
  | .node a l c r, lru =>
    (if a = start ∨ (s.cell a).we = 0 then
        (a, lru ++ s.stemAt a) :: c.wePre s start (lru ++ s.stemAt a) else [])
    ++ (if a = start then [] else l.wePre s start lru ++ r.wePre s start lru)

theorem weDfsGo_eq_wePre {s : State} (start : Nat) :
    ∀ (fuel : Nat) (ts : List (T × Bytes × Nat)), StackRep s ts → stackSize ts < fuel →
      s.weDfsGo start none fuel (ts.map (fun p => (p.1.root, p.2)))
        = (ts.map (fun p => p.1.wePre s start p.2.1)).flatten := by
  intro fuel
  induction fuel with
  | zero => intro ts _ hf; omega
  | succ f ih =>
    intro ts hs hf
    cases ts with
    | nil => simp [weDfsGo]
    | cons p ts =>
      obtain ⟨t, lru, lvl⟩ := p
      obtain ⟨hr, hn⟩ := hs (t, lru, lvl) (by simp)
      cases t with
      | nil => exact absurd rfl hn
      | node a l c r =>
        obtain ⟨h1, h2, h3⟩ := hr.cell_eq
        obtain ⟨ha, _, rl, rc, rr⟩ := hr
        have hts : StackRep s ts := hs.tail
        simp only [stackSize_cons, T.size] at hf
        simp only [List.map_cons, T.root_node, weDfsGo, h1, h2, h3, List.flatten_cons, T.wePre]
        -- the sibling pushes
        have hsib : (if a ≠ start then
              (if l.root ≠ 0 then (l.root, lru, lvl) ::
                  (if r.root ≠ 0 then (r.root, lru, lvl) :: ts.map (fun p => (p.1.root, p.2))
                   else ts.map (fun p => (p.1.root, p.2)))
               else (if r.root ≠ 0 then (r.root, lru, lvl) :: ts.map (fun p => (p.1.root, p.2))
                   else ts.map (fun p => (p.1.root, p.2))))
              else ts.map (fun p => (p.1.root, p.2)))
            = (if a = start then ts else pushIf l (lru, lvl) (pushIf r (lru, lvl) ts)).map
                (fun p => (p.1.root, p.2)) := by
          by_cases e : a = start
          · simp [e]
          · rw [if_pos e, if_neg e, pushIf_roots r (lru, lvl) ts rr, pushIf_roots l (lru, lvl) _ rl]
        rw [hsib]
        generalize hst : (if a = start then ts else pushIf l (lru, lvl) (pushIf r (lru, lvl) ts)) = st
        have hst_rep : StackRep s st := by
          subst hst; split
          · exact hts
          · exact (hts.pushIf rr).pushIf rl
        have hst_sz : stackSize st ≤ l.size + r.size + stackSize ts := by
          subst hst; split
          · omega
          · rw [pushIf_size, pushIf_size]; omega
        have hst_fl : (st.map (fun p => p.1.wePre s start p.2.1)).flatten
            = (if a = start then [] else l.wePre s start lru ++ r.wePre s start lru)
              ++ (ts.map (fun p => p.1.wePre s start p.2.1)).flatten := by
          subst hst; split
          · simp
          · rw [pushIf_flatten l _ _ (fun t (x : Bytes × Nat) => t.wePre s start x.1) (fun _ => rfl),
                pushIf_flatten r _ _ (fun t (x : Bytes × Nat) => t.wePre s start x.1) (fun _ => rfl)]
            simp
        by_cases hrel : a = start ∨ (s.cell a).we = 0
        · have hb : (decide (a = start) || decide ((s.cell a).we = 0)) = true := by simpa using hrel
          simp only [hb, Bool.true_and, if_true, if_pos hrel, decide_eq_true_eq]
          rw [pushIf_roots c (lru ++ s.stemAt a, lvl + 1) st rc]
          rw [ih _ (hst_rep.pushIf rc) (by rw [pushIf_size]; omega)]
          rw [pushIf_flatten c _ _ (fun t (x : Bytes × Nat) => t.wePre s start x.1) (fun _ => rfl), hst_fl]
          simp
        · have hb : (decide (a = start) || decide ((s.cell a).we = 0)) = false := by
            simpa using hrel
          simp only [hb, Bool.false_and, Bool.false_eq_true, if_false, if_neg hrel]
          rw [ih _ hst_rep (by omega), hst_fl]
          simp

/-- item 3 -/
theorem weDfs_eq {s : State} {a : Nat} {l c r : T} (hr : Rep s (.node a l c r))
    (_hnd : (T.node a l c r).addrs.Nodup) (hsz : (T.node a l c r).size ≤ s.trie.size) (lru0 : Bytes) :
    s.weDfsGo a none (s.trie.size + 1) [(a, lru0, 0)] = (T.node a l c r).wePre s a lru0 := by
  have := weDfsGo_eq_wePre (s := s) a (s.trie.size + 1) [(T.node a l c r, lru0, 0)]
    (by intro p hp; simp only [List.mem_singleton] at hp; subst hp; exact ⟨hr, by simp⟩)
    (by simp only [stackSize_cons, stackSize_nil]; omega)
  simpa using this

/-- the right-hand side of `weDfs_eq` unfolded at the start node -/
theorem T.wePre_start (s : State) (a : Nat) (l c r : T) (lru0 : Bytes) :
    (T.node a l c r).wePre s a lru0 = (a, lru0 ++ s.stemAt a) :: c.wePre s a (lru0 ++ s.stemAt a) := by
  simp [T.wePre]

theorem weDfs_eq' {s : State} {a : Nat} {l c r : T} (hr : Rep s (.node a l c r))
    (hsz : (T.node a l c r).size ≤ s.trie.size) (startLru : Bytes) :
    s.weDfs a startLru none
      = (a, lruDirname startLru ++ s.stemAt a) :: c.wePre s a (lruDirname startLru ++ s.stemAt a) := by
  have := weDfsGo_eq_wePre (s := s) a (s.trie.size + 1) [(T.node a l c r, lruDirname startLru, 0)]
    (by intro p hp; simp only [List.mem_singleton] at hp; subst hp; exact ⟨hr, by simp⟩)
    (by simp only [stackSize_cons, stackSize_nil]; omega)
  rw [← T.wePre_start]
  simpa [weDfs] using this

/-! ### 4. `dfs_with_webentity_iter` -/

/-- structural counterpart of `dfsWeGo`: pre-order carrying the nearest webentity at or above -/
def T.preWe (s : State) : T → Nat → List (Nat × Nat)
  | .nil, _ => []
  | .node a l c r, we =>
    (a, if (s.cell a).we ≠ 0 then (s.cell a).we else we) ::
      (c.preWe s (if (s.cell a).we ≠ 0 then (s.cell a).we else we) ++ l.preWe s we ++ r.preWe s we)

theorem dfsWeGo_eq_preWe {s : State} :
    ∀ (fuel : Nat) (ts : List (T × Nat)), StackRep s ts → stackSize ts < fuel →
      s.dfsWeGo fuel (ts.map (fun p => (p.1.root, p.2)))
        = (ts.map (fun p => p.1.preWe s p.2)).flatten := by
  intro fuel
  induction fuel with
  | zero => intro ts _ hf; omega
  | succ f ih =>
    intro ts hs hf
    cases ts with
    | nil => simp [dfsWeGo]
    | cons p ts =>
      obtain ⟨t, we⟩ := p
      obtain ⟨hr, hn⟩ := hs (t, we) (by simp)
      cases t with
      | nil => exact absurd rfl hn
      | node a l c r =>
        obtain ⟨h1, h2, h3⟩ := hr.cell_eq
        obtain ⟨ha, _, rl, rc, rr⟩ := hr
        have hts : StackRep s ts := hs.tail
        simp only [stackSize_cons, T.size] at hf
        simp only [List.map_cons, T.root_node, dfsWeGo, h1, h2, h3]
        rw [pushIf_roots r we ts rr, pushIf_roots l we _ rl, pushIf_roots c _ _ rc]
        rw [ih _ (((hts.pushIf rr).pushIf rl).pushIf rc)
              (by rw [pushIf_size, pushIf_size, pushIf_size]; omega)]
        rw [pushIf_flatten c _ _ (fun t x => t.preWe s x) (fun _ => rfl),
            pushIf_flatten l _ _ (fun t x => t.preWe s x) (fun _ => rfl),
            pushIf_flatten r _ _ (fun t x => t.preWe s x) (fun _ => rfl)]
        simp [T.preWe]

/-- item 4 -/
theorem dfsWe_eq {s : State} {t : T} (h : Shape s t) : s.dfsWe = t.preWe s 0 := by
  have hroot := h.root
  by_cases hsz : s.trie.size ≤ 1
  · rw [if_pos hsz] at hroot
    cases t with
    | nil => simp [dfsWe, hsz, T.preWe]
    | node a l c r => exact absurd hroot h.rep.1
  · rw [if_neg hsz] at hroot
    cases t with
    | nil => simp at hroot
    | node a l c r =>
      simp only [T.root_node] at hroot
      subst hroot
      have hle := h.size_le
      have := dfsWeGo_eq_preWe (s := s) (s.trie.size + 1) [(T.node 1 l c r, 0)]
        (by intro p hp; simp only [List.mem_singleton] at hp; subst hp; exact ⟨h.rep, by simp⟩)
        (by simp only [stackSize_cons, stackSize_nil]; omega)
      simpa [dfsWe, hsz] using this

end Traph

section
open Traph
#print axioms dfsGo_eq_pre
#print axioms dfsIter_root
#print axioms pre_addrs_perm
#print axioms dfsIter_nodup
#print axioms dfsIter_from
#print axioms weDfs_eq
#print axioms dfsWe_eq
end

import Traph
import Proofs.Frame
import Proofs.Chunks
/-! C12, part 1: the header counter `hdrId` is written by `genId` only. Every other model function —
    the whole trie layer, the link layer, and every `foldl` of `modCell` — leaves it unchanged. -/
namespace Traph
open State

/-! ### primitives -/

@[simp] theorem hdrId_appendStub (s : State) (b : Stub) : (s.appendStub b).1.hdrId = s.hdrId := rfl

@[simp] theorem hdrId_setCell (s : State) (i : Nat) (c : Cell) : (s.setCell i c).hdrId = s.hdrId := rfl

@[simp] theorem hdrId_setHdr (s : State) (id : Nat) : (s.setHdr id).hdrId = id := rfl

@[simp] theorem hdrId_genId (s : State) : s.genId.1.hdrId = s.hdrId + 1 := rfl

@[simp] theorem snd_genId (s : State) : s.genId.2 = s.hdrId + 1 := rfl

@[simp] theorem hdrId_appendCells (cs : List Cell) (s : State) : (s.appendCells cs).hdrId = s.hdrId :=
  (appendCells_rest cs s).2.1

/-- any `foldl` of `modCell`s (the shape used by `addPrefixes` and `deleteWebentity`) -/
@[simp] theorem hdrId_foldl_modCell {α : Type} (idx : α → Nat) (f : α → Cell → Cell) :
    ∀ (l : List α) (s : State), (l.foldl (fun st a => st.modCell (idx a) (f a)) s).hdrId = s.hdrId
  | [], _ => rfl
  | a :: l, s => by
    rw [List.foldl_cons, hdrId_foldl_modCell idx f l, hdrId_modCell]

/-! ### the trie layer -/

@[simp] theorem hdrId_writeNew (s : State) (stem : Bytes) (p : Nat) (c : Bool) :
    (s.writeNew stem p c).1.hdrId = s.hdrId := (writeNew_rest s stem p c).2.1

@[simp] theorem hdrId_ensureStem (s : State) (start : Nat) (ex : Bool) (stem : Stem) :
    (s.ensureStem start ex stem).1.hdrId = s.hdrId := by
  unfold ensureStem
  split
  · exact hdrId_writeNew _ _ _ _
  · split
    · rfl
    · rfl
    · simp only [hdrId_modCell, hdrId_writeNew]

@[simp] theorem hdrId_markCanHave (s : State) (n : Nat) (b : Bool) : (s.markCanHave n b).hdrId = s.hdrId := by
  unfold markCanHave; split
  · exact hdrId_modCell _ _ _
  · rfl

@[simp] theorem hdrId_addLruDescend (flag : Bool) : ∀ (stems : List Stem) (s : State) (node : Nat) (ex : Bool)
    (pos : Nat) (h : Hist), (addLruDescend flag s stems node ex pos h).1.hdrId = s.hdrId := by
  intro stems
  induction stems with
  | nil => intro s node ex pos h; rfl
  | cons stem rest ih =>
    intro s node ex pos h
    rcases he : s.ensureStem node ex stem with ⟨s1, n⟩
    have h1 : s1.hdrId = s.hdrId := by have := hdrId_ensureStem s node ex stem; rw [he] at this; exact this
    simp only [addLruDescend, he]
    split
    · rw [ih, hdrId_markCanHave, h1]
    · simp only [hdrId_markCanHave, h1]

@[simp] theorem hdrId_addLruCreate (flag : Bool) : ∀ (stems : List Stem) (s : State) (node : Nat),
    (addLruCreate flag s stems node).1.hdrId = s.hdrId := by
  intro stems
  induction stems with
  | nil => intro s node; rfl
  | cons stem rest ih =>
    intro s node
    simp only [addLruCreate]
    rw [ih, hdrId_modCell, hdrId_writeNew]

@[simp] theorem hdrId_addLru (s : State) (stems : LRU) (flag : Bool) : (s.addLru stems flag).1.hdrId = s.hdrId := by
  unfold addLru
  simp only [hdrId_addLruCreate, hdrId_addLruDescend]

@[simp] theorem hdrId_addPageTrie (s : State) (stems : LRU) (crawled : Bool) :
    (s.addPageTrie stems crawled).1.hdrId = s.hdrId := by
  unfold addPageTrie
  simp only
  split
  · simp only [hdrId_modCell, hdrId_addLru]
  · split
    · simp only [hdrId_modCell, hdrId_addLru]
    · exact hdrId_addLru _ _ _

/-! ### the link layer -/

@[simp] theorem hdrId_addStubsGo : ∀ (ts : List Nat) (s : State) (tail : Nat),
    (addStubsGo s tail ts).1.hdrId = s.hdrId
  | [], _, _ => rfl
  | t :: ts, s, tail => by
    simp only [addStubsGo]
    rw [hdrId_addStubsGo ts, hdrId_appendStub]

@[simp] theorem hdrId_addStubs (s : State) (page : Nat) (targets : List Nat) (out : Bool) :
    (s.addStubs page targets out).hdrId = s.hdrId := by
  unfold addStubs
  split
  · rfl
  · simp only [hdrId_modCell, hdrId_addStubsGo]

@[simp] theorem hdrId_flushLists (out : Bool) (pages : List (Bytes × Nat)) :
    ∀ (l : List (Bytes × List Bytes)) (s : State), (flushLists out pages s l).hdrId = s.hdrId
  | [], _ => rfl
  | (p, others) :: rest, s => by
    simp only [flushLists]
    rw [hdrId_flushLists out pages rest, hdrId_addStubs]

end Traph

import Proofs.PtrOk
import Proofs.LinkLists
/-! C18, "traversed and queried without failure": in a `PtrOk` state no walk of the model ever reads a
    block that is not in the files.

    The model's accessors are total (`State.cell b` is the default cell when `b ≥ size`, `findSib`
    answers `.corrupt`, `readTail` / `walkGo` stop). To state that the totalisation is never exercised
    we give every walk a STRICT twin (suffix `S`) in `Option`: it is the same program, except that
    every read of a trie block goes through `s.trie[b]?`, every stem read through `stemAtS` (which
    also fails when an announced tail block is missing), every stub read through `s.links[j]?`, and
    any miss makes the whole walk `none`. The theorems say: under `PtrOkAt s d`, started from blocks
    below `d` (the complete prefix), the strict twin returns `some` of exactly what the model's walk
    returns, and every block it hands on (results, stack entries, parents, link targets) is below `d`
    again. Running out of fuel is not an out-of-range read and is kept as in the model. -/
namespace Traph
open State

namespace State

/-! ### strict twins -/

/-- strict `readTail`: an announced tail block must exist -/
def readTailS (s : State) : Nat → Nat → Option Bytes
  | 0, _ => none
  | fuel + 1, i =>
    match s.trie[i]? with
    | none => none
    | some c => if c.flags.hasTail then (readTailS s fuel (i + 1)).map (c.chunk ++ ·) else some c.chunk

/-- strict `stemAt` -/
def stemAtS (s : State) (i : Nat) : Option Stem :=
  match s.trie[i]? with
  | none => none
  | some c =>
    if c.flags.hasTail then (s.readTailS s.trie.size (i + 1)).map (c.chunk ++ ·) else some c.chunk

/-- strict `findSib` -/
def findSibS (s : State) (stem : Stem) : Nat → Nat → Option Find
  | 0, _ => some .corrupt
  | fuel + 1, p =>
    match s.trie[p]?, s.stemAtS p with
    | some c, some cur =>
      if cur = stem then some (.found p)
      else if lexLt stem cur then
        (if c.left ≠ 0 then findSibS s stem fuel c.left else some (.missing p .L))
      else
        (if c.right ≠ 0 then findSibS s stem fuel c.right else some (.missing p .R))
    | _, _ => none

/-- strict `lruNodeGo` -/
def lruNodeGoS (s : State) : List Stem → Nat → Option (Option Nat)
  | [], node => some (some node)
  | stem :: rest, node =>
    match s.findSibS stem (s.trie.size + 1) node with
    | none => none
    | some (.found i) =>
      if rest.isEmpty then some (some i)
      else match s.trie[i]? with
        | none => none
        | some c => if c.child = 0 then some none else lruNodeGoS s rest c.child
    | some _ => some none

def lruNodeS (s : State) (stems : LRU) : Option (Option Nat) :=
  if s.trie.size ≤ 1 then some none else s.lruNodeGoS stems 1

/-- strict `followLruGo` -/
def followLruGoS (s : State) : List Stem → Nat → Nat → Hist → Option (Option Nat × Hist)
  | [], node, _, h => some (some node, h)
  | stem :: rest, node, pos, h =>
    match s.findSibS stem (s.trie.size + 1) node with
    | none => none
    | some (.found i) =>
      match s.trie[i]? with
      | none => none
      | some c =>
        let pos := pos + stem.length
        let h := h.visit c pos
        if rest.isEmpty then some (some i, h)
        else if c.child = 0 then some (none, h) else followLruGoS s rest c.child pos h
    | some _ => some (none, h)

def followLruS (s : State) (stems : LRU) : Option (Option Nat × Hist) :=
  if s.trie.size ≤ 1 then some (none, {}) else s.followLruGoS stems 1 0 {}

/-- strict `parentsGo` -/
def parentsGoS (s : State) : Nat → Nat → Option (List Nat)
  | 0, _ => some []
  | fuel + 1, b =>
    match s.trie[b]? with
    | none => none
    | some c => if c.parent = 0 then some [] else (parentsGoS s fuel c.parent).map (c.parent :: ·)

def parentsS (s : State) (b : Nat) : Option (List Nat) := s.parentsGoS (s.trie.size + 1) b

/-- strict stem concatenation of `windup` -/
def windupFoldS (s : State) : List Nat → Bytes → Option Bytes
  | [], acc => some acc
  | p :: ps, acc =>
    match s.stemAtS p with
    | none => none
    | some st => windupFoldS s ps (st ++ acc)

/-- strict `windup` -/
def windupS (s : State) (b : Nat) : Option Bytes :=
  match s.parentsS b, s.stemAtS b with
  | some ps, some st => s.windupFoldS ps st
  | _, _ => none

/-- strict `dfsGo` -/
def dfsGoS (s : State) (fromRoot : Bool) (startBlock : Nat) (skipChildless : Bool) :
    Nat → List (Nat × Bytes) → Option (List (Nat × Bytes))
  | 0, _ => some []
  | _, [] => some []
  | fuel + 1, (b, lru) :: stack =>
    match s.trie[b]?, s.stemAtS b with
    | some c, some st =>
      let cur := lru ++ st
      let stack := if fromRoot || b ≠ startBlock then
          (let st := if c.right ≠ 0 then (c.right, lru) :: stack else stack
           if c.left ≠ 0 then (c.left, lru) :: st else st) else stack
      let stack := if skipChildless && c.flags.noChild then stack
                   else if c.child ≠ 0 then (c.child, cur) :: stack else stack
      (dfsGoS s fromRoot startBlock skipChildless fuel stack).map ((b, cur) :: ·)
    | _, _ => none

def dfsIterS (s : State) (start : Option (Nat × Bytes)) (skipChildless : Bool) : Option (List (Nat × Bytes)) :=
  match start with
  | none => if s.trie.size ≤ 1 then some [] else s.dfsGoS true 1 skipChildless (s.trie.size + 1) [(1, [])]
  | some (b, lru) => s.dfsGoS false b skipChildless (s.trie.size + 1) [(b, lruDirname lru)]

/-- strict `weDfsGo` -/
def weDfsGoS (s : State) (startBlock : Nat) (maxDepth : Option Nat) :
    Nat → List (Nat × Bytes × Nat) → Option (List (Nat × Bytes))
  | 0, _ => some []
  | _, [] => some []
  | fuel + 1, (b, lru, level) :: stack =>
    match s.trie[b]?, s.stemAtS b with
    | some c, some st =>
      let relevant := b = startBlock || c.we = 0
      let cur := lru ++ st
      let stack := if b ≠ startBlock then
          (let st := if c.right ≠ 0 then (c.right, lru, level) :: stack else stack
           if c.left ≠ 0 then (c.left, lru, level) :: st else st) else stack
      let stack := if relevant && c.child ≠ 0 then
          (match maxDepth with
           | some d => if level ≥ d then stack else (c.child, cur, level + 1) :: stack
           | none => (c.child, cur, level + 1) :: stack) else stack
      (weDfsGoS s startBlock maxDepth fuel stack).map (fun rest => if relevant then (b, cur) :: rest else rest)
    | _, _ => none

def weDfsS (s : State) (start : Nat) (startLru : Bytes) (maxDepth : Option Nat) : Option (List (Nat × Bytes)) :=
  s.weDfsGoS start maxDepth (s.trie.size + 1) [(start, lruDirname startLru, 0)]

/-- strict `dfsWeGo` -/
def dfsWeGoS (s : State) : Nat → List (Nat × Nat) → Option (List (Nat × Nat))
  | 0, _ => some []
  | _, [] => some []
  | fuel + 1, (b, we) :: stack =>
    match s.trie[b]? with
    | none => none
    | some c =>
      let cur := if c.we ≠ 0 then c.we else we
      let st := if c.right ≠ 0 then (c.right, we) :: stack else stack
      let st := if c.left ≠ 0 then (c.left, we) :: st else st
      let st := if c.child ≠ 0 then (c.child, cur) :: st else st
      (dfsWeGoS s fuel st).map ((b, cur) :: ·)

def dfsWeS (s : State) : Option (List (Nat × Nat)) :=
  if s.trie.size ≤ 1 then some [] else s.dfsWeGoS (s.trie.size + 1) [(1, 0)]

/-- strict `followPath`; the inner option is the model's traversal exception -/
def followPathS (s : State) : List Nat → Nat → Bytes → Option (Option Bytes)
  | [], n, lru => (s.stemAtS n).map (fun st => some (lru ++ st))
  | op :: ops, n, lru =>
    match s.trie[n]? with
    | none => none
    | some c =>
      if op = Layout.base4L then (if c.left = 0 then some none else followPathS s ops c.left lru)
      else if op = Layout.base4C then
        (if c.child = 0 then some none else
          match s.stemAtS n with
          | none => none
          | some st => followPathS s ops c.child (lru ++ st))
      else (if c.right = 0 then some none else followPathS s ops c.right lru)

/-- strict `inorderGo` -/
def inorderGoS (s : State) (startBlock : Nat) (pag : Option (Bytes × Bytes)) :
    Nat → Nat → Bytes → Nat → Option (List (Nat × Bytes × Nat))
  | 0, _, _, _ => some []
  | fuel + 1, b, lru, path =>
    let pruned := match pag with | some (cmp, _) => !canFollowPath cmp path | none => false
    if pruned then some [] else
    match s.trie[b]?, s.stemAtS b with
    | some c, some st =>
      let lft := if b ≠ startBlock && c.left ≠ 0 then
          inorderGoS s startBlock pag fuel c.left lru (base4Append path 1) else some []
      let cur := lru ++ st
      let relevant := b = startBlock || c.we = 0
      let self := if relevant then
          (let ok := match pag with | some (_, plru) => lexLt plru cur | none => true
           if ok then [(b, cur, path)] else []) else []
      let chl := if relevant && c.child ≠ 0 then
          inorderGoS s startBlock pag fuel c.child cur (base4Append path 2) else some []
      let rgt := if b ≠ startBlock && c.right ≠ 0 then
          inorderGoS s startBlock pag fuel c.right lru (base4Append path 3) else some []
      match lft, chl, rgt with
      | some l, some ch, some r => some (l ++ self ++ ch ++ r)
      | _, _, _ => none
    | _, _ => none

/-- strict `weInorder`; the inner option is the model's traversal exception -/
def weInorderS (s : State) (start : Nat) (startLru : Bytes) (pagPath : Option Nat) :
    Option (Option (List (Nat × Bytes × Nat))) :=
  let dir := lruDirname startLru
  match pagPath with
  | none => (s.inorderGoS start none (s.trie.size + 1) start dir 0).map some
  | some p =>
    let cmp := if p = 0 then [] else intToBase4 p
    match s.followPathS cmp start dir with
    | none => none
    | some none => some none
    | some (some plru) => (s.inorderGoS start (some (cmp, plru)) (s.trie.size + 1) start dir 0).map some

/-- strict `walkGo` over the link store: every stub read must exist -/
def walkGoS (s : State) : Nat → Nat → Option (List Nat)
  | 0, _ => some []
  | fuel + 1, i =>
    match s.links[i]? with
    | none => none
    | some st => if st.prev ≠ 0 then (walkGoS s fuel st.prev).map (st.target :: ·) else some [st.target]

def walkS (s : State) (head : Nat) : Option (List Nat) := s.walkGoS (s.links.size + 1) head

end State

/-- closes `x = x`, also after `simp only` has already turned it into `True` -/
local macro "triv" : tactic => `(tactic| first | rfl | trivial)

/-! ### reads below the complete prefix succeed -/

theorem getElem?_cell_ptr {s : State} {b : Nat} (hb : b < s.trie.size) : s.trie[b]? = some (s.cell b) := by
  unfold State.cell
  rw [Array.getElem?_eq_getElem hb]; rfl

theorem PtrOkAt.lt_size {s : State} {d b : Nat} (h : PtrOkAt s d) (hb : b < d) : b < s.trie.size :=
  Nat.lt_of_lt_of_le hb h.dle

theorem PtrOkAt.get {s : State} {d b : Nat} (h : PtrOkAt s d) (hb : b < d) : s.trie[b]? = some (s.cell b) :=
  getElem?_cell_ptr (h.lt_size hb)

theorem PtrOkAt.readTailS_eq {s : State} {d : Nat} (h : PtrOkAt s d) :
    ∀ (fuel i : Nat), i < d → s.trie.size - i ≤ fuel → s.readTailS fuel i = some (s.readTail fuel i) := by
  intro fuel
  induction fuel with
  | zero => intro i hi hf; have := h.dle; omega
  | succ f ih =>
    intro i hi hf
    rw [State.readTailS, State.readTail, h.get hi]
    simp only
    by_cases hh : (s.cell i).flags.hasTail = true
    · have hnext := h.tails i _ (h.get hi) hi hh
      rw [if_pos hh, if_pos hh, ih (i + 1) hnext (by omega)]; rfl
    · rw [if_neg hh, if_neg hh]; simp

/-- the strict stem read of a block below the complete prefix succeeds and is the model's `stemAt` -/
theorem PtrOkAt.stemAtS_eq {s : State} {d : Nat} (h : PtrOkAt s d) {b : Nat} (hb : b < d) :
    s.stemAtS b = some (s.stemAt b) := by
  rw [State.stemAtS, State.stemAt, h.get hb]
  simp only
  by_cases hh : (s.cell b).flags.hasTail = true
  · have hnext := h.tails b _ (h.get hb) hb hh
    rw [if_pos hh, if_pos hh, h.readTailS_eq _ (b + 1) hnext (by omega)]; rfl
  · rw [if_neg hh, if_neg hh]; simp

/-! ### sibling search and look-ups -/

theorem PtrOkAt.findSibS_eq {s : State} {d : Nat} (h : PtrOkAt s d) (stem : Stem) :
    ∀ (fuel p : Nat), p < d →
      s.findSibS stem fuel p = some (s.findSib stem fuel p) ∧
      (∀ i, s.findSib stem fuel p = .found i → i < d) ∧
      (∀ q sl, s.findSib stem fuel p = .missing q sl → q < d) := by
  intro fuel
  induction fuel with
  | zero => intro p _; simp [State.findSibS, State.findSib]
  | succ f ih =>
    intro p hp
    have hc := h.cellOk p
    simp only [State.findSibS, State.findSib, h.get hp, h.stemAtS_eq hp]
    by_cases h1 : s.stemAt p = stem
    · simp only [if_pos h1]
      exact ⟨by triv, fun i hi => by cases hi; exact hp, fun q sl hq => by cases hq⟩
    · simp only [if_neg h1]
      by_cases h2 : lexLt stem (s.stemAt p) = true
      · simp only [if_pos h2]
        by_cases h3 : (s.cell p).left ≠ 0
        · simp only [if_pos h3]
          exact ih _ hc.left
        · simp only [if_neg h3]
          exact ⟨by triv, fun i hi => (by cases hi), fun q sl hq => (by cases hq; exact hp)⟩
      · simp only [if_neg h2]
        by_cases h3 : (s.cell p).right ≠ 0
        · simp only [if_pos h3]
          exact ih _ hc.right
        · simp only [if_neg h3]
          exact ⟨by triv, fun i hi => (by cases hi), fun q sl hq => (by cases hq; exact hp)⟩

theorem PtrOkAt.lruNodeGoS_eq {s : State} {d : Nat} (h : PtrOkAt s d) :
    ∀ (stems : List Stem) (node : Nat), node < d →
      s.lruNodeGoS stems node = some (s.lruNodeGo stems node) ∧
      (∀ n, s.lruNodeGo stems node = some n → n < d) := by
  intro stems
  induction stems with
  | nil => intro node hn; exact ⟨by triv, fun n hx => by simp only [State.lruNodeGo] at hx; cases hx; exact hn⟩
  | cons stem rest ih =>
    intro node hn
    obtain ⟨e, hf, _⟩ := h.findSibS_eq stem (s.trie.size + 1) node hn
    simp only [State.lruNodeGoS, State.lruNodeGo, e]
    cases hfs : s.findSib stem (s.trie.size + 1) node with
    | found i =>
      have hi := hf i hfs
      simp only
      by_cases hr : rest.isEmpty = true
      · simp only [if_pos hr]
        exact ⟨by triv, fun n hx => by cases hx; exact hi⟩
      · simp only [if_neg hr, h.get hi]
        by_cases hc : (s.cell i).child = 0
        · simp only [if_pos hc]
          exact ⟨by triv, fun n hx => by cases hx⟩
        · simp only [if_neg hc]
          exact ih _ (h.cellOk i).child
    | missing q sl => exact ⟨by triv, fun n hx => by cases hx⟩
    | corrupt => exact ⟨by triv, fun n hx => by cases hx⟩

/-- `lru_node`: no read outside the file, the node found is below the complete prefix
    (`1 < d`: the root is complete — see `PtrOkAt.root_cases`) -/
theorem PtrOkAt.lruNodeS_eq {s : State} {d : Nat} (h : PtrOkAt s d) (hr : s.trie.size ≤ 1 ∨ 1 < d)
    (stems : LRU) :
    s.lruNodeS stems = some (s.lruNode stems) ∧ (∀ n, s.lruNode stems = some n → n < d) := by
  unfold State.lruNodeS State.lruNode
  by_cases h1 : s.trie.size ≤ 1
  · simp only [if_pos h1]; exact ⟨by triv, fun n hx => by cases hx⟩
  · simp only [if_neg h1]
    exact h.lruNodeGoS_eq stems 1 (by omega)

theorem PtrOkAt.followLruGoS_eq {s : State} {d : Nat} (h : PtrOkAt s d) :
    ∀ (stems : List Stem) (node pos : Nat) (hi : Hist), node < d →
      s.followLruGoS stems node pos hi = some (s.followLruGo stems node pos hi) ∧
      (∀ n, (s.followLruGo stems node pos hi).1 = some n → n < d) := by
  intro stems
  induction stems with
  | nil => intro node pos hi hn; exact ⟨by triv, fun n hx => by simp only [State.followLruGo] at hx; cases hx; exact hn⟩
  | cons stem rest ih =>
    intro node pos hist hn
    obtain ⟨e, hf, _⟩ := h.findSibS_eq stem (s.trie.size + 1) node hn
    simp only [State.followLruGoS, State.followLruGo, e]
    cases hfs : s.findSib stem (s.trie.size + 1) node with
    | found i =>
      have hi := hf i hfs
      simp only [h.get hi]
      by_cases hr : rest.isEmpty = true
      · simp only [if_pos hr]
        exact ⟨by triv, fun n hx => by cases hx; exact hi⟩
      · simp only [if_neg hr]
        by_cases hc : (s.cell i).child = 0
        · simp only [if_pos hc]
          exact ⟨by triv, fun n hx => by cases hx⟩
        · simp only [if_neg hc]
          exact ih _ _ _ (h.cellOk i).child
    | missing q sl => exact ⟨by triv, fun n hx => by cases hx⟩
    | corrupt => exact ⟨by triv, fun n hx => by cases hx⟩

theorem PtrOkAt.followLruS_eq {s : State} {d : Nat} (h : PtrOkAt s d) (hr : s.trie.size ≤ 1 ∨ 1 < d)
    (stems : LRU) :
    s.followLruS stems = some (s.followLru stems) ∧ (∀ n, (s.followLru stems).1 = some n → n < d) := by
  unfold State.followLruS State.followLru
  by_cases h1 : s.trie.size ≤ 1
  · simp only [if_pos h1]; exact ⟨by triv, fun n hx => by cases hx⟩
  · simp only [if_neg h1]
    exact h.followLruGoS_eq stems 1 0 {} (by omega)

/-! ### parents and `windup` -/

theorem PtrOkAt.parentsGoS_eq {s : State} {d : Nat} (h : PtrOkAt s d) :
    ∀ (fuel b : Nat), b < d →
      s.parentsGoS fuel b = some (s.parentsGo fuel b) ∧ (∀ p ∈ s.parentsGo fuel b, p < d) := by
  intro fuel
  induction fuel with
  | zero => intro b _; simp [State.parentsGoS, State.parentsGo]
  | succ f ih =>
    intro b hb
    simp only [State.parentsGoS, State.parentsGo, h.get hb]
    by_cases hp : (s.cell b).parent = 0
    · simp [hp]
    · have hlt := (h.cellOk b).parent
      obtain ⟨e, hall⟩ := ih _ hlt
      simp only [hp, if_false, e, Option.map_some]
      refine ⟨by triv, fun p hp' => ?_⟩
      rcases List.mem_cons.mp hp' with rfl | hp'
      · exact hlt
      · exact hall p hp'

theorem PtrOkAt.parentsS_eq {s : State} {d : Nat} (h : PtrOkAt s d) {b : Nat} (hb : b < d) :
    s.parentsS b = some (s.parents b) ∧ (∀ p ∈ s.parents b, p < d) :=
  h.parentsGoS_eq _ b hb

theorem PtrOkAt.windupFoldS_eq {s : State} {d : Nat} (h : PtrOkAt s d) :
    ∀ (ps : List Nat) (acc : Bytes), (∀ p ∈ ps, p < d) →
      s.windupFoldS ps acc = some (ps.foldl (fun acc p => s.stemAt p ++ acc) acc)
  | [], acc, _ => rfl
  | p :: ps, acc, hall => by
    rw [State.windupFoldS, h.stemAtS_eq (hall p (by simp))]
    simp only [List.foldl_cons]
    exact PtrOkAt.windupFoldS_eq h ps _ (fun q hq => hall q (by simp [hq]))

/-- `windup_lru(block)` of a block below the complete prefix: every ancestor and every stem read is in
    the file -/
theorem PtrOkAt.windupS_eq {s : State} {d : Nat} (h : PtrOkAt s d) {b : Nat} (hb : b < d) :
    s.windupS b = some (s.windup b) := by
  obtain ⟨e, hall⟩ := h.parentsS_eq hb
  unfold State.windupS State.windup
  rw [e, h.stemAtS_eq hb]
  exact h.windupFoldS_eq _ _ hall

/-- `windup_lru_for_webentity`: the blocks it reads are `b` and its ancestors -/
theorem PtrOkAt.windupWe_reads {s : State} {d : Nat} (h : PtrOkAt s d) {b : Nat} (hb : b < d) :
    ∀ p ∈ b :: s.parents b, p < s.trie.size := by
  intro p hp
  rcases List.mem_cons.mp hp with rfl | hp
  · exact h.lt_size hb
  · exact h.lt_size ((h.parentsS_eq hb).2 p hp)

/-! ### depth-first walks -/

/-- all the blocks waiting on a stack are below the complete prefix -/
def AllLt {α : Type} (d : Nat) (st : List (Nat × α)) : Prop := ∀ x ∈ st, x.1 < d

theorem AllLt.nil {α : Type} (d : Nat) : AllLt d ([] : List (Nat × α)) := fun _ h => by cases h

theorem AllLt.cons {α : Type} {d : Nat} {st : List (Nat × α)} {b : Nat} {a : α} (hb : b < d)
    (h : AllLt d st) : AllLt d ((b, a) :: st) := by
  intro x hx
  rcases List.mem_cons.mp hx with rfl | hx
  · exact hb
  · exact h x hx

theorem AllLt.tail {α : Type} {d : Nat} {st : List (Nat × α)} {x : Nat × α} (h : AllLt d (x :: st)) :
    AllLt d st := fun y hy => h y (List.mem_cons_of_mem _ hy)

theorem AllLt.head {α : Type} {d : Nat} {st : List (Nat × α)} {x : Nat × α} (h : AllLt d (x :: st)) :
    x.1 < d := h x (by simp)

theorem AllLt.ite {α : Type} {d : Nat} {a b : List (Nat × α)} (c : Prop) [Decidable c]
    (ha : AllLt d a) (hb : AllLt d b) : AllLt d (if c then a else b) := by
  split
  · exact ha
  · exact hb

theorem PtrOkAt.dfsGoS_eq {s : State} {d : Nat} (h : PtrOkAt s d) (fromRoot : Bool) (startBlock : Nat)
    (skip : Bool) : ∀ (fuel : Nat) (stack : List (Nat × Bytes)), AllLt d stack →
      s.dfsGoS fromRoot startBlock skip fuel stack = some (s.dfsGo fromRoot startBlock skip fuel stack) ∧
      AllLt d (s.dfsGo fromRoot startBlock skip fuel stack) := by
  intro fuel
  induction fuel with
  | zero => intro stack _; exact ⟨by triv, AllLt.nil d⟩
  | succ f ih =>
    intro stack hst
    cases stack with
    | nil => exact ⟨by triv, AllLt.nil d⟩
    | cons x stack =>
      obtain ⟨b, lru⟩ := x
      have hb : b < d := hst.head
      have hc := h.cellOk b
      have hst' := hst.tail
      simp only [State.dfsGoS, State.dfsGo, h.get hb, h.stemAtS_eq hb]
      have hnew : AllLt d
          (if (skip && (s.cell b).flags.noChild) = true then
            if (fromRoot || decide (b ≠ startBlock)) = true then
              if (s.cell b).left ≠ 0 then
                ((s.cell b).left, lru) :: if (s.cell b).right ≠ 0 then ((s.cell b).right, lru) :: stack else stack
              else if (s.cell b).right ≠ 0 then ((s.cell b).right, lru) :: stack else stack
            else stack
          else
            if (s.cell b).child ≠ 0 then
              ((s.cell b).child, lru ++ s.stemAt b) ::
                if (fromRoot || decide (b ≠ startBlock)) = true then
                  if (s.cell b).left ≠ 0 then
                    ((s.cell b).left, lru) :: if (s.cell b).right ≠ 0 then ((s.cell b).right, lru) :: stack else stack
                  else if (s.cell b).right ≠ 0 then ((s.cell b).right, lru) :: stack else stack
                else stack
            else
              if (fromRoot || decide (b ≠ startBlock)) = true then
                if (s.cell b).left ≠ 0 then
                  ((s.cell b).left, lru) :: if (s.cell b).right ≠ 0 then ((s.cell b).right, lru) :: stack else stack
                else if (s.cell b).right ≠ 0 then ((s.cell b).right, lru) :: stack else stack
              else stack) := by
        have hR : AllLt d (if (s.cell b).right ≠ 0 then ((s.cell b).right, lru) :: stack else stack) :=
          AllLt.ite _ (AllLt.cons hc.right hst') hst'
        have hL : AllLt d (if (s.cell b).left ≠ 0 then
              ((s.cell b).left, lru) :: if (s.cell b).right ≠ 0 then ((s.cell b).right, lru) :: stack else stack
            else if (s.cell b).right ≠ 0 then ((s.cell b).right, lru) :: stack else stack) :=
          AllLt.ite _ (AllLt.cons hc.left hR) hR
        have hS := AllLt.ite ((fromRoot || decide (b ≠ startBlock)) = true) hL hst'
        exact AllLt.ite _ hS (AllLt.ite _ (AllLt.cons hc.child hS) hS)
      obtain ⟨e, hall⟩ := ih _ hnew
      rw [e]
      exact ⟨by triv, AllLt.cons hb hall⟩

/-- `dfs_iter` from the root (`pages_iter`, `webentity_prefix_iter`, `links_iter` are filters of it) -/
theorem PtrOkAt.dfsIterS_root {s : State} {d : Nat} (h : PtrOkAt s d) (hr : s.trie.size ≤ 1 ∨ 1 < d)
    (skip : Bool) :
    s.dfsIterS none skip = some (s.dfsIter none skip) ∧ AllLt d (s.dfsIter none skip) := by
  unfold State.dfsIterS State.dfsIter
  by_cases h1 : s.trie.size ≤ 1
  · simp only [if_pos h1]; exact ⟨by triv, AllLt.nil d⟩
  · simp only [if_neg h1]
    exact h.dfsGoS_eq true 1 skip _ _ (AllLt.cons (by omega) (AllLt.nil d))

/-- `dfs_iter` from a node (children of a webentity) -/
theorem PtrOkAt.dfsIterS_from {s : State} {d : Nat} (h : PtrOkAt s d) {b : Nat} (hb : b < d) (lru : Bytes)
    (skip : Bool) :
    s.dfsIterS (some (b, lru)) skip = some (s.dfsIter (some (b, lru)) skip) ∧
    AllLt d (s.dfsIter (some (b, lru)) skip) := by
  unfold State.dfsIterS State.dfsIter
  exact h.dfsGoS_eq false b skip _ _ (AllLt.cons hb (AllLt.nil d))

/-- proves `AllLt d (nested ifs of conses)` from the facts in context -/
local macro "all_lt" : tactic =>
  `(tactic| repeat' (first | assumption | apply AllLt.ite | apply AllLt.cons | split))

theorem PtrOkAt.weDfsGoS_eq {s : State} {d : Nat} (h : PtrOkAt s d) (startBlock : Nat) (maxDepth : Option Nat) :
    ∀ (fuel : Nat) (stack : List (Nat × Bytes × Nat)), AllLt d stack →
      s.weDfsGoS startBlock maxDepth fuel stack = some (s.weDfsGo startBlock maxDepth fuel stack) ∧
      AllLt d (s.weDfsGo startBlock maxDepth fuel stack) := by
  intro fuel
  induction fuel with
  | zero => intro stack _; exact ⟨rfl, AllLt.nil d⟩
  | succ f ih =>
    intro stack hst
    cases stack with
    | nil => exact ⟨rfl, AllLt.nil d⟩
    | cons x stack =>
      obtain ⟨b, lru, level⟩ := x
      have hb : b < d := hst.head
      have hc := h.cellOk b
      have hst' := hst.tail
      have hl := hc.left
      have hr := hc.right
      have hch := hc.child
      simp only [State.weDfsGoS, State.weDfsGo, h.get hb, h.stemAtS_eq hb]
      show Option.map _ (State.weDfsGoS s startBlock maxDepth f ?stk) = _ ∧ _
      have hnew : AllLt d ?stk := by all_lt
      obtain ⟨e, hall⟩ := ih _ hnew
      rw [e]
      refine ⟨by triv, ?_⟩
      all_lt

/-- `webentity_dfs_iter` from a block below the complete prefix (the start block of a prefix found by
    `lru_node`): every block popped — also the ones that belong to other webentities and are not
    reported — is in the file -/
theorem PtrOkAt.weDfsS_eq {s : State} {d : Nat} (h : PtrOkAt s d) {b : Nat} (hb : b < d) (lru : Bytes)
    (maxDepth : Option Nat) :
    s.weDfsS b lru maxDepth = some (s.weDfs b lru maxDepth) ∧ AllLt d (s.weDfs b lru maxDepth) := by
  unfold State.weDfsS State.weDfs
  exact h.weDfsGoS_eq b maxDepth _ _ (AllLt.cons hb (AllLt.nil d))

theorem PtrOkAt.dfsWeGoS_eq {s : State} {d : Nat} (h : PtrOkAt s d) :
    ∀ (fuel : Nat) (stack : List (Nat × Nat)), AllLt d stack →
      s.dfsWeGoS fuel stack = some (s.dfsWeGo fuel stack) ∧ AllLt d (s.dfsWeGo fuel stack) := by
  intro fuel
  induction fuel with
  | zero => intro stack _; exact ⟨rfl, AllLt.nil d⟩
  | succ f ih =>
    intro stack hst
    cases stack with
    | nil => exact ⟨rfl, AllLt.nil d⟩
    | cons x stack =>
      obtain ⟨b, we⟩ := x
      have hb : b < d := hst.head
      have hc := h.cellOk b
      have hst' := hst.tail
      have hl := hc.left
      have hr := hc.right
      have hch := hc.child
      simp only [State.dfsWeGoS, State.dfsWeGo, h.get hb]
      show Option.map _ (State.dfsWeGoS s f ?stk) = _ ∧ _
      have hnew : AllLt d ?stk := by all_lt
      obtain ⟨e, hall⟩ := ih _ hnew
      rw [e]
      exact ⟨by triv, AllLt.cons hb hall⟩

/-- `dfs_with_webentity_iter` (the network queries) -/
theorem PtrOkAt.dfsWeS_eq {s : State} {d : Nat} (h : PtrOkAt s d) (hr : s.trie.size ≤ 1 ∨ 1 < d) :
    s.dfsWeS = some s.dfsWe ∧ AllLt d s.dfsWe := by
  unfold State.dfsWeS State.dfsWe
  by_cases h1 : s.trie.size ≤ 1
  · simp only [if_pos h1]; exact ⟨by triv, AllLt.nil d⟩
  · simp only [if_neg h1]
    exact h.dfsWeGoS_eq _ _ (AllLt.cons (by omega) (AllLt.nil d))

/-! ### link lists -/

/-- `link_nodes_iter(head)` from a head inside the link store: every stub read exists, every target is a
    block below the complete prefix -/
theorem PtrOkAt.walkGoS_eq {s : State} {d : Nat} (h : PtrOkAt s d) :
    ∀ (fuel i : Nat), i < s.links.size →
      s.walkGoS fuel i = some (s.walkGo fuel i) ∧ (∀ t ∈ s.walkGo fuel i, t < d) := by
  intro fuel
  induction fuel with
  | zero => intro i _; simp [State.walkGoS, State.walkGo]
  | succ f ih =>
    intro i hi
    have hget : s.links[i]? = some s.links[i] := Array.getElem?_eq_getElem hi
    obtain ⟨hprev, htgt⟩ := h.stubs i _ hget
    simp only [State.walkGoS, State.walkGo, hget]
    by_cases hp : s.links[i].prev ≠ 0
    · obtain ⟨e, hall⟩ := ih _ hprev
      simp only [if_pos hp, e, Option.map_some]
      refine ⟨by triv, fun t ht => ?_⟩
      rcases List.mem_cons.mp ht with rfl | ht
      · exact htgt
      · exact hall t ht
    · simp only [if_neg hp]
      refine ⟨by triv, fun t ht => ?_⟩
      rcases List.mem_cons.mp ht with rfl | ht
      · exact htgt
      · cases ht

theorem PtrOkAt.walkS_eq {s : State} {d : Nat} (h : PtrOkAt s d) {head : Nat} (hh : head < s.links.size) :
    s.walkS head = some (s.walk head) ∧ (∀ t ∈ s.walk head, t < d) :=
  h.walkGoS_eq _ head hh

/-- the list heads stored in any block (also one read through the totalised accessor) are inside the
    link store -/
theorem PtrOkAt.heads {s : State} {d : Nat} (h : PtrOkAt s d) (b : Nat) :
    (s.cell b).out < s.links.size ∧ (s.cell b).inn < s.links.size :=
  ⟨(h.cellOk b).out, (h.cellOk b).inn⟩

/-! ### the in-order walk of the paginated queries -/

theorem ite_some_some_ptr {α : Type} (c : Prop) [Decidable c] (a b : α) :
    (if c then some a else some b) = some (if c then a else b) := by
  split <;> rfl

theorem AllLt.append {α : Type} {d : Nat} {a b : List (Nat × α)} (ha : AllLt d a) (hb : AllLt d b) :
    AllLt d (a ++ b) := by
  intro x hx
  rcases List.mem_append.mp hx with hx | hx
  · exact ha x hx
  · exact hb x hx

theorem PtrOkAt.followPathS_eq {s : State} {d : Nat} (h : PtrOkAt s d) :
    ∀ (ops : List Nat) (n : Nat) (lru : Bytes), n < d →
      s.followPathS ops n lru = some (s.followPath ops n lru) := by
  intro ops
  induction ops with
  | nil => intro n lru hn; simp only [State.followPathS, State.followPath, h.stemAtS_eq hn, Option.map_some]
  | cons op ops ih =>
    intro n lru hn
    have hc := h.cellOk n
    simp only [State.followPathS, State.followPath, h.get hn, h.stemAtS_eq hn]
    by_cases h1 : op = Layout.base4L
    · simp only [if_pos h1]
      by_cases h2 : (s.cell n).left = 0
      · simp only [if_pos h2]
      · simp only [if_neg h2]; exact ih _ _ hc.left
    · simp only [if_neg h1]
      by_cases h3 : op = Layout.base4C
      · simp only [if_pos h3]
        by_cases h2 : (s.cell n).child = 0
        · simp only [if_pos h2]
        · simp only [if_neg h2]; exact ih _ _ hc.child
      · simp only [if_neg h3]
        by_cases h2 : (s.cell n).right = 0
        · simp only [if_pos h2]
        · simp only [if_neg h2]; exact ih _ _ hc.right

theorem PtrOkAt.inorderGoS_eq {s : State} {d : Nat} (h : PtrOkAt s d) (startBlock : Nat)
    (pag : Option (Bytes × Bytes)) :
    ∀ (fuel b : Nat) (lru : Bytes) (path : Nat), b < d →
      s.inorderGoS startBlock pag fuel b lru path = some (s.inorderGo startBlock pag fuel b lru path) ∧
      AllLt d (s.inorderGo startBlock pag fuel b lru path) := by
  intro fuel
  induction fuel with
  | zero => intro b lru path _; exact ⟨rfl, AllLt.nil d⟩
  | succ f ih =>
    intro b lru path hb
    have hc := h.cellOk b
    have eL : ∀ l p, s.inorderGoS startBlock pag f (s.cell b).left l p =
        some (s.inorderGo startBlock pag f (s.cell b).left l p) := fun l p => (ih _ l p hc.left).1
    have eC : ∀ l p, s.inorderGoS startBlock pag f (s.cell b).child l p =
        some (s.inorderGo startBlock pag f (s.cell b).child l p) := fun l p => (ih _ l p hc.child).1
    have eR : ∀ l p, s.inorderGoS startBlock pag f (s.cell b).right l p =
        some (s.inorderGo startBlock pag f (s.cell b).right l p) := fun l p => (ih _ l p hc.right).1
    have aL : ∀ l p, AllLt d (s.inorderGo startBlock pag f (s.cell b).left l p) := fun l p => (ih _ l p hc.left).2
    have aC : ∀ l p, AllLt d (s.inorderGo startBlock pag f (s.cell b).child l p) := fun l p => (ih _ l p hc.child).2
    have aR : ∀ l p, AllLt d (s.inorderGo startBlock pag f (s.cell b).right l p) := fun l p => (ih _ l p hc.right).2
    have aN : AllLt d ([] : List (Nat × Bytes × Nat)) := AllLt.nil d
    simp only [State.inorderGoS, State.inorderGo, h.get hb, h.stemAtS_eq hb, eL, eC, eR, ite_some_some_ptr]
    refine ⟨by triv, ?_⟩
    refine AllLt.ite _ aN ?_
    refine AllLt.append (AllLt.append (AllLt.append ?_ ?_) ?_) ?_
    · exact AllLt.ite _ (aL _ _) aN
    · repeat' (first | exact aN | apply AllLt.ite | exact AllLt.cons hb aN)
    · exact AllLt.ite _ (aC _ _) aN
    · exact AllLt.ite _ (aR _ _) aN

/-- `webentity_inorder_iter` from the start block of a prefix (the paginated page / pagelink queries) -/
theorem PtrOkAt.weInorderS_eq {s : State} {d : Nat} (h : PtrOkAt s d) {start : Nat} (hs : start < d)
    (startLru : Bytes) (pagPath : Option Nat) :
    s.weInorderS start startLru pagPath = some (s.weInorder start startLru pagPath) ∧
    (∀ items, s.weInorder start startLru pagPath = some items → AllLt d items) := by
  unfold State.weInorderS State.weInorder
  cases pagPath with
  | none =>
    obtain ⟨e, ha⟩ := h.inorderGoS_eq start none (s.trie.size + 1) start (lruDirname startLru) 0 hs
    simp only [e, Option.map_some]
    exact ⟨by triv, fun items hi => by cases hi; exact ha⟩
  | some p =>
    simp only [h.followPathS_eq _ start _ hs]
    cases hf : s.followPath (if p = 0 then [] else intToBase4 p) start (lruDirname startLru) with
    | none => exact ⟨by triv, fun items hi => by cases hi⟩
    | some plru =>
      obtain ⟨e, ha⟩ := h.inorderGoS_eq start (some ((if p = 0 then [] else intToBase4 p), plru))
        (s.trie.size + 1) start (lruDirname startLru) 0 hs
      simp only [e, Option.map_some]
      exact ⟨by triv, fun items hi => by cases hi; exact ha⟩

/-! ### the root, and the one node that may be incomplete -/

/-- the three situations of the root (block 1) in a cut state: no root yet; the root is complete; or the
    cut fell inside the very first node of the trie (a first stem longer than one block), whose head is
    block 1 and whose tail blocks are not all there -/
theorem PtrOkAt.root_cases {s : State} {d : Nat} (h : PtrOkAt s d) :
    s.trie.size ≤ 1 ∨ 1 < d ∨ (d = 1 ∧ 1 < s.trie.size) := by
  have := h.dpos; have := h.dle; omega

/-- the third situation: nothing in the files points anywhere, and every block after the header
    announces a further tail block -/
theorem PtrOkAt.dangling_root {s : State} (h : PtrOkAt s 1) :
    (∀ (b : Nat) (c : Cell), s.trie[b]? = some c → c.left = 0 ∧ c.right = 0 ∧ c.child = 0 ∧ c.parent = 0) ∧
    (∀ (j : Nat) (st : Stub), s.links[j]? = some st → st.target = 0) ∧
    (∀ (b : Nat) (c : Cell), s.trie[b]? = some c → 1 ≤ b → c.flags.hasTail = true) := by
  refine ⟨fun b c hc => ?_, fun j st hst => ?_, fun b c hc hb => h.run b c hc hb⟩
  · have := h.cells b c hc
    have h1 := this.left; have h2 := this.right; have h3 := this.child; have h4 := this.parent
    omega
  · have := (h.stubs j st hst).2; omega

theorem dfsGo_nil_ptr (s : State) (fr : Bool) (sb : Nat) (sk : Bool) (fuel : Nat) : s.dfsGo fr sb sk fuel [] = [] := by
  cases fuel <;> rfl

/-- … and the full scan then visits block 1 alone (its stem read runs to the end of the file, which the
    repaired `read` tolerates — `readTail` stops at end of storage) -/
theorem PtrOkAt.dfsIter_dangling_root {s : State} (h : PtrOkAt s 1) (h1 : 1 < s.trie.size) (skip : Bool) :
    s.dfsIter none skip = [(1, s.stemAt 1)] := by
  have hc := (h.dangling_root).1 1 _ (getElem?_cell_ptr h1)
  unfold State.dfsIter
  simp only [if_neg (by omega : ¬ s.trie.size ≤ 1), State.dfsGo, hc.1, hc.2.1, hc.2.2.1]
  simp [dfsGo_nil_ptr]

theorem PtrOkAt.readTailS_dangling {s : State} {d : Nat} (h : PtrOkAt s d) :
    ∀ (fuel i : Nat), d ≤ i → s.readTailS fuel i = none := by
  intro fuel
  induction fuel with
  | zero => intro i _; rfl
  | succ f ih =>
    intro i hi
    rw [State.readTailS]
    cases hc : s.trie[i]? with
    | none => rfl
    | some c =>
      simp only
      rw [if_pos (h.run i c hc hi), ih (i + 1) (by omega)]; rfl

/-- the strict stem read DOES fail on the blocks of the incomplete node: the invariant is not vacuous,
    these are exactly the reads that the repaired code (D7) survives by stopping at end of file -/
theorem PtrOkAt.stemAtS_dangling {s : State} {d : Nat} (h : PtrOkAt s d) {b : Nat} (hb : d ≤ b) :
    s.stemAtS b = none := by
  rw [State.stemAtS]
  cases hc : s.trie[b]? with
  | none => rfl
  | some c =>
    simp only
    rw [if_pos (h.run b c hc hb), h.readTailS_dangling _ (b + 1) (by omega)]; rfl

/-- linear scans (`count_pages`, `metrics`, `links_metrics`) enumerate existing blocks only -/
theorem mem_allBlocks_ptr {s : State} {b : Nat} (hb : b ∈ s.allBlocks) : 1 ≤ b ∧ b < s.trie.size := by
  unfold State.allBlocks at hb
  have h1 := List.mem_of_mem_drop hb
  rw [List.mem_range] at h1
  refine ⟨?_, h1⟩
  rcases List.mem_iff_getElem.mp hb with ⟨i, hi, rfl⟩
  simp only [List.getElem_drop, List.getElem_range]
  omega

/-! ### link targets handed to `windup` -/

theorem PtrOkAt.deduped_lt {s : State} {d : Nat} (h : PtrOkAt s d) {head : Nat} (hh : head < s.links.size) :
    ∀ t ∈ s.deduped head, t < d :=
  fun t ht => (h.walkS_eq hh).2 t ((deduped_mem s head t).mp ht)

theorem PtrOkAt.weighted_lt {s : State} {d : Nat} (h : PtrOkAt s d) {head : Nat} (hh : head < s.links.size) :
    ∀ tw ∈ s.weighted head, tw.1 < d := by
  intro tw htw
  apply h.deduped_lt hh
  unfold State.deduped
  exact List.mem_map.mpr ⟨tw, htw, rfl⟩

/-! ### one query end to end: `links_iter` -/

theorem mapM_some_ptr {α β : Type} (f : α → Option β) (g : α → β) :
    ∀ (l : List α), (∀ x ∈ l, f x = some (g x)) → l.mapM f = some (l.map g)
  | [], _ => rfl
  | a :: l, h => by
    rw [List.mapM_cons, h a (by simp), mapM_some_ptr f g l (fun x hx => h x (by simp [hx]))]
    rfl

theorem flatten_map_ite_ptr {α β : Type} (p : α → Bool) (F : α → List β) :
    ∀ (l : List α), (l.map (fun x => if p x then F x else [])).flatten = (l.filter p).flatMap F
  | [] => rfl
  | a :: l => by
    rw [List.map_cons, List.flatten_cons, flatten_map_ite_ptr p F l, List.filter_cons]
    split
    · rw [List.flatMap_cons]
    · simp

namespace State

/-- strict `links_iter(out)`: DFS from the root, the page flag and list head of every node met, the stub
    list of every page, the `windup` of every target — every read checked -/
def linksIterS (s : State) (out : Bool) : Option (List (Bytes × Bytes)) :=
  match s.dfsIterS none false with
  | none => none
  | some nodes =>
    (nodes.mapM (fun (bl : Nat × Bytes) =>
      match s.trie[bl.1]? with
      | none => none
      | some c =>
        if c.flags.page then
          (let head := if out then c.out else c.inn
           if head = 0 then some [] else
           match s.walkS head with
           | none => none
           | some ts => ts.eraseDups.mapM (fun t => (s.windupS t).map (fun w => (bl.2, w))))
        else some [])).map List.flatten

end State

theorem PtrOkAt.linksIterS_eq {s : State} {d : Nat} (h : PtrOkAt s d) (hr : s.trie.size ≤ 1 ∨ 1 < d)
    (out : Bool) : s.linksIterS out = some (s.linksIter out) := by
  obtain ⟨e, hall⟩ := h.dfsIterS_root hr false
  unfold State.linksIterS State.linksIter
  rw [e]
  simp only
  rw [mapM_some_ptr _ (fun (bl : Nat × Bytes) => if (s.cell bl.1).flags.page then
      (if (if out = true then (s.cell bl.1).out else (s.cell bl.1).inn) = 0 then []
       else (s.deduped (if out = true then (s.cell bl.1).out else (s.cell bl.1).inn)).map
          (fun t => (bl.2, s.windup t))) else [])]
  · rw [Option.map_some, flatten_map_ite_ptr (fun (bl : Nat × Bytes) => (s.cell bl.1).flags.page)
      (fun (bl : Nat × Bytes) =>
        if (if out = true then (s.cell bl.1).out else (s.cell bl.1).inn) = 0 then []
        else (s.deduped (if out = true then (s.cell bl.1).out else (s.cell bl.1).inn)).map
          (fun t => (bl.2, s.windup t)))]
  · intro bl hbl
    have hb : bl.1 < d := hall bl hbl
    rw [h.get hb]
    simp only
    by_cases hp : (s.cell bl.1).flags.page = true
    · rw [if_pos hp, if_pos hp]
      have hhead : (if out = true then (s.cell bl.1).out else (s.cell bl.1).inn) < s.links.size := by
        split
        · exact (h.heads bl.1).1
        · exact (h.heads bl.1).2
      by_cases h0 : (if out = true then (s.cell bl.1).out else (s.cell bl.1).inn) = 0
      · simp only [if_pos h0]
      · simp only [if_neg h0]
        rw [(h.walkS_eq hhead).1]
        simp only
        rw [deduped_eq]
        apply mapM_some_ptr
        intro t ht
        have ht' : t ∈ s.deduped (if out = true then (s.cell bl.1).out else (s.cell bl.1).inn) := by
          rw [deduped_eq]; exact ht
        rw [h.windupS_eq (h.deduped_lt hhead t ht')]; rfl
    · rw [if_neg hp, if_neg hp]

#print axioms PtrOkAt.findSibS_eq
#print axioms PtrOkAt.lruNodeS_eq
#print axioms PtrOkAt.followLruS_eq
#print axioms PtrOkAt.windupS_eq
#print axioms PtrOkAt.dfsIterS_root
#print axioms PtrOkAt.weDfsS_eq
#print axioms PtrOkAt.dfsWeS_eq
#print axioms PtrOkAt.weInorderS_eq
#print axioms PtrOkAt.walkS_eq
#print axioms PtrOkAt.linksIterS_eq
#print axioms PtrOkAt.dfsIter_dangling_root
#print axioms PtrOkAt.stemAtS_dangling

end Traph

import Traph
/-! `chunks` (helpers.chunks_iter) and the write/read-back of node stems of EVERY length:
    `writeNew` appends `blocksFor stem` blocks, leaves everything else alone, and `stemAt` on the new
    head returns the stem byte for byte. -/
namespace Traph
open Layout

/-! ### chunks -/

theorem chunksGo_nil (n fuel : Nat) : chunksGo n fuel [] = [] := by
  cases fuel <;> simp [chunksGo]

theorem chunksGo_cons (n fuel : Nat) (a : Nat) (t : Bytes) :
    chunksGo n (fuel + 1) (a :: t) = (a :: t).take n :: chunksGo n fuel ((a :: t).drop n) := by
  simp [chunksGo]

theorem chunksGo_flatten (n : Nat) (hn : 0 < n) :
    ∀ (fuel : Nat) (s : Bytes), s.length < fuel → (chunksGo n fuel s).flatten = s
  | 0, s, h => by omega
  | fuel + 1, [], _ => by simp [chunksGo_nil]
  | fuel + 1, a :: t, h => by
    rw [chunksGo_cons, List.flatten_cons,
      chunksGo_flatten n hn fuel _ (by simp only [List.length_drop, List.length_cons] at *; omega),
      List.take_append_drop]

theorem chunks_flatten (n : Nat) (hn : 0 < n) (s : Bytes) : (chunks n s).flatten = s := by
  unfold chunks
  split
  · simp
  · exact chunksGo_flatten n hn _ _ (by omega)

theorem ceil_step (n l : Nat) (hn : 0 < n) (hl : 0 < l) :
    (l + n - 1) / n = (l - n + n - 1) / n + 1 := by
  by_cases h : n ≤ l
  · have e : l + n - 1 = (l - n + n - 1) + n := by omega
    rw [e, Nat.add_div_right _ hn]
  · have e1 : l - n + n - 1 = n - 1 := by omega
    have e2 : l + n - 1 = (l - 1) + n := by omega
    rw [e1, e2, Nat.add_div_right _ hn, Nat.div_eq_of_lt (by omega), Nat.div_eq_of_lt (by omega)]

theorem chunksGo_length (n : Nat) (hn : 0 < n) :
    ∀ (fuel : Nat) (s : Bytes), s.length < fuel → (chunksGo n fuel s).length = (s.length + n - 1) / n
  | 0, s, h => by omega
  | fuel + 1, [], _ => by
    rw [chunksGo_nil]; simp only [List.length_nil, Nat.zero_add]
    rw [Nat.div_eq_of_lt (by omega)]
  | fuel + 1, a :: t, h => by
    rw [chunksGo_cons, List.length_cons,
      chunksGo_length n hn fuel _ (by simp only [List.length_drop, List.length_cons] at *; omega),
      List.length_drop, ceil_step n (a :: t).length hn (by simp)]

theorem chunks_length (n : Nat) (hn : 0 < n) (s : Bytes) (hs : s ≠ []) :
    (chunks n s).length = (s.length + n - 1) / n := by
  have hl : 0 < s.length := List.length_pos_iff.mpr hs
  unfold chunks
  split
  · next h =>
    have e : s.length + n - 1 = (s.length - 1) + n := by omega
    rw [e, Nat.add_div_right _ hn, Nat.div_eq_of_lt (by omega)]; rfl
  · exact chunksGo_length n hn _ _ (by omega)

theorem chunksGo_sizes (n : Nat) (hn : 0 < n) :
    ∀ (fuel : Nat) (s : Bytes), s.length < fuel →
      (∀ c ∈ chunksGo n fuel s, 0 < c.length ∧ c.length ≤ n) ∧
      (∀ c ∈ (chunksGo n fuel s).dropLast, c.length = n)
  | 0, s, h => by omega
  | fuel + 1, [], _ => by simp [chunksGo_nil]
  | fuel + 1, a :: t, h => by
    have ih := chunksGo_sizes n hn fuel ((a :: t).drop n)
      (by simp only [List.length_drop, List.length_cons] at *; omega)
    rw [chunksGo_cons]
    refine ⟨?_, ?_⟩
    · intro c hc
      rcases List.mem_cons.mp hc with rfl | hc
      · simp only [List.length_take, List.length_cons]; omega
      · exact ih.1 c hc
    · intro c hc
      cases hr : chunksGo n fuel ((a :: t).drop n) with
      | nil => rw [hr] at hc; simp at hc
      | cons y r =>
        rw [hr, List.dropLast_cons_cons] at hc
        rcases List.mem_cons.mp hc with rfl | hc
        · have hne : (a :: t).drop n ≠ [] := by
            intro e; rw [e, chunksGo_nil] at hr; cases hr
          have : 0 < ((a :: t).drop n).length := List.length_pos_iff.mpr hne
          simp only [List.length_drop, List.length_take, List.length_cons] at *; omega
        · exact ih.2 c (by rw [hr]; exact hc)

theorem chunks_sizes (n : Nat) (hn : 0 < n) (s : Bytes) (hs : s ≠ []) :
    (∀ c ∈ chunks n s, 0 < c.length ∧ c.length ≤ n) ∧
    (∀ c ∈ (chunks n s).dropLast, c.length = n) := by
  have hl : 0 < s.length := List.length_pos_iff.mpr hs
  unfold chunks
  split
  · next h =>
    refine ⟨?_, by simp⟩
    intro c hc
    rw [List.mem_singleton] at hc; subst hc; exact ⟨hl, h⟩
  · exact chunksGo_sizes n hn _ _ (by omega)

/-! ### tailCells / appendCells -/

section
open State

theorem tailCells_cons_cons (a b : Bytes) (r : List Bytes) :
    tailCells (a :: b :: r) =
      { chunk := a, flags := { isTail := true, hasTail := true } } :: tailCells (b :: r) := by
  simp [tailCells]

theorem tailCells_length : ∀ chs : List Bytes, (tailCells chs).length = chs.length
  | [] => rfl
  | [_] => rfl
  | a :: b :: r => by
    rw [tailCells_cons_cons, List.length_cons, tailCells_length (b :: r)]; rfl

theorem appendCells_trie : ∀ (cs : List Cell) (s : State),
    (s.appendCells cs).trie = s.trie ++ cs.toArray
  | [], s => by simp [appendCells]
  | c :: cs, s => by
    rw [appendCells, appendCells_trie cs]
    simp [appendCell]

theorem appendCells_rest : ∀ (cs : List Cell) (s : State),
    (s.appendCells cs).links = s.links ∧ (s.appendCells cs).hdrId = s.hdrId ∧
    (s.appendCells cs).rules = s.rules ∧ (s.appendCells cs).dflt = s.dflt ∧
    (s.appendCells cs).cfg = s.cfg
  | [], s => by simp [appendCells]
  | c :: cs, s => by
    rw [appendCells]
    have := appendCells_rest cs (s.appendCell c).1
    simpa [appendCell] using this

/-- the head block `writeNew` appends -/
def headCell (stem : Bytes) (p : Nat) (c : Bool) : Cell :=
  { chunk := stem.take stemCap,
    flags := { hasTail := decide (stem.length > stemCap), noChild := !c }, parent := p }

/-- the tail blocks `writeNew` appends after the head -/
def tailsOf (stem : Bytes) : List Cell :=
  if stem.length > stemCap then tailCells (chunks stemCap (stem.drop stemCap)) else []

theorem writeNew_trie (s : State) (stem : Bytes) (p : Nat) (c : Bool) :
    (s.writeNew stem p c).1.trie = s.trie.push (headCell stem p c) ++ (tailsOf stem).toArray := by
  simp only [writeNew, appendCell, appendCells_trie, headCell, tailsOf, decide_eq_true_eq]

theorem tailsOf_length (stem : Bytes) :
    (tailsOf stem).length =
      if stem.length ≤ stemCap then 0 else (stem.length - stemCap + stemCap - 1) / stemCap := by
  unfold tailsOf
  by_cases h : stem.length > stemCap
  · rw [if_pos h, if_neg (by omega), tailCells_length,
      chunks_length stemCap (by decide) _ (by
        intro e; have := congrArg List.length e; simp only [List.length_drop, List.length_nil] at this; omega),
      List.length_drop]
  · rw [if_neg h, if_pos (by omega)]; rfl

end

/-- number of 128-byte blocks a node with this stem occupies (head + tails) -/
def blocksFor (stem : Bytes) : Nat :=
  if stem.length ≤ Layout.stemCap then 1 else (stem.length + Layout.stemCap - 1) / Layout.stemCap

section
open State

theorem writeNew_size (s : State) (stem : Bytes) (p : Nat) (c : Bool) :
    (s.writeNew stem p c).1.trie.size = s.trie.size + blocksFor stem := by
  have e : (tailsOf stem).toArray.size = (tailsOf stem).length := rfl
  rw [writeNew_trie, Array.size_append, Array.size_push, e, tailsOf_length, blocksFor]
  by_cases h : stem.length ≤ stemCap
  · rw [if_pos h, if_pos h]
  · rw [if_neg h, if_neg h, ceil_step stemCap stem.length (by decide) (by omega)]; omega

theorem writeNew_idx (s : State) (stem : Bytes) (p : Nat) (c : Bool) :
    (s.writeNew stem p c).2 = s.trie.size := rfl

theorem writeNew_old (s : State) (stem : Bytes) (p : Nat) (c : Bool) (i : Nat)
    (hi : i < s.trie.size) : (s.writeNew stem p c).1.trie[i]? = s.trie[i]? := by
  rw [writeNew_trie, Array.getElem?_append_left (by rw [Array.size_push]; omega),
    Array.getElem?_push, if_neg (by omega)]

theorem writeNew_rest (s : State) (stem : Bytes) (p : Nat) (c : Bool) :
    (s.writeNew stem p c).1.links = s.links ∧ (s.writeNew stem p c).1.hdrId = s.hdrId ∧
    (s.writeNew stem p c).1.rules = s.rules ∧ (s.writeNew stem p c).1.dflt = s.dflt ∧
    (s.writeNew stem p c).1.cfg = s.cfg := by
  unfold writeNew
  exact appendCells_rest _ _

/-! ### read-back -/

/-- reading a run of blocks that look like `tailCells chs` returns the concatenated chunks -/
theorem readTail_tailCells (t : State) : ∀ (chs : List Bytes) (fuel i : Nat),
    (∀ k, t.trie[i + k]? = (tailCells chs)[k]?) → chs.length ≤ fuel →
    t.readTail fuel i = chs.flatten
  | [], fuel, i, h, _ => by
    cases fuel with
    | zero => rfl
    | succ f =>
      have h0 := h 0
      simp [tailCells] at h0
      simp [readTail, h0]
  | [a], fuel, i, h, hf => by
    cases fuel with
    | zero => simp at hf
    | succ f =>
      have h0 := h 0
      simp [tailCells] at h0
      simp [readTail, h0]
  | a :: b :: r, fuel, i, h, hf => by
    cases fuel with
    | zero => simp at hf
    | succ f =>
      have h0 := h 0
      rw [tailCells_cons_cons] at h0
      simp only [Nat.add_zero, List.getElem?_cons_zero] at h0
      have ih := readTail_tailCells t (b :: r) f (i + 1)
        (fun k => by
          have hk := h (k + 1)
          rw [tailCells_cons_cons, List.getElem?_cons_succ] at hk
          rw [← hk]; congr 1; omega)
        (by simp only [List.length_cons] at *; omega)
      rw [readTail, h0]
      simp only [if_true, ih, List.flatten_cons]

/-- MAIN: a stem of any length written by `writeNew` is read back byte for byte -/
theorem stemAt_writeNew' (s : State) (stem : Bytes) (p : Nat) (c : Bool) :
    (s.writeNew stem p c).1.stemAt s.trie.size = stem := by
  have ht := writeNew_trie s stem p c
  generalize (s.writeNew stem p c).1 = t at ht
  have h0 : t.trie[s.trie.size]? = some (headCell stem p c) := by
    rw [ht, Array.getElem?_append_left (by rw [Array.size_push]; omega), Array.getElem?_push,
      if_pos rfl]
  unfold stemAt
  rw [h0]
  simp only [headCell]
  by_cases hl : stem.length > stemCap
  · have hne : stem.drop stemCap ≠ [] := by
      intro e; have := congrArg List.length e
      simp only [List.length_drop, List.length_nil] at this; omega
    have hto : tailsOf stem = tailCells (chunks stemCap (stem.drop stemCap)) := by
      rw [tailsOf, if_pos hl]
    have hr := readTail_tailCells t (chunks stemCap (stem.drop stemCap)) t.trie.size (s.trie.size + 1)
      (fun k => by
        rw [ht, hto, Array.getElem?_append_right (by rw [Array.size_push]; omega), Array.size_push,
          List.getElem?_toArray]
        congr 1; omega)
      (by
        have e : (tailCells (chunks stemCap (stem.drop stemCap))).toArray.size =
          (chunks stemCap (stem.drop stemCap)).length := tailCells_length _
        rw [ht, hto, Array.size_append, Array.size_push, e]; omega)
    rw [hr, chunks_flatten stemCap (by decide)]
    simp only [hl, decide_true, if_true, List.take_append_drop]
  · simp only [hl, decide_false, Bool.false_eq_true, if_false, List.append_nil]
    exact List.take_of_length_le (by omega)

/-- the statement as requested (`hs` is not needed: see `stemAt_writeNew'`) -/
theorem stemAt_writeNew (s : State) (stem : Bytes) (p : Nat) (c : Bool) (_hs : 0 < s.trie.size) :
    (s.writeNew stem p c).1.stemAt s.trie.size = stem := stemAt_writeNew' s stem p c

/-! ### old nodes read the same after `writeNew` -/

/-- `readTail` never reads past the end of storage, so any fuel ≥ the distance to the end is enough -/
theorem readTail_fuel (s : State) : ∀ (f g i : Nat),
    s.trie.size - i ≤ f → s.trie.size - i ≤ g → s.readTail f i = s.readTail g i
  | 0, g, i, hf, _ => by
    have hn : s.trie[i]? = none := Array.getElem?_eq_none (by omega)
    cases g with
    | zero => rfl
    | succ g => simp [readTail, hn]
  | f + 1, 0, i, _, hg => by
    have hn : s.trie[i]? = none := Array.getElem?_eq_none (by omega)
    simp [readTail, hn]
  | f + 1, g + 1, i, hf, hg => by
    rw [readTail, readTail, readTail_fuel s f g (i + 1) (by omega) (by omega)]

/-- two states whose tries agree below `n`, the block `n - 1` not continuing: tail reads below `n`
    agree -/
theorem readTail_agree (s t : State) (n : Nat) (hag : ∀ j, j < n → t.trie[j]? = s.trie[j]?)
    (hlast : (s.cell (n - 1)).flags.hasTail = false) :
    ∀ (f i : Nat), i < n → t.readTail f i = s.readTail f i
  | 0, _, _ => rfl
  | f + 1, i, hi => by
    rw [readTail, readTail, hag i hi]
    cases hc : s.trie[i]? with
    | none => rfl
    | some c =>
      simp only
      by_cases hh : c.flags.hasTail = true
      · have hne : i ≠ n - 1 := by
          intro e; rw [← e, cell, hc] at hlast; simp only [Option.getD_some] at hlast
          rw [hlast] at hh; cases hh
        rw [if_pos hh, if_pos hh, readTail_agree s t n hag hlast f (i + 1) (by omega)]
      · rw [if_neg hh, if_neg hh]

/-- reading an OLD node's stem is unchanged by `writeNew`, provided the last old block does not
    claim a continuation (true of every state built by the API: the last block is either a head
    without tail or the last tail of its node) -/
theorem stemAt_writeNew_other (s : State) (stem : Bytes) (p : Nat) (c : Bool) (i : Nat)
    (hi : i < s.trie.size) (hlast : (s.cell (s.trie.size - 1)).flags.hasTail = false) :
    (s.writeNew stem p c).1.stemAt i = s.stemAt i := by
  have hag := fun j (hj : j < s.trie.size) => writeNew_old s stem p c j hj
  have hsz := writeNew_size s stem p c
  generalize (s.writeNew stem p c).1 = t at hag hsz
  unfold stemAt
  rw [hag i hi]
  cases hc : s.trie[i]? with
  | none => rfl
  | some cl =>
    simp only
    by_cases hh : cl.flags.hasTail = true
    · have hne : i ≠ s.trie.size - 1 := by
        intro e; rw [← e, cell, hc] at hlast; simp only [Option.getD_some] at hlast
        rw [hlast] at hh; cases hh
      rw [if_pos hh, if_pos hh, readTail_agree s t s.trie.size hag hlast _ (i + 1) (by omega),
        readTail_fuel s t.trie.size s.trie.size (i + 1) (by omega) (by omega)]
    · rw [if_neg hh, if_neg hh]

end

#print axioms chunks_flatten
#print axioms chunks_length
#print axioms chunks_sizes
#print axioms writeNew_size
#print axioms writeNew_old
#print axioms stemAt_writeNew
#print axioms stemAt_writeNew_other

end Traph

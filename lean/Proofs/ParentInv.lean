import Proofs.InsertStep
import Proofs.DescendSpec
/-! The parent invariant on the ghost tree: every node's `parent` field is the block of its TST parent
    (the node one stem up; 0 at the top level). Siblings share the parent; the child tree of `a` has
    parent `a`. Frame lemmas, the effect of a graft, and what the invariant says about the finite map:
    the parent of the node stored under `p ++ [x]` is the node stored under `p`. -/
namespace Traph
open State

/-- the parent invariant: all nodes of the sibling tree carry `par`, the child tree of `a` carries `a` -/
def ParOk (s : State) : T → Nat → Prop
  | .nil, _ => True
  | .node a l c r, par => (s.cell a).parent = par ∧ ParOk s l par ∧ ParOk s r par ∧ ParOk s c a

@[simp] theorem ParOk.nil (s : State) (par : Nat) : ParOk s .nil par = True := rfl

theorem ParOk.node_iff (s : State) (a : Nat) (l c r : T) (par : Nat) :
    ParOk s (.node a l c r) par ↔
      ((s.cell a).parent = par ∧ ParOk s l par ∧ ParOk s r par ∧ ParOk s c a) := Iff.rfl

/-- frame: the invariant only looks at the `parent` field of the addresses of the tree -/
theorem ParOk.frame {s s' : State} : ∀ {t : T} {par : Nat}, ParOk s t par →
    (∀ a ∈ t.addrs, (s'.cell a).parent = (s.cell a).parent) → ParOk s' t par := by
  intro t
  induction t with
  | nil => intro _ _ _; trivial
  | node a l c r ihl ihc ihr =>
    intro par hp hag
    obtain ⟨h0, hl, hr, hc⟩ := hp
    refine ⟨?_, ihl hl ?_, ihr hr ?_, ihc hc ?_⟩
    · rw [hag a (by simp [T.addrs])]; exact h0
    all_goals (intro x hx; apply hag; simp [T.addrs, hx])

/-- the parent a node hooked into slot `sl` of block `q` must carry: that of `q` for a new sibling, `q`
    itself for a new child -/
def slotPar (s : State) (q : Nat) : Slot → Nat
  | .L => (s.cell q).parent
  | .R => (s.cell q).parent
  | .C => q

theorem ParOk.leaf {s : State} {b par : Nat} (h : (s.cell b).parent = par) :
    ParOk s (.node b .nil .nil .nil) par := ⟨h, trivial, trivial, trivial⟩

/-- a graft keeps the invariant when the fresh block carries the parent expected at the slot and the old
    blocks keep theirs (no `Nodup` needed: every node labelled `q` expects the same parent) -/
theorem ParOk.graft {s s' : State} {q b : Nat} {sl : Slot} : ∀ {t : T} {par : Nat}, ParOk s t par →
    (∀ a ∈ t.addrs, (s'.cell a).parent = (s.cell a).parent) →
    (s'.cell b).parent = slotPar s q sl → ParOk s' (t.graft q sl b) par := by
  intro t
  induction t with
  | nil => intro _ _ _ _; trivial
  | node a l c r ihl ihc ihr =>
    intro par hp hag hb
    obtain ⟨h0, hl, hr, hc⟩ := hp
    have hagl : ∀ x ∈ l.addrs, (s'.cell x).parent = (s.cell x).parent :=
      fun x hx => hag x (by simp [T.addrs, hx])
    have hagc : ∀ x ∈ c.addrs, (s'.cell x).parent = (s.cell x).parent :=
      fun x hx => hag x (by simp [T.addrs, hx])
    have hagr : ∀ x ∈ r.addrs, (s'.cell x).parent = (s.cell x).parent :=
      fun x hx => hag x (by simp [T.addrs, hx])
    simp only [T.graft]
    refine ⟨?_, ?_, ?_, ?_⟩
    · rw [hag a (by simp [T.addrs])]; exact h0
    · split
      · rename_i hc1
        obtain ⟨rfl, rfl, _⟩ := hc1
        exact ParOk.leaf (by rw [hb]; exact h0)
      · exact ihl hl hagl hb
    · split
      · rename_i hc1
        obtain ⟨rfl, rfl, _⟩ := hc1
        exact ParOk.leaf (by rw [hb]; exact h0)
      · exact ihr hr hagr hb
    · split
      · rename_i hc1
        obtain ⟨rfl, rfl, _⟩ := hc1
        exact ParOk.leaf (by rw [hb]; rfl)
      · exact ihc hc hagc hb

/-- the same at a `Hole` (the located form used by the insertion proofs) -/
theorem ParOk.graft_hole {s s' : State} {q b : Nat} {sl u pre lo hi pre' lo' hi'} {par : Nat}
    (_h : Hole s q sl u pre lo hi pre' lo' hi') (hp : ParOk s u par)
    (hag : ∀ a ∈ u.addrs, (s'.cell a).parent = (s.cell a).parent)
    (hb : (s'.cell b).parent = slotPar s q sl) : ParOk s' (u.graft q sl b) par :=
  hp.graft hag hb

/-- a write that keeps the `parent` field of every block keeps the invariant -/
theorem ParOk.of_parent_eq {s s' : State} {t : T} {par : Nat} (hp : ParOk s t par)
    (h : ∀ a, (s'.cell a).parent = (s.cell a).parent) : ParOk s' t par :=
  hp.frame (fun a _ => h a)

/-- `modCell` with a function that keeps `parent` -/
theorem parent_modCell (s : State) (i : Nat) (f : Cell → Cell) (hf : ∀ c, (f c).parent = c.parent) (j : Nat) :
    ((s.modCell i f).cell j).parent = (s.cell j).parent := by
  rw [cell_modCell]; split
  · exact hf _
  · rfl

theorem ParOk.modCell {s : State} {t : T} {par : Nat} (hp : ParOk s t par) (i : Nat) (f : Cell → Cell)
    (hf : ∀ c, (f c).parent = c.parent) : ParOk (s.modCell i f) t par :=
  hp.of_parent_eq (parent_modCell s i f hf)

theorem parent_setSlot (c : Cell) (sl : Slot) (v : Nat) : (c.setSlot sl v).parent = c.parent := by
  cases sl <;> rfl

theorem parent_markCanHave (s : State) (n : Nat) (b : Bool) (j : Nat) :
    ((s.markCanHave n b).cell j).parent = (s.cell j).parent := by
  unfold markCanHave; split
  · apply parent_modCell; intro c; rfl
  · rfl

theorem ParOk.markCanHave {s : State} {t : T} {par : Nat} (hp : ParOk s t par) (n : Nat) (b : Bool) :
    ParOk (s.markCanHave n b) t par :=
  hp.of_parent_eq (parent_markCanHave s n b)

/-! ### what the invariant says about the finite map -/

/-- the parent of an entry of a sibling tree: the expected parent `par` for a node of the sibling tree
    itself, otherwise the node stored under the path minus its last stem -/
theorem entry_parent_gen {s : State} : ∀ (u : T) (pre : LRU) (par : Nat) (p : LRU) (b : Nat),
    ParOk s u par → (p, b) ∈ u.entries s pre →
    (∃ x, p = pre ++ [x] ∧ (s.cell b).parent = par) ∨
    (∃ a, (p.dropLast, a) ∈ u.entries s pre ∧ (s.cell b).parent = a) := by
  intro u
  induction u with
  | nil => intro _ _ _ _ _ h; simp [T.entries] at h
  | node a l c r ihl ihc ihr =>
    intro pre par p b hp h
    obtain ⟨h0, hl, hr, hc⟩ := hp
    simp only [T.entries, List.mem_append, List.mem_cons, Prod.mk.injEq] at h
    rcases h with h | ⟨rfl, rfl⟩ | h | h
    · rcases ihl pre par p b hl h with h1 | ⟨a', h1, h2⟩
      · exact Or.inl h1
      · refine Or.inr ⟨a', ?_, h2⟩
        simp only [T.entries, List.mem_append, List.mem_cons]
        exact Or.inl h1
    · exact Or.inl ⟨_, rfl, h0⟩
    · rcases ihc (pre ++ [s.stemAt a]) a p b hc h with ⟨x, h1, h2⟩ | ⟨a', h1, h2⟩
      · refine Or.inr ⟨a, ?_, h2⟩
        simp only [T.entries, List.mem_append, List.mem_cons, Prod.mk.injEq]
        refine Or.inr (Or.inl ⟨?_, trivial⟩)
        rw [h1, List.dropLast_concat]
      · refine Or.inr ⟨a', ?_, h2⟩
        simp only [T.entries, List.mem_append, List.mem_cons]
        exact Or.inr (Or.inr (Or.inl h1))
    · rcases ihr pre par p b hr h with h1 | ⟨a', h1, h2⟩
      · exact Or.inl h1
      · refine Or.inr ⟨a', ?_, h2⟩
        simp only [T.entries, List.mem_append, List.mem_cons]
        exact Or.inr (Or.inr (Or.inr h1))

/-- the parent of the node stored under `p ++ [x]` is the node stored under `p` -/
theorem entry_parent {s : State} {t : T} (hp : ParOk s t 0) {p : LRU} {x : Stem} {b : Nat}
    (h : (p ++ [x], b) ∈ t.entries s []) (hne : p ≠ []) :
    ∃ a, (p, a) ∈ t.entries s [] ∧ (s.cell b).parent = a := by
  rcases entry_parent_gen t [] 0 _ b hp h with ⟨y, h1, _⟩ | ⟨a, h1, h2⟩
  · exfalso
    have := congrArg List.length h1
    simp at this
    exact hne this
  · rw [List.dropLast_concat] at h1
    exact ⟨a, h1, h2⟩

/-- a top-level node has parent 0 -/
theorem entry_parent_top {s : State} {t : T} (hp : ParOk s t 0) {x : Stem} {b : Nat}
    (h : ([x], b) ∈ t.entries s []) : (s.cell b).parent = 0 := by
  rcases entry_parent_gen t [] 0 _ b hp h with ⟨y, _, h2⟩ | ⟨a, h1, _⟩
  · exact h2
  · obtain ⟨y, rest, e⟩ := entries_prefix _ _ _ _ h1
    simp at e

/-- block addresses of tree nodes are not 0, so `parent = 0` unambiguously means "top level" -/
theorem entry_addr_ne_zero {s : State} {t : T} (hr : Rep s t) {pre p : LRU} {b : Nat}
    (h : (p, b) ∈ t.entries s pre) : b ≠ 0 := by
  have hm := entries_addr_mem _ _ _ _ h
  clear h
  induction t with
  | nil => simp [T.addrs] at hm
  | node a l c r ihl ihc ihr =>
    obtain ⟨ha, _, rl, rc, rr⟩ := hr
    simp only [T.addrs, List.mem_cons, List.mem_append] at hm
    rcases hm with rfl | (hm | hm) | hm
    · exact ha
    · exact ihl rl hm
    · exact ihc rc hm
    · exact ihr rr hm

/-- a node below the top level has a non-null parent -/
theorem entry_parent_ne_zero {s : State} {t : T} (hr : Rep s t) (hp : ParOk s t 0) {p : LRU} {x : Stem} {b : Nat}
    (h : (p ++ [x], b) ∈ t.entries s []) (hne : p ≠ []) : (s.cell b).parent ≠ 0 := by
  obtain ⟨a, h1, h2⟩ := entry_parent hp h hne
  rw [h2]; exact entry_addr_ne_zero hr h1

#print axioms ParOk.frame
#print axioms ParOk.graft
#print axioms entry_parent
#print axioms entry_parent_top

end Traph

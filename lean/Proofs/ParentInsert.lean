import Proofs.ParentInv
import Proofs.InsertAttrs
/-! `add_lru` preserves the parent invariant `ParOk`: a new sibling is written with the parent of the
    sibling it is hooked to, a new child with the block of its parent node, the first node of an empty trie
    with 0; old blocks keep their `parent` field. The ghost tree is the one built by `addLru_grow`. -/
namespace Traph
open State

/-! ### the write pair "append the node, hook it into the slot" -/

theorem parent_writeNew_old (s : State) (stem : Bytes) (p : Nat) (ch : Bool) (a : Nat) (ha : a < s.trie.size) :
    ((s.writeNew stem p ch).1.cell a).parent = (s.cell a).parent := by
  unfold State.cell; rw [writeNew_old s stem p ch a ha]

theorem parent_write_old (s : State) (q : Nat) (sl : Slot) (x : Stem) (par : Nat) (ch : Bool) (v : Nat)
    (a : Nat) (ha : a < s.trie.size) :
    (((s.writeNew x par ch).1.modCell q (fun c => c.setSlot sl v)).cell a).parent = (s.cell a).parent := by
  rw [parent_modCell _ _ _ (fun c => parent_setSlot c _ _), parent_writeNew_old s x par ch a ha]

theorem parent_write_new (s : State) (q : Nat) (sl : Slot) (x : Stem) (par : Nat) (ch : Bool) (v : Nat) :
    (((s.writeNew x par ch).1.modCell q (fun c => c.setSlot sl v)).cell s.trie.size).parent = par := by
  rw [parent_modCell _ _ _ (fun c => parent_setSlot c _ _), cell_writeNew_head]; rfl

/-- the write pair keeps the invariant when the fresh node is given the parent expected at the slot -/
theorem parOk_write {s : State} {t : T} {par0 : Nat} (hp : ParOk s t par0) (hr : Rep s t)
    (q : Nat) (sl : Slot) (x : Stem) (par : Nat) (ch : Bool) (hpar : par = slotPar s q sl) :
    ParOk ((s.writeNew x par ch).1.modCell q (fun c => c.setSlot sl s.trie.size))
      (t.graft q sl s.trie.size) par0 :=
  hp.graft (fun a ha => parent_write_old s q sl x par ch _ a (hr.lt_size a ha))
    (by rw [parent_write_new, hpar])

/-! ### the first loop: the parent written into the new sibling -/

theorem addLruDescend_par (flag : Bool) : ∀ (stems : List Stem) (s : State) (u : T) (pre : LRU)
    (pos : Nat) (h : Hist),
    Rep s u → u ≠ .nil → u.size ≤ s.trie.size → TailClosed s → stems ≠ [] →
    ∀ (q : Nat) (sl : Slot) (pre' : LRU) (rest' : List Stem),
      u.descend s stems pre = .fell q sl pre' rest' → sl ≠ .C →
      ((addLruDescend flag s stems u.root true pos h).1.cell s.trie.size).parent = (s.cell q).parent := by
  intro stems
  induction stems with
  | nil => intro _ _ _ _ _ _ _ _ _ h; exact absurd rfl h
  | cons stem rest ih =>
    intro s u pre pos h hr hne hsz hcl _ q sl pre' rest' hd hsl
    have hfs := findSib_eq_find (s := s) (stem := stem) u (s.trie.size + 1) hr hne (by omega)
    cases hf : u.find s stem with
    | corrupt => exact absurd hf (T.find_ne_corrupt u hne)
    | missing q0 sl0 =>
      rw [hf] at hfs
      simp only [T.descend, hf, Loc.fell.injEq] at hd
      obtain ⟨rfl, rfl, _, _⟩ := hd
      obtain ⟨c, hc, hslot⟩ := findSib_missing s stem _ _ _ _ hfs
      have hg := graftStep_write s q0 sl0 stem (s.cell q0).parent false c hc hslot hcl
      have he := ensureStem_missing s u.root stem q0 sl0 hfs
      rw [addLruDescend_cons_stop flag s stem rest u.root true pos h _ _ he (Or.inr hg.cell_child_new)]
      simp only
      rw [parent_markCanHave, parent_write_new]
    | found a =>
      rw [hf] at hfs
      have he := ensureStem_found s u.root stem a hfs
      obtain ⟨hmem, _⟩ := T.find_sound u a hf
      obtain ⟨hrc, cell, hcell, hch⟩ := Rep.childAt u a hr hmem
      have hcella : s.cell a = cell := by simp [State.cell, hcell]
      cases rest with
      | nil => simp [T.descend, hf] at hd
      | cons st2 rest2 =>
        cases hc : u.childAt a with
        | nil =>
          simp only [T.descend, hf, hc, Loc.fell.injEq] at hd
          exact absurd hd.2.1.symm hsl
        | node a' l' c' r' =>
          rw [hc] at hch hrc
          have hne0 : (s.cell a).child ≠ 0 := by rw [hcella, hch]; exact hrc.1
          rw [addLruDescend_cons_go flag s stem _ u.root true pos h _ _ he (by simp) hne0]
          have hns := noStruct_markCanHave s a
            (!(st2 :: rest2).isEmpty && flag && (s.cell a).flags.noChild)
          have hsz' : (T.node a' l' c' r').size ≤ s.trie.size := by
            have := T.childAt_size u a; rw [hc] at this; omega
          have hroot : (s.cell a).child = (T.node a' l' c' r').root := by rw [hcella, hch]
          rw [hroot]
          simp only [T.descend, hf, hc] at hd
          have := ih _ (.node a' l' c' r') (pre ++ [stem]) (pos + stem.length)
            (h.visit (s.cell a) (pos + stem.length)) (hns.rep hrc) (by simp)
            (by rw [hns.1]; exact hsz') (hns.closed hcl) (by simp) q sl pre' rest'
            (by rw [T.descend_congr hns.stemAt]; exact hd) hsl
          rw [hns.1, parent_markCanHave] at this
          exact this

/-! ### the ghost tree after the first new node, explicitly -/

/-- `grow_after_fell` with the grown tree named: the graft of the fresh block at the slot where the
    descent fell off -/
theorem grow_after_fell_graft {stems : LRU} {s0 s1 s2 s3 : State} {t : T} {q : Nat} {sl : Slot} {pre' : LRU}
    {x : Stem} {rest'' : List Stem}
    (h : Shape s0 t) (hd : t.descend s0 stems [] = .fell q sl pre' (x :: rest''))
    (n1 : NoStruct s0 s1) (g : GraftStep s1 s2 q sl x) (n2 : NoStruct s2 s3) :
    Grow stems s0 t s3 (t.graft q sl s1.trie.size) ∧
      (pre' ++ [x], s1.trie.size) ∈ (t.graft q sl s1.trie.size).entries s3 [] ∧
      (t.graft q sl s1.trie.size).childOf s1.trie.size = .nil ∧ pre' ++ x :: rest'' = stems := by
  have h1 := n1.shape h
  have hd1 : t.descend s1 stems [] = .fell q sl pre' (x :: rest'') := by
    rw [T.descend_congr n1.stemAt]; exact hd
  obtain ⟨lo', hi', hh, b1, b2⟩ :=
    T.descend_hole stems t [] none none q sl pre' x rest'' hd1 (by simp) (by simp)
  obtain ⟨_, e, _⟩ := descend_fell_suffix stems t [] q sl pre' (x :: rest'') hd
  simp only [List.nil_append] at e
  have hk : ∃ k, 0 < k ∧ k ≤ stems.length ∧ pre' ++ [x] = stems.take k := by
    refine ⟨pre'.length + 1, by omega, ?_, ?_⟩
    · rw [← e]; simp
    · rw [← e, take_append_cons]
  obtain ⟨gr, hent, hco⟩ := Grow.graft_hole (stems := stems) h1 hh b1 b2 g hk
  refine ⟨((Grow.of_noStruct h n1).trans gr).trans (Grow.of_noStruct gr.shape n2), ?_, hco, e⟩
  rw [T.entries_frame _ [] (fun a _ => n2.stemAt a)]
  exact hent

/-! ### the second loop -/

theorem addLruCreate_growP (stems : LRU) (flag : Bool) : ∀ (rest : List Stem) (s : State) (t : T) (q : Nat)
    (p : LRU), Shape s t → ParOk s t 0 → (p, q) ∈ t.entries s [] → t.childOf q = .nil → p ≠ [] →
    p ++ rest = stems →
    ∃ t', Grow stems s t (addLruCreate flag s rest q).1 t' ∧
      ParOk (addLruCreate flag s rest q).1 t' 0 ∧
      (stems, (addLruCreate flag s rest q).2) ∈ t'.entries (addLruCreate flag s rest q).1 [] := by
  intro rest
  induction rest with
  | nil =>
    intro s t q p h hp hm _ _ e
    simp only [List.append_nil] at e
    subst e
    exact ⟨t, Grow.refl h, hp, hm⟩
  | cons x rest ih =>
    intro s t q p h hp hm hc hpne e
    rw [addLruCreate_cons]
    have hh := T.child_hole (s := s) t [] none none h.nodup hm hc
    obtain ⟨c, hcq, hslot⟩ := hh.slot_empty h.rep
    have g := graftStep_write s q .C x q (!rest.isEmpty && flag) c hcq hslot h.closed
    have hk : ∃ k, 0 < k ∧ k ≤ stems.length ∧ p ++ [x] = stems.take k := by
      refine ⟨p.length + 1, by omega, ?_, ?_⟩
      · rw [← e]; simp
      · rw [← e, take_append_cons]
    obtain ⟨gr, hent, hco⟩ := Grow.graft_hole (stems := stems) h hh (by simp) (by simp) g hk
    have hp1 := parOk_write hp h.rep q .C x q (!rest.isEmpty && flag) rfl
    obtain ⟨t', gr', hp', hent'⟩ := ih _ (t.graft q .C s.trie.size) s.trie.size (p ++ [x]) gr.shape hp1 hent hco
      (by simp) (by rw [← e]; simp)
    exact ⟨t', gr.trans gr', hp', hent'⟩

/-! ### `add_lru` -/

/-- MAIN: `add_lru` preserves the parent invariant (on the ghost tree of `addLru_grow`) -/
theorem addLru_parOk {s : State} {t : T} (h : Shape s t) (hp : ParOk s t 0) (stems : LRU) (hne : stems ≠ [])
    (flag : Bool) :
    ∃ t', Grow stems s t (s.addLru stems flag).1 t' ∧ ParOk (s.addLru stems flag).1 t' 0 ∧
      (stems, (s.addLru stems flag).2.1) ∈ t'.entries (s.addLru stems flag).1 [] := by
  have key : ∀ D : State × Nat × List Stem × Hist,
      D = addLruDescend flag s stems 1 (decide (s.trie.size > 1)) 0 {} →
      ∃ t', Grow stems s t (addLruCreate flag D.1 D.2.2.1 D.2.1).1 t' ∧
        ParOk (addLruCreate flag D.1 D.2.2.1 D.2.1).1 t' 0 ∧
        (stems, (addLruCreate flag D.1 D.2.2.1 D.2.1).2) ∈
          t'.entries (addLruCreate flag D.1 D.2.2.1 D.2.1).1 [] := by
    intro D hD
    by_cases hsz : s.trie.size ≤ 1
    · -- empty trie
      have hsz1 : s.trie.size = 1 := by have := h.live; omega
      have ht := h.eq_nil hsz
      subst ht
      cases stems with
      | nil => exact absurd rfl hne
      | cons stem rest =>
        have hex : decide (s.trie.size > 1) = false := by simp; omega
        rw [hex] at hD
        have he : s.ensureStem 1 false stem = ((s.writeNew stem 0 false).1, 1) := by
          simp only [ensureStem, Bool.not_false, if_true]
          exact Prod.ext rfl (by rw [writeNew_idx]; exact hsz1)
        have hhead : (s.writeNew stem 0 false).1.trie[1]? = some (headCell stem 0 false) := by
          have := getElem?_writeNew_head s stem 0 false
          rw [hsz1] at this; exact this
        have hcell : (s.writeNew stem 0 false).1.cell 1 = headCell stem 0 false := by
          simp [State.cell, hhead]
        rw [addLruDescend_cons_stop flag s stem rest 1 false 0 {} _ _ he
          (Or.inr (by rw [hcell]; rfl))] at hD
        subst hD
        simp only
        have hlt := size_lt_writeNew s stem 0 false
        have sh1 : Shape (s.writeNew stem 0 false).1 (.node 1 .nil .nil .nil) :=
          shape_single (by omega) _ hhead rfl rfl rfl (TailClosed.writeNew s stem 0 false)
        have hstem1 : (s.writeNew stem 0 false).1.stemAt 1 = stem := by
          have := stemAt_writeNew' s stem 0 false
          rw [hsz1] at this; exact this
        have gr1 : Grow (stem :: rest) s .nil (s.writeNew stem 0 false).1 (.node 1 .nil .nil .nil) := by
          refine ⟨sh1, by omega, ?_, ?_, ?_⟩
          · intro p b hm; simp [T.entries] at hm
          · intro p b hm
            simp only [T.entries, hstem1, List.nil_append, List.append_nil, List.mem_singleton,
              Prod.mk.injEq] at hm
            exact Or.inr ⟨by omega, 1, by omega, by simp, by simp [hm.1]⟩
          · intro a ha
            exact stemAt_writeNew_other s stem 0 false a ha h.closed
        have hns := noStruct_markCanHave (s.writeNew stem 0 false).1 1
          (!rest.isEmpty && flag && ((s.writeNew stem 0 false).1.cell 1).flags.noChild)
        have gr2 := gr1.trans (Grow.of_noStruct (stems := stem :: rest) sh1 hns)
        have hent : ([stem], 1) ∈ (T.node 1 .nil .nil .nil).entries
            ((s.writeNew stem 0 false).1.markCanHave 1
              (!rest.isEmpty && flag && ((s.writeNew stem 0 false).1.cell 1).flags.noChild)) [] := by
          simp [T.entries, hns.stemAt, hstem1]
        have hp1 : ParOk (s.writeNew stem 0 false).1 (.node 1 .nil .nil .nil) 0 :=
          ParOk.leaf (by rw [hcell]; rfl)
        have hp2 := hp1.markCanHave 1
          (!rest.isEmpty && flag && ((s.writeNew stem 0 false).1.cell 1).flags.noChild)
        obtain ⟨t', gr', hp', hent'⟩ := addLruCreate_growP (stem :: rest) flag rest _ _ 1 [stem] gr2.shape
          hp2 hent (by simp [T.childOf]) (by simp) (by simp)
        exact ⟨t', gr2.trans gr', hp', hent'⟩
    · -- non-empty trie: descend from block 1
      have hex : decide (s.trie.size > 1) = true := by simp; omega
      rw [hex] at hD
      have hroot := h.root
      rw [if_neg hsz] at hroot
      have htne : t ≠ .nil := by intro e; subst e; simp at hroot
      have spec := addLruDescend_spec flag stems s t [] 0 {} h.rep htne h.size_le h.closed hne
      have hpar := addLruDescend_par flag stems s t [] 0 {} h.rep htne h.size_le h.closed hne
      rw [hroot, ← hD] at spec hpar
      have hold : ∀ a ∈ t.addrs, (D.1.cell a).parent = (s.cell a).parent := by
        intro a ha
        rw [hD]
        exact ((attrStep_addLruDescend flag stems s 1 true 0 {}).old a (h.rep.lt_size a ha)).parent
      obtain ⟨S, nd, rst, hi⟩ := D
      simp only at hold hpar ⊢
      cases hd : t.descend s stems [] with
      | corrupt => rw [hd] at spec; exact absurd spec (by simp [DescSpec])
      | found b =>
        rw [hd] at spec
        simp only [DescSpec] at spec
        obtain ⟨n1, rfl, rfl⟩ := spec
        have hm := descend_found_mem stems t [] nd hd
        simp only [List.nil_append] at hm
        have gr := Grow.of_noStruct (stems := stems) h n1
        exact ⟨t, gr, hp.frame hold, gr.keep _ _ hm⟩
      | fell q sl pre' rest' =>
        rw [hd] at spec
        simp only [DescSpec] at spec
        obtain ⟨hrne, _, _⟩ := descend_fell_suffix stems t [] q sl pre' rest' hd
        cases rest' with
        | nil => exact absurd rfl hrne
        | cons x rest'' =>
          by_cases hC : sl = .C
          · rw [if_pos hC] at spec
            subst hC
            obtain ⟨n1, rfl, rfl⟩ := spec
            rw [addLruCreate_cons]
            have hd1 : t.descend S stems [] = .fell nd .C pre' (x :: rest'') := by
              rw [T.descend_congr n1.stemAt]; exact hd
            obtain ⟨_, _, hh, _, _⟩ :=
              T.descend_hole stems t [] none none nd .C pre' x rest'' hd1 (by simp) (by simp)
            obtain ⟨c, hcq, hslot⟩ := hh.slot_empty (n1.rep h.rep)
            have g := graftStep_write S nd .C x nd (!rest''.isEmpty && flag) c hcq hslot
              (n1.closed h.closed)
            obtain ⟨gr, hent, hco, e⟩ := grow_after_fell_graft h hd n1 g (NoStruct.refl _)
            have hpS : ParOk S t 0 := hp.frame hold
            have hp1 := parOk_write hpS (n1.rep h.rep) nd .C x nd (!rest''.isEmpty && flag) rfl
            obtain ⟨t', gr', hp', hent'⟩ := addLruCreate_growP stems flag rest'' _ _ S.trie.size
              (pre' ++ [x]) gr.shape hp1 hent hco (by simp) (by rw [← e]; simp)
            exact ⟨t', gr.trans gr', hp', hent'⟩
          · rw [if_neg hC] at spec
            obtain ⟨x', rest3, s1, s2, e0, n1, g, n2, rfl, rfl⟩ := spec
            obtain ⟨rfl, rfl⟩ := List.cons.inj e0
            obtain ⟨gr, hent, hco, e⟩ := grow_after_fell_graft h hd n1 g n2
            have hb : (S.cell s1.trie.size).parent = slotPar s q sl := by
              rw [n1.1, hpar q sl pre' _ hd hC]
              cases sl with
              | C => exact absurd rfl hC
              | L => rfl
              | R => rfl
            have hp1 : ParOk S (t.graft q sl s1.trie.size) 0 := hp.graft hold hb
            obtain ⟨t', gr', hp', hent'⟩ := addLruCreate_growP stems flag rest'' S _ s1.trie.size
              (pre' ++ [x]) gr.shape hp1 hent hco (by simp) (by rw [← e]; simp)
            exact ⟨t', gr.trans gr', hp', hent'⟩
  exact key _ rfl

/-- the two invariants together, in the form used to chain insertions -/
theorem addLru_shape_parOk {s : State} {t : T} (h : Shape s t) (hp : ParOk s t 0) (stems : LRU)
    (hne : stems ≠ []) (flag : Bool) :
    ∃ t', Shape (s.addLru stems flag).1 t' ∧ ParOk (s.addLru stems flag).1 t' 0 ∧
      (stems, (s.addLru stems flag).2.1) ∈ t'.entries (s.addLru stems flag).1 [] := by
  obtain ⟨t', gr, hp', hent⟩ := addLru_parOk h hp stems hne flag
  exact ⟨t', gr.shape, hp', hent⟩

/-- the empty trie satisfies the parent invariant -/
theorem parOk_nil (s : State) : ParOk s .nil 0 := trivial

#print axioms addLruDescend_par
#print axioms addLru_parOk

end Traph

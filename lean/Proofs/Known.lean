import Proofs.PageSet
import Proofs.SizesGrowth
import Proofs.SizesLinks
import Proofs.IdsFrame
/-! C02 / C19 at the level of histories, part 1: the vocabulary.
    * `Known s t p`   — the LRU (stem list) `p` is a key of the finite map denoted by the ghost tree;
    * `Covered L p`   — `p` is a non-empty stem-prefix of one of the LRUs of `L`;
    * `Good s t`      — `Shape` together with the block accounting invariant `SizeOk`;
    * `KStep L s t s' t'` — "`Good` kept, old entries kept at their blocks, every new entry at a fresh
      block, and the set of keys grew by exactly the prefix closure of `L`"; transitive, with the lists
      of named LRUs appended;
    * `add_lru stems` is a `KStep [stems]`; every non-structural write is a `KStep []`;
    * the accounting invariant written over the *keys* (`SizeOk` only looks at the last stem of each key),
      so that the size of the trie store is a function of the set of known LRUs. -/
namespace Traph
open State Layout

/-! ### known LRUs, prefix closure -/

/-- `p` is stored: a key of the finite map denoted by the tree -/
def Known (s : State) (t : T) (p : LRU) : Prop := ∃ b, (p, b) ∈ t.entries s []

/-- `p` is a non-empty stem-prefix of an LRU of `L` -/
def Covered (L : List LRU) (p : LRU) : Prop := p ≠ [] ∧ ∃ l ∈ L, p <+: l

theorem Known.ne_nil {s : State} {t : T} {p : LRU} (h : Known s t p) : p ≠ [] := by
  obtain ⟨b, hb⟩ := h
  obtain ⟨x, rest, e⟩ := entries_prefix t [] p b hb
  rw [e]; simp

/-- the stored LRUs are closed under non-empty stem-prefixes -/
theorem Known.of_prefix {s : State} {t : T} {p q : LRU} (h : Known s t p) (hq : q ≠ []) (hp : q <+: p) :
    Known s t q := by
  obtain ⟨b, hb⟩ := h
  have e := List.prefix_iff_eq_take.mp hp
  have hl : 0 < q.length := List.length_pos_iff.mpr hq
  obtain ⟨b', hb'⟩ := entries_prefix_closed t [] p b hb q.length (by simpa using hl) hp.length_le
  exact ⟨b', by rw [e]; exact hb'⟩

theorem not_known_nil (s : State) (p : LRU) : ¬ Known s .nil p := by
  rintro ⟨b, hb⟩; simp [T.entries] at hb

theorem covered_nil (p : LRU) : ¬ Covered [] p := by
  rintro ⟨_, l, hl, _⟩; simp at hl

theorem covered_append (A B : List LRU) (p : LRU) : Covered (A ++ B) p ↔ Covered A p ∨ Covered B p := by
  unfold Covered
  constructor
  · rintro ⟨hp, l, hl, hpl⟩
    rcases List.mem_append.mp hl with hl | hl
    · exact Or.inl ⟨hp, l, hl, hpl⟩
    · exact Or.inr ⟨hp, l, hl, hpl⟩
  · rintro (⟨hp, l, hl, hpl⟩ | ⟨hp, l, hl, hpl⟩)
    · exact ⟨hp, l, List.mem_append_left _ hl, hpl⟩
    · exact ⟨hp, l, List.mem_append_right _ hl, hpl⟩

theorem covered_cons (a : LRU) (A : List LRU) (p : LRU) : Covered (a :: A) p ↔ Covered [a] p ∨ Covered A p :=
  covered_append [a] A p

theorem Covered.mono {A B : List LRU} {p : LRU} (h : Covered A p) (hs : ∀ l ∈ A, l ∈ B) : Covered B p := by
  obtain ⟨hp, l, hl, hpl⟩ := h
  exact ⟨hp, l, hs l hl, hpl⟩

theorem covered_congr {A B : List LRU} (h : ∀ l, l ∈ A ↔ l ∈ B) (p : LRU) : Covered A p ↔ Covered B p :=
  ⟨fun hc => hc.mono (fun l hl => (h l).mp hl), fun hc => hc.mono (fun l hl => (h l).mpr hl)⟩

theorem Covered.of_prefix {L : List LRU} {p q : LRU} (h : Covered L p) (hq : q ≠ []) (hp : q <+: p) :
    Covered L q := by
  obtain ⟨_, l, hl, hpl⟩ := h
  exact ⟨hq, l, hl, hp.trans hpl⟩

theorem covered_single (stems p : LRU) : Covered [stems] p ↔ p ≠ [] ∧ p <+: stems := by
  unfold Covered
  constructor
  · rintro ⟨hp, l, hl, hpl⟩
    rw [List.mem_singleton] at hl; subst hl
    exact ⟨hp, hpl⟩
  · rintro ⟨hp, hpl⟩
    exact ⟨hp, stems, List.mem_singleton.mpr rfl, hpl⟩

theorem covered_single_nil (p : LRU) : ¬ Covered [[]] p := by
  rw [covered_single]
  rintro ⟨hp, hpl⟩
  exact hp (List.prefix_nil.mp hpl)

theorem covered_take {stems : LRU} {k : Nat} (h0 : 0 < k) (hk : k ≤ stems.length) :
    Covered [stems] (stems.take k) := by
  rw [covered_single]
  refine ⟨?_, List.take_prefix k stems⟩
  intro e
  have := congrArg List.length e
  rw [List.length_take, List.length_nil] at this
  omega

theorem covered_self {L : List LRU} {l : LRU} (hl : l ∈ L) (hne : l ≠ []) : Covered L l :=
  ⟨hne, l, hl, List.prefix_refl l⟩

/-! ### the invariant of reachable states and the step relation -/

/-- shape invariant, block accounting invariant, and well-formed stored stems (every stored stem was cut
    by `lru_iter`) together: what holds of every reachable state, whatever the requests -/
structure Good (s : State) (t : T) : Prop where
  shape : Shape s t
  sizeOk : SizeOk s t
  wf : WfStems s t

theorem good_of_trie_init (s : State) (h : s.trie = #[{}]) : Good s .nil :=
  ⟨shape_of_trie_init s h, sizeOk_of_trie_init s h, fun p b hm => by simp [T.entries] at hm⟩

theorem good_init : Good ({} : State) .nil := good_of_trie_init _ rfl

/-- `Good` kept, old entries kept where they are, new entries at fresh blocks only, and the set of keys
    grows by exactly the non-empty stem-prefixes of the LRUs of `L` -/
structure KStep (L : List LRU) (s : State) (t : T) (s' : State) (t' : T) : Prop where
  good : Good s' t'
  size : s.trie.size ≤ s'.trie.size
  keep : ∀ p b, (p, b) ∈ t.entries s [] → (p, b) ∈ t'.entries s' []
  fresh : ∀ p b, (p, b) ∈ t'.entries s' [] → (p, b) ∈ t.entries s [] ∨ s.trie.size ≤ b
  known : ∀ p, Known s' t' p ↔ Known s t p ∨ Covered L p

theorem KStep.refl {s : State} {t : T} (g : Good s t) : KStep [] s t s t :=
  ⟨g, Nat.le_refl _, fun _ _ h => h, fun _ _ h => Or.inl h,
    fun p => ⟨Or.inl, fun h => h.elim id (fun hc => absurd hc (covered_nil p))⟩⟩

theorem KStep.trans {A B : List LRU} {s0 s1 s2 : State} {t0 t1 t2 : T}
    (h1 : KStep A s0 t0 s1 t1) (h2 : KStep B s1 t1 s2 t2) : KStep (A ++ B) s0 t0 s2 t2 where
  good := h2.good
  size := Nat.le_trans h1.size h2.size
  keep := fun p b hm => h2.keep p b (h1.keep p b hm)
  fresh := fun p b hm => by
    rcases h2.fresh p b hm with h | h
    · exact h1.fresh p b h
    · exact Or.inr (Nat.le_trans h1.size h)
  known := fun p => by
    rw [h2.known, h1.known, covered_append]
    exact or_assoc

theorem KStep.ext {L : List LRU} {s s' : State} {t t' : T} (h : KStep L s t s' t') : Ext s t s' t' :=
  ⟨h.good.shape, h.size, h.keep⟩

/-- the list of named LRUs only matters through what it adds to the stored set -/
theorem KStep.congr {A B : List LRU} {s s' : State} {t t' : T} (h : KStep A s t s' t')
    (e : ∀ p, (Known s t p ∨ Covered A p) ↔ (Known s t p ∨ Covered B p)) : KStep B s t s' t' :=
  ⟨h.good, h.size, h.keep, h.fresh, fun p => (h.known p).trans (e p)⟩

theorem KStep.of_mem {A B : List LRU} {s s' : State} {t t' : T} (h : KStep A s t s' t')
    (e : ∀ l, l ∈ A ↔ l ∈ B) : KStep B s t s' t' :=
  h.congr (fun p => by rw [covered_congr e])

theorem KStep.trans_nil {A : List LRU} {s0 s1 s2 : State} {t0 t1 t2 : T}
    (h1 : KStep A s0 t0 s1 t1) (h2 : KStep [] s1 t1 s2 t2) : KStep A s0 t0 s2 t2 := by
  have := h1.trans h2
  rwa [List.append_nil] at this

theorem KStep.nil_trans {A : List LRU} {s0 s1 s2 : State} {t0 t1 t2 : T}
    (h1 : KStep [] s0 t0 s1 t1) (h2 : KStep A s1 t1 s2 t2) : KStep A s0 t0 s2 t2 := h1.trans h2

/-- naming LRUs that are already stored (or that cut into no stem at all) adds nothing -/
theorem KStep.absorb {A B : List LRU} {s s' : State} {t t' : T} (h : KStep (A ++ B) s t s' t')
    (hB : ∀ l ∈ B, l ≠ [] → Known s t l) : KStep A s t s' t' := by
  refine h.congr (fun p => ?_)
  rw [covered_append]
  constructor
  · rintro (h1 | h1 | ⟨hp, l, hl, hpl⟩)
    · exact Or.inl h1
    · exact Or.inr h1
    · have hne : l ≠ [] := by
        intro e; subst e; exact hp (List.prefix_nil.mp hpl)
      exact Or.inl ((hB l hl hne).of_prefix hp hpl)
  · rintro (h1 | h1)
    · exact Or.inl h1
    · exact Or.inr (Or.inl h1)

/-! ### primitive steps -/

theorem KStep.of_noStruct {s s' : State} {t : T} (g : Good s t) (n : NoStruct s s') : KStep [] s t s' t := by
  have e := n.entries t []
  refine ⟨⟨n.shape g.shape, g.sizeOk.noStruct n, fun p b hm => by rw [e] at hm; exact g.wf p b hm⟩,
    Nat.le_of_eq n.1.symm, ?_, ?_, ?_⟩
  · intro p b hm; rw [e]; exact hm
  · intro p b hm; rw [e] at hm; exact Or.inl hm
  · intro p
    unfold Known
    rw [e]
    exact ⟨Or.inl, fun h => h.elim id (fun hc => absurd hc (covered_nil p))⟩

theorem KStep.of_trie_eq {s s' : State} {t : T} (g : Good s t) (e : s'.trie = s.trie) : KStep [] s t s' t :=
  KStep.of_noStruct g (noStruct_of_trie_eq e)

/-- a block rewrite that touches neither pointers nor stem bytes -/
theorem kstep_modCell {s : State} {t : T} (g : Good s t) (i : Nat) (f : Cell → Cell)
    (hf : ∀ c, (f c).left = c.left ∧ (f c).right = c.right ∧ (f c).child = c.child ∧
      (f c).chunk = c.chunk ∧ (f c).flags.hasTail = c.flags.hasTail) : KStep [] s t (s.modCell i f) t :=
  KStep.of_noStruct g (Traph.noStruct_modCell s i f hf)

theorem kstep_foldl_modCell {α : Type} (idx : α → Nat) (f : α → Cell → Cell)
    (hf : ∀ a c, ((f a c).left = c.left ∧ (f a c).right = c.right ∧ (f a c).child = c.child ∧
      (f a c).chunk = c.chunk ∧ (f a c).flags.hasTail = c.flags.hasTail)) :
    ∀ (l : List α) (s : State) (t : T), Good s t →
      KStep [] s t (l.foldl (fun st a => st.modCell (idx a) (f a)) s) t
  | [], s, t, g => KStep.refl g
  | a :: l, s, t, g => by
    rw [List.foldl_cons]
    have k := kstep_modCell g (idx a) (f a) (hf a)
    exact k.trans_nil (kstep_foldl_modCell idx f hf l _ t k.good)

/-- MAIN (one insertion): `add_lru stems` stores exactly the non-empty prefixes of `stems` on top of what
    was stored; the returned block is the node of `stems` -/
theorem kstep_addLru {s : State} {t : T} (g : Good s t) (stems : LRU) (flag : Bool)
    (hst : ∀ x ∈ stems, StemWf x) :
    ∃ t', KStep [stems] s t (s.addLru stems flag).1 t' ∧
      (stems ≠ [] → (stems, (s.addLru stems flag).2.1) ∈ t'.entries (s.addLru stems flag).1 []) := by
  by_cases hne : stems = []
  · subst hne
    rw [addLru_nil]
    refine ⟨t, (KStep.refl g).congr (fun p => ?_), fun h => absurd rfl h⟩
    exact ⟨fun h => h.elim Or.inl (fun hc => absurd hc (covered_nil p)),
      fun h => h.elim Or.inl (fun hc => absurd hc (covered_single_nil p))⟩
  · obtain ⟨t', gr, hz', hent⟩ := addLru_sizeOk g.shape g.sizeOk stems hne flag
    refine ⟨t', ⟨⟨gr.shape, hz', ?_⟩, gr.size, gr.keep, ?_, ?_⟩, fun _ => hent⟩
    · intro p b hm x hx
      rcases gr.new p b hm with h1 | ⟨_, k, _, _, rfl⟩
      · exact g.wf p b h1 x hx
      · exact hst x (List.mem_of_mem_take hx)
    · intro p b hm
      rcases gr.new p b hm with h | ⟨hb, _⟩
      · exact Or.inl h
      · exact Or.inr hb
    · intro p
      constructor
      · rintro ⟨b, hb⟩
        rcases gr.new p b hb with h | ⟨_, k, k0, k1, rfl⟩
        · exact Or.inl ⟨b, h⟩
        · exact Or.inr (covered_take k0 k1)
      · rintro (⟨b, hb⟩ | hc)
        · exact ⟨b, gr.keep p b hb⟩
        · obtain ⟨hp, hpl⟩ := (covered_single stems p).mp hc
          exact Known.of_prefix ⟨_, hent⟩ hp hpl

/-! ### the accounting invariant over the keys: the size is a function of the set of stored LRUs -/

/-- blocks taken by the node of the LRU `p`: those of its last stem -/
def lruBlocks (p : LRU) : Nat := blocksFor (p.getLast?.getD [])

theorem entry_last {s : State} {t : T} (h : Shape s t) {p : LRU} {b : Nat} (hm : (p, b) ∈ t.entries s []) :
    p.getLast?.getD [] = s.stemAt b := by
  obtain ⟨q, e, _⟩ := entries_last_and_ptrs t [] p b h.rep hm
  rw [e]; simp

/-- the keys of the finite map, in entry order -/
def T.keys (s : State) (t : T) : List LRU := (t.entries s []).map (·.1)

theorem mem_keys {s : State} {t : T} {p : LRU} : p ∈ t.keys s ↔ Known s t p := by
  unfold T.keys Known
  rw [List.mem_map]
  constructor
  · rintro ⟨⟨q, b⟩, hm, rfl⟩; exact ⟨b, hm⟩
  · rintro ⟨b, hm⟩; exact ⟨(p, b), hm, rfl⟩

/-- no LRU is stored twice -/
theorem keys_nodup {s : State} {t : T} (h : Shape s t) : (t.keys s).Nodup := by
  have hp : ((t.entries s []).map (·.2)).Nodup := (entries_addrs_perm (s := s) t []).nodup_iff.mpr h.nodup
  unfold T.keys
  unfold List.Nodup at hp ⊢
  rw [List.pairwise_map] at hp ⊢
  refine List.Pairwise.imp_of_mem ?_ hp
  intro x y hx hy hne e
  apply hne
  have hx' : (x.1, x.2) ∈ t.entries s [] := hx
  have hy' : (x.1, y.2) ∈ t.entries s [] := by rw [e]; exact hy
  exact entries_path_injective h.ord h.nodup hx' hy'

/-- the accounting invariant in terms of the keys alone -/
theorem sizeOk_keys {s : State} {t : T} (g : Good s t) :
    s.trie.size = 1 + ((t.keys s).map lruBlocks).sum := by
  have hz := g.sizeOk
  unfold SizeOk at hz
  rw [hz]
  congr 1
  unfold T.keys
  rw [List.map_map]
  congr 1
  apply List.map_congr_left
  intro pb hm
  show blocksFor (s.stemAt pb.2) = lruBlocks pb.1
  unfold lruBlocks
  rw [entry_last g.shape (p := pb.1) (b := pb.2) hm]

/-- the size of the trie store is a function of the *set* of stored LRUs: one header block plus the
    blocks of the last stem of each, over any duplicate-free enumeration of that set -/
theorem size_of_known {s : State} {t : T} (g : Good s t) (K : List LRU) (hnd : K.Nodup)
    (hK : ∀ p, p ∈ K ↔ Known s t p) : s.trie.size = 1 + (K.map lruBlocks).sum := by
  rw [sizeOk_keys g]
  congr 1
  apply List.Perm.sum_nat
  apply List.Perm.map
  exact (List.perm_ext_iff_of_nodup (keys_nodup g.shape) hnd).mpr (fun p => by rw [mem_keys, hK])

/-- two good states storing the same set of LRUs have trie stores of the same size -/
theorem size_eq_of_same_known {s s' : State} {t t' : T} (g : Good s t) (g' : Good s' t')
    (h : ∀ p, Known s' t' p ↔ Known s t p) : s'.trie.size = s.trie.size := by
  rw [size_of_known g' (t.keys s) (keys_nodup g.shape) (fun p => by rw [mem_keys, h])]
  exact (sizeOk_keys g).symm

/-- a step that names only stored LRUs allocates no trie block -/
theorem KStep.size_eq {L : List LRU} {s s' : State} {t t' : T} (g : Good s t) (k : KStep L s t s' t')
    (hL : ∀ l ∈ L, l ≠ [] → Known s t l) : s'.trie.size = s.trie.size := by
  apply size_eq_of_same_known g k.good
  intro p
  rw [k.known]
  constructor
  · rintro (h | ⟨hp, l, hl, hpl⟩)
    · exact h
    · have hne : l ≠ [] := by
        intro e; subst e; exact hp (List.prefix_nil.mp hpl)
      exact (hL l hl hne).of_prefix hp hpl
  · exact Or.inl

/-! ### an explicit duplicate-free enumeration of the prefix closure -/

def dedup {α : Type} [DecidableEq α] : List α → List α
  | [] => []
  | a :: l => if a ∈ dedup l then dedup l else a :: dedup l

theorem mem_dedup {α : Type} [DecidableEq α] (x : α) : ∀ l : List α, x ∈ dedup l ↔ x ∈ l
  | [] => by simp [dedup]
  | a :: l => by
    unfold dedup
    split
    · rename_i h
      rw [mem_dedup x l, List.mem_cons]
      constructor
      · exact Or.inr
      · rintro (rfl | h')
        · exact (mem_dedup _ l).mp h
        · exact h'
    · rw [List.mem_cons, List.mem_cons, mem_dedup x l]

theorem nodup_dedup {α : Type} [DecidableEq α] : ∀ l : List α, (dedup l).Nodup
  | [] => by simp [dedup]
  | a :: l => by
    unfold dedup
    split
    · exact nodup_dedup l
    · rename_i h
      exact List.nodup_cons.mpr ⟨h, nodup_dedup l⟩

/-- all non-empty stem-prefixes of the LRUs of `L`, each once -/
def prefixClosure (L : List LRU) : List LRU :=
  dedup (L.flatMap (fun l => (List.range' 1 l.length).map (fun k => l.take k)))

theorem prefixClosure_nodup (L : List LRU) : (prefixClosure L).Nodup := nodup_dedup _

theorem mem_prefixClosure (L : List LRU) (p : LRU) : p ∈ prefixClosure L ↔ Covered L p := by
  unfold prefixClosure
  rw [mem_dedup, List.mem_flatMap]
  constructor
  · rintro ⟨l, hl, hp⟩
    obtain ⟨k, hk, rfl⟩ := List.mem_map.mp hp
    rw [List.mem_range'_1] at hk
    exact (covered_take (stems := l) (by omega) (by omega)).mono
      (fun x hx => by rw [List.mem_singleton] at hx; subst hx; exact hl)
  · rintro ⟨hp, l, hl, hpl⟩
    refine ⟨l, hl, List.mem_map.mpr ⟨p.length, ?_, (List.prefix_iff_eq_take.mp hpl).symm⟩⟩
    rw [List.mem_range'_1]
    have := hpl.length_le
    have : 0 < p.length := List.length_pos_iff.mpr hp
    omega

end Traph

import Proofs.PagesApi
import Proofs.WeMapBulk
/-! Chains of heap steps. Every write of `add_lru` / `__add_page` / `__create_webentity` is either a
    `NoStruct` step (attribute bits only) or a `GraftStep` (one fresh node hooked into one empty slot).
    `Chain s s' gs` records such a sequence together with the list `gs` of grafts performed, so that ANY
    represented ghost (sub)tree `u` of `s` can be carried along: `applyGrafts gs u` is represented in `s'`
    (`Chain.rep`), has the same root, the same pre-order on the old blocks (`Chain.pre_filter`), and a
    duplicate-free family of disjoint subtrees stays so (`Chain.fam`).
    Used by `Proofs/RuleInstall.lean` for the walk of `add_webentity_creation_rule`, whose pending stack
    lives in a trie that grows under it. -/
set_option linter.unusedSimpArgs false
namespace Traph
open State

/-! ### chains -/

inductive Chain : State → State → List (Nat × Slot × Nat) → Prop
  | refl (s : State) : Chain s s []
  | ns {s s' s'' : State} {gs : List (Nat × Slot × Nat)} :
      NoStruct s s' → Chain s' s'' gs → Chain s s'' gs
  | gr {s s' s'' : State} {q : Nat} {sl : Slot} {x : Stem} {gs : List (Nat × Slot × Nat)} :
      GraftStep s s' q sl x → Chain s' s'' gs → Chain s s'' ((q, sl, s.trie.size) :: gs)

theorem Chain.trans {a b c : State} {g1 g2 : List (Nat × Slot × Nat)}
    (h1 : Chain a b g1) (h2 : Chain b c g2) : Chain a c (g1 ++ g2) := by
  induction h1 with
  | refl s => simpa using h2
  | ns n _ ih => exact Chain.ns n (ih h2)
  | gr g _ ih => exact Chain.gr g (ih h2)

theorem Chain.of_noStruct {s s' : State} (n : NoStruct s s') : Chain s s' [] :=
  Chain.ns n (Chain.refl s')

theorem Chain.of_graft {s s' : State} {q : Nat} {sl : Slot} {x : Stem} (g : GraftStep s s' q sl x) :
    Chain s s' [(q, sl, s.trie.size)] :=
  Chain.gr g (Chain.refl s')

theorem Chain.size_le {s s' : State} {gs : List (Nat × Slot × Nat)} (h : Chain s s' gs) :
    s.trie.size ≤ s'.trie.size := by
  induction h with
  | refl s => exact Nat.le_refl _
  | ns n _ ih => rw [← n.1]; exact ih
  | gr g _ ih => exact Nat.le_trans (Nat.le_of_lt g.size_lt) ih

/-- the ghost counterpart of a chain, applicable to any (sub)tree -/
def applyGrafts (gs : List (Nat × Slot × Nat)) (u : T) : T :=
  gs.foldl (fun u g => u.graft g.1 g.2.1 g.2.2) u

@[simp] theorem applyGrafts_nil (u : T) : applyGrafts [] u = u := rfl

@[simp] theorem applyGrafts_cons (g : Nat × Slot × Nat) (gs : List (Nat × Slot × Nat)) (u : T) :
    applyGrafts (g :: gs) u = applyGrafts gs (u.graft g.1 g.2.1 g.2.2) := rfl

theorem applyGrafts_root (gs : List (Nat × Slot × Nat)) : ∀ (u : T), (applyGrafts gs u).root = u.root := by
  induction gs with
  | nil => intro u; rfl
  | cons g gs ih => intro u; rw [applyGrafts_cons, ih, T.root_graft]

theorem applyGrafts_nil_tree (gs : List (Nat × Slot × Nat)) : applyGrafts gs .nil = .nil := by
  induction gs with
  | nil => rfl
  | cons g gs ih => rw [applyGrafts_cons]; exact ih

theorem Rep.eq_nil_of_root {s : State} {u : T} (hr : Rep s u) (h0 : u.root = 0) : u = .nil := by
  cases u with
  | nil => rfl
  | node a l c r => exact absurd h0 hr.1

theorem applyGrafts_ne_nil {s : State} (gs : List (Nat × Slot × Nat)) {u : T} (hr : Rep s u) (hn : u ≠ .nil) :
    applyGrafts gs u ≠ .nil := by
  intro e
  have h1 := applyGrafts_root gs u
  rw [e] at h1
  exact hn (hr.eq_nil_of_root h1.symm)

/-- one graft step keeps any represented tree represented -/
theorem GraftStep.rep {s s' : State} {q : Nat} {sl : Slot} {x : Stem} (g : GraftStep s s' q sl x)
    {u : T} (hr : Rep s u) : Rep s' (u.graft q sl s.trie.size) := by
  obtain ⟨cq, hcq, hslot, hq'⟩ := g.cq
  obtain ⟨f, hf, f1, f2, f3⟩ := g.fresh
  have hq : q < s.trie.size := (Array.getElem?_eq_some_iff.mp hcq).1
  exact hr.graft_write q sl _ rfl cq hcq hslot hq' g.old f hf ⟨f1, f2, f3⟩ (by omega)

theorem Chain.rep {s s' : State} {gs : List (Nat × Slot × Nat)} (h : Chain s s' gs) :
    ∀ {u : T}, Rep s u → Rep s' (applyGrafts gs u) := by
  induction h with
  | refl s => intro u hr; exact hr
  | ns n _ ih => intro u hr; exact ih (n.rep hr)
  | gr g _ ih => intro u hr; rw [applyGrafts_cons]; exact ih (g.rep hr)

/-! ### the pre-order of a tree restricted to old blocks -/

theorem T.pre_frame {s s' : State} : ∀ (t : T) (lru : Bytes),
    (∀ a ∈ t.addrs, s'.stemAt a = s.stemAt a) → t.pre s' lru = t.pre s lru := by
  intro t
  induction t with
  | nil => intro _ _; rfl
  | node a l c r ihl ihc ihr =>
    intro lru hag
    have ha : s'.stemAt a = s.stemAt a := hag a (by simp [T.addrs])
    simp only [T.pre, ha]
    rw [ihl lru (fun x hx => hag x (by simp [T.addrs, hx])),
        ihc _ (fun x hx => hag x (by simp [T.addrs, hx])),
        ihr lru (fun x hx => hag x (by simp [T.addrs, hx]))]

/-- blocks below `N` of the pre-order -/
def oldOnly (N : Nat) (l : List (Nat × Bytes)) : List (Nat × Bytes) := l.filter (fun e => decide (e.1 < N))

theorem oldOnly_append (N : Nat) (a b : List (Nat × Bytes)) : oldOnly N (a ++ b) = oldOnly N a ++ oldOnly N b :=
  List.filter_append _ _

theorem oldOnly_self {s : State} {u : T} (hr : Rep s u) (N : Nat) (hN : s.trie.size ≤ N) (lru : Bytes) :
    oldOnly N (u.pre s lru) = u.pre s lru := by
  unfold oldOnly
  rw [List.filter_eq_self]
  intro e he
  have h1 : e.1 ∈ (u.pre s lru).map (·.1) := List.mem_map.mpr ⟨e, he, rfl⟩
  have h2 := (pre_addrs_perm u lru).mem_iff.mp h1
  have := hr.lt_size e.1 h2
  simp only [decide_eq_true_eq]; omega

theorem GraftStep.pre_filter {s s' : State} {q : Nat} {sl : Slot} {x : Stem} (g : GraftStep s s' q sl x)
    (N : Nat) (hN : N ≤ s.trie.size) : ∀ (u : T) (lru : Bytes), Rep s u →
    oldOnly N ((u.graft q sl s.trie.size).pre s' lru) = oldOnly N (u.pre s lru) := by
  intro u
  induction u with
  | nil => intro _ _; rfl
  | node a l c r ihl ihc ihr =>
    intro lru hr
    obtain ⟨ha, ⟨cell, hc, h1, h2, h3⟩, rl, rc, rr⟩ := hr
    have hal : a < s.trie.size := (Array.getElem?_eq_some_iff.mp hc).1
    have hst : s'.stemAt a = s.stemAt a := g.stems a hal
    have key : ∀ (w : T) (cond : Prop) [Decidable cond] (y : Bytes), Rep s w → (cond → w.root = 0) →
        (∀ y, oldOnly N ((w.graft q sl s.trie.size).pre s' y) = oldOnly N (w.pre s y)) →
        oldOnly N ((if cond then T.node s.trie.size .nil .nil .nil else w.graft q sl s.trie.size).pre s' y)
          = oldOnly N (w.pre s y) := by
      intro w cond _ y hw h0 ih
      split
      · rename_i hcnd
        have := hw.eq_nil_of_root (h0 hcnd)
        subst this
        simp only [T.pre, List.append_nil, oldOnly, List.filter_cons, List.filter_nil]
        rw [if_neg]; simp only [decide_eq_true_eq]; omega
      · exact ih y
    have kl := key l (a = q ∧ sl = .L ∧ l.root = 0) lru rl (fun h => h.2.2) (fun y => ihl y rl)
    have kc := key c (a = q ∧ sl = .C ∧ c.root = 0) (lru ++ s.stemAt a) rc (fun h => h.2.2) (fun y => ihc y rc)
    have kr := key r (a = q ∧ sl = .R ∧ r.root = 0) lru rr (fun h => h.2.2) (fun y => ihr y rr)
    simp only [T.graft, T.pre, hst]
    unfold oldOnly at kl kc kr ⊢
    simp only [List.filter_cons, List.filter_append]
    rw [kl, kc, kr]

theorem Chain.pre_filter {s s' : State} {gs : List (Nat × Slot × Nat)} (h : Chain s s' gs) (N : Nat) :
    N ≤ s.trie.size → ∀ {u : T} (lru : Bytes), Rep s u →
    oldOnly N ((applyGrafts gs u).pre s' lru) = oldOnly N (u.pre s lru) := by
  induction h with
  | refl s => intro _ u lru _; rfl
  | ns n _ ih =>
    intro hN u lru hr
    rw [ih (by rw [n.1]; exact hN) lru (n.rep hr), T.pre_frame u lru (fun a _ => n.stemAt a)]
  | gr g _ ih =>
    intro hN u lru hr
    rw [applyGrafts_cons, ih (Nat.le_trans hN (Nat.le_of_lt g.size_lt)) lru (g.rep hr)]
    exact g.pre_filter N hN u lru hr

/-- the pre-order of the carried tree, restricted to the blocks that existed before, is the old pre-order -/
theorem Chain.pre_old {s s' : State} {gs : List (Nat × Slot × Nat)} (h : Chain s s' gs)
    {u : T} (lru : Bytes) (hr : Rep s u) :
    oldOnly s.trie.size ((applyGrafts gs u).pre s' lru) = u.pre s lru := by
  rw [h.pre_filter s.trie.size (Nat.le_refl _) lru hr, oldOnly_self hr _ (Nat.le_refl _)]

/-! ### families of disjoint subtrees -/

/-- occurrences of the address `x` in a family of trees -/
def famCount {α : Type} (x : Nat) (ds : List (T × α)) : Nat := (ds.map (fun p => p.1.addrs.count x)).sum

@[simp] theorem famCount_nil {α : Type} (x : Nat) : famCount x ([] : List (T × α)) = 0 := rfl
@[simp] theorem famCount_cons {α : Type} (x : Nat) (p : T × α) (ds : List (T × α)) :
    famCount x (p :: ds) = p.1.addrs.count x + famCount x ds := by simp [famCount]

theorem famCount_pushIf {α : Type} (x : Nat) (t : T) (y : α) (ds : List (T × α)) :
    famCount x (pushIf t y ds) = t.addrs.count x + famCount x ds := by
  cases t <;> simp [pushIf, T.addrs]

theorem count_addrs_node (x a : Nat) (l c r : T) :
    (T.node a l c r).addrs.count x =
      (if a = x then 1 else 0) + l.addrs.count x + c.addrs.count x + r.addrs.count x := by
  simp only [T.addrs, List.count_cons, List.count_append, beq_iff_eq]
  omega

theorem count_ite_leaf (P : Prop) [Decidable P] (b x : Nat) (w' : T) :
    (if P then T.node b .nil .nil .nil else w').addrs.count x =
      if P then (if x = b then 1 else 0) else w'.addrs.count x := by
  split
  · rw [count_addrs_node]
    by_cases e : x = b
    · subst e; simp [T.addrs]
    · have : ¬ b = x := fun h => e h.symm
      simp [T.addrs, e, this]
  · rfl

theorem count_graft_le (x q : Nat) (sl : Slot) (b : Nat) : ∀ (u : T),
    (u.graft q sl b).addrs.count x ≤ u.addrs.count x + (if x = b then u.addrs.count q else 0) := by
  intro u
  induction u with
  | nil => simp [T.graft, T.addrs]
  | node a l c r ihl ihc ihr =>
    simp only [T.graft]
    rw [count_addrs_node, count_addrs_node x, count_addrs_node q,
      count_ite_leaf, count_ite_leaf, count_ite_leaf]
    by_cases e : x = b
    · simp only [e, if_true] at ihl ihc ihr ⊢
      by_cases haq : a = q
      · by_cases hl : l.root = 0 <;> by_cases hc : c.root = 0 <;> by_cases hr : r.root = 0 <;>
          cases sl <;>
          simp only [haq, hl, hc, hr, true_and, and_true, and_false, reduceCtorEq, false_and, if_false, if_true] <;>
          omega
      · simp only [haq, false_and, if_false]
        omega
    · simp only [e, if_false, Nat.add_zero] at ihl ihc ihr ⊢
      by_cases haq : a = q
      · by_cases hl : l.root = 0 <;> by_cases hc : c.root = 0 <;> by_cases hr : r.root = 0 <;>
          cases sl <;>
          simp only [haq, hl, hc, hr, true_and, and_true, and_false, reduceCtorEq, false_and, if_false, if_true] <;>
          omega
      · simp only [haq, false_and, if_false]
        omega

theorem famCount_graft_le {α : Type} (x q : Nat) (sl : Slot) (b : Nat) : ∀ (ds : List (T × α)),
    famCount x (ds.map (fun p => (p.1.graft q sl b, p.2))) ≤
      famCount x ds + (if x = b then famCount q ds else 0)
  | [] => by simp
  | p :: ds => by
    have h1 := count_graft_le x q sl b p.1
    have h2 := famCount_graft_le x q sl b ds
    simp only [List.map_cons, famCount_cons]
    split at h1 <;> split at h2 <;> split <;> simp_all <;> omega

/-- a family of represented trees that, together with the visited blocks `V`, mention no block twice -/
structure Fam (s : State) (V : List Nat) (ds : List (T × Bytes)) : Prop where
  rep : ∀ p ∈ ds, Rep s p.1
  cnt : ∀ x, V.count x + famCount x ds ≤ 1
  vlt : ∀ x ∈ V, x < s.trie.size

def mapFam (gs : List (Nat × Slot × Nat)) (ds : List (T × Bytes)) : List (T × Bytes) :=
  ds.map (fun p => (applyGrafts gs p.1, p.2))

@[simp] theorem mapFam_nil_grafts (ds : List (T × Bytes)) : mapFam [] ds = ds := by
  simp [mapFam]

theorem mapFam_cons_grafts (g : Nat × Slot × Nat) (gs : List (Nat × Slot × Nat)) (ds : List (T × Bytes)) :
    mapFam (g :: gs) ds = mapFam gs (ds.map (fun p => (p.1.graft g.1 g.2.1 g.2.2, p.2))) := by
  simp [mapFam, List.map_map, Function.comp_def]

theorem famCount_eq_zero_of_rep {s : State} {ds : List (T × Bytes)} (hr : ∀ p ∈ ds, Rep s p.1) (x : Nat)
    (hx : s.trie.size ≤ x) : famCount x ds = 0 := by
  induction ds with
  | nil => rfl
  | cons p ds ih =>
    rw [famCount_cons, ih (fun p' hp' => hr p' (by simp [hp']))]
    have : p.1.addrs.count x = 0 := by
      rw [List.count_eq_zero]
      intro hm
      have := (hr p (by simp)).lt_size x hm
      omega
    omega

theorem Fam.noStruct {s s' : State} {V : List Nat} {ds : List (T × Bytes)} (f : Fam s V ds) (n : NoStruct s s') :
    Fam s' V ds :=
  ⟨fun p hp => n.rep (f.rep p hp), f.cnt, fun x hx => by rw [n.1]; exact f.vlt x hx⟩

theorem Fam.graft {s s' : State} {q : Nat} {sl : Slot} {x : Stem} {V : List Nat} {ds : List (T × Bytes)}
    (f : Fam s V ds) (g : GraftStep s s' q sl x) :
    Fam s' V (ds.map (fun p => (p.1.graft q sl s.trie.size, p.2))) := by
  refine ⟨?_, ?_, fun y hy => Nat.lt_trans (f.vlt y hy) g.size_lt⟩
  · intro p hp
    obtain ⟨p0, hp0, rfl⟩ := List.mem_map.mp hp
    exact g.rep (f.rep p0 hp0)
  · intro y
    have h1 := famCount_graft_le y q sl s.trie.size ds
    by_cases e : y = s.trie.size
    · rw [if_pos e] at h1
      have hV : V.count y = 0 := by
        rw [List.count_eq_zero]; intro hm
        have := f.vlt y hm; omega
      have h0 := famCount_eq_zero_of_rep f.rep y (by omega)
      have hq := f.cnt q
      omega
    · rw [if_neg e] at h1
      have := f.cnt y
      omega

theorem Chain.fam {s s' : State} {gs : List (Nat × Slot × Nat)} (h : Chain s s' gs) :
    ∀ {V : List Nat} {ds : List (T × Bytes)}, Fam s V ds → Fam s' V (mapFam gs ds) := by
  induction h with
  | refl s => intro V ds f; simpa using f
  | ns n _ ih => intro V ds f; exact ih (f.noStruct n)
  | gr g _ ih => intro V ds f; rw [mapFam_cons_grafts]; exact ih (f.graft g)

/-- visited blocks plus pending nodes never exceed the store -/
theorem Fam.bound {s : State} {V : List Nat} {ds : List (T × Bytes)} (f : Fam s V ds) :
    V.length + stackSize ds ≤ s.trie.size := by
  have hnd : (V ++ ds.flatMap (fun p => p.1.addrs)).Nodup := by
    rw [List.nodup_iff_count]
    intro a
    rw [List.count_append, List.count_flatMap]
    have := f.cnt a
    unfold famCount at this
    simpa [Function.comp_def] using this
  have hlt : ∀ y ∈ V ++ ds.flatMap (fun p => p.1.addrs), y < s.trie.size := by
    intro y hy
    rcases List.mem_append.mp hy with hy | hy
    · exact f.vlt y hy
    · obtain ⟨p, hp, hm⟩ := List.mem_flatMap.mp hy
      exact (f.rep p hp).lt_size y hm
  have := nodup_length_le _ _ hnd hlt
  rw [List.length_append, List.length_flatMap] at this
  have e : stackSize ds = (ds.map (fun p => p.1.addrs.length)).sum := by
    unfold stackSize
    congr 1
    apply List.map_congr_left
    intro p _
    exact T.size_eq_length_addrs p.1
  omega

/-! ### page marks -/

/-- no block gains or loses the page mark (fresh blocks have none) -/
def PageSame (s s' : State) : Prop := ∀ a, (s'.cell a).flags.page = (s.cell a).flags.page

theorem PageSame.refl (s : State) : PageSame s s := fun _ => rfl

theorem PageSame.trans {a b c : State} (h1 : PageSame a b) (h2 : PageSame b c) : PageSame a c :=
  fun x => (h2 x).trans (h1 x)

theorem pageSame_of_attrStep {s s' : State} (a : AttrStep s s') : PageSame s s' := by
  intro b
  by_cases hb : b < s.trie.size
  · exact (a.old b hb).page
  · rw [(a.new b (Nat.le_of_not_lt hb)).page, cell_of_size_le s b (Nat.le_of_not_lt hb)]

theorem pageSame_modCell (s : State) (i : Nat) (f : Cell → Cell) (hf : ∀ c, (f c).flags.page = c.flags.page) :
    PageSame s (s.modCell i f) := by
  intro b
  rw [cell_modCell]
  split
  · exact hf _
  · rfl

theorem pageSame_of_trie_eq {s s' : State} (e : s'.trie = s.trie) : PageSame s s' := by
  intro b; unfold State.cell; rw [e]

theorem pageSame_foldl_modCell {α : Type} (g : α → Nat) (f : α → Cell → Cell)
    (hf : ∀ a c, (f a c).flags.page = c.flags.page) : ∀ (l : List α) (s : State),
    PageSame s (l.foldl (fun st a => st.modCell (g a) (f a)) s)
  | [], s => PageSame.refl s
  | a :: l, s => by
    rw [List.foldl_cons]
    exact (pageSame_modCell s (g a) (f a) (hf a)).trans (pageSame_foldl_modCell g f hf l _)

theorem chain_foldl_modCell {α : Type} (g : α → Nat) (f : α → Cell → Cell)
    (hf : ∀ a c, ((f a c).left = c.left ∧ (f a c).right = c.right ∧ (f a c).child = c.child ∧
      (f a c).chunk = c.chunk ∧ (f a c).flags.hasTail = c.flags.hasTail)) : ∀ (l : List α) (s : State),
    NoStruct s (l.foldl (fun st a => st.modCell (g a) (f a)) s)
  | [], s => NoStruct.refl s
  | a :: l, s => by
    rw [List.foldl_cons]
    exact (Traph.noStruct_modCell s (g a) (f a) (hf a)).trans (chain_foldl_modCell g f hf l _)

end Traph

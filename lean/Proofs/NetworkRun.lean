import Proofs.Network
/-! C07 for every reachable state: for every history of well-formed write requests (without `clear`, none
    answering `KeyError`) on a fresh index, both directions, self-links on and off, both variants.
    The statement is tree-free: the answers `s.network out auto` / `s.networkSlow out auto` are read with
    `netW` (= the dictionary reading `netGet` = membership of the rows' counters, by `NetOk`), the
    specification `s.specDir L out auto` counts the links `L = ops.flatMap Op.links` submitted by the
    history through `retrieve_webentity` (`State.weOf`), the tallies count the pages `pages_iter` lists. -/
namespace Traph
open State

/-- **C07**, for every reachable state. With `g` the answer of `get_webentities_links(out, include_auto)`
    and `g'` that of `get_webentities_links_slow(out, include_auto)`:
    * both are well formed (one row per webentity, one entry per target webentity, no zero entry), so that
      `graph[A][B]` (`netGet`) is `netW`;
    * `B ↦ w` is an entry of the row of `A` iff `w` is positive and is the number of submitted page links
      whose near end resolves to `A` and far end to `B`, both different from "no webentity", `A ≠ B`
      unless self-links are requested (`specDir`); same entries in `g'`;
    * the inbound answer is the transpose of the outbound one;
    * `g` has a row for exactly the webentities some listed page resolves to (possibly with an empty
      counter), with the numbers of such pages with / without the crawled mark as tallies; `g'` has a row
      for exactly the webentities with at least one reported link, and carries no tallies. -/
theorem C07_reachable (cfg : Config) (dflt : Rule) (rules : List (Bytes × Rule)) (ops : List Op)
    (hrules : ∀ ar ∈ rules, lruIter ar.1 ≠ [])
    (hop : ∀ op ∈ ops, ∀ d rs, op ≠ .clear d rs) (hwf : ∀ op ∈ ops, OpWf op)
    (hok : NoKeyErr (State.fresh cfg dflt rules []).1 ops)
    (s : State) (hs : s = (State.fresh cfg dflt rules []).1.run ops) (out auto : Bool) :
    NetOk (s.network out auto) ∧ NetOk (s.networkSlow out auto) ∧
    (∀ A B, netGet (s.network out auto) A B = s.specDir (ops.flatMap Op.links) out auto A B) ∧
    (∀ A B, netGet (s.networkSlow out auto) A B = netGet (s.network out auto) A B) ∧
    (∀ A B, netGet (s.network false auto) B A = netGet (s.network true auto) A B) ∧
    (∀ A B, netGet (s.networkSlow false auto) B A = netGet (s.networkSlow true auto) A B) ∧
    (∀ A B w, (∃ r ∈ s.network out auto, r.src = A ∧ (B, w) ∈ r.targets) ↔
      0 < w ∧ w = s.specDir (ops.flatMap Op.links) out auto A B) ∧
    (∀ A B w, (∃ r ∈ s.networkSlow out auto, r.src = A ∧ (B, w) ∈ r.targets) ↔
      0 < w ∧ w = s.specDir (ops.flatMap Op.links) out auto A B) ∧
    (∀ A, A ∈ (s.network out auto).map (·.src) ↔ A ≠ 0 ∧ ∃ lc ∈ s.pagesIter, s.weOf lc.1 = A) ∧
    (∀ A, A ∈ (s.networkSlow out auto).map (·.src) ↔
      ∃ B, 0 < s.specDir (ops.flatMap Op.links) out auto A B) ∧
    (∀ r ∈ s.network out auto,
      r.crawled = s.pageCount true r.src ∧ r.uncrawled = s.pageCount false r.src) ∧
    (∀ r ∈ s.networkSlow out auto, r.crawled = 0 ∧ r.uncrawled = 0 ∧ r.targets ≠ []) := by
  obtain ⟨t, v, _⟩ := linkView_run cfg dflt rules ops hrules hop hwf hok
  rw [← hs] at v
  have ok := v.network_ok
  have ok' := networkSlow_ok v.shape v.par
  have hw : ∀ out A B, netW (s.networkSlow out auto) A B = s.specDir (ops.flatMap Op.links) out auto A B :=
    fun out A B => (v.C07_slow out auto A B).trans (v.C07_weight_dir out auto A B)
  refine ⟨ok out auto, ok' out auto, ?_, ?_, ?_, ?_, ?_, ?_, v.network_rows out auto, ?_,
    v.network_tally out auto, ?_⟩
  · intro A B
    rw [(ok out auto).netGet_eq]; exact v.C07_weight_dir out auto A B
  · intro A B
    rw [(ok out auto).netGet_eq, (ok' out auto).netGet_eq]; exact v.C07_slow out auto A B
  · intro A B
    rw [(ok false auto).netGet_eq, (ok true auto).netGet_eq]; exact v.C07_transpose auto A B
  · intro A B
    rw [(ok' false auto).netGet_eq, (ok' true auto).netGet_eq, v.C07_slow, v.C07_slow]
    exact v.C07_transpose auto A B
  · intro A B w
    rw [(ok out auto).edge_iff, v.C07_weight_dir]
  · intro A B w
    rw [(ok' out auto).edge_iff, hw]
  · intro A
    rw [networkSlow_rows v.shape v.par]
    constructor
    · rintro ⟨B, hB⟩; exact ⟨B, by rw [← hw]; exact hB⟩
    · rintro ⟨B, hB⟩; exact ⟨B, by rw [hw]; exact hB⟩
  · intro r hr
    obtain ⟨h1, h2⟩ := networkSlow_tally v.shape v.par out auto r hr
    exact ⟨h1, h2, networkSlow_targets_ne_nil v.shape v.par out auto r hr⟩

/-- the specification spelled out, outbound: `A → B` with `A`, `B` webentities (`≠ 0`), and `A ≠ B` or
    self-links requested, weighs the number of submitted pairs `(p, q)` with `retrieve_webentity p = A`
    and `retrieve_webentity q = B`; everything else weighs 0 -/
theorem specDir_out (s : State) (L : List (Bytes × Bytes)) (auto : Bool) (A B : Nat) :
    s.specDir L true auto A B =
      if A ≠ 0 ∧ B ≠ 0 ∧ (auto = true ∨ A ≠ B) then
        (L.filter (fun st => decide (s.weOf st.1 = A ∧ s.weOf st.2 = B))).length
      else 0 := rfl

/-- …and inbound: the row of `A` records under `B` the links from `B` to `A` -/
theorem specDir_in (s : State) (L : List (Bytes × Bytes)) (auto : Bool) (A B : Nat) :
    s.specDir L false auto A B =
      if B ≠ 0 ∧ A ≠ 0 ∧ (auto = true ∨ B ≠ A) then
        (L.filter (fun st => decide (s.weOf st.1 = B ∧ s.weOf st.2 = A))).length
      else 0 := rfl

/-- `State.weOf` is `retrieve_webentity` with its error read as 0 -/
theorem weOf_spec (s : State) (lru : Bytes) (w : Nat) :
    s.retrieveWebentity lru = .ok w ↔ (w ≠ 0 ∧ s.weOf lru = w) := by
  rw [retrieveWebentity_weOf_net]
  by_cases h0 : s.weOf lru = 0
  · rw [if_pos h0]
    constructor
    · intro h; cases h
    · rintro ⟨hw, e⟩; exact absurd (e ▸ h0) hw
  · rw [if_neg h0]
    constructor
    · intro h; cases h; exact ⟨h0, rfl⟩
    · rintro ⟨_, e⟩; rw [e]

/-- the same through the request language -/
theorem C07_ask (s : State) (out auto slow : Bool) :
    s.ask (.network out auto slow) = .net (if slow then s.networkSlow out auto else s.network out auto) := rfl

/-- block-level form for every reachable state: the recorded weight is the number of stubs in the lists
    (out-lists or in-lists) of the page blocks carried to `A` whose other end is a block winding up to `B` -/
theorem C07_reachable_blocks (cfg : Config) (dflt : Rule) (rules : List (Bytes × Rule)) (ops : List Op)
    (hrules : ∀ ar ∈ rules, lruIter ar.1 ≠ [])
    (hop : ∀ op ∈ ops, ∀ d rs, op ≠ .clear d rs) (hwf : ∀ op ∈ ops, OpWf op)
    (hok : NoKeyErr (State.fresh cfg dflt rules []).1 ops)
    (s : State) (hs : s = (State.fresh cfg dflt rules []).1.run ops) (out auto : Bool) (A B : Nat) :
    netW (s.network out auto) A B = (if netCond auto A B then s.blockW out A B else 0) ∧
    netW (s.networkSlow out auto) A B = (if netCond auto A B then s.blockW out A B else 0) ∧
    s.blockW false B A = s.blockW true A B ∧
    s.blockW out A B =
      (if out then s.linkCount (ops.flatMap Op.links) A B else s.linkCount (ops.flatMap Op.links) B A) := by
  obtain ⟨t, v, _⟩ := linkView_run cfg dflt rules ops hrules hop hwf hok
  rw [← hs] at v
  exact ⟨v.network_blocks out auto A B, networkSlow_blocks v.shape v.par out auto A B,
    v.blockW_transpose A B, v.blockW_eq out A B⟩

end Traph

section
open Traph
#print axioms C07_reachable
#print axioms C07_reachable_blocks
#print axioms weOf_spec
end

import Proofs.LeOps
/-! C18, write by write. `Trace s s'` : `s'` is reached from `s` by a sequence of primitive storage
    writes (each ⊑-increasing) and RAM-only changes. Every cut of the write log of a trace is the log of
    an intermediate state of the trace (`Trace.cuts`); the log of a state determines its files
    (`GoodLog`, preserved along traces). -/
namespace Traph
open State

/-! ### 1. a state seen as files; the heap order on files -/

def State.files (s : State) : Files := { hdrId := s.hdrId, trie := s.trie, links := s.links }

def Files.Le (f g : Files) : Prop :=
  (∀ (i : Nat) (c : Cell), f.trie[i]? = some c → ∃ c', g.trie[i]? = some c' ∧ CellLe c c') ∧
  (∀ (i : Nat) (b : Stub), f.links[i]? = some b → g.links[i]? = some b)

theorem Files.Le.refl (f : Files) : Files.Le f f :=
  ⟨fun _ c h => ⟨c, h, CellLe.refl c⟩, fun _ _ h => h⟩

theorem Files.Le.trans {f g h : Files} (h1 : Files.Le f g) (h2 : Files.Le g h) : Files.Le f h :=
  ⟨fun i x hx => by
      obtain ⟨y, hy, l1⟩ := h1.1 i x hx
      obtain ⟨z, hz, l2⟩ := h2.1 i y hy
      exact ⟨z, hz, l1.trans l2⟩,
   fun i x hx => h2.2 i x (h1.2 i x hx)⟩

theorem Le.files {s s' : State} (h : s ⊑ s') : Files.Le s.files s'.files := ⟨h.cells, h.stubs⟩

theorem Files.Le.of_files {s s' : State} (h : Files.Le s.files s'.files) : s ⊑ s' := ⟨h.1, h.2⟩

/-- the empty files are below everything -/
theorem Files.Le.empty (g : Files) : Files.Le {} g :=
  ⟨fun i c h => by simp at h, fun i b h => by simp at h⟩

/-! ### 2. traces -/

inductive Trace : State → State → Prop
  | refl (s) : Trace s s
  | ram {s s1 s2} : Trace s s1 → s2.trie = s1.trie → s2.links = s1.links → s2.hdrId = s1.hdrId →
      s2.log = s1.log → Trace s s2
  | appendCell {s s1} (c : Cell) : Trace s s1 → Trace s (s1.appendCell c).1
  | modCell {s s1} (i : Nat) (f : Cell → Cell) : Trace s s1 →
      (∀ c, s1.trie[i]? = some c → CellLe c (f c)) → Trace s (s1.modCell i f)
  | appendStub {s s1} (b : Stub) : Trace s s1 → Trace s (s1.appendStub b).1
  | setHdr {s s1} (id : Nat) : Trace s s1 → Trace s (s1.setHdr id)

theorem Trace.trans {a b c : State} (h1 : Trace a b) (h2 : Trace b c) : Trace a c := by
  induction h2 with
  | refl => exact h1
  | ram _ e1 e2 e3 e4 ih => exact Trace.ram ih e1 e2 e3 e4
  | appendCell c _ ih => exact Trace.appendCell c ih
  | modCell i f _ hf ih => exact Trace.modCell i f ih hf
  | appendStub b _ ih => exact Trace.appendStub b ih
  | setHdr id _ ih => exact Trace.setHdr id ih

theorem Trace.le {s s' : State} (h : Trace s s') : s ⊑ s' := by
  induction h with
  | refl => exact Le.refl _
  | ram _ e1 e2 _ _ ih => exact ih.trans (Le.of_eq e1 e2)
  | appendCell c _ ih => exact ih.trans (le_appendCell _ c)
  | modCell i f _ hf ih => exact ih.trans (le_modCell _ i f hf)
  | appendStub b _ ih => exact ih.trans (le_appendStub _ b)
  | setHdr id _ ih => exact ih.trans (le_setHdr _ id)

theorem Trace.pos {s s' : State} (h : Trace s s') (h0 : 0 < s.trie.size) : 0 < s'.trie.size :=
  h.le.pos h0

theorem Trace.live {s s' : State} (h : Trace s s') (hl : Live s) : Live s' := hl.mono h.le

/-- a RAM-only change -/
theorem Trace.of_eq {s s' : State} (ht : s'.trie = s.trie) (hl : s'.links = s.links)
    (hh : s'.hdrId = s.hdrId) (hlog : s'.log = s.log) : Trace s s' :=
  Trace.ram (Trace.refl s) ht hl hh hlog

theorem Trace.fst_of_eq {α : Type} {s : State} {p q : State × α} (h : Trace s p.1) (e : p = q) :
    Trace s q.1 := e ▸ h

theorem trace_appendCell (s : State) (c : Cell) : Trace s (s.appendCell c).1 :=
  Trace.appendCell c (Trace.refl s)

theorem trace_appendStub (s : State) (b : Stub) : Trace s (s.appendStub b).1 :=
  Trace.appendStub b (Trace.refl s)

theorem trace_setHdr (s : State) (id : Nat) : Trace s (s.setHdr id) :=
  Trace.setHdr id (Trace.refl s)

theorem trace_modCell (s : State) (i : Nat) (f : Cell → Cell)
    (hf : ∀ c, s.trie[i]? = some c → CellLe c (f c)) : Trace s (s.modCell i f) :=
  Trace.modCell i f (Trace.refl s) hf

/-! ### 3. every cut of the log of a trace is the log of an intermediate state -/

/-- `ws` (newest first) are the writes of a trace from `s` to `s'`, and every suffix of `ws` (= every
    program-order prefix of the writes) is the log of a state between `s` and `s'` -/
def Cuts (s s' : State) (ws : List Write) : Prop :=
  s'.log = ws ++ s.log ∧
  ∀ k, k ≤ ws.length → ∃ m : State, Trace s m ∧ Trace m s' ∧ m.log = ws.drop (ws.length - k) ++ s.log

theorem Cuts.same {s s1 s2 : State} {ws : List Write} (h : Cuts s s1 ws)
    (hstep : ∀ m, Trace m s1 → Trace m s2) (hlog : s2.log = s1.log) : Cuts s s2 ws := by
  refine ⟨hlog.trans h.1, fun k hk => ?_⟩
  obtain ⟨m, h1, h2, h3⟩ := h.2 k hk
  exact ⟨m, h1, hstep m h2, h3⟩

theorem Cuts.push {s s1 s2 : State} {ws : List Write} (w : Write) (h : Cuts s s1 ws)
    (hs : Trace s s1) (hstep : ∀ m, Trace m s1 → Trace m s2) (hlog : s2.log = w :: s1.log) :
    Cuts s s2 (w :: ws) := by
  refine ⟨by rw [hlog, h.1]; rfl, fun k hk => ?_⟩
  by_cases hk' : k ≤ ws.length
  · obtain ⟨m, h1, h2, h3⟩ := h.2 k hk'
    refine ⟨m, h1, hstep m h2, ?_⟩
    have e : (w :: ws).length - k = (ws.length - k) + 1 := by simp only [List.length_cons]; omega
    rw [e, List.drop_succ_cons]; exact h3
  · have e : (w :: ws).length - k = 0 := by
      simp only [List.length_cons] at hk ⊢; omega
    refine ⟨s2, hstep s hs, Trace.refl s2, ?_⟩
    rw [e, List.drop_zero, hlog, h.1]; rfl

theorem log_modCell_none {s : State} {i : Nat} (f : Cell → Cell) (h : s.trie[i]? = none) :
    s.modCell i f = s := by
  unfold modCell; rw [h]

theorem log_modCell_some {s : State} {i : Nat} (f : Cell → Cell) {c : Cell} (h : s.trie[i]? = some c) :
    (s.modCell i f).log = .trieSet i (f c) :: s.log := by
  unfold modCell; rw [h]; rfl

theorem Trace.cuts_aux {s s' : State} (h : Trace s s') : ∃ ws : List Write, Cuts s s' ws := by
  induction h with
  | refl =>
    refine ⟨[], rfl, fun k hk => ?_⟩
    exact ⟨_, Trace.refl _, Trace.refl _, by simp⟩
  | ram _ e1 e2 e3 e4 ih =>
    obtain ⟨ws, hc⟩ := ih
    exact ⟨ws, hc.same (fun m hm => Trace.ram hm e1 e2 e3 e4) e4⟩
  | appendCell c ht ih =>
    obtain ⟨ws, hc⟩ := ih
    exact ⟨_, hc.push (.trieAppend c) ht (fun m hm => Trace.appendCell c hm) rfl⟩
  | @modCell s1 i f ht hf ih =>
    obtain ⟨ws, hc⟩ := ih
    cases hi : s1.trie[i]? with
    | none =>
      exact ⟨ws, hc.same (fun m hm => Trace.modCell i f hm hf) (by rw [log_modCell_none f hi])⟩
    | some c =>
      exact ⟨_, hc.push (.trieSet i (f c)) ht (fun m hm => Trace.modCell i f hm hf) (log_modCell_some f hi)⟩
  | appendStub b ht ih =>
    obtain ⟨ws, hc⟩ := ih
    exact ⟨_, hc.push (.linkAppend b) ht (fun m hm => Trace.appendStub b hm) rfl⟩
  | setHdr id ht ih =>
    obtain ⟨ws, hc⟩ := ih
    exact ⟨_, hc.push (.hdr id) ht (fun m hm => Trace.setHdr id hm) rfl⟩

/-- KEY LEMMA: the log of a trace grows by some `ws`, and every program-order prefix of `ws` (= suffix of
    the newest-first list) is the log of an intermediate state `m` with `Trace s m`, `Trace m s'` -/
theorem Trace.cuts {s s' : State} (h : Trace s s') :
    ∃ ws : List Write, s'.log = ws ++ s.log ∧
      ∀ k, k ≤ ws.length →
        ∃ m : State, Trace s m ∧ Trace m s' ∧ m.log = ws.drop (ws.length - k) ++ s.log :=
  h.cuts_aux

/-- the log only grows along a trace -/
theorem Trace.log {s s' : State} (h : Trace s s') : ∃ ws : List Write, s'.log = ws ++ s.log := by
  obtain ⟨ws, hc⟩ := h.cuts
  exact ⟨ws, hc.1⟩

/-! ### 4. the log determines the files -/

def GoodLog (s : State) : Prop := replay s.log.reverse = s.files

theorem replay_snoc (ws : List Write) (w : Write) : replay (ws ++ [w]) = (replay ws).apply w := by
  simp [replay, List.foldl_append]

theorem replay_cons_reverse (w : Write) (log : List Write) :
    replay (w :: log).reverse = (replay log.reverse).apply w := by
  rw [List.reverse_cons, replay_snoc]

theorem GoodLog.push {s s' : State} {w : Write} (hg : GoodLog s) (hlog : s'.log = w :: s.log)
    (hf : s.files.apply w = s'.files) : GoodLog s' := by
  unfold GoodLog at *
  rw [hlog, replay_cons_reverse, hg, hf]

theorem goodLog_base (cfg : Config) (dflt : Rule) :
    GoodLog ({ cfg := cfg, dflt := dflt, log := [.linkHdr, .hdr 0] } : State) := by
  simp [GoodLog, replay, Files.apply, State.files]

theorem Trace.goodLog {s s' : State} (hg : GoodLog s) (h0 : 0 < s.trie.size) (_h1 : 0 < s.links.size)
    (h : Trace s s') : GoodLog s' := by
  induction h with
  | refl => exact hg
  | ram _ e1 e2 e3 e4 ih =>
    unfold GoodLog at *
    rw [e4, ih]; simp only [State.files, e1, e2, e3]
  | appendCell c _ ih => exact ih.push rfl rfl
  | @modCell s1 i f _ _ ih =>
    cases hi : s1.trie[i]? with
    | none => rw [log_modCell_none f hi]; exact ih
    | some c =>
      refine ih.push (log_modCell_some f hi) ?_
      unfold State.modCell; rw [hi]; rfl
  | appendStub b _ ih => exact ih.push rfl rfl
  | @setHdr s1 id ht ih =>
    refine ih.push rfl ?_
    have hp : s1.trie.size ≠ 0 := by have := ht.pos h0; omega
    have hp' : ¬ s1.files.trie.size = 0 := hp
    simp only [Files.apply]
    rw [if_neg hp']; rfl

end Traph

import Proofs.Trace
import Proofs.LogIndep
/-! C18 for histories that contain `clear`.

    `clear` on a live folder truncates the trie file, then the link file, then writes the two headers
    (and the rules, if given). `Traph/Crash.lean` models the two truncations as crash events of their own
    (`Event.truncTrie`, `Event.truncLinks`, in this order: `clearTruncations`). This file

    1. defines the event history of a list of requests exactly as the driver accumulates it
       (`State.events`, `historyEvents`) and proves the algebra of `replayE` / `cutOpenE`;
    2. proves, for EVERY history (any number of `clear`s anywhere) and EVERY cut of its event list, that
       the rebuilt files are
         * the files of a state between two consecutive completed requests (request not a `clear`), or
         * below the index the `clear` in progress is building (cut after both truncations), or
         * the one special state in the middle of a `clear` (trie empty, link file still the old one);
       and reduces every cut that falls after the truncations of the last `clear` to a cut of a
       clear-free history on a fresh index, where the theorems of `Proofs/Trace.lean` apply;
    3. lifts the byte-granular statements (`C18_refuse`, `C18_rewrite_atomic`, `C18_boundary_opens`) to events.

    The mid-clear state itself is analysed in `Proofs/ClearCrashMid.lean`. -/
namespace Traph
open State

/-! ### 1. the event history of a list of requests -/

def Op.isClear : Op → Bool
  | .clear _ _ => true
  | _ => false

theorem Op.not_clear_of_isClear {op : Op} (h : op.isClear = false) : ∀ d rs, op ≠ .clear d rs := by
  intro d rs e; subst e; simp [Op.isClear] at h

theorem Op.isClear_of_not_clear {op : Op} (h : ∀ d rs, op ≠ .clear d rs) : op.isClear = false := by
  cases op <;> first | rfl | exact absurd rfl (h _ _)

theorem Op.eq_clear_of_isClear {op : Op} (h : op.isClear = true) : ∃ d rs, op = .clear d rs := by
  cases op <;> first | exact ⟨_, _, rfl⟩ | simp [Op.isClear] at h

/-- the storage writes of one request, oldest first — as the driver records them: run the request from the
    state with an emptied log and read the log off afterwards -/
def State.stepWrites (s : State) (op : Op) : List Write :=
  (({ s with log := [] } : State).step op).1.log.reverse

/-- the crash events of one request -/
def State.stepEvents (s : State) (op : Op) : List Event := opEvents op.isClear (s.stepWrites op)

/-- the crash events of a list of requests issued in state `s` (what the driver appends to `full`) -/
def State.events : State → List Op → List Event
  | _, [] => []
  | s, op :: ops => s.stepEvents op ++ (s.step op).1.events ops

/-- the writes of the constructor on a fresh folder, oldest first -/
def freshWrites (cfg : Config) (dflt : Rule) (rules : List (Bytes × Rule)) : List Write :=
  (State.fresh cfg dflt rules []).1.log.reverse

/-- the whole event history of a session: constructor, then the requests -/
def historyEvents (cfg : Config) (dflt : Rule) (rules : List (Bytes × Rule)) (ops : List Op) : List Event :=
  (freshWrites cfg dflt rules).map .write ++ (State.fresh cfg dflt rules []).1.events ops

@[simp] theorem events_nil (s : State) : s.events [] = [] := rfl
@[simp] theorem events_cons (s : State) (op : Op) (ops : List Op) :
    s.events (op :: ops) = s.stepEvents op ++ (s.step op).1.events ops := rfl

theorem run_cons_cc (s : State) (op : Op) (ops : List Op) : s.run (op :: ops) = (s.step op).1.run ops := rfl

theorem events_append : ∀ (a b : List Op) (s : State), s.events (a ++ b) = s.events a ++ (s.run a).events b
  | [], _, _ => rfl
  | op :: a, b, s => by
    simp only [List.cons_append, events_cons, run_cons_cc, events_append a b, List.append_assoc]

/-! ### 1a. algebra of `replayE`, `cutOpenE` -/

theorem foldl_applyE_map_write (ws : List Write) (f : Files) :
    (ws.map Event.write).foldl Files.applyE f = ws.foldl Files.apply f := by
  induction ws generalizing f with
  | nil => rfl
  | cons w ws ih => simp only [List.map_cons, List.foldl_cons]; exact ih _

/-- an event history without truncations is a write history -/
theorem replayE_map_write (ws : List Write) : replayE (ws.map Event.write) = replay ws :=
  foldl_applyE_map_write ws {}

theorem replayE_append (es es' : List Event) : replayE (es ++ es') = es'.foldl Files.applyE (replayE es) := by
  simp [replayE, List.foldl_append]

theorem replay_append (ws ws' : List Write) : replay (ws ++ ws') = ws'.foldl Files.apply (replay ws) := by
  simp [replay, List.foldl_append]

theorem cutOpenE_map_write (ram : State) (ws : List Write) (k j : Nat) :
    cutOpenE ram (ws.map Event.write) k j = cutOpen ram ws k j := by
  unfold cutOpenE cutOpen
  simp only [← List.map_take, replayE_map_write, List.getElem?_map]
  cases ws[k]? <;> rfl

/-- after the two truncations both files are empty, whatever they were -/
theorem foldl_clearTruncations (f : Files) : clearTruncations.foldl Files.applyE f = {} := rfl

/-- whatever precedes the truncations of a `clear` is gone: what follows replays from scratch -/
theorem replayE_clear (pre post : List Event) :
    replayE (pre ++ clearTruncations ++ post) = replayE post := by
  rw [replayE_append, replayE_append, foldl_clearTruncations]; rfl

theorem replayE_clear_writes (pre : List Event) (ws : List Write) :
    replayE (pre ++ clearTruncations ++ ws.map Event.write) = replay ws := by
  rw [replayE_clear, replayE_map_write]

/-- cuts after the truncations of a `clear` are cuts of the writes that follow -/
theorem replayE_take_clear (pre : List Event) (ws : List Write) (k : Nat) :
    replayE ((pre ++ clearTruncations ++ ws.map Event.write).take (pre.length + 2 + k)) = replay (ws.take k) := by
  have e : pre.length + 2 + k = (pre ++ clearTruncations).length + k := by
    simp [clearTruncations]
  rw [e, List.take_length_add_append, ← List.map_take, replayE_clear_writes]

theorem cutOpenE_clear (ram : State) (pre : List Event) (ws : List Write) (k j : Nat) :
    cutOpenE ram (pre ++ clearTruncations ++ ws.map Event.write) (pre.length + 2 + k) j = cutOpen ram ws k j := by
  unfold cutOpenE cutOpen
  rw [replayE_take_clear]
  have e : pre.length + 2 + k = (pre ++ clearTruncations).length + k := by
    simp [clearTruncations]
  have hlen : ¬ (pre ++ clearTruncations).length + k < (pre ++ clearTruncations).length := by omega
  simp only [e, List.getElem?_append, hlen, if_false, Nat.add_sub_cancel_left, List.getElem?_map]
  cases ws[k]? <;> rfl

/-! ### 2. the files along a trace, relative to its start

    `GoodLog` (Proofs/TraceCore) says that the WHOLE log of a state replays to its files; after a `clear` the
    model's log goes on (it does not show the truncations), so we use the relative form: the writes a trace
    adds, applied to the files of its start, give the files of its end. -/

theorem foldl_apply_snoc (ws : List Write) (w : Write) (f : Files) :
    (ws ++ [w]).foldl Files.apply f = (ws.foldl Files.apply f).apply w := by
  simp [List.foldl_append]

theorem Trace.files_from {s s' : State} (h0 : 0 < s.trie.size) (h : Trace s s') :
    ∃ ws : List Write, s'.log = ws ++ s.log ∧ ws.reverse.foldl Files.apply s.files = s'.files := by
  induction h with
  | refl => exact ⟨[], rfl, rfl⟩
  | ram _ e1 e2 e3 e4 ih =>
    obtain ⟨ws, hl, hf⟩ := ih
    refine ⟨ws, e4.trans hl, hf.trans ?_⟩
    simp only [State.files, e1, e2, e3]
  | appendCell c _ ih =>
    obtain ⟨ws, hl, hf⟩ := ih
    refine ⟨.trieAppend c :: ws, by simp only [State.appendCell, hl]; rfl, ?_⟩
    rw [List.reverse_cons, foldl_apply_snoc, hf]; rfl
  | @modCell s1 i f _ _ ih =>
    obtain ⟨ws, hl, hf⟩ := ih
    cases hi : s1.trie[i]? with
    | none => rw [log_modCell_none f hi]; exact ⟨ws, hl, hf⟩
    | some c =>
      refine ⟨.trieSet i (f c) :: ws, by rw [log_modCell_some f hi, hl]; rfl, ?_⟩
      rw [List.reverse_cons, foldl_apply_snoc, hf]
      unfold State.modCell; rw [hi]; rfl
  | appendStub b _ ih =>
    obtain ⟨ws, hl, hf⟩ := ih
    refine ⟨.linkAppend b :: ws, by simp only [State.appendStub, hl]; rfl, ?_⟩
    rw [List.reverse_cons, foldl_apply_snoc, hf]; rfl
  | @setHdr s1 id ht ih =>
    obtain ⟨ws, hl, hf⟩ := ih
    refine ⟨.hdr id :: ws, by simp only [State.setHdr, hl]; rfl, ?_⟩
    rw [List.reverse_cons, foldl_apply_snoc, hf]
    have hp : ¬ s1.files.trie.size = 0 := by
      have := ht.pos h0; show ¬ s1.trie.size = 0; omega
    simp only [Files.apply]
    rw [if_neg hp]; rfl

/-- every program-order prefix of the writes of a trace, applied to the files of its start, gives the files
    of an intermediate state of the trace. `ws` is oldest first. -/
theorem Trace.cut_from {s s' : State} (h0 : 0 < s.trie.size) (h : Trace s s') :
    ∃ ws : List Write, s'.log = ws.reverse ++ s.log ∧ ws.foldl Files.apply s.files = s'.files ∧
      ∀ j, j ≤ ws.length →
        ∃ m : State, Trace s m ∧ Trace m s' ∧ (ws.take j).foldl Files.apply s.files = m.files := by
  obtain ⟨wr, hlog, hcut⟩ := h.cuts
  obtain ⟨w0, hl0, hf0⟩ := h.files_from h0
  have e0 : w0 = wr := List.append_cancel_right (hl0.symm.trans hlog)
  subst e0
  refine ⟨w0.reverse, by rw [List.reverse_reverse]; exact hlog, hf0, fun j hj => ?_⟩
  rw [List.length_reverse] at hj
  obtain ⟨m, h1, h2, h3⟩ := hcut j hj
  obtain ⟨w1, hl1, hf1⟩ := h1.files_from h0
  have e1 : w1 = w0.drop (w0.length - j) := List.append_cancel_right (hl1.symm.trans h3)
  refine ⟨m, h1, h2, ?_⟩
  rw [List.take_reverse, ← e1]; exact hf1

/-! ### 3. one request -/

theorem stepWrites_log (s : State) (op : Op) : (s.step op).1.log = (s.stepWrites op).reverse ++ s.log := by
  unfold State.stepWrites; rw [List.reverse_reverse]; exact step_log s op

/-- a request other than `clear`: every cut of its writes (applied to the files it found) is the files of a
    state between the state before and the state after the request -/
theorem step_cut (s : State) (hl : Live s) (op : Op) (hop : op.isClear = false) :
    Live (s.step op).1 ∧ (s.stepWrites op).foldl Files.apply s.files = (s.step op).1.files ∧
    ∀ j, j ≤ (s.stepWrites op).length → ∃ m : State, s ⊑ m ∧ m ⊑ (s.step op).1 ∧
       ((s.stepWrites op).take j).foldl Files.apply s.files = m.files := by
  have ht := step_trace s op hl (Op.not_clear_of_isClear hop)
  obtain ⟨ws, hlog, hf, hcut⟩ := ht.cut_from hl.1
  have e : ws = s.stepWrites op :=
    List.reverse_inj.mp (List.append_cancel_right (hlog.symm.trans (stepWrites_log s op)))
  subst e
  refine ⟨ht.live hl, hf, fun j hj => ?_⟩
  obtain ⟨m, h1, h2, h3⟩ := hcut j hj
  exact ⟨m, h1.le, h2.le, h3⟩

/-- the state `clear` has when it has written its two headers, before it installs any rule -/
def State.clearBase (s : State) (d : Option Rule) (rs : Option (List (Bytes × Rule))) : State :=
  { cfg := s.cfg, dflt := d.getD s.dflt, rules := match rs with | none => s.rules | some _ => [],
    log := .linkHdr :: .hdr 0 :: s.log }

theorem trace_clear (s : State) (d : Option Rule) (rs : Option (List (Bytes × Rule))) :
    Trace (s.clearBase d rs) (s.clear d rs).1 := by
  cases rs with
  | none => exact Trace.refl _
  | some r => exact trace_installRules r _ true Nat.zero_lt_one

theorem live_clearBase (s : State) (d : Option Rule) (rs : Option (List (Bytes × Rule))) :
    Live (s.clearBase d rs) := ⟨Nat.zero_lt_one, Nat.zero_lt_one⟩

theorem live_clear (s : State) (d : Option Rule) (rs : Option (List (Bytes × Rule))) : Live (s.clear d rs).1 :=
  (trace_clear s d rs).live (live_clearBase s d rs)

/-- every request keeps both stores non-empty, `clear` included -/
theorem live_step (s : State) (hl : Live s) (op : Op) : Live (s.step op).1 := by
  cases hc : op.isClear with
  | false => exact (step_le s op hl (Op.not_clear_of_isClear hc)).2
  | true =>
    obtain ⟨d, rs, rfl⟩ := Op.eq_clear_of_isClear hc
    exact live_clear s d rs

theorem live_run : ∀ (ops : List Op) (s : State), Live s → Live (s.run ops)
  | [], _, hl => hl
  | op :: ops, s, hl => live_run ops _ (live_step s hl op)

theorem replay_headers : replay [.hdr 0, .linkHdr] = { hdrId := 0, trie := #[{}], links := #[{}] } := by
  simp [replay, Files.apply]

/-- `clear`: its writes begin with the two headers; replayed FROM SCRATCH they give the cleared index, and
    every cut of them is below the cleared index (what the request found is irrelevant) -/
theorem clear_cut (s : State) (d : Option Rule) (rs : Option (List (Bytes × Rule))) :
    (∃ ws, s.stepWrites (.clear d rs) = .hdr 0 :: .linkHdr :: ws) ∧
    replay (s.stepWrites (.clear d rs)) = (s.clear d rs).1.files ∧
    ∀ j, j ≤ (s.stepWrites (.clear d rs)).length →
      Files.Le (replay ((s.stepWrites (.clear d rs)).take j)) (s.clear d rs).1.files := by
  have ht := trace_clear s d rs
  have hb : (s.clearBase d rs).files = replay [.hdr 0, .linkHdr] := by rw [replay_headers]; rfl
  obtain ⟨ws, hlog, hf, hcut⟩ := ht.cut_from (live_clearBase s d rs).1
  have e : s.stepWrites (.clear d rs) = .hdr 0 :: .linkHdr :: ws := by
    have h1 : (s.stepWrites (.clear d rs)).reverse ++ s.log = (ws.reverse ++ [.linkHdr, .hdr 0]) ++ s.log := by
      rw [← stepWrites_log]
      show (s.clear d rs).1.log = _
      rw [hlog, List.append_assoc]; rfl
    have h2 := List.append_cancel_right h1
    have h3 := congrArg List.reverse h2
    simpa using h3
  have hrep : ∀ l : List Write, replay (.hdr 0 :: .linkHdr :: l) = l.foldl Files.apply (s.clearBase d rs).files := by
    intro l
    rw [hb]
    exact replay_append [.hdr 0, .linkHdr] l
  refine ⟨⟨ws, e⟩, by rw [e, hrep]; exact hf, fun j hj => ?_⟩
  rw [e] at hj ⊢
  match j, hj with
  | 0, _ => exact Files.Le.empty _
  | 1, _ =>
    refine Files.Le.trans ?_ ht.le.files
    refine ⟨fun i c hc => ⟨c, ?_, CellLe.refl c⟩, fun i b hb' => ?_⟩
    · simpa [replay, Files.apply, State.files, State.clearBase] using hc
    · simp [replay, Files.apply] at hb'
  | j + 2, hj =>
    simp only [List.take_succ_cons]
    rw [hrep]
    obtain ⟨m, _, h2, h3⟩ := hcut j (by simp only [List.length_cons] at hj; omega)
    rw [h3]; exact h2.le.files

/-! ### 4. every cut of one request's events -/

/-- the files in the middle of a `clear` issued in state `a`: trie file truncated, link file not yet -/
def State.midClear (a : State) : Files := { hdrId := 0, trie := #[], links := a.links }

/-- what the files can be `j ≥ 1` events into a request `op` issued in state `a`:
    * `op` is not a `clear`: the files of a state between `a` and the state after the request;
    * `op` is a `clear`: after its first truncation, the mid-clear files; from its second truncation on,
      files below the cleared index the request builds -/
def CutOf (a : State) (op : Op) (j : Nat) (f : Files) : Prop :=
  if op.isClear then (j = 1 ∧ f = a.midClear) ∨ (2 ≤ j ∧ Files.Le f (a.step op).1.files)
  else ∃ m : State, a ⊑ m ∧ m ⊑ (a.step op).1 ∧ f = m.files

theorem stepEvents_noclear (a : State) (op : Op) (hop : op.isClear = false) :
    a.stepEvents op = (a.stepWrites op).map .write := by
  simp [State.stepEvents, opEvents, hop]

theorem stepEvents_clear (a : State) (d : Option Rule) (rs : Option (List (Bytes × Rule))) :
    a.stepEvents (.clear d rs) = clearTruncations ++ (a.stepWrites (.clear d rs)).map .write := by
  simp [State.stepEvents, opEvents, Op.isClear]

/-- the events of a whole request take the files of the state before to the files of the state after -/
theorem stepEvents_end (a : State) (hl : Live a) (pre : List Event) (hpre : replayE pre = a.files) (op : Op) :
    replayE (pre ++ a.stepEvents op) = (a.step op).1.files := by
  cases hc : op.isClear with
  | false =>
    rw [stepEvents_noclear a op hc, replayE_append, foldl_applyE_map_write, hpre]
    exact (step_cut a hl op hc).2.1
  | true =>
    obtain ⟨d, rs, rfl⟩ := Op.eq_clear_of_isClear hc
    rw [stepEvents_clear, ← List.append_assoc, replayE_clear_writes]
    exact (clear_cut a d rs).2.1

theorem stepEvents_cut (a : State) (hl : Live a) (pre : List Event) (hpre : replayE pre = a.files) (op : Op)
    (j : Nat) (hj0 : 0 < j) (hj : j ≤ (a.stepEvents op).length) :
    CutOf a op j (replayE (pre ++ (a.stepEvents op).take j)) := by
  unfold CutOf
  cases hc : op.isClear with
  | false =>
    rw [if_neg (by simp)]
    rw [stepEvents_noclear a op hc] at hj ⊢
    rw [← List.map_take, replayE_append, foldl_applyE_map_write, hpre]
    obtain ⟨m, h1, h2, h3⟩ := (step_cut a hl op hc).2.2 j (by simpa using hj)
    exact ⟨m, h1, h2, h3⟩
  | true =>
    rw [if_pos rfl]
    obtain ⟨d, rs, rfl⟩ := Op.eq_clear_of_isClear hc
    rw [stepEvents_clear] at hj ⊢
    match j, hj0, hj with
    | 1, _, _ =>
      left
      refine ⟨rfl, ?_⟩
      have : (clearTruncations ++ (a.stepWrites (.clear d rs)).map Event.write).take 1 = [.truncTrie] := rfl
      rw [this, replayE_append, hpre]; rfl
    | j + 2, _, hj =>
      right
      refine ⟨by omega, ?_⟩
      have : (clearTruncations ++ (a.stepWrites (.clear d rs)).map Event.write).take (j + 2) =
          clearTruncations ++ ((a.stepWrites (.clear d rs)).take j).map Event.write := by
        simp [clearTruncations, List.map_take]
      rw [this, ← List.append_assoc, replayE_clear_writes]
      refine (clear_cut a d rs).2.2 j ?_
      simp [clearTruncations] at hj; omega

/-! ### 5. MAIN: every cut of every history -/

theorem events_end : ∀ (ops : List Op) (s : State), Live s → ∀ pre : List Event, replayE pre = s.files →
    replayE (pre ++ s.events ops) = (s.run ops).files
  | [], _, _, _, hpre => by simpa [State.run] using hpre
  | op :: ops, s, hl, pre, hpre => by
    rw [events_cons, ← List.append_assoc, run_cons_cc]
    exact events_end ops _ (live_step s hl op) _ (stepEvents_end s hl pre hpre op)

/-- Every cut `k ≥ 1` of the events of a list of requests (any number of `clear`s among them) falls into
    exactly one request `ops[n]`, and the files rebuilt from the events before the cut are as `CutOf`
    describes for that request, issued in the state the first `n` requests produce. -/
theorem events_cut : ∀ (ops : List Op) (s : State), Live s → ∀ pre : List Event, replayE pre = s.files →
    ∀ k, 0 < k → k ≤ (s.events ops).length →
    ∃ n op, ops[n]? = some op ∧ (s.events (ops.take n)).length < k ∧
      k ≤ (s.events (ops.take (n + 1))).length ∧
      CutOf (s.run (ops.take n)) op (k - (s.events (ops.take n)).length)
        (replayE (pre ++ (s.events ops).take k))
  | [], _, _, _, _, k, hk0, hk => by simp at hk; omega
  | op :: ops, s, hl, pre, hpre, k, hk0, hk => by
    by_cases hke : k ≤ (s.stepEvents op).length
    · refine ⟨0, op, rfl, by simpa using hk0, by simpa using hke, ?_⟩
      have e : (s.events (op :: ops)).take k = (s.stepEvents op).take k := by
        rw [events_cons, List.take_append_of_le_length hke]
      rw [e]
      simpa [State.run] using stepEvents_cut s hl pre hpre op k hk0 hke
    · have hk' : k - (s.stepEvents op).length ≤ ((s.step op).1.events ops).length := by
        rw [events_cons, List.length_append] at hk; omega
      obtain ⟨n, op', h1, h2, h3, h4⟩ :=
        events_cut ops (s.step op).1 (live_step s hl op) (pre ++ s.stepEvents op)
          (stepEvents_end s hl pre hpre op) (k - (s.stepEvents op).length) (by omega) hk'
      refine ⟨n + 1, op', by simpa using h1, ?_, ?_, ?_⟩
      · simp only [List.take_succ_cons, events_cons, List.length_append]; omega
      · simp only [List.take_succ_cons, events_cons, List.length_append] at h3 ⊢; omega
      · have e : (s.events (op :: ops)).take k =
            s.stepEvents op ++ ((s.step op).1.events ops).take (k - (s.stepEvents op).length) := by
          rw [events_cons, List.take_append, List.take_of_length_le (by omega)]
        have e2 : k - (s.events ((op :: ops).take (n + 1))).length =
            k - (s.stepEvents op).length - ((s.step op).1.events (ops.take n)).length := by
          simp only [List.take_succ_cons, events_cons, List.length_append]; omega
        rw [e, e2, ← List.append_assoc]
        exact h4

/-! ### 6. histories from a fresh index -/

theorem replayE_freshWrites (cfg : Config) (dflt : Rule) (rules : List (Bytes × Rule)) :
    replayE ((freshWrites cfg dflt rules).map .write) = (State.fresh cfg dflt rules []).1.files := by
  rw [replayE_map_write]; exact goodLog_fresh cfg dflt rules

theorem length_historyEvents (cfg : Config) (dflt : Rule) (rules : List (Bytes × Rule)) (ops : List Op) :
    (historyEvents cfg dflt rules ops).length =
      (freshWrites cfg dflt rules).length + ((State.fresh cfg dflt rules []).1.events ops).length := by
  simp [historyEvents]

/-- the whole event history replays to the files of the state the history reaches -/
theorem historyEvents_end (cfg : Config) (dflt : Rule) (rules : List (Bytes × Rule)) (ops : List Op) :
    replayE (historyEvents cfg dflt rules ops) = ((State.fresh cfg dflt rules []).1.run ops).files :=
  events_end ops _ (live_fresh cfg dflt rules []) _ (replayE_freshWrites cfg dflt rules)

/-- MAIN (files). Any history on a fresh index, `clear` allowed anywhere and any number of times; any cut `k`
    of its event history. Either the cut is inside the constructor and the files are below the fresh index, or
    it falls into exactly one request `ops[n]` and the files are what `CutOf` says for that request issued in the
    state reached by the first `n` requests:
    between the states before and after a request that is not `clear`; the mid-clear files after the first
    truncation of a `clear`; below the cleared index from the second truncation of a `clear` on. -/
theorem history_cut (cfg : Config) (dflt : Rule) (rules : List (Bytes × Rule)) (ops : List Op) (k : Nat)
    (hk : k ≤ (historyEvents cfg dflt rules ops).length) :
    let fr := (State.fresh cfg dflt rules []).1
    let f := replayE ((historyEvents cfg dflt rules ops).take k)
    (k ≤ (freshWrites cfg dflt rules).length ∧ Files.Le f fr.files) ∨
    ∃ n op, ops[n]? = some op ∧ (historyEvents cfg dflt rules (ops.take n)).length < k ∧
      k ≤ (historyEvents cfg dflt rules (ops.take (n + 1))).length ∧
      CutOf (fr.run (ops.take n)) op (k - (historyEvents cfg dflt rules (ops.take n)).length) f := by
  dsimp only
  by_cases hc : k ≤ (freshWrites cfg dflt rules).length
  · left
    refine ⟨hc, ?_⟩
    have e : (historyEvents cfg dflt rules ops).take k = ((freshWrites cfg dflt rules).take k).map .write := by
      unfold historyEvents
      rw [List.take_append_of_le_length (by simpa using hc), List.map_take]
    rw [e, replayE_map_write]
    exact C18_fresh_cut_le cfg dflt rules [] (by simp) k (by simpa [freshWrites, State.run] using hc)
  · right
    have hk' : k - (freshWrites cfg dflt rules).length ≤ ((State.fresh cfg dflt rules []).1.events ops).length := by
      rw [length_historyEvents] at hk; omega
    obtain ⟨n, op, h1, h2, h3, h4⟩ := events_cut ops _ (live_fresh cfg dflt rules []) _
      (replayE_freshWrites cfg dflt rules) (k - (freshWrites cfg dflt rules).length) (by omega) hk'
    refine ⟨n, op, h1, by rw [length_historyEvents]; omega, by rw [length_historyEvents]; omega, ?_⟩
    have e : (historyEvents cfg dflt rules ops).take k = (freshWrites cfg dflt rules).map .write ++
        ((State.fresh cfg dflt rules []).1.events ops).take (k - (freshWrites cfg dflt rules).length) := by
      unfold historyEvents
      rw [List.take_append, List.take_of_length_le (by simp; omega)]; simp
    have e2 : k - (historyEvents cfg dflt rules (ops.take n)).length =
        k - (freshWrites cfg dflt rules).length - ((State.fresh cfg dflt rules []).1.events (ops.take n)).length := by
      rw [length_historyEvents]; omega
    rw [e, e2]
    exact h4

/-! ### 7. reduction: a cut after the truncations of the last `clear` is a cut of a clear-free history on a
    fresh index, where the theorems of `Proofs/Trace.lean` (`C18_cut_le`, `C18_cut_state`, `C18_cutOpen_le`,
    and — when `clear` is given both arguments — `C18_subset`, `C18_reports_subset`) apply -/

theorem files_addLog (s : State) (l : List Write) : (s.addLog l).files = s.files := rfl

theorem le_addLog (s : State) (l : List Write) : s.addLog l ⊑ s := Le.of_eq rfl rfl
theorem addLog_le (s : State) (l : List Write) : s ⊑ s.addLog l := Le.of_eq rfl rfl

/-- the events of a request list do not depend on the log of the state they are issued in -/
theorem events_addLog : ∀ (ops : List Op) (s : State) (l : List Write), (s.addLog l).events ops = s.events ops
  | [], _, _ => rfl
  | op :: ops, s, l => by
    have h : (s.addLog l).stepEvents op = s.stepEvents op := rfl
    rw [events_cons, events_cons, h, step_addLog]
    exact congrArg _ (events_addLog ops _ l)

/-- the driver's own recursion (`drvStep` in Main.lean): it carries on with the state whose log holds just the
    writes of the last request -/
def State.eventsD : State → List Op → List Event
  | _, [] => []
  | s, op :: ops =>
    let s' := (({ s with log := [] } : State).step op).1
    opEvents op.isClear s'.log.reverse ++ s'.eventsD ops

/-- … which records the same events -/
theorem eventsD_eq : ∀ (ops : List Op) (s : State), s.eventsD ops = s.events ops
  | [], _ => rfl
  | op :: ops, s => by
    have h : (s.step op).1 = ((({ s with log := [] } : State).step op).1).addLog s.log := by
      rw [step_eq_of_nolog]
    rw [events_cons, h, events_addLog, ← eventsD_eq ops]
    rfl

/-- a clear-free request list emits writes only, and they are exactly what it adds to the log -/
theorem events_noclear : ∀ (ops : List Op) (s : State), (∀ op ∈ ops, op.isClear = false) →
    ∃ ws : List Write, s.events ops = ws.map .write ∧ (s.run ops).log = ws.reverse ++ s.log
  | [], _, _ => ⟨[], rfl, rfl⟩
  | op :: ops, s, hop => by
    obtain ⟨ws, h1, h2⟩ := events_noclear ops (s.step op).1 (fun o ho => hop o (by simp [ho]))
    refine ⟨s.stepWrites op ++ ws, ?_, ?_⟩
    · rw [events_cons, h1, stepEvents_noclear s op (hop op (by simp)), List.map_append]
    · rw [run_cons_cc, h2, stepWrites_log, List.reverse_append, List.append_assoc]

/-- a history without `clear`: the event history is the write log, and `cutOpenE` is `cutOpen` -/
theorem historyEvents_noclear (cfg : Config) (dflt : Rule) (rules : List (Bytes × Rule)) (ops : List Op)
    (hop : ∀ op ∈ ops, op.isClear = false) :
    historyEvents cfg dflt rules ops = (((State.fresh cfg dflt rules []).1.run ops).log.reverse).map .write := by
  obtain ⟨ws, h1, h2⟩ := events_noclear ops (State.fresh cfg dflt rules []).1 hop
  unfold historyEvents freshWrites
  rw [h1, h2, List.reverse_append, List.reverse_reverse, List.map_append]

/-- the index a `clear d rs` issued in state `s` builds, with a log of its own (as on a fresh folder) -/
def State.cleared (s : State) (d : Option Rule) (rs : Option (List (Bytes × Rule))) : State :=
  (({ s with log := [] } : State).clear d rs).1

/-- with both arguments given, it is literally the fresh index of the constructor -/
theorem cleared_eq_fresh (s : State) (d : Rule) (rs : List (Bytes × Rule)) :
    s.cleared (some d) (some rs) = (State.fresh s.cfg d rs []).1 := rfl

theorem step_clear_eq (s : State) (d : Option Rule) (rs : Option (List (Bytes × Rule))) :
    (s.step (.clear d rs)).1 = (s.cleared d rs).addLog s.log := by
  rw [step_eq_of_nolog]; rfl

theorem cleared_log (s : State) (d : Option Rule) (rs : Option (List (Bytes × Rule))) :
    (s.cleared d rs).log.reverse = s.stepWrites (.clear d rs) := rfl

theorem run_clear_eq (s : State) (d : Option Rule) (rs : Option (List (Bytes × Rule))) (seg : List Op) :
    s.run (.clear d rs :: seg) = ((s.cleared d rs).run seg).addLog s.log := by
  rw [run_cons_cc, step_clear_eq, run_addLog]

/-- REDUCTION (events): `clear` followed by clear-free requests = the two truncations, then the write log
    of those requests run on the fresh index that `clear` builds -/
theorem events_clear_segment (s : State) (d : Option Rule) (rs : Option (List (Bytes × Rule))) (seg : List Op)
    (hseg : ∀ op ∈ seg, op.isClear = false) :
    s.events (.clear d rs :: seg) =
      clearTruncations ++ (((s.cleared d rs).run seg).log.reverse).map .write := by
  obtain ⟨ws, h1, h2⟩ := events_noclear seg (s.cleared d rs) hseg
  rw [events_cons, stepEvents_clear, step_clear_eq, events_addLog, h1, h2, List.reverse_append,
    List.reverse_reverse, cleared_log, List.map_append, List.append_assoc]

/-- REDUCTION (cuts): `k` events past the truncations of a `clear` that is followed by clear-free requests
    = `k` writes into the write log of those requests on the fresh index that `clear` builds -/
theorem segment_cut (pre : List Event) (s : State) (d : Option Rule) (rs : Option (List (Bytes × Rule)))
    (seg : List Op) (hseg : ∀ op ∈ seg, op.isClear = false) (k : Nat) :
    replayE ((pre ++ s.events (.clear d rs :: seg)).take (pre.length + 2 + k)) =
      replay ((((s.cleared d rs).run seg).log.reverse).take k) := by
  rw [events_clear_segment s d rs seg hseg, ← List.append_assoc, replayE_take_clear]

theorem segment_cutOpenE (ram : State) (pre : List Event) (s : State) (d : Option Rule)
    (rs : Option (List (Bytes × Rule))) (seg : List Op) (hseg : ∀ op ∈ seg, op.isClear = false) (k j : Nat) :
    cutOpenE ram (pre ++ s.events (.clear d rs :: seg)) (pre.length + 2 + k) j =
      cutOpen ram ((s.cleared d rs).run seg).log.reverse k j := by
  rw [events_clear_segment s d rs seg hseg, ← List.append_assoc, cutOpenE_clear]

theorem historyEvents_append (cfg : Config) (dflt : Rule) (rules : List (Bytes × Rule)) (a b : List Op) :
    historyEvents cfg dflt rules (a ++ b) =
      historyEvents cfg dflt rules a ++ ((State.fresh cfg dflt rules []).1.run a).events b := by
  unfold historyEvents; rw [events_append, List.append_assoc]

theorem history_segment_cutOpenE (ram : State) (cfg : Config) (dflt : Rule) (rules : List (Bytes × Rule))
    (pre : List Op) (d : Option Rule) (rs : Option (List (Bytes × Rule))) (seg : List Op)
    (hseg : ∀ op ∈ seg, op.isClear = false) (k j : Nat) :
    cutOpenE ram (historyEvents cfg dflt rules (pre ++ .clear d rs :: seg))
        ((historyEvents cfg dflt rules pre).length + 2 + k) j =
      cutOpen ram ((((State.fresh cfg dflt rules []).1.run pre).cleared d rs).run seg).log.reverse k j := by
  rw [historyEvents_append]
  exact segment_cutOpenE ram _ _ d rs seg hseg k j

/-- the base of a cleared index: just the two headers, its own log -/
theorem cleared_trace (s : State) (d : Option Rule) (rs : Option (List (Bytes × Rule))) :
    Trace (({ s with log := [] } : State).clearBase d rs) (s.cleared d rs) :=
  trace_clear _ d rs

theorem goodLog_clearBase (s : State) (d : Option Rule) (rs : Option (List (Bytes × Rule))) :
    GoodLog (({ s with log := [] } : State).clearBase d rs) := by
  simp [GoodLog, replay, Files.apply, State.files, State.clearBase]

theorem live_cleared (s : State) (d : Option Rule) (rs : Option (List (Bytes × Rule))) : Live (s.cleared d rs) :=
  live_clear _ d rs

theorem goodLog_cleared (s : State) (d : Option Rule) (rs : Option (List (Bytes × Rule))) : GoodLog (s.cleared d rs) :=
  (cleared_trace s d rs).goodLog (goodLog_clearBase s d rs) Nat.zero_lt_one Nat.zero_lt_one

/-- `C18_fresh_cut_le` for the index a `clear` builds (any arguments): EVERY cut of the write log of a clear-free
    history on it — also inside the `clear` itself — is below the completed history -/
theorem cleared_cut_le (s : State) (d : Option Rule) (rs : Option (List (Bytes × Rule))) (seg : List Op)
    (hseg : ∀ op ∈ seg, op.isClear = false) :
    let sf := (s.cleared d rs).run seg
    ∀ k, k ≤ sf.log.length → Files.Le (replay ((sf.log.reverse).take k)) sf.files := by
  intro sf k hk
  have hop : ∀ op ∈ seg, ∀ d rs, op ≠ .clear d rs := fun op h => Op.not_clear_of_isClear (hseg op h)
  have ht : Trace (({ s with log := [] } : State).clearBase d rs) sf :=
    (cleared_trace s d rs).trans (run_trace seg _ (live_cleared s d rs) hop)
  obtain ⟨ws, hlog⟩ := ht.log
  have hb : (({ s with log := [] } : State).clearBase d rs).log = [.linkHdr, .hdr 0] := rfl
  by_cases h2 : 2 ≤ k
  · have key := ht.cut_le (goodLog_clearBase s d rs) (live_clearBase _ d rs) (k - 2)
    rw [hb] at key
    have e : [Write.linkHdr, Write.hdr 0].length + (k - 2) = k := by simp; omega
    rw [e] at key
    exact key (by simp; omega)
  · rw [hlog, hb, List.reverse_append]
    have hk01 : k = 0 ∨ k = 1 := by omega
    rcases hk01 with rfl | rfl
    · simp only [List.take_zero]
      exact Files.Le.empty _
    · have e : (([Write.linkHdr, Write.hdr 0] : List Write).reverse ++ ws.reverse).take 1 = [Write.hdr 0] := by
        simp
      rw [e]
      refine ⟨fun i c hc => ?_, fun i b hb => by simp [replay, Files.apply] at hb⟩
      have hc' : (({ s with log := [] } : State).clearBase d rs).trie[i]? = some c := by
        simpa [replay, Files.apply, State.clearBase] using hc
      exact ht.le.cells i c hc'

/-- the files at the end of a segment are those of the model's own state (whose log goes on) -/
theorem cleared_run_files (s : State) (d : Option Rule) (rs : Option (List (Bytes × Rule))) (seg : List Op) :
    ((s.cleared d rs).run seg).files = (s.run (.clear d rs :: seg)).files := by
  rw [run_clear_eq]; rfl

/-- (a) for histories: split the history at its LAST `clear` (`seg` is clear-free). A cut `k` writes past
    the two truncations of that `clear` is a cut of the clear-free history `seg` on the fresh index that the
    `clear` builds, and is below the completed history. -/
theorem history_segment_cut (cfg : Config) (dflt : Rule) (rules : List (Bytes × Rule)) (pre : List Op)
    (d : Option Rule) (rs : Option (List (Bytes × Rule))) (seg : List Op)
    (hseg : ∀ op ∈ seg, op.isClear = false) (k : Nat) :
    let s := (State.fresh cfg dflt rules []).1.run pre
    let sf := (s.cleared d rs).run seg
    let full := historyEvents cfg dflt rules (pre ++ .clear d rs :: seg)
    let off := (historyEvents cfg dflt rules pre).length + 2
    full.length = off + sf.log.length ∧
    replayE (full.take (off + k)) = replay ((sf.log.reverse).take k) ∧
    sf.files = ((State.fresh cfg dflt rules []).1.run (pre ++ .clear d rs :: seg)).files ∧
    (k ≤ sf.log.length → Files.Le (replayE (full.take (off + k))) sf.files) := by
  dsimp only
  have h2 := segment_cut (historyEvents cfg dflt rules pre) ((State.fresh cfg dflt rules []).1.run pre) d rs seg hseg k
  rw [← historyEvents_append] at h2
  refine ⟨?_, h2, ?_, fun hk => ?_⟩
  · rw [historyEvents_append, events_clear_segment _ d rs seg hseg]
    simp [clearTruncations]; omega
  · rw [cleared_run_files, run_append]
  · rw [h2]; exact cleared_cut_le _ d rs seg hseg k hk

/-! ### 7a. every cut of every history, in segment form -/

/-- a request list is clear-free or splits at its last `clear` -/
theorem split_last_clear : ∀ (l : List Op), (∀ op ∈ l, op.isClear = false) ∨
    ∃ pre d rs seg, l = pre ++ .clear d rs :: seg ∧ ∀ op ∈ seg, op.isClear = false
  | [] => Or.inl (by simp)
  | op :: l => by
    rcases split_last_clear l with h | ⟨pre, d, rs, seg, e, h⟩
    · cases hc : op.isClear with
      | false =>
        refine Or.inl (fun o ho => ?_)
        rcases List.mem_cons.mp ho with rfl | ho
        · exact hc
        · exact h o ho
      | true =>
        obtain ⟨d, rs, rfl⟩ := Op.eq_clear_of_isClear hc
        exact Or.inr ⟨[], d, rs, l, rfl, h⟩
    · exact Or.inr ⟨op :: pre, d, rs, seg, by rw [e]; rfl, h⟩

/-- a cut that lies within the events of the first `n` requests is a cut of the history truncated there -/
theorem historyEvents_take_take (cfg : Config) (dflt : Rule) (rules : List (Bytes × Rule)) (ops : List Op)
    (n k : Nat) (hk : k ≤ (historyEvents cfg dflt rules (ops.take n)).length) :
    (historyEvents cfg dflt rules ops).take k = (historyEvents cfg dflt rules (ops.take n)).take k := by
  conv => lhs; rw [← List.take_append_drop n ops, historyEvents_append]
  exact List.take_append_of_le_length hk

/-- MAIN (segment form, item (a)/(b)). Any history, any number of `clear`s, any cut `k` of its events. The
    rebuilt files are one of:
    (a0) no `clear` has begun: a cut of the write log of the clear-free history `ops.take n` on the
         constructor's fresh index (`C18_subset` … apply verbatim);
    (a1) the last `clear` that began before the cut has done both truncations: with `ops.take n = pre ++ clear d rs
         :: seg`, a cut `k'` of the write log of the clear-free history `seg` on the fresh index
         `(run pre).cleared d rs` that `clear` builds, below the completed state of the segment so far — whose
         files are those of the model's own state `run (ops.take n)`;
    (b)  the cut separates the two truncations of a `clear`: the mid-clear files. -/
theorem history_cut_segment (cfg : Config) (dflt : Rule) (rules : List (Bytes × Rule)) (ops : List Op) (k : Nat)
    (hk : k ≤ (historyEvents cfg dflt rules ops).length) :
    let fr := (State.fresh cfg dflt rules []).1
    let f := replayE ((historyEvents cfg dflt rules ops).take k)
    (∃ n, n ≤ ops.length ∧ (∀ op ∈ ops.take n, op.isClear = false) ∧
        k ≤ (fr.run (ops.take n)).log.length ∧
        f = replay (((fr.run (ops.take n)).log.reverse).take k) ∧
        Files.Le f (fr.run (ops.take n)).files) ∨
    (∃ n pre d rs seg k', n ≤ ops.length ∧ ops.take n = pre ++ .clear d rs :: seg ∧
        (∀ op ∈ seg, op.isClear = false) ∧
        k = (historyEvents cfg dflt rules pre).length + 2 + k' ∧
        k' ≤ (((fr.run pre).cleared d rs).run seg).log.length ∧
        f = replay (((((fr.run pre).cleared d rs).run seg).log.reverse).take k') ∧
        (((fr.run pre).cleared d rs).run seg).files = (fr.run (ops.take n)).files ∧
        Files.Le f (fr.run (ops.take n)).files) ∨
    (∃ n d rs, ops[n]? = some (.clear d rs) ∧
        k = (historyEvents cfg dflt rules (ops.take n)).length + 1 ∧ f = (fr.run (ops.take n)).midClear) := by
  dsimp only
  -- (a0) for a clear-free truncation
  have a0 : ∀ n, n ≤ ops.length → (∀ op ∈ ops.take n, op.isClear = false) →
      k ≤ (historyEvents cfg dflt rules (ops.take n)).length →
      k ≤ ((State.fresh cfg dflt rules []).1.run (ops.take n)).log.length ∧
      replayE ((historyEvents cfg dflt rules ops).take k) =
        replay ((((State.fresh cfg dflt rules []).1.run (ops.take n)).log.reverse).take k) ∧
      Files.Le (replayE ((historyEvents cfg dflt rules ops).take k))
        ((State.fresh cfg dflt rules []).1.run (ops.take n)).files := by
    intro n _ hfree hkn
    have e := historyEvents_noclear cfg dflt rules (ops.take n) hfree
    have hlen : k ≤ ((State.fresh cfg dflt rules []).1.run (ops.take n)).log.length := by
      rw [e] at hkn; simpa using hkn
    have hf : replayE ((historyEvents cfg dflt rules ops).take k) =
        replay ((((State.fresh cfg dflt rules []).1.run (ops.take n)).log.reverse).take k) := by
      rw [historyEvents_take_take cfg dflt rules ops n k hkn, e, ← List.map_take, replayE_map_write]
    refine ⟨hlen, hf, ?_⟩
    rw [hf]
    exact C18_fresh_cut_le cfg dflt rules (ops.take n)
      (fun op h => Op.not_clear_of_isClear (hfree op h)) k hlen
  -- (a1) for a truncation that ends in a clear-free segment after a `clear`
  have a1 : ∀ n pre d rs seg, n ≤ ops.length → ops.take n = pre ++ .clear d rs :: seg →
      (∀ op ∈ seg, op.isClear = false) →
      (historyEvents cfg dflt rules pre).length + 2 ≤ k →
      k ≤ (historyEvents cfg dflt rules (ops.take n)).length →
      ∃ k', k = (historyEvents cfg dflt rules pre).length + 2 + k' ∧
        k' ≤ ((((State.fresh cfg dflt rules []).1.run pre).cleared d rs).run seg).log.length ∧
        replayE ((historyEvents cfg dflt rules ops).take k) =
          replay ((((((State.fresh cfg dflt rules []).1.run pre).cleared d rs).run seg).log.reverse).take k') ∧
        ((((State.fresh cfg dflt rules []).1.run pre).cleared d rs).run seg).files =
          ((State.fresh cfg dflt rules []).1.run (ops.take n)).files ∧
        Files.Le (replayE ((historyEvents cfg dflt rules ops).take k))
          ((State.fresh cfg dflt rules []).1.run (ops.take n)).files := by
    intro n pre d rs seg _ hsplit hfree hlo hhi
    obtain ⟨h1, h2, h3, h4⟩ :=
      history_segment_cut cfg dflt rules pre d rs seg hfree (k - ((historyEvents cfg dflt rules pre).length + 2))
    have ek : (historyEvents cfg dflt rules pre).length + 2 +
        (k - ((historyEvents cfg dflt rules pre).length + 2)) = k := by omega
    rw [ek, ← hsplit] at h2 h4
    rw [← hsplit] at h1 h3
    have hk' : k - ((historyEvents cfg dflt rules pre).length + 2) ≤
        ((((State.fresh cfg dflt rules []).1.run pre).cleared d rs).run seg).log.length := by
      rw [h1] at hhi; omega
    rw [← historyEvents_take_take cfg dflt rules ops n k hhi] at h2 h4
    exact ⟨_, ek.symm, hk', h2, h3, h3 ▸ h4 hk'⟩
  rcases history_cut cfg dflt rules ops k hk with ⟨hc, _⟩ | ⟨n, op, hop, h1, h2, h3⟩
  · left
    have hk0 : k ≤ (historyEvents cfg dflt rules (ops.take 0)).length := by
      simpa [length_historyEvents] using hc
    exact ⟨0, Nat.zero_le _, by simp, a0 0 (Nat.zero_le _) (by simp) hk0⟩
  · have hn : n < ops.length := (List.getElem?_eq_some_iff.mp hop).1
    have hT : ops.take (n + 1) = ops.take n ++ [op] := by
      rw [List.take_add_one, hop, Option.toList_some]
    cases hc : op.isClear with
    | true =>
      obtain ⟨d, rs, rfl⟩ := Op.eq_clear_of_isClear hc
      unfold CutOf at h3
      rw [hc, if_pos rfl] at h3
      rcases h3 with ⟨hj, hf⟩ | ⟨hj, _⟩
      · right; right
        exact ⟨n, d, rs, hop, by omega, hf⟩
      · right; left
        obtain ⟨k', r1, r2, r3, r4, r5⟩ := a1 (n + 1) (ops.take n) d rs [] hn hT (by simp) (by omega) h2
        exact ⟨n + 1, ops.take n, d, rs, [], k', hn, hT, by simp, r1, r2, r3, r4, r5⟩
    | false =>
      rcases split_last_clear (ops.take n) with hfree | ⟨pre, d, rs, seg, hsplit, hfree⟩
      · left
        have hfree' : ∀ o ∈ ops.take (n + 1), o.isClear = false := by
          intro o ho
          rw [hT] at ho
          rcases List.mem_append.mp ho with ho | ho
          · exact hfree o ho
          · rw [List.mem_singleton.mp ho]; exact hc
        exact ⟨n + 1, hn, hfree', a0 (n + 1) hn hfree' h2⟩
      · right; left
        have hT' : ops.take (n + 1) = pre ++ .clear d rs :: (seg ++ [op]) := by
          rw [hT, hsplit, List.append_assoc]; rfl
        have hfree' : ∀ o ∈ seg ++ [op], o.isClear = false := by
          intro o ho
          rcases List.mem_append.mp ho with ho | ho
          · exact hfree o ho
          · rw [List.mem_singleton.mp ho]; exact hc
        have hlo : (historyEvents cfg dflt rules pre).length + 2 ≤ k := by
          have := (history_segment_cut cfg dflt rules pre d rs seg hfree 0).1
          rw [← hsplit] at this
          omega
        obtain ⟨k', r1, r2, r3, r4, r5⟩ := a1 (n + 1) pre d rs (seg ++ [op]) hn hT' hfree' hlo h2
        exact ⟨n + 1, pre, d, rs, seg ++ [op], k', hn, hT', hfree', r1, r2, r3, r4, r5⟩

/-! ### 8. the end of the current segment: later clear-free requests only add -/

theorem run_take_le (s : State) (hl : Live s) (ops : List Op) (n n' : Nat) (h : n ≤ n')
    (hseg : ∀ i op, n ≤ i → i < n' → ops[i]? = some op → op.isClear = false) :
    s.run (ops.take n) ⊑ s.run (ops.take n') := by
  have e : ops.take n' = ops.take n ++ (ops.drop n).take (n' - n) := by
    have : n' = n + (n' - n) := by omega
    rw [this, List.take_add]; simp
  rw [e, run_append]
  refine (run_le _ _ (live_run _ s hl) (fun op hop => ?_)).1
  obtain ⟨i, hi⟩ := List.getElem?_of_mem hop
  rw [List.getElem?_take] at hi
  split at hi
  · rw [List.getElem?_drop] at hi
    exact Op.not_clear_of_isClear (hseg (n + i) op (by omega) (by omega) hi)
  · cases hi

/-! ### 9. byte-granular cuts of an event history -/

/-- the cut `(k, j)` tears an append: `j ≠ 0` bytes of event `k`, which makes its file longer -/
def Torn (full : List Event) (k j : Nat) : Prop :=
  j ≠ 0 ∧ ∃ e, full[k]? = some e ∧ e.isAppend (replayE (full.take k)) = true

/-- `C18_refuse`, for events: a torn append is refused with the library's own error -/
theorem cutOpenE_torn (ram : State) (full : List Event) (k j : Nat) (h : Torn full k j) :
    cutOpenE ram full k j = .error .traph := by
  obtain ⟨hj, e, he, ha⟩ := h
  simp [cutOpenE, openCut, he, ha, hj]

/-- `C18_rewrite_atomic`, for events: an event that is not an append (an in-place rewrite, a header rewrite,
    a truncation) cannot be torn -/
theorem cutOpenE_atomic (ram : State) (full : List Event) (k j : Nat) (e : Event) (he : full[k]? = some e)
    (hn : e.isAppend (replayE (full.take k)) = false) : cutOpenE ram full k j = cutOpenE ram full k 0 := by
  simp [cutOpenE, he, hn]

/-- a truncation is not an append -/
theorem cutOpenE_truncTrie (ram : State) (full : List Event) (k j : Nat) (he : full[k]? = some .truncTrie) :
    cutOpenE ram full k j = cutOpenE ram full k 0 := cutOpenE_atomic ram full k j _ he rfl

theorem cutOpenE_truncLinks (ram : State) (full : List Event) (k j : Nat) (he : full[k]? = some .truncLinks) :
    cutOpenE ram full k j = cutOpenE ram full k 0 := cutOpenE_atomic ram full k j _ he rfl

theorem cutOpenE_whole (ram : State) (full : List Event) (k : Nat) :
    cutOpenE ram full k 0 = openCut ram (replayE (full.take k)) 0 := by
  unfold cutOpenE
  simp only
  congr 1
  split
  · split <;> rfl
  · rfl

/-- `C18_boundary_opens`, for events -/
theorem cutOpenE_boundary_opens (ram : State) (full : List Event) (k : Nat) : ∃ s, cutOpenE ram full k 0 = .ok s := by
  rw [cutOpenE_whole]; exact ⟨_, rfl⟩

/-- a cut that tears no append is a cut on the event boundary -/
theorem cutOpenE_not_torn (ram : State) (full : List Event) (k j : Nat) (h : ¬ Torn full k j) :
    cutOpenE ram full k j = openCut ram (replayE (full.take k)) 0 := by
  rw [← cutOpenE_whole]
  by_cases hj : j = 0
  · rw [hj]
  · cases he : full[k]? with
    | none => simp [cutOpenE, he]
    | some e =>
      cases ha : e.isAppend (replayE (full.take k)) with
      | false => exact cutOpenE_atomic ram full k j e he ha
      | true => exact absurd ⟨hj, e, he, ha⟩ h

/-- exactly the torn appends are refused -/
theorem cutOpenE_refuses_iff (ram : State) (full : List Event) (k j : Nat) :
    cutOpenE ram full k j = .error .traph ↔ Torn full k j := by
  constructor
  · intro h
    apply Classical.byContradiction
    intro hn
    rw [cutOpenE_not_torn ram full k j hn] at h
    simp [openCut] at h
  · exact cutOpenE_torn ram full k j

/-- after the truncations of a `clear`, tearing is what it is in the write log of the segment -/
theorem torn_clear_iff (pre : List Event) (ws : List Write) (k j : Nat) :
    Torn (pre ++ clearTruncations ++ ws.map .write) (pre.length + 2 + k) j ↔
      (j ≠ 0 ∧ ∃ w, ws[k]? = some w ∧ w.isAppend (replay (ws.take k)) = true) := by
  unfold Torn
  rw [replayE_take_clear]
  have e : pre.length + 2 + k = (pre ++ clearTruncations).length + k := by simp [clearTruncations]
  have hlen : ¬ (pre ++ clearTruncations).length + k < (pre ++ clearTruncations).length := by omega
  simp only [e, List.getElem?_append, hlen, if_false, Nat.add_sub_cancel_left, List.getElem?_map]
  constructor
  · rintro ⟨hj, ev, he, ha⟩
    cases hw : ws[k]? with
    | none => simp [hw] at he
    | some w =>
      simp only [hw, Option.map_some, Option.some.injEq] at he
      subst he
      exact ⟨hj, w, rfl, ha⟩
  · rintro ⟨hj, w, hw, ha⟩
    exact ⟨hj, .write w, by simp [hw], ha⟩

/-! ### 10. reopening: states with both header blocks -/

/-- both stores begin with a header block as the constructor writes it. (`{}` is the model's state with just
    the two header blocks.) Holds in every reachable state, across `clear`. -/
def Rooted (s : State) : Prop := ({} : State) ⊑ s

theorem Rooted.live {s : State} (h : Rooted s) : Live s := live_default.mono h

theorem rooted_fresh (cfg : Config) (dflt : Rule) (rules : List (Bytes × Rule)) :
    Rooted (State.fresh cfg dflt rules []).1 :=
  (Le.of_eq rfl rfl : ({} : State) ⊑ { cfg := cfg, dflt := dflt, log := [.linkHdr, .hdr 0] }).trans
    (trace_fresh cfg dflt rules []).le

theorem rooted_step (s : State) (h : Rooted s) (op : Op) : Rooted (s.step op).1 := by
  cases hc : op.isClear with
  | false => exact Le.trans h (step_le s op h.live (Op.not_clear_of_isClear hc)).1
  | true =>
    obtain ⟨d, rs, rfl⟩ := Op.eq_clear_of_isClear hc
    exact (Le.of_eq rfl rfl : ({} : State) ⊑ s.clearBase d rs).trans (trace_clear s d rs).le

theorem rooted_run : ∀ (ops : List Op) (s : State), Rooted s → Rooted (s.run ops)
  | [], _, h => h
  | op :: ops, s, h => rooted_run ops _ (rooted_step s h op)

/-- reopening files that are below a rooted state succeeds (on an event boundary) and gives a state below it;
    an empty store gets its header -/
theorem openCut_le (ram : State) (f : Files) (b : State) (hle : Files.Le f b.files) (hr : Rooted b) :
    ∃ st, openCut ram f 0 = .ok st ∧ st ⊑ b ∧
      st.trie = (if f.trie.size = 0 then #[{}] else f.trie) ∧
      st.links = (if f.links.size = 0 then #[{}] else f.links) ∧
      st.rules = ram.rules ∧ st.dflt = ram.dflt ∧ st.cfg = ram.cfg := by
  refine ⟨{ ram with hdrId := if f.trie.size = 0 then 0 else f.hdrId,
                      trie := if f.trie.size = 0 then #[{}] else f.trie,
                      links := if f.links.size = 0 then #[{}] else f.links, log := [] },
    by simp only [openCut]; rfl, ⟨fun i c hc => ?_, fun i x hx => ?_⟩, rfl, rfl, rfl, rfl, rfl⟩
  · by_cases h0 : f.trie.size = 0
    · exact hr.cells i c (by simpa [h0] using hc)
    · exact hle.1 i c (by simpa [h0] using hc)
  · by_cases h0 : f.links.size = 0
    · exact hr.stubs i x (by simpa [h0] using hx)
    · exact hle.2 i x (by simpa [h0] using hx)

/-- the state a reopen finds in the middle of a `clear` issued in state `a`: an empty trie (the header block is
    written again by the constructor), the OLD link file, the RAM part supplied again -/
def State.midClearOpen (ram a : State) : State :=
  { ram with hdrId := 0, trie := #[{}], links := a.links, log := [] }

theorem openCut_midClear (ram a : State) (hl : Live a) : openCut ram a.midClear 0 = .ok (ram.midClearOpen a) := by
  have h : ¬ a.links.size = 0 := by have := hl.2; omega
  simp [openCut, State.midClear, State.midClearOpen, h]

/-! ### 11. HEADLINE -/

theorem length_events_take_le (s : State) (ops : List Op) (a b : Nat) (h : a ≤ b) :
    (s.events (ops.take a)).length ≤ (s.events (ops.take b)).length := by
  have e : ops.take b = ops.take a ++ (ops.drop a).take (b - a) := by
    have : b = a + (b - a) := by omega
    rw [this, List.take_add]; simp
  rw [e, events_append, List.length_append]; omega

/-- C18 WITH `clear`. Any history on a fresh index, with any number of `clear` requests anywhere; any cut of its
    event history after `k` events plus `j` bytes of the next one; any RAM part `ram` supplied at reopening.

    * Reopening refuses, with the library's own error, exactly when `j ≠ 0` bytes of an APPEND are torn
      (a truncation, an in-place rewrite, a header rewrite cannot be torn).
    * Otherwise it opens, to a state `st` which is
      - either below the state reached by the first `n` requests, where request `n - 1` is the one the cut falls
        into (`n = 0`: the constructor), and then also below every later state up to the next `clear`:
        every page block, pointer and link stub of `st` is one of the completed segment;
      - or, when the cut separates the two truncations of a `clear` (request `n`): the empty trie with the old
        link file, `ram.midClearOpen _` (analysed in `Proofs/ClearCrashMid.lean`: every traversal is empty). -/
theorem C18_events_cut (cfg : Config) (dflt : Rule) (rules : List (Bytes × Rule)) (ops : List Op)
    (ram : State) (k j : Nat) (hk : k ≤ (historyEvents cfg dflt rules ops).length) :
    let full := historyEvents cfg dflt rules ops
    let fr := (State.fresh cfg dflt rules []).1
    let off := fun n => (historyEvents cfg dflt rules (ops.take n)).length
    (cutOpenE ram full k j = .error .traph ↔ Torn full k j) ∧
    (¬ Torn full k j → ∃ st, cutOpenE ram full k j = .ok st ∧
      ((∃ n, n ≤ ops.length ∧ k ≤ off n ∧ (n = 0 ∨ off (n - 1) < k) ∧ st ⊑ fr.run (ops.take n) ∧
          ∀ n', n ≤ n' → (∀ i op, n ≤ i → i < n' → ops[i]? = some op → op.isClear = false) →
            st ⊑ fr.run (ops.take n')) ∨
       (∃ n d rs, ops[n]? = some (.clear d rs) ∧ k = off n + 1 ∧
          st = ram.midClearOpen (fr.run (ops.take n))))) := by
  dsimp only
  refine ⟨cutOpenE_refuses_iff ram _ k j, fun hn => ?_⟩
  rw [cutOpenE_not_torn ram _ k j hn]
  have hfr := rooted_fresh cfg dflt rules
  have ext : ∀ (st : State) (n : Nat), st ⊑ (State.fresh cfg dflt rules []).1.run (ops.take n) →
      ∀ n', n ≤ n' → (∀ i op, n ≤ i → i < n' → ops[i]? = some op → op.isClear = false) →
        st ⊑ (State.fresh cfg dflt rules []).1.run (ops.take n') :=
    fun st n h n' hnn hseg => h.trans (run_take_le _ hfr.live ops n n' hnn hseg)
  rcases history_cut cfg dflt rules ops k hk with ⟨hc, hle⟩ | ⟨n, op, hop, h1, h2, h3⟩
  · obtain ⟨st, hst, hb, _⟩ := openCut_le ram _ _ hle hfr
    refine ⟨st, hst, Or.inl ⟨0, Nat.zero_le _, ?_, Or.inl rfl, hb, ext st 0 hb⟩⟩
    simp only [List.take_zero, length_historyEvents, events_nil, List.length_nil, Nat.add_zero]; exact hc
  · have hn : n < ops.length := by
      have := List.getElem?_eq_some_iff.mp hop; exact this.1
    have hrb : Rooted ((State.fresh cfg dflt rules []).1.run (ops.take (n + 1))) := rooted_run _ _ hfr
    have hstep : (State.fresh cfg dflt rules []).1.run (ops.take (n + 1)) =
        (((State.fresh cfg dflt rules []).1.run (ops.take n)).step op).1 := by
      rw [List.take_add_one, hop, Option.toList_some, run_append]; rfl
    unfold CutOf at h3
    cases hc : op.isClear with
    | false =>
      rw [hc, if_neg (by simp)] at h3
      obtain ⟨m, _, hmb, hf⟩ := h3
      rw [← hstep] at hmb
      obtain ⟨st, hst, hb, _⟩ := openCut_le ram _ _ (hf ▸ hmb.files) hrb
      exact ⟨st, hst, Or.inl ⟨n + 1, hn, h2, Or.inr h1, hb, ext st _ hb⟩⟩
    | true =>
      rw [hc, if_pos rfl] at h3
      obtain ⟨d, rs, rfl⟩ := Op.eq_clear_of_isClear hc
      rcases h3 with ⟨hk1, hf⟩ | ⟨_, hle⟩
      · refine ⟨_, ?_, Or.inr ⟨n, d, rs, hop, by omega, rfl⟩⟩
        rw [hf]
        exact openCut_midClear ram _ (rooted_run _ _ hfr).live
      · rw [← hstep] at hle
        obtain ⟨st, hst, hb, _⟩ := openCut_le ram _ _ hle hrb
        exact ⟨st, hst, Or.inl ⟨n + 1, hn, h2, Or.inr h1, hb, ext st _ hb⟩⟩

#print axioms events_cut
#print axioms history_cut
#print axioms history_segment_cut
#print axioms history_cut_segment
#print axioms C18_events_cut

end Traph

import Proofs.ObsEquivOps
import Proofs.ObsEquivCfg
import Proofs.Reopen
import Proofs.Codec
import Proofs.ReachableAll
/-! C11 — close/reopen and clear, inserted anywhere in a history, any number of times.

    * `reopen_equiv`: reopening with the same default rule and a rule collection of the same CONTENT (any order,
      repeated anchors allowed — the last one wins, as in the dict the caller's items build) gives an observationally
      equivalent index (`≃ₒ`, Proofs/ObsEquiv): not the same model state in general (the RAM association list may be
      permuted), but no request can tell.
    * `Reopened s ops ops'`: `ops'` is `ops` with such reopen requests inserted at any positions, any number of
      times; the re-supplied rules are those of the index AT THAT POSITION of the run.
    * `C11_reopen_everywhere`: the two runs end in equivalent states, the original requests get the same answers,
      the same storage writes are issued (the inserted requests write nothing and answer nothing); hence every
      read-only request answers the same afterwards, the files are the same byte for byte, and any continuation
      evolves identically (`C11_reopen_continues`).
    * whole blocks: `C11_whole_blocks_always` — for EVERY state, no capacity hypothesis.
    * `clear`: `C11_clear_everywhere`. -/
namespace Traph
open State

/-! ### re-supplying the rules -/

/-- `rs` (the items of the caller's dict, or any list of `(anchor, rule)` pairs — later pairs win) re-supplies the
    rules the index holds in RAM: the dict it builds has the same content -/
def Resupplies (s : State) (rs : List (Bytes × Rule)) : Prop :=
  RulesEq s.rules (rs.foldl (fun d ar => dictSet d ar.1 ar.2) [])

/-- … which only depends on the last pair of each anchor -/
theorem resupplies_iff (s : State) (rs : List (Bytes × Rule)) : Resupplies s rs ↔ RulesEq s.rules rs.reverse := by
  unfold Resupplies RulesEq
  simp only [oe_dictGet_built]

/-- closing and reopening with the same default rule and rules of the same content: an equivalent index -/
theorem reopen_equiv (s : State) (rs : List (Bytes × Rule)) (h : Resupplies s rs) : s ≃ₒ s.reopen s.dflt rs :=
  ⟨rfl, rfl, rfl, rfl, rfl, h⟩

/-- with another default rule or rules of another content the reopened index is NOT equivalent (the relation is
    exactly "same files, same RAM content") -/
theorem reopen_equiv_iff (s : State) (d : Rule) (rs : List (Bytes × Rule)) :
    s ≃ₒ s.reopen d rs ↔ d = s.dflt ∧ Resupplies s rs :=
  ⟨fun h => ⟨h.dflt, h.rules⟩, fun ⟨hd, hr⟩ => hd ▸ reopen_equiv s rs hr⟩

theorem oe_dictGet_append {α β} [DecidableEq α] (a b : List (α × β)) (k : α) :
    dictGet? (a ++ b) k = (dictGet? a k).or (dictGet? b k) := by
  induction a with
  | nil => simp [oe_dictGet_nil]
  | cons x a ih =>
    obtain ⟨k', v'⟩ := x
    rw [List.cons_append, oe_dictGet_cons, oe_dictGet_cons, ih]
    split <;> rfl

theorem oe_dictGet_reverse {α β} [DecidableEq α] (d : List (α × β)) (hn : (d.map (·.1)).Nodup) :
    RulesEq d d.reverse :=
  RulesEq.of_perm hn (List.reverse_perm d).symm

/-- the very same list of rules (distinct anchors) -/
theorem resupplies_self (s : State) (hn : (s.rules.map (·.1)).Nodup) : Resupplies s s.rules :=
  (resupplies_iff s s.rules).mpr (oe_dictGet_reverse s.rules hn)

/-- the same rules in ANY ORDER (a Python dict rebuilt by the caller) -/
theorem resupplies_perm (s : State) (rs : List (Bytes × Rule)) (hn : (s.rules.map (·.1)).Nodup)
    (hp : rs.Perm s.rules) : Resupplies s rs := by
  rw [resupplies_iff]
  exact RulesEq.of_perm hn (hp.symm.trans (List.reverse_perm rs).symm)

/-- … preceded by any pairs whose anchors are given again later (REPETITIONS: the later pair wins) -/
theorem resupplies_shadowed (s : State) (junk rs : List (Bytes × Rule)) (h : Resupplies s rs)
    (hj : ∀ k ∈ junk.map (·.1), k ∈ rs.map (·.1)) : Resupplies s (junk ++ rs) := by
  rw [resupplies_iff] at h ⊢
  intro k
  rw [h k, List.reverse_append, oe_dictGet_append]
  cases hg : dictGet? rs.reverse k with
  | some v => rfl
  | none =>
    rw [oe_dictGet_none_iff] at hg
    have hk : k ∉ junk.reverse.map (·.1) := by
      intro hm
      apply hg
      rw [List.map_reverse, List.mem_reverse] at hm ⊢
      exact hj k hm
    rw [Option.none_or, oe_dictGet_none_iff.mpr hk]

/-! ### the RAM dict has distinct anchors in every state reached from a fresh index -/

/-- distinct anchors -/
def OeRulesNodup (s : State) : Prop := (s.rules.map (·.1)).Nodup

theorem oe_nodup_erase {β} (d : List (Bytes × β)) (a : Bytes) (h : (d.map (·.1)).Nodup) :
    ((d.filter (fun p => p.1 ≠ a)).map (·.1)).Nodup :=
  h.sublist ((List.filter_sublist).map _)

theorem oe_nodup_built {β} (rs acc : List (Bytes × β)) (h : (acc.map (·.1)).Nodup) :
    ((rs.foldl (fun d ar => dictSet d ar.1 ar.2) acc).map (·.1)).Nodup := by
  induction rs generalizing acc with
  | nil => exact h
  | cons x rs ih => exact ih _ (dictSet_keys_nodup acc x.1 x.2 h)

theorem oe_nodup_installRules (l : List (Bytes × Rule)) (w : Bool) (s : State) (h : OeRulesNodup s) :
    OeRulesNodup (installRules s l w).1 := by
  induction l generalizing s with
  | nil => exact h
  | cons x rest ih =>
    obtain ⟨a, r⟩ := x
    have h2 := (addRule_oe s s.rules (RulesEq.refl _) a r w).2
    unfold installRules
    revert h2
    generalize s.addRule a r w = X
    rcases X with ⟨s1, (e | u)⟩
    · intro h2
      show (s1.rules.map (·.1)).Nodup
      have : s1.rules = dictSet s.rules a r := h2
      rw [this]; exact dictSet_keys_nodup _ _ _ h
    · intro h2
      refine ih s1 ?_
      show (s1.rules.map (·.1)).Nodup
      have : s1.rules = dictSet s.rules a r := h2
      rw [this]; exact dictSet_keys_nodup _ _ _ h

theorem oe_nodup_step (s : State) (op : Op) (h : OeRulesNodup s) : OeRulesNodup (s.step op).1 := by
  unfold OeRulesNodup at h ⊢
  cases op with
  | addPage x c =>
    show ((s.addPage x c).1.rules.map (·.1)).Nodup
    rw [oe_rules_of_comm (f := fun s => s.addPage x c) (addPage_oe s s.rules (RulesEq.refl _) x c)]; exact h
  | addPages ls c =>
    show ((s.addPages ls c).1.rules.map (·.1)).Nodup
    rw [oe_rules_of_comm (f := fun s => s.addPages ls c) (addPages_oe s s.rules (RulesEq.refl _) ls c)]; exact h
  | addLinks ls =>
    show ((s.addLinks ls).1.rules.map (·.1)).Nodup
    rw [oe_rules_of_comm (f := fun s => s.addLinks ls) (addLinks_oe s s.rules (RulesEq.refl _) ls)]; exact h
  | batch d =>
    show ((s.batch d).1.rules.map (·.1)).Nodup
    rw [oe_rules_of_comm (f := fun s => s.batch d) (batch_oe s s.rules (RulesEq.refl _) d)]; exact h
  | create ps =>
    show ((s.createWebentity ps).1.rules.map (·.1)).Nodup
    rw [oe_rules_of_comm (f := fun s => s.createWebentity ps) (createWebentity_oe s s.rules ps)]; exact h
  | delete w ps =>
    show ((s.deleteWebentity w ps).1.rules.map (·.1)).Nodup
    rw [oe_rules_of_comm (f := fun s => s.deleteWebentity w ps) (deleteWebentity_oe s s.rules w ps)]; exact h
  | addPrefix p w =>
    show ((s.addPrefix p w).1.rules.map (·.1)).Nodup
    rw [oe_rules_of_comm (f := fun s => s.addPrefix p w) (addPrefix_oe s s.rules p w)]; exact h
  | removePrefix p w =>
    show ((s.removePrefix p w).1.rules.map (·.1)).Nodup
    rw [oe_rules_of_comm (f := fun s => s.removePrefix p w) (removePrefix_oe s s.rules p w)]; exact h
  | movePrefix p t f =>
    show ((s.movePrefix p t f).1.rules.map (·.1)).Nodup
    rw [oe_rules_of_comm (f := fun s => s.movePrefix p t f) (movePrefix_oe s s.rules p t f)]; exact h
  | addRule a r =>
    show ((s.addRule a r true).1.rules.map (·.1)).Nodup
    rw [(addRule_oe s s.rules (RulesEq.refl _) a r true).2]; exact dictSet_keys_nodup _ _ _ h
  | removeRule a =>
    show ((s.removeRule a).1.rules.map (·.1)).Nodup
    rw [(removeRule_oe s s.rules (RulesEq.refl _) a).2]; exact oe_nodup_erase _ _ h
  | reopen d l => exact oe_nodup_built l [] (by simp)
  | clear d l =>
    cases l with
    | none => exact h
    | some l =>
      exact oe_nodup_installRules l true
        { cfg := s.cfg, dflt := d.getD s.dflt, rules := [], log := .linkHdr :: .hdr 0 :: s.log } (by simp [OeRulesNodup])

theorem oe_nodup_run (s : State) (ops : List Op) (h : OeRulesNodup s) : OeRulesNodup (s.run ops) := by
  induction ops generalizing s with
  | nil => exact h
  | cons op ops ih => exact ih _ (oe_nodup_step s op h)

theorem oe_nodup_fresh (cfg : Config) (dflt : Rule) (rules : List (Bytes × Rule)) (log : List Write) :
    OeRulesNodup (State.fresh cfg dflt rules log).1 :=
  oe_nodup_installRules rules true _ (by simp [OeRulesNodup])

/-- in every reachable state the RAM dict has distinct anchors -/
theorem oe_reachable_rulesNodup {s : State} (h : Reachable s) : OeRulesNodup s := by
  obtain ⟨cfg, dflt, rules, ops, _, _, _, rfl⟩ := h
  exact oe_nodup_run _ ops (oe_nodup_fresh cfg dflt rules [])

/-- so, in a reachable state, re-supplying the RAM rules themselves, in any order, is accepted -/
theorem oe_reachable_resupplies {s : State} (h : Reachable s) (rs : List (Bytes × Rule)) (hp : rs.Perm s.rules) :
    Resupplies s rs := resupplies_perm s rs (oe_reachable_rulesNodup h) hp

/-! ### histories with close/reopen inserted -/

/-- `Reopened s ops ops'`: started in `s`, the marked history `ops'` is the history `ops` with close/reopen requests
    (mark `true`) inserted at any positions, any number of times; each inserted request re-supplies the default rule
    and (the content of) the rules of the index as it is at that position of the run -/
inductive Reopened : State → List Op → List (Bool × Op) → Prop
  | done (s : State) : Reopened s [] []
  | keep (s : State) (op : Op) (ops : List Op) (ops' : List (Bool × Op)) :
      Reopened (s.step op).1 ops ops' → Reopened s (op :: ops) ((false, op) :: ops')
  | reopen (s : State) (rs : List (Bytes × Rule)) (ops : List Op) (ops' : List (Bool × Op)) :
      Resupplies s rs → Reopened (s.reopen s.dflt rs) ops ops' → Reopened s ops ((true, .reopen s.dflt rs) :: ops')

/-- the requests actually executed -/
def oe_unmark (ops' : List (Bool × Op)) : List Op := ops'.map (·.2)

/-- the answers to the ORIGINAL requests in the run of a marked history (inserted requests skipped) -/
def State.oe_origAnswers : State → List (Bool × Op) → List (Op × Ans)
  | _, [] => []
  | s, (true, op) :: l => State.oe_origAnswers (s.step op).1 l
  | s, (false, op) :: l => (op, (s.step op).2) :: State.oe_origAnswers (s.step op).1 l

/-- `oe_origAnswers` is the transcript restricted to the non-inserted requests -/
theorem oe_origAnswers_eq (s : State) (l : List (Bool × Op)) :
    s.oe_origAnswers l
      = (((l.map (·.1)).zip (s.transcript (oe_unmark l))).filter (fun x => !x.1)).map (·.2) := by
  induction l generalizing s with
  | nil => rfl
  | cons x l ih =>
    obtain ⟨m, op⟩ := x
    cases m with
    | true =>
      simp only [State.oe_origAnswers, oe_unmark, List.map_cons, State.transcript, List.zip_cons_cons]
      rw [List.filter_cons_of_neg (by simp)]
      exact ih _
    | false =>
      simp only [State.oe_origAnswers, oe_unmark, List.map_cons, State.transcript, List.zip_cons_cons]
      rw [List.filter_cons_of_pos (by simp), List.map_cons]
      exact congrArg _ (ih _)

/-- the inserted requests answer nothing (`unit`) and write nothing -/
theorem oe_reopen_silent (s : State) (d : Rule) (rs : List (Bytes × Rule)) :
    (s.step (.reopen d rs)).2 = .unit ∧ s.oe_writes (.reopen d rs) = [] ∧
    (s.step (.reopen d rs)).1.trie = s.trie ∧ (s.step (.reopen d rs)).1.links = s.links ∧
    (s.step (.reopen d rs)).1.hdrId = s.hdrId ∧ (s.step (.reopen d rs)).1.log = s.log := ⟨rfl, rfl, rfl, rfl, rfl, rfl⟩

/-- **C11, MAIN (general form)**: from equivalent states, a history and the same history with close/reopen
    requests inserted anywhere, any number of times, end in equivalent states; the original requests get the same
    answers; the same storage writes are issued -/
theorem oe_reopened {s' : State} {ops : List Op} {ops' : List (Bool × Op)} (hi : Reopened s' ops ops') :
    ∀ {s : State}, s ≃ₒ s' →
      s.run ops ≃ₒ s'.run (oe_unmark ops') ∧
      s'.oe_origAnswers ops' = s.transcript ops ∧
      s'.oe_runWrites (oe_unmark ops') = s.oe_runWrites ops := by
  induction hi with
  | done s' => intro s h; exact ⟨h, rfl, rfl⟩
  | keep s' op ops ops' _ ih =>
    intro s h
    obtain ⟨ha, hs, hw⟩ := oe_step h op
    obtain ⟨i1, i2, i3⟩ := ih hs
    refine ⟨i1, ?_, ?_⟩
    · simp only [State.oe_origAnswers, State.transcript]
      rw [ha, i2]
    · simp only [oe_unmark, List.map_cons, State.oe_runWrites] at i3 ⊢
      rw [hw, i3]
  | reopen s' rs ops ops' hr _ ih =>
    intro s h
    obtain ⟨i1, i2, i3⟩ := ih (h.trans (reopen_equiv s' rs hr))
    refine ⟨i1, i2, ?_⟩
    simp only [oe_unmark, List.map_cons, State.oe_runWrites] at i3 ⊢
    rw [← i3]
    exact List.append_nil _

/-- **C11 `reopen_everywhere`**: a history with close/reopen (same default rule, rules of the same content
    re-supplied) inserted at every position of it, any number of times, from ANY state `s`: the final states are
    observationally equivalent, every original request gets the same answer, the sequence of storage writes is the
    same, both files are the same byte for byte, and every read-only request answers the same afterwards -/
theorem C11_reopen_everywhere (s : State) (ops : List Op) (ops' : List (Bool × Op)) (hi : Reopened s ops ops') :
    s.run ops ≃ₒ s.run (oe_unmark ops') ∧
    s.oe_origAnswers ops' = s.transcript ops ∧
    s.oe_runWrites (oe_unmark ops') = s.oe_runWrites ops ∧
    (s.run (oe_unmark ops')).log = (s.run ops).log ∧
    encodeTrie (s.run (oe_unmark ops')) = encodeTrie (s.run ops) ∧
    encodeLinks (s.run (oe_unmark ops')) = encodeLinks (s.run ops) ∧
    ∀ q, (s.run (oe_unmark ops')).ask q = (s.run ops).ask q := by
  obtain ⟨h1, h2, h3⟩ := oe_reopened hi (ObsEq.refl s)
  refine ⟨h1, h2, h3, ?_, (oe_files h1).1, (oe_files h1).2, fun q => oe_ask h1 q⟩
  rw [oe_log_run, oe_log_run, h3]

/-- **… and continues to evolve exactly as an index that was never closed**: any further history (itself with
    close/reopen inserted or not) gets the same answers, issues the same writes, ends in equivalent states -/
theorem C11_reopen_continues (s : State) (ops : List Op) (ops' : List (Bool × Op)) (hi : Reopened s ops ops')
    (more : List Op) :
    (s.run (oe_unmark ops')).transcript more = (s.run ops).transcript more ∧
    (s.run (oe_unmark ops')).oe_runWrites more = (s.run ops).oe_runWrites more ∧
    (s.run ops).run more ≃ₒ (s.run (oe_unmark ops')).run more :=
  have h := (oe_reopened hi (ObsEq.refl s)).1
  ⟨oe_transcript h more, oe_runWrites h more, oe_run h more⟩

/-! ### the relation is inhabited at every position -/

theorem reopened_refl (s : State) (ops : List Op) : Reopened s ops (ops.map (fun op => (false, op))) := by
  induction ops generalizing s with
  | nil => exact .done s
  | cons op ops ih => exact .keep s op ops _ (ih _)

theorem reopened_append {s : State} {a : List Op} {a' : List (Bool × Op)} (h : Reopened s a a')
    {b : List Op} {b' : List (Bool × Op)} (hb : Reopened (s.run (oe_unmark a')) b b') :
    Reopened s (a ++ b) (a' ++ b') := by
  induction h with
  | done s => exact hb
  | keep s op ops ops' _ ih => exact .keep s op _ _ (ih hb)
  | reopen s rs ops ops' hr _ ih => exact .reopen s rs _ _ hr (ih hb)

theorem oe_unmark_map_false (ops : List Op) : oe_unmark (ops.map (fun op => (false, op))) = ops := by
  induction ops with
  | nil => rfl
  | cons op ops ih => simp only [oe_unmark, List.map_cons] at ih ⊢; rw [ih]

/-- one close/reopen, re-supplying the RAM rules in any order `rs`, between any two requests of a history that
    starts in a state whose RAM dict has distinct anchors (e.g. any reachable state) -/
theorem reopened_at (s : State) (hn : OeRulesNodup s) (pre post : List Op) (rs : List (Bytes × Rule))
    (hp : rs.Perm (s.run pre).rules) :
    Reopened s (pre ++ post)
      (pre.map (fun op => (false, op)) ++ (true, .reopen (s.run pre).dflt rs) :: post.map (fun op => (false, op))) := by
  refine reopened_append (reopened_refl s pre) ?_
  rw [oe_unmark_map_false]
  exact .reopen _ rs _ _ (resupplies_perm _ rs (oe_nodup_run s pre hn) hp) (reopened_refl _ post)

/-! ### files are whole numbers of blocks — unconditionally -/

/-- the trie file of ANY state is `trie.size` blocks of 128 bytes: the encoders are fixed-width (over-long chunks
    are truncated, numbers wrap), so no capacity hypothesis is needed for the LENGTHS -/
theorem oe_encodeTrie_length (s : State) : (encodeTrie s).length = s.trie.size * Layout.trieBlock := by
  unfold encodeTrie
  split
  · rename_i h; rw [h]; rfl
  · rename_i h
    rw [← List.flatten_cons, flatten_length_of_uniform _ _ (trieBlocks_uniform s)]
    simp only [List.length_cons, List.length_map, List.length_drop, Array.length_toList]
    congr 1
    omega

theorem oe_encodeLinks_length (s : State) : (encodeLinks s).length = s.links.size * Layout.linkBlock := by
  unfold encodeLinks
  split
  · rename_i h; rw [h]; rfl
  · rename_i h
    rw [← List.flatten_cons, flatten_length_of_uniform _ _ (linkBlocks_uniform s)]
    simp only [List.length_cons, List.length_map, List.length_drop, Array.length_toList]
    congr 1
    omega

/-- **files are whole numbers of blocks, in every state** (reachable or not, whatever the sizes of ids and offsets) -/
theorem C11_whole_blocks_always (s : State) :
    (encodeTrie s).length = s.trie.size * Layout.trieBlock ∧ (encodeLinks s).length = s.links.size * Layout.linkBlock ∧
    (encodeTrie s).length % Layout.trieBlock = 0 ∧ (encodeLinks s).length % Layout.linkBlock = 0 := by
  refine ⟨oe_encodeTrie_length s, oe_encodeLinks_length s, ?_, ?_⟩
  · rw [oe_encodeTrie_length]; exact Nat.mul_mod_left _ _
  · rw [oe_encodeLinks_length]; exact Nat.mul_mod_left _ _

/-! ### clear -/

/-- `clear` with rules given builds, up to the ghost log, the constructor's fresh index — whatever the state it is
    issued in (only its configuration, and its default rule if none is given, are kept) -/
theorem clear_equiv_fresh (s : State) (d : Option Rule) (rs : List (Bytes × Rule)) :
    (State.fresh s.cfg (d.getD s.dflt) rs []).1 ≃ₒ (s.clear d (some rs)).1 ∧
    (s.clear d (some rs)).2 = (State.fresh s.cfg (d.getD s.dflt) rs []).2 := by
  have e : s.clear d (some rs) = (((State.fresh s.cfg (d.getD s.dflt) rs []).1).addLog s.log,
      (State.fresh s.cfg (d.getD s.dflt) rs []).2) := by
    rw [clear_some_eq_fresh]; exact fresh_addLog _ _ _ _
  rw [e]
  exact ⟨obsEq_addLog _ _, rfl⟩

/-- `clear` WITHOUT rules keeps the RAM dict although no rule is flagged in the (empty) trie any more: it is the
    fresh index without rules, except for the stale RAM dict -/
theorem clear_none_eq (s : State) (d : Option Rule) :
    (s.clear d none).1 = ((State.fresh s.cfg (d.getD s.dflt) [] s.log).1).oe_setRules s.rules := rfl

/-- … hence equivalent to a fresh index (necessarily one without rules: the trie is empty) iff the RAM dict was empty -/
theorem clear_none_equiv_iff (s : State) (d : Option Rule) :
    (State.fresh s.cfg (d.getD s.dflt) [] []).1 ≃ₒ (s.clear d none).1 ↔ ∀ k, dictGet? s.rules k = none := by
  constructor
  · intro h k
    exact (h.rules k).symm
  · intro h
    exact ⟨rfl, rfl, rfl, rfl, rfl, fun k => (h k).symm⟩

/-- **C11 `clear_everywhere`**: `clear d rs` inserted at any position of a history (`pre` before, `post` after),
    from any state: the part of the history after the clear behaves exactly as on a freshly created index holding
    the rules given to the clear request (with the configuration the index has, and its default rule if the request
    gives none) — same answers to every request, same storage writes, equivalent states all along, the same two
    files and the same answer to every read-only request at the end -/
theorem C11_clear_everywhere (s : State) (pre post : List Op) (d : Option Rule) (rs : List (Bytes × Rule)) :
    let c := s.run pre
    let f := (State.fresh s.cfg (d.getD c.dflt) rs []).1
    (c.step (.clear d (some rs))).2 = Ans.ofExcept (fun _ => .unit) (State.fresh s.cfg (d.getD c.dflt) rs []).2 ∧
    f.run post ≃ₒ s.run (pre ++ .clear d (some rs) :: post) ∧
    (c.step (.clear d (some rs))).1.transcript post = f.transcript post ∧
    (c.step (.clear d (some rs))).1.oe_runWrites post = f.oe_runWrites post ∧
    encodeTrie (s.run (pre ++ .clear d (some rs) :: post)) = encodeTrie (f.run post) ∧
    encodeLinks (s.run (pre ++ .clear d (some rs) :: post)) = encodeLinks (f.run post) ∧
    ∀ q, (s.run (pre ++ .clear d (some rs) :: post)).ask q = (f.run post).ask q := by
  intro c f
  have hc : c.cfg = s.cfg := oe_cfg_run s pre
  obtain ⟨h, ha⟩ := clear_equiv_fresh c d rs
  rw [hc] at h ha
  have e : s.run (pre ++ .clear d (some rs) :: post) = (c.clear d (some rs)).1.run post := by
    rw [run_append]; rfl
  have hr : f.run post ≃ₒ (c.clear d (some rs)).1.run post := oe_run h post
  refine ⟨?_, e ▸ hr, oe_transcript h post, oe_runWrites h post, ?_, ?_, fun q => ?_⟩
  · show Ans.ofExcept _ (c.clear d (some rs)).2 = _
    rw [ha]
  · rw [e]; exact (oe_files hr).1
  · rw [e]; exact (oe_files hr).2
  · rw [e]; exact oe_ask hr q

/-- the cleared index is blank before the rules are installed: id counter 0, both files reduced to their header -/
theorem C11_clear_blank (s : State) (d : Option Rule) :
    (s.clear d (some [])).1.trie = #[{}] ∧ (s.clear d (some [])).1.links = #[{}] ∧ (s.clear d (some [])).1.hdrId = 0 ∧
    (s.clear d (some [])).1.rules = [] := ⟨rfl, rfl, rfl, rfl⟩

/-! ### witnesses -/

/-- `s:http|h:com|h:a|` -/
def oe_exA : Bytes := [115, 58, 104, 116, 116, 112, 124, 104, 58, 99, 111, 109, 124, 104, 58, 97, 124]
/-- `s:http|h:com|h:b|` -/
def oe_exB : Bytes := [115, 58, 104, 116, 116, 112, 124, 104, 58, 99, 111, 109, 124, 104, 58, 98, 124]
/-- a fresh index with two rules -/
def oe_exS : State := (State.fresh {} .domain [(oe_exA, .path 1), (oe_exB, .subdomain)] []).1

/-- re-supplying the same rules in another order does NOT give back the same model state (so `reopen_same` does not
    apply) — only an equivalent one (`reopen_equiv`) -/
example : (oe_exS.reopen oe_exS.dflt [(oe_exB, .subdomain), (oe_exA, .path 1)]).rules ≠ oe_exS.rules := by decide

example : Resupplies oe_exS [(oe_exB, .subdomain), (oe_exA, .path 1)] :=
  resupplies_perm _ _ (oe_nodup_fresh _ _ _ _) (List.Perm.swap _ _ _)

/-- `clear()` without rules is distinguishable from every fresh index: its trie is blank, so only a fresh index
    without rules could match, but the stale RAM entry answers `remove_webentity_creation_rule` differently
    (`TraphException` "cannot be found" instead of `KeyError`) -/
example : ((oe_exS.clear none none).1.step (.removeRule oe_exA)).2 = .err .traph ∧
    ((State.fresh {} .domain [] []).1.step (.removeRule oe_exA)).2 = .err (.other "KeyError") := by decide

/-! ### reachable states -/

/-- re-supplied rules have (at least) the anchors of the RAM dict -/
theorem resupplies_keys {s : State} {rs : List (Bytes × Rule)} (h : Resupplies s rs) :
    ∀ k ∈ s.rules.map (·.1), k ∈ rs.map (·.1) := by
  intro k hk
  have h1 : dictGet? s.rules k ≠ none := fun e => (oe_dictGet_none_iff.mp e) hk
  rw [h k, oe_dictGet_built] at h1
  have h2 : k ∈ rs.reverse.map (·.1) := by
    by_cases hm : k ∈ rs.reverse.map (·.1)
    · exact hm
    · exact absurd (oe_dictGet_none_iff.mpr hm) h1
  rw [List.map_reverse, List.mem_reverse] at h2
  exact h2

/-- the API's discipline (Proofs/Discipline) does not distinguish equivalent states -/
theorem oe_stepOk {s s' : State} (h : s ≃ₒ s') (op : Op) : StepOk s' op ↔ StepOk s op := by
  cases op with
  | removeRule a => simp only [StepOk]; rw [h.rules a]
  | reopen d rs =>
    simp only [StepOk, Covers]
    rw [h.eq_ram]
    simp only [State.oe_lruNode, State.oe_ram_cell]
  | clear d l => cases l <;> exact Iff.rfl
  | _ => exact Iff.rfl

/-- a close/reopen that re-supplies the rules is allowed by the discipline in every reachable state, and leads to a
    reachable state -/
theorem oe_reachable_reopen {s : State} (h : Reachable s) (rs : List (Bytes × Rule)) (hr : Resupplies s rs) :
    StepOk s (.reopen s.dflt rs) ∧ Reachable (s.reopen s.dflt rs) := by
  obtain ⟨t, _, _, _, _, _, _, _, ok, _⟩ := reachable_invariants h
  have hc : Covers s rs := covers_of_keys ok rs (resupplies_keys hr)
  exact ⟨hc, reachable_step h (.reopen s.dflt rs) trivial hc⟩

/-- **the hypotheses of every other theorem survive the insertions**: from a reachable state, if the original history
    is well-formed and disciplined, so is the history with close/reopen inserted, and every state it goes through is
    reachable (so all invariants of `reachable_invariants` hold all along the reopened run) -/
theorem oe_reachable_reopened {s' : State} {ops : List Op} {ops' : List (Bool × Op)} (hi : Reopened s' ops ops') :
    ∀ {s : State}, s ≃ₒ s' → Reachable s' → (∀ op ∈ ops, OpWf op) → Disciplined s ops →
      Disciplined s' (oe_unmark ops') ∧ Reachable (s'.run (oe_unmark ops')) := by
  induction hi with
  | done s' => intro s _ hr _ _; exact ⟨trivial, hr⟩
  | keep s' op ops ops' _ ih =>
    intro s h hr hwf hd
    have hs : StepOk s' op := (oe_stepOk h op).mpr hd.1
    obtain ⟨i1, i2⟩ := ih (oe_step h op).2.1 (reachable_step hr op (hwf op (by simp)) hs)
      (fun o ho => hwf o (by simp [ho])) hd.2
    exact ⟨⟨hs, i1⟩, i2⟩
  | reopen s' rs ops ops' hrs _ ih =>
    intro s h hr hwf hd
    obtain ⟨hs, hr'⟩ := oe_reachable_reopen hr rs hrs
    obtain ⟨i1, i2⟩ := ih (h.trans (reopen_equiv s' rs hrs)) hr' hwf hd
    exact ⟨⟨hs, i1⟩, i2⟩

/-- in a reachable state, reopening with literally the RAM rules gives back the very same model state, and with any
    permutation of them an equivalent one -/
theorem C11_reopen_reachable {s : State} (h : Reachable s) :
    s.reopen s.dflt s.rules = s ∧ ∀ rs, rs.Perm s.rules → s ≃ₒ s.reopen s.dflt rs :=
  ⟨reopen_same s (oe_reachable_rulesNodup h), fun rs hp => reopen_equiv s rs (oe_reachable_resupplies h rs hp)⟩

/-- the configuration of a reachable state is the one its index was created with -/
theorem oe_reachable_cfg (cfg : Config) (dflt : Rule) (rules : List (Bytes × Rule)) (ops : List Op) :
    ((State.fresh cfg dflt rules []).1.run ops).cfg = cfg := by
  rw [oe_cfg_run, oe_cfg_fresh]

/-- **round-trip of the CONTENTS needs capacity**: in a reachable state all pointers are inside the files
    (`Whole`), so the offset fields fit as soon as the two FILES are at most 2^64 bytes; what remains is that ids are
    below 2^32 and that every block's chunk is at most `stemCap` bytes (< 256 each) — capacity of the id fields and
    "bytes are bytes", which the unbounded `Nat` model cannot provide by itself -/
theorem oe_reachable_wfImage {s : State} (h : Reachable s)
    (capT : s.trie.size * Layout.trieBlock ≤ 2 ^ 64) (capL : s.links.size * Layout.linkBlock ≤ 2 ^ 64)
    (hid : s.hdrId < 2 ^ 32)
    (hcells : ∀ c ∈ s.trie.toList.drop 1,
      c.chunk.length ≤ Layout.stemCap ∧ (∀ b ∈ c.chunk, b < 256) ∧ c.we < 2 ^ 32) :
    s.WfImage := by
  obtain ⟨t, _, _, _, _, _, _, _, _, hw, _⟩ := reachable_invariants h
  have hw : PtrOkAt s s.trie.size := hw
  have hT : 0 < Layout.trieBlock := by decide
  have hL : 0 < Layout.linkBlock := by decide
  refine ⟨hw.dpos, hw.lpos, hid, fun c hc => ?_, fun b hb => ?_⟩
  · obtain ⟨i, hi⟩ := List.getElem?_of_mem (List.mem_of_mem_drop hc)
    rw [Array.getElem?_toList] at hi
    have ok := hw.cells i c hi
    obtain ⟨h1, h2, h3⟩ := hcells c hc
    exact ⟨h1, h2, h3,
      Nat.lt_of_lt_of_le (Nat.mul_lt_mul_of_pos_right ok.left hT) capT,
      Nat.lt_of_lt_of_le (Nat.mul_lt_mul_of_pos_right ok.right hT) capT,
      Nat.lt_of_lt_of_le (Nat.mul_lt_mul_of_pos_right ok.child hT) capT,
      Nat.lt_of_lt_of_le (Nat.mul_lt_mul_of_pos_right ok.parent hT) capT,
      Nat.lt_of_lt_of_le (Nat.mul_lt_mul_of_pos_right ok.out hL) capL,
      Nat.lt_of_lt_of_le (Nat.mul_lt_mul_of_pos_right ok.inn hL) capL⟩
  · obtain ⟨i, hi⟩ := List.getElem?_of_mem (List.mem_of_mem_drop hb)
    rw [Array.getElem?_toList] at hi
    obtain ⟨hp, ht⟩ := hw.stubs i b hi
    exact ⟨Nat.lt_of_lt_of_le (Nat.mul_lt_mul_of_pos_right ht hT) capT,
      Nat.lt_of_lt_of_le (Nat.mul_lt_mul_of_pos_right hp hL) capL⟩

/-- … under which decoding the two images gives back the two block arrays -/
theorem C11_roundtrip_reachable {s : State} (h : Reachable s)
    (capT : s.trie.size * Layout.trieBlock ≤ 2 ^ 64) (capL : s.links.size * Layout.linkBlock ≤ 2 ^ 64)
    (hid : s.hdrId < 2 ^ 32)
    (hcells : ∀ c ∈ s.trie.toList.drop 1,
      c.chunk.length ≤ Layout.stemCap ∧ (∀ b ∈ c.chunk, b < 256) ∧ c.we < 2 ^ 32) :
    decodeTrieImage (encodeTrie s) = (s.hdrId, (({} : Cell) :: s.trie.toList.drop 1).toArray) ∧
    decodeLinksImage (encodeLinks s) = (({} : Stub) :: s.links.toList.drop 1).toArray :=
  have w := oe_reachable_wfImage h capT capL hid hcells
  ⟨decodeTrieImage_encodeTrie s w, decodeLinksImage_encodeLinks s w⟩

#print axioms C11_reopen_everywhere
#print axioms oe_reachable_reopened
#print axioms oe_reachable_wfImage
#print axioms C11_reopen_continues
#print axioms C11_whole_blocks_always
#print axioms C11_clear_everywhere
#print axioms oe_reachable_rulesNodup

end Traph

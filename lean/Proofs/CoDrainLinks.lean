import Proofs.CoDrainShape
/-! C16 — `get_webentity_pagelinks_iter` drained on a fixed index = `get_webentity_pagelinks`.
    The generator yields once per Counter entry of the out-list and of the in-list of every page; between two
    yields it may pass any number of nodes that are not pages or have no entries. -/
namespace Traph
open State

section PL
variable (s : State) (weid : Nat) (incIn incInt incOut : Bool)

def plOutE (c : Cell) : List (Nat × Nat) := if c.out ≠ 0 && (incOut || incInt) then s.weighted c.out else []
def plInnE (c : Cell) : List (Nat × Nat) := if c.inn ≠ 0 && incIn then s.weighted c.inn else []

def plOutL (lru : Bytes) (q : List (Nat × Nat)) : List PageLink :=
  q.filterMap (fun tw =>
    if (incOut && s.windupWe tw.1 ≠ weid) || (incInt && s.windupWe tw.1 = weid) then some (lru, s.windup tw.1, tw.2) else none)

def plInnL (lru : Bytes) (q : List (Nat × Nat)) : List PageLink :=
  q.filterMap (fun sw => if s.windupWe sw.1 ≠ weid then some (s.windup sw.1, lru, sw.2) else none)

/-- the links one node contributes -/
def plPage (it : QItem) : List PageLink :=
  if it.2.2.flags.page then
    plOutL s weid incInt incOut it.2.1 (plOutE s incInt incOut it.2.2) ++ plInnL s weid it.2.1 (plInnE s incIn it.2.2)
  else []

/-- the yields one node costs -/
def plCost (it : QItem) : Nat :=
  if it.2.2.flags.page then (plOutE s incInt incOut it.2.2).length + (plInnE s incIn it.2.2).length else 0

def plYields (items : List QItem) : Nat := (items.map (plCost s incIn incInt incOut)).sum

/-- drain from a machine state, the first section with the given fuel -/
def plR (fuel N : Nat) (q : PlSt) : Ans :=
  match plResume fuel s q with
  | (q1, .yielded) => QSt.drain s N (.pagelinks q1)
  | (_, .done a) => a
  | (_, .failed e) => .err e

theorem drain_pl_unfold (N : Nat) (q : PlSt) :
    QSt.drain s (N + 1) (.pagelinks q) = plR s (qFuel s q.cur.prefixes.length q.cur.stack.length) N q := by
  simp only [QSt.drain, QSt.resume, plR]
  rcases plResume (qFuel s q.cur.prefixes.length q.cur.stack.length) s q with ⟨q1, o⟩
  cases o <;> rfl

theorem qFuel_ge2 (p x : Nat) : 2 * ((s.trie.size + 2) * (p + 1)) + 4 ≤ qFuel s p x := by
  unfold qFuel
  have : (s.trie.size + 2) * (p + 1) ≤ (s.trie.size + 2) * (p + 2) := Nat.mul_le_mul_left _ (by omega)
  have h2 : 2 * (s.trie.size + 2) * (p + 2) = 2 * ((s.trie.size + 2) * (p + 2)) := by rw [Nat.mul_assoc]
  omega

/-- the continuation: what the machine does once the queues of the page in progress are empty -/
def PlK (w : WeCur) (items : List QItem) (e : Option Err) : Prop :=
  ∀ (node : Option (Bytes × Cell)) (links : List PageLink) (fuel N : Nat),
    2 * items.length + 2 ≤ fuel → plYields s incIn incInt incOut items < N →
    plR s fuel N { cur := w, weid := weid, incIn := incIn, incInt := incInt, incOut := incOut, node := node,
                   outQ := [], innTodo := false, innQ := [], links := links } =
      drainAns e (.links (links ++ items.flatMap (plPage s weid incIn incInt incOut)))

variable (hflags : (!incInt && !incOut && !incIn) = false)
include hflags

/-- the in-list loop -/
theorem pl_inn {w : WeCur} {items : List QItem} {e : Option Err} (hK : PlK s weid incIn incInt incOut w items e)
    (hb : items.length ≤ (s.trie.size + 2) * (w.prefixes.length + 1)) (lru : Bytes) (c : Cell) :
    ∀ (innQ : List (Nat × Nat)) (links : List PageLink) (fuel N : Nat),
      2 * items.length + 2 ≤ fuel → innQ.length + plYields s incIn incInt incOut items < N →
      plR s fuel N { cur := w, weid := weid, incIn := incIn, incInt := incInt, incOut := incOut, node := some (lru, c),
                     outQ := [], innTodo := false, innQ := innQ, links := links } =
        drainAns e (.links (links ++ plInnL s weid lru innQ ++ items.flatMap (plPage s weid incIn incInt incOut))) := by
  intro innQ
  induction innQ with
  | nil =>
    intro links fuel N hf hN
    simpa [plInnL] using hK (some (lru, c)) links fuel N hf (by simpa using hN)
  | cons tw more ih =>
    intro links fuel N hf hN
    obtain ⟨t, wt⟩ := tw
    obtain ⟨k, rfl⟩ : ∃ k, fuel = k + 1 := ⟨fuel - 1, by omega⟩
    obtain ⟨N', rfl⟩ : ∃ N', N = N' + 1 := ⟨N - 1, by omega⟩
    simp only [List.length_cons] at hN
    simp only [plR, plResume, hflags, Bool.false_eq_true, if_false, Option.map_some, Option.getD_some]
    rw [drain_pl_unfold]
    have hq := qFuel_ge2 s w.prefixes.length w.stack.length
    rw [ih _ _ N' (by dsimp only; omega) (by omega)]
    by_cases hc : s.windupWe t ≠ weid
    · simp [plInnL, hc]
    · simp [plInnL, hc]

/-- the switch from the out-list loop to the in-list loop -/
theorem pl_todo {w : WeCur} {items : List QItem} {e : Option Err} (hK : PlK s weid incIn incInt incOut w items e)
    (hb : items.length ≤ (s.trie.size + 2) * (w.prefixes.length + 1)) (lru : Bytes) (c : Cell)
    (links : List PageLink) (fuel N : Nat) (hf : 2 * items.length + 3 ≤ fuel)
    (hN : (plInnE s incIn c).length + plYields s incIn incInt incOut items < N) :
    plR s fuel N { cur := w, weid := weid, incIn := incIn, incInt := incInt, incOut := incOut, node := some (lru, c),
                   outQ := [], innTodo := true, innQ := [], links := links } =
      drainAns e (.links (links ++ plInnL s weid lru (plInnE s incIn c) ++
        items.flatMap (plPage s weid incIn incInt incOut))) := by
  obtain ⟨k, rfl⟩ : ∃ k, fuel = k + 1 := ⟨fuel - 1, by omega⟩
  have := pl_inn s weid incIn incInt incOut hflags hK hb lru c (plInnE s incIn c) links k N (by omega) hN
  rw [← this]
  simp only [plR, plResume, hflags, Bool.false_eq_true, if_false, if_true, Option.map_some, Option.getD_some, plInnE]

/-- the out-list loop -/
theorem pl_out {w : WeCur} {items : List QItem} {e : Option Err} (hK : PlK s weid incIn incInt incOut w items e)
    (hb : items.length ≤ (s.trie.size + 2) * (w.prefixes.length + 1)) (lru : Bytes) (c : Cell) :
    ∀ (outQ : List (Nat × Nat)) (links : List PageLink) (fuel N : Nat),
      2 * items.length + 3 ≤ fuel →
      outQ.length + (plInnE s incIn c).length + plYields s incIn incInt incOut items < N →
      plR s fuel N { cur := w, weid := weid, incIn := incIn, incInt := incInt, incOut := incOut, node := some (lru, c),
                     outQ := outQ, innTodo := true, innQ := [], links := links } =
        drainAns e (.links (links ++ plOutL s weid incInt incOut lru outQ ++ plInnL s weid lru (plInnE s incIn c) ++
          items.flatMap (plPage s weid incIn incInt incOut))) := by
  intro outQ
  induction outQ with
  | nil =>
    intro links fuel N hf hN
    simpa [plOutL] using pl_todo s weid incIn incInt incOut hflags hK hb lru c links fuel N hf (by simpa using hN)
  | cons tw more ih =>
    intro links fuel N hf hN
    obtain ⟨t, wt⟩ := tw
    obtain ⟨k, rfl⟩ : ∃ k, fuel = k + 1 := ⟨fuel - 1, by omega⟩
    obtain ⟨N', rfl⟩ : ∃ N', N = N' + 1 := ⟨N - 1, by omega⟩
    simp only [List.length_cons] at hN
    simp only [plR, plResume, hflags, Bool.false_eq_true, if_false, Option.map_some, Option.getD_some]
    rw [drain_pl_unfold]
    have hq := qFuel_ge2 s w.prefixes.length w.stack.length
    rw [ih _ _ N' (by dsimp only; omega) (by omega)]
    by_cases hc : (incOut = true ∧ ¬s.windupWe t = weid ∨ incInt = true ∧ s.windupWe t = weid)
    · simp [plOutL, hc]
    · simp [plOutL, hc]

/-- the continuation holds along every run of the cursor -/
theorem pl_K {m : Nat} {w : WeCur} {items : List QItem} {e : Option Err}
    (h : WeRuns s (s.trie.size + 3) m w items e) (hm : m ≤ s.trie.size + 3) :
    PlK s weid incIn incInt incOut w items e := by
  induction h with
  | stop m w w' hfirst =>
    intro node links fuel N hf _
    obtain ⟨k, rfl⟩ : ∃ k, fuel = k + 1 := ⟨fuel - 1, by omega⟩
    simp only [plR, plResume, hflags, Bool.false_eq_true, if_false, hfirst _ (Nat.le_trans hm (WeCur.fuel_ge s w)),
      drainAns, List.flatMap_nil, List.append_nil]
  | fail m w w' e hfirst =>
    intro node links fuel N hf _
    obtain ⟨k, rfl⟩ : ∃ k, fuel = k + 1 := ⟨fuel - 1, by omega⟩
    simp only [plR, plResume, hflags, Bool.false_eq_true, if_false, hfirst _ (Nat.le_trans hm (WeCur.fuel_ge s w)),
      drainAns]
  | item m w w' b lru c items e hfirst hrest hl ih =>
    intro node links fuel N hf hN
    obtain ⟨k, rfl⟩ : ∃ k, fuel = k + 1 := ⟨fuel - 1, by omega⟩
    simp only [List.length_cons] at hf
    have hK' := ih (Nat.le_refl _)
    simp only [plYields, List.map_cons, List.sum_cons] at hN
    by_cases hp : c.flags.page = true
    · have := pl_out s weid incIn incInt incOut hflags hK' hl lru c (plOutE s incInt incOut c) links k N (by omega)
        (by simp only [plCost, hp, if_true] at hN; simp only [plYields]; omega)
      simp only [plR, plResume, hflags, Bool.false_eq_true, if_false, hfirst _ (Nat.le_trans hm (WeCur.fuel_ge s w)),
        hp, if_true] at this ⊢
      simp only [plOutE] at this
      rw [this]
      simp only [List.flatMap_cons, plPage, hp, if_true, plOutE, List.append_assoc]
    · have := hK' none links k N (by omega) (by simp only [plCost, hp] at hN; simp only [plYields]; simpa using hN)
      simp only [plR, plResume, hflags, Bool.false_eq_true, if_false, hfirst _ (Nat.le_trans hm (WeCur.fuel_ge s w)),
        hp] at this ⊢
      rw [this]
      simp only [List.flatMap_cons, plPage, hp, Bool.false_eq_true, if_false, List.nil_append]

end PL

theorem cd_filter_flatMap_if {α β} (P : α → Bool) (g : α → List β) (l : List α) :
    (l.filter P).flatMap g = l.flatMap (fun x => if P x then g x else []) := by
  induction l with
  | nil => rfl
  | cons x xs ih =>
    by_cases hx : P x = true
    · simp [hx, ih]
    · simp [hx, ih]

theorem plPage_itemOf (s : State) (weid : Nat) (incIn incInt incOut : Bool) (bl : Nat × Bytes) :
    plPage s weid incIn incInt incOut (itemOf s bl) =
      if (s.cell bl.1).flags.page then
        s.outLinksOfPage weid bl.1 bl.2 incInt incOut ++ s.inLinksOfPage weid bl.1 bl.2 incIn
      else [] := by
  unfold plPage itemOf
  by_cases hp : (s.cell bl.1).flags.page = true
  · simp only [hp, if_true]
    unfold outLinksOfPage inLinksOfPage plOutL plOutE plInnL plInnE
    congr 1
    · by_cases hc : (decide ((s.cell bl.1).out ≠ 0) && (incOut || incInt)) = true
      · simp only [hc, if_true]
      · simp only [hc, Bool.false_eq_true, if_false, List.filterMap_nil]
    · by_cases hc : (decide ((s.cell bl.1).inn ≠ 0) && incIn) = true
      · simp only [hc, if_true]
      · simp only [hc, Bool.false_eq_true, if_false, List.filterMap_nil]
  · simp only [hp, Bool.false_eq_true, if_false]

/-- **`get_webentity_pagelinks_iter` drained = `get_webentity_pagelinks`**, for every `N` beyond the number of yield
    points of the request on this index (`plYields`: the Counter entries of the lists of the pages walked) -/
theorem pagelinks_drain (s : State) (weid : Nat) (ps : List Bytes) (incIn incInt incOut : Bool)
    (hfin : WeFin s none ps) (N : Nat)
    (hN : plYields s incIn incInt incOut (weItems s none ps).1 + 1 < N) :
    QSt.drain s N (.pagelinks { cur := { prefixes := ps }, weid := weid, incIn := incIn, incInt := incInt, incOut := incOut })
      = s.ask (.pagelinks weid ps incIn incInt incOut) := by
  obtain ⟨N', rfl⟩ : ∃ N', N = N' + 1 := ⟨N - 1, by omega⟩
  rw [drain_pl_unfold]
  by_cases hflags : (!incInt && !incOut && !incIn) = true
  · obtain ⟨k, hk⟩ : ∃ k, qFuel s ps.length 0 = k + 1 := ⟨qFuel s ps.length 0 - 1, by unfold qFuel; omega⟩
    simp only [List.length_nil, plR, hk, plResume, hflags, if_true, State.ask, webentityPagelinks, Ans.ofExcept]
  · have hflags' : (!incInt && !incOut && !incIn) = false := by simpa using hflags
    have hlen := weItems_length s none ps
    have hq := qFuel_ge2 s ps.length 0
    have hq2 : (s.trie.size + 2) * ps.length ≤ (s.trie.size + 2) * (ps.length + 1) := Nat.mul_le_mul_left _ (by omega)
    have := pl_K s weid incIn incInt incOut hflags' (weRuns_init s none ps hfin) (Nat.le_refl _) none []
      (qFuel s ps.length 0) N' (by omega) (by omega)
    simp only [List.length_nil] at this ⊢
    rw [this]
    simp only [State.ask, webentityPagelinks, hflags', Bool.false_eq_true, if_false, List.nil_append]
    have hF : (fun n p => ((s.weDfs n p none).filter (fun bl => (s.cell bl.1).flags.page)).flatMap (fun bl =>
          s.outLinksOfPage weid bl.1 bl.2 incInt incOut ++ s.inLinksOfPage weid bl.1 bl.2 incIn)) =
        (fun n p => (s.weDfs n p none).flatMap (fun bl => plPage s weid incIn incInt incOut (itemOf s bl))) := by
      funext n p
      rw [cd_filter_flatMap_if]
      congr 1
      funext bl
      rw [plPage_itemOf]
    rw [hF, forPrefixes_weItems s none (plPage s weid incIn incInt incOut) ps]
    cases (weItems s none ps).2 with
    | none => simp [drainAns, Ans.ofExcept]
    | some e => simp [drainAns, Ans.ofExcept]

/-- … unconditionally on a well-formed index -/
theorem pagelinks_drain_shape {s : State} {t : T} (h : Shape s t) (weid : Nat) (ps : List Bytes)
    (incIn incInt incOut : Bool) (hwf : ∀ pf ∈ ps, lruIter pf ≠ []) :
    ∃ N0, ∀ N, N0 ≤ N →
      QSt.drain s N (.pagelinks { cur := { prefixes := ps }, weid := weid, incIn := incIn, incInt := incInt, incOut := incOut })
        = s.ask (.pagelinks weid ps incIn incInt incOut) :=
  ⟨plYields s incIn incInt incOut (weItems s none ps).1 + 2, fun N hN =>
    pagelinks_drain s weid ps incIn incInt incOut (weFin_of_shape h none ps hwf) N (by omega)⟩

#print axioms pagelinks_drain_shape

end Traph

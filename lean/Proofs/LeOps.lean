import Proofs.FrameOps
/-! Every public write request (except `clear`, which starts a new index) is ⊑-increasing:
    no page, no stub, no tree pointer is ever lost or altered by any later request. -/
namespace Traph
open State

/-! ### 0. the side condition: both stores have their header block -/

def Live (s : State) : Prop := 0 < s.trie.size ∧ 0 < s.links.size

theorem Live.mono {s s' : State} (hl : Live s) (h : s ⊑ s') : Live s' :=
  ⟨Nat.lt_of_lt_of_le hl.1 h.size, Nat.lt_of_lt_of_le hl.2 h.lsize⟩

theorem live_default : Live ({} : State) := by
  constructor <;> decide

theorem Le.pos {s s' : State} (h : s ⊑ s') (h0 : 0 < s.trie.size) : 0 < s'.trie.size :=
  Nat.lt_of_lt_of_le h0 h.size

/-! ### `add_lru` / `add_page` without the `stems ≠ []` side condition -/

theorem addLru_le' (s : State) (stems : LRU) (flag : Bool) (h0 : 0 < s.trie.size) :
    s ⊑ (s.addLru stems flag).1 := by
  cases stems with
  | nil => simp only [addLru, addLruDescend, addLruCreate]; exact Le.refl s
  | cons a r => exact (addLru_le s (a :: r) flag h0 (by simp)).1

theorem addPageTrie_le' (s : State) (stems : LRU) (crawled : Bool) (h0 : 0 < s.trie.size) :
    s ⊑ (s.addPageTrie stems crawled).1 := by
  unfold addPageTrie
  rcases ha : s.addLru stems false with ⟨s1, n, h⟩
  have hle := addLru_le' s stems false h0
  rw [ha] at hle
  simp only at hle ⊢
  split
  · exact hle.trans (le_modCell _ _ _ (fun c _ => cellLe_flags_page c crawled))
  · split
    · exact hle.trans (le_modCell _ _ _ (fun c _ => cellLe_flags_crawled c))
    · exact hle

/-! ### per-cell obligations of the remaining `modCell`s -/

theorem cellLe_setHead (c : Cell) (out : Bool) (v : Nat) :
    CellLe c (if out then { c with out := v } else { c with inn := v }) := by
  cases out <;> exact ⟨rfl, rfl, rfl, rfl, id, id, id, fun _ => rfl, fun _ => rfl, fun _ => rfl⟩

theorem cellLe_setWe (c : Cell) (v : Nat) : CellLe c { c with we := v } :=
  ⟨rfl, rfl, rfl, rfl, id, id, id, fun _ => rfl, fun _ => rfl, fun _ => rfl⟩

theorem cellLe_setRule (c : Cell) (b : Bool) : CellLe c { c with flags := { c.flags with rule := b } } :=
  ⟨rfl, rfl, rfl, rfl, id, id, id, fun _ => rfl, fun _ => rfl, fun _ => rfl⟩

theorem Le.fst_of_eq {α : Type} {s : State} {p q : State × α} (h : s ⊑ p.1) (e : p = q) : s ⊑ q.1 := e ▸ h

theorem le_foldl_modCell {α : Type} (g : α → Nat) (f : α → Cell → Cell) (hf : ∀ a c, CellLe c (f a c)) :
    ∀ (l : List α) (s : State), s ⊑ l.foldl (fun st a => st.modCell (g a) (f a)) s
  | [], s => Le.refl s
  | a :: l, s => by
    rw [List.foldl_cons]
    exact (le_modCell s (g a) (f a) (fun c _ => hf a c)).trans (le_foldl_modCell g f hf l _)

/-! ### 1. link store -/

theorem le_addStubsGo : ∀ (targets : List Nat) (s : State) (tail : Nat), s ⊑ (s.addStubsGo tail targets).1
  | [], s, tail => by simp only [addStubsGo]; exact Le.refl s
  | t :: ts, s, tail => by
    simp only [addStubsGo]
    exact (le_appendStub s _).trans (le_addStubsGo ts _ _)

theorem le_addStubs (s : State) (page : Nat) (targets : List Nat) (out : Bool) :
    s ⊑ s.addStubs page targets out := by
  unfold addStubs
  split
  · exact Le.refl s
  · exact (le_addStubsGo targets s _).trans (le_modCell _ _ _ (fun c _ => cellLe_setHead c out _))

theorem le_flushLists (out : Bool) (pages : List (Bytes × Nat)) :
    ∀ (l : List (Bytes × List Bytes)) (s : State), s ⊑ flushLists out pages s l
  | [], s => by simp only [flushLists]; exact Le.refl s
  | (p, others) :: rest, s => by
    simp only [flushLists]
    exact (le_addStubs s _ _ out).trans (le_flushLists out pages rest _)

/-! ### 2. webentity edits and page insertion -/

theorem le_genId (s : State) : s ⊑ s.genId.1 := le_setHdr s _

theorem le_addPrefixesScan : ∀ (ps : List Bytes) (s : State) (valid : List (Bytes × Nat)) (nInv : Nat),
    0 < s.trie.size → s ⊑ (s.addPrefixesScan ps valid nInv).1
  | [], s, valid, nInv, _ => by simp only [addPrefixesScan]; exact Le.refl s
  | p :: ps, s, valid, nInv, h0 => by
    rcases ha : s.addLru (lruIter p) true with ⟨s1, n, h⟩
    have hle := addLru_le' s (lruIter p) true h0
    rw [ha] at hle
    simp only [addPrefixesScan, ha]
    split
    · exact hle.trans (le_addPrefixesScan ps s1 _ _ (hle.pos h0))
    · exact hle.trans (le_addPrefixesScan ps s1 _ _ (hle.pos h0))

theorem le_addPrefixes (s : State) (prefixes : List Bytes) (best : Bool) (h0 : 0 < s.trie.size) :
    s ⊑ (s.addPrefixes prefixes best).1 := by
  rcases ha : s.addPrefixesScan prefixes [] 0 with ⟨s1, valid, nInv⟩
  have hle := le_addPrefixesScan prefixes s [] 0 h0
  rw [ha] at hle
  simp only [addPrefixes, ha]
  split
  · exact hle
  · split
    · exact hle
    · exact hle.trans ((le_genId s1).trans
        (le_foldl_modCell (fun pn : Bytes × Nat => pn.2) (fun _ c => { c with we := s1.genId.2 })
          (fun _ c => cellLe_setWe c _) valid _))

theorem le_createWebentityAuto (s : State) (pfx : Bytes) (h0 : 0 < s.trie.size) :
    s ⊑ (s.createWebentityAuto pfx).1 := by
  have hle := le_addPrefixes s (lruVariations pfx) true h0
  unfold createWebentityAuto
  split <;> rename_i heq <;> rw [heq] at hle <;> exact hle

theorem le_addPageCore (s : State) (lru : Bytes) (crawled : Bool) (h0 : 0 < s.trie.size) :
    s ⊑ (s.addPageCore lru crawled).1 := by
  rcases ha : s.addPageTrie (lruIter lru) crawled with ⟨s1, n, h⟩
  have hle := addPageTrie_le' s (lruIter lru) crawled h0
  rw [ha] at hle
  have h1 : 0 < s1.trie.size := hle.pos h0
  simp only at hle
  simp only [addPageCore, ha]
  repeat' split
  all_goals first | exact hle | exact hle.trans (le_createWebentityAuto s1 _ h1)

theorem le_addPage (s : State) (lru : Bytes) (crawled : Bool) (h0 : 0 < s.trie.size) :
    s ⊑ (s.addPage lru crawled).1 := by
  simp only [addPage]
  exact le_addPageCore s lru crawled h0

theorem le_addPagesGo (always : Bool) : ∀ (ls : List Bytes) (s : State) (crawled : Bool) (rep : Report),
    0 < s.trie.size → s ⊑ (addPagesGo always s ls crawled rep).1
  | [], s, crawled, rep, _ => by simp only [addPagesGo]; exact Le.refl s
  | l :: ls, s, crawled, rep, h0 => by
    have hle := le_addPageCore s l crawled h0
    rw [addPagesGo]
    split
    · rename_i s1 _ e heq
      rw [heq] at hle; exact hle
    · rename_i s1 n r heq
      rw [heq] at hle
      simp only at hle
      have h1 : 0 < s1.trie.size := hle.pos h0
      have hle2 : s1 ⊑ (if always = true then s1.modCell n (fun c => { c with flags := { c.flags with crawled := true } }) else s1) := by
        split
        · exact le_modCell _ _ _ (fun c _ => cellLe_flags_crawled c)
        · exact Le.refl s1
      exact hle.trans (hle2.trans (le_addPagesGo always ls _ crawled _ (hle2.pos h1)))

theorem le_addPages (s : State) (lrus : List Bytes) (crawled : Bool) (h0 : 0 < s.trie.size) :
    s ⊑ (s.addPages lrus crawled).1 := by
  unfold addPages
  exact le_addPagesGo _ lrus s crawled {} h0

theorem le_ensurePageCached (s : State) (acc : LinkAcc) (l : Bytes) (crawled : Bool) (h0 : 0 < s.trie.size) :
    s ⊑ (s.ensurePageCached acc l crawled).1 := by
  have hle := le_addPageCore s l crawled h0
  unfold ensurePageCached
  split
  · exact Le.refl s
  · split <;> rename_i heq <;> rw [heq] at hle <;> exact hle

theorem le_addLinksScan : ∀ (links : List (Bytes × Bytes)) (s : State) (acc : LinkAcc),
    0 < s.trie.size → s ⊑ (addLinksScan s links acc).1
  | [], s, acc, _ => by simp only [addLinksScan]; exact Le.refl s
  | (src, tgt) :: rest, s, acc, h0 => by
    have hle1 := le_ensurePageCached s acc src false h0
    rw [addLinksScan]
    split
    · rename_i heq; rw [heq] at hle1; exact hle1
    · rename_i s1 acc1 heq
      rw [heq] at hle1
      simp only at hle1
      have h1 : 0 < s1.trie.size := hle1.pos h0
      have hle2 := le_ensurePageCached s1 acc1 tgt false h1
      split
      · rename_i heq2; rw [heq2] at hle2; exact hle1.trans hle2
      · rename_i s2 acc2 heq2
        rw [heq2] at hle2
        simp only at hle2
        exact hle1.trans (hle2.trans (le_addLinksScan rest s2 _ (hle2.pos h1)))

theorem le_addLinks (s : State) (links : List (Bytes × Bytes)) (h0 : 0 < s.trie.size) :
    s ⊑ (s.addLinks links).1 := by
  have hle := le_addLinksScan links s {} h0
  unfold addLinks
  split
  · rename_i heq; rw [heq] at hle; exact hle
  · rename_i s1 acc heq
    rw [heq] at hle
    simp only at hle ⊢
    exact hle.trans ((le_flushLists true acc.pages acc.outl s1).trans (le_flushLists false acc.pages acc.inl _))

theorem le_batchTargets : ∀ (ts : List Bytes) (s : State) (src : Bytes) (acc : LinkAcc) (tb : List Nat),
    0 < s.trie.size → s ⊑ (batchTargets s src ts acc tb).1
  | [], s, src, acc, tb, _ => by simp only [batchTargets]; exact Le.refl s
  | t :: ts, s, src, acc, tb, h0 => by
    have hle1 := le_ensurePageCached s acc t false h0
    rw [batchTargets]
    split
    · rename_i heq; rw [heq] at hle1; exact hle1
    · rename_i s1 acc1 heq
      rw [heq] at hle1
      simp only at hle1
      exact hle1.trans (le_batchTargets ts s1 src _ _ (hle1.pos h0))

theorem le_batchSources : ∀ (data : List (Bytes × List Bytes)) (s : State) (acc : LinkAcc),
    0 < s.trie.size → s ⊑ (batchSources s data acc).1
  | [], s, acc, _ => by simp only [batchSources]; exact Le.refl s
  | (src, tgts) :: rest, s, acc, h0 => by
    have hle1 : s ⊑ (match dictGet? acc.pages src with
        | none => s.ensurePageCached acc src true
        | some n =>
          if !(s.cell n).flags.crawled then
            (s.modCell n (fun c => { c with flags := { c.flags with crawled := true } }), Except.ok acc)
          else (s, Except.ok acc)).1 := by
      split
      · exact le_ensurePageCached s acc src true h0
      · split
        · exact le_modCell _ _ _ (fun c _ => cellLe_flags_crawled c)
        · exact Le.refl s
    rw [batchSources]
    simp only
    split
    · rename_i heq; exact hle1.fst_of_eq heq
    · rename_i s1 acc1 heq
      replace hle1 : s ⊑ s1 := hle1.fst_of_eq heq
      have h1 : 0 < s1.trie.size := hle1.pos h0
      have hle2 := le_batchTargets tgts s1 src acc1 [] h1
      split
      · rename_i heq2; rw [heq2] at hle2; exact hle1.trans hle2
      · rename_i s2 acc2 tb heq2
        rw [heq2] at hle2
        simp only at hle2
        have hle3 := le_addStubs s2 ((dictGet? acc2.pages src).getD 0) tb true
        exact hle1.trans (hle2.trans (hle3.trans (le_batchSources rest _ acc2 (hle3.pos (hle2.pos h1)))))

theorem le_batch (s : State) (data : List (Bytes × List Bytes)) (h0 : 0 < s.trie.size) :
    s ⊑ (s.batch data).1 := by
  have hle := le_batchSources data s {} h0
  unfold batch
  split
  · rename_i heq; rw [heq] at hle; exact hle
  · rename_i s1 acc heq
    rw [heq] at hle
    simp only at hle ⊢
    exact hle.trans (le_flushLists false acc.pages acc.inl s1)

/-! ### creation rules -/

theorem le_addRuleLoop (startBlock : Nat) : ∀ (fuel : Nat) (s : State) (stack : List (Nat × Bytes)) (rep : Report),
    0 < s.trie.size → s ⊑ (addRuleLoop startBlock fuel s stack rep).1
  | 0, s, stack, rep, _ => by simp only [addRuleLoop]; exact Le.refl s
  | fuel + 1, s, [], rep, _ => by simp only [addRuleLoop]; exact Le.refl s
  | fuel + 1, s, (b, lru) :: stack, rep, h0 => by
    have hle1 : s ⊑ (if (s.cell b).flags.page then
          (match s.addPageCore (lru ++ s.stemAt b) false with
           | (s1, _, .error e) => (s1, Except.error e)
           | (s1, _, .ok r1) => (s1, Except.ok (rep.add r1)))
        else (s, Except.ok rep) : State × Except Err Report).1 := by
      split
      · have := le_addPageCore s (lru ++ s.stemAt b) false h0
        split <;> rename_i heq <;> exact this.fst_of_eq heq
      · exact Le.refl s
    rw [addRuleLoop]
    simp only
    split
    · rename_i heq; exact hle1.fst_of_eq heq
    · rename_i s1 rep1 heq
      replace hle1 : s ⊑ s1 := hle1.fst_of_eq heq
      exact hle1.trans (le_addRuleLoop startBlock fuel s1 _ _ (hle1.pos h0))

theorem le_addRule (s : State) (anchor : Bytes) (r : Rule) (w : Bool) (h0 : 0 < s.trie.size) :
    s ⊑ (s.addRule anchor r w).1 := by
  have hle0 : s ⊑ { s with rules := dictSet s.rules anchor r } := Le.of_eq rfl rfl
  rcases ha : State.addLru { s with rules := dictSet s.rules anchor r } (lruIter anchor) false with ⟨s1, n, h⟩
  have hle1 := addLru_le' { s with rules := dictSet s.rules anchor r } (lruIter anchor) false h0
  rw [ha] at hle1
  simp only at hle1
  simp only [addRule, ha]
  split
  · exact hle0
  · have hle2 : s1 ⊑ s1.modCell n (fun c => { c with flags := { c.flags with rule := true } }) :=
      le_modCell _ _ _ (fun c _ => cellLe_setRule c true)
    have h2 := hle2.pos (hle1.pos h0)
    exact hle0.trans (hle1.trans (hle2.trans (le_addRuleLoop n _ _ _ _ h2)))

theorem le_removeRule (s : State) (anchor : Bytes) : s ⊑ (s.removeRule anchor).1 := by
  unfold removeRule
  split
  · exact Le.refl s
  · simp only
    split
    · exact Le.of_eq rfl rfl
    · refine Le.trans ?_ (le_modCell _ _ _ (fun c _ => cellLe_setRule c false))
      exact Le.of_eq rfl rfl

/-! ### webentities -/

theorem le_createWebentity (s : State) (prefixes : List Bytes) (h0 : 0 < s.trie.size) :
    s ⊑ (s.createWebentity prefixes).1 := by
  have hle := le_addPrefixes s prefixes false h0
  unfold createWebentity
  split <;> rename_i heq <;> exact hle.fst_of_eq heq

theorem le_deleteWebentity (s : State) (weid : Nat) (prefixes : List Bytes) :
    s ⊑ (s.deleteWebentity weid prefixes).1 := by
  unfold deleteWebentity
  split
  · exact Le.refl s
  · exact le_foldl_modCell (fun pn : Bytes × Nat => pn.2) (fun _ c => { c with we := 0 })
      (fun _ c => cellLe_setWe c 0) _ s

theorem le_addPrefix (s : State) (pfx : Bytes) (weid : Nat) (h0 : 0 < s.trie.size) :
    s ⊑ (s.addPrefix pfx weid).1 := by
  rcases ha : s.addLru (lruIter pfx) true with ⟨s1, n, h⟩
  have hle := addLru_le' s (lruIter pfx) true h0
  rw [ha] at hle
  simp only [addPrefix, ha]
  split
  · exact hle
  · exact hle.trans (le_modCell _ _ _ (fun c _ => cellLe_setWe c weid))

theorem le_removePrefix (s : State) (pfx : Bytes) (weid : Option Nat) (h0 : 0 < s.trie.size) :
    s ⊑ (s.removePrefix pfx weid).1 := by
  rcases ha : s.addLru (lruIter pfx) false with ⟨s1, n, h⟩
  have hle := addLru_le' s (lruIter pfx) false h0
  rw [ha] at hle
  simp only at hle
  simp only [removePrefix, ha]
  repeat' split
  all_goals first | exact hle | exact hle.trans (le_modCell _ _ _ (fun c _ => cellLe_setWe c 0))

theorem le_movePrefix (s : State) (pfx : Bytes) (target : Nat) (source : Option Nat) (h0 : 0 < s.trie.size) :
    s ⊑ (s.movePrefix pfx target source).1 := by
  have hle := le_removePrefix s pfx source h0
  unfold movePrefix
  split
  · rename_i heq; exact hle.fst_of_eq heq
  · rename_i s1 _ heq
    replace hle : s ⊑ s1 := hle.fst_of_eq heq
    exact hle.trans (le_addPrefix s1 pfx target (hle.pos h0))

theorem le_reopen (s : State) (dflt : Rule) (rules : List (Bytes × Rule)) : s ⊑ s.reopen dflt rules :=
  Le.of_eq rfl rfl

theorem le_installRules : ∀ (rules : List (Bytes × Rule)) (s : State) (w : Bool),
    0 < s.trie.size → s ⊑ (installRules s rules w).1
  | [], s, w, _ => by simp only [installRules]; exact Le.refl s
  | (a, r) :: rest, s, w, h0 => by
    have hle := le_addRule s a r w h0
    rw [installRules]
    split
    · rename_i heq; exact hle.fst_of_eq heq
    · rename_i s1 _ heq
      replace hle : s ⊑ s1 := hle.fst_of_eq heq
      exact hle.trans (le_installRules rest s1 w (hle.pos h0))

theorem live_fresh (cfg : Config) (dflt : Rule) (rules : List (Bytes × Rule)) (log : List Write) :
    Live (State.fresh cfg dflt rules log).1 := by
  unfold fresh
  have hl : Live ({ cfg := cfg, dflt := dflt, log := .linkHdr :: .hdr 0 :: log } : State) :=
    ⟨Nat.zero_lt_one, Nat.zero_lt_one⟩
  exact hl.mono (le_installRules rules _ true hl.1)

/-! ### 3. every write request but `clear` is increasing -/

theorem step_le (s : State) (op : Op) (hl : Live s) (hop : ∀ d rs, op ≠ .clear d rs) :
    s ⊑ (s.step op).1 ∧ Live (s.step op).1 := by
  have key : s ⊑ (s.step op).1 := by
    cases op with
    | addPage l c => exact le_addPage s l c hl.1
    | addPages ls c => exact le_addPages s ls c hl.1
    | addLinks ls => exact le_addLinks s ls hl.1
    | batch d => exact le_batch s d hl.1
    | create ps => exact le_createWebentity s ps hl.1
    | delete w ps => exact le_deleteWebentity s w ps
    | addPrefix p w => exact le_addPrefix s p w hl.1
    | removePrefix p w => exact le_removePrefix s p w hl.1
    | movePrefix p t f => exact le_movePrefix s p t f hl.1
    | addRule a r => exact le_addRule s a r true hl.1
    | removeRule a => exact le_removeRule s a
    | reopen d rs => exact le_reopen s d rs
    | clear d rs => exact absurd rfl (hop d rs)
  exact ⟨key, hl.mono key⟩

theorem run_le_aux : ∀ (ops : List Op) (s : State), Live s → (∀ op ∈ ops, ∀ d rs, op ≠ .clear d rs) →
    s ⊑ s.run ops ∧ Live (s.run ops)
  | [], s, hl, _ => ⟨Le.refl s, hl⟩
  | op :: ops, s, hl, hop => by
    obtain ⟨h1, hl1⟩ := step_le s op hl (hop op (by simp))
    obtain ⟨h2, hl2⟩ := run_le_aux ops (s.step op).1 hl1 (fun o ho => hop o (by simp [ho]))
    exact ⟨h1.trans h2, hl2⟩

theorem run_le (s : State) (ops : List Op) (hl : Live s) (hop : ∀ op ∈ ops, ∀ d rs, op ≠ .clear d rs) :
    s ⊑ s.run ops ∧ Live (s.run ops) := run_le_aux ops s hl hop

theorem run_append (s : State) (a b : List Op) : s.run (a ++ b) = (s.run a).run b := by
  simp only [run, List.foldl_append]

/-- a crashed prefix of a history is below the completed history -/
theorem prefix_le (s : State) (a b : List Op) (hl : Live s) (hop : ∀ op ∈ a ++ b, ∀ d rs, op ≠ .clear d rs) :
    s.run a ⊑ s.run (a ++ b) := by
  rw [run_append]
  have hla := (run_le s a hl (fun o ho => hop o (by simp [ho]))).2
  exact (run_le (s.run a) b hla (fun o ho => hop o (by simp [ho]))).1

/-! ### 4. consequences -/

theorem Le.cell_le {s s' : State} (h : s ⊑ s') (i : Nat) (hi : i < s.trie.size) : CellLe (s.cell i) (s'.cell i) := by
  have e1 : s.trie[i]? = some s.trie[i] := by simp [hi]
  obtain ⟨c', hc', hle⟩ := h.cells i s.trie[i] e1
  simp only [cell, e1, hc', Option.getD_some]
  exact hle

/-- pages are never lost (and keep their stem chunk and their place in the tree) -/
theorem Le.page_persists {s s' : State} (h : s ⊑ s') (i : Nat) (hi : i < s.trie.size)
    (hp : (s.cell i).flags.page = true) :
    (s'.cell i).flags.page = true ∧ (s'.cell i).chunk = (s.cell i).chunk ∧ (s'.cell i).parent = (s.cell i).parent :=
  have hc := h.cell_le i hi
  ⟨hc.page hp, hc.chunk, hc.parent⟩

theorem Le.crawled_persists {s s' : State} (h : s ⊑ s') (i : Nat) (hi : i < s.trie.size)
    (hp : (s.cell i).flags.crawled = true) :
    (s'.cell i).flags.crawled = true ∧ (s'.cell i).chunk = (s.cell i).chunk ∧ (s'.cell i).parent = (s.cell i).parent :=
  have hc := h.cell_le i hi
  ⟨hc.crawled hp, hc.chunk, hc.parent⟩

/-- tree pointers, once set, never change -/
theorem Le.pointer_persists {s s' : State} (h : s ⊑ s') (i : Nat) (hi : i < s.trie.size) :
    ((s.cell i).left ≠ 0 → (s'.cell i).left = (s.cell i).left) ∧
    ((s.cell i).right ≠ 0 → (s'.cell i).right = (s.cell i).right) ∧
    ((s.cell i).child ≠ 0 → (s'.cell i).child = (s.cell i).child) :=
  have hc := h.cell_le i hi
  ⟨hc.left, hc.right, hc.child⟩

theorem Le.slot_persists {s s' : State} (h : s ⊑ s') (i : Nat) (hi : i < s.trie.size) (sl : Slot)
    (hne : (s.cell i).slot sl ≠ 0) : (s'.cell i).slot sl = (s.cell i).slot sl := by
  have hc := h.cell_le i hi
  cases sl
  · exact hc.left hne
  · exact hc.child hne
  · exact hc.right hne

/-- link stubs are never lost or altered -/
theorem Le.stub_persists {s s' : State} (h : s ⊑ s') (i : Nat) (b : Stub) (hb : s.links[i]? = some b) :
    s'.links[i]? = some b := h.stubs i b hb

/-- the ancestor chain of an old block is the same afterwards (same fuel) -/
theorem Le.parentsGo_eq {s s' : State} (h : s ⊑ s')
    (hpar : ∀ i, i < s.trie.size → (s.cell i).parent < s.trie.size) :
    ∀ (fuel b : Nat), b < s.trie.size → s'.parentsGo fuel b = s.parentsGo fuel b
  | 0, _, _ => rfl
  | fuel + 1, b, hb => by
    simp only [parentsGo, (h.cell_le b hb).parent]
    split
    · rfl
    · rw [Le.parentsGo_eq h hpar fuel _ (hpar b hb)]

/-- when parents are written before their children, the fuel of `parentsGo` is irrelevant once it
    exceeds the block index -/
theorem parentsGo_fuel (s : State)
    (hdec : ∀ i, i < s.trie.size → (s.cell i).parent < i ∨ (s.cell i).parent = 0) :
    ∀ (f1 f2 b : Nat), b < s.trie.size → b < f1 → b < f2 → s.parentsGo f1 b = s.parentsGo f2 b
  | 0, _, _, _, h, _ => by omega
  | _ + 1, 0, _, _, _, h => by omega
  | f1 + 1, f2 + 1, b, hb, h1, h2 => by
    simp only [parentsGo]
    split
    · rfl
    · rename_i hp
      rcases hdec b hb with hlt | h0
      · rw [parentsGo_fuel s hdec f1 f2 _ (by omega) (by omega) (by omega)]
      · exact absurd h0 hp

/-- `node_parents_iter` of an old block gives the same answer afterwards. (With only
    `parent < s.trie.size` the statement is false: a parent cycle makes the result as long as the fuel.) -/
theorem Le.parents_eq {s s' : State} (h : s ⊑ s') (b : Nat) (hb : b < s.trie.size)
    (hdec : ∀ i, i < s.trie.size → (s.cell i).parent < i ∨ (s.cell i).parent = 0) :
    s'.parents b = s.parents b := by
  unfold parents
  have hpar : ∀ i, i < s.trie.size → (s.cell i).parent < s.trie.size := fun i hi => by
    rcases hdec i hi with h | h <;> omega
  rw [Le.parentsGo_eq h hpar _ b hb]
  have := h.size
  exact parentsGo_fuel s hdec _ _ b hb (by omega) (by omega)

#print axioms step_le
#print axioms run_le
#print axioms prefix_le
#print axioms live_fresh

end Traph

import Proofs.CoFinal
import Proofs.CoFuelDrain
/-! C16 — wrap-up over every reachable start state: the queries under any schedule never run out of the model's fuel
    (pages: for EVERY well-formed prefix list — the constant of the model was raised to `(trie.size + 1) *
    (prefixes.length + 1)` because the old one was too small when a prefix is a prefix of another,
    `cf_old_pages_fuel_insufficient_dup` / `_nested`), and the strengthened page-query soundness. (The four original machines
    drained alone = the atomic requests: `Proofs/CoDrainWriters.lean`, `Proofs/CoFuelDrain.lean`.) -/
namespace Traph
open State Layout

theorem cfq_sumOk_of_reachable {s : State} (h : Reachable s) : cf_SumOk s := by
  obtain ⟨cfg, dflt, rules, ops, _, _, _, rfl⟩ := h
  exact cf_sumOk_reachable cfg dflt rules ops

/-- **C16, the model's fuel is never the reason of a failure** (every reachable start state, every schedule, every
    family of requests): the network query never fails at all (only `StopIteration` after its end); a page query whose
    prefixes are well formed (any such list, equal or nested prefixes included) fails only with the `TraphException`
    of a prefix that is not in the index -/
theorem C16_queries_no_fuel {s : State} (hreach : Reachable s) (reqs : List CoReq) (sched : Sched) :
    (∀ i out auto e, reqs[i]? = some (.queryNet out auto) →
      (i, CoOut.failed e) ∈ (Sys.run (s, reqs.map CoReq.init) sched).2 → e = .other "StopIteration") ∧
    (∀ i ps e, reqs[i]? = some (.queryPages ps) → (∀ pf ∈ ps, lruIter pf ≠ []) →
      (i, CoOut.failed e) ∈ (Sys.run (s, reqs.map CoReq.init) sched).2 → e = .traph ∨ e = .other "StopIteration") := by
  obtain ⟨t, hs, _⟩ := reachable_invariants hreach
  exact ⟨fun i out auto e hreq hm =>
      cf_C16_net_query_failures hs (cfq_sumOk_of_reachable hreach) reqs sched i out auto hreq e hm,
    fun i ps e hreq hwf hm => cf_C16_pages_query_failures hs reqs sched i ps hreq hwf e hm⟩

/-- **C16, page query, soundness with the failure clause**: for every schedule the query either never returns within
    the schedule, or fails with `TraphException` (a prefix absent from the index) / `StopIteration` (resumed after its
    end) — never with "fuel", whatever its prefixes — or answers a list of pages of
    the final index with correct crawled marks -/
theorem C16_pages_query_sound_no_fuel {s : State} {t : T} (hs : Shape s t) (hi : Inv s t) (reqs : List CoReq)
    (hwf : ∀ r ∈ reqs, r.Wf) (sched : Sched) (i : Nat) (ps : List Bytes)
    (hreq : reqs[i]? = some (.queryPages ps)) :
    (∀ e, (i, CoOut.failed e) ∈ (Sys.run (s, reqs.map CoReq.init) sched).2 → e = .traph ∨ e = .other "StopIteration") ∧
    (∀ a, (i, CoOut.done a) ∈ (Sys.run (s, reqs.map CoReq.init) sched).2 →
      ∃ t', Shape (Sys.run (s, reqs.map CoReq.init) sched).1.1 t' ∧
        ∃ l, a = .pages l ∧ ∀ x ∈ l,
          IsPage (Sys.run (s, reqs.map CoReq.init) sched).1.1 t' (lruIter x.1) ∧
          (x.2 = true → IsCrawled (Sys.run (s, reqs.map CoReq.init) sched).1.1 t' (lruIter x.1))) := by
  have hw : ∀ pf ∈ ps, lruIter pf ≠ [] := hwf _ (List.mem_of_getElem? hreq)
  exact ⟨fun e hm => cf_C16_pages_query_failures hs reqs sched i ps hreq hw e hm,
    fun a hd => C16_pages_query_sound hs hi reqs hwf sched i ps a hreq hd⟩

#print axioms C16_queries_no_fuel
#print axioms C16_pages_query_sound_no_fuel

end Traph

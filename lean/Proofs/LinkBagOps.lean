import Proofs.LinkBag
/-! C03, per request. Part 1: every write that is not a list write (page insertion, webentity edits,
    creation rules, reopening, and the page-insertion phases of `add_links` / `index_batch_crawl`) is a
    `PtrEq` step — same stub array, same head pointers, hence the same bags. Part 2: `add_links` and
    `index_batch_crawl` add to the bags exactly the submitted pairs, on both sides (`LinkStep`). -/
namespace Traph
open State

/-! ### Part 1: the frame -/

theorem ptrEq_addPageTrie (s : State) (stems : LRU) (crawled : Bool) :
    PtrEq s (s.addPageTrie stems crawled).1 := by
  unfold addPageTrie
  rcases ha : s.addLru stems false with ⟨s1, n, h⟩
  have h1 : PtrEq s s1 := (ptrEq_addLru s stems false).fst_of_eq ha
  simp only
  split
  · exact h1.trans (ptrEq_modCell _ _ _ (fun _ => ⟨rfl, rfl⟩))
  · split
    · exact h1.trans (ptrEq_modCell _ _ _ (fun _ => ⟨rfl, rfl⟩))
    · exact h1

theorem ptrEq_genId (s : State) : PtrEq s s.genId.1 := PtrEq.of_eq rfl rfl

theorem ptrEq_addPrefixesScan : ∀ (ps : List Bytes) (s : State) (valid : List (Bytes × Nat)) (nInv : Nat),
    PtrEq s (s.addPrefixesScan ps valid nInv).1
  | [], s, valid, nInv => by simp only [addPrefixesScan]; exact PtrEq.refl s
  | p :: ps, s, valid, nInv => by
    rcases ha : s.addLru (lruIter p) true with ⟨s1, n, h⟩
    have h1 : PtrEq s s1 := (ptrEq_addLru s (lruIter p) true).fst_of_eq ha
    simp only [addPrefixesScan, ha]
    split
    · exact h1.trans (ptrEq_addPrefixesScan ps s1 _ _)
    · exact h1.trans (ptrEq_addPrefixesScan ps s1 _ _)

theorem ptrEq_addPrefixes (s : State) (prefixes : List Bytes) (best : Bool) :
    PtrEq s (s.addPrefixes prefixes best).1 := by
  rcases ha : s.addPrefixesScan prefixes [] 0 with ⟨s1, valid, nInv⟩
  have h1 : PtrEq s s1 := (ptrEq_addPrefixesScan prefixes s [] 0).fst_of_eq ha
  simp only [addPrefixes, ha]
  split
  · exact h1
  · split
    · exact h1
    · exact h1.trans ((ptrEq_genId s1).trans
        (ptrEq_foldl_modCell (fun pn : Bytes × Nat => pn.2) (fun _ c => { c with we := s1.genId.2 })
          (fun _ _ => ⟨rfl, rfl⟩) valid _))

theorem ptrEq_createWebentityAuto (s : State) (pfx : Bytes) : PtrEq s (s.createWebentityAuto pfx).1 := by
  have h := ptrEq_addPrefixes s (lruVariations pfx) true
  unfold createWebentityAuto
  split <;> rename_i heq <;> rw [heq] at h <;> exact h

theorem ptrEq_addPageCore (s : State) (lru : Bytes) (crawled : Bool) :
    PtrEq s (s.addPageCore lru crawled).1 := by
  rcases ha : s.addPageTrie (lruIter lru) crawled with ⟨s1, n, h⟩
  have h1 : PtrEq s s1 := (ptrEq_addPageTrie s (lruIter lru) crawled).fst_of_eq ha
  simp only [addPageCore, ha]
  repeat' split
  all_goals first | exact h1 | exact h1.trans (ptrEq_createWebentityAuto s1 _)

theorem ptrEq_addPage (s : State) (lru : Bytes) (crawled : Bool) : PtrEq s (s.addPage lru crawled).1 := by
  simp only [addPage]
  exact ptrEq_addPageCore s lru crawled

theorem ptrEq_addPagesGo (always : Bool) : ∀ (ls : List Bytes) (s : State) (crawled : Bool) (rep : Report),
    PtrEq s (addPagesGo always s ls crawled rep).1
  | [], s, crawled, rep => by simp only [addPagesGo]; exact PtrEq.refl s
  | l :: ls, s, crawled, rep => by
    have h := ptrEq_addPageCore s l crawled
    rw [addPagesGo]
    split
    · rename_i s1 _ e heq
      rw [heq] at h; exact h
    · rename_i s1 n r heq
      rw [heq] at h
      simp only at h
      have h2 : PtrEq s1 (if always = true then s1.modCell n (fun c => { c with flags := { c.flags with crawled := true } }) else s1) := by
        split
        · exact ptrEq_modCell _ _ _ (fun _ => ⟨rfl, rfl⟩)
        · exact PtrEq.refl s1
      exact h.trans (h2.trans (ptrEq_addPagesGo always ls _ crawled _))

theorem ptrEq_addPages (s : State) (lrus : List Bytes) (crawled : Bool) :
    PtrEq s (s.addPages lrus crawled).1 := by
  unfold addPages
  exact ptrEq_addPagesGo _ lrus s crawled {}

theorem ptrEq_ensurePageCached (s : State) (acc : LinkAcc) (l : Bytes) (crawled : Bool) :
    PtrEq s (s.ensurePageCached acc l crawled).1 := by
  have h := ptrEq_addPageCore s l crawled
  unfold ensurePageCached
  split
  · exact PtrEq.refl s
  · split <;> rename_i heq <;> rw [heq] at h <;> exact h

theorem ptrEq_addRuleLoop (startBlock : Nat) : ∀ (fuel : Nat) (s : State) (stack : List (Nat × Bytes)) (rep : Report),
    PtrEq s (addRuleLoop startBlock fuel s stack rep).1
  | 0, s, stack, rep => by simp only [addRuleLoop]; exact PtrEq.refl s
  | fuel + 1, s, [], rep => by simp only [addRuleLoop]; exact PtrEq.refl s
  | fuel + 1, s, (b, lru) :: stack, rep => by
    have h1 : PtrEq s (if (s.cell b).flags.page then
          (match s.addPageCore (lru ++ s.stemAt b) false with
           | (s1, _, .error e) => (s1, Except.error e)
           | (s1, _, .ok r1) => (s1, Except.ok (rep.add r1)))
        else (s, Except.ok rep) : State × Except Err Report).1 := by
      split
      · have := ptrEq_addPageCore s (lru ++ s.stemAt b) false
        split <;> rename_i heq <;> exact this.fst_of_eq heq
      · exact PtrEq.refl s
    rw [addRuleLoop]
    simp only
    split
    · rename_i heq; exact h1.fst_of_eq heq
    · rename_i s1 rep1 heq
      replace h1 : PtrEq s s1 := h1.fst_of_eq heq
      exact h1.trans (ptrEq_addRuleLoop startBlock fuel s1 _ _)

theorem ptrEq_addRule (s : State) (anchor : Bytes) (r : Rule) (w : Bool) : PtrEq s (s.addRule anchor r w).1 := by
  have h0 : PtrEq s { s with rules := dictSet s.rules anchor r } := PtrEq.of_eq rfl rfl
  rcases ha : State.addLru { s with rules := dictSet s.rules anchor r } (lruIter anchor) false with ⟨s1, n, h⟩
  have h1 : PtrEq { s with rules := dictSet s.rules anchor r } s1 :=
    (ptrEq_addLru { s with rules := dictSet s.rules anchor r } (lruIter anchor) false).fst_of_eq ha
  simp only [addRule, ha]
  split
  · exact h0
  · have h2 : PtrEq s1 (s1.modCell n (fun c => { c with flags := { c.flags with rule := true } })) :=
      ptrEq_modCell _ _ _ (fun _ => ⟨rfl, rfl⟩)
    exact h0.trans (h1.trans (h2.trans (ptrEq_addRuleLoop n _ _ _ _)))

theorem ptrEq_removeRule (s : State) (anchor : Bytes) : PtrEq s (s.removeRule anchor).1 := by
  unfold removeRule
  split
  · exact PtrEq.refl s
  · simp only
    split
    · exact PtrEq.of_eq rfl rfl
    · refine PtrEq.trans ?_ (ptrEq_modCell _ _ _ (fun _ => ⟨rfl, rfl⟩))
      exact PtrEq.of_eq rfl rfl

theorem ptrEq_createWebentity (s : State) (prefixes : List Bytes) : PtrEq s (s.createWebentity prefixes).1 := by
  have h := ptrEq_addPrefixes s prefixes false
  unfold createWebentity
  split <;> rename_i heq <;> exact h.fst_of_eq heq

theorem ptrEq_deleteWebentity (s : State) (weid : Nat) (prefixes : List Bytes) :
    PtrEq s (s.deleteWebentity weid prefixes).1 := by
  unfold deleteWebentity
  split
  · exact PtrEq.refl s
  · exact ptrEq_foldl_modCell (fun pn : Bytes × Nat => pn.2) (fun _ c => { c with we := 0 })
      (fun _ _ => ⟨rfl, rfl⟩) _ s

theorem ptrEq_addPrefix (s : State) (pfx : Bytes) (weid : Nat) : PtrEq s (s.addPrefix pfx weid).1 := by
  rcases ha : s.addLru (lruIter pfx) true with ⟨s1, n, h⟩
  have h1 : PtrEq s s1 := (ptrEq_addLru s (lruIter pfx) true).fst_of_eq ha
  simp only [addPrefix, ha]
  split
  · exact h1
  · exact h1.trans (ptrEq_modCell _ _ _ (fun _ => ⟨rfl, rfl⟩))

theorem ptrEq_removePrefix (s : State) (pfx : Bytes) (weid : Option Nat) :
    PtrEq s (s.removePrefix pfx weid).1 := by
  rcases ha : s.addLru (lruIter pfx) false with ⟨s1, n, h⟩
  have h1 : PtrEq s s1 := (ptrEq_addLru s (lruIter pfx) false).fst_of_eq ha
  simp only [removePrefix, ha]
  repeat' split
  all_goals first | exact h1 | exact h1.trans (ptrEq_modCell _ _ _ (fun _ => ⟨rfl, rfl⟩))

theorem ptrEq_movePrefix (s : State) (pfx : Bytes) (target : Nat) (source : Option Nat) :
    PtrEq s (s.movePrefix pfx target source).1 := by
  have h := ptrEq_removePrefix s pfx source
  unfold movePrefix
  split
  · rename_i heq; exact h.fst_of_eq heq
  · rename_i s1 _ heq
    replace h : PtrEq s s1 := h.fst_of_eq heq
    exact h.trans (ptrEq_addPrefix s1 pfx target)

theorem ptrEq_reopen (s : State) (dflt : Rule) (rules : List (Bytes × Rule)) : PtrEq s (s.reopen dflt rules) :=
  PtrEq.of_eq rfl rfl

theorem ptrEq_installRules : ∀ (rules : List (Bytes × Rule)) (s : State) (w : Bool),
    PtrEq s (installRules s rules w).1
  | [], s, w => by simp only [installRules]; exact PtrEq.refl s
  | (a, r) :: rest, s, w => by
    have h := ptrEq_addRule s a r w
    rw [installRules]
    split
    · rename_i heq; exact h.fst_of_eq heq
    · rename_i s1 _ heq
      replace h : PtrEq s s1 := h.fst_of_eq heq
      exact h.trans (ptrEq_installRules rest s1 w)

/-- a fresh index has no stub beyond the header and no list -/
theorem linksOk_fresh (cfg : Config) (dflt : Rule) (rules : List (Bytes × Rule)) (log : List Write) :
    LinksOk (State.fresh cfg dflt rules log).1 ∧ (State.fresh cfg dflt rules log).1.links.size = 1 ∧
      ∀ o b, (State.fresh cfg dflt rules log).1.bag o b = [] := by
  unfold fresh
  have h0 : LinksOk ({ cfg := cfg, dflt := dflt, log := .linkHdr :: .hdr 0 :: log } : State) :=
    linksOk_of_init rfl rfl
  have p := ptrEq_installRules rules { cfg := cfg, dflt := dflt, log := .linkHdr :: .hdr 0 :: log } true
  refine ⟨p.linksOk h0, by rw [p.size]; rfl, fun o b => ?_⟩
  rw [p.bag]
  unfold State.bag
  have hc : ({ cfg := cfg, dflt := dflt, log := .linkHdr :: .hdr 0 :: log } : State).cell b = {} := by
    unfold State.cell
    cases b <;> rfl
  rw [hc]
  cases o <;> exact lbWalk0_zero _

/-- every write request that submits no link leaves every bag as it was -/
theorem step_ptrEq (s : State) (op : Op) (hop : ∀ d rs, op ≠ .clear d rs)
    (hl : ∀ ls, op ≠ .addLinks ls) (hb : ∀ d, op ≠ .batch d) : PtrEq s (s.step op).1 := by
  cases op with
  | addPage l c => exact ptrEq_addPage s l c
  | addPages ls c => exact ptrEq_addPages s ls c
  | addLinks ls => exact absurd rfl (hl ls)
  | batch d => exact absurd rfl (hb d)
  | create ps => exact ptrEq_createWebentity s ps
  | delete w ps => exact ptrEq_deleteWebentity s w ps
  | addPrefix p w => exact ptrEq_addPrefix s p w
  | removePrefix p w => exact ptrEq_removePrefix s p w
  | movePrefix p t f => exact ptrEq_movePrefix s p t f
  | addRule a r => exact ptrEq_addRule s a r true
  | removeRule a => exact ptrEq_removeRule s a
  | reopen d rs => exact ptrEq_reopen s d rs
  | clear d rs => exact absurd rfl (hop d rs)

#print axioms step_ptrEq

end Traph

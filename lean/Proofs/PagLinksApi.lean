import Proofs.PagWalk
/-! C10 at the API level: `paginate_webentity_pagelinks`, called again and again with the token of the
    previous answer, against `get_webentity_pagelinks(include_inbound = False)`.

    * `paginateLinks_none` / `paginateLinks_token`: the request is the generic loop `Pag.gRun` over the whole
      walk `gItems`, resp. over the items behind the item a token denotes — for *every* item of the walk,
      link-bearing page, link-less page or plain node, in whichever prefix.
    * `linkEpisode_from`: from every resume point the episode exists (no call fails), and its answers
      correspond one by one to the segments of the decomposition `Pag.Segs`.
    * `C10_episode`: the statement of the property. -/
namespace Traph
open State Pag

/-- how `paginate_webentity_pagelinks` reads an item: every page records the resume point; a page with at
    least one link passing the switches is counted and contributes these links -/
def linkCls (s : State) (weid : Nat) (incInt incOut : Bool) : Cls GX PageLink where
  idx x := x.1
  path x := x.2.2.2
  mark x := (s.cell x.2.1).flags.page
  bear x := (s.cell x.2.1).flags.page && !(s.outLinksOfPage weid x.2.1 x.2.2.1 incInt incOut).isEmpty
  out x := s.outLinksOfPage weid x.2.1 x.2.2.1 incInt incOut

def State.PlAcc.toG (a : PlAcc) : GAcc PageLink :=
  { n := a.n, out := a.links, lastI := a.lastI, lastPath := a.lastPath }

/-- the answer assembled from the outcome of the loop -/
def mkLink : Bool × GAcc PageLink → Except Err LinkChunk
  | (true, a) =>
    (match tokenOf a.lastI a.lastPath with
     | .error e => .error e
     | .ok t => .ok { done := false, sourcePages := a.n, links := a.out, token := some t })
  | (false, a) => .ok { done := true, sourcePages := a.n, links := a.out, token := none }

theorem outLinksOfPage_out_zero (s : State) (weid b : Nat) (lru : Bytes) (incInt incOut : Bool)
    (h : (s.cell b).out = 0) : s.outLinksOfPage weid b lru incInt incOut = [] := by
  simp [outLinksOfPage, h]

/-! ### the loops of the model are the generic loop -/

theorem linksItems_bridge (s : State) (weid : Nat) (incInt incOut : Bool) (k i : Nat) :
    ∀ (items : List Item) (acc : PlAcc) (rest : List GX),
      (match s.paginateLinksItems weid incInt incOut (some k) i items acc with
        | .inl r => r
        | .inr a => mkLink (gRun (linkCls s weid incInt incOut) k rest a.toG))
      = mkLink (gRun (linkCls s weid incInt incOut) k (items.map (fun it => (i, it)) ++ rest) acc.toG)
  | [], acc, rest => by simp [paginateLinksItems]
  | (b, lru, path) :: items, acc, rest => by
    rw [List.map_cons, List.cons_append]
    by_cases hp : (s.cell b).flags.page = true
    · by_cases ho : (s.cell b).out = 0
      · -- a page without any out-link: only the resume point moves
        have hnl := outLinksOfPage_out_zero s weid b lru incInt incOut ho
        have hb : (linkCls s weid incInt incOut).bear (i, b, lru, path) = false := by simp [linkCls, hnl]
        have hm : (linkCls s weid incInt incOut).mark (i, b, lru, path) = true := by simp [linkCls, hp]
        have := linksItems_bridge s weid incInt incOut k i items
          { acc with lastPath := some path, lastI := some i } rest
        rw [gRun_cons_go _ _ _ _ _ (Or.inl hb), gStep_mark _ _ _ hb hm]
        simp only [paginateLinksItems, hp, ho, Bool.not_true, Bool.false_eq_true, if_false, if_true]
        exact this
      · by_cases hnl : (s.outLinksOfPage weid b lru incInt incOut).isEmpty = true
        · -- a page none of whose links passes the switches: only the resume point moves
          have hb : (linkCls s weid incInt incOut).bear (i, b, lru, path) = false := by simp [linkCls, hnl]
          have hm : (linkCls s weid incInt incOut).mark (i, b, lru, path) = true := by simp [linkCls, hp]
          have := linksItems_bridge s weid incInt incOut k i items
            { acc with lastPath := some path, lastI := some i } rest
          rw [gRun_cons_go _ _ _ _ _ (Or.inl hb), gStep_mark _ _ _ hb hm]
          simp only [paginateLinksItems, hp, ho, hnl, Bool.not_true, Bool.false_eq_true, if_false]
          exact this
        · -- a link-bearing page
          have hnl' : (s.outLinksOfPage weid b lru incInt incOut).isEmpty = false := by
            simpa using hnl
          have hb : (linkCls s weid incInt incOut).bear (i, b, lru, path) = true := by
            simp [linkCls, hp, hnl']
          by_cases hstop : acc.n + 1 > k
          · have hd : decide (acc.n + 1 > k) = true := by simpa using hstop
            rw [gRun_cons_stop _ _ _ _ _ hb (show acc.toG.n + 1 > k from hstop)]
            simp only [paginateLinksItems, hp, ho, hnl', Bool.not_true, Bool.not_false, Bool.false_eq_true,
              if_false, if_true, hd, Nat.add_sub_cancel]
            rfl
          · have hd : decide (acc.n + 1 > k) = false := by simpa using hstop
            have := linksItems_bridge s weid incInt incOut k i items
              { n := acc.n + 1, links := acc.links ++ s.outLinksOfPage weid b lru incInt incOut,
                lastPath := some path, lastI := some i } rest
            rw [gRun_cons_go _ _ _ _ _ (Or.inr (show ¬ acc.toG.n + 1 > k from hstop)), gStep_bear _ _ _ hb]
            simp only [paginateLinksItems, hp, ho, hnl', Bool.not_true, Bool.not_false, Bool.false_eq_true,
              if_false, if_true, hd]
            exact this
    · -- not a page
      have hp' : (s.cell b).flags.page = false := by simpa using hp
      have hb : (linkCls s weid incInt incOut).bear (i, b, lru, path) = false := by simp [linkCls, hp']
      have hm : (linkCls s weid incInt incOut).mark (i, b, lru, path) = false := by simp [linkCls, hp']
      have := linksItems_bridge s weid incInt incOut k i items acc rest
      rw [gRun_cons_go _ _ _ _ _ (Or.inl hb), gStep_skip _ _ _ hb hm]
      simp only [paginateLinksItems, hp', Bool.not_false, if_true]
      exact this

theorem linksPrefixes_bridge (s : State) (weid : Nat) (incInt incOut : Bool) (k : Nat) :
    ∀ (pfxs : List (Nat × Bytes)) (acc : PlAcc), PfxOk s pfxs →
      s.paginateLinksPrefixes weid incInt incOut (some k) pfxs none acc
        = mkLink (gRun (linkCls s weid incInt incOut) k (gItems s pfxs) acc.toG)
  | [], acc, _ => by simp [paginateLinksPrefixes, gItems, gRun, mkLink, State.PlAcc.toG]
  | (i, p) :: rest, acc, hok => by
    obtain ⟨n, hn, hw⟩ := hok (i, p) (by simp)
    have hn' : s.lruNode (lruIter p) = some n := hn
    have hw' : WalkOk s p n (walkOf s p) := hw
    have ih := fun a => linksPrefixes_bridge s weid incInt incOut k rest a hok.tail
    have key := linksItems_bridge s weid incInt incOut k i (walkOf s p) acc (gItems s rest)
    simp only [paginateLinksPrefixes, hn', hw'.full, gItems]
    cases hres : s.paginateLinksItems weid incInt incOut (some k) i (walkOf s p) acc with
    | inl r => rw [hres] at key; exact key
    | inr a => rw [hres] at key; rw [← key]; exact ih a

/-- resuming inside the first remaining prefix with a path number `webentity_inorder_iter` accepts -/
theorem linksPrefixes_resume (s : State) (weid : Nat) (incInt incOut : Bool) (k : Nat)
    (i : Nat) (p : Bytes) (rest : List (Nat × Bytes)) (acc : PlAcc) (hok : PfxOk s rest)
    {n path : Nat} {L1 : List Item} (hn : s.lruNode (lruIter p) = some n)
    (hres : s.weInorder n p (some path) = some L1) :
    s.paginateLinksPrefixes weid incInt incOut (some k) ((i, p) :: rest) (some path) acc
      = mkLink (gRun (linkCls s weid incInt incOut) k (L1.map (fun it => (i, it)) ++ gItems s rest) acc.toG) := by
  have ih := fun a => linksPrefixes_bridge s weid incInt incOut k rest a hok
  have key := linksItems_bridge s weid incInt incOut k i L1 acc (gItems s rest)
  simp only [paginateLinksPrefixes, hn, hres]
  cases hres' : s.paginateLinksItems weid incInt incOut (some k) i L1 acc with
  | inl r => rw [hres'] at key; exact key
  | inr a => rw [hres'] at key; rw [← key]; exact ih a

/-- the first call: the loop over the whole walk -/
theorem paginateLinks_none {s : State} {ps : List Bytes} (hok : AllOk s ps) (weid : Nat) (incInt incOut : Bool)
    (hsw : (incInt || incOut) = true) (k : Nat) :
    s.paginateLinks weid ps incInt incOut (some k) none
      = mkLink (gRun (linkCls s weid incInt incOut) k (gItems s (enumFrom 0 ps)) {}) := by
  have hsw' : (!incInt && !incOut) = false := by cases incInt <;> cases incOut <;> simp_all
  simp only [paginateLinks, hsw', Bool.false_eq_true, if_false, List.drop_zero]
  exact linksPrefixes_bridge s weid incInt incOut k _ {} (pfxOk_of_allOk hok 0)

/-- a call with the token of any item of the whole walk: the loop over the items behind it -/
theorem paginateLinks_token {s : State} {ps : List Bytes} (hok : AllOk s ps) (weid : Nat) (incInt incOut : Bool)
    (hsw : (incInt || incOut) = true) (k : Nat) (pre : List GX) (x : GX) (post : List GX)
    (hG : gItems s (enumFrom 0 ps) = pre ++ x :: post) :
    s.paginateLinks weid ps incInt incOut (some k) (some (buildToken x.1 x.2.2.2))
      = mkLink (gRun (linkCls s weid incInt incOut) k post {}) := by
  have hsw' : (!incInt && !incOut) = false := by cases incInt <;> cases incOut <;> simp_all
  obtain ⟨p, rest, L0, L1, _, hdrop, _, hL, hpost⟩ := gItems_split s ps 0 pre x post hG
  have hpf : PfxOk s ((x.1, p) :: rest) := by
    intro ip hip
    rw [← hdrop] at hip
    exact pfxOk_of_allOk hok 0 ip (List.mem_of_mem_drop hip)
  simp only [paginateLinks, hsw', Bool.false_eq_true, if_false, buildToken_ne_nil, parseToken_buildToken,
    Option.map]
  rw [Nat.sub_zero] at hdrop
  rw [hdrop, hpost]
  obtain ⟨n, hn, hw⟩ := hpf (x.1, p) (by simp)
  exact linksPrefixes_resume s weid incInt incOut k x.1 p rest {} hpf.tail hn (hw.resume L0 x.2 L1 hL)

/-! ### episodes -/

/-- `LinkEpisode s weid ps incInt incOut count tok chunks`: calling `paginate_webentity_pagelinks` with
    `tok` and then with the token of every answer in turn never fails and yields `chunks`; the last answer,
    and only it, says done -/
def LinkEpisode (s : State) (weid : Nat) (ps : List Bytes) (incInt incOut : Bool) (count : Nat) :
    Option Bytes → List LinkChunk → Prop :=
  Episode (fun tok => s.paginateLinks weid ps incInt incOut (some count) tok) (·.done) (·.token)

/-- the executable reading: at most `fuel` calls -/
def episodeLinks (s : State) (weid : Nat) (ps : List Bytes) (incInt incOut : Bool) (count fuel : Nat)
    (tok : Option Bytes) : Option (List LinkChunk) :=
  runEpisode (fun tok => s.paginateLinks weid ps incInt incOut (some count) tok) (·.done) (·.token) fuel tok

theorem mkLink_ok : MkOk mkLink (fun ch : LinkChunk => ch.done) (·.token) where
  stop := by
    intro acc i p h1 h2
    exact ⟨{ done := false, sourcePages := acc.n, links := acc.out, token := some (buildToken i p) },
      by simp [mkLink, h1, h2, tokenOf], rfl, rfl⟩
  fin := by
    intro acc
    exact ⟨{ done := true, sourcePages := acc.n, links := acc.out, token := none }, by simp [mkLink], rfl, rfl⟩

theorem mkLink_fields {st : Bool} {acc : GAcc PageLink} {ch : LinkChunk} (h : mkLink (st, acc) = .ok ch) :
    ch.links = acc.out ∧ ch.sourcePages = acc.n := by
  cases st with
  | false => simp only [mkLink, Except.ok.injEq] at h; subst h; exact ⟨rfl, rfl⟩
  | true =>
    simp only [mkLink] at h
    split at h
    · cases h
    · cases h; exact ⟨rfl, rfl⟩

/-- `ch` is the answer for the segment `seg`: assembled from the un-limited loop over `seg` -/
def LinkAnswer (s : State) (weid : Nat) (incInt incOut : Bool) (ch : LinkChunk) (seg : List GX) : Prop :=
  ∃ st, mkLink (st, gFold (linkCls s weid incInt incOut) seg {}) = .ok ch

/-- an answer returns the links of the link-bearing pages of its segment, in order, and their number -/
theorem LinkAnswer.fields {s : State} {weid : Nat} {incInt incOut : Bool} {ch : LinkChunk} {seg : List GX}
    (h : LinkAnswer s weid incInt incOut ch seg) :
    ch.links = (linkCls s weid incInt incOut).outs seg ∧
    ch.sourcePages = (linkCls s weid incInt incOut).cnt seg := by
  obtain ⟨st, hmk⟩ := h
  obtain ⟨h1, h2⟩ := mkLink_fields hmk
  rw [h1, h2, gFold_out, gFold_n]
  simp

/-- the token of an answer is the token of a page of its segment -/
theorem LinkAnswer.token {s : State} {weid : Nat} {incInt incOut : Bool} {ch : LinkChunk} {seg : List GX}
    (h : LinkAnswer s weid incInt incOut ch seg) {t : Bytes} (ht : ch.token = some t) :
    ∃ x ∈ seg, (s.cell x.2.1).flags.page = true ∧ t = buildToken x.1 x.2.2.2 := by
  obtain ⟨st, hmk⟩ := h
  cases st with
  | false => simp only [mkLink, Except.ok.injEq] at hmk; subst hmk; cases ht
  | true =>
    simp only [mkLink] at hmk
    rcases gFold_last_mem (linkCls s weid incInt incOut) seg {} with ⟨h1, h2⟩ | ⟨z, hz, h1, h2, hm⟩
    · rw [h1, h2] at hmk
      simp [tokenOf] at hmk
    · rw [h1, h2] at hmk
      simp only [tokenOf, Except.ok.injEq] at hmk
      subst hmk
      simp only [Option.some.injEq] at ht
      refine ⟨z, hz, ?_, ht.symm⟩
      rcases hm with hm | hm
      · exact hm
      · have : ((s.cell z.2.1).flags.page && !(s.outLinksOfPage weid z.2.1 z.2.2.1 incInt incOut).isEmpty) = true := hm
        simp only [Bool.and_eq_true] at this
        exact this.1

/-- EPISODE, general form: if the call with `tok` is the loop over a tail `xs` of the walk, the episode from
    `tok` exists (no call fails, every token resumes), and its answers are, one by one, the answers for the
    segments of `xs` -/
theorem linkEpisode_of_call {s : State} {ps : List Bytes} (hok : AllOk s ps) (weid : Nat) (incInt incOut : Bool)
    (hsw : (incInt || incOut) = true) (count : Nat) (hc : 1 ≤ count) (tok : Option Bytes) (xs : List GX)
    (hcall : s.paginateLinks weid ps incInt incOut (some count) tok
      = mkLink (gRun (linkCls s weid incInt incOut) count xs {}))
    (hpre : ∃ pre, gItems s (enumFrom 0 ps) = pre ++ xs) :
    ∃ chunks segs, LinkEpisode s weid ps incInt incOut count tok chunks ∧
      Segs (linkCls s weid incInt incOut) count xs segs ∧
      Forall2 (LinkAnswer s weid incInt incOut) chunks segs := by
  obtain ⟨segs, hsegs⟩ := segs_exists (linkCls s weid incInt incOut) count hc xs.length xs (Nat.le_refl _)
  obtain ⟨chunks, hep, hf⟩ := episode_of_segs
    (call := fun tok => s.paginateLinks weid ps incInt incOut (some count) tok)
    (linkCls s weid incInt incOut) mkLink_ok
    (gItems s (enumFrom 0 ps)) count hc
    (fun pre x post hG => paginateLinks_token hok weid incInt incOut hsw count pre x post hG)
    xs segs hsegs tok [] (by simp) hcall hpre
  exact ⟨chunks, segs, hep, hsegs, hf⟩

/-- EPISODE, from every resume point of the same state -/
theorem linkEpisode_from {s : State} {ps : List Bytes} (hok : AllOk s ps) (weid : Nat) (incInt incOut : Bool)
    (hsw : (incInt || incOut) = true) (count : Nat) (hc : 1 ≤ count) (tok : Option Bytes) (xs : List GX)
    (hres : ResumeAt (gItems s (enumFrom 0 ps)) tok xs) :
    ∃ chunks segs, LinkEpisode s weid ps incInt incOut count tok chunks ∧
      Segs (linkCls s weid incInt incOut) count xs segs ∧
      Forall2 (LinkAnswer s weid incInt incOut) chunks segs := by
  apply linkEpisode_of_call hok weid incInt incOut hsw count hc tok xs
  · rcases hres with ⟨rfl, rfl⟩ | ⟨pre, x, hG, rfl⟩
    · exact paginateLinks_none hok weid incInt incOut hsw count
    · exact paginateLinks_token hok weid incInt incOut hsw count pre x xs hG
  · rcases hres with ⟨_, rfl⟩ | ⟨pre, x, hG, _⟩
    · exact ⟨[], rfl⟩
    · exact ⟨pre ++ [x], by rw [hG]; simp⟩

/-! ### the paginated links against the un-paginated answer -/

/-- the links contributed by the node `(block, lru)`: those of `get_webentity_pagelinks_iter` if it is a page -/
def srcLinks (s : State) (weid : Nat) (incInt incOut : Bool) (bl : Nat × Bytes) : List PageLink :=
  if (s.cell bl.1).flags.page then s.outLinksOfPage weid bl.1 bl.2 incInt incOut else []

theorem linkCls_outs_eq (s : State) (weid : Nat) (incInt incOut : Bool) : ∀ (xs : List GX),
    (linkCls s weid incInt incOut).outs xs = xs.flatMap (fun x => srcLinks s weid incInt incOut (x.2.1, x.2.2.1))
  | [] => rfl
  | x :: xs => by
    rw [Cls.outs_cons, List.flatMap_cons, linkCls_outs_eq s weid incInt incOut xs]
    congr 1
    simp only [linkCls, srcLinks]
    by_cases hp : (s.cell x.2.1).flags.page = true
    · by_cases he : (s.outLinksOfPage weid x.2.1 x.2.2.1 incInt incOut).isEmpty = true
      · simp [hp, List.isEmpty_iff.mp he]
      · simp [hp, he]
    · simp [hp]

/-- the un-paginated answer without inbound links, prefix by prefix -/
theorem pagelinks_unpaginated {s : State} {weid : Nat} {ps : List Bytes} {incInt incOut : Bool}
    {all : List PageLink} (hall : s.webentityPagelinks weid ps false incInt incOut = .ok all) :
    (incInt || incOut) = true ∧ (∀ p ∈ ps, (s.lruNode (lruIter p)).isSome = true) ∧
    all = ps.flatMap (fun p => match s.lruNode (lruIter p) with
      | some n => (s.weDfs n p none).flatMap (srcLinks s weid incInt incOut)
      | none => []) := by
  unfold webentityPagelinks at hall
  by_cases hsw : (!incInt && !incOut && !false) = true
  · rw [if_pos hsw] at hall; cases hall
  · rw [if_neg hsw, forPrefixes_eq] at hall
    split at hall
    · rename_i hps
      cases hall
      refine ⟨by cases incInt <;> cases incOut <;> simp_all, fun p hp => (List.all_eq_true.mp hps) p hp, ?_⟩
      congr 1
      funext p
      cases s.lruNode (lruIter p) with
      | none => rfl
      | some n =>
        simp only
        rw [filter_flatMap_if]
        congr 1
        funext bl
        simp [srcLinks, inLinksOfPage]
    · cases hall

/-- the links of the whole walk, in the order of the paginated request, are a rearrangement of the
    un-paginated answer -/
theorem walk_links_perm {s : State} {ps : List Bytes} (hok : AllOk s ps) (weid : Nat) (incInt incOut : Bool) :
    ((linkCls s weid incInt incOut).outs (gItems s (enumFrom 0 ps))).Perm
      (ps.flatMap (fun p => match s.lruNode (lruIter p) with
        | some n => (s.weDfs n p none).flatMap (srcLinks s weid incInt incOut)
        | none => [])) := by
  rw [linkCls_outs_eq, gItems_flatMap s (fun it => srcLinks s weid incInt incOut (it.1, it.2.1)) ps 0]
  apply perm_flatMap_pointwise
  intro p hp
  obtain ⟨n, hn, hw⟩ := hok p hp
  rw [hn]
  have := List.Perm.flatMap_right (srcLinks s weid incInt incOut) hw.perm
  rw [List.flatMap_map] at this
  exact this

/-- the link-bearing source pages of webentity `weid` for the given switches, in the order of the
    paginated request: tagged items `(prefix index, block, lru, path)` -/
def linkSources (s : State) (weid : Nat) (ps : List Bytes) (incInt incOut : Bool) : List GX :=
  (gItems s (enumFrom 0 ps)).filter (linkCls s weid incInt incOut).bear

/-- C10. In every state with the invariants, for every prefix list and every switch setting the
    un-paginated request answers, and every source-page count ≥ 1: paging from the start, feeding every
    token back, never fails; the answers `chunks` correspond one by one to consecutive groups of
    link-bearing source pages; every answer returns exactly the links of its group and reports the size of
    the group; every group but the last has exactly `count` pages, and its answer says not done and carries
    a token; the last answer says done; all links together are a rearrangement of the un-paginated
    answer; the number of calls is bounded. -/
theorem C10_episode {s : State} {t : T} (h : Shape s t) (hi : Inv s t) {weid : Nat} {ps : List Bytes}
    {incInt incOut : Bool} {all : List PageLink}
    (hall : s.webentityPagelinks weid ps false incInt incOut = .ok all) (count : Nat) (hc : 1 ≤ count) :
    ∃ (chunks : List LinkChunk) (groups : List (List GX)),
      LinkEpisode s weid ps incInt incOut count none chunks ∧
      (chunks.flatMap (·.links)).Perm all ∧
      groups.flatten = linkSources s weid ps incInt incOut ∧
      Forall2 (fun (ch : LinkChunk) grp =>
          ch.links = grp.flatMap (fun x => s.outLinksOfPage weid x.2.1 x.2.2.1 incInt incOut) ∧
          ch.sourcePages = grp.length) chunks groups ∧
      (∀ grp ∈ groups.dropLast, grp.length = count) ∧
      (∀ ch ∈ chunks.dropLast, ch.done = false ∧ ch.sourcePages = count ∧ ch.token.isSome = true) ∧
      (∃ l, chunks.getLast? = some l ∧ l.done = true ∧ l.token = none ∧ l.sourcePages ≤ count) ∧
      chunks.length ≤ (linkSources s weid ps incInt incOut).length / count + 1 := by
  obtain ⟨hsw, hps, hall'⟩ := pagelinks_unpaginated hall
  have hok : AllOk s ps := allOk_of_shape h hi.wf hps
  obtain ⟨chunks, segs, hep, hsegs, hf⟩ :=
    linkEpisode_from hok weid incInt incOut hsw count hc none _ (Or.inl ⟨rfl, rfl⟩)
  have hfields := hf.imp (fun ch seg (ha : LinkAnswer s weid incInt incOut ch seg) => ha.fields)
  obtain ⟨hc1, ⟨lseg, hlseg, hlc, _⟩, _⟩ := hsegs.counts
  obtain ⟨hfl1, lch, hlch, hld, hlt⟩ := hep.flags
  refine ⟨chunks, segs.map (fun seg => seg.filter (linkCls s weid incInt incOut).bear), hep, ?_, ?_, ?_, ?_, ?_, ?_, ?_⟩
  · -- all links
    rw [hall']
    refine List.Perm.trans ?_ (walk_links_perm hok weid incInt incOut)
    rw [hfields.flatMap_eq (·.links) ((linkCls s weid incInt incOut).outs) (fun _ _ hr => hr.1),
      ← outs_flatten, hsegs.flatten]
  · rw [filter_flatten', hsegs.flatten]; rfl
  · apply Forall2.map_right
    exact hfields.imp (fun ch seg hr => ⟨hr.1, hr.2⟩)
  · intro grp hgrp
    rw [← List.map_dropLast] at hgrp
    obtain ⟨seg, hseg, rfl⟩ := List.mem_map.mp hgrp
    exact hc1 seg hseg
  · intro ch hch
    obtain ⟨seg, hseg, hr⟩ := hfields.dropLast.mem_left ch hch
    obtain ⟨d1, d2⟩ := hfl1 ch hch
    exact ⟨d1, by rw [hr.2]; exact hc1 seg hseg, d2⟩
  · obtain ⟨seg, hseg, hr⟩ := hfields.getLast? hlch
    rw [hlseg] at hseg
    cases hseg
    exact ⟨lch, hlch, hld, hlt, by rw [hr.2]; exact hlc⟩
  · rw [hf.length_eq]
    exact hsegs.length_le (linkCls s weid incInt incOut) hc

/-- C10, termination: iterating the calls with fuel `(number of link-bearing source pages) / count + 1`
    completes the episode -/
theorem C10_terminates {s : State} {t : T} (h : Shape s t) (hi : Inv s t) {weid : Nat} {ps : List Bytes}
    {incInt incOut : Bool} {all : List PageLink}
    (hall : s.webentityPagelinks weid ps false incInt incOut = .ok all) (count : Nat) (hc : 1 ≤ count) :
    ∃ chunks, episodeLinks s weid ps incInt incOut count
        ((linkSources s weid ps incInt incOut).length / count + 1) none = some chunks ∧
      LinkEpisode s weid ps incInt incOut count none chunks := by
  obtain ⟨chunks, _, hep, _, _, _, _, _, _, hlen⟩ := C10_episode h hi hall count hc
  exact ⟨chunks, hep.run _ hlen, hep⟩

/-- C10, every resume point: for every item `x` of the walk — link-bearing page, page without links, plain
    node, in whichever prefix, whatever lies between it and the next link-bearing page — and every count
    ≥ 1, the episode started with the token of `x` exists and returns exactly the links of the
    link-bearing pages behind `x`, in order -/
theorem C10_resume_anywhere {s : State} {t : T} (h : Shape s t) (hi : Inv s t) {weid : Nat} {ps : List Bytes}
    {incInt incOut : Bool} {all : List PageLink}
    (hall : s.webentityPagelinks weid ps false incInt incOut = .ok all) (count : Nat) (hc : 1 ≤ count)
    (pre : List GX) (x : GX) (post : List GX) (hG : gItems s (enumFrom 0 ps) = pre ++ x :: post) :
    ∃ chunks, LinkEpisode s weid ps incInt incOut count (some (buildToken x.1 x.2.2.2)) chunks ∧
      chunks.flatMap (·.links) = post.flatMap (fun y => srcLinks s weid incInt incOut (y.2.1, y.2.2.1)) ∧
      (∀ ch ∈ chunks.dropLast, ch.sourcePages = count) := by
  obtain ⟨hsw, hps, _⟩ := pagelinks_unpaginated hall
  have hok : AllOk s ps := allOk_of_shape h hi.wf hps
  obtain ⟨chunks, segs, hep, hsegs, hf⟩ :=
    linkEpisode_from hok weid incInt incOut hsw count hc _ post (Or.inr ⟨pre, x, hG, rfl⟩)
  have hfields := hf.imp (fun ch seg (ha : LinkAnswer s weid incInt incOut ch seg) => ha.fields)
  refine ⟨chunks, hep, ?_, ?_⟩
  · rw [hfields.flatMap_eq (·.links) ((linkCls s weid incInt incOut).outs) (fun _ _ hr => hr.1),
      ← outs_flatten, hsegs.flatten, linkCls_outs_eq]
  · intro ch hch
    obtain ⟨seg, hseg, hr⟩ := hfields.dropLast.mem_left ch hch
    rw [hr.2]; exact hsegs.counts.1 seg hseg

/-- C10, issued tokens: every token an episode issues is the token of a page of the walk; hence
    (`C10_resume_anywhere`) it can be resumed, with any count -/
theorem C10_issued_tokens {s : State} {t : T} (h : Shape s t) (hi : Inv s t) {weid : Nat} {ps : List Bytes}
    {incInt incOut : Bool} {all : List PageLink}
    (hall : s.webentityPagelinks weid ps false incInt incOut = .ok all) (count : Nat) (hc : 1 ≤ count)
    {chunks : List LinkChunk} (hep : LinkEpisode s weid ps incInt incOut count none chunks)
    {ch : LinkChunk} (hch : ch ∈ chunks) {tk : Bytes} (htk : ch.token = some tk) :
    ∃ pre x post, gItems s (enumFrom 0 ps) = pre ++ x :: post ∧ (s.cell x.2.1).flags.page = true ∧
      tk = buildToken x.1 x.2.2.2 := by
  obtain ⟨hsw, hps, _⟩ := pagelinks_unpaginated hall
  have hok : AllOk s ps := allOk_of_shape h hi.wf hps
  obtain ⟨chunks', segs, hep', hsegs, hf⟩ :=
    linkEpisode_from hok weid incInt incOut hsw count hc none _ (Or.inl ⟨rfl, rfl⟩)
  have := Episode.det hep hep'
  subst this
  obtain ⟨seg, hseg, ha⟩ := hf.mem_left ch hch
  obtain ⟨x, hx, hpg, e⟩ := ha.token htk
  have hxG : x ∈ gItems s (enumFrom 0 ps) := by
    rw [← hsegs.flatten]; exact List.mem_flatten.mpr ⟨seg, hseg, hx⟩
  obtain ⟨pre, post, e2⟩ := List.append_of_mem hxG
  exact ⟨pre, x, post, e2, hpg, e⟩

/-- C10 for every reachable index state: after any history of write requests (well-formed, no `KeyError`
    answer, no `clear`) on a fresh index with any constructor rules, for every webentity id, every prefix
    list (one or several prefixes, any order) and every switch setting for which the un-paginated request
    answers, and every source-page count ≥ 1, the conclusions of `C10_episode` hold, every item of the walk
    is a resume point (`C10_resume_anywhere`) and the iteration terminates within the stated number of calls -/
theorem C10_reachable (cfg : Config) (dflt : Rule) (rules : List (Bytes × Rule)) (ops : List Op)
    (hrules : ∀ ar ∈ rules, lruIter ar.1 ≠ [])
    (hop : ∀ op ∈ ops, ∀ d rs, op ≠ .clear d rs) (hwf : ∀ op ∈ ops, OpWf op)
    (hok : NoKeyErr (State.fresh cfg dflt rules []).1 ops)
    (s : State) (hs : s = (State.fresh cfg dflt rules []).1.run ops)
    (weid : Nat) (ps : List Bytes) (incInt incOut : Bool) (all : List PageLink)
    (hall : s.webentityPagelinks weid ps false incInt incOut = .ok all) (count : Nat) (hc : 1 ≤ count) :
    (∃ (chunks : List LinkChunk) (groups : List (List GX)),
      LinkEpisode s weid ps incInt incOut count none chunks ∧
      episodeLinks s weid ps incInt incOut count
        ((linkSources s weid ps incInt incOut).length / count + 1) none = some chunks ∧
      (chunks.flatMap (·.links)).Perm all ∧
      groups.flatten = linkSources s weid ps incInt incOut ∧
      Forall2 (fun (ch : LinkChunk) grp =>
          ch.links = grp.flatMap (fun x => s.outLinksOfPage weid x.2.1 x.2.2.1 incInt incOut) ∧
          ch.sourcePages = grp.length) chunks groups ∧
      (∀ grp ∈ groups.dropLast, grp.length = count) ∧
      (∀ ch ∈ chunks.dropLast, ch.done = false ∧ ch.sourcePages = count ∧ ch.token.isSome = true) ∧
      (∃ l, chunks.getLast? = some l ∧ l.done = true ∧ l.token = none ∧ l.sourcePages ≤ count)) ∧
    (∀ pre x post, gItems s (enumFrom 0 ps) = pre ++ x :: post → ∀ count', 1 ≤ count' →
      ∃ chunks, LinkEpisode s weid ps incInt incOut count' (some (buildToken x.1 x.2.2.2)) chunks ∧
        chunks.flatMap (·.links) = post.flatMap (fun y => srcLinks s weid incInt incOut (y.2.1, y.2.2.1))) := by
  subst hs
  obtain ⟨t, h, hi⟩ := inv_run cfg dflt rules ops hrules hop hwf hok
  obtain ⟨chunks, groups, h1, h2, h3, h4, h5, h6, h7, h8⟩ := C10_episode h hi hall count hc
  refine ⟨⟨chunks, groups, h1, h1.run _ h8, h2, h3, h4, h5, h6, h7⟩, fun pre x post hG count' hc' => ?_⟩
  obtain ⟨chunks', g1, g2, _⟩ := C10_resume_anywhere h hi hall count' hc' pre x post hG
  exact ⟨chunks', g1, g2⟩

/-! ### the model on the witness of the repaired defect D3 (kernel-checked evaluations)

    Webentity 1 with prefixes `x|` and `y|`; links `x|1| → x|2|`, `y|m| → y|mm|`, page `y|n|`, link
    `y|z| → y|zz|`. `y|mm|` sorts before `y|m|`: with one source page per call the first token points into
    the second prefix, at a page without links. -/
section Examples

private def exX : Bytes := [120, 124]
private def exY : Bytes := [121, 124]
private def exPg (p : Bytes) (l : List Nat) : Bytes := p ++ l ++ [124]
private def exS : State :=
  (State.fresh {} .never [] []).1.run
    [.create [exX, exY], .addLinks [(exPg exX [49], exPg exX [50]), (exPg exY [109], exPg exY [109, 109])],
     .addPage (exPg exY [110]) false, .addLinks [(exPg exY [122], exPg exY [122, 122])]]

example : (exS.webentityPagelinks 1 [exX, exY] false true true).toOption
    = some [(exPg exX [49], exPg exX [50], 1), (exPg exY [109], exPg exY [109, 109], 1),
            (exPg exY [122], exPg exY [122, 122], 1)] := by decide
example : episodeLinks exS 1 [exX, exY] true true 1 4 none
    = some [{ done := false, sourcePages := 1, links := [(exPg exX [49], exPg exX [50], 1)],
              token := some [49, 35, 57] },
            { done := false, sourcePages := 1, links := [(exPg exY [109], exPg exY [109, 109], 1)],
              token := some [49, 35, 50, 90] },
            { done := true, sourcePages := 1, links := [(exPg exY [122], exPg exY [122, 122], 1)],
              token := none }] := by decide
example : (episodeLinks exS 1 [exX, exY] true true 2 4 none).map
      (fun cs => cs.map (fun c => (c.done, c.sourcePages, c.links.length)))
    = some [(false, 2, 2), (true, 1, 1)] := by decide
example : (episodeLinks exS 1 [exX, exY] true true 3 4 none).map
      (fun cs => cs.map (fun c => (c.done, c.sourcePages, c.links.length)))
    = some [(true, 3, 3)] := by decide

end Examples

end Traph

section
open Traph
#print axioms linkEpisode_from
#print axioms C10_episode
#print axioms C10_terminates
#print axioms C10_resume_anywhere
#print axioms C10_issued_tokens
#print axioms C10_reachable
end

import Proofs.PagPaths
/-! Pagination, part 4: the paginated in-order traversal resumes exactly after the token's item. -/
namespace Traph
open State

/-- no path at or below `path` is pruned by `can_follow_path` -/
def NoPrune (cmp : Bytes) (path : Nat) : Prop :=
  ∀ ds, Digits ds → canFollowPath cmp (ds.foldl base4Append path) = true

theorem NoPrune.here {cmp : Bytes} {path : Nat} (h : NoPrune cmp path) : canFollowPath cmp path = true :=
  h [] (by intro d hd; simp at hd)

theorem NoPrune.step {cmp : Bytes} {path : Nat} (h : NoPrune cmp path) (d : Nat) (hd : d = 1 ∨ d = 2 ∨ d = 3) :
    NoPrune cmp (base4Append path d) := by
  intro ds hds
  exact h (d :: ds) (by intro e he; simp at he; rcases he with rfl | he; exact hd; exact hds e he)

theorem noPrune_nil (path : Nat) : NoPrune [] path := by
  intro ds _
  simp [canFollowPath, lexLt_nil_right]

/-- (i) where nothing is pruned, the paginated traversal is literally the filter of the un-paginated one -/
theorem inorderGo_noprune {s : State} (start : Nat) (cmp plru : Bytes) :
    ∀ (fuel b : Nat) (lru : Bytes) (path : Nat), NoPrune cmp path →
      s.inorderGo start (some (cmp, plru)) fuel b lru path
        = (s.inorderGo start none fuel b lru path).filter (fun it => lexLt plru it.2.1) := by
  intro fuel
  induction fuel with
  | zero => intro _ _ _ _; simp [inorderGo]
  | succ f ih =>
    intro b lru path hn
    simp only [inorderGo, hn.here, Bool.not_true, Bool.false_eq_true, if_false, List.filter_append]
    rw [ih _ _ _ (hn.step 1 (by simp)), ih _ _ _ (hn.step 2 (by simp)), ih _ _ _ (hn.step 3 (by simp))]
    have fi : ∀ (c : Prop) [Decidable c] (l : List (Nat × Bytes × Nat)),
        List.filter (fun it => lexLt plru it.2.1) (if c then l else []) =
          if c then List.filter (fun it => lexLt plru it.2.1) l else [] := by
      intro c _ l; split <;> simp
    simp only [fi, if_true, List.filter_cons, List.filter_nil]

/-- (i), as asked: with a comparison path that prunes nothing the paginated traversal is the filter -/
theorem inorderGo_filter {s : State} (start : Nat) (plru : Bytes) (fuel b : Nat) (lru : Bytes) (path : Nat) :
    s.inorderGo start (some ([], plru)) fuel b lru path
      = (s.inorderGo start none fuel b lru path).filter (fun it => lexLt plru it.2.1) :=
  inorderGo_noprune start [] plru fuel b lru path (noPrune_nil path)

/-! ### structural counterpart of the paginated traversal -/

def T.weInorderPag (s : State) (start : Nat) (cmp plru : Bytes) : T → Bytes → Nat → List (Nat × Bytes × Nat)
  | .nil, _, _ => []
  | .node a l c r, lru, path =>
    if canFollowPath cmp path = false then [] else
    (if a = start then [] else l.weInorderPag s start cmp plru lru (base4Append path 1))
    ++ (if a = start ∨ (s.cell a).we = 0 then
          (if lexLt plru (lru ++ s.stemAt a) = true then [(a, lru ++ s.stemAt a, path)] else [])
            ++ c.weInorderPag s start cmp plru (lru ++ s.stemAt a) (base4Append path 2)
        else [])
    ++ (if a = start then [] else r.weInorderPag s start cmp plru lru (base4Append path 3))

theorem inorderGo_eq_weInorderPag {s : State} (start : Nat) (cmp plru : Bytes) :
    ∀ (t : T) (fuel : Nat) (lru : Bytes) (path : Nat), Rep s t → t ≠ .nil → t.height ≤ fuel →
      s.inorderGo start (some (cmp, plru)) fuel t.root lru path = t.weInorderPag s start cmp plru lru path := by
  intro t
  induction t with
  | nil => intro _ _ _ _ hn; exact absurd rfl hn
  | node a l c r ihl ihc ihr =>
    intro fuel lru path hr _ hf
    obtain ⟨h1, h2, h3⟩ := hr.cell_eq
    obtain ⟨ha, _, rl, rc, rr⟩ := hr
    cases fuel with
    | zero => simp [T.height] at hf
    | succ f =>
      simp only [T.height] at hf
      have sub : ∀ (u : T), Rep s u → u.height ≤ f →
          (∀ (fuel : Nat) (lru : Bytes) (path : Nat), Rep s u → u ≠ .nil → u.height ≤ fuel →
            s.inorderGo start (some (cmp, plru)) fuel u.root lru path = u.weInorderPag s start cmp plru lru path) →
          ∀ (x : Bytes) (p : Nat),
            (if u.root ≠ 0 then s.inorderGo start (some (cmp, plru)) f u.root x p else [])
              = u.weInorderPag s start cmp plru x p := by
        intro u ru hu ih x p
        cases u with
        | nil => simp [T.weInorderPag]
        | node b l' c' r' =>
          have hb : (T.node b l' c' r').root ≠ 0 := ru.1
          rw [if_pos hb]
          exact ih f x p ru (by simp) hu
      have sl := sub l rl (by omega) ihl
      have sc := sub c rc (by omega) ihc
      have sr := sub r rr (by omega) ihr
      simp only [T.root_node, inorderGo, h1, h2, h3, T.weInorderPag]
      by_cases hp : canFollowPath cmp path = false
      · simp [hp]
      · have hp' : canFollowPath cmp path = true := by simpa using hp
        simp only [hp', Bool.not_true, Bool.false_eq_true, if_false]
        by_cases e : a = start
        · subst e
          rw [← sc (lru ++ s.stemAt a) (base4Append path 2)]
          simp <;> rfl
        · have e1 := sl lru (base4Append path 1)
          have e3 := sr lru (base4Append path 3)
          have e2 := sc (lru ++ s.stemAt a) (base4Append path 2)
          rw [← e1, ← e2, ← e3]
          by_cases hw : (s.cell a).we = 0
          · simp [e, hw] <;> rfl
          · simp [e, hw] <;> rfl

/-! ### what `can_follow_path` decides, in terms of routes -/

theorem path_ne_zero (d : Nat) (rest : List Nat) (h : Digits (d :: rest)) : (d :: rest).foldl base4Append 0 ≠ 0 := by
  rw [path_eq_fromDigits]
  have := h d (by simp)
  exact fromDigits_pos 4 (by omega) d rest (by omega)

theorem dc_lt {d e : Nat} (hd : d = 1 ∨ d = 2 ∨ d = 3) (he : e = 1 ∨ e = 2 ∨ e = 3) (h : d < e) :
    digitChar d < digitChar e := by
  obtain ⟨d1, d2, d3⟩ := digitChar_123
  rcases hd with rfl | rfl | rfl <;> rcases he with rfl | rfl | rfl <;> simp only [d1, d2, d3] <;> omega

theorem canFollowPath_route (cmp : Bytes) (E : List Nat) (hE : Digits E) :
    canFollowPath cmp (E.foldl base4Append 0) = !lexLt (E.map digitChar) (cmp.take E.length) := by
  cases E with
  | nil => simp [canFollowPath, lexLt]
  | cons d rest =>
    have hne := path_ne_zero d rest hE
    have := intToBase4_path (d :: rest) hE (by simp)
    simp only [canFollowPath, if_neg hne]
    rw [this]; simp

theorem canFollow_prefix (E D' : List Nat) (hE : Digits E) :
    canFollowPath ((E ++ D').map digitChar) (E.foldl base4Append 0) = true := by
  rw [canFollowPath_route _ _ hE, List.map_append, List.take_left' (by simp)]
  simp [lexLt_irrefl]

theorem canFollow_beyond (D E' : List Nat) (h : Digits (D ++ E')) :
    canFollowPath (D.map digitChar) ((D ++ E').foldl base4Append 0) = true := by
  rw [canFollowPath_route _ _ h, List.take_of_length_le (by simp), List.map_append]
  have := lexLt_append_left (D.map digitChar) (E'.map digitChar) []
  rw [List.append_nil] at this
  rw [this, lexLt_nil_right]; rfl

theorem canFollow_after (P D' E' : List Nat) (d e : Nat) (hd : d = 1 ∨ d = 2 ∨ d = 3) (hlt : d < e)
    (h : Digits (P ++ e :: E')) :
    canFollowPath ((P ++ d :: D').map digitChar) ((P ++ e :: E').foldl base4Append 0) = true := by
  have he : e = 1 ∨ e = 2 ∨ e = 3 := h e (by simp)
  have := dc_lt hd he hlt
  rw [canFollowPath_route _ _ h]
  simp only [List.map_append, List.map_cons, List.take_append, List.length_append, List.length_map, List.length_cons]
  rw [List.take_of_length_le (by simp), show P.length + (E'.length + 1) - P.length = E'.length + 1 by omega,
    List.take_succ_cons, lexLt_append_left]
  have h1 : ¬ digitChar e < digitChar d := by omega
  have h2 : ¬ digitChar e = digitChar d := by omega
  simp [lexLt, h1, h2]

theorem canFollow_before (P D' : List Nat) (d e : Nat) (hd : d = 1 ∨ d = 2 ∨ d = 3) (hlt : e < d)
    (h : Digits (P ++ [e])) :
    canFollowPath ((P ++ d :: D').map digitChar) ((P ++ [e]).foldl base4Append 0) = false := by
  have he : e = 1 ∨ e = 2 ∨ e = 3 := h e (by simp)
  have := dc_lt he hd hlt
  rw [canFollowPath_route _ _ h]
  simp only [List.map_append, List.map_cons, List.take_append, List.length_append, List.length_map, List.length_cons,
    List.map_nil, List.length_nil]
  rw [List.take_of_length_le (by simp), show P.length + (0 + 1) - P.length = 0 + 1 by omega,
    List.take_succ_cons, lexLt_append_left]
  simp [lexLt, this]

theorem foldl_route (E ds : List Nat) :
    ds.foldl base4Append (E.foldl base4Append 0) = (E ++ ds).foldl base4Append 0 := by
  rw [List.foldl_append]

/-- at or below the token's node nothing is pruned -/
theorem noPrune_beyond (D E' : List Nat) (h : Digits (D ++ E')) :
    NoPrune (D.map digitChar) ((D ++ E').foldl base4Append 0) := by
  intro ds hds
  rw [foldl_route, List.append_assoc]
  exact canFollow_beyond D (E' ++ ds) (by rw [← List.append_assoc]; exact h.append hds)

/-- after a divergence to the right of the token's route nothing is pruned -/
theorem noPrune_after (P D' : List Nat) (d e : Nat) (hd : d = 1 ∨ d = 2 ∨ d = 3) (hlt : d < e)
    (h : Digits (P ++ [e])) :
    NoPrune ((P ++ d :: D').map digitChar) ((P ++ [e]).foldl base4Append 0) := by
  intro ds hds
  have e1 : P ++ [e] ++ ds = P ++ e :: ds := by simp
  rw [foldl_route, e1]
  exact canFollow_after P D' ds d e hd hlt (by rw [← e1]; exact h.append hds)

/-! ### the structural paginated traversal, unpruned / pruned -/

theorem weInorderPag_noprune {s : State} (start : Nat) (cmp plru : Bytes) :
    ∀ (t : T) (lru : Bytes) (path : Nat), NoPrune cmp path →
      t.weInorderPag s start cmp plru lru path
        = (t.weInorder s start lru path).filter (fun it => lexLt plru it.2.1) := by
  intro t
  induction t with
  | nil => intro _ _ _; simp [T.weInorderPag, T.weInorder]
  | node a l c r ihl ihc ihr =>
    intro lru path hn
    have fi : ∀ (c : Prop) [Decidable c] (l : List (Nat × Bytes × Nat)),
        List.filter (fun it => lexLt plru it.2.1) (if c then l else []) =
          if c then List.filter (fun it => lexLt plru it.2.1) l else [] := by
      intro c _ l; split <;> simp
    simp only [T.weInorderPag, T.weInorder, hn.here, Bool.true_eq_false, if_false, List.filter_append, fi,
      List.filter_cons,
      ihl _ _ (hn.step 1 (by simp)), ihc _ _ (hn.step 2 (by simp)), ihr _ _ (hn.step 3 (by simp))]
    by_cases e : a = start
    · subst e
      by_cases hok : lexLt plru (lru ++ s.stemAt a) = true <;> simp [hok]
    · by_cases hw : (s.cell a).we = 0 <;>
        by_cases hok : lexLt plru (lru ++ s.stemAt a) = true <;> simp [e, hw, hok]

theorem weInorderPag_pruned {s : State} (start : Nat) (cmp plru : Bytes) (t : T) (lru : Bytes) (path : Nat)
    (h : canFollowPath cmp path = false) : t.weInorderPag s start cmp plru lru path = [] := by
  cases t with
  | nil => rfl
  | node a l c r => simp [T.weInorderPag, h]

/-! ### (ii) RESUME -/

abbrev Item := Nat × Bytes × Nat

/-- the byte strings of a list of items are strictly ascending -/
def SortedItems (l : List Item) : Prop := (l.map (·.2.1)).Pairwise (fun a b => lexLt a b = true)

theorem SortedItems.left {X Y : List Item} (h : SortedItems (X ++ Y)) : SortedItems X := by
  unfold SortedItems at h; rw [List.map_append, List.pairwise_append] at h; exact h.1

theorem SortedItems.right {X Y : List Item} (h : SortedItems (X ++ Y)) : SortedItems Y := by
  unfold SortedItems at h; rw [List.map_append, List.pairwise_append] at h; exact h.2.1

theorem SortedItems.cross {X Y : List Item} (h : SortedItems (X ++ Y)) :
    ∀ x ∈ X, ∀ y ∈ Y, lexLt x.2.1 y.2.1 = true := by
  unfold SortedItems at h; rw [List.map_append, List.pairwise_append] at h
  intro x hx y hy
  exact h.2.2 _ (List.mem_map.mpr ⟨x, hx, rfl⟩) _ (List.mem_map.mpr ⟨y, hy, rfl⟩)

/-- a list all of whose items sort before the pivot contributes nothing after the pivot -/
theorem filter_nil_of_before (cur0 : Bytes) (X : List Item) (h : ∀ x ∈ X, lexLt x.2.1 cur0 = true) :
    X.filter (fun it => lexLt cur0 it.2.1) = [] := by
  rw [List.filter_eq_nil_iff]
  intro x hx
  rw [lexLt_asymm (h x hx)]; simp

/-- the three slots of a node, paginated piecewise -/
theorem node_assemble (plru : Bytes) (rel : Prop) [Decidable rel] (x : Item) (L L' C C' R R' : List Item)
    (hL : L' = L.filter (fun it => lexLt plru it.2.1))
    (hC : rel → C' = C.filter (fun it => lexLt plru it.2.1))
    (hR : R' = R.filter (fun it => lexLt plru it.2.1)) :
    L' ++ (if rel then (if lexLt plru x.2.1 = true then [x] else []) ++ C' else []) ++ R'
      = (L ++ (if rel then x :: C else []) ++ R).filter (fun it => lexLt plru it.2.1) := by
  subst hL hR
  by_cases hr : rel
  · rw [hC hr]
    by_cases hok : lexLt plru x.2.1 = true <;> simp [hr, hok]
  · simp [hr]

theorem slot_ite (c : Prop) [Decidable c] (X' X : List Item) (f : Item → Bool)
    (h : ¬ c → X' = X.filter f) : (if c then [] else X') = (if c then [] else X).filter f := by
  by_cases hc : c
  · simp [hc]
  · simp [hc, h hc]

theorem weInorderPag_resume {s : State} (start b0 : Nat) (cur0 : Bytes) (p0 : Nat) :
    ∀ (t : T) (lo hi : Option Stem) (lru : Bytes) (E : List Nat), OrdT s t lo hi → AllWf s t → Digits E →
      (b0, cur0, p0) ∈ t.weInorder s start lru (E.foldl base4Append 0) →
      t.weInorderPag s start (cmpOf p0) cur0 lru (E.foldl base4Append 0)
        = (t.weInorder s start lru (E.foldl base4Append 0)).filter (fun it => lexLt cur0 it.2.1) := by
  intro t
  induction t with
  | nil => intro _ _ _ _ _ _ _ _; simp [T.weInorderPag, T.weInorder]
  | node a l c r ihl ihc ihr =>
    intro lo hi lru E ho hw hE hmem
    have hs : SortedItems ((T.node a l c r).weInorder s start lru (E.foldl base4Append 0)) :=
      weInorder_sorted start _ lo hi lru _ ho hw
    obtain ⟨_, _, ol, or_, oc⟩ := ho
    have step : ∀ d, base4Append (E.foldl base4Append 0) d = (E ++ [d]).foldl base4Append 0 := by
      intro d; rw [List.foldl_append]; rfl
    have hE1 : Digits (E ++ [1]) := hE.append (Digits.nil.cons (by simp))
    have hE2 : Digits (E ++ [2]) := hE.append (Digits.nil.cons (by simp))
    have hE3 : Digits (E ++ [3]) := hE.append (Digits.nil.cons (by simp))
    -- the route of the token below this node
    obtain ⟨D', hD', hp0⟩ := weInorder_route start _ lru _ _ hmem
    simp only [foldl_route] at hp0
    have hcmp : cmpOf p0 = (E ++ D').map digitChar := by rw [hp0]; exact cmpOf_path _ (hE.append hD')
    have hhere : canFollowPath (cmpOf p0) (E.foldl base4Append 0) = true := by
      rw [hcmp]; exact canFollow_prefix E D' hE
    -- which digit the route starts with decides the slot
    have slot : ∀ (d : Nat) (u : T) (x : Bytes), (b0, cur0, p0) ∈ u.weInorder s start x ((E ++ [d]).foldl base4Append 0) →
        (d = 1 ∨ d = 2 ∨ d = 3) → ∃ ds, cmpOf p0 = (E ++ d :: ds).map digitChar := by
      intro d u x hm hd
      obtain ⟨ds, hds, hp⟩ := weInorder_route start u x _ _ hm
      simp only [foldl_route, List.append_assoc, List.singleton_append] at hp
      exact ⟨ds, by rw [hp]; exact cmpOf_path _ (hE.append (hds.cons hd))⟩
    simp only [T.weInorder, List.mem_append] at hmem hs
    rw [List.append_assoc] at hs
    have h1 := hs.cross
    have h23 := hs.right.cross
    simp only [T.weInorderPag, T.weInorder, hhere, Bool.true_eq_false, if_false]
    simp only [step] at hmem h1 h23 ⊢
    rcases hmem with (hm | hm) | hm
    · -- the token lies in the left subtree
      have e : ¬ a = start := by intro e; rw [if_pos e] at hm; simp at hm
      have hm' := hm
      rw [if_neg e] at hm'
      obtain ⟨ds, hc⟩ := slot 1 l lru hm' (by simp)
      refine node_assemble cur0 _ (a, lru ++ s.stemAt a, _) _ _ _ _ _ _ ?_ ?_ ?_
      · rw [if_neg e, if_neg e]; exact ihl _ _ lru _ ol hw.left hE1 hm'
      · intro _; apply weInorderPag_noprune; rw [hc]
        exact noPrune_after E ds 1 2 (by simp) (by omega) hE2
      · rw [if_neg e, if_neg e]; apply weInorderPag_noprune; rw [hc]
        exact noPrune_after E ds 1 3 (by simp) (by omega) hE3
    · have hm0 := hm
      split at hm
      · rw [List.mem_cons] at hm
        rcases hm with hm' | hm'
        · -- the token is this node: nothing at or below it is pruned
          simp only [Prod.mk.injEq] at hm'
          have hc : cmpOf p0 = E.map digitChar := by rw [hm'.2.2]; exact cmpOf_path E hE
          refine node_assemble cur0 _ (a, lru ++ s.stemAt a, _) _ _ _ _ _ _ ?_ ?_ ?_
          · apply slot_ite; intro _; apply weInorderPag_noprune; rw [hc]
            exact noPrune_beyond E [1] hE1
          · intro _; apply weInorderPag_noprune; rw [hc]
            exact noPrune_beyond E [2] hE2
          · apply slot_ite; intro _; apply weInorderPag_noprune; rw [hc]
            exact noPrune_beyond E [3] hE3
        · -- the token lies in the child subtree: the left subtree is pruned, and it sorts before the token
          obtain ⟨ds, hc⟩ := slot 2 c _ hm' (by simp)
          refine node_assemble cur0 _ (a, lru ++ s.stemAt a, _) _ _ _ _ _ _ ?_ ?_ ?_
          · apply slot_ite; intro e
            rw [weInorderPag_pruned _ _ _ _ _ _ (by rw [hc]; exact canFollow_before E ds 2 1 (by simp) (by omega) hE1)]
            symm; apply filter_nil_of_before
            intro x hx
            exact h1 x (by rw [if_neg e]; exact hx) _ (List.mem_append_left _ hm0)
          · intro _; exact ihc _ _ _ _ oc hw.child hE2 hm'
          · apply slot_ite; intro _; apply weInorderPag_noprune; rw [hc]
            exact noPrune_after E ds 2 3 (by simp) (by omega) hE3
      · simp at hm
    · -- the token lies in the right subtree: left and child subtrees are pruned, and sort before the token
      have e : ¬ a = start := by intro e; rw [if_pos e] at hm; simp at hm
      have hm' := hm
      rw [if_neg e] at hm'
      obtain ⟨ds, hc⟩ := slot 3 r lru hm' (by simp)
      refine node_assemble cur0 _ (a, lru ++ s.stemAt a, _) _ _ _ _ _ _ ?_ ?_ ?_
      · rw [if_neg e, if_neg e]
        rw [weInorderPag_pruned _ _ _ _ _ _ (by rw [hc]; exact canFollow_before E ds 3 1 (by simp) (by omega) hE1)]
        symm; apply filter_nil_of_before
        intro x hx
        exact h1 x (by rw [if_neg e]; exact hx) _ (List.mem_append_right _ hm)
      · intro hrel
        rw [weInorderPag_pruned _ _ _ _ _ _ (by rw [hc]; exact canFollow_before E ds 3 2 (by simp) (by omega) hE2)]
        symm; apply filter_nil_of_before
        intro x hx
        exact h23 x (by rw [if_pos hrel]; exact List.mem_cons_of_mem _ hx) _ hm
      · rw [if_neg e, if_neg e]; exact ihr _ _ lru _ or_ hw.right hE3 hm'

/-- RESUME: from the start node, the traversal paginated with the token of item `(b0, cur0, p0)` returns
    exactly the items of the un-paginated traversal that sort after `cur0` -/
theorem inorderGo_resume {s : State} {a : Nat} {l c r : T} {lo hi : Option Stem}
    (hr : Rep s (.node a l c r)) (ho : OrdT s (.node a l c r) lo hi) (hw : AllWf s (.node a l c r))
    (lru : Bytes) {b0 : Nat} {cur0 : Bytes} {p0 : Nat}
    (hmem : (b0, cur0, p0) ∈ (T.node a l c r).weInorder s a lru 0)
    (fuel : Nat) (hf : (T.node a l c r).height ≤ fuel) :
    s.inorderGo a (some (if p0 = 0 then [] else intToBase4 p0, cur0)) fuel a lru 0
      = ((T.node a l c r).weInorder s a lru 0).filter (fun it => lexLt cur0 it.2.1) := by
  have h1 := inorderGo_eq_weInorderPag (s := s) a (cmpOf p0) cur0 (.node a l c r) fuel lru 0 hr (by simp) hf
  have h2 := weInorderPag_resume (s := s) a b0 cur0 p0 (.node a l c r) lo hi lru [] ho hw Digits.nil hmem
  simp only [T.root_node] at h1
  exact h1.trans h2

/-- a strictly ascending list splits at any of its items into the items before it, the item, and exactly
    the items that sort after it -/
theorem sorted_split (L : List Item) (hs : SortedItems L) (tok : Item) (hm : tok ∈ L) :
    ∃ pre, L = pre ++ tok :: L.filter (fun it => lexLt tok.2.1 it.2.1) ∧
      ∀ it ∈ pre, lexLt it.2.1 tok.2.1 = true := by
  obtain ⟨pre, post, rfl⟩ := List.append_of_mem hm
  have hpre : ∀ it ∈ pre, lexLt it.2.1 tok.2.1 = true := fun it hit => hs.cross it hit tok (by simp)
  have hpost : ∀ it ∈ post, lexLt tok.2.1 it.2.1 = true := by
    have := hs.right
    unfold SortedItems at this
    rw [List.map_cons, List.pairwise_cons] at this
    intro it hit
    exact this.1 _ (List.mem_map.mpr ⟨it, hit, rfl⟩)
  refine ⟨pre, ?_, hpre⟩
  rw [List.filter_append, filter_nil_of_before _ pre hpre, List.filter_cons, lexLt_irrefl]
  simp only [Bool.false_eq_true, if_false, List.nil_append]
  rw [List.filter_eq_self.mpr (fun it hit => hpost it hit)]

/-- no repeat, no skip: the un-paginated traversal is the items before the token's item, that item, and
    then exactly the resumed traversal -/
theorem resume_no_repeat_no_skip {s : State} {a : Nat} {l c r : T} {lo hi : Option Stem}
    (hr : Rep s (.node a l c r)) (ho : OrdT s (.node a l c r) lo hi) (hw : AllWf s (.node a l c r))
    (lru : Bytes) {b0 : Nat} {cur0 : Bytes} {p0 : Nat}
    (hmem : (b0, cur0, p0) ∈ (T.node a l c r).weInorder s a lru 0)
    (fuel : Nat) (hf : (T.node a l c r).height ≤ fuel) :
    ∃ pre, (T.node a l c r).weInorder s a lru 0
        = pre ++ (b0, cur0, p0) :: s.inorderGo a (some (if p0 = 0 then [] else intToBase4 p0, cur0)) fuel a lru 0 ∧
      ∀ it ∈ pre, lexLt it.2.1 cur0 = true := by
  rw [inorderGo_resume hr ho hw lru hmem fuel hf]
  exact sorted_split _ (weInorder_sorted a _ lo hi lru 0 ho hw) _ hmem

/-- the same as a partition by the pivot `cur0`: (items with lru ≤ cur0) ++ resumed -/
theorem resume_partition {s : State} {a : Nat} {l c r : T} {lo hi : Option Stem}
    (hr : Rep s (.node a l c r)) (ho : OrdT s (.node a l c r) lo hi) (hw : AllWf s (.node a l c r))
    (lru : Bytes) {b0 : Nat} {cur0 : Bytes} {p0 : Nat}
    (hmem : (b0, cur0, p0) ∈ (T.node a l c r).weInorder s a lru 0)
    (fuel : Nat) (hf : (T.node a l c r).height ≤ fuel) :
    (T.node a l c r).weInorder s a lru 0
      = ((T.node a l c r).weInorder s a lru 0).filter (fun it => !lexLt cur0 it.2.1)
        ++ s.inorderGo a (some (if p0 = 0 then [] else intToBase4 p0, cur0)) fuel a lru 0 := by
  obtain ⟨pre, he, hpre⟩ := resume_no_repeat_no_skip hr ho hw lru hmem fuel hf
  have hres := inorderGo_resume hr ho hw lru hmem fuel hf
  generalize s.inorderGo a (some (if p0 = 0 then [] else intToBase4 p0, cur0)) fuel a lru 0 = res at he hres
  generalize (T.node a l c r).weInorder s a lru 0 = L at he hres
  have hpost : ∀ it ∈ res, lexLt cur0 it.2.1 = true := by
    intro it hit; rw [hres] at hit; exact (List.mem_filter.mp hit).2
  subst he
  rw [List.filter_append, List.filter_cons, lexLt_irrefl]
  simp only [Bool.not_false, if_true]
  rw [List.filter_eq_self.mpr (fun it hit => by rw [lexLt_asymm (hpre it hit)]; rfl),
    List.filter_eq_nil_iff.mpr (fun it hit => by rw [hpost it hit]; simp)]
  simp

/-- end to end: `webentity_inorder_iter(start, lru, pagination_path)` with the path of an item of the
    un-paginated traversal does not raise and returns the items after that item -/
theorem weInorder_resume {s : State} {a : Nat} {l c r : T} {lo hi : Option Stem}
    (hr : Rep s (.node a l c r)) (ho : OrdT s (.node a l c r) lo hi) (hw : AllWf s (.node a l c r))
    (hsz : (T.node a l c r).size ≤ s.trie.size) (startLru : Bytes) {b0 : Nat} {cur0 : Bytes} {p0 : Nat}
    (hmem : (b0, cur0, p0) ∈ (T.node a l c r).weInorder s a (lruDirname startLru) 0) :
    s.weInorder a startLru (some p0)
      = some (((T.node a l c r).weInorder s a (lruDirname startLru) 0).filter (fun it => lexLt cur0 it.2.1)) := by
  have hh := T.height_le_size (T.node a l c r)
  have hfp := followPath_weInorder hr (lruDirname startLru) hmem
  have hres := inorderGo_resume hr ho hw (lruDirname startLru) hmem (s.trie.size + 1) (by omega)
  simp only [State.weInorder, hfp, hres]

end Traph

section
open Traph
#print axioms inorderGo_filter
#print axioms inorderGo_noprune
#print axioms inorderGo_eq_weInorderPag
#print axioms weInorderPag_resume
#print axioms inorderGo_resume
#print axioms resume_no_repeat_no_skip
#print axioms resume_partition
#print axioms weInorder_resume
end

import Proofs.AutoCreate
/-! The prefix map through the page-submitting requests (`add_pages`, `add_links`, `index_batch_crawl`,
    `add_webentity_creation_rule`): the only writes to `we` fields are the automatic creations, and each of
    them is in the report. `applyCreated M r.we` replays the reported creations on the map `M`;
    `RepOk M0 lo s rep` says the current map is `M0` with the creations accumulated in `rep` replayed.
    Headlines: `addPageCore_weMap_cases`, `addPage_created`, `addPages_created`, `addLinks_created`,
    `batch_created`, `addRule_created`; for answers that are errors (`KeyError` in the middle of a
    request) the partial effect is described by `WeGrows`. -/
namespace Traph
open State Layout

/-! ### replaying reported creations -/

/-- replay the `created_webentities` part of a write report on a prefix map -/
def applyCreated (M : LRU → Nat) (we : List (Option Nat × List Bytes)) : LRU → Nat :=
  we.foldl (fun M e => match e.1 with
    | some id => mapSetAll M (e.2.map lruIter) id
    | none => M) M

theorem applyCreated_nil (M : LRU → Nat) : applyCreated M [] = M := rfl

theorem applyCreated_append (M : LRU → Nat) (a b : List (Option Nat × List Bytes)) :
    applyCreated M (a ++ b) = applyCreated (applyCreated M a) b := by
  unfold applyCreated; rw [List.foldl_append]

theorem applyCreated_single (M : LRU → Nat) (id : Nat) (l : List Bytes) :
    applyCreated M [(some id, l)] = mapSetAll M (l.map lruIter) id := rfl

theorem applyCreated_single_none (M : LRU → Nat) (l : List Bytes) : applyCreated M [(none, l)] = M := rfl

theorem mapSetAll_congr (M : LRU → Nat) {l l' : List LRU} (v : Nat) (h : ∀ q, q ∈ l ↔ q ∈ l') :
    mapSetAll M l v = mapSetAll M l' v := by
  funext q; unfold mapSetAll
  by_cases hq : q ∈ l
  · rw [if_pos hq, if_pos ((h q).mp hq)]
  · rw [if_neg hq, if_neg (fun hx => hq ((h q).mpr hx))]

/-- setting the free ones of a list = attaching the list -/
theorem mapSetAll_freeOf (M : LRU → Nat) (ps : List Bytes) (id : Nat) :
    mapSetAll M ((freeOf M ps).map lruIter) id = mapAttach M (ps.map lruIter) id := by
  funext q
  unfold mapSetAll mapAttach
  have hmem : q ∈ (freeOf M ps).map lruIter ↔ q ∈ ps.map lruIter ∧ M q = 0 := by
    simp only [List.mem_map, mem_freeOf]
    constructor
    · rintro ⟨p, ⟨hp1, hp2⟩, rfl⟩; exact ⟨⟨p, hp1, rfl⟩, hp2⟩
    · rintro ⟨⟨p, hp1, rfl⟩, hp2⟩; exact ⟨p, ⟨hp1, hp2⟩, rfl⟩
  by_cases hq : q ∈ ps.map lruIter ∧ M q = 0
  · rw [if_pos (hmem.mpr hq), if_pos hq]
  · rw [if_neg (fun hx => hq (hmem.mp hx)), if_neg hq]

theorem dictSet_append_of_fresh {α β : Type} [DecidableEq α] : ∀ (d : List (α × β)) (k : α) (v : β),
    (∀ e ∈ d, e.1 ≠ k) → dictSet d k v = d ++ [(k, v)]
  | [], _, _, _ => rfl
  | (k', v') :: rest, k, v, h => by
    simp only [dictSet]
    rw [if_neg (h (k', v') (by simp)), dictSet_append_of_fresh rest k v (fun e he => h e (by simp [he]))]
    rfl

/-! ### the degenerate submission: a byte string without separator -/

theorem lruIterGo_nil_of_no_sep : ∀ (b cur : Bytes), sep ∉ b → lruIterGo b cur = []
  | [], _, _ => rfl
  | x :: xs, cur, h => by
    simp only [List.mem_cons, not_or] at h
    have hx : (x == sep) = false := by
      cases hb : x == sep with
      | false => rfl
      | true => exact absurd (by simpa using hb : x = sep).symm h.1
    simp only [lruIterGo, hx]
    exact lruIterGo_nil_of_no_sep xs _ h.2

theorem no_sep_of_lruIter_nil {b : Bytes} (h : lruIter b = []) : sep ∉ b :=
  fun hs => lruIter_ne_nil_of_sep hs h

theorem matchAt0_none_of_no_sep (r : Rule) (b : Bytes) (h : sep ∉ b) : r.matchAt0 b = none := by
  have hl : lruIter b = [] := lruIterGo_nil_of_no_sep b [] h
  unfold Rule.matchAt0
  cases r <;> simp only [hl]

theorem searchGo_none_of_no_sep (r : Rule) : ∀ (fuel : Nat) (b : Bytes), sep ∉ b → r.searchGo fuel b = none
  | 0, _, _ => rfl
  | fuel + 1, b, h => by
    simp only [Rule.searchGo, matchAt0_none_of_no_sep r b h]
    cases b with
    | nil => rfl
    | cons x xs =>
      simp only
      exact searchGo_none_of_no_sep r fuel xs (fun hx => h (List.mem_cons_of_mem _ hx))

theorem autoDecision_degenerate (s : State) (lru : Bytes) (h : Hist) (hl : lruIter lru = [])
    (hw : h.wePos = none) (hr : h.rules = []) : s.autoDecision lru h = some none := by
  have hs : s.dflt.search lru = none := searchGo_none_of_no_sep _ _ _ (no_sep_of_lruIter_nil hl)
  unfold State.autoDecision State.longestCandidate
  rw [hr, hw, hs]
  rfl

/-! ### one `__add_page`, summarised -/

/-- `__add_page` either fails with KeyError, or creates nothing, or creates one webentity with the next
    id that owns exactly the prefixes it reports; nothing else changes in the map -/
theorem addPageCore_weMap_cases {s : State} {t : T} (h : Shape s t) (lru : Bytes) (c : Bool) :
    ((s.addPageCore lru c).2.2 = .error (.other "KeyError") ∧ (s.addPageCore lru c).1.weMap = s.weMap ∧
      (s.addPageCore lru c).1.hdrId = s.hdrId) ∨
    (∃ r, (s.addPageCore lru c).2.2 = .ok r ∧ r.we = [] ∧ (s.addPageCore lru c).1.weMap = s.weMap ∧
      (s.addPageCore lru c).1.hdrId = s.hdrId) ∨
    (∃ r fl, (s.addPageCore lru c).2.2 = .ok r ∧ r.we = [(some (s.hdrId + 1), fl)] ∧
      (s.addPageCore lru c).1.weMap = mapSetAll s.weMap (fl.map lruIter) (s.hdrId + 1) ∧
      (∀ p ∈ fl, s.weMap (lruIter p) = 0) ∧
      (s.addPageCore lru c).1.hdrId = s.hdrId + 1) := by
  by_cases hne : lruIter lru = []
  · right; left
    have ht : s.addPageTrie (lruIter lru) c = s.addPageTrie [] c := by rw [hne]
    have hd : (s.addPageTrie (lruIter lru) c).1.autoDecision lru (s.addPageTrie (lruIter lru) c).2.2 = some none := by
      apply autoDecision_degenerate _ _ _ hne
      · rw [ht]; unfold addPageTrie; rw [addLru_nil]; simp only; split
        · rfl
        · split <;> rfl
      · rw [ht]; unfold addPageTrie; rw [addLru_nil]; simp only; split
        · rfl
        · split <;> rfl
    rw [addPageCore_eq, hd]
    exact ⟨_, rfl, rfl, weMap_addPageTrie h _ c, hdrId_addPageTrie s _ c⟩
  · cases hp : s.autoPlan lru with
    | none => exact Or.inl (addPageCore_weMap_error h lru c hne hp)
    | some o =>
      cases o with
      | none =>
        obtain ⟨⟨r, h1, h2⟩, h3, h4⟩ := addPageCore_weMap_none h lru c hne hp
        exact Or.inr (Or.inl ⟨r, h1, h2, h3, h4⟩)
      | some K =>
        obtain ⟨a1, a2⟩ := addPageCore_weMap_some h lru c hne hp
        by_cases hall : ∀ p ∈ lruVariations K, s.weMap (lruIter p) ≠ 0
        · obtain ⟨⟨r, h1, h2⟩, h3, h4⟩ := a1 hall
          exact Or.inr (Or.inl ⟨r, h1, h2, h3, h4⟩)
        · have hex : ∃ p ∈ lruVariations K, s.weMap (lruIter p) = 0 := by
            apply Classical.byContradiction
            intro hn
            apply hall
            intro p hp hz
            exact hn ⟨p, hp, hz⟩
          obtain ⟨⟨r, h1, h2⟩, h3, h4⟩ := a2 hex
          refine Or.inr (Or.inr ⟨r, _, h1, h2, ?_, fun p hp => ((mem_freeOf _ _ _).mp hp).2, h4⟩)
          rw [h3, mapSetAll_freeOf]

/-! ### the accumulated report against the map -/

/-- `M0`, `lo`: the map and the id counter when the request started; `rep`: the creations accumulated so far -/
structure RepOk (M0 : LRU → Nat) (lo : Nat) (s : State) (rep : Report) : Prop where
  map : s.weMap = applyCreated M0 rep.we
  ids : ∀ e ∈ rep.we, ∃ id, e.1 = some id ∧ id ≤ s.hdrId
  lo_le : lo ≤ s.hdrId
  old : ∀ p, M0 p ≠ 0 → s.weMap p = M0 p
  fresh : ∀ p, M0 p = 0 → s.weMap p ≠ 0 → lo < s.weMap p ∧ s.weMap p ≤ s.hdrId

theorem RepOk.init (s : State) : RepOk s.weMap s.hdrId s {} :=
  ⟨rfl, fun e he => by simp at he, Nat.le_refl _, fun _ _ => rfl, fun p h0 h1 => absurd h0 h1⟩

theorem RepOk.keep {M0 : LRU → Nat} {lo : Nat} {s s' : State} {rep : Report} (h : RepOk M0 lo s rep)
    (hw : s'.weMap = s.weMap) (hid : s.hdrId ≤ s'.hdrId) : RepOk M0 lo s' rep :=
  ⟨hw.trans h.map, fun e he => by
    obtain ⟨id, h1, h2⟩ := h.ids e he
    exact ⟨id, h1, Nat.le_trans h2 hid⟩, Nat.le_trans h.lo_le hid,
    fun p hp => by rw [hw]; exact h.old p hp,
    fun p h0 h1 => by
      rw [hw] at h1 ⊢
      obtain ⟨f1, f2⟩ := h.fresh p h0 h1
      exact ⟨f1, Nat.le_trans f2 hid⟩⟩

theorem Report.add_we_nil_wm (rep r : Report) (h : r.we = []) : (rep.add r).we = rep.we := by
  simp [Report.add, h]

theorem Report.add_we_single_wm (rep r : Report) (id : Nat) (l : List Bytes) (h : r.we = [(some id, l)]) :
    (rep.add r).we = dictSet rep.we (some id) l := by
  simp [Report.add, h]

/-- one `__add_page`: the creations accumulated so far plus the one it reports explain the map, whatever
    it answers -/
theorem RepOk.addPage {M0 : LRU → Nat} {lo : Nat} {s : State} {t : T} {rep : Report} (hr : RepOk M0 lo s rep)
    (h : Shape s t) (lru : Bytes) (c : Bool) :
    ∃ rep', RepOk M0 lo (s.addPageCore lru c).1 rep' ∧
      ∀ r, (s.addPageCore lru c).2.2 = .ok r → rep.add r = rep' := by
  rcases addPageCore_weMap_cases h lru c with ⟨e, h3, h4⟩ | ⟨r', e, h2, h3, h4⟩ | ⟨r', fl, e, h2, h3, hfl, h4⟩
  · exact ⟨rep, hr.keep h3 (by rw [h4]; exact Nat.le_refl _), fun r hok => by rw [e] at hok; cases hok⟩
  · have hk := hr.keep h3 (by rw [h4]; exact Nat.le_refl _)
    refine ⟨rep.add r', ⟨?_, fun x hx => ?_, hk.lo_le, hk.old, hk.fresh⟩, fun r hok => by rw [e] at hok; cases hok; rfl⟩
    · rw [Report.add_we_nil_wm _ _ h2, h3]; exact hr.map
    · rw [Report.add_we_nil_wm _ _ h2] at hx
      obtain ⟨id, i1, i2⟩ := hr.ids x hx
      exact ⟨id, i1, by rw [h4]; exact i2⟩
  · have hfresh : ∀ x ∈ rep.we, x.1 ≠ some (s.hdrId + 1) := by
      intro x hx hc
      obtain ⟨id, i1, i2⟩ := hr.ids x hx
      rw [i1] at hc
      simp only [Option.some.injEq] at hc
      omega
    have hwe : (rep.add r').we = rep.we ++ [(some (s.hdrId + 1), fl)] := by
      rw [Report.add_we_single_wm _ _ _ _ h2, dictSet_append_of_fresh _ _ _ hfresh]
    have hlo := hr.lo_le
    refine ⟨rep.add r', ⟨?_, fun x hx => ?_, by rw [h4]; omega, fun p hp => ?_, fun p h0 h1 => ?_⟩,
      fun r hok => by rw [e] at hok; cases hok; rfl⟩
    · rw [hwe, applyCreated_append, applyCreated_single, ← hr.map, h3]
    · rw [hwe] at hx
      rcases List.mem_append.mp hx with hx | hx
      · obtain ⟨id, i1, i2⟩ := hr.ids x hx
        exact ⟨id, i1, by rw [h4]; omega⟩
      · simp only [List.mem_singleton] at hx
        subst hx
        exact ⟨_, rfl, by rw [h4]; exact Nat.le_refl _⟩
    · have hp' := hr.old p hp
      rw [h3]; unfold mapSetAll
      rw [if_neg, hp']
      intro hm
      obtain ⟨x, hx, rfl⟩ := List.mem_map.mp hm
      rw [hfl x hx] at hp'
      exact hp hp'.symm
    · rw [h3] at h1 ⊢
      unfold mapSetAll at h1 ⊢
      split
      · rw [h4]; omega
      · rename_i hm
        rw [if_neg hm] at h1
        obtain ⟨f1, f2⟩ := hr.fresh p h0 h1
        exact ⟨f1, by rw [h4]; omega⟩

/-! ### frames of the non-webentity writes used by the bulk requests -/

theorem weMap_markCrawled {s : State} {t : T} (h : Shape s t) (n : Nat) :
    (s.modCell n (fun c => { c with flags := { c.flags with crawled := true } })).weMap = s.weMap :=
  weMap_modCell h n _ (fun _ => ⟨rfl, rfl, rfl, rfl, rfl⟩) (fun _ => rfl)

theorem weMap_addStubsGo : ∀ (targets : List Nat) (s : State) (tail : Nat),
    (s.addStubsGo tail targets).1.weMap = s.weMap
  | [], _, _ => rfl
  | x :: ts, s, tail => by
    simp only [addStubsGo]
    rw [weMap_addStubsGo ts]
    exact weMap_trie_eq rfl

theorem weMap_addStubs {s : State} {t : T} (h : Shape s t) (page : Nat) (targets : List Nat) (out : Bool) :
    (s.addStubs page targets out).weMap = s.weMap := by
  unfold addStubs
  split
  · rfl
  · have k := keeps_addStubsGo targets s (if out then (s.cell page).out else (s.cell page).inn) t h
    simp only
    refine Eq.trans (weMap_modCell k.shape page _ ?_ ?_) (weMap_addStubsGo targets s _)
    · intro c; cases out <;> exact ⟨rfl, rfl, rfl, rfl, rfl⟩
    · intro c; cases out <;> rfl

theorem weMap_flushLists (out : Bool) (pages : List (Bytes × Nat)) :
    ∀ (l : List (Bytes × List Bytes)) (s : State) (t : T), Shape s t → (flushLists out pages s l).weMap = s.weMap
  | [], _, _, _ => rfl
  | (p, others) :: rest, s, t, h => by
    simp only [flushLists]
    have k := keeps_addStubs h ((dictGet? pages p).getD 0) (blocksOf pages others) out
    rw [weMap_flushLists out pages rest _ t k.shape, weMap_addStubs h]

/-! ### `add_pages` -/

theorem addPagesGo_rep (M0 : LRU → Nat) (lo : Nat) (always : Bool) : ∀ (ls : List Bytes) (s : State) (t : T) (c : Bool)
    (rep : Report), Shape s t → RepOk M0 lo s rep →
    ∃ rep', RepOk M0 lo (addPagesGo always s ls c rep).1 rep' ∧
      ∀ r, (addPagesGo always s ls c rep).2 = .ok r → r = rep'
  | [], s, t, c, rep, _, hr => by
    simp only [addPagesGo]
    exact ⟨rep, hr, fun r he => by cases he; rfl⟩
  | l :: ls, s, t, c, rep, h, hr => by
    obtain ⟨t1, x1, _⟩ := addPageCore_step h l c
    obtain ⟨rep1, hr1, e1⟩ := hr.addPage h l c
    rw [addPagesGo]
    split
    · rename_i s1 _ e heq
      rw [heq] at hr1
      exact ⟨rep1, hr1, fun r he => by cases he⟩
    · rename_i s1 n r1 heq
      rw [heq] at x1 hr1 e1
      simp only at x1 hr1 e1
      have e1' := e1 r1 rfl
      subst e1'
      have x2 : Ext s1 t1 (if always = true then s1.modCell n (fun c => { c with flags := { c.flags with crawled := true } }) else s1) t1 := by
        split
        · exact ext_markCrawled x1.shape n
        · exact Ext.refl x1.shape
      have hr2 : RepOk M0 lo (if always = true then s1.modCell n (fun c => { c with flags := { c.flags with crawled := true } }) else s1) (rep.add r1) := by
        split
        · exact hr1.keep (weMap_markCrawled x1.shape n) (by rw [hdrId_modCell]; exact Nat.le_refl _)
        · exact hr1
      exact addPagesGo_rep M0 lo always ls _ t1 c _ x2.shape hr2

/-! ### the page cache of `add_links` / `index_batch_crawl` -/

theorem ensurePageCached_rep (M0 : LRU → Nat) (lo : Nat) {s : State} {t : T} (h : Shape s t) (acc : LinkAcc) (l : Bytes)
    (c : Bool) (hr : RepOk M0 lo s acc.rep) :
    ∃ rep', RepOk M0 lo (s.ensurePageCached acc l c).1 rep' ∧
      ∀ acc', (s.ensurePageCached acc l c).2 = .ok acc' → acc'.rep = rep' := by
  obtain ⟨rep1, hr1, e1⟩ := hr.addPage h l c
  unfold ensurePageCached
  split
  · exact ⟨acc.rep, hr, fun acc' he => by cases he; rfl⟩
  · split
    · rename_i s1 _ e heq
      rw [heq] at hr1
      exact ⟨rep1, hr1, fun acc' he => by cases he⟩
    · rename_i s1 n r heq
      rw [heq] at hr1 e1
      exact ⟨rep1, hr1, fun acc' he => by cases he; exact e1 r rfl⟩

theorem shape_ensurePageCached {s : State} {t : T} (h : Shape s t) (acc : LinkAcc) (l : Bytes) (c : Bool) :
    ∃ t', Shape (s.ensurePageCached acc l c).1 t' := by
  obtain ⟨t', x, _⟩ := ensurePageCached_step h acc l c
  exact ⟨t', x.shape⟩

/-! ### `add_links` -/

theorem addLinksScan_rep (M0 : LRU → Nat) (lo : Nat) : ∀ (links : List (Bytes × Bytes)) (s : State) (t : T) (acc : LinkAcc),
    Shape s t → RepOk M0 lo s acc.rep →
    ∃ rep', RepOk M0 lo (addLinksScan s links acc).1 rep' ∧
      ∀ acc', (addLinksScan s links acc).2 = .ok acc' → acc'.rep = rep'
  | [], s, t, acc, _, hr => by
    simp only [addLinksScan]
    exact ⟨acc.rep, hr, fun acc' he => by cases he; rfl⟩
  | (src, tgt) :: rest, s, t, acc, h, hr => by
    obtain ⟨t1, h1⟩ := shape_ensurePageCached h acc src false
    obtain ⟨rep1, hr1, e1⟩ := ensurePageCached_rep M0 lo h acc src false hr
    rw [addLinksScan]
    split
    · rename_i s1 e heq
      rw [heq] at hr1
      exact ⟨rep1, hr1, fun acc' he => by cases he⟩
    · rename_i s1 acc1 heq
      rw [heq] at hr1 e1 h1
      simp only at hr1 e1 h1
      have := e1 acc1 rfl
      subst this
      obtain ⟨t2, h2⟩ := shape_ensurePageCached h1 acc1 tgt false
      obtain ⟨rep2, hr2, e2⟩ := ensurePageCached_rep M0 lo h1 acc1 tgt false hr1
      split
      · rename_i s2 e heq2
        rw [heq2] at hr2
        exact ⟨rep2, hr2, fun acc' he => by cases he⟩
      · rename_i s2 acc2 heq2
        rw [heq2] at hr2 e2 h2
        simp only at hr2 e2 h2
        have := e2 acc2 rfl
        subst this
        exact addLinksScan_rep M0 lo rest s2 t2
          { acc2 with outl := multiAdd acc2.outl src tgt, inl := multiAdd acc2.inl tgt src } h2 hr2

theorem addLinks_rep (M0 : LRU → Nat) (lo : Nat) {s : State} {t : T} (h : Shape s t) (links : List (Bytes × Bytes))
    (hr : RepOk M0 lo s {}) :
    ∃ rep', RepOk M0 lo (s.addLinks links).1 rep' ∧ ∀ r, (s.addLinks links).2 = .ok r → r = rep' := by
  obtain ⟨t1, x1, _⟩ := addLinksScan_step links s t {} h
  obtain ⟨rep1, hr1, e1⟩ := addLinksScan_rep M0 lo links s t {} h hr
  unfold addLinks
  split
  · rename_i s1 e heq
    rw [heq] at hr1
    exact ⟨rep1, hr1, fun r he => by cases he⟩
  · rename_i s1 acc heq
    rw [heq] at hr1 e1 x1
    simp only at hr1 e1 x1 ⊢
    have := e1 acc rfl
    subst this
    have k2 := keeps_flushLists true acc.pages acc.outl s1 t1 x1.shape
    refine ⟨acc.rep, ?_, fun r he => by cases he; rfl⟩
    refine hr1.keep ?_ (by rw [hdrId_flushLists, hdrId_flushLists]; exact Nat.le_refl _)
    rw [weMap_flushLists false acc.pages acc.inl _ t1 k2.shape, weMap_flushLists true acc.pages acc.outl s1 t1 x1.shape]

/-! ### `index_batch_crawl` -/

theorem batchTargets_rep (M0 : LRU → Nat) (lo : Nat) : ∀ (ts : List Bytes) (s : State) (t : T) (src : Bytes) (acc : LinkAcc)
    (tb : List Nat), Shape s t → RepOk M0 lo s acc.rep →
    ∃ rep', RepOk M0 lo (batchTargets s src ts acc tb).1 rep' ∧
      ∀ r, (batchTargets s src ts acc tb).2 = .ok r → r.1.rep = rep'
  | [], s, t, src, acc, tb, _, hr => by
    simp only [batchTargets]
    exact ⟨acc.rep, hr, fun r he => by cases he; rfl⟩
  | x :: ts, s, t, src, acc, tb, h, hr => by
    obtain ⟨t1, h1⟩ := shape_ensurePageCached h acc x false
    obtain ⟨rep1, hr1, e1⟩ := ensurePageCached_rep M0 lo h acc x false hr
    rw [batchTargets]
    split
    · rename_i s1 e heq
      rw [heq] at hr1
      exact ⟨rep1, hr1, fun r he => by cases he⟩
    · rename_i s1 acc1 heq
      rw [heq] at hr1 e1 h1
      simp only at hr1 e1 h1
      have := e1 acc1 rfl
      subst this
      exact batchTargets_rep M0 lo ts s1 t1 src { acc1 with inl := multiAdd acc1.inl x src }
        (tb ++ [(dictGet? acc1.pages x).getD 0]) h1 hr1

theorem sourceStep_rep (M0 : LRU → Nat) (lo : Nat) {s : State} {t : T} (h : Shape s t) (acc : LinkAcc) (src : Bytes)
    (hr : RepOk M0 lo s acc.rep) :
    ∃ rep', RepOk M0 lo (sourceStep s acc src).1 rep' ∧
      ∀ acc', (sourceStep s acc src).2 = .ok acc' → acc'.rep = rep' := by
  unfold sourceStep
  split
  · exact ensurePageCached_rep M0 lo h acc src true hr
  · rename_i n heq
    split
    · exact ⟨acc.rep, hr.keep (weMap_markCrawled h n) (by rw [hdrId_modCell]; exact Nat.le_refl _),
        fun acc' he => by cases he; rfl⟩
    · exact ⟨acc.rep, hr, fun acc' he => by cases he; rfl⟩

theorem batchSources_rep (M0 : LRU → Nat) (lo : Nat) : ∀ (data : List (Bytes × List Bytes)) (s : State) (t : T)
    (acc : LinkAcc), Shape s t → RepOk M0 lo s acc.rep →
    ∃ rep', RepOk M0 lo (batchSources s data acc).1 rep' ∧
      ∀ acc', (batchSources s data acc).2 = .ok acc' → acc'.rep = rep'
  | [], s, t, acc, _, hr => by
    simp only [batchSources]
    exact ⟨acc.rep, hr, fun acc' he => by cases he; rfl⟩
  | (src, tgts) :: rest, s, t, acc, h, hr => by
    obtain ⟨t1, x1, _⟩ := sourceStep_step h acc src
    obtain ⟨rep1, hr1, e1⟩ := sourceStep_rep M0 lo h acc src hr
    rw [batchSources_cons_ps]
    split
    · rename_i s1 e heq
      rw [heq] at hr1
      exact ⟨rep1, hr1, fun acc' he => by cases he⟩
    · rename_i s1 acc1 heq
      rw [heq] at hr1 e1 x1
      simp only at hr1 e1 x1
      have := e1 acc1 rfl
      subst this
      obtain ⟨t2, x2, _⟩ := batchTargets_step tgts s1 t1 src acc1 [] x1.shape
      obtain ⟨rep2, hr2, e2⟩ := batchTargets_rep M0 lo tgts s1 t1 src acc1 [] x1.shape hr1
      split
      · rename_i s2 e heq2
        rw [heq2] at hr2
        exact ⟨rep2, hr2, fun acc' he => by cases he⟩
      · rename_i s2 acc2 tb heq2
        rw [heq2] at hr2 e2 x2
        simp only at hr2 e2 x2
        have := e2 (acc2, tb) rfl
        simp only at this
        subst this
        have k3 := keeps_addStubs x2.shape ((dictGet? acc2.pages src).getD 0) tb true
        exact batchSources_rep M0 lo rest _ t2 acc2 k3.shape
          (hr2.keep (weMap_addStubs x2.shape _ _ _) (by rw [hdrId_addStubs]; exact Nat.le_refl _))

theorem batch_rep (M0 : LRU → Nat) (lo : Nat) {s : State} {t : T} (h : Shape s t) (data : List (Bytes × List Bytes))
    (hr : RepOk M0 lo s {}) :
    ∃ rep', RepOk M0 lo (s.batch data).1 rep' ∧ ∀ r, (s.batch data).2 = .ok r → r = rep' := by
  obtain ⟨t1, x1, _⟩ := batchSources_step data s t {} h
  obtain ⟨rep1, hr1, e1⟩ := batchSources_rep M0 lo data s t {} h hr
  unfold batch
  split
  · rename_i s1 e heq
    rw [heq] at hr1
    exact ⟨rep1, hr1, fun r he => by cases he⟩
  · rename_i s1 acc heq
    rw [heq] at hr1 e1 x1
    simp only at hr1 e1 x1 ⊢
    have := e1 acc rfl
    subst this
    refine ⟨acc.rep, ?_, fun r he => by cases he; rfl⟩
    exact hr1.keep (weMap_flushLists false acc.pages acc.inl s1 t1 x1.shape)
      (by rw [hdrId_flushLists]; exact Nat.le_refl _)

/-! ### `add_webentity_creation_rule` -/

theorem ruleVisit_rep (M0 : LRU → Nat) (lo : Nat) {s : State} {t : T} (h : Shape s t) (b : Nat) (lru : Bytes) (rep : Report)
    (hr : RepOk M0 lo s rep) :
    ∃ rep', RepOk M0 lo (ruleVisit s b lru rep).1 rep' ∧ ∀ r, (ruleVisit s b lru rep).2 = .ok r → r = rep' := by
  unfold ruleVisit
  split
  · obtain ⟨rep1, hr1, e1⟩ := hr.addPage h (lru ++ s.stemAt b) false
    split
    · rename_i s1 _ e heq
      rw [heq] at hr1
      exact ⟨rep1, hr1, fun r he => by cases he⟩
    · rename_i s1 _ r1 heq
      rw [heq] at hr1 e1
      exact ⟨rep1, hr1, fun r he => by cases he; exact e1 r1 rfl⟩
  · exact ⟨rep, hr, fun r he => by cases he; rfl⟩

theorem addRuleLoop_rep (M0 : LRU → Nat) (lo : Nat) (start : Nat) : ∀ (fuel : Nat) (s : State) (t : T)
    (stack : List (Nat × Bytes)) (rep : Report), Shape s t → RepOk M0 lo s rep →
    ∃ rep', RepOk M0 lo (addRuleLoop start fuel s stack rep).1 rep' ∧
      ∀ r, (addRuleLoop start fuel s stack rep).2 = .ok r → r = rep'
  | 0, s, t, stack, rep, _, hr => by
    simp only [addRuleLoop]
    exact ⟨rep, hr, fun r he => by cases he; rfl⟩
  | fuel + 1, s, t, [], rep, _, hr => by
    simp only [addRuleLoop]
    exact ⟨rep, hr, fun r he => by cases he; rfl⟩
  | fuel + 1, s, t, (b, lru) :: stack, rep, h, hr => by
    obtain ⟨t1, x1, _⟩ := ruleVisit_step h b lru rep
    obtain ⟨rep1, hr1, e1⟩ := ruleVisit_rep M0 lo h b lru rep hr
    rw [addRuleLoop_succ_cons]
    split
    · rename_i s1 e heq
      rw [heq] at hr1
      exact ⟨rep1, hr1, fun r he => by cases he⟩
    · rename_i s1 r1 heq
      rw [heq] at hr1 e1 x1
      simp only at hr1 e1 x1
      have := e1 r1 rfl
      subst this
      exact addRuleLoop_rep M0 lo start fuel s1 t1 _ r1 x1.shape hr1

theorem addRule_rep {s : State} {t : T} (h : Shape s t) (anchor : Bytes) (r : Rule) (w : Bool) :
    ∃ rep', RepOk s.weMap s.hdrId (s.addRule anchor r w).1 rep' ∧ ∀ rp, (s.addRule anchor r w).2 = .ok rp → rp = rep' := by
  have k0 : Keeps s t { s with rules := dictSet s.rules anchor r } t := Keeps.of_trie_eq h rfl
  have w0 : ({ s with rules := dictSet s.rules anchor r } : State).weMap = s.weMap := weMap_trie_eq rfl
  obtain ⟨t1, k1, _⟩ := keeps_addLruIter k0.shape anchor false
  have w1 := weMap_addLru k0.shape (lruIter anchor) false
  have i1 := hdrId_addLru { s with rules := dictSet s.rules anchor r } (lruIter anchor) false
  rcases ha : State.addLru { s with rules := dictSet s.rules anchor r } (lruIter anchor) false with ⟨s1, n, hh⟩
  rw [ha] at k1 w1 i1
  simp only at k1 w1 i1
  simp only [addRule, ha]
  split
  · exact ⟨{}, (RepOk.init s).keep w0 (Nat.le_refl _), fun rp he => by cases he; rfl⟩
  · have k2 := keeps_setRule k1.shape n true
    have w2 : (s1.modCell n (fun c => { c with flags := { c.flags with rule := true } })).weMap = s1.weMap :=
      weMap_modCell k1.shape n _ (fun _ => ⟨rfl, rfl, rfl, rfl, rfl⟩) (fun _ => rfl)
    have hr2 : RepOk s.weMap s.hdrId (s1.modCell n (fun c => { c with flags := { c.flags with rule := true } })) {} :=
      (RepOk.init s).keep (w2.trans (w1.trans w0)) (by rw [hdrId_modCell, i1]; exact Nat.le_refl _)
    exact addRuleLoop_rep s.weMap s.hdrId n _ _ t1 _ {} k2.shape hr2

end Traph

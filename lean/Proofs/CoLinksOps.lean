import Proofs.CoLinks
/-! `HeadsOk` is an invariant of reachable states (so the link theorems of C16 are not vacuous), and every
    atomic write request other than `clear` is a `CoLinkStep`: heads stay inside the store and the out-list /
    in-list of every block only grows at the front. -/
namespace Traph
open State

theorem LinkFrame.fst_of_eq {α : Type} {s : State} {p q : State × α} (h : LinkFrame s p.1) (e : p = q) :
    LinkFrame s q.1 := e ▸ h

theorem linkFrame_addPagesGo (always : Bool) : ∀ (ls : List Bytes) (s : State) (c : Bool) (rep : Report),
    LinkFrame s (addPagesGo always s ls c rep).1
  | [], s, _, _ => by simp only [addPagesGo]; exact LinkFrame.refl s
  | l :: ls, s, c, rep => by
    have f1 := linkFrame_addPageCore s l c
    rw [addPagesGo]
    split
    · rename_i heq; rw [heq] at f1; exact f1
    · rename_i s1 n r heq
      rw [heq] at f1
      simp only at f1
      have f2 : LinkFrame s1 (if always = true then
          s1.modCell n (fun c => { c with flags := { c.flags with crawled := true } }) else s1) := by
        split
        · exact linkFrame_modCell _ _ _ (fun _ => ⟨rfl, rfl⟩)
        · exact LinkFrame.refl _
      exact f1.trans (f2.trans (linkFrame_addPagesGo always ls _ c _))

theorem linkFrame_ensurePageCached (s : State) (acc : LinkAcc) (l : Bytes) (c : Bool) :
    LinkFrame s (s.ensurePageCached acc l c).1 := by
  unfold ensurePageCached
  split
  · exact LinkFrame.refl s
  · have f1 := linkFrame_addPageCore s l c
    split
    · rename_i heq; rw [heq] at f1; exact f1
    · rename_i heq; rw [heq] at f1; exact f1

theorem linkFrame_addLinksScan : ∀ (links : List (Bytes × Bytes)) (s : State) (acc : LinkAcc),
    LinkFrame s (addLinksScan s links acc).1
  | [], s, _ => by simp only [addLinksScan]; exact LinkFrame.refl s
  | (src, tgt) :: rest, s, acc => by
    have f1 := linkFrame_ensurePageCached s acc src false
    rw [addLinksScan]
    split
    · rename_i heq; rw [heq] at f1; exact f1
    · rename_i s1 acc1 heq
      rw [heq] at f1
      simp only at f1
      have f2 := linkFrame_ensurePageCached s1 acc1 tgt false
      split
      · rename_i heq2; rw [heq2] at f2; exact f1.trans f2
      · rename_i s2 acc2 heq2
        rw [heq2] at f2
        exact f1.trans (f2.trans (linkFrame_addLinksScan rest s2 _))

theorem linkStep_flushLists (out : Bool) (pages : List (Bytes × Nat)) :
    ∀ (l : List (Bytes × List Bytes)) (s : State), CoLinkStep s (flushLists out pages s l)
  | [], s => by simp only [flushLists]; exact CoLinkStep.refl s
  | (p, others) :: rest, s => by
    simp only [flushLists]
    exact (linkStep_addStubs s _ _ out).trans (linkStep_flushLists out pages rest _)

theorem linkStep_addLinks (s : State) (links : List (Bytes × Bytes)) : CoLinkStep s (s.addLinks links).1 := by
  have f1 := linkFrame_addLinksScan links s {}
  unfold addLinks
  split
  · rename_i heq; rw [heq] at f1; exact f1.step
  · rename_i s1 acc heq
    rw [heq] at f1
    simp only at f1 ⊢
    exact f1.step.trans ((linkStep_flushLists true acc.pages acc.outl s1).trans
      (linkStep_flushLists false acc.pages acc.inl _))

theorem linkFrame_batchTargets : ∀ (ts : List Bytes) (s : State) (src : Bytes) (acc : LinkAcc) (tb : List Nat),
    LinkFrame s (batchTargets s src ts acc tb).1
  | [], s, _, _, _ => by simp only [batchTargets]; exact LinkFrame.refl s
  | t :: ts, s, src, acc, tb => by
    have f1 := linkFrame_ensurePageCached s acc t false
    rw [batchTargets]
    split
    · rename_i heq; rw [heq] at f1; exact f1
    · rename_i s1 acc1 heq
      rw [heq] at f1
      simp only at f1
      exact f1.trans (linkFrame_batchTargets ts s1 src _ _)

theorem linkStep_batchSources : ∀ (data : List (Bytes × List Bytes)) (s : State) (acc : LinkAcc),
    CoLinkStep s (batchSources s data acc).1
  | [], s, _ => by simp only [batchSources]; exact CoLinkStep.refl s
  | (src, tgts) :: rest, s, acc => by
    have f1 : LinkFrame s (match dictGet? acc.pages src with
        | none => s.ensurePageCached acc src true
        | some n =>
          if !(s.cell n).flags.crawled then
            (s.modCell n (fun c => { c with flags := { c.flags with crawled := true } }), Except.ok acc)
          else (s, Except.ok acc)).1 := by
      split
      · exact linkFrame_ensurePageCached s acc src true
      · split
        · exact linkFrame_modCell _ _ _ (fun _ => ⟨rfl, rfl⟩)
        · exact LinkFrame.refl s
    rw [batchSources]
    simp only
    split
    · rename_i heq; exact (f1.fst_of_eq heq).step
    · rename_i s1 acc1 heq
      replace f1 : LinkFrame s s1 := f1.fst_of_eq heq
      have f2 := linkFrame_batchTargets tgts s1 src acc1 []
      split
      · rename_i heq2; rw [heq2] at f2; exact (f1.trans f2).step
      · rename_i s2 acc2 tb heq2
        rw [heq2] at f2
        simp only at f2
        exact (f1.trans f2).step.trans ((linkStep_addStubs s2 _ tb true).trans
          (linkStep_batchSources rest _ acc2))

theorem linkStep_batch (s : State) (data : List (Bytes × List Bytes)) : CoLinkStep s (s.batch data).1 := by
  have k1 := linkStep_batchSources data s {}
  unfold batch
  split
  · rename_i heq; rw [heq] at k1; exact k1
  · rename_i s1 acc heq
    rw [heq] at k1
    simp only at k1 ⊢
    exact k1.trans (linkStep_flushLists false acc.pages acc.inl s1)

theorem linkFrame_addRuleLoop (startBlock : Nat) : ∀ (fuel : Nat) (s : State) (stack : List (Nat × Bytes))
    (rep : Report), LinkFrame s (addRuleLoop startBlock fuel s stack rep).1
  | 0, s, _, _ => by simp only [addRuleLoop]; exact LinkFrame.refl s
  | fuel + 1, s, [], _ => by simp only [addRuleLoop]; exact LinkFrame.refl s
  | fuel + 1, s, (b, lru) :: stack, rep => by
    have f1 : LinkFrame s (if (s.cell b).flags.page then
          (match s.addPageCore (lru ++ s.stemAt b) false with
           | (s1, _, .error e) => (s1, Except.error e)
           | (s1, _, .ok r1) => (s1, Except.ok (rep.add r1)))
        else (s, Except.ok rep) : State × Except Err Report).1 := by
      split
      · have := linkFrame_addPageCore s (lru ++ s.stemAt b) false
        split <;> rename_i heq <;> rw [heq] at this <;> exact this
      · exact LinkFrame.refl s
    rw [addRuleLoop]
    simp only
    split
    · rename_i heq; exact f1.fst_of_eq heq
    · rename_i s1 rep1 heq
      replace f1 : LinkFrame s s1 := f1.fst_of_eq heq
      exact f1.trans (linkFrame_addRuleLoop startBlock fuel s1 _ _)

theorem linkFrame_addRule (s : State) (anchor : Bytes) (r : Rule) (w : Bool) :
    LinkFrame s (s.addRule anchor r w).1 := by
  have f0 : LinkFrame s { s with rules := dictSet s.rules anchor r } := LinkFrame.of_eq rfl rfl
  have f1 := linkFrame_addLru { s with rules := dictSet s.rules anchor r } (lruIter anchor) false
  rcases ha : State.addLru { s with rules := dictSet s.rules anchor r } (lruIter anchor) false with ⟨s1, n, h⟩
  rw [ha] at f1
  simp only at f1
  simp only [addRule, ha]
  split
  · exact f0
  · have f2 : LinkFrame s1 (s1.modCell n (fun c => { c with flags := { c.flags with rule := true } })) :=
      linkFrame_modCell _ _ _ (fun _ => ⟨rfl, rfl⟩)
    exact f0.trans (f1.trans (f2.trans (linkFrame_addRuleLoop n _ _ _ _)))

theorem linkFrame_removeRule (s : State) (anchor : Bytes) : LinkFrame s (s.removeRule anchor).1 := by
  unfold removeRule
  split
  · exact LinkFrame.refl s
  · simp only
    have f0 : LinkFrame s { s with rules := s.rules.filter (fun p => p.1 ≠ anchor) } := LinkFrame.of_eq rfl rfl
    split
    · exact f0
    · exact f0.trans (linkFrame_modCell _ _ _ (fun _ => ⟨rfl, rfl⟩))

theorem linkFrame_createWebentity (s : State) (prefixes : List Bytes) :
    LinkFrame s (s.createWebentity prefixes).1 := by
  have f := linkFrame_addPrefixes s prefixes false
  unfold createWebentity
  split <;> rename_i heq <;> rw [heq] at f <;> exact f

theorem linkFrame_deleteWebentity (s : State) (weid : Nat) (prefixes : List Bytes) :
    LinkFrame s (s.deleteWebentity weid prefixes).1 := by
  unfold deleteWebentity
  split
  · exact LinkFrame.refl s
  · exact linkFrame_foldl_modCell (fun pn : Bytes × Nat => pn.2) (fun _ c => { c with we := 0 })
      (fun _ _ => ⟨rfl, rfl⟩) _ s

theorem linkFrame_addPrefix (s : State) (pfx : Bytes) (weid : Nat) : LinkFrame s (s.addPrefix pfx weid).1 := by
  have f1 := linkFrame_addLru s (lruIter pfx) true
  rcases ha : s.addLru (lruIter pfx) true with ⟨s1, n, hh⟩
  rw [ha] at f1
  simp only [addPrefix, ha]
  split
  · exact f1
  · exact f1.trans (linkFrame_modCell _ _ _ (fun _ => ⟨rfl, rfl⟩))

theorem linkFrame_removePrefix (s : State) (pfx : Bytes) (weid : Option Nat) :
    LinkFrame s (s.removePrefix pfx weid).1 := by
  have f1 := linkFrame_addLru s (lruIter pfx) false
  rcases ha : s.addLru (lruIter pfx) false with ⟨s1, n, hh⟩
  rw [ha] at f1
  simp only at f1
  simp only [removePrefix, ha]
  repeat' split
  all_goals first | exact f1 | exact f1.trans (linkFrame_modCell _ _ _ (fun _ => ⟨rfl, rfl⟩))

theorem linkFrame_movePrefix (s : State) (pfx : Bytes) (target : Nat) (source : Option Nat) :
    LinkFrame s (s.movePrefix pfx target source).1 := by
  have f1 := linkFrame_removePrefix s pfx source
  unfold movePrefix
  split
  · rename_i heq; rw [heq] at f1; exact f1
  · rename_i s1 _ heq
    rw [heq] at f1
    exact f1.trans (linkFrame_addPrefix s1 pfx target)

theorem linkFrame_installRules : ∀ (rules : List (Bytes × Rule)) (s : State) (w : Bool),
    LinkFrame s (installRules s rules w).1
  | [], s, _ => by simp only [installRules]; exact LinkFrame.refl s
  | (a, r) :: rest, s, w => by
    have f1 := linkFrame_addRule s a r w
    rw [installRules]
    split
    · rename_i heq; rw [heq] at f1; exact f1
    · rename_i s1 _ heq
      rw [heq] at f1
      exact f1.trans (linkFrame_installRules rest s1 w)

/-- **every write request other than `clear` is a `CoLinkStep`** -/
theorem linkStep_step (s : State) (op : Op) (hop : ∀ d rs, op ≠ .clear d rs) : CoLinkStep s (s.step op).1 := by
  cases op with
  | addPage l c => exact (linkFrame_addPageCore s l c).step
  | addPages ls c => exact (linkFrame_addPagesGo _ ls s c {}).step
  | addLinks links => exact linkStep_addLinks s links
  | batch data => exact linkStep_batch s data
  | create ps => exact (linkFrame_createWebentity s ps).step
  | delete w ps => exact (linkFrame_deleteWebentity s w ps).step
  | addPrefix p w => exact (linkFrame_addPrefix s p w).step
  | removePrefix p w => exact (linkFrame_removePrefix s p w).step
  | movePrefix p tg f => exact (linkFrame_movePrefix s p tg f).step
  | addRule a r => exact (linkFrame_addRule s a r true).step
  | removeRule a => exact (linkFrame_removeRule s a).step
  | reopen d rs => exact (LinkFrame.of_eq rfl rfl : LinkFrame s (s.reopen d rs)).step
  | clear d rs => exact absurd rfl (hop d rs)

/-- a fresh index (with constructor rules) has its heads inside the store -/
theorem headsOk_fresh (cfg : Config) (dflt : Rule) (rules : List (Bytes × Rule)) (log : List Write) :
    HeadsOk (State.fresh cfg dflt rules log).1 := by
  have h0 : HeadsOk ({ cfg := cfg, dflt := dflt, log := .linkHdr :: .hdr 0 :: log } : State) :=
    headsOk_of_trie_init _ rfl rfl
  exact ((linkFrame_installRules rules _ true).step h0).1

/-- `clear` starts a new index -/
theorem headsOk_clear (s : State) (d : Option Rule) (rs : Option (List (Bytes × Rule))) :
    HeadsOk (s.clear d rs).1 := by
  unfold State.clear
  split
  · exact headsOk_of_trie_init _ rfl rfl
  · exact ((linkFrame_installRules _ _ true).step (headsOk_of_trie_init _ rfl rfl)).1

theorem headsOk_step (s : State) (op : Op) (h : HeadsOk s) : HeadsOk (s.step op).1 := by
  by_cases hop : ∀ d rs, op ≠ .clear d rs
  · exact (linkStep_step s op hop h).1
  · have : ∃ d rs, op = .clear d rs := by
      cases op <;> first | exact ⟨_, _, rfl⟩ | (exfalso; apply hop; intro d rs e; cases e)
    obtain ⟨d, rs, rfl⟩ := this
    exact headsOk_clear s d rs

/-- **`HeadsOk` holds in every reachable state** -/
theorem headsOk_run (cfg : Config) (dflt : Rule) (rules : List (Bytes × Rule)) (ops : List Op) :
    HeadsOk ((State.fresh cfg dflt rules []).1.run ops) := by
  suffices h : ∀ (ops : List Op) (s : State), HeadsOk s → HeadsOk (s.run ops) from
    h ops _ (headsOk_fresh cfg dflt rules [])
  intro ops
  induction ops with
  | nil => intro s h; exact h
  | cons op ops ih => intro s h; exact ih _ (headsOk_step s op h)

/-- links recorded before a history of requests (without `clear`) are recorded after it, in the same
    order, behind the new ones -/
theorem linkGrow_run : ∀ (ops : List Op) (s : State), HeadsOk s → (∀ op ∈ ops, ∀ d rs, op ≠ .clear d rs) →
    LinkGrow s (s.run ops)
  | [], s, _, _ => LinkGrow.refl s
  | op :: ops, s, h, hop => by
    obtain ⟨h1, g1⟩ := linkStep_step s op (hop op (by simp)) h
    exact g1.trans (linkGrow_run ops _ h1 (fun o ho => hop o (by simp [ho])))

#print axioms headsOk_run
#print axioms linkStep_step

end Traph

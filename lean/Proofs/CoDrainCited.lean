import Proofs.CoDrainLinks
import Proofs.LinkLists
import Proofs.Small
/-! C16 — `get_webentity_outlinks_iter` / `get_webentity_inlinks_iter` drained on a fixed index =
    `get_webentity_outlinks` / `get_webentity_inlinks` (as sorted sets). The generator consumes the LAZY
    `deduped_link_nodes_iter` (one stub read per step, `already_seen`), yields once per distinct target of every list,
    and skips targets it has resolved before (`done_blocks`). Needs the link array well-formed (`LinksWf`: every stub
    points strictly backwards — an invariant of every reachable index). -/
namespace Traph
open State

/-! ### the lazy dedup iterator -/

/-- first occurrences of the elements of `l` that are not in `seen` -/
def dedupL : List Nat → List Nat → List Nat
  | _, [] => []
  | seen, x :: xs => if seen.contains x then dedupL seen xs else x :: dedupL (seen ++ [x]) xs

/-- the list from stub `p`, nothing for the null pointer -/
def walk' (s : State) (p : Nat) : List Nat := if p = 0 then [] else s.walk p

theorem walk'_unfold (s : State) (hwf : LinksWf s) (p : Nat) (hp : p ≠ 0) (st : Stub) (hh : s.links[p]? = some st) :
    walk' s p = st.target :: walk' s st.prev := by
  simp only [walk', hp, if_false]
  rw [walk_unfold' s hwf p st hh]
  by_cases h0 : st.prev = 0 <;> simp [h0]

theorem dedupNext_spec (s : State) (hwf : LinksWf s) : ∀ (fuel p : Nat) (seen : List Nat),
    (p < fuel ∨ s.links[p]? = none) → 1 ≤ fuel →
    (dedupL seen (walk' s p) = [] ∧ s.dedupNext fuel p seen = none) ∨
    (∃ t p', s.dedupNext fuel p seen = some (t, p', seen ++ [t]) ∧
      dedupL seen (walk' s p) = t :: dedupL (seen ++ [t]) (walk' s p')) := by
  intro fuel
  induction fuel with
  | zero => intro p seen _ h1; omega
  | succ f ih =>
    intro p seen hp _
    by_cases h0 : p = 0
    · left; subst h0; simp [walk', dedupL, dedupNext]
    · cases hl : s.links[p]? with
      | none =>
        left
        simp [walk', h0, walk_none s p hl, dedupL, dedupNext, hl]
      | some st =>
        have hlt : st.prev < p := by
          rcases hwf.2 p st hl with h | ⟨h, _⟩
          · exact h
          · exact absurd h h0
        have hpf : p < f + 1 := by
          rcases hp with h | h
          · exact h
          · rw [hl] at h; cases h
        rw [walk'_unfold s hwf p h0 st hl]
        by_cases hs : st.target ∈ seen
        · have := ih st.prev seen (Or.inl (by omega)) (by omega)
          simpa [dedupL, dedupNext, h0, hl, hs] using this
        · right
          exact ⟨st.target, st.prev, by simp [dedupNext, h0, hl, hs], by simp [dedupL, hs]⟩

theorem dedupL_eq_filter : ∀ (l seen : List Nat),
    dedupL seen l = (l.filter (fun x => !seen.contains x)).eraseDups := by
  intro l
  induction l with
  | nil => intro seen; simp [dedupL]
  | cons x xs ih =>
    intro seen
    by_cases hs : x ∈ seen
    · simp [dedupL, hs, ih]
    · simp only [dedupL, List.contains_eq_mem, hs, decide_false, Bool.false_eq_true, if_false, List.filter_cons,
        Bool.not_false, if_true, List.eraseDups_cons, ih, List.filter_filter]
      congr 2
      apply List.filter_congr
      intro y _
      by_cases hyx : y = x <;> by_cases hy : y ∈ seen <;> simp [hyx, hy, hs]

theorem dedupL_nil (l : List Nat) : dedupL [] l = l.eraseDups := by
  rw [dedupL_eq_filter]
  have : l.filter (fun x => !([] : List Nat).contains x) = l := by
    apply List.filter_eq_self.mpr
    intro a _
    simp
  rw [this]

theorem deduped_walk' (s : State) (head : Nat) (h0 : head ≠ 0) : s.deduped head = dedupL [] (walk' s head) := by
  rw [dedupL_nil, deduped_eq]; simp [walk', h0]

/-! ### the machine -/

section CI
variable (s : State) (out : Bool)

/-- one target of a list: resolved unless it was resolved before -/
def ciStep (acc : List Nat × List Nat) (t : Nat) : List Nat × List Nat :=
  if acc.1.contains t then acc else (acc.1 ++ [t], insertSorted (s.windupWe t) acc.2)

def ciHead (c : Cell) : Nat := if out then c.out else c.inn

/-- the targets one node contributes -/
def ciTargets (it : QItem) : List Nat :=
  if it.2.2.flags.page && ciHead out it.2.2 ≠ 0 then s.deduped (ciHead out it.2.2) else []

def ciYields (items : List QItem) : Nat := ((items.map (ciTargets s out)).map List.length).sum

def ciR (fuel N : Nat) (q : CitedSt) : Ans :=
  match citedResume fuel s q with
  | (q1, .yielded) => QSt.drain s N (.cited q1)
  | (_, .done a) => a
  | (_, .failed e) => .err e

theorem drain_ci_unfold (N : Nat) (q : CitedSt) :
    QSt.drain s (N + 1) (.cited q) = ciR s (qFuel s q.cur.prefixes.length q.cur.stack.length) N q := by
  simp only [QSt.drain, QSt.resume, ciR]
  rcases citedResume (qFuel s q.cur.prefixes.length q.cur.stack.length) s q with ⟨q1, o⟩
  cases o <;> rfl

/-- the continuation: what the machine does between two lists -/
def CiK (w : WeCur) (items : List QItem) (e : Option Err) : Prop :=
  ∀ (db weids : List Nat) (fuel N : Nat), 2 * items.length + 1 ≤ fuel → ciYields s out items < N →
    ciR s fuel N { cur := w, out := out, lnk := none, doneBlocks := db, weids := weids } =
      drainAns e (.nats ((items.flatMap (ciTargets s out)).foldl (ciStep s) (db, weids)).2)

variable (hwf : LinksWf s)
include hwf

/-- the loop over one list, from any point of the lazy iterator -/
theorem ci_list {w : WeCur} {items : List QItem} {e : Option Err} (hK : CiK s out w items e)
    (hb : items.length ≤ (s.trie.size + 2) * (w.prefixes.length + 1)) :
    ∀ (n p : Nat) (seen : List Nat), (dedupL seen (walk' s p)).length = n →
      ∀ (db weids : List Nat) (fuel N : Nat), 2 * items.length + 2 ≤ fuel → n + ciYields s out items < N →
      ciR s fuel N { cur := w, out := out, lnk := some (p, seen), doneBlocks := db, weids := weids } =
        drainAns e (.nats ((items.flatMap (ciTargets s out)).foldl (ciStep s)
          ((dedupL seen (walk' s p)).foldl (ciStep s) (db, weids))).2) := by
  intro n
  induction n with
  | zero =>
    intro p seen hlen db weids fuel N hf hN
    obtain ⟨k, rfl⟩ : ∃ k, fuel = k + 1 := ⟨fuel - 1, by omega⟩
    have hnil : dedupL seen (walk' s p) = [] := List.eq_nil_of_length_eq_zero hlen
    rcases dedupNext_spec s hwf (s.links.size + 1) p seen
        (by by_cases h : p < s.links.size + 1
            · exact Or.inl h
            · exact Or.inr (by rw [Array.getElem?_eq_none_iff]; omega)) (by omega) with ⟨_, hnone⟩ | ⟨t, p', _, hcons⟩
    · have := hK db weids k N (by omega) (by simpa using hN)
      simp only [ciR, citedResume, hnone, hnil, List.foldl_nil] at this ⊢
      exact this
    · rw [hnil] at hcons; cases hcons
  | succ n ih =>
    intro p seen hlen db weids fuel N hf hN
    obtain ⟨k, rfl⟩ : ∃ k, fuel = k + 1 := ⟨fuel - 1, by omega⟩
    obtain ⟨N', rfl⟩ : ∃ N', N = N' + 1 := ⟨N - 1, by omega⟩
    rcases dedupNext_spec s hwf (s.links.size + 1) p seen
        (by by_cases h : p < s.links.size + 1
            · exact Or.inl h
            · exact Or.inr (by rw [Array.getElem?_eq_none_iff]; omega)) (by omega) with ⟨hnil, _⟩ | ⟨t, p', hsome, hcons⟩
    · rw [hnil] at hlen; cases hlen
    · rw [hcons] at hlen ⊢
      simp only [List.length_cons, Nat.add_right_cancel_iff] at hlen
      have hq := qFuel_ge2 s w.prefixes.length w.stack.length
      simp only [List.foldl_cons]
      by_cases hd : t ∈ db
      · have hd' : db.contains t = true := by simpa using hd
        have := ih p' (seen ++ [t]) hlen db weids (qFuel s w.prefixes.length w.stack.length) N' (by omega) (by omega)
        simp only [ciR, citedResume, hsome, hd', if_true]
        rw [drain_ci_unfold, this]
        simp [ciStep, hd]
      · have hd' : db.contains t = false := by simpa using hd
        have := ih p' (seen ++ [t]) hlen (db ++ [t]) (insertSorted (s.windupWe t) weids)
          (qFuel s w.prefixes.length w.stack.length) N' (by omega) (by omega)
        simp only [ciR, citedResume, hsome, hd', Bool.false_eq_true, if_false]
        rw [drain_ci_unfold, this]
        simp [ciStep, hd]

/-- the continuation holds along every run of the cursor -/
theorem ci_K {m : Nat} {w : WeCur} {items : List QItem} {e : Option Err}
    (h : WeRuns s (s.trie.size + 3) m w items e) (hm : m ≤ s.trie.size + 3) : CiK s out w items e := by
  induction h with
  | stop m w w' hfirst =>
    intro db weids fuel N hf _
    obtain ⟨k, rfl⟩ : ∃ k, fuel = k + 1 := ⟨fuel - 1, by omega⟩
    simp only [ciR, citedResume, hfirst _ (Nat.le_trans hm (WeCur.fuel_ge s w)), drainAns, List.flatMap_nil,
      List.foldl_nil]
  | fail m w w' e hfirst =>
    intro db weids fuel N hf _
    obtain ⟨k, rfl⟩ : ∃ k, fuel = k + 1 := ⟨fuel - 1, by omega⟩
    simp only [ciR, citedResume, hfirst _ (Nat.le_trans hm (WeCur.fuel_ge s w)), drainAns]
  | item m w w' b lru c items e hfirst hrest hl ih =>
    intro db weids fuel N hf hN
    obtain ⟨k, rfl⟩ : ∃ k, fuel = k + 1 := ⟨fuel - 1, by omega⟩
    simp only [List.length_cons] at hf
    have hK' := ih (Nat.le_refl _)
    simp only [ciYields, List.map_cons, List.sum_cons] at hN
    generalize hhead : (if out then c.out else c.inn) = head
    have hnone : ciTargets s out (b, lru, c) = [] →
        ciR s (k + 1) N { cur := w, out := out, lnk := none, doneBlocks := db, weids := weids } =
          ciR s k N { cur := w', out := out, lnk := none, doneBlocks := db, weids := weids } →
        ciR s (k + 1) N { cur := w, out := out, lnk := none, doneBlocks := db, weids := weids } =
          drainAns e (.nats (((b, lru, c) :: items).flatMap (ciTargets s out) |>.foldl (ciStep s) (db, weids)).2) := by
      intro hT hstep
      rw [hstep, hK' db weids k N (by omega) (by rw [hT] at hN; simp only [ciYields]; simpa using hN)]
      simp only [List.flatMap_cons, hT, List.nil_append]
    by_cases hp : c.flags.page = true
    · by_cases hh : head = 0
      · refine hnone (by simp [ciTargets, ciHead, hhead, hh]) ?_
        simp [ciR, citedResume, hfirst _ (Nat.le_trans hm (WeCur.fuel_ge s w)), hhead, hh]
      · have hT : ciTargets s out (b, lru, c) = dedupL [] (walk' s head) := by
          simp only [ciTargets, ciHead, hhead, hp, Bool.true_and, ne_eq, hh, not_false_eq_true, decide_true, if_true]
          exact deduped_walk' s _ hh
        have := ci_list s out hwf hK' hl _ head [] rfl db weids k N (by omega)
          (by rw [hT] at hN; simp only [ciYields]; omega)
        rw [List.flatMap_cons, List.foldl_append, hT, ← this]
        simp [ciR, citedResume, hfirst _ (Nat.le_trans hm (WeCur.fuel_ge s w)), hhead, hh, hp]
    · refine hnone (by simp [ciTargets, hp]) ?_
      simp [ciR, citedResume, hfirst _ (Nat.le_trans hm (WeCur.fuel_ge s w)), hp]

end CI

/-! ### the answer as a sorted set -/

theorem cd_insertSorted_of_mem (x : Nat) : ∀ l : List Nat, StrictAsc l → x ∈ l → insertSorted x l = l
  | [], _, h => by cases h
  | y :: ys, hs, h => by
    have hy := List.pairwise_cons.mp hs
    simp only [insertSorted]
    rcases List.mem_cons.mp h with rfl | h
    · simp
    · have hlt : y < x := hy.1 x h
      have h1 : ¬x < y := by omega
      have h2 : ¬x = y := by omega
      simp only [h1, h2, if_false]
      rw [cd_insertSorted_of_mem x ys hy.2 h]

/-- skipping a target resolved before changes nothing: its webentity is in the set already -/
theorem ciStep_fold (s : State) : ∀ (L : List Nat) (db ws : List Nat), StrictAsc ws → (∀ t ∈ db, s.windupWe t ∈ ws) →
    (L.foldl (ciStep s) (db, ws)).2 = (L.map s.windupWe).foldl (fun acc x => insertSorted x acc) ws := by
  intro L
  induction L with
  | nil => intro db ws _ _; rfl
  | cons t L ih =>
    intro db ws hs hdb
    simp only [List.foldl_cons, List.map_cons]
    by_cases hd : t ∈ db
    · have : ciStep s (db, ws) t = (db, ws) := by simp [ciStep, hd]
      rw [this, cd_insertSorted_of_mem _ ws hs (hdb t hd)]
      exact ih db ws hs hdb
    · have : ciStep s (db, ws) t = (db ++ [t], insertSorted (s.windupWe t) ws) := by simp [ciStep, hd]
      rw [this]
      refine ih _ _ (insertSorted_sorted _ ws hs) (fun t' ht' => ?_)
      rw [mem_insertSorted]
      rcases List.mem_append.mp ht' with h | h
      · exact Or.inr (hdb t' h)
      · simp only [List.mem_singleton] at h
        exact Or.inl (by rw [h])

/-- **`get_webentity_outlinks_iter` / `get_webentity_inlinks_iter` drained = the atomic requests** (as sorted sets),
    for every `N` beyond the number of yield points of the request on this index -/
theorem cited_drain (s : State) (ps : List Bytes) (out : Bool) (hwf : LinksWf s) (hfin : WeFin s none ps) (N : Nat)
    (hN : ciYields s out (weItems s none ps).1 + 1 < N) :
    QSt.drain s N (.cited { cur := { prefixes := ps }, out := out }) = s.ask (.cited ps out) := by
  obtain ⟨N', rfl⟩ : ∃ N', N = N' + 1 := ⟨N - 1, by omega⟩
  rw [drain_ci_unfold]
  have hlen := weItems_length s none ps
  have hq := qFuel_ge2 s ps.length 0
  have hq2 : (s.trie.size + 2) * ps.length ≤ (s.trie.size + 2) * (ps.length + 1) := Nat.mul_le_mul_left _ (by omega)
  have := ci_K s out hwf (weRuns_init s none ps hfin) (Nat.le_refl _) [] [] (qFuel s ps.length 0) N'
    (by omega) (by omega)
  simp only [List.length_nil] at this ⊢
  rw [this, ciStep_fold s _ [] [] (by simp [StrictAsc]) (by simp)]
  simp only [State.ask, citedWebentities]
  have hF : (fun n p => ((s.weDfs n p none).filter (fun bl => (s.cell bl.1).flags.page)).flatMap (fun bl =>
        let c := s.cell bl.1
        let head := if out then c.out else c.inn
        if head ≠ 0 then (s.deduped head).map (fun t => s.windupWe t) else [])) =
      (fun n p => (s.weDfs n p none).flatMap (fun bl =>
        (fun it : QItem => (ciTargets s out it).map s.windupWe) (itemOf s bl))) := by
    funext n p
    rw [cd_filter_flatMap_if]
    congr 1
    funext bl
    simp only [ciTargets, ciHead, itemOf]
    by_cases hp : (s.cell bl.1).flags.page = true
    · by_cases hh : (if out then (s.cell bl.1).out else (s.cell bl.1).inn) = 0
      · simp [hp, hh]
      · simp [hp, hh]
    · simp [hp]
  rw [hF, forPrefixes_weItems s none (fun it : QItem => (ciTargets s out it).map s.windupWe) ps]
  cases (weItems s none ps).2 with
  | none => simp [drainAns, Ans.ofExcept, Except.map, sortDedup, List.map_flatMap]
  | some e => simp [drainAns, Ans.ofExcept, Except.map]

/-- … on every index that represents a search tree and whose stubs point backwards -/
theorem cited_drain_shape {s : State} {t : T} (h : Shape s t) (hwf : LinksWf s) (ps : List Bytes) (out : Bool)
    (hps : ∀ pf ∈ ps, lruIter pf ≠ []) :
    ∃ N0, ∀ N, N0 ≤ N → QSt.drain s N (.cited { cur := { prefixes := ps }, out := out }) = s.ask (.cited ps out) :=
  ⟨ciYields s out (weItems s none ps).1 + 2, fun N hN =>
    cited_drain s ps out hwf (weFin_of_shape h none ps hps) N (by omega)⟩

#print axioms cited_drain_shape

end Traph

import Proofs.CoRules
/-! `RulesOk` (every flagged rule anchor is a key of the RAM dictionary) holds of a fresh index whose constructor
    rules have complete LRUs as anchors, and is preserved by every atomic write request that does not take rules
    away (`remove_webentity_creation_rule`, reopening with other rules, `clear`) — so the hypothesis of the
    "no request fails" theorems of C16 is satisfied by reachable states. -/
namespace Traph
open State Layout

theorem rulesOk_of_trie_init (s : State) (ht : s.trie = #[{}]) : RulesOk s := by
  intro p b hne hnode _
  unfold State.lruNode at hnode
  rw [if_pos (by rw [ht]; decide)] at hnode
  cases hnode

theorem rulesOk_addPagesGo (always : Bool) : ∀ (ls : List Bytes) (s : State) (t : T) (c : Bool) (rep : Report),
    Shape s t → RulesOk s → RulesOk (addPagesGo always s ls c rep).1
  | [], s, t, c, rep, h, ok => by simp only [addPagesGo]; exact ok
  | l :: ls, s, t, c, rep, h, ok => by
    obtain ⟨t1, x1, _⟩ := addPageCore_step h l c
    have ok1 := rulesOk_addPageCore h l c ok
    rw [addPagesGo]
    split
    · rename_i heq; rw [heq] at ok1; exact ok1
    · rename_i s1 n r heq
      rw [heq] at ok1 x1
      simp only at ok1 x1
      have x2 : Ext s1 t1 (if always = true then s1.modCell n (fun c => { c with flags := { c.flags with crawled := true } }) else s1) t1 := by
        split
        · exact ext_markCrawled x1.shape n
        · exact Ext.refl x1.shape
      have ok2 : RulesOk (if always = true then s1.modCell n (fun c => { c with flags := { c.flags with crawled := true } }) else s1) := by
        split
        · exact rulesOk_modCell x1.shape _ _ (fun _ => ⟨rfl, rfl, rfl, rfl, rfl⟩) (fun _ => rfl) ok1
        · exact ok1
      exact rulesOk_addPagesGo always ls _ t1 c _ x2.shape ok2

theorem rulesOk_ensurePageCached {s : State} {t : T} (h : Shape s t) (acc : LinkAcc) (l : Bytes) (c : Bool)
    (ok : RulesOk s) : RulesOk (s.ensurePageCached acc l c).1 := by
  unfold ensurePageCached
  split
  · exact ok
  · have ok1 := rulesOk_addPageCore h l c ok
    split
    · rename_i heq; rw [heq] at ok1; exact ok1
    · rename_i heq; rw [heq] at ok1; exact ok1

theorem rulesOk_flushLists (out : Bool) (pages : List (Bytes × Nat)) :
    ∀ (l : List (Bytes × List Bytes)) (s : State) (t : T), Shape s t → RulesOk s → RulesOk (flushLists out pages s l)
  | [], s, t, h, ok => by simp only [flushLists]; exact ok
  | (p, others) :: rest, s, t, h, ok => by
    simp only [flushLists]
    have k := keeps_addStubs h ((dictGet? pages p).getD 0) (blocksOf pages others) out
    exact rulesOk_flushLists out pages rest _ t k.shape (rulesOk_addStubs h _ _ _ ok)

theorem rulesOk_addLinksScan : ∀ (links : List (Bytes × Bytes)) (s : State) (t : T) (acc : LinkAcc), Shape s t →
    RulesOk s → ∃ t', Shape (addLinksScan s links acc).1 t' ∧ RulesOk (addLinksScan s links acc).1
  | [], s, t, acc, h, ok => by simp only [addLinksScan]; exact ⟨t, h, ok⟩
  | (src, tgt) :: rest, s, t, acc, h, ok => by
    obtain ⟨t1, x1, _⟩ := ensurePageCached_step h acc src false
    have ok1 := rulesOk_ensurePageCached h acc src false ok
    rw [addLinksScan]
    split
    · rename_i heq; rw [heq] at ok1 x1; exact ⟨t1, x1.shape, ok1⟩
    · rename_i s1 acc1 heq
      rw [heq] at ok1 x1
      simp only at ok1 x1
      obtain ⟨t2, x2, _⟩ := ensurePageCached_step x1.shape acc1 tgt false
      have ok2 := rulesOk_ensurePageCached x1.shape acc1 tgt false ok1
      split
      · rename_i heq2; rw [heq2] at ok2 x2; exact ⟨t2, x2.shape, ok2⟩
      · rename_i s2 acc2 heq2
        rw [heq2] at ok2 x2
        exact rulesOk_addLinksScan rest s2 t2 _ x2.shape ok2

theorem rulesOk_addLinks {s : State} {t : T} (h : Shape s t) (links : List (Bytes × Bytes)) (ok : RulesOk s) :
    RulesOk (s.addLinks links).1 := by
  obtain ⟨t1, h1, ok1⟩ := rulesOk_addLinksScan links s t {} h ok
  unfold addLinks
  split
  · rename_i heq; rw [heq] at ok1; exact ok1
  · rename_i s1 acc heq
    rw [heq] at ok1 h1
    simp only at ok1 h1 ⊢
    have k2 := keeps_flushLists true acc.pages acc.outl s1 t1 h1
    exact rulesOk_flushLists false acc.pages acc.inl _ t1 k2.shape
      (rulesOk_flushLists true acc.pages acc.outl s1 t1 h1 ok1)

theorem rulesOk_batchTargets : ∀ (ts : List Bytes) (s : State) (t : T) (src : Bytes) (acc : LinkAcc) (tb : List Nat),
    Shape s t → RulesOk s → ∃ t', Shape (batchTargets s src ts acc tb).1 t' ∧ RulesOk (batchTargets s src ts acc tb).1
  | [], s, t, src, acc, tb, h, ok => by simp only [batchTargets]; exact ⟨t, h, ok⟩
  | x :: ts, s, t, src, acc, tb, h, ok => by
    obtain ⟨t1, x1, _⟩ := ensurePageCached_step h acc x false
    have ok1 := rulesOk_ensurePageCached h acc x false ok
    rw [batchTargets]
    split
    · rename_i heq; rw [heq] at ok1 x1; exact ⟨t1, x1.shape, ok1⟩
    · rename_i s1 acc1 heq
      rw [heq] at ok1 x1
      simp only at ok1 x1
      exact rulesOk_batchTargets ts s1 t1 src _ _ x1.shape ok1

theorem rulesOk_sourceStep {s : State} {t : T} (h : Shape s t) (acc : LinkAcc) (src : Bytes) (ok : RulesOk s) :
    RulesOk (sourceStep s acc src).1 := by
  unfold sourceStep
  split
  · exact rulesOk_ensurePageCached h acc src true ok
  · split
    · exact rulesOk_modCell h _ _ (fun _ => ⟨rfl, rfl, rfl, rfl, rfl⟩) (fun _ => rfl) ok
    · exact ok

theorem rulesOk_batchSources : ∀ (data : List (Bytes × List Bytes)) (s : State) (t : T) (acc : LinkAcc), Shape s t →
    RulesOk s → ∃ t', Shape (batchSources s data acc).1 t' ∧ RulesOk (batchSources s data acc).1
  | [], s, t, acc, h, ok => by simp only [batchSources]; exact ⟨t, h, ok⟩
  | (src, tgts) :: rest, s, t, acc, h, ok => by
    obtain ⟨t1, x1, _⟩ := sourceStep_step h acc src
    have ok1 := rulesOk_sourceStep h acc src ok
    rw [batchSources_cons_ps]
    split
    · rename_i heq; rw [heq] at ok1 x1; exact ⟨t1, x1.shape, ok1⟩
    · rename_i s1 acc1 heq
      rw [heq] at ok1 x1
      simp only at ok1 x1
      obtain ⟨t2, h2, ok2⟩ := rulesOk_batchTargets tgts s1 t1 src acc1 [] x1.shape ok1
      split
      · rename_i heq2; rw [heq2] at ok2 h2; exact ⟨t2, h2, ok2⟩
      · rename_i s2 acc2 tb heq2
        rw [heq2] at ok2 h2
        simp only at ok2 h2
        have k3 := keeps_addStubs h2 ((dictGet? acc2.pages src).getD 0) tb true
        exact rulesOk_batchSources rest _ t2 acc2 k3.shape (rulesOk_addStubs h2 _ _ _ ok2)

theorem rulesOk_batch {s : State} {t : T} (h : Shape s t) (data : List (Bytes × List Bytes)) (ok : RulesOk s) :
    RulesOk (s.batch data).1 := by
  obtain ⟨t1, h1, ok1⟩ := rulesOk_batchSources data s t {} h ok
  unfold batch
  split
  · rename_i heq; rw [heq] at ok1; exact ok1
  · rename_i s1 acc heq
    rw [heq] at ok1 h1
    simp only at ok1 h1 ⊢
    exact rulesOk_flushLists false acc.pages acc.inl s1 t1 h1 ok1

theorem rulesOk_addRuleLoop (start : Nat) : ∀ (fuel : Nat) (s : State) (t : T) (stack : List (Nat × Bytes))
    (rep : Report), Shape s t → RulesOk s → RulesOk (addRuleLoop start fuel s stack rep).1
  | 0, s, t, stack, rep, h, ok => by simp only [addRuleLoop]; exact ok
  | fuel + 1, s, t, [], rep, h, ok => by simp only [addRuleLoop]; exact ok
  | fuel + 1, s, t, (b, lru) :: stack, rep, h, ok => by
    obtain ⟨t1, x1, _⟩ := ruleVisit_step h b lru rep
    have ok1 : RulesOk (ruleVisit s b lru rep).1 := by
      unfold ruleVisit
      split
      · have := rulesOk_addPageCore h (lru ++ s.stemAt b) false ok
        split <;> rename_i heq <;> rw [heq] at this <;> exact this
      · exact ok
    rw [addRuleLoop_succ_cons]
    split
    · rename_i heq; rw [heq] at ok1; exact ok1
    · rename_i s1 rep1 heq
      rw [heq] at ok1 x1
      exact rulesOk_addRuleLoop start fuel s1 t1 _ rep1 x1.shape ok1

/-- `add_webentity_creation_rule(prefix, pattern)` with a complete LRU as prefix -/
theorem rulesOk_addRule {s : State} {t : T} (h : Shape s t) (anchor : Bytes) (r : Rule)
    (hne : lruIter anchor ≠ []) (hcanon : (lruIter anchor).flatten = anchor) (ok : RulesOk s) :
    RulesOk (s.addRule anchor r true).1 := by
  have ok2 := rulesOk_installAnchor h anchor r hne hcanon ok
  have k0 : Keeps s t { s with rules := dictSet s.rules anchor r } t := Keeps.of_trie_eq h rfl
  obtain ⟨t1, k1, _⟩ := keeps_addLruIter k0.shape anchor false
  rcases ha : State.addLru { s with rules := dictSet s.rules anchor r } (lruIter anchor) false with ⟨s1, n, hh⟩
  rw [ha] at k1 ok2
  simp only at k1 ok2
  simp only [addRule, ha, Bool.not_true, Bool.false_eq_true, if_false]
  have k2 := keeps_setRule k1.shape n true
  exact rulesOk_addRuleLoop n _ _ t1 _ _ k2.shape ok2

theorem rulesOk_installRules : ∀ (rules : List (Bytes × Rule)) (s : State) (t : T), Shape s t →
    (∀ ar ∈ rules, lruIter ar.1 ≠ [] ∧ (lruIter ar.1).flatten = ar.1) → RulesOk s →
    RulesOk (installRules s rules true).1
  | [], s, t, h, _, ok => by simp only [installRules]; exact ok
  | (a, r) :: rest, s, t, h, hc, ok => by
    obtain ⟨t1, x1, _⟩ := addRule_step h a r true
    have ok1 := rulesOk_addRule h a r (hc (a, r) (by simp)).1 (hc (a, r) (by simp)).2 ok
    rw [installRules]
    split
    · rename_i heq; rw [heq] at ok1; exact ok1
    · rename_i s1 _ heq
      rw [heq] at ok1 x1
      exact rulesOk_installRules rest s1 t1 x1.shape (fun ar har => hc ar (by simp [har])) ok1

/-- a fresh index whose constructor rules have complete LRUs as anchors -/
theorem rulesOk_fresh (cfg : Config) (dflt : Rule) (rules : List (Bytes × Rule)) (log : List Write)
    (hc : ∀ ar ∈ rules, lruIter ar.1 ≠ [] ∧ (lruIter ar.1).flatten = ar.1) :
    RulesOk (State.fresh cfg dflt rules log).1 := by
  have h0 : Shape ({ cfg := cfg, dflt := dflt, log := .linkHdr :: .hdr 0 :: log } : State) .nil :=
    shape_of_trie_init _ rfl
  exact rulesOk_installRules rules _ .nil h0 hc (rulesOk_of_trie_init _ rfl)

/-- the write requests that never take a rule away -/
def Op.keepsRules : Op → Prop
  | .addRule a _ => lruIter a ≠ [] ∧ (lruIter a).flatten = a
  | .removeRule _ => False
  | .reopen _ _ => False
  | .clear _ _ => False
  | _ => True

theorem rulesOk_createWebentity {s : State} {t : T} (h : Shape s t) (ps : List Bytes) (ok : RulesOk s) :
    RulesOk (s.createWebentity ps).1 := by
  have := rulesOk_addPrefixes h ps false ok
  unfold createWebentity
  split <;> rename_i heq <;> rw [heq] at this <;> exact this

theorem rulesOk_deleteWebentity {s : State} {t : T} (h : Shape s t) (w : Nat) (ps : List Bytes) (ok : RulesOk s) :
    RulesOk (s.deleteWebentity w ps).1 := by
  unfold deleteWebentity
  split
  · exact ok
  · exact rulesOk_foldl_modCell (fun pn : Bytes × Nat => pn.2) (fun _ c => { c with we := 0 })
      (fun _ _ => ⟨rfl, rfl, rfl, rfl, rfl⟩) (fun _ _ => rfl) (fun _ _ => rfl) (fun _ _ => rfl) _ s t h ok

theorem rulesOk_addPrefix {s : State} {t : T} (h : Shape s t) (p : Bytes) (w : Nat) (ok : RulesOk s) :
    RulesOk (s.addPrefix p w).1 := by
  obtain ⟨t1, k1, _⟩ := keeps_addLruIter h p true
  have ok1 := rulesOk_addLru h (lruIter p) true ok
  rcases ha : s.addLru (lruIter p) true with ⟨s1, n, hh⟩
  rw [ha] at k1 ok1
  simp only [addPrefix, ha]
  split
  · exact ok1
  · exact rulesOk_modCell k1.shape _ _ (fun _ => ⟨rfl, rfl, rfl, rfl, rfl⟩) (fun _ => rfl) ok1

theorem rulesOk_removePrefix {s : State} {t : T} (h : Shape s t) (p : Bytes) (w : Option Nat) (ok : RulesOk s) :
    RulesOk (s.removePrefix p w).1 := by
  obtain ⟨t1, k1, _⟩ := keeps_addLruIter h p false
  have ok1 := rulesOk_addLru h (lruIter p) false ok
  rcases ha : s.addLru (lruIter p) false with ⟨s1, n, hh⟩
  rw [ha] at k1 ok1
  simp only at k1 ok1
  simp only [removePrefix, ha]
  repeat' split
  all_goals first | exact ok1 | exact rulesOk_modCell k1.shape _ _ (fun _ => ⟨rfl, rfl, rfl, rfl, rfl⟩) (fun _ => rfl) ok1

theorem rulesOk_movePrefix {s : State} {t : T} (h : Shape s t) (p : Bytes) (tg : Nat) (f : Option Nat)
    (ok : RulesOk s) : RulesOk (s.movePrefix p tg f).1 := by
  obtain ⟨t1, k1⟩ := keeps_removePrefix h p f
  have ok1 := rulesOk_removePrefix h p f ok
  unfold movePrefix
  split
  · rename_i heq; rw [heq] at ok1; exact ok1
  · rename_i s1 _ heq
    rw [heq] at ok1 k1
    exact rulesOk_addPrefix k1.shape p tg ok1

theorem rulesOk_step {s : State} {t : T} (h : Shape s t) (op : Op) (hop : op.keepsRules) (ok : RulesOk s) :
    RulesOk (s.step op).1 := by
  cases op with
  | addPage l c => exact rulesOk_addPageCore h l c ok
  | addPages ls c => exact rulesOk_addPagesGo _ ls s t c {} h ok
  | addLinks links => exact rulesOk_addLinks h links ok
  | batch data => exact rulesOk_batch h data ok
  | create ps => exact rulesOk_createWebentity h ps ok
  | delete w ps => exact rulesOk_deleteWebentity h w ps ok
  | addPrefix p w => exact rulesOk_addPrefix h p w ok
  | removePrefix p w => exact rulesOk_removePrefix h p w ok
  | movePrefix p tg f => exact rulesOk_movePrefix h p tg f ok
  | addRule a r => exact rulesOk_addRule h a r hop.1 hop.2 ok
  | removeRule a => exact absurd hop id
  | reopen d rs => exact absurd hop id
  | clear d rs => exact absurd hop id

theorem Op.keepsRules_ne_clear {op : Op} (h : op.keepsRules) : ∀ d rs, op ≠ .clear d rs := by
  intro d rs e; subst e; exact h

theorem rulesOk_run_from : ∀ (ops : List Op) (s : State) (t : T), Shape s t → (∀ op ∈ ops, op.keepsRules) →
    RulesOk s → RulesOk (s.run ops)
  | [], _, _, _, _, ok => ok
  | op :: ops, s, t, h, hk, ok => by
    obtain ⟨t1, h1, _⟩ := shape_step_any s t h op (Op.keepsRules_ne_clear (hk op (by simp)))
    rw [run_cons]
    exact rulesOk_run_from ops _ t1 h1 (fun o ho => hk o (by simp [ho])) (rulesOk_step h op (hk op (by simp)) ok)

/-- **`RulesOk` holds in every state reached from a fresh index** (constructor rules and installed rules with
    complete LRUs as anchors) by requests that do not take rules away -/
theorem rulesOk_run (cfg : Config) (dflt : Rule) (rules : List (Bytes × Rule)) (ops : List Op)
    (hc : ∀ ar ∈ rules, lruIter ar.1 ≠ [] ∧ (lruIter ar.1).flatten = ar.1) (hk : ∀ op ∈ ops, op.keepsRules) :
    RulesOk ((State.fresh cfg dflt rules []).1.run ops) := by
  obtain ⟨t0, h0, _⟩ := fresh_spec cfg dflt rules []
  exact rulesOk_run_from ops _ t0 h0 hk (rulesOk_fresh cfg dflt rules [] hc)

/-! ### hence the atomic crawl batch and rule installation do not fail either -/

theorem ensurePageCached_ok {s : State} {t : T} (h : Shape s t) (ok : RulesOk s) (acc : LinkAcc) (l : Bytes)
    (c : Bool) : ∃ acc', (s.ensurePageCached acc l c).2 = .ok acc' := by
  unfold ensurePageCached
  split
  · exact ⟨_, rfl⟩
  · obtain ⟨r, hr⟩ := addPageCore_ok h ok l c
    split
    · rename_i heq; rw [heq] at hr; cases hr
    · exact ⟨_, rfl⟩

theorem batchTargets_ok : ∀ (ts : List Bytes) (s : State) (t : T) (src : Bytes) (acc : LinkAcc) (tb : List Nat),
    Shape s t → RulesOk s → ∃ r, (batchTargets s src ts acc tb).2 = .ok r
  | [], s, t, src, acc, tb, h, ok => by simp only [batchTargets]; exact ⟨_, rfl⟩
  | x :: ts, s, t, src, acc, tb, h, ok => by
    obtain ⟨t1, x1, _⟩ := ensurePageCached_step h acc x false
    have ok1 := rulesOk_ensurePageCached h acc x false ok
    obtain ⟨acc', hacc⟩ := ensurePageCached_ok h ok acc x false
    rw [batchTargets]
    split
    · rename_i heq; rw [heq] at hacc; cases hacc
    · rename_i s1 acc1 heq
      rw [heq] at ok1 x1
      simp only at ok1 x1
      exact batchTargets_ok ts s1 t1 src _ _ x1.shape ok1

theorem sourceStep_ok {s : State} {t : T} (h : Shape s t) (ok : RulesOk s) (acc : LinkAcc) (src : Bytes) :
    ∃ acc', (sourceStep s acc src).2 = .ok acc' := by
  unfold sourceStep
  split
  · exact ensurePageCached_ok h ok acc src true
  · split <;> exact ⟨_, rfl⟩

theorem batchSources_ok : ∀ (data : List (Bytes × List Bytes)) (s : State) (t : T) (acc : LinkAcc), Shape s t →
    RulesOk s → ∃ acc', (batchSources s data acc).2 = .ok acc'
  | [], s, t, acc, h, ok => by simp only [batchSources]; exact ⟨_, rfl⟩
  | (src, tgts) :: rest, s, t, acc, h, ok => by
    obtain ⟨t1, x1, _⟩ := sourceStep_step h acc src
    have ok1 := rulesOk_sourceStep h acc src ok
    obtain ⟨acc', hacc⟩ := sourceStep_ok h ok acc src
    rw [batchSources_cons_ps]
    split
    · rename_i heq; rw [heq] at hacc; cases hacc
    · rename_i s1 acc1 heq
      rw [heq] at ok1 x1
      simp only at ok1 x1
      obtain ⟨t2, h2, ok2⟩ := rulesOk_batchTargets tgts s1 t1 src acc1 [] x1.shape ok1
      obtain ⟨r2, hr2⟩ := batchTargets_ok tgts s1 t1 src acc1 [] x1.shape ok1
      split
      · rename_i heq2; rw [heq2] at hr2; cases hr2
      · rename_i s2 acc2 tb heq2
        rw [heq2] at ok2 h2
        simp only at ok2 h2
        have k3 := keeps_addStubs h2 ((dictGet? acc2.pages src).getD 0) tb true
        exact batchSources_ok rest _ t2 acc2 k3.shape (rulesOk_addStubs h2 _ _ _ ok2)

/-- `index_batch_crawl` does not fail on an index satisfying `RulesOk` -/
theorem batch_ok {s : State} {t : T} (h : Shape s t) (ok : RulesOk s) (data : List (Bytes × List Bytes)) :
    ∃ r, (s.batch data).2 = .ok r := by
  obtain ⟨acc', hacc⟩ := batchSources_ok data s t {} h ok
  unfold batch
  split
  · rename_i heq; rw [heq] at hacc; cases hacc
  · exact ⟨_, rfl⟩

theorem addRuleLoop_ok (start : Nat) : ∀ (fuel : Nat) (s : State) (t : T) (stack : List (Nat × Bytes))
    (rep : Report), Shape s t → RulesOk s → ∃ r, (addRuleLoop start fuel s stack rep).2 = .ok r
  | 0, s, t, stack, rep, h, ok => by simp only [addRuleLoop]; exact ⟨_, rfl⟩
  | fuel + 1, s, t, [], rep, h, ok => by simp only [addRuleLoop]; exact ⟨_, rfl⟩
  | fuel + 1, s, t, (b, lru) :: stack, rep, h, ok => by
    obtain ⟨t1, x1, _⟩ := ruleVisit_step h b lru rep
    have hv : RulesOk (ruleVisit s b lru rep).1 ∧ ∃ r, (ruleVisit s b lru rep).2 = .ok r := by
      unfold ruleVisit
      split
      · have q := rulesOk_addPageCore h (lru ++ s.stemAt b) false ok
        obtain ⟨r1, hr1⟩ := addPageCore_ok h ok (lru ++ s.stemAt b) false
        rcases ha : s.addPageCore (lru ++ s.stemAt b) false with ⟨s1, n, res⟩
        rw [ha] at q hr1
        simp only at q hr1
        subst hr1
        exact ⟨q, _, rfl⟩
      · exact ⟨ok, _, rfl⟩
    obtain ⟨ok1, r1, hr1⟩ := hv
    rw [addRuleLoop_succ_cons]
    split
    · rename_i heq; rw [heq] at hr1; cases hr1
    · rename_i s1 rep1 heq
      rw [heq] at ok1 x1
      exact addRuleLoop_ok start fuel s1 t1 _ rep1 x1.shape ok1

/-- `add_webentity_creation_rule` with a complete LRU as prefix does not fail on an index satisfying `RulesOk` -/
theorem addRule_ok {s : State} {t : T} (h : Shape s t) (ok : RulesOk s) (anchor : Bytes) (r : Rule)
    (hne : lruIter anchor ≠ []) (hcanon : (lruIter anchor).flatten = anchor) :
    ∃ rp, (s.addRule anchor r true).2 = .ok rp := by
  have ok2 := rulesOk_installAnchor h anchor r hne hcanon ok
  have k0 : Keeps s t { s with rules := dictSet s.rules anchor r } t := Keeps.of_trie_eq h rfl
  obtain ⟨t1, k1, _⟩ := keeps_addLruIter k0.shape anchor false
  rcases ha : State.addLru { s with rules := dictSet s.rules anchor r } (lruIter anchor) false with ⟨s1, n, hh⟩
  rw [ha] at k1 ok2
  simp only at k1 ok2
  simp only [addRule, ha, Bool.not_true, Bool.false_eq_true, if_false]
  have k2 := keeps_setRule k1.shape n true
  exact addRuleLoop_ok n _ _ t1 _ _ k2.shape ok2

#print axioms rulesOk_fresh
#print axioms rulesOk_step
#print axioms rulesOk_run
#print axioms batch_ok
#print axioms addRule_ok

end Traph

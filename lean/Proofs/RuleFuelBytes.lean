import Proofs.ChainOps
/-! Byte-level bounds for the fuel of the rule-installation walk: how long, and how many stems, the
    scheme / www variations of a rule proposal can be, relative to the LRU the proposal was cut from. -/
set_option linter.unusedSimpArgs false
namespace Traph
open State Layout

/-- number of stems `lru_iter` cuts -/
def nsep (b : Bytes) : Nat := b.count sep

theorem nsep_append (a b : Bytes) : nsep (a ++ b) = nsep a + nsep b := List.count_append

theorem nsep_cons (x : Nat) (b : Bytes) : nsep (x :: b) = nsep b + if x = sep then 1 else 0 := by
  unfold nsep; rw [List.count_cons]; simp

theorem startsWith_split : ∀ (b p : Bytes), startsWith b p = true → ∃ tl, b = p ++ tl
  | b, [], _ => ⟨b, rfl⟩
  | [], _ :: _, h => by simp [startsWith] at h
  | a :: as, p :: ps, h => by
    simp only [startsWith, Bool.and_eq_true, beq_iff_eq] at h
    obtain ⟨tl, e⟩ := startsWith_split as ps h.2
    exact ⟨tl, by rw [h.1, e]; rfl⟩

/-- `bytes.replace(old, new, 1)`: length and separator count move by at most the difference -/
theorem replaceFirst_bounds (old new : Bytes) : ∀ (b : Bytes),
    (replaceFirst old new b).length ≤ b.length + (new.length - old.length) ∧
    nsep (replaceFirst old new b) ≤ nsep b + (nsep new - nsep old)
  | [] => by simp [replaceFirst]
  | x :: xs => by
    simp only [replaceFirst]
    split
    · rename_i hs
      obtain ⟨tl, e⟩ := startsWith_split _ _ hs
      rw [e, List.drop_left' rfl, List.length_append, List.length_append, nsep_append, nsep_append]
      constructor <;> omega
    · obtain ⟨h1, h2⟩ := replaceFirst_bounds old new xs
      rw [List.length_cons, List.length_cons, nsep_cons, nsep_cons]
      constructor <;> omega

theorem httpsVariation_bounds (b v : Bytes) (h : httpsVariation b = some v) :
    v.length ≤ b.length + 1 ∧ nsep v ≤ nsep b := by
  unfold httpsVariation at h
  split at h
  · cases h
    have := replaceFirst_bounds sHttp sHttps b
    have e1 : sHttps.length - sHttp.length = 1 := by decide
    have e2 : nsep sHttps - nsep sHttp = 0 := by decide
    rw [e1, e2] at this; exact this
  · split at h
    · cases h
      have := replaceFirst_bounds sHttps sHttp b
      have e1 : sHttp.length - sHttps.length = 0 := by decide
      have e2 : nsep sHttp - nsep sHttps = 0 := by decide
      rw [e1, e2] at this
      exact ⟨by omega, this.2⟩
    · cases h

theorem joinWith_snoc (l : List Bytes) (w : Bytes) (hl : l ≠ []) :
    joinWith sep (l ++ [w]) = joinWith sep l ++ sep :: w := by
  induction l with
  | nil => exact absurd rfl hl
  | cons a l ih =>
    cases l with
    | nil => simp [joinWith]
    | cons b l =>
      have := ih (by simp)
      simp only [List.cons_append] at this ⊢
      simp only [joinWith, this, List.append_assoc, List.cons_append]

/-- the host part rewritten with / without `h:www`: at most 6 bytes and one separator more -/
theorem www_bounds (hosts hosts' : List Bytes) (hh : hosts' = hosts.dropLast ∨ hosts' = hosts ++ [hWww])
    (hl : 2 ≤ hosts.length) :
    (joinWith sep hosts' ++ [sep]).length ≤ (joinWith sep hosts ++ [sep]).length + 6 ∧
    nsep (joinWith sep hosts' ++ [sep]) ≤ nsep (joinWith sep hosts ++ [sep]) + 1 := by
  have hne : hosts ≠ [] := by intro e; rw [e] at hl; simp at hl
  rcases hh with rfl | rfl
  · have e : hosts = hosts.dropLast ++ [hosts.getLast hne] := (List.dropLast_concat_getLast hne).symm
    have hdl : hosts.dropLast ≠ [] := by
      intro e0
      have : hosts.dropLast.length = hosts.length - 1 := List.length_dropLast
      rw [e0] at this; simp at this; omega
    have e2 : joinWith sep hosts = joinWith sep hosts.dropLast ++ sep :: hosts.getLast hne := by
      conv => lhs; rw [e]
      exact joinWith_snoc _ _ hdl
    rw [e2]
    simp only [List.length_append, List.length_cons, nsep_append, nsep_cons]
    constructor <;> omega
  · rw [joinWith_snoc hosts hWww hne]
    have e1 : hWww.length = 5 := rfl
    have e2 : nsep hWww = 0 := by decide
    simp only [List.length_append, List.length_cons, nsep_append, nsep_cons, e1, e2, if_true]
    constructor <;> omega

theorem www_replace_bounds (hosts hosts' : List Bytes) (x : Bytes)
    (hh : hosts' = hosts.dropLast ∨ hosts' = hosts ++ [hWww]) (hl : 2 ≤ hosts.length) :
    (replaceFirst (joinWith sep hosts ++ [sep]) (joinWith sep hosts' ++ [sep]) x).length ≤ x.length + 6 ∧
    nsep (replaceFirst (joinWith sep hosts ++ [sep]) (joinWith sep hosts' ++ [sep]) x) ≤ nsep x + 1 := by
  obtain ⟨w1, w2⟩ := www_bounds hosts hosts' hh hl
  obtain ⟨r1, r2⟩ := replaceFirst_bounds (joinWith sep hosts ++ [sep]) (joinWith sep hosts' ++ [sep]) x
  constructor <;> omega

/-- every scheme / www variation: at most 7 bytes and one stem more -/
theorem lruVariations_bounds (b : Bytes) : ∀ v ∈ lruVariations b,
    v.length ≤ b.length + 7 ∧ nsep v ≤ nsep b + 1 := by
  intro v hv
  unfold lruVariations at hv
  cases hh : httpsVariation b with
  | none =>
    simp only [hh] at hv
    repeat' split at hv
    all_goals simp only [List.mem_append, List.mem_cons, List.not_mem_nil, or_false] at hv
    all_goals repeat' (rcases hv with hv | hv)
    all_goals first | subst hv | skip
    all_goals first
      | (constructor <;> omega)
      | (have := www_replace_bounds ((splitOn sep b).filter (fun s => startsWith s hPrefix)) ((splitOn sep b).filter (fun s => startsWith s hPrefix)).dropLast b (Or.inl rfl) (by omega); constructor <;> omega)
      | (have := www_replace_bounds ((splitOn sep b).filter (fun s => startsWith s hPrefix)) (((splitOn sep b).filter (fun s => startsWith s hPrefix)) ++ [hWww]) b (Or.inr rfl) (by omega); constructor <;> omega)
  | some v' =>
    obtain ⟨b1, b2⟩ := httpsVariation_bounds b v' hh
    simp only [hh] at hv
    repeat' split at hv
    all_goals simp only [List.mem_append, List.mem_cons, List.not_mem_nil, or_false] at hv
    all_goals repeat' (rcases hv with hv | hv)
    all_goals first | subst hv | skip
    all_goals first
      | (constructor <;> omega)
      | (have := www_replace_bounds ((splitOn sep b).filter (fun s => startsWith s hPrefix)) ((splitOn sep b).filter (fun s => startsWith s hPrefix)).dropLast b (Or.inl rfl) (by omega); constructor <;> omega)
      | (have := www_replace_bounds ((splitOn sep b).filter (fun s => startsWith s hPrefix)) (((splitOn sep b).filter (fun s => startsWith s hPrefix)) ++ [hWww]) b (Or.inr rfl) (by omega); constructor <;> omega)
      | (have := www_replace_bounds ((splitOn sep b).filter (fun s => startsWith s hPrefix)) ((splitOn sep b).filter (fun s => startsWith s hPrefix)).dropLast v' (Or.inl rfl) (by omega); constructor <;> omega)
      | (have := www_replace_bounds ((splitOn sep b).filter (fun s => startsWith s hPrefix)) (((splitOn sep b).filter (fun s => startsWith s hPrefix)) ++ [hWww]) v' (Or.inr rfl) (by omega); constructor <;> omega)

theorem lruVariations_length_le (b : Bytes) : (lruVariations b).length ≤ 4 := by
  unfold lruVariations
  cases httpsVariation b <;> simp only <;> repeat' split
  all_goals simp

/-! ### what the rules can propose is cut out of the LRU -/

theorem lruIterGo_length : ∀ (b cur : Bytes), (lruIterGo b cur).length = nsep b
  | [], _ => rfl
  | x :: xs, cur => by
    simp only [lruIterGo]
    rw [nsep_cons]
    split
    · rename_i hx
      have : x = sep := by simpa using hx
      rw [List.length_cons, lruIterGo_length xs [], if_pos this]
    · rename_i hx
      have : ¬ x = sep := by simpa using hx
      rw [lruIterGo_length xs _, if_neg this]; rfl

theorem lruIter_length (b : Bytes) : (lruIter b).length = nsep b := lruIterGo_length b []

theorem nsep_flatten_wf : ∀ (p : LRU), (∀ x ∈ p, StemWf x) → nsep p.flatten = p.length
  | [], _ => rfl
  | x :: p, h => by
    obtain ⟨y, rfl, hy⟩ := h x (by simp)
    rw [List.flatten_cons, nsep_append, nsep_append, nsep_flatten_wf p (fun z hz => h z (by simp [hz]))]
    have h1 : nsep y = 0 := List.count_eq_zero.mpr hy
    have h2 : nsep [sep] = 1 := by decide
    rw [h1, h2, List.length_cons]; omega

theorem flatten_take_bounds (b : Bytes) (n : Nat) :
    ((lruIter b).take n).flatten.length ≤ b.length ∧ nsep ((lruIter b).take n).flatten ≤ nsep b := by
  obtain ⟨tl, e⟩ := lruIter_prefix b
  have e2 : (lruIter b).flatten = ((lruIter b).take n).flatten ++ ((lruIter b).drop n).flatten := by
    rw [← List.flatten_append, List.take_append_drop]
  constructor
  · have := congrArg List.length e
    rw [e2, List.length_append, List.length_append] at this
    omega
  · have := congrArg nsep e
    rw [e2, nsep_append, nsep_append] at this
    omega

theorem matchAt0_bounds (r : Rule) (b m : Bytes) (h : r.matchAt0 b = some m) :
    m.length ≤ b.length ∧ nsep m ≤ nsep b := by
  obtain ⟨n, e⟩ := matchAt0_shape r b m h
  rw [e]; exact flatten_take_bounds b n

theorem searchGo_bounds (r : Rule) : ∀ (fuel : Nat) (b m : Bytes), r.searchGo fuel b = some m →
    m.length ≤ b.length ∧ nsep m ≤ nsep b
  | 0, _, _, h => by simp [Rule.searchGo] at h
  | fuel + 1, b, m, h => by
    simp only [Rule.searchGo] at h
    cases hm : r.matchAt0 b with
    | some m' =>
      rw [hm] at h
      simp only [Option.some.injEq] at h
      subst h
      exact matchAt0_bounds r b m' hm
    | none =>
      rw [hm] at h
      simp only at h
      cases b with
      | nil => simp at h
      | cons x bs =>
        simp only at h
        obtain ⟨h1, h2⟩ := searchGo_bounds r fuel bs m h
        rw [List.length_cons, nsep_cons]
        constructor <;> omega

theorem search_bounds (r : Rule) (b m : Bytes) (h : r.search b = some m) :
    m.length ≤ b.length ∧ nsep m ≤ nsep b := searchGo_bounds r _ b m h

theorem longestCandidate_bounds (s : State) (lru : Bytes) (h : Hist) (best : Bytes)
    (hc : s.longestCandidate lru h = some best) : best.length ≤ lru.length ∧ nsep best ≤ nsep lru := by
  unfold State.longestCandidate at hc
  revert hc best
  generalize h.rules.reverse = l
  suffices H : ∀ (l : List Nat) (acc : Option Bytes),
      (∀ b, acc = some b → b.length ≤ lru.length ∧ nsep b ≤ nsep lru) →
      ∀ b, l.foldl (fun acc pos =>
        match acc with
        | none => none
        | some best =>
          match dictGet? s.rules (lru.take pos) with
          | none => none
          | some r =>
            match r.search lru with
            | some cand => if !cand.isEmpty && cand.length > best.length then some cand else some best
            | none => some best) acc = some b → b.length ≤ lru.length ∧ nsep b ≤ nsep lru by
    intro best hc
    exact H l (some []) (fun b hb => by cases hb; exact ⟨Nat.zero_le _, Nat.zero_le _⟩) best hc
  intro l
  induction l with
  | nil => intro acc hacc b hb; exact hacc b hb
  | cons pos l ih =>
    intro acc hacc b hb
    rw [List.foldl_cons] at hb
    refine ih _ ?_ b hb
    intro b' hb'
    cases acc with
    | none => simp at hb'
    | some best =>
      simp only at hb'
      cases hd : dictGet? s.rules (lru.take pos) with
      | none => rw [hd] at hb'; simp at hb'
      | some r =>
        rw [hd] at hb'
        simp only at hb'
        cases hs : r.search lru with
        | none => rw [hs] at hb'; simp only [Option.some.injEq] at hb'; exact hacc b' (by rw [hb'])
        | some cand =>
          rw [hs] at hb'
          simp only at hb'
          split at hb'
          · simp only [Option.some.injEq] at hb'
            subst hb'
            exact search_bounds r lru cand hs
          · simp only [Option.some.injEq] at hb'; exact hacc b' (by rw [hb'])

/-- whatever `__add_page` decides to create for is cut out of the LRU: not longer, not more stems -/
theorem autoDecision_bounds {s : State} {lru : Bytes} {h : Hist} {K : Bytes}
    (hd : s.autoDecision lru h = some (some K)) : K.length ≤ lru.length ∧ nsep K ≤ nsep lru := by
  unfold State.autoDecision at hd
  cases hc : s.longestCandidate lru h with
  | none => rw [hc] at hd; simp at hd
  | some cand =>
    rw [hc] at hd
    simp only at hd
    have hb := longestCandidate_bounds s lru h cand hc
    have tail : (if (!cand.isEmpty) = true then some (some cand)
          else match s.dflt.search lru with
            | none => some none
            | some k => if k.isEmpty = true then some none else some (some k)) = some (some K) →
        K.length ≤ lru.length ∧ nsep K ≤ nsep lru := by
      intro hd
      cases hemp : cand.isEmpty with
      | false =>
        rw [hemp] at hd
        simp only [Bool.not_false, if_true, Option.some.injEq] at hd
        subst hd
        exact hb
      | true =>
        rw [hemp] at hd
        simp only [Bool.not_true, Bool.false_eq_true, if_false] at hd
        cases hs : s.dflt.search lru with
        | none => rw [hs] at hd; simp at hd
        | some k =>
          rw [hs] at hd
          simp only at hd
          cases hk : k.isEmpty with
          | true => rw [hk] at hd; simp at hd
          | false =>
            rw [hk] at hd
            simp only [Bool.false_eq_true, if_false, Option.some.injEq] at hd
            subst hd
            exact search_bounds _ lru k hs
    cases hp : h.wePos with
    | none =>
      rw [hp] at hd
      simp only [Bool.false_eq_true, if_false] at hd
      exact tail hd
    | some p =>
      rw [hp] at hd
      simp only at hd
      by_cases hle : cand.length ≤ p
      · rw [if_pos (by simpa using hle)] at hd; simp at hd
      · rw [if_neg (by simpa using hle)] at hd
        exact tail hd

end Traph

import Proofs.PageSet
import Proofs.SizesLinks
/-! C03, the link multigraph as bags. `s.bag out b` is the list of other ends obtained by the model's own
    walk from the head pointer stored in trie block `b` (`out = true`: the out-list, `false`: the in-list).
    `LinksOk` (stubs point strictly backwards, head pointers are stubs of the store) makes the walk
    independent of its fuel. `PtrEq` is the frame of every write that is not a list write: same stub
    array, same head pointers. `addStubs` prepends exactly the submitted ends to one bag and changes no
    other; `flushLists` adds exactly the contents of the multimap it is given. -/
namespace Traph
open State

/-! ### multiplicities -/

theorem lbCount_append (t : Nat) (l₁ l₂ : List Nat) : count t (l₁ ++ l₂) = count t l₁ + count t l₂ := by
  unfold count; rw [List.filter_append, List.length_append]

theorem lbCount_reverse (t : Nat) (l : List Nat) : count t l.reverse = count t l := by
  unfold count; rw [List.filter_reverse, List.length_reverse]

theorem lbCount_map_concat {α : Type} (f : α → Nat) (t : Nat) (l : List α) (v : α) :
    count t ((l ++ [v]).map f) = count t (l.map f) + (if f v = t then 1 else 0) := by
  rw [List.map_append, lbCount_append, List.map_cons, List.map_nil, count_cons, count_nil, Nat.add_zero]

/-! ### bags -/

namespace State

/-- the other ends hanging off trie block `b`, newest first: the model's own walk (`link_nodes_iter`)
    from the head pointer kept in the block; a null pointer is the empty list -/
def bag (s : State) (out : Bool) (b : Nat) : List Nat :=
  s.walk0 (if out then (s.cell b).out else (s.cell b).inn)

/-- target blocks of the out-list of block `b` -/
abbrev outBag (s : State) (b : Nat) : List Nat := s.bag true b
/-- source blocks of the in-list of block `b` -/
abbrev inBag (s : State) (b : Nat) : List Nat := s.bag false b

end State

/-- acyclicity and range: every stub points strictly backwards (the header slot at itself), and every
    head pointer kept in a trie block is a stub of the store -/
structure LinksOk (s : State) : Prop where
  wf  : s.LinksWf
  out : ∀ b, (s.cell b).out < s.links.size
  inn : ∀ b, (s.cell b).inn < s.links.size

theorem LinksOk.head {s : State} (h : LinksOk s) (o : Bool) (b : Nat) :
    (if o then (s.cell b).out else (s.cell b).inn) < s.links.size := by
  cases o
  · exact h.inn b
  · exact h.out b

theorem linksOk_of_init {s : State} (ht : s.trie = #[{}]) (hl : s.links = #[{}]) : LinksOk s := by
  have hwf : s.LinksWf := State.linksWf_congr (s := ({} : State)) hl State.linksWf_init
  have hc : ∀ b, s.cell b = {} ∨ s.cell b = ({} : Cell) := fun _ => Or.inl (by
    unfold State.cell; rw [ht]
    rename_i b
    cases b with
    | zero => rfl
    | succ n => rfl)
  refine ⟨hwf, fun b => ?_, fun b => ?_⟩
  · rcases hc b with e | e <;> rw [e, hl] <;> decide
  · rcases hc b with e | e <;> rw [e, hl] <;> decide

/-- the walk does not depend on its fuel: the bag unfolds along the `previous` pointers -/
theorem lbWalk0_unfold {s : State} (hwf : s.LinksWf) {h : Nat} (h0 : h ≠ 0) {st : Stub}
    (hs : s.links[h]? = some st) : s.walk0 h = st.target :: s.walk0 st.prev := by
  unfold State.walk0
  rw [if_pos h0, State.walk_unfold' s hwf h st hs]

theorem lbWalk0_zero (s : State) : s.walk0 0 = [] := by
  unfold State.walk0; rw [if_neg (by simp)]

theorem lbWalk0_congr {s s' : State} (h : s'.links = s.links) (i : Nat) : s'.walk0 i = s.walk0 i := by
  unfold State.walk0; rw [State.walk_congr h]

/-! ### the frame of every write that is not a list write -/

structure PtrEq (s s' : State) : Prop where
  links : s'.links = s.links
  out   : ∀ b, (s'.cell b).out = (s.cell b).out
  inn   : ∀ b, (s'.cell b).inn = (s.cell b).inn

theorem PtrEq.refl (s : State) : PtrEq s s := ⟨rfl, fun _ => rfl, fun _ => rfl⟩

theorem PtrEq.trans {a b c : State} (h1 : PtrEq a b) (h2 : PtrEq b c) : PtrEq a c :=
  ⟨h2.links.trans h1.links, fun x => (h2.out x).trans (h1.out x), fun x => (h2.inn x).trans (h1.inn x)⟩

theorem PtrEq.fst_of_eq {α : Type} {s : State} {p q : State × α} (h : PtrEq s p.1) (e : p = q) : PtrEq s q.1 :=
  e ▸ h

/-- every bag is the same list -/
theorem PtrEq.bag {s s' : State} (h : PtrEq s s') (o : Bool) (b : Nat) : s'.bag o b = s.bag o b := by
  unfold State.bag
  rw [h.out, h.inn, lbWalk0_congr h.links]

theorem PtrEq.linksOk {s s' : State} (h : PtrEq s s') (hl : LinksOk s) : LinksOk s' :=
  ⟨State.linksWf_congr h.links hl.wf, fun b => by rw [h.out, h.links]; exact hl.out b,
    fun b => by rw [h.inn, h.links]; exact hl.inn b⟩

theorem PtrEq.size {s s' : State} (h : PtrEq s s') : s'.links.size = s.links.size := by rw [h.links]

theorem PtrEq.of_eq {s s' : State} (ht : s'.trie = s.trie) (hl : s'.links = s.links) : PtrEq s s' :=
  ⟨hl, fun b => by unfold State.cell; rw [ht], fun b => by unfold State.cell; rw [ht]⟩

/-- old blocks keep their attributes, fresh blocks have no lists -/
theorem PtrEq.of_attrStep {s s' : State} (a : AttrStep s s') (hl : s'.links = s.links) : PtrEq s s' := by
  refine ⟨hl, fun b => ?_, fun b => ?_⟩
  · by_cases hb : b < s.trie.size
    · exact (a.old b hb).out
    · have hb' : s.trie.size ≤ b := Nat.le_of_not_lt hb
      rw [(a.new b hb').out, cell_of_size_le s b hb']
  · by_cases hb : b < s.trie.size
    · exact (a.old b hb).inn
    · have hb' : s.trie.size ≤ b := Nat.le_of_not_lt hb
      rw [(a.new b hb').inn, cell_of_size_le s b hb']

theorem ptrEq_modCell (s : State) (i : Nat) (f : Cell → Cell)
    (hf : ∀ c, (f c).out = c.out ∧ (f c).inn = c.inn) : PtrEq s (s.modCell i f) := by
  refine ⟨Traph.links_modCell s i f, fun b => ?_, fun b => ?_⟩
  · rw [cell_modCell]; split
    · exact (hf _).1
    · rfl
  · rw [cell_modCell]; split
    · exact (hf _).2
    · rfl

theorem ptrEq_foldl_modCell {α : Type} (g : α → Nat) (f : α → Cell → Cell)
    (hf : ∀ a c, (f a c).out = c.out ∧ (f a c).inn = c.inn) :
    ∀ (l : List α) (s : State), PtrEq s (l.foldl (fun st a => st.modCell (g a) (f a)) s)
  | [], s => PtrEq.refl s
  | a :: l, s => by
    rw [List.foldl_cons]
    exact (ptrEq_modCell s (g a) (f a) (hf a)).trans (ptrEq_foldl_modCell g f hf l _)

theorem ptrEq_addLru (s : State) (stems : LRU) (flag : Bool) : PtrEq s (s.addLru stems flag).1 :=
  PtrEq.of_attrStep (attrStep_addLru s stems flag) (links_addLru s stems flag)

/-! ### one list write -/

theorem lbWalk0_addStubsGo (s : State) (hwf : s.LinksWf) (tail : Nat) (ht : tail < s.links.size)
    (targets : List Nat) (h : Nat) (hh : h < s.links.size) :
    (s.addStubsGo tail targets).1.walk0 h = s.walk0 h := by
  unfold State.walk0
  split
  · exact State.addStubsGo_frame s hwf tail ht targets h hh
  · rfl

theorem lbCell_of_trie_eq {s s' : State} (h : s'.trie = s.trie) (b : Nat) : s'.cell b = s.cell b := by
  unfold State.cell; rw [h]

theorem lbAddStubs_of_ne (s : State) (page : Nat) (targets : List Nat) (out : Bool) (hne : targets ≠ [])
    (hd : Nat) (hH : (if out then (s.cell page).out else (s.cell page).inn) = hd) (s1 : State) (nh : Nat)
    (hg : s.addStubsGo hd targets = (s1, nh)) :
    s.addStubs page targets out =
      s1.modCell page (fun c => if out then { c with out := nh } else { c with inn := nh }) := by
  unfold State.addStubs
  have he : ¬ targets.isEmpty = true := fun e => hne (List.isEmpty_iff.mp e)
  rw [if_neg he]
  simp only [hH, hg]

theorem lbWalk0_of_pair_eq {s s1 : State} {hd nh h : Nat} {targets : List Nat}
    (hg : s.addStubsGo hd targets = (s1, nh))
    (hw : (s.addStubsGo hd targets).1.walk0 h = s.walk0 h) : s1.walk0 h = s.walk0 h := by
  rw [hg] at hw; exact hw

/-- MAIN (one list write): `LinkStore.add_links(page, targets, out)` prepends the submitted ends, newest
    first, to the one bag it is asked to extend, and leaves every other bag as it was -/
theorem addStubs_bag {s : State} (hl : LinksOk s) (page : Nat) (hp : page < s.trie.size)
    (targets : List Nat) (out : Bool) :
    LinksOk (s.addStubs page targets out) ∧
    ∀ o b, (s.addStubs page targets out).bag o b =
      if o = out ∧ b = page then targets.reverse ++ s.bag o b else s.bag o b := by
  by_cases hne : targets = []
  · subst hne
    rw [addStubs_nil]
    refine ⟨hl, fun o b => ?_⟩
    split <;> simp
  · have hhd := hl.head out page
    generalize hH : (if out = true then (s.cell page).out else (s.cell page).inn) = hd at hhd
    obtain ⟨a1, a2, a3, a4, a5, a6⟩ := State.addStubsGo_aux targets s hl.wf hd hhd
    obtain ⟨b1, b2⟩ := a6 hne
    rcases hg : s.addStubsGo hd targets with ⟨s1, nh⟩
    rw [hg] at a1 a2 a3 a4 a5 b1 b2
    simp only at a1 a2 a3 a4 a5 b1 b2
    rw [lbAddStubs_of_ne s page targets out hne hd hH s1 nh hg]
    have hsz : s.links.size ≤ s1.links.size := by omega
    have hnh : nh < s1.links.size := by omega
    have hp1 : page < s1.trie.size := by rw [a3]; exact hp
    have hcell : ∀ b, (s1.modCell page (fun c => if out = true then { c with out := nh } else { c with inn := nh })).cell b =
        if page = b then (if out = true then { s.cell b with out := nh } else { s.cell b with inn := nh })
        else s.cell b := by
      intro b
      rw [cell_modCell, lbCell_of_trie_eq a3]
      by_cases e : page = b
      · subst e; rw [if_pos ⟨rfl, hp1⟩, if_pos rfl]
      · rw [if_neg (fun h => e h.1), if_neg e]
    have hlk : (s1.modCell page (fun c => if out = true then { c with out := nh } else { c with inn := nh })).links = s1.links :=
      Traph.links_modCell _ _ _
    refine ⟨⟨State.linksWf_congr hlk a1, fun b => ?_, fun b => ?_⟩, fun o b => ?_⟩
    · rw [hcell, hlk]
      by_cases e : page = b
      · rw [if_pos e]
        cases out
        · have := hl.out b; simp only [Bool.false_eq_true, if_false]; omega
        · simp only [if_true]; exact hnh
      · rw [if_neg e]; have := hl.out b; omega
    · rw [hcell, hlk]
      by_cases e : page = b
      · rw [if_pos e]
        cases out
        · simp only [Bool.false_eq_true, if_false]; exact hnh
        · have := hl.inn b; simp only [if_true]; omega
      · rw [if_neg e]; have := hl.inn b; omega
    · unfold State.bag
      rw [hcell, lbWalk0_congr hlk]
      have key : ∀ h, h < s.links.size → s1.walk0 h = s.walk0 h := fun h hh =>
        lbWalk0_of_pair_eq hg (lbWalk0_addStubsGo s hl.wf hd hhd targets h hh)
      by_cases e : page = b
      · subst e
        rw [if_pos rfl]
        cases o <;> cases out
        · simp only [Bool.false_eq_true, if_false, and_self, if_true] at hH ⊢
          rw [hH, a5]
        · simp only [Bool.false_eq_true, if_false, if_true, false_and]
          exact key _ (hl.inn page)
        · simp only [Bool.false_eq_true, if_false, if_true, and_true, reduceCtorEq]
          exact key _ (hl.out page)
        · simp only [if_true, and_self] at hH ⊢
          rw [hH, a5]
      · have hn : ¬ (o = out ∧ b = page) := fun h => e h.2.symm
        rw [if_neg e, if_neg hn]
        exact key _ (hl.head o b)

/-- the same at the level of multiplicities -/
theorem addStubs_count {s : State} (hl : LinksOk s) (page : Nat) (hp : page < s.trie.size)
    (targets : List Nat) (out : Bool) (o : Bool) (b x : Nat) :
    count x ((s.addStubs page targets out).bag o b) =
      count x (s.bag o b) + (if o = out ∧ b = page then count x targets else 0) := by
  rw [(addStubs_bag hl page hp targets out).2]
  split
  · rw [lbCount_append, lbCount_reverse]; omega
  · omega

/-! ### the multimaps of `add_links` / `index_batch_crawl` and their flush -/

/-- the block the page cache gives for a byte string (`0` when absent, as the model does) -/
def blkOf (pages : List (Bytes × Nat)) (l : Bytes) : Nat := (dictGet? pages l).getD 0

theorem blocksOf_eq (pages : List (Bytes × Nat)) (ls : List Bytes) :
    State.blocksOf pages ls = ls.map (blkOf pages) := rfl

/-- how many times the multimap files block `x` under a key of block `b` -/
def mcount (blk : Bytes → Nat) : List (Bytes × List Bytes) → Nat → Nat → Nat
  | [], _, _ => 0
  | (p, os) :: rest, b, x => (if blk p = b then count x (os.map blk) else 0) + mcount blk rest b x

/-- how many of the submitted pairs go from block `a` to block `b` -/
def pcount (blk : Bytes → Nat) (links : List (Bytes × Bytes)) (a b : Nat) : Nat :=
  (links.filter (fun l => decide (blk l.1 = a ∧ blk l.2 = b))).length

@[simp] theorem pcount_nil (blk : Bytes → Nat) (a b : Nat) : pcount blk [] a b = 0 := rfl

theorem pcount_cons (blk : Bytes → Nat) (l : Bytes × Bytes) (links : List (Bytes × Bytes)) (a b : Nat) :
    pcount blk (l :: links) a b = (if blk l.1 = a ∧ blk l.2 = b then 1 else 0) + pcount blk links a b := by
  unfold pcount
  by_cases h : blk l.1 = a ∧ blk l.2 = b
  · rw [List.filter_cons_of_pos (by simpa using h), if_pos h, List.length_cons]; omega
  · rw [List.filter_cons_of_neg (by simpa using h), if_neg h]; omega

theorem pcount_append (blk : Bytes → Nat) (l₁ l₂ : List (Bytes × Bytes)) (a b : Nat) :
    pcount blk (l₁ ++ l₂) a b = pcount blk l₁ a b + pcount blk l₂ a b := by
  unfold pcount; rw [List.filter_append, List.length_append]

/-- one row of a crawl batch: a source with its targets -/
theorem pcount_row (blk : Bytes → Nat) (src : Bytes) (ts : List Bytes) (a b : Nat) :
    pcount blk (ts.map (fun x => (src, x))) a b = if blk src = a then count b (ts.map blk) else 0 := by
  induction ts with
  | nil => simp
  | cons t ts ih =>
    rw [List.map_cons, pcount_cons, ih, List.map_cons, count_cons]
    by_cases h : blk src = a
    · simp only [h, true_and, if_true]
    · simp only [h, false_and, if_false]

/-- `defaultdict(list)[k].append(v)` files exactly one more pair -/
theorem mcount_multiAdd (blk : Bytes → Nat) : ∀ (d : List (Bytes × List Bytes)) (k v : Bytes) (b x : Nat),
    mcount blk (multiAdd d k v) b x = mcount blk d b x + (if blk k = b ∧ blk v = x then 1 else 0)
  | [], k, v, b, x => by
    simp only [multiAdd, mcount, List.map_cons, List.map_nil, count_cons, count_nil]
    by_cases h1 : blk k = b <;> by_cases h2 : blk v = x <;> simp [h1, h2]
  | (k', vs) :: rest, k, v, b, x => by
    unfold multiAdd
    split
    · rename_i e
      subst e
      simp only [mcount, lbCount_map_concat]
      by_cases h1 : blk k' = b <;> by_cases h2 : blk v = x <;> simp [h1, h2] <;> omega
    · simp only [mcount, mcount_multiAdd blk rest k v b x]
      omega

theorem lbKeys_multiAdd {β : Type} (P : Bytes → Prop) : ∀ (d : List (Bytes × List β)) (k : Bytes) (v : β),
    (∀ kv ∈ d, P kv.1) → P k → ∀ kv ∈ multiAdd d k v, P kv.1
  | [], k, v, _, hk, kv, hm => by
    simp only [multiAdd, List.mem_singleton] at hm
    subst hm; exact hk
  | (k', vs) :: rest, k, v, hd, hk, kv, hm => by
    unfold multiAdd at hm
    split at hm
    · rcases List.mem_cons.mp hm with rfl | hm
      · exact hd (k', vs) (by simp)
      · exact hd kv (by simp [hm])
    · rcases List.mem_cons.mp hm with rfl | hm
      · exact hd (k', vs) (by simp)
      · exact lbKeys_multiAdd P rest k v (fun x hx => hd x (by simp [hx])) hk kv hm

/-- MAIN (`flushLists`): writing a multimap out adds, to the bags of the chosen direction, exactly the
    pairs the multimap files — and nothing to the bags of the other direction -/
theorem flushLists_bag (out : Bool) (pages : List (Bytes × Nat)) :
    ∀ (lists : List (Bytes × List Bytes)) (s : State), LinksOk s →
      (∀ kv ∈ lists, blkOf pages kv.1 < s.trie.size) →
      LinksOk (State.flushLists out pages s lists) ∧
      ∀ o b x, count x ((State.flushLists out pages s lists).bag o b) =
        count x (s.bag o b) + (if o = out then mcount (blkOf pages) lists b x else 0)
  | [], s, hl, _ => by
    simp only [State.flushLists, mcount]
    exact ⟨hl, fun o b x => by split <;> rfl⟩
  | (p, others) :: rest, s, hl, hr => by
    simp only [State.flushLists]
    have hp : blkOf pages p < s.trie.size := hr (p, others) (by simp)
    obtain ⟨l1, _⟩ := addStubs_bag hl (blkOf pages p) hp (State.blocksOf pages others) out
    have c1 := addStubs_count hl (blkOf pages p) hp (State.blocksOf pages others) out
    obtain ⟨l2, c2⟩ := flushLists_bag out pages rest _ l1 (fun kv hkv => by
      rw [addStubs_trie_size]; exact hr kv (by simp [hkv]))
    refine ⟨l2, fun o b x => ?_⟩
    have e : (dictGet? pages p).getD 0 = blkOf pages p := rfl
    rw [e, c2, c1, blocksOf_eq]
    simp only [mcount]
    by_cases ho : o = out
    · simp only [ho, true_and, if_true]
      by_cases hb : b = blkOf pages p
      · rw [if_pos hb, if_pos hb.symm]; omega
      · rw [if_neg hb, if_neg (fun h => hb h.symm)]; omega
    · simp only [ho, false_and, if_false]

#print axioms addStubs_bag
#print axioms flushLists_bag

end Traph

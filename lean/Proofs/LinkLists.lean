import Traph
/-! The link store as lists (L5): well-formedness of the stub array, fuel independence of `walk`,
    frame lemmas, `addStubsGo` prepends, and the Counter semantics of `weighted` / `deduped`. -/
namespace Traph.State

/-! ## Well-formedness of the link array -/

/-- every stub points strictly backwards, except the header slot which points at itself (0) -/
def LinksWf (s : State) : Prop :=
  0 < s.links.size ∧ ∀ i st, s.links[i]? = some st → st.prev < i ∨ (i = 0 ∧ st.prev = 0)

theorem linksWf_init : LinksWf ({} : State) := by
  refine ⟨by decide, ?_⟩
  intro i st h
  have hl : ({} : State).links = #[{}] := rfl
  rw [hl] at h
  rcases Array.getElem?_eq_some_iff.mp h with ⟨hi, hst⟩
  have hi0 : i = 0 := by simpa using hi
  subst hi0
  right
  refine ⟨rfl, ?_⟩
  rw [← hst]; rfl

@[simp] theorem links_appendStub (s : State) (b : Stub) : (s.appendStub b).1.links = s.links.push b := rfl
@[simp] theorem snd_appendStub (s : State) (b : Stub) : (s.appendStub b).2 = s.links.size := rfl
@[simp] theorem trie_appendStub (s : State) (b : Stub) : (s.appendStub b).1.trie = s.trie := rfl
@[simp] theorem links_appendCell (s : State) (c : Cell) : (s.appendCell c).1.links = s.links := rfl
@[simp] theorem links_setCell (s : State) (i : Nat) (c : Cell) : (s.setCell i c).links = s.links := rfl
@[simp] theorem links_modCell (s : State) (i : Nat) (f : Cell → Cell) : (s.modCell i f).links = s.links := by
  unfold modCell; split <;> rfl

theorem linksWf_appendStub (s : State) (hwf : LinksWf s) (t p : Nat) (hp : p < s.links.size) :
    LinksWf (s.appendStub { target := t, prev := p }).1 := by
  refine ⟨by simp, ?_⟩
  intro i st h
  rw [links_appendStub, Array.getElem?_push] at h
  split at h
  · next hi =>
    left
    have : st = { target := t, prev := p } := by simpa using h.symm
    subst this; subst hi; exact hp
  · exact hwf.2 i st h

/-- `LinksWf` only looks at `links` -/
theorem linksWf_congr {s s' : State} (h : s'.links = s.links) (hwf : LinksWf s) : LinksWf s' := by
  unfold LinksWf; rw [h]; exact hwf

/-! ## 1. fuel independence and the recursive characterisation of `walk` -/

theorem walkGo_fuel_eq (s : State) (hwf : LinksWf s) :
    ∀ f1 f2 h, h < f1 → h < f2 → s.walkGo f1 h = s.walkGo f2 h := by
  intro f1
  induction f1 with
  | zero => intro f2 h h1; omega
  | succ f1 ih =>
    intro f2 h h1 h2
    cases f2 with
    | zero => omega
    | succ f2 =>
      unfold walkGo
      cases hl : s.links[h]? with
      | none => rfl
      | some st =>
        simp only
        by_cases hp : st.prev ≠ 0
        · rw [if_pos hp, if_pos hp]
          have := hwf.2 h st hl
          rw [ih f2 st.prev (by omega) (by omega)]
        · rw [if_neg hp, if_neg hp]

/-- `walkGo` does not depend on the fuel once it exceeds the head index; in particular `walk` (fuel
    `links.size + 1`) is the true list for every in-range head -/
theorem walk_fuel (s : State) (hwf : LinksWf s) (h : Nat) (hh : h < s.links.size) (fuel : Nat)
    (hf : h < fuel) : s.walkGo fuel h = s.walk h :=
  walkGo_fuel_eq s hwf fuel (s.links.size + 1) h hf (by omega)

/-- out-of-range heads walk to nothing (any fuel) -/
theorem walk_none (s : State) (h : Nat) (hh : s.links[h]? = none) : s.walk h = [] := by
  unfold walk walkGo; rw [hh]

/-- recursive characterisation, also valid for `h = 0` -/
theorem walk_unfold' (s : State) (hwf : LinksWf s) (h : Nat) (st : Stub) (hh : s.links[h]? = some st) :
    s.walk h = st.target :: (if st.prev ≠ 0 then s.walk st.prev else []) := by
  have hlt : h < s.links.size := (Array.getElem?_eq_some_iff.mp hh).1
  have hb := hwf.2 h st hh
  unfold walk
  conv => lhs; unfold walkGo
  rw [hh]
  simp only
  by_cases hp : st.prev ≠ 0
  · rw [if_pos hp, if_pos hp]
    rw [walkGo_fuel_eq s hwf s.links.size (s.links.size + 1) st.prev (by omega) (by omega)]
  · rw [if_neg hp, if_neg hp]

theorem walk_unfold (s : State) (hwf : LinksWf s) (h : Nat) (st : Stub) (hh : s.links[h]? = some st)
    (_h0 : 0 < h) : s.walk h = st.target :: (if st.prev ≠ 0 then s.walk st.prev else []) :=
  walk_unfold' s hwf h st hh

/-! ## 2. frame lemmas -/

theorem walkGo_congr {s s' : State} (h : s'.links = s.links) : ∀ fuel i, s'.walkGo fuel i = s.walkGo fuel i := by
  intro fuel
  induction fuel with
  | zero => intro i; rfl
  | succ f ih =>
    intro i
    unfold walkGo
    rw [h]
    cases s.links[i]? with
    | none => rfl
    | some st => simp only [ih]

theorem walk_congr {s s' : State} (h : s'.links = s.links) (i : Nat) : s'.walk i = s.walk i := by
  unfold walk; rw [walkGo_congr h, h]

theorem walk_setCell (s : State) (i : Nat) (c : Cell) (h : Nat) : (s.setCell i c).walk h = s.walk h :=
  walk_congr (links_setCell s i c) h
theorem walk_modCell (s : State) (i : Nat) (f : Cell → Cell) (h : Nat) : (s.modCell i f).walk h = s.walk h :=
  walk_congr (links_modCell s i f) h
theorem walk_appendCell (s : State) (c : Cell) (h : Nat) : (s.appendCell c).1.walk h = s.walk h :=
  walk_congr (links_appendCell s c) h

theorem walkGo_appendStub (s : State) (hwf : LinksWf s) (b : Stub) :
    ∀ fuel h, h < s.links.size → (s.appendStub b).1.walkGo fuel h = s.walkGo fuel h := by
  intro fuel
  induction fuel with
  | zero => intro h _; rfl
  | succ f ih =>
    intro h hh
    unfold walkGo
    have hl : (s.appendStub b).1.links[h]? = s.links[h]? := by
      rw [links_appendStub, Array.getElem?_push, if_neg (by omega)]
    rw [hl]
    cases hs : s.links[h]? with
    | none => rfl
    | some st =>
      simp only
      by_cases hp : st.prev ≠ 0
      · rw [if_pos hp, if_pos hp]
        have := hwf.2 h st hs
        rw [ih st.prev (by omega)]
      · rw [if_neg hp, if_neg hp]

theorem walk_appendStub (s : State) (hwf : LinksWf s) (b : Stub) (h : Nat) (hh : h < s.links.size) :
    (s.appendStub b).1.walk h = s.walk h := by
  unfold walk
  rw [walkGo_appendStub s hwf b _ h hh, links_appendStub, Array.size_push]
  exact walkGo_fuel_eq s hwf _ _ h (by omega) (by omega)

/-! ## 3. `addStubsGo` prepends (L5) -/

/-- the list hanging off a head pointer stored in a cell: `0` means "no list" -/
def walk0 (s : State) (h : Nat) : List Nat := if h ≠ 0 then s.walk h else []

theorem addStubsGo_aux (targets : List Nat) :
    ∀ (s : State) (_hwf : LinksWf s) (tail : Nat) (_ht : tail < s.links.size),
      LinksWf (s.addStubsGo tail targets).1 ∧
      (s.addStubsGo tail targets).1.links.size = s.links.size + targets.length ∧
      (s.addStubsGo tail targets).1.trie = s.trie ∧
      (∀ h, h < s.links.size → (s.addStubsGo tail targets).1.walk h = s.walk h) ∧
      (s.addStubsGo tail targets).1.walk0 (s.addStubsGo tail targets).2 = targets.reverse ++ s.walk0 tail ∧
      (targets ≠ [] → (s.addStubsGo tail targets).2 = (s.addStubsGo tail targets).1.links.size - 1 ∧
        0 < (s.addStubsGo tail targets).2) := by
  induction targets with
  | nil =>
    intro s hwf tail ht
    simp [addStubsGo, hwf]
  | cons t ts ih =>
    intro s hwf tail ht
    have hwf1 := linksWf_appendStub s hwf t tail ht
    have hsz1 : (s.appendStub { target := t, prev := tail }).1.links.size = s.links.size + 1 := by simp
    have hstep : s.addStubsGo tail (t :: ts) =
        (s.appendStub { target := t, prev := tail }).1.addStubsGo s.links.size ts := rfl
    obtain ⟨i1, i2, i3, i4, i5, i6⟩ :=
      ih (s.appendStub { target := t, prev := tail }).1 hwf1 s.links.size (by omega)
    rw [hstep]
    refine ⟨i1, ?_, ?_, ?_, ?_, ?_⟩
    · rw [i2, hsz1, List.length_cons]; omega
    · rw [i3, trie_appendStub]
    · intro h hh
      rw [i4 h (by omega), walk_appendStub s hwf _ h hh]
    · rw [i5]
      have hpos : s.links.size ≠ 0 := by have := hwf.1; omega
      have hget : (s.appendStub { target := t, prev := tail }).1.links[s.links.size]? =
          some { target := t, prev := tail } := by
        rw [links_appendStub, Array.getElem?_push, if_pos rfl]
      have hw : (s.appendStub { target := t, prev := tail }).1.walk0 s.links.size = t :: s.walk0 tail := by
        unfold walk0
        rw [if_pos hpos, walk_unfold' _ hwf1 _ _ hget]
        simp only
        by_cases htl : tail ≠ 0
        · rw [if_pos htl, if_pos htl, walk_appendStub s hwf _ tail ht]
        · rw [if_neg htl, if_neg htl]
      rw [hw]
      simp
    · intro _
      by_cases hts : ts = []
      · subst hts
        have := hwf.1
        simp only [addStubsGo, links_appendStub, Array.size_push]
        omega
      · exact i6 hts

/-- MAIN (L5): `addStubsGo` appends `targets.length` stubs, leaves the trie alone, keeps every old list,
    and the new head walks to the reversed targets followed by the old list -/
theorem addStubsGo_spec (s : State) (hwf : LinksWf s) (tail : Nat) (ht : tail < s.links.size)
    (targets : List Nat) :
    LinksWf (s.addStubsGo tail targets).1 ∧
    (s.addStubsGo tail targets).1.links.size = s.links.size + targets.length ∧
    (s.addStubsGo tail targets).1.trie = s.trie ∧
    (∀ h, h < s.links.size → (s.addStubsGo tail targets).1.walk h = s.walk h) ∧
    (targets ≠ [] →
      (s.addStubsGo tail targets).1.walk (s.addStubsGo tail targets).2 =
        targets.reverse ++ (if tail ≠ 0 then s.walk tail else []) ∧
      (s.addStubsGo tail targets).2 = (s.addStubsGo tail targets).1.links.size - 1 ∧
      0 < (s.addStubsGo tail targets).2) := by
  obtain ⟨a1, a2, a3, a4, a5, a6⟩ := addStubsGo_aux targets s hwf tail ht
  refine ⟨a1, a2, a3, a4, ?_⟩
  intro hne
  obtain ⟨b1, b2⟩ := a6 hne
  refine ⟨?_, b1, b2⟩
  have : (s.addStubsGo tail targets).2 ≠ 0 := by omega
  unfold walk0 at a5
  rw [if_pos this] at a5
  exact a5

theorem addStubsGo_wf (s : State) (hwf : LinksWf s) (tail : Nat) (ht : tail < s.links.size)
    (targets : List Nat) : LinksWf (s.addStubsGo tail targets).1 :=
  (addStubsGo_spec s hwf tail ht targets).1
theorem addStubsGo_size (s : State) (hwf : LinksWf s) (tail : Nat) (ht : tail < s.links.size)
    (targets : List Nat) : (s.addStubsGo tail targets).1.links.size = s.links.size + targets.length :=
  (addStubsGo_spec s hwf tail ht targets).2.1
theorem addStubsGo_trie (s : State) (hwf : LinksWf s) (tail : Nat) (ht : tail < s.links.size)
    (targets : List Nat) : (s.addStubsGo tail targets).1.trie = s.trie :=
  (addStubsGo_spec s hwf tail ht targets).2.2.1
theorem addStubsGo_frame (s : State) (hwf : LinksWf s) (tail : Nat) (ht : tail < s.links.size)
    (targets : List Nat) (h : Nat) (hh : h < s.links.size) : (s.addStubsGo tail targets).1.walk h = s.walk h :=
  (addStubsGo_spec s hwf tail ht targets).2.2.2.1 h hh
theorem addStubsGo_walk (s : State) (hwf : LinksWf s) (tail : Nat) (ht : tail < s.links.size)
    (targets : List Nat) (hne : targets ≠ []) :
    (s.addStubsGo tail targets).1.walk (s.addStubsGo tail targets).2 =
      targets.reverse ++ (if tail ≠ 0 then s.walk tail else []) :=
  ((addStubsGo_spec s hwf tail ht targets).2.2.2.2 hne).1
theorem addStubsGo_head (s : State) (hwf : LinksWf s) (tail : Nat) (ht : tail < s.links.size)
    (targets : List Nat) (hne : targets ≠ []) :
    (s.addStubsGo tail targets).2 = (s.addStubsGo tail targets).1.links.size - 1 ∧
      0 < (s.addStubsGo tail targets).2 :=
  ((addStubsGo_spec s hwf tail ht targets).2.2.2.2 hne).2
/-- nothing at all happens for an empty list -/
theorem addStubsGo_nil (s : State) (tail : Nat) : s.addStubsGo tail [] = (s, tail) := rfl

/-! ## 4. Counter semantics of `countInto` -/

def count (t : Nat) (l : List Nat) : Nat := (l.filter (· = t)).length

@[simp] theorem count_nil (t : Nat) : count t [] = 0 := rfl
theorem count_cons (t a : Nat) (l : List Nat) : count t (a :: l) = (if a = t then 1 else 0) + count t l := by
  unfold count
  by_cases h : a = t
  · rw [List.filter_cons_of_pos (by simpa using h), if_pos h, List.length_cons]; omega
  · rw [List.filter_cons_of_neg (by simpa using h), if_neg h]; omega

theorem count_pos_iff (t : Nat) (l : List Nat) : 0 < count t l ↔ t ∈ l := by
  induction l with
  | nil => simp
  | cons a l ih =>
    rw [count_cons, List.mem_cons]
    by_cases h : a = t
    · rw [if_pos h]; constructor
      · intro _; left; exact h.symm
      · intro _; omega
    · rw [if_neg h, Nat.zero_add, ih]; constructor
      · intro h'; right; exact h'
      · intro h'; rcases h' with h' | h'
        · exact absurd h'.symm h
        · exact h'

/-- the weight recorded for key `t` (first match; `0` if absent) -/
def wt : List (Nat × Nat) → Nat → Nat
  | [], _ => 0
  | (k, n) :: rest, t => if k = t then n else wt rest t

theorem keys_countInto (acc : List (Nat × Nat)) (t : Nat) :
    (countInto acc t).map (·.1) =
      if t ∈ acc.map (·.1) then acc.map (·.1) else acc.map (·.1) ++ [t] := by
  induction acc with
  | nil => simp [countInto]
  | cons kn rest ih =>
    obtain ⟨k, n⟩ := kn
    unfold countInto
    by_cases h : k = t
    · rw [if_pos h]; subst h; simp
    · rw [if_neg h]
      have hne : ¬ t = k := fun e => h e.symm
      simp only [List.map_cons, ih, List.mem_cons, hne, false_or]
      split <;> simp

theorem wt_countInto (acc : List (Nat × Nat)) (t k : Nat) :
    wt (countInto acc t) k = wt acc k + (if k = t then 1 else 0) := by
  induction acc with
  | nil =>
    simp only [countInto, wt]
    by_cases h : t = k
    · rw [if_pos h, if_pos h.symm]
    · rw [if_neg h, if_neg (fun e => h e.symm)]
  | cons kn rest ih =>
    obtain ⟨a, n⟩ := kn
    unfold countInto
    by_cases h : a = t
    · rw [if_pos h]
      subst h
      simp only [wt]
      by_cases hk : a = k
      · rw [if_pos hk, if_pos hk, if_pos hk.symm]
      · rw [if_neg hk, if_neg hk, if_neg (fun e => hk e.symm)]; omega
    · rw [if_neg h]
      simp only [wt]
      by_cases hk : a = k
      · rw [if_pos hk, if_pos hk, if_neg (fun e => h (hk.trans e))]; omega
      · rw [if_neg hk, if_neg hk, ih]

theorem sum_countInto (acc : List (Nat × Nat)) (t : Nat) :
    ((countInto acc t).map (·.2)).sum = (acc.map (·.2)).sum + 1 := by
  induction acc with
  | nil => simp [countInto]
  | cons kn rest ih =>
    obtain ⟨a, n⟩ := kn
    unfold countInto
    by_cases h : a = t
    · rw [if_pos h]; simp only [List.map_cons, List.sum_cons]; omega
    · rw [if_neg h]; simp only [List.map_cons, List.sum_cons, ih]; omega

theorem keys_nodup_countInto (acc : List (Nat × Nat)) (t : Nat) (h : (acc.map (·.1)).Nodup) :
    ((countInto acc t).map (·.1)).Nodup := by
  rw [keys_countInto]
  split
  · exact h
  · next hn =>
    rw [List.nodup_append]
    refine ⟨h, by simp, ?_⟩
    intro a ha b hb
    have : b = t := by simpa using hb
    subst this
    intro e; subst e; exact hn ha

theorem mem_keys_countInto (acc : List (Nat × Nat)) (t k : Nat) :
    k ∈ (countInto acc t).map (·.1) ↔ k ∈ acc.map (·.1) ∨ k = t := by
  rw [keys_countInto]
  split
  · next hm =>
    constructor
    · intro h; left; exact h
    · intro h; rcases h with h | h
      · exact h
      · subst h; exact hm
  · rw [List.mem_append, List.mem_singleton]

/-- for duplicate-free keys, membership of a pair is "key present and weight is the recorded one" -/
theorem mem_iff_wt (acc : List (Nat × Nat)) (h : (acc.map (·.1)).Nodup) (t n : Nat) :
    (t, n) ∈ acc ↔ (t ∈ acc.map (·.1) ∧ n = wt acc t) := by
  induction acc with
  | nil => simp
  | cons kn rest ih =>
    obtain ⟨a, m⟩ := kn
    rw [List.map_cons, List.nodup_cons] at h
    obtain ⟨hnot, hnd⟩ := h
    simp only [List.mem_cons, List.map_cons, wt, Prod.mk.injEq]
    by_cases hk : a = t
    · subst hk
      rw [if_pos rfl]
      constructor
      · intro h'
        rcases h' with ⟨_, h'⟩ | h'
        · exact ⟨Or.inl rfl, h'⟩
        · exact absurd ((ih hnd).mp h').1 hnot
      · intro h'; left; exact ⟨rfl, h'.2⟩
    · rw [if_neg hk, ih hnd]
      have hk' : ¬ t = a := fun e => hk e.symm
      constructor
      · intro h'
        rcases h' with ⟨e, _⟩ | h'
        · exact absurd e hk'
        · exact ⟨Or.inr h'.1, h'.2⟩
      · intro h'
        rcases h' with ⟨e | h1, h2⟩
        · exact absurd e hk'
        · right; exact ⟨h1, h2⟩

/-! ### the fold, generalised over the accumulator -/

theorem fold_keys_nodup (l : List Nat) : ∀ (acc : List (Nat × Nat)), (acc.map (·.1)).Nodup →
    ((l.foldl countInto acc).map (·.1)).Nodup := by
  induction l with
  | nil => intro acc h; exact h
  | cons a l ih => intro acc h; exact ih _ (keys_nodup_countInto acc a h)

theorem fold_keys_mem (l : List Nat) : ∀ (acc : List (Nat × Nat)) (t : Nat),
    t ∈ (l.foldl countInto acc).map (·.1) ↔ (t ∈ acc.map (·.1) ∨ t ∈ l) := by
  induction l with
  | nil => intro acc t; simp
  | cons a l ih =>
    intro acc t
    rw [List.foldl_cons, ih, mem_keys_countInto, List.mem_cons, or_assoc]

theorem fold_wt (l : List Nat) : ∀ (acc : List (Nat × Nat)) (t : Nat),
    wt (l.foldl countInto acc) t = wt acc t + count t l := by
  induction l with
  | nil => intro acc t; simp
  | cons a l ih =>
    intro acc t
    rw [List.foldl_cons, ih, wt_countInto, count_cons]
    by_cases h : t = a
    · rw [if_pos h, if_pos h.symm]; omega
    · rw [if_neg h, if_neg (fun e => h e.symm)]; omega

theorem fold_sum (l : List Nat) : ∀ (acc : List (Nat × Nat)),
    ((l.foldl countInto acc).map (·.2)).sum = (acc.map (·.2)).sum + l.length := by
  induction l with
  | nil => intro acc; simp
  | cons a l ih =>
    intro acc
    rw [List.foldl_cons, ih, sum_countInto, List.length_cons]; omega

theorem fold_keys_eq (l : List Nat) : ∀ (acc : List (Nat × Nat)),
    (l.foldl countInto acc).map (·.1) =
      acc.map (·.1) ++ (l.filter (fun x => decide (x ∉ acc.map (·.1)))).eraseDups := by
  induction l with
  | nil => intro acc; simp
  | cons a l ih =>
    intro acc
    rw [List.foldl_cons, ih, keys_countInto]
    by_cases h : a ∈ acc.map (·.1)
    · rw [if_pos h, List.filter_cons_of_neg (by simpa using h)]
    · have hf : l.filter (fun x => decide (x ∉ acc.map (·.1) ++ [a])) =
          l.filter (fun x => (!x == a) && decide (x ∉ acc.map (·.1))) := by
        apply List.filter_congr
        intro x _
        have hmem : x ∈ acc.map (·.1) ++ [a] ↔ (x ∈ acc.map (·.1) ∨ x = a) := by
          rw [List.mem_append, List.mem_singleton]
        by_cases hx : x = a
        · have h1 : x ∈ acc.map (·.1) ++ [a] := hmem.mpr (Or.inr hx)
          have h2 : (x == a) = true := by simpa using hx
          simp [h1, h2]
        · have h2 : (x == a) = false := by simpa using hx
          by_cases hm : x ∈ acc.map (·.1)
          · have h1 : x ∈ acc.map (·.1) ++ [a] := hmem.mpr (Or.inl hm)
            simp only [h1, hm, h2]; rfl
          · have h1 : ¬ x ∈ acc.map (·.1) ++ [a] := fun e => (hmem.mp e).elim hm hx
            simp only [h1, hm, h2]; rfl
      rw [if_neg h, List.filter_cons_of_pos (by simpa using h), List.eraseDups_cons, List.filter_filter,
        List.append_assoc, hf]
      rfl

theorem countInto_fold_keys_nodup (l : List Nat) : ((l.foldl countInto []).map (·.1)).Nodup :=
  fold_keys_nodup l [] (by simp)

theorem countInto_fold_mem (l : List Nat) (t : Nat) : t ∈ (l.foldl countInto []).map (·.1) ↔ t ∈ l := by
  rw [fold_keys_mem]; simp

theorem countInto_fold_weight (l : List Nat) (t n : Nat) :
    (t, n) ∈ l.foldl countInto [] ↔ (t ∈ l ∧ n = count t l) := by
  rw [mem_iff_wt _ (countInto_fold_keys_nodup l), countInto_fold_mem, fold_wt]
  simp [wt]

theorem countInto_fold_total (l : List Nat) : ((l.foldl countInto []).map (·.2)).sum = l.length := by
  rw [fold_sum]; simp

/-- first-seen order -/
theorem countInto_fold_keys (l : List Nat) : (l.foldl countInto []).map (·.1) = l.eraseDups := by
  rw [fold_keys_eq]
  have hf : l.filter (fun x => decide (x ∉ ([] : List (Nat × Nat)).map (·.1))) = l :=
    List.filter_eq_self.mpr (by simp)
  rw [hf]; rfl

/-! ## 5. consequences for the model functions -/

theorem weighted_spec (s : State) (head t n : Nat) :
    (t, n) ∈ s.weighted head ↔ (t ∈ s.walk head ∧ n = count t (s.walk head)) :=
  countInto_fold_weight (s.walk head) t n

theorem deduped_nodup (s : State) (head : Nat) : (s.deduped head).Nodup :=
  countInto_fold_keys_nodup (s.walk head)

theorem deduped_mem (s : State) (head t : Nat) : t ∈ s.deduped head ↔ t ∈ s.walk head :=
  countInto_fold_mem (s.walk head) t

theorem deduped_eq (s : State) (head : Nat) : s.deduped head = (s.walk head).eraseDups :=
  countInto_fold_keys (s.walk head)

theorem weighted_total (s : State) (head : Nat) :
    ((s.weighted head).map (·.2)).sum = (s.walk head).length :=
  countInto_fold_total (s.walk head)

#print axioms addStubsGo_spec
#print axioms weighted_spec
#print axioms walk_appendStub

end Traph.State

import Proofs.CoSections
import Proofs.CoQuery
/-! C16 — the generators seen uniformly: the local invariant `CoOk` of a generator state, its
    stability under foreign sections, and the specification `CoSec` of one section of any generator. -/
namespace Traph
open State Layout

/-! ## all four generators, uniformly -/

/-- the LRUs a generator has still to submit as pages -/
def CoSt.todo : CoSt → List (LRU × Bool × Bool)
  | .batch b => b.todo
  | _ => []

/-- the generators that write -/
def CoSt.isWriter : CoSt → Prop
  | .pages _ => False
  | .net _ => False
  | .query _ => False
  | _ => True

/-- a rule installation that has not started has a complete LRU as its anchor (non-empty, spelled entirely by
    its stems, i.e. ending with the separator): otherwise the rule would be registered under a key that the
    look-up of `__add_page` never uses, and every later page insertion below the anchor raises `KeyError` -/
def CoSt.canon : CoSt → Prop
  | .rule r => r.started = false → lruIter r.anchor ≠ [] ∧ (lruIter r.anchor).flatten = r.anchor
  | _ => True

/-- the page queries -/
def CoSt.isPagesQuery : CoSt → Prop
  | .pages _ => True
  | _ => False

theorem resume_batch_fst (s : State) (b : BatchSt) :
    ((CoSt.batch b).resume s).1 = (batchResume 1000000 s b).1 := by
  rcases h : batchResume 1000000 s b with ⟨s1, b1, o⟩
  simp only [CoSt.resume, h]

theorem resume_batch_out (s : State) (b : BatchSt) :
    ((CoSt.batch b).resume s).2.2 = (batchResume 1000000 s b).2.2 := by
  rcases h : batchResume 1000000 s b with ⟨s1, b1, o⟩
  simp only [CoSt.resume, h]

theorem resume_batch_yielded (s : State) (b : BatchSt) (ho : (batchResume 1000000 s b).2.2 = .yielded) :
    ((CoSt.batch b).resume s).2.1 = .batch (batchResume 1000000 s b).2.1 := by
  rcases h : batchResume 1000000 s b with ⟨s1, b1, o⟩
  rw [h] at ho
  simp only at ho
  subst ho
  simp only [CoSt.resume, h]

theorem resume_batch_stopped (s : State) (b : BatchSt) (ho : (batchResume 1000000 s b).2.2 ≠ .yielded) :
    ((CoSt.batch b).resume s).2.1 = .finished := by
  rcases h : batchResume 1000000 s b with ⟨s1, b1, o⟩
  rw [h] at ho
  cases o with
  | yielded => exact absurd rfl ho
  | done a => simp only [CoSt.resume, h]
  | failed e => simp only [CoSt.resume, h]

theorem resume_rule_fst (s : State) (r : RuleSt) : ((CoSt.rule r).resume s).1 = (ruleResume s r).1 := by
  rcases h : ruleResume s r with ⟨s1, r1, o⟩
  simp only [CoSt.resume, h]

theorem resume_rule_out (s : State) (r : RuleSt) : ((CoSt.rule r).resume s).2.2 = (ruleResume s r).2.2 := by
  rcases h : ruleResume s r with ⟨s1, r1, o⟩
  simp only [CoSt.resume, h]

theorem resume_rule_yielded (s : State) (r : RuleSt) (ho : (ruleResume s r).2.2 = .yielded) :
    ((CoSt.rule r).resume s).2.1 = .rule (ruleResume s r).2.1 := by
  rcases h : ruleResume s r with ⟨s1, r1, o⟩
  rw [h] at ho
  simp only at ho
  subst ho
  simp only [CoSt.resume, h]

theorem resume_rule_stopped (s : State) (r : RuleSt) (ho : (ruleResume s r).2.2 ≠ .yielded) :
    ((CoSt.rule r).resume s).2.1 = .finished := by
  rcases h : ruleResume s r with ⟨s1, r1, o⟩
  rw [h] at ho
  cases o with
  | yielded => exact absurd rfl ho
  | done a => simp only [CoSt.resume, h]
  | failed e => simp only [CoSt.resume, h]

theorem resume_pages_state (s : State) (p : PagesSt) : ((CoSt.pages p).resume s).1 = s := rfl
theorem resume_net_state (s : State) (n : NetSt) : ((CoSt.net n).resume s).1 = s := rfl

theorem resume_pages_out (s : State) (p : PagesSt) :
    ((CoSt.pages p).resume s).2.2 = (pagesResume ((s.trie.size + 1) * (p.prefixes.length + 1)) s p).2 := by
  rcases h : pagesResume ((s.trie.size + 1) * (p.prefixes.length + 1)) s p with ⟨p1, o⟩
  simp only [CoSt.resume, h]

theorem resume_pages_yielded (s : State) (p : PagesSt)
    (ho : (pagesResume ((s.trie.size + 1) * (p.prefixes.length + 1)) s p).2 = .yielded) :
    ((CoSt.pages p).resume s).2.1 = .pages (pagesResume ((s.trie.size + 1) * (p.prefixes.length + 1)) s p).1 := by
  rcases h : pagesResume ((s.trie.size + 1) * (p.prefixes.length + 1)) s p with ⟨p1, o⟩
  rw [h] at ho
  simp only at ho
  subst ho
  simp only [CoSt.resume, h]

theorem resume_pages_stopped (s : State) (p : PagesSt)
    (ho : (pagesResume ((s.trie.size + 1) * (p.prefixes.length + 1)) s p).2 ≠ .yielded) :
    ((CoSt.pages p).resume s).2.1 = .finished := by
  rcases h : pagesResume ((s.trie.size + 1) * (p.prefixes.length + 1)) s p with ⟨p1, o⟩
  rw [h] at ho
  cases o with
  | yielded => exact absurd rfl ho
  | done a => simp only [CoSt.resume, h]
  | failed e => simp only [CoSt.resume, h]

theorem resume_net_out (s : State) (n : NetSt) :
    ((CoSt.net n).resume s).2.2 = (netResume (s.trie.size + s.links.size + n.pointers.length + 3) s n).2 := by
  rcases h : netResume (s.trie.size + s.links.size + n.pointers.length + 3) s n with ⟨n1, o⟩
  simp only [CoSt.resume, h]

theorem resume_net_yielded (s : State) (n : NetSt)
    (ho : (netResume (s.trie.size + s.links.size + n.pointers.length + 3) s n).2 = .yielded) :
    ((CoSt.net n).resume s).2.1 = .net (netResume (s.trie.size + s.links.size + n.pointers.length + 3) s n).1 := by
  rcases h : netResume (s.trie.size + s.links.size + n.pointers.length + 3) s n with ⟨n1, o⟩
  rw [h] at ho
  simp only at ho
  subst ho
  simp only [CoSt.resume, h]

theorem resume_net_stopped (s : State) (n : NetSt)
    (ho : (netResume (s.trie.size + s.links.size + n.pointers.length + 3) s n).2 ≠ .yielded) :
    ((CoSt.net n).resume s).2.1 = .finished := by
  rcases h : netResume (s.trie.size + s.links.size + n.pointers.length + 3) s n with ⟨n1, o⟩
  rw [h] at ho
  cases o with
  | yielded => exact absurd rfl ho
  | done a => simp only [CoSt.resume, h]
  | failed e => simp only [CoSt.resume, h]

theorem resume_query_state (s : State) (q : QSt) : ((CoSt.query q).resume s).1 = s := rfl

theorem resume_query_out (s : State) (q : QSt) : ((CoSt.query q).resume s).2.2 = (q.resume s).2 := by
  rcases h : q.resume s with ⟨q1, o⟩
  simp only [CoSt.resume, h]

theorem resume_query_yielded (s : State) (q : QSt) (ho : (q.resume s).2 = .yielded) :
    ((CoSt.query q).resume s).2.1 = .query (q.resume s).1 := by
  rcases h : q.resume s with ⟨q1, o⟩
  rw [h] at ho
  simp only at ho
  subst ho
  simp only [CoSt.resume, h]

theorem resume_query_stopped (s : State) (q : QSt) (ho : (q.resume s).2 ≠ .yielded) :
    ((CoSt.query q).resume s).2.1 = .finished := by
  rcases h : q.resume s with ⟨q1, o⟩
  rw [h] at ho
  cases o with
  | yielded => exact absurd rfl ho
  | done a => simp only [CoSt.resume, h]
  | failed e => simp only [CoSt.resume, h]

/-- a generator whose `next()` did not yield is exhausted -/
theorem resume_not_yielded (s : State) (c : CoSt) (h : (c.resume s).2.2 ≠ .yielded) :
    (c.resume s).2.1 = .finished := by
  cases c with
  | batch b => rw [resume_batch_out] at h; exact resume_batch_stopped s b h
  | rule r => rw [resume_rule_out] at h; exact resume_rule_stopped s r h
  | pages p => rw [resume_pages_out] at h; exact resume_pages_stopped s p h
  | net n => rw [resume_net_out] at h; exact resume_net_stopped s n h
  | query q => rw [resume_query_out] at h; exact resume_query_stopped s q h
  | finished => rfl

/-- a generator that yielded is still a generator of the same kind -/
theorem resume_yielded_kind (s : State) (c : CoSt) (h : (c.resume s).2.2 = .yielded) :
    (c.isWriter → (c.resume s).2.1.isWriter) ∧ (c.isPagesQuery → (c.resume s).2.1.isPagesQuery) ∧
      (c.resume s).2.1 ≠ .finished := by
  cases c with
  | batch b =>
    rw [resume_batch_out] at h; rw [resume_batch_yielded s b h]
    exact ⟨fun _ => trivial, fun hq => absurd hq id, fun e => by cases e⟩
  | rule r =>
    rw [resume_rule_out] at h; rw [resume_rule_yielded s r h]
    exact ⟨fun _ => trivial, fun hq => absurd hq id, fun e => by cases e⟩
  | pages p =>
    rw [resume_pages_out] at h; rw [resume_pages_yielded s p h]
    exact ⟨fun hw => absurd hw id, fun _ => trivial, fun e => by cases e⟩
  | net n =>
    rw [resume_net_out] at h; rw [resume_net_yielded s n h]
    exact ⟨fun hw => absurd hw id, fun hq => absurd hq id, fun e => by cases e⟩
  | query q =>
    rw [resume_query_out] at h; rw [resume_query_yielded s q h]
    exact ⟨fun hw => absurd hw id, fun hq => absurd hq id, fun e => by cases e⟩
  | finished => simp [CoSt.resume] at h

/-- the local invariant of a generator (queries need none for safety). For a crawl batch it includes the
    bound that keeps a section within the fuel `CoSt.resume` grants it. -/
def CoOk (s : State) (t : T) : CoSt → Prop
  | .batch b => BatchOk s t b ∧ batchWork b < 1000000
  | .rule r => RuleOk s t r
  | .pages p => PagesOk s t p
  | _ => True

/-- **local invariants are stable under the sections of all other generators**: they only mention
    entries of the tree and monotone facts of the heap -/
theorem CoOk.mono {s s' : State} {t t' : T} {c : CoSt}
    (h : Shape s t) (x : Ext s t s' t') (le : s ⊑ s') (hc : CoOk s t c) : CoOk s' t' c := by
  cases c with
  | batch b => exact ⟨hc.1.mono h x le, hc.2⟩
  | rule r => exact RuleOk.mono h x le hc
  | pages p => exact PagesOk.mono h x le hc
  | net n => trivial
  | query q => trivial
  | finished => trivial

/-- what one section of a generator does -/
structure CoSec (s : State) (t : T) (c : CoSt) (res : State × CoSt × CoOut) (t' : T) : Prop where
  ext  : Ext s t res.1 t'
  le   : s ⊑ res.1
  link : CoLinkStep s res.1
  rules : RulesOk s → c.canon → RulesOk res.1 ∧ res.2.1.canon ∧
    ∀ e, res.2.2 = .failed e → c.isWriter → e ≠ .other "KeyError"
  spec : Inv s t → CoOk s t c → ∃ A rest, Adds s t res.1 t' A ∧ c.todo = A ++ rest ∧ CoOk res.1 t' res.2.1 ∧
    (res.2.2 = .yielded → res.2.1.todo = rest) ∧
    (∀ a, res.2.2 = .done a → rest = []) ∧
    (∀ e, res.2.2 = .failed e → c.isWriter → e = .other "KeyError" ∨ (c = .finished ∧ e = .other "StopIteration")) ∧
    (∀ a, res.2.2 = .done a → c.isPagesQuery → AnswerOk res.1 t' a) ∧
    (∀ e, res.2.2 = .failed e → c.isPagesQuery → e = .traph ∨ e = .other "fuel")

/-- **every section of every generator is a `Step`** (shape kept, entries kept, heap order respected);
    for a system state satisfying `Inv` and the generator's local invariant the pages it adds are the
    next items of its own `todo` list, the local invariant is re-established, and a writer can only fail
    with the `KeyError` of `__add_page` -/
theorem resume_sec {s : State} {t : T} (h : Shape s t) (c : CoSt) : ∃ t', CoSec s t c (c.resume s) t' := by
  cases c with
  | batch b =>
    obtain ⟨t', sec⟩ := batchResume_sec 1000000 s t b h
    refine ⟨t', by rw [resume_batch_fst]; exact sec.ext, by rw [resume_batch_fst]; exact sec.le,
      by rw [resume_batch_fst]; exact sec.link, fun ok _ => ?_, fun hi hc => ?_⟩
    · obtain ⟨ok1, hnf⟩ := sec.rules ok
      rw [resume_batch_fst, resume_batch_out]
      refine ⟨ok1, ?_, fun e he _ hk => ?_⟩
      · by_cases ho : (batchResume 1000000 s b).2.2 = .yielded
        · rw [resume_batch_yielded s b ho]; trivial
        · rw [resume_batch_stopped s b ho]; trivial
      · have := hnf e he
        rw [hk] at this
        exact absurd this (by decide)
    obtain ⟨A, rest, a, e, hy, hd, hf⟩ := sec.spec hi hc.1
    rw [resume_batch_fst, resume_batch_out]
    refine ⟨A, rest, a, e, ?_, ?_, hd, ?_, fun _ _ hq => absurd hq id, fun _ _ hq => absurd hq id⟩
    · by_cases ho : (batchResume 1000000 s b).2.2 = .yielded
      · rw [resume_batch_yielded s b ho]
        obtain ⟨g1, _, g3⟩ := hy ho
        exact ⟨g1, Nat.lt_of_le_of_lt g3 hc.2⟩
      · rw [resume_batch_stopped s b ho]; trivial
    · intro ho
      rw [resume_batch_yielded s b ho]
      exact (hy ho).2.1
    · intro e' he _
      rcases hf e' he with h1 | ⟨_, h2⟩
      · exact Or.inl h1
      · exact absurd hc.2 (by omega)
  | rule r =>
    obtain ⟨t', sec⟩ := ruleResume_sec h r
    refine ⟨t', by rw [resume_rule_fst]; exact sec.ext, by rw [resume_rule_fst]; exact sec.le,
      by rw [resume_rule_fst]; exact sec.link, fun ok hcan => ?_, fun hi hc => ?_⟩
    · obtain ⟨ok1, hnf⟩ := sec.rules ok hcan
      rw [resume_rule_fst, resume_rule_out]
      refine ⟨ok1, ?_, fun e he _ _ => hnf e he⟩
      by_cases ho : (ruleResume s r).2.2 = .yielded
      · rw [resume_rule_yielded s r ho]
        intro hs
        rw [ruleResume_started] at hs
        cases hs
      · rw [resume_rule_stopped s r ho]; trivial
    obtain ⟨a, hy, hf⟩ := sec.spec hi hc
    rw [resume_rule_fst, resume_rule_out]
    refine ⟨[], [], a, rfl, ?_, ?_, fun _ _ => rfl, fun e' he _ => Or.inl (hf e' he),
      fun _ _ hq => absurd hq id, fun _ _ hq => absurd hq id⟩
    · by_cases ho : (ruleResume s r).2.2 = .yielded
      · rw [resume_rule_yielded s r ho]; exact hy ho
      · rw [resume_rule_stopped s r ho]; trivial
    · intro ho
      rw [resume_rule_yielded s r ho]
      rfl
  | pages p =>
    refine ⟨t, Ext.refl h, Le.refl s, CoLinkStep.refl s, fun ok _ => ⟨ok, ?_, fun _ _ hw => absurd hw id⟩, fun hi hc => ?_⟩
    · by_cases ho : (pagesResume ((s.trie.size + 1) * (p.prefixes.length + 1)) s p).2 = .yielded
      · rw [resume_pages_yielded s p ho]; trivial
      · rw [resume_pages_stopped s p ho]; trivial
    obtain ⟨hy, hd, hf⟩ := pagesResume_ok ((s.trie.size + 1) * (p.prefixes.length + 1)) s t p h hi hc
    refine ⟨[], [], Adds.refl hi, rfl, ?_, ?_, fun _ _ => rfl, fun _ _ hw => absurd hw id, ?_, ?_⟩
    · by_cases ho : (pagesResume ((s.trie.size + 1) * (p.prefixes.length + 1)) s p).2 = .yielded
      · rw [resume_pages_yielded s p ho]; exact hy ho
      · rw [resume_pages_stopped s p ho]; trivial
    · intro ho
      rw [resume_pages_out] at ho
      rw [resume_pages_yielded s p ho]
      rfl
    · intro a ho _
      rw [resume_pages_out] at ho
      exact hd a ho
    · intro e he _
      rw [resume_pages_out] at he
      exact hf e he
  | net n =>
    refine ⟨t, Ext.refl h, Le.refl s, CoLinkStep.refl s, fun ok _ => ⟨ok, ?_, fun _ _ hw => absurd hw id⟩,
      fun hi _ => ⟨[], [], Adds.refl hi, rfl, ?_, ?_, fun _ _ => rfl,
      fun _ _ hw => absurd hw id, fun _ _ hq => absurd hq id, fun _ _ hq => absurd hq id⟩⟩
    · by_cases ho : (netResume (s.trie.size + s.links.size + n.pointers.length + 3) s n).2 = .yielded
      · rw [resume_net_yielded s n ho]; trivial
      · rw [resume_net_stopped s n ho]; trivial
    · by_cases ho : (netResume (s.trie.size + s.links.size + n.pointers.length + 3) s n).2 = .yielded
      · rw [resume_net_yielded s n ho]; trivial
      · rw [resume_net_stopped s n ho]; trivial
    · intro ho
      rw [resume_net_out] at ho
      rw [resume_net_yielded s n ho]
      rfl
  | query q =>
    refine ⟨t, Ext.refl h, Le.refl s, CoLinkStep.refl s, fun ok _ => ⟨ok, ?_, fun _ _ hw => absurd hw id⟩,
      fun hi _ => ⟨[], [], Adds.refl hi, rfl, ?_, ?_, fun _ _ => rfl,
      fun _ _ hw => absurd hw id, fun _ _ hq => absurd hq id, fun _ _ hq => absurd hq id⟩⟩
    · by_cases ho : (q.resume s).2 = .yielded
      · rw [resume_query_yielded s q ho]; trivial
      · rw [resume_query_stopped s q ho]; trivial
    · by_cases ho : (q.resume s).2 = .yielded
      · rw [resume_query_yielded s q ho]; trivial
      · rw [resume_query_stopped s q ho]; trivial
    · intro ho
      rw [resume_query_out] at ho
      rw [resume_query_yielded s q ho]
      rfl
  | finished =>
    refine ⟨t, Ext.refl h, Le.refl s, CoLinkStep.refl s, fun ok _ => ⟨ok, trivial, fun e he _ hk => ?_⟩,
      fun hi _ => ⟨[], [], Adds.refl hi, rfl, trivial, fun _ => rfl, fun _ _ => rfl, ?_,
      fun _ _ hq => absurd hq id, fun _ _ hq => absurd hq id⟩⟩
    · simp only [CoSt.resume, CoOut.failed.injEq] at he
      rw [hk] at he
      exact absurd he (by decide)
    intro e he _
    simp only [CoSt.resume, CoOut.failed.injEq] at he
    exact Or.inr ⟨rfl, he.symm⟩

end Traph

import Proofs.ObsEquiv
import Proofs.WeMapRun
/-! Observational equivalence is a CONGRUENCE for the request language (C11).

    No write request iterates over the RAM rule dict: it is read by look-up only (`longestCandidate`, `removeRule`)
    and edited by `dictSet` / erasure, both of which respect content (`RulesEq.dictSet`, `RulesEq.erase`); `reopen`
    and `clear … (some rs)` replace it by a dict that does not depend on the old one, `clear … none` keeps it (RAM
    only — nothing is re-installed from it). So every request commutes with replacing the RAM dict by one of the
    same content (`oe_step_setRules`), with no side condition.

    `oe_step`: in equivalent states a request gives the same answer, equivalent states, and issues the same storage
    writes (the same new log entries). `oe_run`, `oe_transcript`: the same for histories. -/
namespace Traph
open State

namespace State

/-- case-split every `if`/`match` left in the goal, closing each branch by `rfl` -/
local macro "oesplit" : tactic => `(tactic| repeat' (first | rfl | split))

/-! ### field lemmas -/

theorem oe_sr_eq_ram (s : State) (rs) : s.oe_setRules rs = s.oe_ram rs s.log := rfl
theorem oe_sr_trie (s : State) (rs) : (s.oe_setRules rs).trie = s.trie := rfl
theorem oe_sr_links (s : State) (rs) : (s.oe_setRules rs).links = s.links := rfl
theorem oe_sr_hdrId (s : State) (rs) : (s.oe_setRules rs).hdrId = s.hdrId := rfl
theorem oe_sr_rules (s : State) (rs) : (s.oe_setRules rs).rules = rs := rfl
theorem oe_sr_dflt (s : State) (rs) : (s.oe_setRules rs).dflt = s.dflt := rfl
theorem oe_sr_cfg (s : State) (rs) : (s.oe_setRules rs).cfg = s.cfg := rfl
theorem oe_sr_log (s : State) (rs) : (s.oe_setRules rs).log = s.log := rfl
theorem oe_sr_cell (s : State) (rs) (i : Nat) : (s.oe_setRules rs).cell i = s.cell i := rfl
theorem oe_sr_self (s : State) : s.oe_setRules s.rules = s := rfl
theorem oe_sr_sr (s : State) (a b) : (s.oe_setRules a).oe_setRules b = s.oe_setRules b := rfl
theorem oe_sr_addLog (s : State) (rs) (l : List Write) : (s.oe_setRules rs).addLog l = (s.addLog l).oe_setRules rs := rfl

theorem oe_sr_mk (h : Nat) (t : Array Cell) (k : Array Stub) (r : List (Bytes × Rule)) (d : Rule) (c : Config)
    (lg : List Write) (rs) : (⟨h, t, k, r, d, c, lg⟩ : State).oe_setRules rs = ⟨h, t, k, rs, d, c, lg⟩ := rfl

/-- a function that commutes with replacing the RAM dict keeps it -/
theorem oe_rules_of_comm {α} {s : State} {f : State → State × α}
    (h : f (s.oe_setRules s.rules) = ((f s).1.oe_setRules s.rules, (f s).2)) : (f s).1.rules = s.rules := by
  have := congrArg (fun x => x.1.rules) h
  exact this

theorem oe_rules_of_comm' {s : State} {f : State → State}
    (h : f (s.oe_setRules s.rules) = (f s).oe_setRules s.rules) : (f s).rules = s.rules := by
  have := congrArg (fun x => x.rules) h
  exact this

/-! ### primitives -/

theorem appendCell_oe (s : State) (rs) (c : Cell) :
    (s.oe_setRules rs).appendCell c = ((s.appendCell c).1.oe_setRules rs, (s.appendCell c).2) := rfl

theorem setCell_oe (s : State) (rs) (i : Nat) (c : Cell) :
    (s.oe_setRules rs).setCell i c = (s.setCell i c).oe_setRules rs := rfl

theorem appendStub_oe (s : State) (rs) (b : Stub) :
    (s.oe_setRules rs).appendStub b = ((s.appendStub b).1.oe_setRules rs, (s.appendStub b).2) := rfl

theorem setHdr_oe (s : State) (rs) (id : Nat) : (s.oe_setRules rs).setHdr id = (s.setHdr id).oe_setRules rs := rfl

theorem modCell_oe (s : State) (rs) (i : Nat) (f : Cell → Cell) :
    (s.oe_setRules rs).modCell i f = (s.modCell i f).oe_setRules rs := by
  unfold modCell
  simp only [oe_sr_trie]
  cases s.trie[i]? <;> rfl

theorem foldl_modCell_oe {α} (g : α → Nat) (f : α → Cell → Cell) (xs : List α) (s : State) (rs) :
    xs.foldl (fun st x => st.modCell (g x) (f x)) (s.oe_setRules rs)
      = (xs.foldl (fun st x => st.modCell (g x) (f x)) s).oe_setRules rs := by
  induction xs generalizing s with
  | nil => rfl
  | cons x xs ih => simp only [List.foldl_cons, modCell_oe, ih]

/-! ### read-only functions -/

theorem oe_sr_stemAt (s : State) (rs) (i : Nat) : (s.oe_setRules rs).stemAt i = s.stemAt i := oe_stemAt s rs s.log i

theorem oe_sr_findSib (s : State) (rs) (stem : Stem) (fuel p : Nat) :
    (s.oe_setRules rs).findSib stem fuel p = s.findSib stem fuel p := oe_findSib s rs s.log stem fuel p

theorem oe_sr_lruNode (s : State) (rs) (stems : LRU) : (s.oe_setRules rs).lruNode stems = s.lruNode stems :=
  oe_lruNode s rs s.log stems

theorem oe_sr_longestCandidate (s : State) (rs) (hr : RulesEq s.rules rs) (lru : Bytes) (h : Hist) :
    (s.oe_setRules rs).longestCandidate lru h = s.longestCandidate lru h := oe_longestCandidate s rs s.log hr lru h

theorem oe_sr_deleteScanChecked (s : State) (rs) (weid : Nat) (ps : List Bytes) (idx : List (Bytes × Nat)) :
    (s.oe_setRules rs).deleteScanChecked weid ps idx = s.deleteScanChecked weid ps idx := by
  induction ps generalizing idx with
  | nil => rfl
  | cons p ps ih =>
    simp only [deleteScanChecked, oe_sr_lruNode, oe_sr_cell, ih]
    rfl

/-! ### trie writes -/

theorem appendCells_oe (s : State) (rs) (cs : List Cell) :
    (s.oe_setRules rs).appendCells cs = (s.appendCells cs).oe_setRules rs := by
  induction cs generalizing s with
  | nil => rfl
  | cons c cs ih => simp only [appendCells, appendCell_oe, ih]

theorem writeNew_oe (s : State) (rs) (stem : Stem) (parent : Nat) (canHave : Bool) :
    (s.oe_setRules rs).writeNew stem parent canHave
      = ((s.writeNew stem parent canHave).1.oe_setRules rs, (s.writeNew stem parent canHave).2) := by
  simp only [writeNew, appendCell_oe, appendCells_oe]

theorem ensureStem_oe (s : State) (rs) (start : Nat) (ex : Bool) (stem : Stem) :
    (s.oe_setRules rs).ensureStem start ex stem
      = ((s.ensureStem start ex stem).1.oe_setRules rs, (s.ensureStem start ex stem).2) := by
  unfold ensureStem
  simp only [oe_sr_findSib, oe_sr_trie, oe_sr_cell, writeNew_oe, modCell_oe]
  split
  · rfl
  · split <;> rfl

theorem markCanHave_oe (s : State) (rs) (n : Nat) (b : Bool) :
    (s.oe_setRules rs).markCanHave n b = (s.markCanHave n b).oe_setRules rs := by
  unfold markCanHave
  split
  · rw [modCell_oe]
  · rfl

theorem addLruDescend_oe (flag : Bool) (s : State) (rs) (stems : List Stem)
    (node : Nat) (ex : Bool) (pos : Nat) (h : Hist) :
    addLruDescend flag (s.oe_setRules rs) stems node ex pos h
      = ((addLruDescend flag s stems node ex pos h).1.oe_setRules rs, (addLruDescend flag s stems node ex pos h).2) := by
  induction stems generalizing s node ex pos h with
  | nil => rfl
  | cons stem rest ih =>
    simp only [addLruDescend, ensureStem_oe, oe_sr_cell, markCanHave_oe, ih]
    split <;> rfl

theorem addLruCreate_oe (flag : Bool) (s : State) (rs) (stems : List Stem) (node : Nat) :
    addLruCreate flag (s.oe_setRules rs) stems node
      = ((addLruCreate flag s stems node).1.oe_setRules rs, (addLruCreate flag s stems node).2) := by
  induction stems generalizing s node with
  | nil => rfl
  | cons stem rest ih =>
    simp only [addLruCreate, writeNew_oe, modCell_oe, ih]

theorem addLru_oe (s : State) (rs) (stems : LRU) (flag : Bool) :
    (s.oe_setRules rs).addLru stems flag = ((s.addLru stems flag).1.oe_setRules rs, (s.addLru stems flag).2) := by
  simp only [addLru, addLruDescend_oe, oe_sr_trie, addLruCreate_oe]
  rfl

theorem addPageTrie_oe (s : State) (rs) (stems : LRU) (crawled : Bool) :
    (s.oe_setRules rs).addPageTrie stems crawled
      = ((s.addPageTrie stems crawled).1.oe_setRules rs, (s.addPageTrie stems crawled).2) := by
  simp only [addPageTrie, addLru_oe, oe_sr_cell, modCell_oe]
  split
  · rfl
  · split <;> rfl

/-! ### link store writes -/

theorem addStubsGo_oe (s : State) (rs) (tail : Nat) (ts : List Nat) :
    addStubsGo (s.oe_setRules rs) tail ts = ((addStubsGo s tail ts).1.oe_setRules rs, (addStubsGo s tail ts).2) := by
  induction ts generalizing s tail with
  | nil => rfl
  | cons t ts ih => simp only [addStubsGo, appendStub_oe, ih]

theorem addStubs_oe (s : State) (rs) (page : Nat) (targets : List Nat) (out : Bool) :
    (s.oe_setRules rs).addStubs page targets out = (s.addStubs page targets out).oe_setRules rs := by
  simp only [addStubs, oe_sr_cell, addStubsGo_oe, modCell_oe]
  split <;> rfl

/-! ### API helpers (the RAM dict is not read) -/

theorem genId_oe (s : State) (rs) : (s.oe_setRules rs).genId = (s.genId.1.oe_setRules rs, s.genId.2) := rfl

theorem addPrefixesScan_oe (s : State) (rs) (ps : List Bytes) (valid : List (Bytes × Nat)) (nInvalid : Nat) :
    addPrefixesScan (s.oe_setRules rs) ps valid nInvalid
      = ((addPrefixesScan s ps valid nInvalid).1.oe_setRules rs, (addPrefixesScan s ps valid nInvalid).2) := by
  induction ps generalizing s valid nInvalid with
  | nil => rfl
  | cons p ps ih =>
    simp only [addPrefixesScan, addLru_oe, oe_sr_cell]
    split
    · rw [ih]
    · rw [ih]

theorem addPrefixes_oe (s : State) (rs) (prefixes : List Bytes) (best : Bool) :
    (s.oe_setRules rs).addPrefixes prefixes best
      = ((s.addPrefixes prefixes best).1.oe_setRules rs, (s.addPrefixes prefixes best).2) := by
  simp only [addPrefixes, addPrefixesScan_oe, genId_oe, foldl_modCell_oe]
  split
  · rfl
  · split <;> rfl

theorem createWebentityAuto_oe (s : State) (rs) (pfx : Bytes) :
    (s.oe_setRules rs).createWebentityAuto pfx
      = ((s.createWebentityAuto pfx).1.oe_setRules rs, (s.createWebentityAuto pfx).2) := by
  unfold createWebentityAuto
  rw [addPrefixes_oe]
  generalize s.addPrefixes (lruVariations pfx) true = X
  rcases X with ⟨s1, (e | ⟨(_ | id), ps⟩)⟩ <;> rfl

theorem flushLists_oe (out : Bool) (pages : List (Bytes × Nat)) (s : State) (rs)
    (xs : List (Bytes × List Bytes)) :
    flushLists out pages (s.oe_setRules rs) xs = (flushLists out pages s xs).oe_setRules rs := by
  induction xs generalizing s with
  | nil => rfl
  | cons x xs ih =>
    obtain ⟨p, others⟩ := x
    simp only [flushLists, addStubs_oe, ih]

theorem createWebentity_oe (s : State) (rs) (prefixes : List Bytes) :
    (s.oe_setRules rs).createWebentity prefixes
      = ((s.createWebentity prefixes).1.oe_setRules rs, (s.createWebentity prefixes).2) := by
  unfold createWebentity
  rw [addPrefixes_oe]
  generalize s.addPrefixes prefixes false = X
  rcases X with ⟨s1, (e | ⟨id, ps⟩)⟩ <;> rfl

theorem deleteWebentity_oe (s : State) (rs) (weid : Nat) (prefixes : List Bytes) :
    (s.oe_setRules rs).deleteWebentity weid prefixes
      = ((s.deleteWebentity weid prefixes).1.oe_setRules rs, (s.deleteWebentity weid prefixes).2) := by
  unfold deleteWebentity
  rw [oe_sr_deleteScanChecked]
  cases s.deleteScanChecked weid prefixes [] with
  | error e => rfl
  | ok idx => simp only [foldl_modCell_oe]

theorem addPrefix_oe (s : State) (rs) (pfx : Bytes) (weid : Nat) :
    (s.oe_setRules rs).addPrefix pfx weid = ((s.addPrefix pfx weid).1.oe_setRules rs, (s.addPrefix pfx weid).2) := by
  simp only [addPrefix, addLru_oe, oe_sr_cell, modCell_oe]
  split <;> rfl

theorem removePrefix_oe (s : State) (rs) (pfx : Bytes) (weid : Option Nat) :
    (s.oe_setRules rs).removePrefix pfx weid
      = ((s.removePrefix pfx weid).1.oe_setRules rs, (s.removePrefix pfx weid).2) := by
  simp only [removePrefix, addLru_oe, oe_sr_cell, modCell_oe]
  oesplit

theorem movePrefix_oe (s : State) (rs) (pfx : Bytes) (target : Nat) (source : Option Nat) :
    (s.oe_setRules rs).movePrefix pfx target source
      = ((s.movePrefix pfx target source).1.oe_setRules rs, (s.movePrefix pfx target source).2) := by
  unfold movePrefix
  rw [removePrefix_oe]
  generalize s.removePrefix pfx source = X
  rcases X with ⟨s1, (e | u)⟩
  · rfl
  · exact addPrefix_oe _ _ _ _

/-! ### requests that read the RAM dict: its content only -/

theorem addPageCore_oe (s : State) (rs) (hr : RulesEq s.rules rs) (lru : Bytes) (crawled : Bool) :
    (s.oe_setRules rs).addPageCore lru crawled
      = ((s.addPageCore lru crawled).1.oe_setRules rs, (s.addPageCore lru crawled).2) := by
  unfold addPageCore
  rw [addPageTrie_oe]
  have hk : (s.addPageTrie (lruIter lru) crawled).1.rules = s.rules :=
    oe_rules_of_comm (f := fun s => s.addPageTrie (lruIter lru) crawled) (addPageTrie_oe s s.rules _ _)
  revert hk
  generalize s.addPageTrie (lruIter lru) crawled = X
  rcases X with ⟨s1, n, h⟩
  intro hk
  have hr1 : RulesEq s1.rules rs := by
    have : s1.rules = s.rules := hk
    rw [this]; exact hr
  simp only [oe_sr_longestCandidate s1 rs hr1, oe_sr_dflt, createWebentityAuto_oe]
  oesplit

theorem oe_addPageCore_rules (s : State) (lru : Bytes) (crawled : Bool) : (s.addPageCore lru crawled).1.rules = s.rules :=
  oe_rules_of_comm (f := fun s => s.addPageCore lru crawled) (addPageCore_oe s s.rules (RulesEq.refl _) lru crawled)

theorem addPage_oe (s : State) (rs) (hr : RulesEq s.rules rs) (lru : Bytes) (crawled : Bool) :
    (s.oe_setRules rs).addPage lru crawled = ((s.addPage lru crawled).1.oe_setRules rs, (s.addPage lru crawled).2) := by
  simp only [addPage, addPageCore_oe s rs hr]

theorem oe_addStubs_rules (s : State) (page : Nat) (targets : List Nat) (out : Bool) :
    (s.addStubs page targets out).rules = s.rules :=
  oe_rules_of_comm' (f := fun s => s.addStubs page targets out) (addStubs_oe s s.rules _ _ _)

theorem oe_modCell_rules (s : State) (n : Nat) (f : Cell → Cell) : (s.modCell n f).rules = s.rules :=
  oe_rules_of_comm' (f := fun s => s.modCell n f) (modCell_oe s s.rules n f)

theorem addPagesGo_oe (always : Bool) (s : State) (rs) (hr : RulesEq s.rules rs) (ls : List Bytes) (crawled : Bool)
    (rep : Report) :
    addPagesGo always (s.oe_setRules rs) ls crawled rep
      = ((addPagesGo always s ls crawled rep).1.oe_setRules rs, (addPagesGo always s ls crawled rep).2) := by
  induction ls generalizing s rep with
  | nil => rfl
  | cons x ls ih =>
    unfold addPagesGo
    rw [addPageCore_oe s rs hr]
    have hk := oe_addPageCore_rules s x crawled
    revert hk
    generalize s.addPageCore x crawled = X
    rcases X with ⟨s1, n, (e | r)⟩
    · intro _; rfl
    · intro hk
      have hr1 : RulesEq s1.rules rs := by
        have : s1.rules = s.rules := hk
        rw [this]; exact hr
      cases always
      · exact ih s1 hr1 _
      · simp only [if_true, modCell_oe]
        refine ih _ ?_ _
        rw [oe_modCell_rules]; exact hr1

theorem addPages_oe (s : State) (rs) (hr : RulesEq s.rules rs) (lrus : List Bytes) (crawled : Bool) :
    (s.oe_setRules rs).addPages lrus crawled
      = ((s.addPages lrus crawled).1.oe_setRules rs, (s.addPages lrus crawled).2) := by
  simp only [addPages, oe_sr_cfg, addPagesGo_oe _ s rs hr]

theorem ensurePageCached_oe (s : State) (rs) (hr : RulesEq s.rules rs) (acc : LinkAcc) (x : Bytes) (crawled : Bool) :
    (s.oe_setRules rs).ensurePageCached acc x crawled
      = ((s.ensurePageCached acc x crawled).1.oe_setRules rs, (s.ensurePageCached acc x crawled).2) := by
  unfold ensurePageCached
  cases dictGet? acc.pages x with
  | some _ => rfl
  | none =>
    simp only
    rw [addPageCore_oe s rs hr]
    generalize s.addPageCore x crawled = X
    rcases X with ⟨s1, n, (e | r)⟩ <;> rfl

theorem oe_ensurePageCached_rules (s : State) (acc : LinkAcc) (x : Bytes) (crawled : Bool) :
    (s.ensurePageCached acc x crawled).1.rules = s.rules :=
  oe_rules_of_comm (f := fun s => s.ensurePageCached acc x crawled)
    (ensurePageCached_oe s s.rules (RulesEq.refl _) acc x crawled)

theorem addLinksScan_oe (s : State) (rs) (hr : RulesEq s.rules rs) (links : List (Bytes × Bytes)) (acc : LinkAcc) :
    addLinksScan (s.oe_setRules rs) links acc
      = ((addLinksScan s links acc).1.oe_setRules rs, (addLinksScan s links acc).2) := by
  induction links generalizing s acc with
  | nil => rfl
  | cons x rest ih =>
    obtain ⟨src, tgt⟩ := x
    unfold addLinksScan
    rw [ensurePageCached_oe s rs hr]
    have hk := oe_ensurePageCached_rules s acc src false
    revert hk
    generalize s.ensurePageCached acc src false = X
    rcases X with ⟨s1, (e | acc1)⟩
    · intro _; rfl
    · intro hk
      have hr1 : RulesEq s1.rules rs := by
        have : s1.rules = s.rules := hk
        rw [this]; exact hr
      simp only
      rw [ensurePageCached_oe s1 rs hr1]
      have hk2 := oe_ensurePageCached_rules s1 acc1 tgt false
      revert hk2
      generalize s1.ensurePageCached acc1 tgt false = Y
      rcases Y with ⟨s2, (e | acc2)⟩
      · intro _; rfl
      · intro hk2
        have hr2 : RulesEq s2.rules rs := by
          have : s2.rules = s1.rules := hk2
          rw [this]; exact hr1
        exact ih s2 hr2 _

theorem addLinks_oe (s : State) (rs) (hr : RulesEq s.rules rs) (links : List (Bytes × Bytes)) :
    (s.oe_setRules rs).addLinks links = ((s.addLinks links).1.oe_setRules rs, (s.addLinks links).2) := by
  unfold addLinks
  rw [addLinksScan_oe s rs hr]
  generalize addLinksScan s links {} = X
  rcases X with ⟨s1, (e | acc)⟩
  · rfl
  · simp only [flushLists_oe]

theorem batchTargets_oe (s : State) (rs) (hr : RulesEq s.rules rs) (src : Bytes) (ts : List Bytes) (acc : LinkAcc)
    (tb : List Nat) :
    batchTargets (s.oe_setRules rs) src ts acc tb
      = ((batchTargets s src ts acc tb).1.oe_setRules rs, (batchTargets s src ts acc tb).2) := by
  induction ts generalizing s acc tb with
  | nil => rfl
  | cons t ts ih =>
    unfold batchTargets
    rw [ensurePageCached_oe s rs hr]
    have hk := oe_ensurePageCached_rules s acc t false
    revert hk
    generalize s.ensurePageCached acc t false = X
    rcases X with ⟨s1, (e | acc1)⟩
    · intro _; rfl
    · intro hk
      have hr1 : RulesEq s1.rules rs := by
        have : s1.rules = s.rules := hk
        rw [this]; exact hr
      exact ih s1 hr1 _ _

theorem oe_batchTargets_rules (s : State) (src : Bytes) (ts : List Bytes) (acc : LinkAcc) (tb : List Nat) :
    (batchTargets s src ts acc tb).1.rules = s.rules :=
  oe_rules_of_comm (f := fun s => batchTargets s src ts acc tb)
    (batchTargets_oe s s.rules (RulesEq.refl _) src ts acc tb)

theorem bsHead_oe (s : State) (rs) (hr : RulesEq s.rules rs) (acc : LinkAcc) (src : Bytes) :
    bsHead (s.oe_setRules rs) acc src = ((bsHead s acc src).1.oe_setRules rs, (bsHead s acc src).2) := by
  unfold bsHead
  cases dictGet? acc.pages src with
  | none => exact ensurePageCached_oe s rs hr _ _ _
  | some n =>
    simp only [oe_sr_cell, modCell_oe]
    oesplit

theorem oe_bsHead_rules (s : State) (acc : LinkAcc) (src : Bytes) : (bsHead s acc src).1.rules = s.rules :=
  oe_rules_of_comm (f := fun s => bsHead s acc src) (bsHead_oe s s.rules (RulesEq.refl _) acc src)

theorem batchSources_oe (s : State) (rs) (hr : RulesEq s.rules rs) (data : List (Bytes × List Bytes)) (acc : LinkAcc) :
    batchSources (s.oe_setRules rs) data acc
      = ((batchSources s data acc).1.oe_setRules rs, (batchSources s data acc).2) := by
  induction data generalizing s acc with
  | nil => rfl
  | cons x rest ih =>
    obtain ⟨src, tgts⟩ := x
    rw [batchSources_cons, batchSources_cons, bsHead_oe s rs hr]
    have hk := oe_bsHead_rules s acc src
    revert hk
    generalize bsHead s acc src = X
    rcases X with ⟨s1, (e | acc1)⟩
    · intro _; rfl
    · intro hk
      have hr1 : RulesEq s1.rules rs := by
        have : s1.rules = s.rules := hk
        rw [this]; exact hr
      unfold bsCont
      simp only
      rw [batchTargets_oe s1 rs hr1]
      have hk2 := oe_batchTargets_rules s1 src tgts acc1 []
      revert hk2
      generalize batchTargets s1 src tgts acc1 [] = Y
      rcases Y with ⟨s2, (e | ⟨acc2, tb⟩)⟩
      · intro _; rfl
      · intro hk2
        have hr2 : RulesEq s2.rules rs := by
          have : s2.rules = s1.rules := hk2
          rw [this]; exact hr1
        simp only [addStubs_oe]
        refine ih _ ?_ _
        rw [oe_addStubs_rules]; exact hr2

theorem batch_oe (s : State) (rs) (hr : RulesEq s.rules rs) (data : List (Bytes × List Bytes)) :
    (s.oe_setRules rs).batch data = ((s.batch data).1.oe_setRules rs, (s.batch data).2) := by
  unfold batch
  rw [batchSources_oe s rs hr]
  generalize batchSources s data {} = X
  rcases X with ⟨s1, (e | acc)⟩
  · rfl
  · simp only [flushLists_oe]

theorem addRuleLoop_oe (startBlock : Nat) (fuel : Nat) (s : State) (rs) (hr : RulesEq s.rules rs)
    (stack : List (Nat × Bytes)) (rep : Report) :
    addRuleLoop startBlock fuel (s.oe_setRules rs) stack rep
      = ((addRuleLoop startBlock fuel s stack rep).1.oe_setRules rs, (addRuleLoop startBlock fuel s stack rep).2) := by
  induction fuel generalizing s stack rep with
  | zero => rfl
  | succ n ih =>
    cases stack with
    | nil => rfl
    | cons bl stack =>
      obtain ⟨b, lru⟩ := bl
      simp only [addRuleLoop, oe_sr_cell, oe_sr_stemAt, addPageCore_oe s rs hr]
      cases (s.cell b).flags.page
      · simp only [Bool.false_eq_true, if_false]
        exact ih s hr _ _
      · simp only [if_true]
        have hk := oe_addPageCore_rules s (lru ++ s.stemAt b) false
        revert hk
        generalize s.addPageCore (lru ++ s.stemAt b) false = X
        rcases X with ⟨s1, n', (e | r1)⟩
        · intro _; rfl
        · intro hk
          have hr1 : RulesEq s1.rules rs := by
            have : s1.rules = s.rules := hk
            rw [this]; exact hr
          exact ih s1 hr1 _ _

theorem oe_addRuleLoop_rules (startBlock : Nat) (fuel : Nat) (s : State) (stack : List (Nat × Bytes)) (rep : Report) :
    (addRuleLoop startBlock fuel s stack rep).1.rules = s.rules :=
  oe_rules_of_comm (f := fun s => addRuleLoop startBlock fuel s stack rep)
    (addRuleLoop_oe startBlock fuel s s.rules (RulesEq.refl _) stack rep)

/-! ### requests that edit the RAM dict -/

/-- `addRule`: the dict of the same content is edited by the same `dictSet` -/
theorem addRule_oe (s : State) (rs) (hr : RulesEq s.rules rs) (anchor : Bytes) (r : Rule) (w : Bool) :
    (s.oe_setRules rs).addRule anchor r w
      = ((s.addRule anchor r w).1.oe_setRules (dictSet rs anchor r), (s.addRule anchor r w).2) ∧
    (s.addRule anchor r w).1.rules = dictSet s.rules anchor r := by
  have hr0 : RulesEq (dictSet s.rules anchor r) (dictSet rs anchor r) := hr.dictSet anchor r
  cases w with
  | false => exact ⟨rfl, rfl⟩
  | true =>
    have e0 : ({ s.oe_setRules rs with rules := dictSet (s.oe_setRules rs).rules anchor r } : State)
        = ({ s with rules := dictSet s.rules anchor r } : State).oe_setRules (dictSet rs anchor r) := rfl
    unfold addRule
    rw [e0]
    generalize hs0 : ({ s with rules := dictSet s.rules anchor r } : State) = s0
    have hk0 : s0.rules = dictSet s.rules anchor r := by rw [← hs0]
    simp only [Bool.not_true, Bool.false_eq_true, if_false, addLru_oe, modCell_oe, oe_sr_trie]
    have hk1 : (s0.addLru (lruIter anchor) false).1.rules = s0.rules :=
      oe_rules_of_comm (f := fun s => s.addLru (lruIter anchor) false) (addLru_oe s0 s0.rules _ _)
    revert hk1
    generalize s0.addLru (lruIter anchor) false = X
    rcases X with ⟨s1, n, h⟩
    intro hk1
    simp only
    have hk2 : (s1.modCell n (fun c => { c with flags := { c.flags with rule := true } })).rules = s0.rules := by
      rw [oe_modCell_rules]; exact hk1
    have hr2 : RulesEq (s1.modCell n (fun c => { c with flags := { c.flags with rule := true } })).rules
        (dictSet rs anchor r) := by rw [hk2, hk0]; exact hr0
    refine ⟨addRuleLoop_oe _ _ _ _ hr2 _ _, ?_⟩
    rw [oe_addRuleLoop_rules, hk2, hk0]

theorem oe_filter_of_none {β} (d : List (Bytes × β)) (a : Bytes) (h : dictGet? d a = none) :
    d.filter (fun p => p.1 ≠ a) = d := by
  rw [oe_dictGet_none_iff] at h
  rw [List.filter_eq_self]
  intro p hp
  have : p.1 ≠ a := fun e => h (List.mem_map.mpr ⟨p, hp, e⟩)
  simpa using this

/-- `removeRule`: the dict of the same content is edited by the same erasure -/
theorem removeRule_oe (s : State) (rs) (hr : RulesEq s.rules rs) (anchor : Bytes) :
    (s.oe_setRules rs).removeRule anchor
      = ((s.removeRule anchor).1.oe_setRules (rs.filter (fun p => p.1 ≠ anchor)), (s.removeRule anchor).2) ∧
    (s.removeRule anchor).1.rules = s.rules.filter (fun p => p.1 ≠ anchor) := by
  unfold removeRule
  simp only [oe_sr_rules, ← hr anchor]
  cases hg : dictGet? s.rules anchor with
  | none =>
    simp only
    rw [oe_filter_of_none rs anchor (by rw [← hr anchor]; exact hg), oe_filter_of_none s.rules anchor hg]
    exact ⟨rfl, rfl⟩
  | some v =>
    simp only
    have e0 : ({ s.oe_setRules rs with rules := rs.filter (fun p => p.1 ≠ anchor) } : State)
        = ({ s with rules := s.rules.filter (fun p => p.1 ≠ anchor) } : State).oe_setRules
            (rs.filter (fun p => p.1 ≠ anchor)) := rfl
    rw [e0]
    generalize hs0 : ({ s with rules := s.rules.filter (fun p => p.1 ≠ anchor) } : State) = s0
    have hk0 : s0.rules = s.rules.filter (fun p => p.1 ≠ anchor) := by rw [← hs0]
    simp only [oe_sr_lruNode, modCell_oe]
    cases s0.lruNode (lruIter anchor) with
    | none => exact ⟨rfl, hk0⟩
    | some n =>
      refine ⟨rfl, ?_⟩
      simp only
      rw [oe_modCell_rules]; exact hk0

/-- `installRules` (the constructor's and `clear`'s loop over the GIVEN list, not over the RAM dict) -/
theorem installRules_oe (l : List (Bytes × Rule)) (w : Bool) (s : State) (rs) (hr : RulesEq s.rules rs) :
    ∃ rs', RulesEq (installRules s l w).1.rules rs' ∧
      installRules (s.oe_setRules rs) l w = ((installRules s l w).1.oe_setRules rs', (installRules s l w).2) := by
  induction l generalizing s rs with
  | nil => exact ⟨rs, hr, rfl⟩
  | cons x rest ih =>
    obtain ⟨a, r⟩ := x
    obtain ⟨h1, h2⟩ := addRule_oe s rs hr a r w
    unfold installRules
    rw [h1]
    revert h2
    generalize s.addRule a r w = X
    rcases X with ⟨s1, (e | u)⟩
    · intro h2
      refine ⟨dictSet rs a r, ?_, rfl⟩
      show RulesEq s1.rules _
      have : s1.rules = dictSet s.rules a r := h2
      rw [this]; exact hr.dictSet a r
    · intro h2
      have hr1 : RulesEq s1.rules (dictSet rs a r) := by
        have : s1.rules = dictSet s.rules a r := h2
        rw [this]; exact hr.dictSet a r
      exact ih s1 _ hr1

/-- `clear`: with rules given the RAM dict is rebuilt from scratch; without, it is kept (in RAM only) -/
theorem clear_oe (s : State) (rs) (hr : RulesEq s.rules rs) (d : Option Rule) (l : Option (List (Bytes × Rule))) :
    ∃ rs', RulesEq (s.clear d l).1.rules rs' ∧
      (s.oe_setRules rs).clear d l = ((s.clear d l).1.oe_setRules rs', (s.clear d l).2) := by
  cases l with
  | none => exact ⟨rs, hr, rfl⟩
  | some l =>
    exact installRules_oe l true
      { cfg := s.cfg, dflt := d.getD s.dflt, rules := [], log := .linkHdr :: .hdr 0 :: s.log } [] (RulesEq.refl _)

end State

/-! ### the request language -/

/-- every write request commutes with replacing the RAM dict by one of the same content: same answer, same files,
    same log, and a RAM dict of the same content again -/
theorem oe_step_setRules (s : State) (rs : List (Bytes × Rule)) (hr : RulesEq s.rules rs) (op : Op) :
    ∃ rs', RulesEq (s.step op).1.rules rs' ∧
      (s.oe_setRules rs).step op = ((s.step op).1.oe_setRules rs', (s.step op).2) := by
  cases op with
  | addPage x c =>
    exact ⟨rs, by show RulesEq (s.addPageCore x c).1.rules rs; rw [oe_addPageCore_rules]; exact hr,
      by simp only [step, addPage_oe s rs hr]⟩
  | addPages ls c =>
    refine ⟨rs, ?_, by simp only [step, addPages_oe s rs hr]⟩
    show RulesEq (s.addPages ls c).1.rules rs
    rw [oe_rules_of_comm (f := fun s => s.addPages ls c) (addPages_oe s s.rules (RulesEq.refl _) ls c)]; exact hr
  | addLinks ls =>
    refine ⟨rs, ?_, by simp only [step, addLinks_oe s rs hr]⟩
    show RulesEq (s.addLinks ls).1.rules rs
    rw [oe_rules_of_comm (f := fun s => s.addLinks ls) (addLinks_oe s s.rules (RulesEq.refl _) ls)]; exact hr
  | batch d =>
    refine ⟨rs, ?_, by simp only [step, batch_oe s rs hr]⟩
    show RulesEq (s.batch d).1.rules rs
    rw [oe_rules_of_comm (f := fun s => s.batch d) (batch_oe s s.rules (RulesEq.refl _) d)]; exact hr
  | create ps =>
    refine ⟨rs, ?_, by simp only [step, createWebentity_oe]⟩
    show RulesEq (s.createWebentity ps).1.rules rs
    rw [oe_rules_of_comm (f := fun s => s.createWebentity ps) (createWebentity_oe s s.rules ps)]; exact hr
  | delete w ps =>
    refine ⟨rs, ?_, by simp only [step, deleteWebentity_oe]⟩
    show RulesEq (s.deleteWebentity w ps).1.rules rs
    rw [oe_rules_of_comm (f := fun s => s.deleteWebentity w ps) (deleteWebentity_oe s s.rules w ps)]; exact hr
  | addPrefix p w =>
    refine ⟨rs, ?_, by simp only [step, addPrefix_oe]⟩
    show RulesEq (s.addPrefix p w).1.rules rs
    rw [oe_rules_of_comm (f := fun s => s.addPrefix p w) (addPrefix_oe s s.rules p w)]; exact hr
  | removePrefix p w =>
    refine ⟨rs, ?_, by simp only [step, removePrefix_oe]⟩
    show RulesEq (s.removePrefix p w).1.rules rs
    rw [oe_rules_of_comm (f := fun s => s.removePrefix p w) (removePrefix_oe s s.rules p w)]; exact hr
  | movePrefix p t f =>
    refine ⟨rs, ?_, by simp only [step, movePrefix_oe]⟩
    show RulesEq (s.movePrefix p t f).1.rules rs
    rw [oe_rules_of_comm (f := fun s => s.movePrefix p t f) (movePrefix_oe s s.rules p t f)]; exact hr
  | addRule a r =>
    obtain ⟨h1, h2⟩ := addRule_oe s rs hr a r true
    refine ⟨dictSet rs a r, ?_, ?_⟩
    · show RulesEq (s.addRule a r true).1.rules _
      rw [h2]; exact hr.dictSet a r
    · show (((s.oe_setRules rs).addRule a r true).1, Ans.ofExcept _ ((s.oe_setRules rs).addRule a r true).2) = _
      rw [h1]; rfl
  | removeRule a =>
    obtain ⟨h1, h2⟩ := removeRule_oe s rs hr a
    refine ⟨rs.filter (fun p => p.1 ≠ a), ?_, ?_⟩
    · show RulesEq (s.removeRule a).1.rules _
      rw [h2]; exact hr.erase a
    · show (((s.oe_setRules rs).removeRule a).1, Ans.ofExcept _ ((s.oe_setRules rs).removeRule a).2) = _
      rw [h1]; rfl
  | reopen d l => exact ⟨l.foldl (fun d ar => dictSet d ar.1 ar.2) [], RulesEq.refl _, rfl⟩
  | clear d l =>
    obtain ⟨rs', h1, h2⟩ := clear_oe s rs hr d l
    refine ⟨rs', h1, ?_⟩
    show (((s.oe_setRules rs).clear d l).1, Ans.ofExcept _ ((s.oe_setRules rs).clear d l).2) = _
    rw [h2]; rfl

/-- the storage writes a request issues from `s`: its new log entries, newest first -/
def State.oe_writes (s : State) (op : Op) : List Write := (({ s with log := [] } : State).step op).1.log

theorem oe_log_step (s : State) (op : Op) : (s.step op).1.log = s.oe_writes op ++ s.log := step_log s op

/-- **CONGRUENCE, one request** (all 13 write requests, no side condition): in observationally equivalent states a
    request gives the same answer, leads to observationally equivalent states, and issues the same storage writes -/
theorem oe_step {s s' : State} (h : s ≃ₒ s') (op : Op) :
    (s'.step op).2 = (s.step op).2 ∧ (s.step op).1 ≃ₒ (s'.step op).1 ∧ s'.oe_writes op = s.oe_writes op := by
  -- the common base: `s` without its log
  let b : State := { s with log := [] }
  have hs : s = b.addLog s.log := rfl
  have hs' : s' = (b.oe_setRules s'.rules).addLog s'.log := h.eq_ram
  have hb : RulesEq b.rules s'.rules := h.rules
  obtain ⟨rs', hr', e⟩ := oe_step_setRules b s'.rules hb op
  have e1 : s.step op = ((b.step op).1.addLog s.log, (b.step op).2) := step_addLog b op s.log
  have e2 : s'.step op = (((b.step op).1.oe_setRules rs').addLog s'.log, (b.step op).2) := by
    have : s'.step op = ((b.oe_setRules s'.rules).addLog s'.log).step op := congrArg (fun x => x.step op) hs'
    rw [this, step_addLog, e]
  have e3 : ({ s' with log := [] } : State) = b.oe_setRules s'.rules :=
    congrArg (fun x : State => ({ x with log := [] } : State)) hs'
  refine ⟨by rw [e1, e2], ?_, ?_⟩
  · rw [e1, e2]
    exact ⟨rfl, rfl, rfl, rfl, rfl, hr'⟩
  · unfold State.oe_writes
    rw [e3, e]
    rfl

/-- **CONGRUENCE, histories**: equivalent states stay equivalent along any history -/
theorem oe_run {s s' : State} (h : s ≃ₒ s') (ops : List Op) : s.run ops ≃ₒ s'.run ops := by
  induction ops generalizing s s' with
  | nil => exact h
  | cons op ops ih => exact ih (oe_step h op).2.1

/-- … every request of the history gets the same answer -/
theorem oe_transcript {s s' : State} (h : s ≃ₒ s') (ops : List Op) : s'.transcript ops = s.transcript ops := by
  induction ops generalizing s s' with
  | nil => rfl
  | cons op ops ih =>
    simp only [State.transcript]
    rw [(oe_step h op).1, ih (oe_step h op).2.1]

/-- … every read-only request asked after the history gets the same answer -/
theorem oe_run_ask {s s' : State} (h : s ≃ₒ s') (ops : List Op) (q : Query) : (s'.run ops).ask q = (s.run ops).ask q :=
  oe_ask (oe_run h ops) q

/-- the storage writes of a whole history, newest first -/
def State.oe_runWrites : State → List Op → List Write
  | _, [] => []
  | s, op :: ops => State.oe_runWrites (s.step op).1 ops ++ s.oe_writes op

theorem oe_log_run (s : State) (ops : List Op) : (s.run ops).log = s.oe_runWrites ops ++ s.log := by
  induction ops generalizing s with
  | nil => rfl
  | cons op ops ih =>
    show ((s.step op).1.run ops).log = _
    rw [ih, oe_log_step, State.oe_runWrites, List.append_assoc]

/-- … and the same sequence of storage writes is issued -/
theorem oe_runWrites {s s' : State} (h : s ≃ₒ s') (ops : List Op) : s'.oe_runWrites ops = s.oe_runWrites ops := by
  induction ops generalizing s s' with
  | nil => rfl
  | cons op ops ih =>
    simp only [State.oe_runWrites]
    rw [(oe_step h op).2.2, ih (oe_step h op).2.1]

#print axioms oe_step
#print axioms oe_run
#print axioms oe_transcript

end Traph

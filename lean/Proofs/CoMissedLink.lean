import Proofs.CoSchedules
import Proofs.CoReadOnly
/-! C16, finding F16c as a theorem about the model: the clause "a query's answer contains every item that
    qualified at every moment of its execution" is **false** of `get_webentity_pagelinks_iter`.

    History: webentity 1 on `s:http|h:com|h:m|`; pages `…p:k|` and `…p:zzz|p:0|`; the link
    `…p:zzz|p:0|` → `…p:k|` (internal to webentity 1). Then two generators: the page-link query of
    webentity 1 with all three switches on (inbound, internal, outbound) and the installation of a creation
    rule (two path stems) anchored at the prefix.
    Schedule `[0, 1, 1, 1, 1, 1, 0]`: the query visits the page `…p:k|` and yields inside its in-list loop —
    the link is internal at that moment, so the inbound side of `…p:k|` leaves it to the out-list of its
    source; the rule installation runs to completion (five sections) and creates webentity 2 on
    `…p:zzz|p:0|`, leaving `…p:k|` (one path stem) where it is; resumed, the query finds `…p:zzz|p:0|` owned
    by another webentity and does not visit it. Its answer is `[]`. At every yield point the index lists the
    link for webentity 1 under the three switches: as an internal link before the rule's section that
    creates webentity 2, as an inbound link from then on. -/
namespace Traph.MissedLink
open Traph State

def bs (s : List Char) : Bytes := s.map (·.toNat)
def P : Bytes := bs "s:http|h:com|h:m|".toList
def b : Bytes := bs "s:http|h:com|h:m|p:k|".toList
def a : Bytes := bs "s:http|h:com|h:m|p:zzz|p:0|".toList

/-- the index before the two generators are created -/
def before : State := (State.fresh {} .never [] []).1.run
  [.create [P], .addPage b false, .addPage a false, .addLinks [(a, b)]]

def reqs : List CoReq :=
  [.queryOther (.pagelinks { cur := { prefixes := [P] }, weid := 1, incIn := true, incInt := true, incOut := true }),
   .rule P (.path 2)]

def sched : List Nat := [0, 1, 1, 1, 1, 1, 0]

/-- the index once the rule installation is complete (the query never writes, so this is also the final index) -/
def after : State := (Sys.run (before, reqs.map CoReq.init) [0, 1, 1, 1, 1, 1]).1.1

set_option maxRecDepth 100000 in
/-- the query's answer is empty: it misses the link `…p:zzz|p:0|` → `…p:k|` -/
theorem answer_misses_link :
    (0, CoOut.done (.links [])) ∈ (Sys.run (before, reqs.map CoReq.init) [0, 1, 1, 1, 1, 1, 0]).2 := by decide

set_option maxRecDepth 100000 in
/-- the rule installation takes exactly five sections: four yields, the fifth answers done -/
theorem rule_sections :
    ((Sys.run (before, reqs.map CoReq.init) [0, 1, 1, 1, 1, 1, 0]).2.map
        (fun x => (x.1, decide (x.2 = CoOut.yielded)))) =
      [(0, true), (1, true), (1, true), (1, true), (1, true), (1, false), (0, false)] := by decide

set_option maxRecDepth 100000 in
/-- before the rule installation the atomic query lists the link, and it is an INTERNAL link of webentity 1 -/
theorem before_lists_link :
    before.ask (.pagelinks 1 [P] true true true) = .links [(a, b, 1)] ∧
    before.ask (.pagelinks 1 [P] false true false) = .links [(a, b, 1)] ∧
    before.ask (.retrieveWebentity a) = .nat 1 ∧ before.ask (.retrieveWebentity b) = .nat 1 := by decide

set_option maxRecDepth 100000 in
/-- after the rule installation the atomic query lists the link, and it is an INBOUND link of webentity 1:
    `…p:zzz|p:0|` belongs to the new webentity 2, `…p:k|` still to webentity 1 -/
theorem after_lists_link :
    after.ask (.pagelinks 1 [P] true true true) = .links [(a, b, 1)] ∧
    after.ask (.pagelinks 1 [P] true false false) = .links [(a, b, 1)] ∧
    after.ask (.retrieveWebentity a) = .nat 2 ∧ after.ask (.retrieveWebentity b) = .nat 1 := by decide

set_option maxRecDepth 100000 in
/-- at every moment of the schedule (the index state after each of its prefixes) the atomic query of
    webentity 1 under the three switches lists the link -/
theorem every_moment :
    (Sys.run (before, reqs.map CoReq.init) []).1.1.ask (.pagelinks 1 [P] true true true) = .links [(a, b, 1)] ∧
    (Sys.run (before, reqs.map CoReq.init) [0]).1.1.ask (.pagelinks 1 [P] true true true) = .links [(a, b, 1)] ∧
    (Sys.run (before, reqs.map CoReq.init) [0, 1]).1.1.ask (.pagelinks 1 [P] true true true) = .links [(a, b, 1)] ∧
    (Sys.run (before, reqs.map CoReq.init) [0, 1, 1]).1.1.ask (.pagelinks 1 [P] true true true) = .links [(a, b, 1)] ∧
    (Sys.run (before, reqs.map CoReq.init) [0, 1, 1, 1]).1.1.ask (.pagelinks 1 [P] true true true) = .links [(a, b, 1)] ∧
    (Sys.run (before, reqs.map CoReq.init) [0, 1, 1, 1, 1]).1.1.ask (.pagelinks 1 [P] true true true) = .links [(a, b, 1)] ∧
    (Sys.run (before, reqs.map CoReq.init) [0, 1, 1, 1, 1, 1]).1.1.ask (.pagelinks 1 [P] true true true) = .links [(a, b, 1)] ∧
    (Sys.run (before, reqs.map CoReq.init) [0, 1, 1, 1, 1, 1, 0]).1.1.ask (.pagelinks 1 [P] true true true) = .links [(a, b, 1)] := by
  decide

/-- a turn given to a reader (or to nobody) leaves the index alone -/
theorem reader_last (σ : Sys) (i : Nat)
    (h : (match σ.2[i]? with | some c => decide c.isReader | none => true) = true) :
    (σ.run [i]).1.1 = σ.1 := by
  cases hc : σ.2[i]? with
  | none => rw [Sys.run_cons_none _ hc]; rfl
  | some c =>
    rw [hc] at h
    rw [Sys.run_cons_some _ hc]
    exact resume_reader_state σ.1 c (of_decide_eq_true h)

set_option maxRecDepth 100000 in
/-- the schedule's prefixes are the eight lists above; the index is `before` until the rule installation's
    first section and `after` from its last section on (the query's turns do not touch it) -/
theorem index_states :
    (List.range 8).map sched.take =
      [[], [0], [0, 1], [0, 1, 1], [0, 1, 1, 1], [0, 1, 1, 1, 1], [0, 1, 1, 1, 1, 1], [0, 1, 1, 1, 1, 1, 0]] ∧
    (Sys.run (before, reqs.map CoReq.init) []).1.1 = before ∧
    (Sys.run (before, reqs.map CoReq.init) [0]).1.1 = before ∧
    (Sys.run (before, reqs.map CoReq.init) [0, 1, 1, 1, 1, 1]).1.1 = after ∧
    (Sys.run (before, reqs.map CoReq.init) [0, 1, 1, 1, 1, 1, 0]).1.1 = after := by
  refine ⟨by decide, rfl, rfl, rfl, ?_⟩
  rw [show [0, 1, 1, 1, 1, 1, 0] = [0, 1, 1, 1, 1, 1] ++ [0] from rfl, Sys.run_append]
  exact reader_last _ 0 (by decide)

#print axioms answer_misses_link
#print axioms rule_sections
#print axioms before_lists_link
#print axioms after_lists_link
#print axioms every_moment
#print axioms index_states

end Traph.MissedLink

import Proofs.CoSchedules
import Proofs.LogIndep
import Proofs.RuleFuel
/-! C16 — the two *writer* generators drained alone are the atomic requests.

    `CoSt.drainW N s c` resumes machine `c` on index `s` until its `next()` does not yield (at most `N`
    sections).

    * Part A: `index_batch_crawl_iter` (`CoSt.batch`) against `State.batch`.
    * Part B: `add_webentity_creation_rule_iter` (`CoSt.rule`) against `State.addRule … true`.
    * Part C: the same statements phrased with `Sys.run (s, [c]) (List.replicate N 0)`. -/
namespace Traph
open State

/-! ## draining one writer -/

/-- resume a machine until its output is not `.yielded`; `none`: still suspended after `N` sections -/
def CoSt.drainW : Nat → State → CoSt → State × Option CoOut
  | 0, s, _ => (s, none)
  | n + 1, s, c =>
    match c.resume s with
    | (s1, c1, .yielded) => CoSt.drainW n s1 c1
    | (s1, _, o) => (s1, some o)

/-- what the generator's last `next()` returns when the atomic request returns `x` -/
def cw_outcome : Except Err Report → CoOut
  | .ok r => .done (.report r)
  | .error e => .failed e

/-- the result of a drained generator that stands for the atomic result `x` -/
def cw_fin (x : State × Except Err Report) : State × Option CoOut := (x.1, some (cw_outcome x.2))

/-! ## Part A — the crawl batch -/

/-- drain at the level of `batchResume`, `F` = iteration bound of a section -/
def cw_drainB (F : Nat) : Nat → State → BatchSt → State × Option CoOut
  | 0, s, _ => (s, none)
  | n + 1, s, b =>
    match batchResume F s b with
    | (s1, b1, .yielded) => cw_drainB F n s1 b1
    | (s1, _, o) => (s1, some o)

theorem cw_drainW_batch : ∀ (N : Nat) (s : State) (b : BatchSt),
    CoSt.drainW N s (.batch b) = cw_drainB 1000000 N s b
  | 0, _, _ => rfl
  | N + 1, s, b => by
    rw [CoSt.drainW, cw_drainB]
    rcases h : batchResume 1000000 s b with ⟨s1, b1, o⟩
    cases o with
    | yielded => simp only [CoSt.resume, h]; exact cw_drainW_batch N s1 b1
    | done a => simp only [CoSt.resume, h]
    | failed e => simp only [CoSt.resume, h]

/-- the rest of the current section (iteration bound `f` left), then `N` more sections -/
def cw_go (F N f : Nat) (s : State) (b : BatchSt) : State × Option CoOut :=
  match batchResume f s b with
  | (s1, b1, .yielded) => cw_drainB F N s1 b1
  | (s1, _, o) => (s1, some o)

theorem cw_drainB_succ (F N : Nat) (s : State) (b : BatchSt) : cw_drainB F (N + 1) s b = cw_go F N F s b := rfl

theorem cw_go_of_eq {F N f f' : Nat} {s s' : State} {b b' : BatchSt}
    (h : batchResume f s b = batchResume f' s' b') : cw_go F N f s b = cw_go F N f' s' b' := by
  unfold cw_go; rw [h]

theorem cw_go_yield {F N f : Nat} {s s1 : State} {b b1 : BatchSt}
    (h : batchResume f s b = (s1, b1, .yielded)) : cw_go F N f s b = cw_drainB F N s1 b1 := by
  unfold cw_go; rw [h]

theorem cw_go_done {F N f : Nat} {s s1 : State} {b b1 : BatchSt} {a : Ans}
    (h : batchResume f s b = (s1, b1, .done a)) : cw_go F N f s b = (s1, some (.done a)) := by
  unfold cw_go; rw [h]

theorem cw_go_failed {F N f : Nat} {s s1 : State} {b b1 : BatchSt} {e : Err}
    (h : batchResume f s b = (s1, b1, .failed e)) : cw_go F N f s b = (s1, some (.failed e)) := by
  unfold cw_go; rw [h]

/-! ### the sections of the batch machine, one loop iteration at a time -/

abbrev cw_Pg := List (Bytes × Nat × Bool)
abbrev cw_In := List (Bytes × List Bytes)

theorem cw_br_flush_nil (f : Nat) (s : State) (data cur pendIn) (P : cw_Pg) (I : cw_In) (R : Report) :
    batchResume (f + 1) s ⟨data, cur, pendIn, P, I, some [], R⟩
      = (s, ⟨data, cur, pendIn, P, I, some [], R⟩, .done (.report R)) := by
  rw [batchResume]

theorem cw_br_flush_cons (f : Nat) (s : State) (data cur pendIn) (P : cw_Pg) (I : cw_In) (R : Report)
    (t : Bytes) (srcs : List Bytes) (rest : cw_In) :
    batchResume (f + 1) s ⟨data, cur, pendIn, P, I, some ((t, srcs) :: rest), R⟩
      = (s.addStubs (pageBlock P t) (srcs.map (pageBlock P)) false, ⟨data, cur, pendIn, P, I, some rest, R⟩, .yielded) := by
  rw [batchResume]

theorem cw_br_data_nil (f : Nat) (s : State) (pendIn) (P : cw_Pg) (I : cw_In) (R : Report) :
    batchResume (f + 1) s ⟨[], none, pendIn, P, I, none, R⟩
      = batchResume f s ⟨[], none, pendIn, P, I, some I, R⟩ := by
  rw [batchResume]

theorem cw_br_src_new_err (f : Nat) (s : State) (src : Bytes) (tgts : List Bytes) (more pendIn) (P : cw_Pg) (I : cw_In)
    (R : Report) (hg : pagesGet P src = none) {s1 : State} {n : Nat} {e : Err}
    (ha : s.addPageCore src true = (s1, n, .error e)) :
    batchResume (f + 1) s ⟨(src, tgts) :: more, none, pendIn, P, I, none, R⟩
      = (s1, ⟨(src, tgts) :: more, none, pendIn, P, I, none, R⟩, .failed e) := by
  rw [batchResume]; simp only [hg, ha]

theorem cw_br_src_new_ok (f : Nat) (s : State) (src : Bytes) (tgts : List Bytes) (more pendIn) (P : cw_Pg) (I : cw_In)
    (R : Report) (hg : pagesGet P src = none) {s1 : State} {n : Nat} {r : Report}
    (ha : s.addPageCore src true = (s1, n, .ok r)) :
    batchResume (f + 1) s ⟨(src, tgts) :: more, none, pendIn, P, I, none, R⟩
      = batchResume f s1 ⟨more, some (src, tgts, []), pendIn, pagesSet P src (n, (s1.cell n).flags.crawled), I, none, R.add r⟩ := by
  rw [batchResume]; simp only [hg, ha]

theorem cw_br_src_uncrawled (f : Nat) (s : State) (src : Bytes) (tgts : List Bytes) (more pendIn) (P : cw_Pg) (I : cw_In)
    (R : Report) {n : Nat} (hg : pagesGet P src = some (n, false)) :
    batchResume (f + 1) s ⟨(src, tgts) :: more, none, pendIn, P, I, none, R⟩
      = batchResume f (s.modCell n (fun c => { c with flags := { c.flags with crawled := true } }))
          ⟨more, some (src, tgts, []), pendIn, pagesSet P src (n, true), I, none, R⟩ := by
  rw [batchResume]; simp only [hg, Bool.not_false, if_true]

theorem cw_br_src_crawled (f : Nat) (s : State) (src : Bytes) (tgts : List Bytes) (more pendIn) (P : cw_Pg) (I : cw_In)
    (R : Report) {n : Nat} (hg : pagesGet P src = some (n, true)) :
    batchResume (f + 1) s ⟨(src, tgts) :: more, none, pendIn, P, I, none, R⟩
      = batchResume f s ⟨more, some (src, tgts, []), pendIn, P, I, none, R⟩ := by
  rw [batchResume]; simp only [hg, Bool.not_true, Bool.false_eq_true, if_false]

/-- the in-link list once the pending in-link of the last new target is recorded -/
def cw_pend (I : cw_In) (src : Bytes) : Option Bytes → cw_In
  | some t => multiAdd I t src
  | none => I

theorem cw_br_tgt_nil (f : Nat) (s : State) (src : Bytes) (tb : List Nat) (data pendIn) (P : cw_Pg) (I : cw_In)
    (R : Report) :
    batchResume (f + 1) s ⟨data, some (src, [], tb), pendIn, P, I, none, R⟩
      = batchResume f (s.addStubs (pageBlock P src) tb true)
          ⟨data, none, none, pagesSet P src (pageBlock P src, (s.cell (pageBlock P src)).flags.crawled),
            cw_pend I src pendIn, none, R⟩ := by
  rw [batchResume]; cases pendIn <;> rfl

theorem cw_br_tgt_cached (f : Nat) (s : State) (src t : Bytes) (ts : List Bytes) (tb : List Nat) (data pendIn) (P : cw_Pg)
    (I : cw_In) (R : Report) {n : Nat} {c : Bool} (hg : pagesGet P t = some (n, c)) :
    batchResume (f + 1) s ⟨data, some (src, t :: ts, tb), pendIn, P, I, none, R⟩
      = batchResume f s ⟨data, some (src, ts, tb ++ [n]), none, P, multiAdd (cw_pend I src pendIn) t src, none, R⟩ := by
  rw [batchResume]; cases pendIn <;> simp only [hg, cw_pend]

theorem cw_br_tgt_new_err (f : Nat) (s : State) (src t : Bytes) (ts : List Bytes) (tb : List Nat) (data pendIn) (P : cw_Pg)
    (I : cw_In) (R : Report) (hg : pagesGet P t = none) {s1 : State} {n : Nat} {e : Err}
    (ha : s.addPageCore t false = (s1, n, .error e)) :
    ∃ b1, batchResume (f + 1) s ⟨data, some (src, t :: ts, tb), pendIn, P, I, none, R⟩ = (s1, b1, .failed e) := by
  rw [batchResume]; cases pendIn <;> simp only [hg, ha] <;> exact ⟨_, rfl⟩

theorem cw_br_tgt_new_ok (f : Nat) (s : State) (src t : Bytes) (ts : List Bytes) (tb : List Nat) (data pendIn) (P : cw_Pg)
    (I : cw_In) (R : Report) (hg : pagesGet P t = none) {s1 : State} {n : Nat} {r : Report}
    (ha : s.addPageCore t false = (s1, n, .ok r)) :
    batchResume (f + 1) s ⟨data, some (src, t :: ts, tb), pendIn, P, I, none, R⟩
      = (s1, ⟨data, some (src, ts, tb ++ [n]), some t, pagesSet P t (n, (s1.cell n).flags.crawled),
              cw_pend I src pendIn, none, R.add r⟩, .yielded) := by
  rw [batchResume]; cases pendIn <;> simp only [hg, ha, cw_pend]

/-! ### the big-step semantics of the batch machine

    `cw_ref true` is the machine drained alone, written as a recursion of the shape of `batchSources` /
    `batchTargets` / `flushLists`; it tests the *cached* crawled bit of a source seen before. `cw_ref false`
    tests the bit of the current cell instead (as `batchSources` does). -/

def cw_refT (src : Bytes) : List Bytes → State → cw_Pg → cw_In → Report → List Nat →
    State × Except Err (cw_Pg × cw_In × Report × List Nat)
  | [], s, P, I, R, tb => (s, .ok (P, I, R, tb))
  | t :: ts, s, P, I, R, tb =>
    match pagesGet P t with
    | some (n, _) => cw_refT src ts s P (multiAdd I t src) R (tb ++ [n])
    | none =>
      match s.addPageCore t false with
      | (s1, _, .error e) => (s1, .error e)
      | (s1, n, .ok r) =>
        cw_refT src ts s1 (pagesSet P t (n, (s1.cell n).flags.crawled)) (multiAdd I t src) (R.add r) (tb ++ [n])

/-- is the source page known to be crawled? `uc`: ask the cached node copy, else: ask the index -/
def cw_test (uc : Bool) (s : State) (n : Nat) (c : Bool) : Bool := if uc then c else (s.cell n).flags.crawled

@[simp] theorem cw_test_true (s : State) (n : Nat) (c : Bool) : cw_test true s n c = c := rfl
@[simp] theorem cw_test_false (s : State) (n : Nat) (c : Bool) : cw_test false s n c = (s.cell n).flags.crawled := rfl

def cw_head (uc : Bool) (s : State) (src : Bytes) (P : cw_Pg) (R : Report) : State × Except Err (cw_Pg × Report) :=
  match pagesGet P src with
  | none =>
    (match s.addPageCore src true with
     | (s1, _, .error e) => (s1, .error e)
     | (s1, n, .ok r) => (s1, .ok (pagesSet P src (n, (s1.cell n).flags.crawled), R.add r)))
  | some (n, c) =>
    if !(cw_test uc s n c) then
      (s.modCell n (fun c => { c with flags := { c.flags with crawled := true } }), .ok (pagesSet P src (n, true), R))
    else (s, .ok (pagesSet P src (n, true), R))

/-- end of a source: the out-links are written, the source's node copy is refreshed -/
def cw_endS (s : State) (src : Bytes) (P : cw_Pg) (tb : List Nat) : State × cw_Pg :=
  (s.addStubs (pageBlock P src) tb true, pagesSet P src (pageBlock P src, (s.cell (pageBlock P src)).flags.crawled))

def cw_refS (uc : Bool) : List (Bytes × List Bytes) → State → cw_Pg → cw_In → Report →
    State × Except Err (cw_Pg × cw_In × Report)
  | [], s, P, I, R => (s, .ok (P, I, R))
  | (src, tgts) :: rest, s, P, I, R =>
    match cw_head uc s src P R with
    | (s1, .error e) => (s1, .error e)
    | (s1, .ok (P1, R1)) =>
      match cw_refT src tgts s1 P1 I R1 [] with
      | (s2, .error e) => (s2, .error e)
      | (s2, .ok (P2, I2, R2, tb)) => cw_refS uc rest (cw_endS s2 src P2 tb).1 (cw_endS s2 src P2 tb).2 I2 R2

def cw_refF (P : cw_Pg) : cw_In → State → State
  | [], s => s
  | (t, srcs) :: rest, s => cw_refF P rest (s.addStubs (pageBlock P t) (srcs.map (pageBlock P)) false)

/-- sources `data` from accumulators `P I R`, then the in-link pass -/
def cw_fromS (uc : Bool) (data : List (Bytes × List Bytes)) (s : State) (P : cw_Pg) (I : cw_In) (R : Report) :
    State × Except Err Report :=
  match cw_refS uc data s P I R with
  | (s1, .error e) => (s1, .error e)
  | (s1, .ok (P1, I1, R1)) => (cw_refF P1 I1 s1, .ok R1)

/-- the targets `ts` left of source `src`, then the sources `rest`, then the in-link pass -/
def cw_fromT (uc : Bool) (src : Bytes) (ts : List Bytes) (rest : List (Bytes × List Bytes)) (s : State) (P : cw_Pg)
    (I : cw_In) (R : Report) (tb : List Nat) : State × Except Err Report :=
  match cw_refT src ts s P I R tb with
  | (s2, .error e) => (s2, .error e)
  | (s2, .ok (P2, I2, R2, tb2)) => cw_fromS uc rest (cw_endS s2 src P2 tb2).1 (cw_endS s2 src P2 tb2).2 I2 R2

/-- the whole batch -/
def cw_ref (uc : Bool) (s : State) (data : List (Bytes × List Bytes)) : State × Except Err Report :=
  cw_fromS uc data s [] [] {}

theorem cw_fromS_nil (uc : Bool) (s : State) (P : cw_Pg) (I : cw_In) (R : Report) :
    cw_fromS uc [] s P I R = (cw_refF P I s, .ok R) := rfl

theorem cw_fromS_cons (uc : Bool) (src : Bytes) (tgts : List Bytes) (rest : List (Bytes × List Bytes)) (s : State)
    (P : cw_Pg) (I : cw_In) (R : Report) :
    cw_fromS uc ((src, tgts) :: rest) s P I R =
      match cw_head uc s src P R with
      | (s1, .error e) => (s1, .error e)
      | (s1, .ok (P1, R1)) => cw_fromT uc src tgts rest s1 P1 I R1 [] := by
  unfold cw_fromS cw_fromT
  rw [cw_refS]
  rcases cw_head uc s src P R with ⟨s1, (e | ⟨P1, R1⟩)⟩
  · rfl
  · simp only
    rcases cw_refT src tgts s1 P1 I R1 [] with ⟨s2, (e | ⟨P2, I2, R2, tb⟩)⟩
    · rfl
    · rfl

theorem cw_fromT_nil (uc : Bool) (src : Bytes) (rest : List (Bytes × List Bytes)) (s : State) (P : cw_Pg)
    (I : cw_In) (R : Report) (tb : List Nat) :
    cw_fromT uc src [] rest s P I R tb = cw_fromS uc rest (cw_endS s src P tb).1 (cw_endS s src P tb).2 I R := rfl

theorem cw_fromT_cached (uc : Bool) (src t : Bytes) (ts : List Bytes) (rest : List (Bytes × List Bytes)) (s : State)
    (P : cw_Pg) (I : cw_In) (R : Report) (tb : List Nat) {n : Nat} {c : Bool} (hg : pagesGet P t = some (n, c)) :
    cw_fromT uc src (t :: ts) rest s P I R tb = cw_fromT uc src ts rest s P (multiAdd I t src) R (tb ++ [n]) := by
  unfold cw_fromT; rw [cw_refT]; simp only [hg]

theorem cw_fromT_new_err (uc : Bool) (src t : Bytes) (ts : List Bytes) (rest : List (Bytes × List Bytes)) (s : State)
    (P : cw_Pg) (I : cw_In) (R : Report) (tb : List Nat) (hg : pagesGet P t = none) {s1 : State} {n : Nat} {e : Err}
    (ha : s.addPageCore t false = (s1, n, .error e)) :
    cw_fromT uc src (t :: ts) rest s P I R tb = (s1, .error e) := by
  unfold cw_fromT; rw [cw_refT]; simp only [hg, ha]

theorem cw_fromT_new_ok (uc : Bool) (src t : Bytes) (ts : List Bytes) (rest : List (Bytes × List Bytes)) (s : State)
    (P : cw_Pg) (I : cw_In) (R : Report) (tb : List Nat) (hg : pagesGet P t = none) {s1 : State} {n : Nat} {r : Report}
    (ha : s.addPageCore t false = (s1, n, .ok r)) :
    cw_fromT uc src (t :: ts) rest s P I R tb =
      cw_fromT uc src ts rest s1 (pagesSet P t (n, (s1.cell n).flags.crawled)) (multiAdd I t src) (R.add r) (tb ++ [n]) := by
  unfold cw_fromT; rw [cw_refT]; simp only [hg, ha]

/-! ### step 1: the machine drained alone is `cw_ref true` -/

theorem cw_dictSet_same {α β : Type} [DecidableEq α] : ∀ (d : List (α × β)) (k : α) (v : β),
    dictGet? d k = some v → dictSet d k v = d
  | [], k, v, h => by simp [dictGet?] at h
  | (k', v') :: rest, k, v, h => by
    rw [Co.dictGet?_cons] at h
    simp only [dictSet]
    by_cases e : k' = k
    · rw [if_pos e] at h
      rw [if_pos e]
      simp only [Option.some.injEq] at h
      rw [h]
    · rw [if_neg e] at h
      rw [if_neg e, cw_dictSet_same rest k v h]

theorem cw_multiAdd_length {α β : Type} [DecidableEq α] : ∀ (d : List (α × List β)) (k : α) (v : β),
    (multiAdd d k v).length ≤ d.length + 1
  | [], k, v => by simp [multiAdd]
  | (k', vs) :: rest, k, v => by
    simp only [multiAdd]
    split
    · simp
    · have := cw_multiAdd_length rest k v
      simp only [List.length_cons]; omega

/-- iterations of the first loop still to run: two per source and one per target -/
def cw_w (data : List (Bytes × List Bytes)) : Nat := (data.map (fun d => d.2.length + 2)).sum
/-- targets still to come -/
def cw_nt (data : List (Bytes × List Bytes)) : Nat := (data.map (fun d => d.2.length)).sum

theorem cw_w_cons (src : Bytes) (tgts : List Bytes) (more : List (Bytes × List Bytes)) :
    cw_w ((src, tgts) :: more) = tgts.length + 2 + cw_w more := by
  simp [cw_w]
theorem cw_nt_cons (src : Bytes) (tgts : List Bytes) (more : List (Bytes × List Bytes)) :
    cw_nt ((src, tgts) :: more) = tgts.length + cw_nt more := by
  simp [cw_nt]

theorem cw_sim_flush (F : Nat) (hF : 0 < F) : ∀ (L : cw_In) (N f : Nat) (s : State) (data cur pendIn) (P : cw_Pg)
    (I : cw_In) (R : Report), 0 < f → L.length ≤ N →
    cw_go F N f s ⟨data, cur, pendIn, P, I, some L, R⟩ = (cw_refF P L s, some (.done (.report R)))
  | [], N, f, s, data, cur, pendIn, P, I, R, hf, _ => by
    obtain ⟨f', rfl⟩ := Nat.exists_eq_succ_of_ne_zero (Nat.pos_iff_ne_zero.mp hf)
    rw [cw_go_done (cw_br_flush_nil f' s data cur pendIn P I R)]; rfl
  | (t, srcs) :: rest, N, f, s, data, cur, pendIn, P, I, R, hf, hN => by
    obtain ⟨f', rfl⟩ := Nat.exists_eq_succ_of_ne_zero (Nat.pos_iff_ne_zero.mp hf)
    simp only [List.length_cons] at hN
    obtain ⟨N', rfl⟩ := Nat.exists_eq_succ_of_ne_zero (by omega : N ≠ 0)
    rw [cw_go_yield (cw_br_flush_cons f' s data cur pendIn P I R t srcs rest), cw_drainB_succ,
      cw_sim_flush F hF rest N' F _ data cur pendIn P I R hF (by omega)]
    rfl

theorem cw_sim_T (F : Nat) (rest : List (Bytes × List Bytes))
    (ihS : ∀ (N f : Nat) (s : State) (P : cw_Pg) (I : cw_In) (R : Report), 1 + cw_w rest < f → 1 + cw_w rest < F →
      2 * cw_nt rest + I.length ≤ N →
      cw_go F N f s ⟨rest, none, none, P, I, none, R⟩ = cw_fin (cw_fromS true rest s P I R)) :
    ∀ (ts : List Bytes) (N f : Nat) (s : State) (src : Bytes) (pendIn : Option Bytes) (P : cw_Pg) (I : cw_In)
      (R : Report) (tb : List Nat), ts.length + 2 + cw_w rest < f → ts.length + 2 + cw_w rest < F →
      2 * (ts.length + cw_nt rest) + (cw_pend I src pendIn).length ≤ N →
      cw_go F N f s ⟨rest, some (src, ts, tb), pendIn, P, I, none, R⟩
        = cw_fin (cw_fromT true src ts rest s P (cw_pend I src pendIn) R tb)
  | [], N, f, s, src, pendIn, P, I, R, tb, hf, hF, hN => by
    obtain ⟨f', rfl⟩ := Nat.exists_eq_succ_of_ne_zero (by omega : f ≠ 0)
    simp only [List.length_nil] at hf hF hN
    rw [cw_go_of_eq (cw_br_tgt_nil f' s src tb rest pendIn P I R), cw_fromT_nil]
    exact ihS N f' _ _ _ R (by omega) (by omega) (by omega)
  | t :: ts, N, f, s, src, pendIn, P, I, R, tb, hf, hF, hN => by
    obtain ⟨f', rfl⟩ := Nat.exists_eq_succ_of_ne_zero (by omega : f ≠ 0)
    simp only [List.length_cons] at hf hF hN
    cases hg : pagesGet P t with
    | some v =>
      obtain ⟨n, c⟩ := v
      rw [cw_go_of_eq (cw_br_tgt_cached f' s src t ts tb rest pendIn P I R hg), cw_fromT_cached _ _ _ _ _ _ _ _ _ _ hg]
      have hl := cw_multiAdd_length (cw_pend I src pendIn) t src
      exact cw_sim_T F rest ihS ts N f' s src none P _ R _ (by omega) (by omega)
        (by show 2 * (ts.length + cw_nt rest) + (multiAdd (cw_pend I src pendIn) t src).length ≤ N; omega)
    | none =>
      rcases ha : s.addPageCore t false with ⟨s1, n, (e | r)⟩
      · obtain ⟨b1, hb⟩ := cw_br_tgt_new_err f' s src t ts tb rest pendIn P I R hg ha
        rw [cw_go_failed hb, cw_fromT_new_err _ _ _ _ _ _ _ _ _ _ hg ha]; rfl
      · have hl := cw_multiAdd_length (cw_pend I src pendIn) t src
        obtain ⟨N', rfl⟩ := Nat.exists_eq_succ_of_ne_zero (by omega : N ≠ 0)
        rw [cw_go_yield (cw_br_tgt_new_ok f' s src t ts tb rest pendIn P I R hg ha), cw_drainB_succ,
          cw_fromT_new_ok _ _ _ _ _ _ _ _ _ _ hg ha]
        exact cw_sim_T F rest ihS ts N' F s1 src (some t) _ _ _ _ (by omega) (by omega)
          (by show 2 * (ts.length + cw_nt rest) + (multiAdd (cw_pend I src pendIn) t src).length ≤ N'; omega)

theorem cw_sim_S (F : Nat) : ∀ (data : List (Bytes × List Bytes)) (N f : Nat) (s : State) (P : cw_Pg) (I : cw_In)
    (R : Report), 1 + cw_w data < f → 1 + cw_w data < F → 2 * cw_nt data + I.length ≤ N →
    cw_go F N f s ⟨data, none, none, P, I, none, R⟩ = cw_fin (cw_fromS true data s P I R)
  | [], N, f, s, P, I, R, hf, hF, hN => by
    obtain ⟨f', rfl⟩ := Nat.exists_eq_succ_of_ne_zero (by omega : f ≠ 0)
    simp only [cw_nt, List.map_nil, List.sum_nil] at hN
    rw [cw_go_of_eq (cw_br_data_nil f' s none P I R), cw_sim_flush F (by omega) I N f' s _ _ _ P I R (by omega) (by omega),
      cw_fromS_nil]
    rfl
  | (src, tgts) :: more, N, f, s, P, I, R, hf, hF, hN => by
    obtain ⟨f', rfl⟩ := Nat.exists_eq_succ_of_ne_zero (by omega : f ≠ 0)
    rw [cw_w_cons] at hf hF
    rw [cw_nt_cons] at hN
    have ihT := cw_sim_T F more (cw_sim_S F more)
    rw [cw_fromS_cons]
    cases hg : pagesGet P src with
    | none =>
      rcases ha : s.addPageCore src true with ⟨s1, n, (e | r)⟩
      · rw [cw_go_failed (cw_br_src_new_err f' s src tgts more none P I R hg ha)]
        simp only [cw_head, hg, ha]; rfl
      · rw [cw_go_of_eq (cw_br_src_new_ok f' s src tgts more none P I R hg ha)]
        simp only [cw_head, hg, ha]
        exact ihT tgts N f' s1 src none _ I _ [] (by omega) (by omega) (by simp only [cw_pend]; omega)
    | some v =>
      obtain ⟨n, c⟩ := v
      cases c with
      | false =>
        rw [cw_go_of_eq (cw_br_src_uncrawled f' s src tgts more none P I R hg)]
        simp only [cw_head, hg, cw_test_true, Bool.not_false, if_true]
        exact ihT tgts N f' _ src none _ I _ [] (by omega) (by omega) (by simp only [cw_pend]; omega)
      | true =>
        rw [cw_go_of_eq (cw_br_src_crawled f' s src tgts more none P I R hg)]
        simp only [cw_head, hg, cw_test_true, Bool.not_true, Bool.false_eq_true, if_false]
        rw [show pagesSet P src (n, true) = P from cw_dictSet_same P src (n, true) hg]
        exact ihT tgts N f' _ src none _ I _ [] (by omega) (by omega) (by simp only [cw_pend]; omega)

/-- **the crawl-batch generator drained alone** (section bound `F`, at least `2·targets + 1` sections) computes
    `cw_ref true` -/
theorem cw_drainB_ref (F N : Nat) (s : State) (data : List (Bytes × List Bytes)) (hF : 1 + cw_w data < F)
    (hN : 2 * cw_nt data < N) :
    cw_drainB F N s (BatchSt.init data) = cw_fin (cw_ref true s data) := by
  obtain ⟨N', rfl⟩ := Nat.exists_eq_succ_of_ne_zero (by omega : N ≠ 0)
  rw [cw_drainB_succ]
  exact cw_sim_S F data N' F s [] [] {} hF hF (by simp only [List.length_nil]; omega)

/-! ### step 2a: `cw_ref false` is the atomic request (only the accumulators are represented differently) -/

theorem cw_dictGet?_append {α β : Type} [DecidableEq α] (d : List (α × β)) (k : α) (v : β) (k0 : α) :
    dictGet? (d ++ [(k, v)]) k0 = match dictGet? d k0 with
      | some x => some x
      | none => if k = k0 then some v else none := by
  unfold dictGet?
  rw [List.find?_append]
  cases h : List.find? (fun p => decide (p.1 = k0)) d with
  | some x => simp
  | none =>
    simp only [Option.none_or, Option.map_none, List.find?_cons, List.find?_nil]
    by_cases e : k = k0
    · simp [e]
    · simp [e]

/-- the accumulators of the machine against those of the atomic request -/
structure cw_AccRel (P : cw_Pg) (I : cw_In) (R : Report) (acc : LinkAcc) : Prop where
  pages : ∀ l, (pagesGet P l).map (·.1) = dictGet? acc.pages l
  inl : I = acc.inl
  rep : R = acc.rep

theorem cw_AccRel.block {P : cw_Pg} {I : cw_In} {R : Report} {acc : LinkAcc} (h : cw_AccRel P I R acc) (l : Bytes) :
    pageBlock P l = (dictGet? acc.pages l).getD 0 := by
  unfold pageBlock; rw [h.pages l]

theorem cw_AccRel.add {P : cw_Pg} {I : cw_In} {R : Report} {acc : LinkAcc} (h : cw_AccRel P I R acc) (t src : Bytes) :
    cw_AccRel P (multiAdd I t src) R { acc with inl := multiAdd acc.inl t src } :=
  ⟨h.pages, by rw [h.inl], h.rep⟩

theorem cw_AccRel.new {P : cw_Pg} {I : cw_In} {R : Report} {acc : LinkAcc} (h : cw_AccRel P I R acc) (l : Bytes)
    (hg : pagesGet P l = none) (n : Nat) (c : Bool) (r : Report) :
    cw_AccRel (pagesSet P l (n, c)) I (R.add r) { acc with pages := acc.pages ++ [(l, n)], rep := acc.rep.add r } := by
  refine ⟨fun l' => ?_, h.inl, by rw [h.rep]⟩
  have hn : dictGet? acc.pages l = none := by rw [← h.pages l, hg]; rfl
  show Option.map (·.1) (dictGet? (dictSet P l (n, c)) l') = dictGet? (acc.pages ++ [(l, n)]) l'
  rw [cw_dictGet?_append]
  by_cases e : l' = l
  · subst e; rw [Co.dictGet?_dictSet_self, hn]; simp
  · rw [Co.dictGet?_dictSet_ne _ _ _ _ e]
    have := h.pages l'
    unfold pagesGet at this
    rw [this]
    cases dictGet? acc.pages l' with
    | some x => rfl
    | none => simp only; rw [if_neg (fun e' => e e'.symm)]

theorem cw_AccRel.set {P : cw_Pg} {I : cw_In} {R : Report} {acc : LinkAcc} (h : cw_AccRel P I R acc) (l : Bytes)
    {n : Nat} {c : Bool} (hg : pagesGet P l = some (n, c)) (c' : Bool) : cw_AccRel (pagesSet P l (n, c')) I R acc := by
  refine ⟨fun l' => ?_, h.inl, h.rep⟩
  show Option.map (·.1) (dictGet? (dictSet P l (n, c')) l') = _
  by_cases e : l' = l
  · subst e; rw [Co.dictGet?_dictSet_self, ← h.pages l', hg]; rfl
  · rw [Co.dictGet?_dictSet_ne _ _ _ _ e]; exact h.pages l'

def cw_relT : Except Err (cw_Pg × cw_In × Report × List Nat) → Except Err (LinkAcc × List Nat) → Prop
  | .error e, .error e' => e = e'
  | .ok (P, I, R, tb), .ok (acc, tb') => cw_AccRel P I R acc ∧ tb = tb'
  | _, _ => False

theorem cw_refT_atomic (src : Bytes) : ∀ (ts : List Bytes) (s : State) (P : cw_Pg) (I : cw_In) (R : Report)
    (tb : List Nat) (acc : LinkAcc), cw_AccRel P I R acc →
    (cw_refT src ts s P I R tb).1 = (batchTargets s src ts acc tb).1 ∧
      cw_relT (cw_refT src ts s P I R tb).2 (batchTargets s src ts acc tb).2
  | [], s, P, I, R, tb, acc, h => ⟨rfl, h, rfl⟩
  | t :: ts, s, P, I, R, tb, acc, h => by
    rw [cw_refT, batchTargets, ensurePageCached]
    cases hg : pagesGet P t with
    | some v =>
      obtain ⟨n, c⟩ := v
      have hd : dictGet? acc.pages t = some n := by rw [← h.pages t, hg]; rfl
      simp only [hd, Option.getD_some]
      exact cw_refT_atomic src ts s P _ R _ _ (h.add t src)
    | none =>
      have hd : dictGet? acc.pages t = none := by rw [← h.pages t, hg]; rfl
      simp only [hd]
      rcases ha : s.addPageCore t false with ⟨s1, n, (e | r)⟩
      · exact ⟨rfl, rfl⟩
      · simp only
        have h1 := (h.new t hg n (s1.cell n).flags.crawled r).add t src
        have hb : (dictGet? (acc.pages ++ [(t, n)]) t).getD 0 = n := by
          rw [cw_dictGet?_append, hd]; simp
        rw [hb]
        exact cw_refT_atomic src ts s1 _ _ _ _ _ h1

def cw_relH : Except Err (cw_Pg × Report) → cw_In → Except Err LinkAcc → Prop
  | .error e, _, .error e' => e = e'
  | .ok (P, R), I, .ok acc => cw_AccRel P I R acc
  | _, _, _ => False

theorem cw_head_atomic (s : State) (src : Bytes) (P : cw_Pg) (I : cw_In) (R : Report) (acc : LinkAcc)
    (h : cw_AccRel P I R acc) :
    (cw_head false s src P R).1 = (bsHead s acc src).1 ∧ cw_relH (cw_head false s src P R).2 I (bsHead s acc src).2 := by
  unfold cw_head bsHead
  cases hg : pagesGet P src with
  | some v =>
    obtain ⟨n, c⟩ := v
    have hd : dictGet? acc.pages src = some n := by rw [← h.pages src, hg]; rfl
    simp only [hd, cw_test_false]
    by_cases hc : (s.cell n).flags.crawled = true
    · simp only [hc, Bool.not_true, Bool.false_eq_true, if_false]
      exact ⟨trivial, h.set src hg true⟩
    · simp only [Bool.not_eq_true] at hc
      simp only [hc, Bool.not_false, if_true]
      exact ⟨trivial, h.set src hg true⟩
  | none =>
    have hd : dictGet? acc.pages src = none := by rw [← h.pages src, hg]; rfl
    simp only [ensurePageCached, hd]
    rcases ha : s.addPageCore src true with ⟨s1, n, (e | r)⟩
    · exact ⟨rfl, rfl⟩
    · exact ⟨rfl, h.new src hg n _ r⟩

theorem cw_refT_keeps (src l : Bytes) : ∀ (ts : List Bytes) (s : State) (P : cw_Pg) (I : cw_In) (R : Report)
    (tb : List Nat), (pagesGet P l).isSome →
    ∀ s2 P2 I2 R2 tb2, cw_refT src ts s P I R tb = (s2, .ok (P2, I2, R2, tb2)) → (pagesGet P2 l).isSome
  | [], s, P, I, R, tb, h, s2, P2, I2, R2, tb2, he => by
    simp only [cw_refT, Prod.mk.injEq, Except.ok.injEq] at he
    obtain ⟨_, rfl, _⟩ := he
    exact h
  | t :: ts, s, P, I, R, tb, h, s2, P2, I2, R2, tb2, he => by
    rw [cw_refT] at he
    cases hg : pagesGet P t with
    | some v =>
      obtain ⟨n, c⟩ := v
      simp only [hg] at he
      exact cw_refT_keeps src l ts s P _ R _ h s2 P2 I2 R2 tb2 he
    | none =>
      simp only [hg] at he
      rcases ha : s.addPageCore t false with ⟨s1, n, (e | r)⟩
      · rw [ha] at he; simp at he
      · rw [ha] at he
        exact cw_refT_keeps src l ts s1 _ _ _ _ (Co.dictGet?_dictSet_isSome P t _ l h) s2 P2 I2 R2 tb2 he

theorem cw_head_cached (uc : Bool) (s : State) (src : Bytes) (P : cw_Pg) (R : Report) {s1 : State} {P1 : cw_Pg}
    {R1 : Report} (he : cw_head uc s src P R = (s1, .ok (P1, R1))) : (pagesGet P1 src).isSome := by
  unfold cw_head at he
  have key : ∀ v, (pagesGet (pagesSet P src v) src).isSome := fun v => by
    show (dictGet? (dictSet P src v) src).isSome
    rw [Co.dictGet?_dictSet_self]; rfl
  cases hg : pagesGet P src with
  | some v =>
    obtain ⟨n, c⟩ := v
    simp only [hg] at he
    split at he <;> (simp only [Prod.mk.injEq, Except.ok.injEq] at he; obtain ⟨_, rfl, _⟩ := he; exact key _)
  | none =>
    simp only [hg] at he
    rcases ha : s.addPageCore src true with ⟨s1', n, (e | r)⟩
    · rw [ha] at he; simp at he
    · rw [ha] at he
      simp only [Prod.mk.injEq, Except.ok.injEq] at he
      obtain ⟨_, rfl, _⟩ := he
      exact key _

def cw_relS : Except Err (cw_Pg × cw_In × Report) → Except Err LinkAcc → Prop
  | .error e, .error e' => e = e'
  | .ok (P, I, R), .ok acc => cw_AccRel P I R acc
  | _, _ => False

theorem cw_refS_atomic : ∀ (data : List (Bytes × List Bytes)) (s : State) (P : cw_Pg) (I : cw_In) (R : Report)
    (acc : LinkAcc), cw_AccRel P I R acc →
    (cw_refS false data s P I R).1 = (batchSources s data acc).1 ∧
      cw_relS (cw_refS false data s P I R).2 (batchSources s data acc).2
  | [], s, P, I, R, acc, h => ⟨rfl, h⟩
  | (src, tgts) :: rest, s, P, I, R, acc, h => by
    rw [cw_refS, State.batchSources_cons]
    obtain ⟨h1, h2⟩ := cw_head_atomic s src P I R acc h
    rcases hh : cw_head false s src P R with ⟨s1, (e | ⟨P1, R1⟩)⟩ <;>
      rcases hb : bsHead s acc src with ⟨s1', (e' | acc1)⟩ <;> rw [hh, hb] at h1 h2 <;>
      simp only [cw_relH] at h1 h2
    · subst h1 h2; exact ⟨rfl, rfl⟩
    · subst h1
      simp only [bsCont]
      obtain ⟨g1, g2⟩ := cw_refT_atomic src tgts s1 P1 I R1 [] acc1 h2
      rcases ht : cw_refT src tgts s1 P1 I R1 [] with ⟨s2, (e | ⟨P2, I2, R2, tb⟩)⟩ <;>
        rcases hb : batchTargets s1 src tgts acc1 [] with ⟨s2', (e' | ⟨acc2, tb'⟩)⟩ <;> rw [ht, hb] at g1 g2 <;>
        simp only [cw_relT] at g1 g2
      · subst g1 g2; exact ⟨rfl, rfl⟩
      · obtain ⟨g2, rfl⟩ := g2
        subst g1
        simp only [cw_endS]
        rw [g2.block src]
        refine cw_refS_atomic rest _ _ I2 R2 acc2 ?_
        have hc := cw_refT_keeps src src tgts s1 P1 I R1 [] (cw_head_cached false s src P R hh) _ _ _ _ _ ht
        rcases hp : pagesGet P2 src with _ | ⟨n, c⟩
        · rw [hp] at hc; simp at hc
        · have hbk : (dictGet? acc2.pages src).getD 0 = n := by rw [← g2.pages src, hp]; rfl
          rw [hbk]
          exact g2.set src hp _

theorem cw_refF_atomic (P : cw_Pg) (pages : List (Bytes × Nat))
    (h : ∀ l, pageBlock P l = (dictGet? pages l).getD 0) : ∀ (L : cw_In) (s : State),
    cw_refF P L s = flushLists false pages s L
  | [], s => rfl
  | (t, srcs) :: rest, s => by
    rw [cw_refF, flushLists, h t]
    have : srcs.map (pageBlock P) = blocksOf pages srcs := List.map_congr_left (fun l _ => h l)
    rw [this]
    exact cw_refF_atomic P pages h rest _

/-- **`cw_ref false` is `index_batch_crawl`** -/
theorem cw_ref_false (s : State) (data : List (Bytes × List Bytes)) : cw_ref false s data = s.batch data := by
  unfold cw_ref cw_fromS batch
  obtain ⟨h1, h2⟩ := cw_refS_atomic data s [] [] {} {} ⟨fun _ => rfl, rfl, rfl⟩
  rcases hr : cw_refS false data s [] [] {} with ⟨s1, (e | ⟨P, I, R⟩)⟩ <;>
    rcases hb : batchSources s data {} with ⟨s1', (e' | acc)⟩ <;> rw [hr, hb] at h1 h2 <;>
    simp only [cw_relS] at h1 h2
  · subst h1 h2; rfl
  · subst h1
    simp only
    rw [cw_refF_atomic P acc.pages (fun l => h2.block l) I s1, h2.inl, h2.rep]

/-! ### step 2b, in general: `cw_ref true` and `cw_ref false` agree up to the ghost write log

    The machine may rewrite a source block that is already flagged crawled (its cached node copy is stale):
    the same block contents, one more entry in the log. -/

/-- forget the ghost log -/
def cw_erase (s : State) : State := { s with log := [] }

theorem cw_erase_addLog (s : State) (l : List Write) : cw_erase (s.addLog l) = cw_erase s := rfl

/-- equal but for the ghost log -/
def cw_Eqv (a b : State) : Prop := cw_erase a = cw_erase b

theorem cw_Eqv.refl (a : State) : cw_Eqv a a := rfl

theorem cw_Eqv.cell {a b : State} (h : cw_Eqv a b) (n : Nat) : a.cell n = b.cell n := by
  have : (cw_erase a).cell n = (cw_erase b).cell n := by rw [h]
  exact this

theorem cw_eqv_map {f : State → State} (hf : ∀ s l, f (s.addLog l) = (f s).addLog l) {a b : State}
    (h : cw_Eqv a b) : cw_Eqv (f a) (f b) := by
  have ha : f a = (f (cw_erase a)).addLog a.log := hf (cw_erase a) a.log
  have hb : f b = (f (cw_erase b)).addLog b.log := hf (cw_erase b) b.log
  unfold cw_Eqv
  rw [ha, hb, cw_erase_addLog, cw_erase_addLog, h]

theorem cw_eqv_map2 {β : Type} {f : State → State × β} (hf : ∀ s l, f (s.addLog l) = ((f s).1.addLog l, (f s).2))
    {a b : State} (h : cw_Eqv a b) : cw_Eqv (f a).1 (f b).1 ∧ (f a).2 = (f b).2 := by
  have ha : f a = ((f (cw_erase a)).1.addLog a.log, (f (cw_erase a)).2) := hf (cw_erase a) a.log
  have hb : f b = ((f (cw_erase b)).1.addLog b.log, (f (cw_erase b)).2) := hf (cw_erase b) b.log
  unfold cw_Eqv
  rw [ha, hb, cw_erase_addLog, cw_erase_addLog, h]
  exact ⟨rfl, rfl⟩

theorem cw_setIfInBounds_same {α : Type} (a : Array α) (n : Nat) (c : α) (h : a[n]? = some c) :
    a.setIfInBounds n c = a := by
  apply Array.ext_getElem?
  intro i
  rw [Array.getElem?_setIfInBounds]
  split
  · rename_i e
    obtain ⟨rfl, _⟩ := e
    split
    · exact h.symm
    · rename_i hlt
      have := (Array.getElem?_eq_some_iff.mp h).1
      exact absurd this hlt
  · rfl

theorem cw_mark_id (c : Cell) (h : c.flags.crawled = true) : ({ c with flags := { c.flags with crawled := true } } : Cell) = c := by
  obtain ⟨ch, fl, we, l, r, cd, pa, o, i⟩ := c
  obtain ⟨a1, a2, a3, a4, a5, a6, a7, a8⟩ := fl
  simp only at h
  subst h
  rfl

/-- flagging a block that is flagged already only adds to the log -/
theorem cw_eqv_mark (s : State) (n : Nat) (h : (s.cell n).flags.crawled = true) :
    cw_Eqv (s.modCell n (fun c => { c with flags := { c.flags with crawled := true } })) s := by
  unfold modCell
  cases hc : s.trie[n]? with
  | none => rfl
  | some c =>
    have hcell : s.cell n = c := by unfold cell; rw [hc]; rfl
    rw [hcell] at h
    simp only [cw_mark_id c h]
    unfold cw_Eqv cw_erase setCell
    simp only [cw_setIfInBounds_same s.trie n c hc]

theorem cw_Eqv.trans {a b c : State} (h1 : cw_Eqv a b) (h2 : cw_Eqv b c) : cw_Eqv a c := Eq.trans h1 h2

theorem cw_refT_addLog (src : Bytes) (l : List Write) : ∀ (ts : List Bytes) (s : State) (P : cw_Pg) (I : cw_In)
    (R : Report) (tb : List Nat),
    cw_refT src ts (s.addLog l) P I R tb = ((cw_refT src ts s P I R tb).1.addLog l, (cw_refT src ts s P I R tb).2)
  | [], s, P, I, R, tb => rfl
  | t :: ts, s, P, I, R, tb => by
    rw [cw_refT, cw_refT]
    cases hg : pagesGet P t with
    | some v => obtain ⟨n, c⟩ := v; exact cw_refT_addLog src l ts s P _ R _
    | none =>
      simp only [addPageCore_addLog]
      rcases ha : s.addPageCore t false with ⟨s1, n, (e | r)⟩
      · rfl
      · exact cw_refT_addLog src l ts s1 _ _ _ _

theorem cw_refF_addLog (P : cw_Pg) (l : List Write) : ∀ (L : cw_In) (s : State),
    cw_refF P L (s.addLog l) = (cw_refF P L s).addLog l
  | [], s => rfl
  | (t, srcs) :: rest, s => by
    rw [cw_refF, cw_refF, addStubs_addLog]
    exact cw_refF_addLog P l rest _

/-- what the machine's cached node copies know: a cached crawled bit that is set is set in the index -/
def cw_W (s : State) (P : cw_Pg) : Prop :=
  0 < s.trie.size ∧ ∀ l n, pagesGet P l = some (n, true) → (s.cell n).flags.crawled = true

theorem cw_crawled_lt {s : State} {n : Nat} (h : (s.cell n).flags.crawled = true) : n < s.trie.size := by
  by_cases hlt : n < s.trie.size
  · exact hlt
  · exfalso
    have : s.trie[n]? = none := by simp; omega
    unfold cell at h
    rw [this] at h
    simp at h

theorem cw_W.mono {s s' : State} {P : cw_Pg} (h : cw_W s P) (le : s ⊑ s') : cw_W s' P :=
  ⟨le.pos h.1, fun l n hg => (le.cell_le n (cw_crawled_lt (h.2 l n hg))).crawled (h.2 l n hg)⟩

theorem cw_W.set {s : State} {P : cw_Pg} (h : cw_W s P) (l : Bytes) (n : Nat) (c : Bool)
    (hc : c = true → (s.cell n).flags.crawled = true) : cw_W s (pagesSet P l (n, c)) := by
  refine ⟨h.1, fun l' n' hg => ?_⟩
  by_cases e : l' = l
  · subst e
    have : pagesGet (pagesSet P l' (n, c)) l' = some (n, c) := Co.dictGet?_dictSet_self P l' (n, c)
    rw [this] at hg
    simp only [Option.some.injEq, Prod.mk.injEq] at hg
    obtain ⟨rfl, rfl⟩ := hg
    exact hc rfl
  · have : pagesGet (pagesSet P l (n, c)) l' = pagesGet P l' := Co.dictGet?_dictSet_ne P l (n, c) l' e
    rw [this] at hg
    exact h.2 l' n' hg

/-- the same but for the source in progress (its cached bit is refreshed when its targets are done) -/
def cw_Wx (s : State) (P : cw_Pg) (x : Bytes) : Prop :=
  0 < s.trie.size ∧ ∀ l n, l ≠ x → pagesGet P l = some (n, true) → (s.cell n).flags.crawled = true

theorem cw_Wx.mono {s s' : State} {P : cw_Pg} {x : Bytes} (h : cw_Wx s P x) (le : s ⊑ s') : cw_Wx s' P x :=
  ⟨le.pos h.1, fun l n hx hg => (le.cell_le n (cw_crawled_lt (h.2 l n hx hg))).crawled (h.2 l n hx hg)⟩

theorem cw_Wx.set {s : State} {P : cw_Pg} {x : Bytes} (h : cw_Wx s P x) (l : Bytes) (n : Nat) (c : Bool)
    (hc : l ≠ x → c = true → (s.cell n).flags.crawled = true) : cw_Wx s (pagesSet P l (n, c)) x := by
  refine ⟨h.1, fun l' n' hx hg => ?_⟩
  by_cases e : l' = l
  · subst e
    have : pagesGet (pagesSet P l' (n, c)) l' = some (n, c) := Co.dictGet?_dictSet_self P l' (n, c)
    rw [this] at hg
    simp only [Option.some.injEq, Prod.mk.injEq] at hg
    obtain ⟨rfl, rfl⟩ := hg
    exact hc hx rfl
  · have : pagesGet (pagesSet P l (n, c)) l' = pagesGet P l' := Co.dictGet?_dictSet_ne P l (n, c) l' e
    rw [this] at hg
    exact h.2 l' n' hx hg

theorem cw_W.wx {s : State} {P : cw_Pg} (h : cw_W s P) (x : Bytes) : cw_Wx s P x :=
  ⟨h.1, fun l n _ hg => h.2 l n hg⟩

theorem cw_refT_W (src x : Bytes) : ∀ (ts : List Bytes) (s : State) (P : cw_Pg) (I : cw_In) (R : Report)
    (tb : List Nat), cw_Wx s P x →
    ∀ s2 P2 I2 R2 tb2, cw_refT src ts s P I R tb = (s2, .ok (P2, I2, R2, tb2)) → cw_Wx s2 P2 x
  | [], s, P, I, R, tb, h, s2, P2, I2, R2, tb2, he => by
    simp only [cw_refT, Prod.mk.injEq, Except.ok.injEq] at he
    obtain ⟨rfl, rfl, _⟩ := he
    exact h
  | t :: ts, s, P, I, R, tb, h, s2, P2, I2, R2, tb2, he => by
    rw [cw_refT] at he
    cases hg : pagesGet P t with
    | some v =>
      obtain ⟨n, c⟩ := v
      simp only [hg] at he
      exact cw_refT_W src x ts s P _ R _ h s2 P2 I2 R2 tb2 he
    | none =>
      simp only [hg] at he
      have le := le_addPageCore s t false h.1
      rcases ha : s.addPageCore t false with ⟨s1, n, (e | r)⟩
      · rw [ha] at he; simp at he
      · rw [ha] at he le
        exact cw_refT_W src x ts s1 _ _ _ _ ((h.mono le).set t n _ (fun _ hc => hc)) s2 P2 I2 R2 tb2 he

theorem cw_endS_W {s : State} {P : cw_Pg} {src : Bytes} (h : cw_Wx s P src) (tb : List Nat) :
    cw_W (cw_endS s src P tb).1 (cw_endS s src P tb).2 := by
  have le := le_addStubs s (pageBlock P src) tb true
  refine ⟨le.pos h.1, fun l n hg => ?_⟩
  by_cases e : l = src
  · subst e
    have : pagesGet (cw_endS s l P tb).2 l = some (pageBlock P l, (s.cell (pageBlock P l)).flags.crawled) :=
      Co.dictGet?_dictSet_self P l _
    rw [this] at hg
    simp only [Option.some.injEq, Prod.mk.injEq] at hg
    obtain ⟨rfl, hc⟩ := hg
    exact (le.cell_le _ (cw_crawled_lt hc)).crawled hc
  · have : pagesGet (cw_endS s src P tb).2 l = pagesGet P l := Co.dictGet?_dictSet_ne P src _ l e
    rw [this] at hg
    exact ((h.mono le).2 l n e hg)

theorem cw_endS_eqv {a b : State} (h : cw_Eqv a b) (src : Bytes) (P : cw_Pg) (tb : List Nat) :
    cw_Eqv (cw_endS a src P tb).1 (cw_endS b src P tb).1 ∧ (cw_endS a src P tb).2 = (cw_endS b src P tb).2 := by
  unfold cw_endS
  refine ⟨cw_eqv_map (f := fun s => s.addStubs (pageBlock P src) tb true) (fun s l => addStubs_addLog s l _ _ _) h, ?_⟩
  simp only [h.cell]

/-- the first step on a source: the machine asks its cached copy, the atomic request asks the index -/
theorem cw_head_eqv {a b : State} (h : cw_Eqv a b) (src : Bytes) (P : cw_Pg) (R : Report) (hw : cw_W a P) :
    cw_Eqv (cw_head true a src P R).1 (cw_head false b src P R).1 ∧
      (cw_head true a src P R).2 = (cw_head false b src P R).2 ∧
      ∀ s1 P1 R1, cw_head true a src P R = (s1, .ok (P1, R1)) → cw_Wx s1 P1 src := by
  unfold cw_head
  cases hg : pagesGet P src with
  | none =>
    simp only
    obtain ⟨g1, g2⟩ := cw_eqv_map2 (f := fun s => s.addPageCore src true) (fun s l => addPageCore_addLog s l _ _) h
    have le := le_addPageCore a src true hw.1
    rcases ha : a.addPageCore src true with ⟨a1, n, (e | r)⟩ <;>
      rcases hb : b.addPageCore src true with ⟨b1, n', (e' | r')⟩ <;> rw [ha, hb] at g1 g2 <;>
      simp only [Prod.mk.injEq, Except.error.injEq, Except.ok.injEq, reduceCtorEq, and_false] at g2
    · obtain ⟨rfl, rfl⟩ := g2
      exact ⟨g1, rfl, fun _ _ _ he => by simp at he⟩
    · obtain ⟨rfl, rfl⟩ := g2
      rw [ha] at le
      refine ⟨g1, by simp only [g1.cell], fun s1 P1 R1 he => ?_⟩
      simp only [Prod.mk.injEq, Except.ok.injEq] at he
      obtain ⟨rfl, rfl, _⟩ := he
      exact ((hw.wx src).mono le).set src n _ (fun hx => absurd rfl hx)
  | some v =>
    obtain ⟨n, c⟩ := v
    simp only [cw_test_true, cw_test_false]
    have hmod := cw_eqv_map (f := fun s => s.modCell n (fun c => { c with flags := { c.flags with crawled := true } }))
      (fun s l => modCell_addLog s l _ _) h
    have lem : a ⊑ a.modCell n (fun c => { c with flags := { c.flags with crawled := true } }) :=
      le_modCell _ _ _ (fun c _ => cellLe_flags_crawled c)
    cases c with
    | true =>
      have hb : (b.cell n).flags.crawled = true := by rw [← h.cell]; exact hw.2 src n hg
      simp only [hb, Bool.not_true, Bool.false_eq_true, if_false]
      refine ⟨h, trivial, fun s1 P1 R1 he => ?_⟩
      simp only [Prod.mk.injEq, Except.ok.injEq] at he
      obtain ⟨rfl, rfl, _⟩ := he
      exact (hw.wx src).set src n true (fun hx => absurd rfl hx)
    | false =>
      simp only [Bool.not_false, if_true]
      by_cases hb : (b.cell n).flags.crawled = true
      · simp only [hb, Bool.not_true, Bool.false_eq_true, if_false]
        have ha : (a.cell n).flags.crawled = true := by rw [h.cell]; exact hb
        refine ⟨(cw_eqv_mark a n ha).trans h, trivial, fun s1 P1 R1 he => ?_⟩
        simp only [Prod.mk.injEq, Except.ok.injEq] at he
        obtain ⟨rfl, rfl, _⟩ := he
        exact ((hw.wx src).mono lem).set src n true (fun hx => absurd rfl hx)
      · simp only [Bool.not_eq_true] at hb
        simp only [hb, Bool.not_false, if_true]
        refine ⟨hmod, trivial, fun s1 P1 R1 he => ?_⟩
        simp only [Prod.mk.injEq, Except.ok.injEq] at he
        obtain ⟨rfl, rfl, _⟩ := he
        exact ((hw.wx src).mono lem).set src n true (fun hx => absurd rfl hx)

theorem cw_refS_eqv : ∀ (data : List (Bytes × List Bytes)) (a b : State) (P : cw_Pg) (I : cw_In) (R : Report),
    cw_Eqv a b → cw_W a P →
    cw_Eqv (cw_refS true data a P I R).1 (cw_refS false data b P I R).1 ∧
      (cw_refS true data a P I R).2 = (cw_refS false data b P I R).2
  | [], a, b, P, I, R, h, _ => ⟨h, rfl⟩
  | (src, tgts) :: rest, a, b, P, I, R, h, hw => by
    rw [cw_refS, cw_refS]
    obtain ⟨g1, g2, g3⟩ := cw_head_eqv h src P R hw
    rcases ha : cw_head true a src P R with ⟨a1, (e | ⟨P1, R1⟩)⟩ <;>
      rcases hb : cw_head false b src P R with ⟨b1, (e' | ⟨P1', R1'⟩)⟩ <;> rw [ha, hb] at g1 g2 <;>
      simp only [Except.error.injEq, Except.ok.injEq, reduceCtorEq, Prod.mk.injEq] at g2
    · subst g2; exact ⟨g1, rfl⟩
    · obtain ⟨rfl, rfl⟩ := g2
      simp only
      have hw1 := g3 a1 P1 R1 ha
      obtain ⟨k1, k2⟩ := cw_eqv_map2 (f := fun s => cw_refT src tgts s P1 I R1 [])
        (fun s l => cw_refT_addLog src l tgts s P1 I R1 []) g1
      have hw2 := cw_refT_W src src tgts a1 P1 I R1 [] hw1
      rcases ht : cw_refT src tgts a1 P1 I R1 [] with ⟨a2, (e | ⟨P2, I2, R2, tb⟩)⟩ <;>
        rcases ht' : cw_refT src tgts b1 P1 I R1 [] with ⟨b2, (e' | ⟨P2', I2', R2', tb'⟩)⟩ <;> rw [ht, ht'] at k1 k2 <;>
        simp only [Except.error.injEq, Except.ok.injEq, reduceCtorEq, Prod.mk.injEq] at k2
      · subst k2; exact ⟨k1, rfl⟩
      · obtain ⟨rfl, rfl, rfl, rfl⟩ := k2
        simp only
        obtain ⟨m1, m2⟩ := cw_endS_eqv k1 src P2 tb
        rw [← m2]
        exact cw_refS_eqv rest _ _ _ I2 R2 m1 (cw_endS_W (hw2 a2 P2 I2 R2 tb ht) tb)

/-- **the machine's big step and the atomic request agree up to the ghost log** -/
theorem cw_ref_eqv (s : State) (h0 : 0 < s.trie.size) (data : List (Bytes × List Bytes)) :
    cw_Eqv (cw_ref true s data).1 (s.batch data).1 ∧ (cw_ref true s data).2 = (s.batch data).2 := by
  rw [← cw_ref_false]
  unfold cw_ref cw_fromS
  obtain ⟨g1, g2⟩ := cw_refS_eqv data s s [] [] {} (cw_Eqv.refl s) ⟨h0, fun l n hg => by simp [pagesGet, dictGet?] at hg⟩
  rcases ha : cw_refS true data s [] [] {} with ⟨a1, (e | ⟨P, I, R⟩)⟩ <;>
    rcases hb : cw_refS false data s [] [] {} with ⟨b1, (e' | ⟨P', I', R'⟩)⟩ <;> rw [ha, hb] at g1 g2 <;>
    simp only [Except.error.injEq, Except.ok.injEq, reduceCtorEq, Prod.mk.injEq] at g2
  · subst g2; exact ⟨g1, rfl⟩
  · obtain ⟨rfl, rfl, rfl⟩ := g2
    exact ⟨cw_eqv_map (f := fun s => cw_refF P I s) (fun s l => cw_refF_addLog P l I s) g1, rfl⟩

/-! ### step 2b, exactly: if no two byte strings of the batch denote the same LRU, the cached crawled bits are
    those of the index, and `cw_ref true = cw_ref false`

    (`lru_iter` drops the bytes after the last separator, so two different byte strings may denote the same
    node: see `cw_witness` below.) -/

/-- the byte strings the batch may submit: each cuts into at least one stem, no two into the same stems -/
structure cw_Uni (U : Bytes → Prop) : Prop where
  wf : ∀ l, U l → lruIter l ≠ []
  inj : ∀ l l', U l → U l' → lruIter l = lruIter l' → l = l'

/-- the cache of the machine running alone: every cached byte string is an entry of the tree at the cached
    block, which is a page, and the cached crawled bit *is* the bit of the block -/
structure cw_J (U : Bytes → Prop) (s : State) (t : T) (P : cw_Pg) : Prop where
  shape : Shape s t
  inv : Inv s t
  ent : ∀ l n c, pagesGet P l = some (n, c) →
    U l ∧ (lruIter l, n) ∈ t.entries s [] ∧ (s.cell n).flags.page = true ∧ c = (s.cell n).flags.crawled

theorem cw_J_entry {s s' : State} {t t' : T} {A : List (LRU × Bool × Bool)} (h : Shape s t) (x : Ext s t s' t')
    (le : s ⊑ s') (a : Adds s t s' t' A) {p : LRU} {n : Nat} {c : Bool}
    (h1 : (p, n) ∈ t.entries s []) (h2 : (s.cell n).flags.page = true) (h3 : c = (s.cell n).flags.crawled)
    (hA : c = false → ∀ y ∈ A, y.1 = p → y.2.2 = true → False) :
    (p, n) ∈ t'.entries s' [] ∧ (s'.cell n).flags.page = true ∧ c = (s'.cell n).flags.crawled := by
  have hlt := entry_lt h h1
  have cl := le.cell_le n hlt
  refine ⟨x.keep _ _ h1, cl.page h2, ?_⟩
  cases c with
  | true => exact (cl.crawled h3.symm).symm
  | false =>
    cases hc : (s'.cell n).flags.crawled with
    | false => rfl
    | true =>
      exfalso
      rcases a.may p ⟨n, x.keep _ _ h1, cl.page h2, hc⟩ with ⟨b, g1, _, g3⟩ | ⟨y, hy, e1, e2⟩
      · have := entries_path_injective h.ord h.nodup g1 h1
        subst this
        rw [g3] at h3
        exact Bool.noConfusion h3
      · exact hA rfl y hy e1 e2

theorem cw_J.step {U : Bytes → Prop} {s s' : State} {t t' : T} {A : List (LRU × Bool × Bool)} {P : cw_Pg}
    (h : cw_J U s t P) (x : Ext s t s' t') (le : s ⊑ s') (a : Adds s t s' t' A)
    (hA : ∀ l n, pagesGet P l = some (n, false) → ∀ y ∈ A, y.1 = lruIter l → y.2.2 = true → False) :
    cw_J U s' t' P := by
  refine ⟨x.shape, a.inv, fun l n c hg => ?_⟩
  obtain ⟨u, h1, h2, h3⟩ := h.ent l n c hg
  exact ⟨u, cw_J_entry h.shape x le a h1 h2 h3 (fun hc => by subst hc; exact hA l n hg)⟩

theorem cw_J.set {U : Bytes → Prop} {s : State} {t : T} {P : cw_Pg} (h : cw_J U s t P) {l : Bytes} {n : Nat}
    (u : U l) (h1 : (lruIter l, n) ∈ t.entries s []) (h2 : (s.cell n).flags.page = true) :
    cw_J U s t (pagesSet P l (n, (s.cell n).flags.crawled)) := by
  refine ⟨h.shape, h.inv, fun l' n' c' hg => ?_⟩
  by_cases e : l' = l
  · subst e
    have : pagesGet (pagesSet P l' (n, (s.cell n).flags.crawled)) l' = some (n, (s.cell n).flags.crawled) :=
      Co.dictGet?_dictSet_self P l' _
    rw [this] at hg
    simp only [Option.some.injEq, Prod.mk.injEq] at hg
    obtain ⟨rfl, rfl⟩ := hg
    exact ⟨u, h1, h2, rfl⟩
  · have : pagesGet (pagesSet P l (n, (s.cell n).flags.crawled)) l' = pagesGet P l' :=
      Co.dictGet?_dictSet_ne P l _ l' e
    rw [this] at hg
    exact h.ent l' n' c' hg

/-- a page not cached yet is inserted -/
theorem cw_J.new {U : Bytes → Prop} (hU : cw_Uni U) {s : State} {t : T} {P : cw_Pg} (h : cw_J U s t P) {l : Bytes}
    (u : U l) (hg : pagesGet P l = none) (c : Bool) :
    ∃ t', cw_J U (s.addPageCore l c).1 t'
      (pagesSet P l ((s.addPageCore l c).2.1, ((s.addPageCore l c).1.cell (s.addPageCore l c).2.1).flags.crawled)) := by
  obtain ⟨t', x, f⟩ := addPageCore_step h.shape l c
  obtain ⟨g1, g2, g3⟩ := f (hU.wf l u)
  have le := le_addPageCore s l c h.shape.live
  refine ⟨t', (h.step x le (g3 h.inv).1 (fun l' n' hg' y hy e _ => ?_)).set u g1 g2⟩
  simp only [List.mem_singleton] at hy
  subst hy
  simp only at e
  have := hU.inj _ _ u (h.ent l' n' false hg').1 e
  subst this
  rw [hg] at hg'
  cases hg'

theorem cw_refT_J {U : Bytes → Prop} (hU : cw_Uni U) (src : Bytes) : ∀ (ts : List Bytes) (s : State) (t : T)
    (P : cw_Pg) (I : cw_In) (R : Report) (tb : List Nat), cw_J U s t P → (∀ x ∈ ts, U x) →
    ∀ s2 P2 I2 R2 tb2, cw_refT src ts s P I R tb = (s2, .ok (P2, I2, R2, tb2)) → ∃ t2, cw_J U s2 t2 P2
  | [], s, t, P, I, R, tb, h, _, s2, P2, I2, R2, tb2, he => by
    simp only [cw_refT, Prod.mk.injEq, Except.ok.injEq] at he
    obtain ⟨rfl, rfl, _⟩ := he
    exact ⟨t, h⟩
  | x :: ts, s, t, P, I, R, tb, h, hu, s2, P2, I2, R2, tb2, he => by
    rw [cw_refT] at he
    cases hg : pagesGet P x with
    | some v =>
      obtain ⟨n, c⟩ := v
      simp only [hg] at he
      exact cw_refT_J hU src ts s t P _ R _ h (fun y hy => hu y (List.mem_cons_of_mem _ hy)) s2 P2 I2 R2 tb2 he
    | none =>
      simp only [hg] at he
      obtain ⟨t1, j1⟩ := h.new hU (hu x List.mem_cons_self) hg false
      rcases ha : s.addPageCore x false with ⟨s1, n, (e | r)⟩
      · rw [ha] at he; simp at he
      · rw [ha] at he j1
        exact cw_refT_J hU src ts s1 t1 _ _ _ _ j1 (fun y hy => hu y (List.mem_cons_of_mem _ hy)) s2 P2 I2 R2 tb2 he

theorem cw_endS_J {U : Bytes → Prop} {s : State} {t : T} {P : cw_Pg} (h : cw_J U s t P) (src : Bytes)
    (hc : (pagesGet P src).isSome) (tb : List Nat) : cw_J U (cw_endS s src P tb).1 t (cw_endS s src P tb).2 := by
  obtain ⟨⟨n, c⟩, hg⟩ := Option.isSome_iff_exists.mp hc
  obtain ⟨u, h1, h2, h3⟩ := h.ent src n c hg
  have hb : pageBlock P src = n := co_pageBlock_of_get hg
  have k := keeps_addStubs h.shape n tb true
  have le := le_addStubs s n tb true
  have j1 : cw_J U (s.addStubs n tb true) t P := h.step k.ext le (k.adds h.inv) (fun _ _ _ y hy => by simp at hy)
  obtain ⟨_, g1, g2, g3⟩ := j1.ent src n c hg
  unfold cw_endS
  rw [hb, ← h3, g3]
  exact j1.set u g1 g2

theorem cw_head_J {U : Bytes → Prop} (hU : cw_Uni U) {s : State} {t : T} {P : cw_Pg} (h : cw_J U s t P)
    (src : Bytes) (u : U src) (R : Report) :
    cw_head true s src P R = cw_head false s src P R ∧
      ∀ s1 P1 R1, cw_head true s src P R = (s1, .ok (P1, R1)) → ∃ t1, cw_J U s1 t1 P1 := by
  unfold cw_head
  cases hg : pagesGet P src with
  | none =>
    refine ⟨rfl, fun s1 P1 R1 he => ?_⟩
    simp only at he
    obtain ⟨t1, j1⟩ := h.new hU u hg true
    rcases ha : s.addPageCore src true with ⟨s1', n, (e | r)⟩
    · rw [ha] at he; simp at he
    · rw [ha] at he j1
      simp only [Prod.mk.injEq, Except.ok.injEq] at he
      obtain ⟨rfl, rfl, _⟩ := he
      exact ⟨t1, j1⟩
  | some v =>
    obtain ⟨n, c⟩ := v
    obtain ⟨_, h1, h2, h3⟩ := h.ent src n c hg
    simp only [cw_test_true, cw_test_false, ← h3]
    refine ⟨rfl, fun s1 P1 R1 he => ?_⟩
    have hlt := entry_lt h.shape h1
    cases c with
    | true =>
      simp only [Bool.not_true, Bool.false_eq_true, if_false, Prod.mk.injEq, Except.ok.injEq] at he
      obtain ⟨rfl, rfl, _⟩ := he
      rw [show pagesSet P src (n, true) = P from cw_dictSet_same P src (n, true) hg]
      exact ⟨t, h⟩
    | false =>
      simp only [Bool.not_false, if_true, Prod.mk.injEq, Except.ok.injEq] at he
      obtain ⟨rfl, rfl, _⟩ := he
      have x := ext_markCrawled h.shape n
      have le : s ⊑ s.modCell n (fun c => { c with flags := { c.flags with crawled := true } }) :=
        le_modCell _ _ _ (fun c _ => cellLe_flags_crawled c)
      have a := adds_markCrawled h.shape h.inv h1 h2
      have hcr : ((s.modCell n (fun c => { c with flags := { c.flags with crawled := true } })).cell n).flags.crawled = true := by
        rw [cell_modCell, if_pos ⟨rfl, hlt⟩]
      refine ⟨t, x.shape, a.inv, fun l' n' c' hg' => ?_⟩
      by_cases e : l' = src
      · subst e
        have : pagesGet (pagesSet P l' (n, true)) l' = some (n, true) := Co.dictGet?_dictSet_self P l' _
        rw [this] at hg'
        simp only [Option.some.injEq, Prod.mk.injEq] at hg'
        obtain ⟨rfl, rfl⟩ := hg'
        exact ⟨u, x.keep _ _ h1, (le.cell_le _ hlt).page h2, hcr.symm⟩
      · have : pagesGet (pagesSet P src (n, true)) l' = pagesGet P l' := Co.dictGet?_dictSet_ne P src _ l' e
        rw [this] at hg'
        obtain ⟨u', k1, k2, k3⟩ := h.ent l' n' c' hg'
        refine ⟨u', cw_J_entry h.shape x le a k1 k2 k3 (fun _ y hy e1 _ => ?_)⟩
        simp only [List.mem_singleton] at hy
        subst hy
        exact e (hU.inj _ _ u' u e1.symm)

theorem cw_refS_exact {U : Bytes → Prop} (hU : cw_Uni U) : ∀ (data : List (Bytes × List Bytes)) (s : State) (t : T)
    (P : cw_Pg) (I : cw_In) (R : Report), cw_J U s t P → (∀ d ∈ data, U d.1 ∧ ∀ x ∈ d.2, U x) →
    cw_refS true data s P I R = cw_refS false data s P I R
  | [], _, _, _, _, _, _, _ => rfl
  | (src, tgts) :: rest, s, t, P, I, R, h, hu => by
    rw [cw_refS, cw_refS]
    obtain ⟨hsrc, htg⟩ := hu (src, tgts) List.mem_cons_self
    obtain ⟨g1, g2⟩ := cw_head_J hU h src hsrc R
    rw [← g1]
    rcases hh : cw_head true s src P R with ⟨s1, (e | ⟨P1, R1⟩)⟩
    · rfl
    · simp only
      obtain ⟨t1, j1⟩ := g2 s1 P1 R1 hh
      rcases ht : cw_refT src tgts s1 P1 I R1 [] with ⟨s2, (e | ⟨P2, I2, R2, tb⟩)⟩
      · rfl
      · simp only
        obtain ⟨t2, j2⟩ := cw_refT_J hU src tgts s1 t1 P1 I R1 [] j1 htg _ _ _ _ _ ht
        have hc := cw_refT_keeps src src tgts s1 P1 I R1 [] (cw_head_cached true s src P R hh) _ _ _ _ _ ht
        exact cw_refS_exact hU rest _ t2 _ I2 R2 (cw_endS_J j2 src hc tb)
          (fun d hd => hu d (List.mem_cons_of_mem _ hd))

/-- the byte strings of a batch -/
def cw_lrus (data : List (Bytes × List Bytes)) (l : Bytes) : Prop := ∃ d ∈ data, l = d.1 ∨ l ∈ d.2

/-- **with one byte string per LRU, the machine's big step is the atomic request, write log included** -/
theorem cw_ref_exact {s : State} {t : T} (hs : Shape s t) (hi : Inv s t) (data : List (Bytes × List Bytes))
    (hU : cw_Uni (cw_lrus data)) : cw_ref true s data = s.batch data := by
  rw [← cw_ref_false]
  unfold cw_ref cw_fromS
  rw [cw_refS_exact hU data s t [] [] {} ⟨hs, hi, fun l n c hg => by simp [pagesGet, dictGet?] at hg⟩
    (fun d hd => ⟨⟨d, hd, Or.inl rfl⟩, fun x hx => ⟨d, hd, Or.inr hx⟩⟩)]

/-! ### Part A, headline statements -/

/-- equal but for the ghost log, field by field -/
theorem cw_Eqv_iff (a b : State) : cw_Eqv a b ↔
    a.hdrId = b.hdrId ∧ a.trie = b.trie ∧ a.links = b.links ∧ a.rules = b.rules ∧ a.dflt = b.dflt ∧ a.cfg = b.cfg := by
  obtain ⟨a1, a2, a3, a4, a5, a6, a7⟩ := a
  obtain ⟨b1, b2, b3, b4, b5, b6, b7⟩ := b
  simp only [cw_Eqv, cw_erase, State.mk.injEq, and_true]

/-- **A (general).** The crawl-batch generator drained alone, on any index with a header block, for a batch
    within the iteration bound of a section: it ends like `index_batch_crawl` (same report / same error) on
    an index that is the atomic one in every field except possibly the ghost write log. -/
theorem cw_batch_drain_eqv (s : State) (h0 : 0 < s.trie.size) (data : List (Bytes × List Bytes))
    (hF : 1 + (data.map (fun d => d.2.length + 2)).sum < 1000000) (N : Nat)
    (hN : 2 * (data.map (fun d => d.2.length)).sum < N) :
    (CoSt.drainW N s (.batch (BatchSt.init data))).2 = some (cw_outcome (s.batch data).2) ∧
      cw_Eqv (CoSt.drainW N s (.batch (BatchSt.init data))).1 (s.batch data).1 := by
  rw [cw_drainW_batch, cw_drainB_ref 1000000 N s data hF hN]
  obtain ⟨g1, g2⟩ := cw_ref_eqv s h0 data
  exact ⟨by simp only [cw_fin, g2], g1⟩

/-- **A (exact).** On a reachable index (`Shape`, `Inv`), for a well-formed batch (`CoReq.Wf`: every byte
    string cuts into at least one stem, the batch is within the iteration bound of a section) in which no two
    different byte strings denote the same LRU: the generator drained alone ends like `index_batch_crawl` on
    *the same* `State`, ghost write log included (the same primitive writes in the same order). -/
theorem cw_batch_drain_exact {s : State} {t : T} (hs : Shape s t) (hi : Inv s t) (data : List (Bytes × List Bytes))
    (hwf : (CoReq.batch data).Wf)
    (hinj : ∀ l l', cw_lrus data l → cw_lrus data l' → lruIter l = lruIter l' → l = l') (N : Nat)
    (hN : 2 * (data.map (fun d => d.2.length)).sum < N) :
    CoSt.drainW N s (.batch (BatchSt.init data)) = ((s.batch data).1, some (cw_outcome (s.batch data).2)) := by
  rw [cw_drainW_batch, cw_drainB_ref 1000000 N s data hwf.2 hN]
  have hU : cw_Uni (cw_lrus data) := by
    refine ⟨fun l hl => ?_, hinj⟩
    obtain ⟨d, hd, e | e⟩ := hl
    · rw [e]; exact (hwf.1 d hd).1
    · exact (hwf.1 d hd).2 l e
  rw [cw_ref_exact hs hi data hU]
  rfl

/-! ### the hypothesis "one byte string per LRU" cannot be dropped from the exact statement

    `lru_iter` drops whatever follows the last separator: `a|` and `a|x` are the same LRU, hence the same
    block. Batch `[(z|, [a|, a|x]), (a|, []), (a|x, [])]` on the empty index: both targets are new, the machine
    caches two uncrawled copies of block 2; as a source, `a|` flags the block (both codes); then `a|x` finds its
    own cached copy unflagged and rewrites the block, while `batchSources` reads the block, finds it flagged and
    does not write. Same files, same report, one more `trieSet` in the machine's log. -/

def cw_b (s : List Char) : Bytes := s.map (·.toNat)
def cw_ws : State := (State.fresh {} .never [] []).1
def cw_wdata : List (Bytes × List Bytes) :=
  [(cw_b "z|".toList, [cw_b "a|".toList, cw_b "a|x".toList]), (cw_b "a|".toList, []), (cw_b "a|x".toList, [])]

theorem cw_ws_reachable : ∃ t, Shape cw_ws t ∧ Inv cw_ws t := by
  obtain ⟨t, h, f⟩ := fresh_spec {} .never [] []
  exact ⟨t, h, (f (fun _ hx => by simp at hx)).1⟩

/-- the witness batch is well formed: only the injectivity hypothesis of `cw_batch_drain_exact` fails -/
theorem cw_wdata_wf : (CoReq.batch cw_wdata).Wf := by
  refine ⟨?_, by decide +kernel⟩
  decide +kernel

set_option maxRecDepth 1000000 in
/-- the witness: outcome and trie agree, the logs do not (16 writes against 15) -/
theorem cw_witness :
    (CoSt.drainW 10 cw_ws (.batch (BatchSt.init cw_wdata))).2 = some (cw_outcome (cw_ws.batch cw_wdata).2) ∧
    (CoSt.drainW 10 cw_ws (.batch (BatchSt.init cw_wdata))).1.trie = (cw_ws.batch cw_wdata).1.trie ∧
    (CoSt.drainW 10 cw_ws (.batch (BatchSt.init cw_wdata))).1.log.length = 16 ∧
    (cw_ws.batch cw_wdata).1.log.length = 15 ∧
    lruIter (cw_b "a|".toList) = lruIter (cw_b "a|x".toList) := by decide +kernel

theorem cw_witness_ne : CoSt.drainW 10 cw_ws (.batch (BatchSt.init cw_wdata)) ≠
    ((cw_ws.batch cw_wdata).1, some (cw_outcome (cw_ws.batch cw_wdata).2)) := by
  intro h
  have h3 := cw_witness.2.2.1
  rw [h, cw_witness.2.2.2.1] at h3
  exact absurd h3 (by decide)

/-! ### Part C: a single machine under the scheduler -/

theorem cw_run_finished : ∀ (N : Nat) (s : State),
    Sys.run (s, [CoSt.finished]) (List.replicate N 0)
      = ((s, [CoSt.finished]), List.replicate N (0, .failed (.other "StopIteration")))
  | 0, _ => rfl
  | N + 1, s => by
    rw [List.replicate_succ, Sys.run_cons_some (σ := (s, [CoSt.finished])) (c := .finished) _ rfl]
    simp only [CoSt.resume, List.set_cons_zero]
    rw [cw_run_finished N s]
    rfl

/-- the schedule that runs the only machine `N` times: its trace is `k` yields, the machine's final output,
    then `StopIteration`s; the final index is that of `CoSt.drainW` -/
theorem cw_run_drain : ∀ (N : Nat) (s : State) (c : CoSt) (s' : State) (o : CoOut),
    CoSt.drainW N s c = (s', some o) →
    ∃ k, k < N ∧ Sys.run (s, [c]) (List.replicate N 0) =
      ((s', [CoSt.finished]),
        List.replicate k (0, .yielded) ++ (0, o) :: List.replicate (N - k - 1) (0, .failed (.other "StopIteration")))
  | 0, s, c, s', o, h => by simp [CoSt.drainW] at h
  | N + 1, s, c, s', o, h => by
    rw [List.replicate_succ, Sys.run_cons_some (σ := (s, [c])) (c := c) _ rfl]
    simp only [List.set_cons_zero]
    rw [CoSt.drainW] at h
    have hfin := resume_not_yielded s c
    rcases hr : c.resume s with ⟨s1, c1, o1⟩
    rw [hr] at h hfin
    cases o1 with
    | yielded =>
      simp only at h
      obtain ⟨k, hk, e⟩ := cw_run_drain N s1 c1 s' o h
      refine ⟨k + 1, by omega, ?_⟩
      simp only [e]
      rw [show N + 1 - (k + 1) - 1 = N - k - 1 by omega]
      rfl
    | done a =>
      simp only [Prod.mk.injEq, Option.some.injEq] at h
      obtain ⟨rfl, rfl⟩ := h
      have : c1 = .finished := hfin (by simp)
      subst this
      refine ⟨0, by omega, ?_⟩
      simp only [cw_run_finished]
      rfl
    | failed e =>
      simp only [Prod.mk.injEq, Option.some.injEq] at h
      obtain ⟨rfl, rfl⟩ := h
      have : c1 = .finished := hfin (by simp)
      subst this
      refine ⟨0, by omega, ?_⟩
      simp only [cw_run_finished]
      rfl

/-- **C (batch, exact).** `cw_batch_drain_exact` under the scheduler -/
theorem cw_batch_run_exact {s : State} {t : T} (hs : Shape s t) (hi : Inv s t) (data : List (Bytes × List Bytes))
    (hwf : (CoReq.batch data).Wf)
    (hinj : ∀ l l', cw_lrus data l → cw_lrus data l' → lruIter l = lruIter l' → l = l') (N : Nat)
    (hN : 2 * (data.map (fun d => d.2.length)).sum < N) :
    ∃ k, k < N ∧ Sys.run (s, [CoReq.init (.batch data)]) (List.replicate N 0) =
      (((s.batch data).1, [CoSt.finished]),
        List.replicate k (0, .yielded) ++ (0, cw_outcome (s.batch data).2) ::
          List.replicate (N - k - 1) (0, .failed (.other "StopIteration"))) :=
  cw_run_drain N s _ _ _ (cw_batch_drain_exact hs hi data hwf hinj N hN)

/-- **C (batch, general).** `cw_batch_drain_eqv` under the scheduler -/
theorem cw_batch_run_eqv (s : State) (h0 : 0 < s.trie.size) (data : List (Bytes × List Bytes))
    (hF : 1 + (data.map (fun d => d.2.length + 2)).sum < 1000000) (N : Nat)
    (hN : 2 * (data.map (fun d => d.2.length)).sum < N) :
    ∃ k s', k < N ∧ cw_Eqv s' (s.batch data).1 ∧ Sys.run (s, [CoReq.init (.batch data)]) (List.replicate N 0) =
      ((s', [CoSt.finished]),
        List.replicate k (0, .yielded) ++ (0, cw_outcome (s.batch data).2) ::
          List.replicate (N - k - 1) (0, .failed (.other "StopIteration"))) := by
  obtain ⟨g1, g2⟩ := cw_batch_drain_eqv s h0 data hF N hN
  obtain ⟨k, hk, e⟩ := cw_run_drain N s (CoReq.init (.batch data)) _ _ (Prod.ext rfl g1)
  exact ⟨k, _, hk, g2, e⟩

/-! ## Part B — the rule installation -/

/-- drain at the level of `ruleResume` -/
def cw_drainR : Nat → State → RuleSt → State × Option CoOut
  | 0, s, _ => (s, none)
  | n + 1, s, r =>
    match ruleResume s r with
    | (s1, r1, .yielded) => cw_drainR n s1 r1
    | (s1, _, o) => (s1, some o)

theorem cw_drainW_rule : ∀ (N : Nat) (s : State) (r : RuleSt),
    CoSt.drainW N s (.rule r) = cw_drainR N s r
  | 0, _, _ => rfl
  | N + 1, s, r => by
    rw [CoSt.drainW, cw_drainR]
    rcases h : ruleResume s r with ⟨s1, r1, o⟩
    cases o with
    | yielded => simp only [CoSt.resume, h]; exact cw_drainW_rule N s1 r1
    | done a => simp only [CoSt.resume, h]
    | failed e => simp only [CoSt.resume, h]

/-- the stack of the suspended traversal once the children of the node visited last are pushed (from the
    stale copy) -/
def cw_stk (r : RuleSt) : List (Nat × Bytes) :=
  match r.pend with
  | some (b, lru, cur, c) => ruleNext r.start b c lru cur r.stack
  | none => r.stack

/-- the atomic walk empties its stack (or fails) before its fuel runs out -/
def cw_loopFin (start : Nat) : Nat → State → List (Nat × Bytes) → Report → Prop
  | _, _, [], _ => True
  | 0, _, _ :: _, _ => False
  | fuel + 1, s, (b, lru) :: stack, rep =>
    match ruleVisit s b lru rep with
    | (_, .error _) => True
    | (s1, .ok rep1) => cw_loopFin start fuel s1 (ruleNext start b (s.cell b) lru (lru ++ s.stemAt b) stack) rep1

theorem cw_ruleResume_started (s : State) (r : RuleSt) (h : r.started = true) : ruleResume s r = ruleBody s r := by
  rw [ruleResume_eq]
  unfold ruleStart
  rw [if_pos h]

theorem cw_ruleBody_eq (s : State) (r : RuleSt) :
    ruleBody s r =
      match cw_stk r with
      | [] => (s, { r with stack := [], pend := none }, .done (.report r.rep))
      | (b, lru) :: rest =>
        if (s.cell b).flags.page then
          match s.addPageCore (lru ++ s.stemAt b) false with
          | (s1, _, .error e) => (s1, { r with stack := rest, pend := none }, .failed e)
          | (s1, _, .ok r1) =>
            (s1, { r with stack := rest, pend := some (b, lru, lru ++ s.stemAt b, s.cell b), rep := r.rep.add r1 }, .yielded)
        else (s, { r with stack := rest, pend := some (b, lru, lru ++ s.stemAt b, s.cell b) }, .yielded) := by
  unfold ruleBody cw_stk
  generalize r.pend = p
  cases p with
  | none => rfl
  | some v => obtain ⟨b, lru, cur, c⟩ := v; rfl

theorem cw_ruleBody_nil (s : State) (r : RuleSt) (h : cw_stk r = []) :
    ∃ r1, ruleBody s r = (s, r1, .done (.report r.rep)) := by
  rw [cw_ruleBody_eq, h]
  exact ⟨_, rfl⟩

theorem cw_ruleBody_cons (s : State) (r : RuleSt) {b : Nat} {lru : Bytes} {rest : List (Nat × Bytes)}
    (h : cw_stk r = (b, lru) :: rest) :
    match ruleVisit s b lru r.rep with
    | (s1, .error e) => ∃ r1, ruleBody s r = (s1, r1, .failed e)
    | (s1, .ok rep1) => ruleBody s r =
        (s1, { r with stack := rest, pend := some (b, lru, lru ++ s.stemAt b, s.cell b), rep := rep1 }, .yielded) := by
  rw [cw_ruleBody_eq, h]
  unfold ruleVisit
  simp only
  by_cases hp : (s.cell b).flags.page = true
  · rw [if_pos hp, if_pos hp]
    rcases s.addPageCore (lru ++ s.stemAt b) false with ⟨s1, n, (e | r1)⟩
    · exact ⟨_, rfl⟩
    · rfl
  · rw [if_neg hp, if_neg hp]

/-- **the walk of the generator is the atomic walk**, whenever the latter ends within its fuel: from a
    started machine (`pend` = the node visited last, not expanded yet) the drain ends in the state and with the
    report of `addRuleLoop` run on the machine's pending stack -/
theorem cw_rule_sim : ∀ (fuel : Nat) (s : State) (r : RuleSt), r.started = true →
    cw_loopFin r.start fuel s (cw_stk r) r.rep → ∀ N, fuel < N →
    cw_drainR N s r = cw_fin (addRuleLoop r.start fuel s (cw_stk r) r.rep)
  | fuel, s, r, hst, hfin, N, hN => by
    obtain ⟨N', rfl⟩ := Nat.exists_eq_succ_of_ne_zero (by omega : N ≠ 0)
    rw [cw_drainR, cw_ruleResume_started s r hst]
    cases hk : cw_stk r with
    | nil =>
      obtain ⟨r1, e⟩ := cw_ruleBody_nil s r hk
      rw [e, addRuleLoop_nil]
      rfl
    | cons x rest =>
      obtain ⟨b, lru⟩ := x
      rw [hk] at hfin
      cases fuel with
      | zero => exact absurd hfin (by simp [cw_loopFin])
      | succ fuel =>
        have hb := cw_ruleBody_cons s r hk
        rw [addRuleLoop_succ_cons]
        rw [cw_loopFin] at hfin
        rcases hv : ruleVisit s b lru r.rep with ⟨s1, (e | rep1)⟩
        · rw [hv] at hb
          obtain ⟨r1, e1⟩ := hb
          rw [e1]
          rfl
        · rw [hv] at hb hfin
          simp only at hb hfin ⊢
          rw [hb]
          simp only
          exact cw_rule_sim fuel s1 { r with stack := rest, pend := some (b, lru, lru ++ s.stemAt b, s.cell b), rep := rep1 }
            hst hfin N' (by omega)

/-! ### the atomic walk does not run out of fuel (the argument of `addRuleLoop_eq`, `C06_rule_install`) -/

theorem cw_loopFin_nil (start fuel : Nat) (s : State) (rep : Report) : cw_loopFin start fuel s [] rep := by
  cases fuel <;> simp [cw_loopFin]

theorem cw_loopFin_succ_cons (start fuel : Nat) (s : State) (b : Nat) (lru : Bytes) (stack : List (Nat × Bytes))
    (rep : Report) :
    cw_loopFin start (fuel + 1) s ((b, lru) :: stack) rep =
      match ruleVisit s b lru rep with
      | (_, .error _) => True
      | (s1, .ok rep1) => cw_loopFin start fuel s1 (ruleNext start b (s.cell b) lru (lru ++ s.stemAt b) stack) rep1 := by
  rw [cw_loopFin]

theorem cw_loopFin_walk (start : Nat) : ∀ (fuel : Nat) (s : State) (t : T) (V : List Nat)
    (ds : List (T × Bytes)) (rep : Report), WalkInv start s t V ds →
    (s.reinsert (pagesOf s ds) rep).1.trie.size < fuel + V.length →
    cw_loopFin start fuel s (stackRoots ds) rep := by
  intro fuel
  induction fuel with
  | zero =>
    intro s t V ds rep w hf
    have h1 := w.fam.bound
    have h2 := reinsert_size_le (pagesOf s ds) s rep (by have := w.size; omega)
    omega
  | succ fuel ih =>
    intro s t V ds rep w hf
    cases ds with
    | nil => exact cw_loopFin_nil _ _ _ _
    | cons d rest =>
      obtain ⟨u, lru⟩ := d
      cases u with
      | nil => exact absurd rfl (w.ne (T.nil, lru) (by simp))
      | node a l c r =>
        have hr : Rep s (.node a l c r) := w.fam.rep (T.node a l c r, lru) (by simp)
        have hcnt := w.fam.cnt a
        have hane : a ≠ start := by
          intro e
          subst e
          have h1 : 0 < V.count a := List.count_pos_iff.mpr w.start
          rw [famCount_cons, count_addrs_node] at hcnt
          simp only [if_true] at hcnt
          omega
        have hVa : a ∉ V := by
          intro hm
          have h1 : 0 < V.count a := List.count_pos_iff.mpr hm
          rw [famCount_cons, count_addrs_node] at hcnt
          simp only [if_true] at hcnt
          omega
        show cw_loopFin start (fuel + 1) s ((a, lru) :: stackRoots rest) rep
        rw [cw_loopFin_succ_cons, ruleNext_stackRoots hr hane]
        rw [pagesOf_cons_node, reinsert_visit] at hf
        have hal : a < s.trie.size := hr.lt_size a (by simp [T.addrs])
        have rl : Rep s l := hr.2.2.1
        have rc : Rep s c := hr.2.2.2.1
        have rr : Rep s r := hr.2.2.2.2
        have hst0 : StackOk s t (stackRoots (pushIf c (lru ++ s.stemAt a) (pushIf l lru (pushIf r lru rest)))) := by
          rw [← ruleNext_stackRoots (start := start) hr hane]
          exact stackOk_next w.shape w.stack
        have hne0 : ∀ p ∈ pushIf c (lru ++ s.stemAt a) (pushIf l lru (pushIf r lru rest)), p.1 ≠ .nil :=
          pushIf_ne_nil (pushIf_ne_nil (pushIf_ne_nil (fun p hp => w.ne p (by simp [hp]))))
        have hf0 : Fam s (a :: V) (pushIf c (lru ++ s.stemAt a) (pushIf l lru (pushIf r lru rest))) := by
          refine ⟨?_, ?_, ?_⟩
          · exact pushIf_forall (P := fun t => Rep s t)
              (pushIf_forall (P := fun t => Rep s t)
                (pushIf_forall (P := fun t => Rep s t) (fun p hp => w.fam.rep p (by simp [hp])) (fun _ => rr))
                (fun _ => rl)) (fun _ => rc)
          · intro x
            have := w.fam.cnt x
            rw [famCount_cons, count_addrs_node] at this
            rw [famCount_pushIf, famCount_pushIf, famCount_pushIf, List.count_cons]
            simp only [beq_iff_eq]
            omega
          · intro x hx
            rcases List.mem_cons.mp hx with rfl | hx
            · exact hal
            · exact w.fam.vlt x hx
        rcases hR : ruleVisit s a lru rep with ⟨s1, res⟩
        rw [hR] at hf
        cases res with
        | error e => trivial
        | ok rep1 =>
          simp only at hf ⊢
          obtain ⟨t1, gs, w1, hp1⟩ := visit_ok (start := start) w.shape w.inv w.size (w.stack a lru (by simp [stackRoots]))
            hst0 hne0 hf0 (List.mem_cons_of_mem _ w.start) hR
          rw [← stackRoots_mapFam gs]
          rw [← hp1] at hf
          exact ih s1 t1 (a :: V) _ rep1 w1 (by rw [List.length_cons]; omega)

/-- the walk of `add_webentity_creation_rule` ends within the fuel the model gives it -/
theorem cw_loopFin_init {s : State} {t : T} (h : Shape s t) (hi : Inv s t) (anchor : Bytes) (r : Rule)
    (hne : lruIter anchor ≠ [])
    (hfuel : ((s.rulePrologue anchor r).1.reinsert
        ((s.rulePrologue anchor r).1.pagesBelow (s.rulePrologue anchor r).2 anchor) {}).1.trie.size <
      8 * ((s.rulePrologue anchor r).1.trie.size + 2) * ((s.rulePrologue anchor r).1.trie.size + 2)) :
    cw_loopFin (s.rulePrologue anchor r).2
      (8 * ((s.rulePrologue anchor r).1.trie.size + 2) * ((s.rulePrologue anchor r).1.trie.size + 2))
      (s.rulePrologue anchor r).1 [((s.rulePrologue anchor r).2, lruDirname anchor)] {} := by
  obtain ⟨t2, k2, hent⟩ := rulePrologue_keeps h anchor r
  have hP := hent hne
  have hi2 : Inv (s.rulePrologue anchor r).1 t2 := (k2.adds hi).inv
  generalize (s.rulePrologue anchor r).1 = s2 at *
  generalize (s.rulePrologue anchor r).2 = n at *
  have h2 := k2.shape
  obtain ⟨l, c, r', hr, hnd, hpb, _⟩ := pagesBelow_eq h2 hP
  rw [hpb] at hfuel
  have hn : n < s2.trie.size := hr.lt_size n (by simp [T.addrs])
  have hsz : 1 < s2.trie.size := by have := hr.1; omega
  obtain ⟨F, hF⟩ : ∃ F, 8 * (s2.trie.size + 2) * (s2.trie.size + 2) = F + 1 :=
    ⟨8 * (s2.trie.size + 2) * (s2.trie.size + 2) - 1, by
      have : 0 < 8 * (s2.trie.size + 2) * (s2.trie.size + 2) := Nat.mul_pos (by omega) (by omega)
      omega⟩
  rw [hF] at hfuel ⊢
  rw [cw_loopFin_succ_cons, ruleNext_stackRoots_start hr]
  rw [reinsert_visit] at hfuel
  have hst1 : StackOk s2 t2 [(n, lruDirname anchor)] := by
    intro b lru hm
    simp only [List.mem_singleton, Prod.mk.injEq] at hm
    obtain ⟨rfl, rfl⟩ := hm
    exact ⟨lruIter anchor, hP, rfl⟩
  have hst0 : StackOk s2 t2 (stackRoots (pushIf c (lruDirname anchor ++ s2.stemAt n) [])) := by
    rw [← ruleNext_stackRoots_start hr]
    exact stackOk_next h2 hst1
  have hne0 : ∀ p ∈ pushIf c (lruDirname anchor ++ s2.stemAt n) ([] : List (T × Bytes)), p.1 ≠ .nil :=
    pushIf_ne_nil (fun p hp => by simp at hp)
  have hf0 : Fam s2 [n] (pushIf c (lruDirname anchor ++ s2.stemAt n) []) := by
    refine ⟨pushIf_forall (P := fun t => Rep s2 t) (fun p hp => by simp at hp) (fun _ => hr.2.2.2.1), ?_, ?_⟩
    · intro x
      have := List.nodup_iff_count.mp hnd x
      rw [count_addrs_node] at this
      rw [famCount_pushIf, famCount_nil, List.count_cons, List.count_nil]
      simp only [beq_iff_eq]
      omega
    · intro x hx
      simp only [List.mem_singleton] at hx
      subst hx; exact hn
  rcases hR : ruleVisit s2 n (lruDirname anchor) {} with ⟨s1, res⟩
  rw [hR] at hfuel
  cases res with
  | error e => trivial
  | ok rep1 =>
    simp only at hfuel ⊢
    obtain ⟨t1, gs, w1, hp1⟩ := visit_ok (start := n) h2 hi2 hsz (hst1 n _ (by simp)) hst0 hne0 hf0
      (by simp) hR
    rw [← stackRoots_mapFam gs]
    rw [← hp1] at hfuel
    exact cw_loopFin_walk n F s1 t1 [n] _ rep1 w1 (by simpa using hfuel)

/-! ### Part B, headline statements -/

/-- the machine after the prologue of its first section -/
def cw_started (s : State) (anchor : Bytes) (r : Rule) : RuleSt :=
  { started := true, anchor := anchor, rule := r, start := (s.rulePrologue anchor r).2,
    stack := [((s.rulePrologue anchor r).2, lruDirname anchor)], pend := none, rep := {} }

theorem cw_rule_first (s : State) (anchor : Bytes) (r : Rule) :
    ruleResume s (RuleSt.init anchor r) = ruleBody (s.rulePrologue anchor r).1 (cw_started s anchor r) := by
  rw [ruleResume_eq]; rfl

theorem cw_drainR_init (N : Nat) (s : State) (anchor : Bytes) (r : Rule) :
    cw_drainR (N + 1) s (RuleSt.init anchor r) = cw_drainR (N + 1) (s.rulePrologue anchor r).1 (cw_started s anchor r) := by
  rw [cw_drainR, cw_drainR, cw_rule_first, cw_ruleResume_started _ (cw_started s anchor r) rfl]

/-- **B (fuel-free form).** Whenever the atomic walk run with `fuel` empties its stack (or fails) before the
    fuel runs out, the rule generator drained alone (more than `fuel` sections) ends in the same `State` — log
    included — with the same report or error as that walk. No invariant is needed. -/
theorem cw_rule_drain_of_fin (s : State) (anchor : Bytes) (r : Rule) (fuel : Nat)
    (hfin : cw_loopFin (s.rulePrologue anchor r).2 fuel (s.rulePrologue anchor r).1
      [((s.rulePrologue anchor r).2, lruDirname anchor)] {}) (N : Nat) (hN : fuel < N) :
    CoSt.drainW N s (.rule (RuleSt.init anchor r)) =
      cw_fin (addRuleLoop (s.rulePrologue anchor r).2 fuel (s.rulePrologue anchor r).1
        [((s.rulePrologue anchor r).2, lruDirname anchor)] {}) := by
  obtain ⟨N', rfl⟩ := Nat.exists_eq_succ_of_ne_zero (by omega : N ≠ 0)
  rw [cw_drainW_rule, cw_drainR_init]
  exact cw_rule_sim fuel (s.rulePrologue anchor r).1 (cw_started s anchor r) rfl hfin (N' + 1) hN

/-- **B.** On an index satisfying the invariants of reachable states (`Shape`, `Inv`, `SizeOk`), for an anchor
    that cuts into at least one stem: the rule generator drained alone ends in *the same* `State` as
    `add_webentity_creation_rule(anchor, rule)` (ghost write log included) with the same report or error. -/
theorem cw_rule_drain {s : State} {t : T} (h : Shape s t) (hi : Inv s t) (hz : SizeOk s t) (anchor : Bytes) (r : Rule)
    (hne : lruIter anchor ≠ []) (N : Nat)
    (hN : 8 * ((s.rulePrologue anchor r).1.trie.size + 2) * ((s.rulePrologue anchor r).1.trie.size + 2) < N) :
    CoSt.drainW N s (.rule (RuleSt.init anchor r)) =
      ((s.addRule anchor r true).1, some (cw_outcome (s.addRule anchor r true).2)) := by
  rw [cw_rule_drain_of_fin s anchor r _ (cw_loopFin_init h hi anchor r hne (rule_fuel_ok h hi hz anchor r hne)) N hN,
    ← addRule_true_eq]
  rfl

/-- `cw_rule_drain` in the `∃ N0` form -/
theorem cw_rule_drain_ex {s : State} {t : T} (h : Shape s t) (hi : Inv s t) (hz : SizeOk s t) (anchor : Bytes) (r : Rule)
    (hne : lruIter anchor ≠ []) :
    ∃ N0, ∀ N, N0 ≤ N → CoSt.drainW N s (.rule (RuleSt.init anchor r)) =
      ((s.addRule anchor r true).1, some (cw_outcome (s.addRule anchor r true).2)) :=
  ⟨_, fun N hN => cw_rule_drain h hi hz anchor r hne N (Nat.lt_of_succ_le hN)⟩

/-- **C (rule).** `cw_rule_drain` under the scheduler -/
theorem cw_rule_run {s : State} {t : T} (h : Shape s t) (hi : Inv s t) (hz : SizeOk s t) (anchor : Bytes) (r : Rule)
    (hne : lruIter anchor ≠ []) (N : Nat)
    (hN : 8 * ((s.rulePrologue anchor r).1.trie.size + 2) * ((s.rulePrologue anchor r).1.trie.size + 2) < N) :
    ∃ k, k < N ∧ Sys.run (s, [CoReq.init (.rule anchor r)]) (List.replicate N 0) =
      (((s.addRule anchor r true).1, [CoSt.finished]),
        List.replicate k (0, .yielded) ++ (0, cw_outcome (s.addRule anchor r true).2) ::
          List.replicate (N - k - 1) (0, .failed (.other "StopIteration"))) :=
  cw_run_drain N s _ _ _ (cw_rule_drain h hi hz anchor r hne N hN)

/-- `cw_batch_drain_exact` in the `∃ N0` form -/
theorem cw_batch_drain_exact_ex {s : State} {t : T} (hs : Shape s t) (hi : Inv s t) (data : List (Bytes × List Bytes))
    (hwf : (CoReq.batch data).Wf)
    (hinj : ∀ l l', cw_lrus data l → cw_lrus data l' → lruIter l = lruIter l' → l = l') :
    ∃ N0, ∀ N, N0 ≤ N → CoSt.drainW N s (.batch (BatchSt.init data)) =
      ((s.batch data).1, some (cw_outcome (s.batch data).2)) :=
  ⟨_, fun N hN => cw_batch_drain_exact hs hi data hwf hinj N (Nat.lt_of_succ_le hN)⟩

/-- the injectivity hypothesis holds when every byte string of the batch is a flattened LRU (ends with its
    last separator) -/
theorem cw_batch_drain_exact_canon {s : State} {t : T} (hs : Shape s t) (hi : Inv s t) (data : List (Bytes × List Bytes))
    (hwf : (CoReq.batch data).Wf) (hcanon : ∀ l, cw_lrus data l → (lruIter l).flatten = l) (N : Nat)
    (hN : 2 * (data.map (fun d => d.2.length)).sum < N) :
    CoSt.drainW N s (.batch (BatchSt.init data)) = ((s.batch data).1, some (cw_outcome (s.batch data).2)) :=
  cw_batch_drain_exact hs hi data hwf
    (fun l l' hl hl' e => by rw [← hcanon l hl, ← hcanon l' hl', e]) N hN

end Traph

#print axioms Traph.cw_batch_drain_eqv
#print axioms Traph.cw_batch_drain_exact
#print axioms Traph.cw_witness
#print axioms Traph.cw_witness_ne
#print axioms Traph.cw_batch_run_exact
#print axioms Traph.cw_batch_run_eqv
#print axioms Traph.cw_rule_drain_of_fin
#print axioms Traph.cw_rule_drain
#print axioms Traph.cw_rule_run

import Proofs.DerivedOps
import Proofs.ReopenEverywhere
/-! The derived requests keep a state reachable: the state after an unchecked deletion
    (`delete_webentity(…, check_for_corruption=False)`) whose prefixes are all in the index is reached by a
    disciplined history of well-formed requests, so every theorem about reachable states (`reachable_invariants`, …)
    applies after it. -/
namespace Traph
open State

/-- any further disciplined history of well-formed requests from a reachable state -/
theorem dr_reachable_run : ∀ (ops : List Op) {s : State}, Reachable s → (∀ op ∈ ops, OpWf op) → Disciplined s ops →
    Reachable (s.run ops)
  | [], _, h, _, _ => h
  | op :: ops, s, h, hwf, hd => by
    rw [run_cons]
    exact dr_reachable_run ops (reachable_step h op (hwf op (by simp)) hd.1)
      (fun o ho => hwf o (by simp [ho])) hd.2

/-- `remove_prefix_from_webentity` asks nothing of its argument: neither `OpWf` nor the discipline (`StepOk`)
    constrains it -/
theorem dr_removePrefix_wf (l : List Bytes) : ∀ op ∈ l.map (fun p => Op.removePrefix p none), OpWf op := by
  intro op ho
  obtain ⟨p, _, rfl⟩ := List.mem_map.mp ho
  trivial

theorem dr_removePrefix_disciplined : ∀ (l : List Bytes) (s : State),
    Disciplined s (l.map (fun p => Op.removePrefix p none))
  | [], _ => trivial
  | _ :: l, _ => ⟨trivial, dr_removePrefix_disciplined l _⟩

/-- a run of `remove_prefix_from_webentity` requests (no id given) from a reachable state -/
theorem dr_reachable_removePrefixes {s : State} (h : Reachable s) (l : List Bytes) :
    Reachable (s.run (l.map (fun p => Op.removePrefix p none))) :=
  dr_reachable_run _ h (dr_removePrefix_wf l) (dr_removePrefix_disciplined l s)

/-- **the state after an unchecked deletion whose prefixes are all located is reachable** (no hypothesis on the
    prefixes beyond being located: `OpWf` and `StepOk` are both `True` for `removePrefix`) -/
theorem deleteUnchecked_reachable' {s : State} (h : Reachable s) (ps : List Bytes)
    (hloc : ∀ p ∈ ps, s.lruNode (lruIter p) ≠ none) : Reachable (s.deleteUnchecked ps).1 := by
  obtain ⟨t, hs, _⟩ := reachable_invariants h
  rw [deleteUnchecked_eq_run hs ps hloc]
  exact dr_reachable_removePrefixes h _

/-- the statement as asked (`hne` is not used) -/
theorem deleteUnchecked_reachable {s : State} (h : Reachable s) (ps : List Bytes)
    (_hne : ∀ p ∈ ps, lruIter p ≠ []) (hloc : ∀ p ∈ ps, s.lruNode (lruIter p) ≠ none) :
    Reachable (s.deleteUnchecked ps).1 :=
  deleteUnchecked_reachable' h ps hloc

/-- …and even when some prefix is NOT located (the request raises `AttributeError` half-way) the state it leaves is
    reachable: it is the run of the requests for the distinct prefixes before the first missing one -/
theorem deleteUnchecked_reachable_any {s : State} (h : Reachable s) (ps : List Bytes) :
    Reachable (s.deleteUnchecked ps).1 := by
  by_cases hloc : ∀ p ∈ ps, s.lruNode (lruIter p) ≠ none
  · exact deleteUnchecked_reachable' h ps hloc
  · obtain ⟨t, hs, _⟩ := reachable_invariants h
    have hmiss : ∃ p ∈ ps, s.lruNode (lruIter p) = none := by
      apply Classical.byContradiction
      intro hn
      exact hloc (fun p hp e => hn ⟨p, hp, e⟩)
    obtain ⟨before, _, _, _, _, _, e⟩ := deleteUnchecked_fail hs ps hmiss
    rw [e]
    exact dr_reachable_removePrefixes h _

/-- so every invariant of the library holds after an unchecked deletion -/
theorem deleteUnchecked_invariants {s : State} (h : Reachable s) (ps : List Bytes) :
    ∃ t, Shape (s.deleteUnchecked ps).1 t ∧ Inv (s.deleteUnchecked ps).1 t ∧ SizeOk (s.deleteUnchecked ps).1 t ∧
      ParOk (s.deleteUnchecked ps).1 t 0 ∧ MarkOk (s.deleteUnchecked ps).1 t ∧ LkOk (s.deleteUnchecked ps).1 t [] ∧
      LinksOk (s.deleteUnchecked ps).1 ∧ RulesOk (s.deleteUnchecked ps).1 ∧ Whole (s.deleteUnchecked ps).1 ∧
      HeaderStub (s.deleteUnchecked ps).1 ∧ ∃ L, Graph (s.deleteUnchecked ps).1 t L :=
  reachable_invariants (deleteUnchecked_reachable_any h ps)

/-! ### a rule registered in RAM only (`add_webentity_creation_rule(…, write_in_trie=False)`)

    `Reachable` does NOT ask the keys of the RAM dict to be complete LRUs: `rulesCanonical` / `Canon` constrain the
    constructor's rules, `clear`'s rules and the anchors of `addRule` (which writes the trie), but `reopen d rs` takes
    ANY list `rs` that covers the anchors flagged in the trie. In a reachable state the RAM dict has distinct keys
    (`oe_reachable_rulesNodup`), so the state after the RAM-only registration is exactly the state after closing and
    reopening with the same default rule and the dict extended by the new rule — a disciplined request. -/

/-- the RAM-only registration is the step `reopen` with the extended dict -/
theorem dr_addRule_ram_eq_reopen {s : State} (hn : (s.rules.map (·.1)).Nodup) (a : Bytes) (r : Rule) :
    (s.addRule a r false).1 = (s.step (.reopen s.dflt (dictSet s.rules a r))).1 := by
  rw [addRule_ram]
  show _ = s.reopen s.dflt (dictSet s.rules a r)
  unfold reopen
  rw [foldl_dictSet_self _ (dictSet_keys_nodup s.rules a r hn) [] (by simp) (by simp)]
  simp

/-- **the state after a RAM-only rule registration is reachable** — whatever the anchor (not even a well-formed
    LRU is asked: nothing is written, and `reopen` accepts any list covering the flagged anchors) -/
theorem addRule_ram_reachable {s : State} (h : Reachable s) (a : Bytes) (r : Rule) :
    Reachable (s.addRule a r false).1 := by
  obtain ⟨t, _, _, _, _, _, _, _, ok, _⟩ := reachable_invariants h
  rw [dr_addRule_ram_eq_reopen (oe_reachable_rulesNodup h)]
  refine reachable_step h _ trivial ?_
  show Covers s (dictSet s.rules a r)
  exact covers_of_keys ok _ (fun k hk => (ua_keys_dictSet s.rules a r k).mpr (Or.inr hk))

end Traph

#print axioms Traph.addRule_ram_reachable
#print axioms Traph.dr_reachable_run
#print axioms Traph.deleteUnchecked_reachable
#print axioms Traph.deleteUnchecked_reachable'
#print axioms Traph.deleteUnchecked_reachable_any
#print axioms Traph.deleteUnchecked_invariants

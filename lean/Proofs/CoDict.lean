import Traph
/-! Small facts about the association-list dictionaries of the model (`dictSet`, `dictGet?`). -/
namespace Traph

namespace Co

/-! ### dictionaries -/

theorem mem_dictSet {α β : Type} [DecidableEq α] : ∀ (d : List (α × β)) (k : α) (v : β) (x : α × β),
    x ∈ dictSet d k v → x = (k, v) ∨ x ∈ d
  | [], k, v, x, h => by
    simp only [dictSet, List.mem_singleton] at h
    exact Or.inl h
  | (k', v') :: rest, k, v, x, h => by
    simp only [dictSet] at h
    split at h
    · rename_i e
      rcases List.mem_cons.mp h with h | h
      · left; rw [h, e]
      · right; exact List.mem_cons_of_mem _ h
    · rcases List.mem_cons.mp h with h | h
      · right; rw [h]; exact List.mem_cons_self
      · rcases mem_dictSet rest k v x h with h | h
        · exact Or.inl h
        · exact Or.inr (List.mem_cons_of_mem _ h)

theorem dictGet?_cons {α β : Type} [DecidableEq α] (k' : α) (v' : β) (d : List (α × β)) (k : α) :
    dictGet? ((k', v') :: d) k = if k' = k then some v' else dictGet? d k := by
  unfold dictGet?
  rw [List.find?_cons]
  by_cases e : k' = k
  · simp [e]
  · simp [e]

theorem dictGet?_dictSet_self {α β : Type} [DecidableEq α] : ∀ (d : List (α × β)) (k : α) (v : β),
    dictGet? (dictSet d k v) k = some v
  | [], k, v => by simp [dictSet, dictGet?_cons]
  | (k', v') :: rest, k, v => by
    simp only [dictSet]
    split
    · rename_i e; rw [dictGet?_cons, if_pos e]
    · rename_i e; rw [dictGet?_cons, if_neg e]; exact dictGet?_dictSet_self rest k v

theorem dictGet?_dictSet_ne {α β : Type} [DecidableEq α] : ∀ (d : List (α × β)) (k : α) (v : β) (k0 : α),
    k0 ≠ k → dictGet? (dictSet d k v) k0 = dictGet? d k0
  | [], k, v, k0, h => by
    simp only [dictSet, dictGet?_cons]
    rw [if_neg (fun e => h e.symm)]
  | (k', v') :: rest, k, v, k0, h => by
    simp only [dictSet]
    split
    · rename_i e
      rw [dictGet?_cons, dictGet?_cons, if_neg (fun e' => h (e'.symm.trans e)), if_neg (fun e' => h (e'.symm.trans e))]
    · rw [dictGet?_cons, dictGet?_cons, dictGet?_dictSet_ne rest k v k0 h]

theorem dictGet?_dictSet_isSome {α β : Type} [DecidableEq α] (d : List (α × β)) (k : α) (v : β) (k0 : α)
    (h : (dictGet? d k0).isSome) : (dictGet? (dictSet d k v) k0).isSome := by
  by_cases e : k0 = k
  · subst e; rw [dictGet?_dictSet_self]; rfl
  · rw [dictGet?_dictSet_ne d k v k0 e]; exact h

end Co

end Traph

import Proofs.WeMap
import Proofs.Small
/-! Longest-prefix resolution in terms of the prefix map `s.weMap` alone.
    `LongestAt M stems k`: the first `k` stems are the longest stem-prefix of `stems` that carries a
    webentity in `M`; `NoneAt M stems`: no stem-prefix does.
    * `followLru_longest` / `followLru_none`: what the walk history of `follow_lru` contains;
    * `retrieveWebentity_ok_iff`, `retrieveWebentity_error_iff`, `retrievePrefix_ok_iff`,
      `retrievePrefix_error_iff`: the two public resolutions. -/
namespace Traph
open State Layout

/-- the first `k` stems of `stems` are its longest stem-prefix carrying a webentity in `M` -/
def LongestAt (M : LRU → Nat) (stems : LRU) (k : Nat) : Prop :=
  0 < k ∧ k ≤ stems.length ∧ M (stems.take k) ≠ 0 ∧
    ∀ j, k < j → j ≤ stems.length → M (stems.take j) = 0

/-- no stem-prefix of `stems` carries a webentity in `M` -/
def NoneAt (M : LRU → Nat) (stems : LRU) : Prop :=
  ∀ j, 0 < j → j ≤ stems.length → M (stems.take j) = 0

theorem LongestAt.unique {M : LRU → Nat} {stems : LRU} {k k' : Nat}
    (h : LongestAt M stems k) (h' : LongestAt M stems k') : k = k' := by
  obtain ⟨_, h2, h3, h4⟩ := h
  obtain ⟨_, h2', h3', h4'⟩ := h'
  by_cases hlt : k < k'
  · exact absurd (h4 k' hlt h2') h3'
  · by_cases hgt : k' < k
    · exact absurd (h4' k hgt h2) h3
    · omega

theorem LongestAt.not_none {M : LRU → Nat} {stems : LRU} {k : Nat}
    (h : LongestAt M stems k) : ¬ NoneAt M stems := fun hn => h.2.2.1 (hn k h.1 h.2.1)

open Classical in
/-- one of the two always holds -/
theorem longest_or_none (M : LRU → Nat) (stems : LRU) :
    NoneAt M stems ∨ ∃ k, LongestAt M stems k := by
  suffices H : ∀ n, n ≤ stems.length →
      (∀ j, 0 < j → j ≤ n → M (stems.take j) = 0) ∨
      ∃ k, 0 < k ∧ k ≤ n ∧ M (stems.take k) ≠ 0 ∧ ∀ j, k < j → j ≤ n → M (stems.take j) = 0 by
    rcases H stems.length (Nat.le_refl _) with h | ⟨k, h1, h2, h3, h4⟩
    · exact Or.inl h
    · exact Or.inr ⟨k, h1, h2, h3, h4⟩
  intro n
  induction n with
  | zero => intro _; exact Or.inl (fun j h1 h2 => by omega)
  | succ n ih =>
    intro hn
    by_cases hz : M (stems.take (n + 1)) = 0
    · rcases ih (by omega) with h | ⟨k, h1, h2, h3, h4⟩
      · left
        intro j h1 h2
        by_cases e : j = n + 1
        · rw [e]; exact hz
        · exact h j h1 (by omega)
      · right
        refine ⟨k, h1, by omega, h3, fun j hj1 hj2 => ?_⟩
        by_cases e : j = n + 1
        · rw [e]; exact hz
        · exact h4 j hj1 (by omega)
    · exact Or.inr ⟨n + 1, by omega, Nat.le_refl _, hz, fun j h1 h2 => by omega⟩

/-! ### the path cells against the map -/

theorem T.pathCells_take (s : State) : ∀ (stems : List Stem) (u : T) (j : Nat),
    u.pathCells s (stems.take j) = (u.pathCells s stems).take j := by
  intro stems
  induction stems with
  | nil => intro u j; simp [T.pathCells]
  | cons stem rest ih =>
    intro u j
    cases j with
    | zero => simp [T.pathCells]
    | succ j =>
      rw [List.take_succ_cons]
      cases hf : u.find s stem with
      | corrupt => simp [T.pathCells, hf]
      | missing q sl => simp [T.pathCells, hf]
      | found a =>
        rw [T.pathCells_cons_found hf, T.pathCells_cons_found hf, ih, List.take_succ_cons]

/-- a stem-prefix that is stored is matched by the descent -/
theorem pathCells_entry_lt {s : State} {u : T} {lo hi : Option Stem} (hord : OrdT s u lo hi)
    (hnd : u.addrs.Nodup) {pre stems : LRU} {k b : Nat} (hk : k < stems.length)
    (hm : (pre ++ stems.take (k + 1), b) ∈ u.entries s pre) : k < (u.pathCells s stems).length := by
  have hne : stems.take (k + 1) ≠ [] := by
    cases stems with
    | nil => simp at hk
    | cons x xs => simp
  have hd := (descend_found_iff (stems.take (k + 1)) u lo hi pre b hord hnd hne).mpr hm
  have hl := (descend_found_last _ u pre b hd).1
  rw [T.pathCells_take, List.length_take, List.length_take] at hl
  omega

theorem weMap_take_pathCells {s : State} {t : T} (h : Shape s t) (stems : LRU) (k : Nat)
    (hk : k < (t.pathCells s stems).length) :
    s.weMap (stems.take (k + 1)) = (s.cell ((t.pathCells s stems)[k]).1).we := by
  have hget : (t.pathCells s stems)[k]? = some ((t.pathCells s stems)[k]) := List.getElem?_eq_getElem hk
  have he := (pathCells_entries_getElem? stems t none none [] h.ord h.nodup k _ hget).1
  simp only [List.nil_append] at he
  exact weMap_entry h he

theorem weMap_take_beyond {s : State} {t : T} (h : Shape s t) (stems : LRU) (k : Nat)
    (hk : (t.pathCells s stems).length ≤ k) (hk' : k < stems.length) :
    s.weMap (stems.take (k + 1)) = 0 := by
  apply weMap_not_entry h
  intro b hb
  have := pathCells_entry_lt (pre := []) h.ord h.nodup hk' (by simpa using hb)
  omega

/-! ### the walk history as a function of the cells met -/

theorem Hist.visit_wePos (h : Hist) (c : Cell) (pos : Nat) :
    (h.visit c pos).wePos = if c.we ≠ 0 then some pos else h.wePos := by
  unfold Hist.visit
  by_cases hw : c.we ≠ 0 <;> by_cases hr : c.flags.rule = true <;> simp [hw, hr]

theorem Hist.visit_rules (h : Hist) (c : Cell) (pos : Nat) :
    (h.visit c pos).rules = if c.flags.rule then h.rules ++ [pos] else h.rules := by
  unfold Hist.visit
  by_cases hw : c.we ≠ 0 <;> by_cases hr : c.flags.rule = true <;> simp [hw, hr]

/-- the fold of `visit` over the cells matched by a descent -/
def visitFold (s : State) (cs : List (Nat × Stem)) (h : Hist) (pos : Nat) : Hist × Nat :=
  cs.foldl (fun (acc : Hist × Nat) (c : Nat × Stem) =>
    ((acc.1.visit (s.cell c.1) (acc.2 + c.2.length)), acc.2 + c.2.length)) (h, pos)

theorem visitFold_cons (s : State) (c : Nat × Stem) (cs : List (Nat × Stem)) (h : Hist) (pos : Nat) :
    visitFold s (c :: cs) h pos =
      visitFold s cs (h.visit (s.cell c.1) (pos + c.2.length)) (pos + c.2.length) := rfl

/-- `wePos` after the walk: unchanged if no cell carries an id; otherwise the end position of the last
    cell that carries one -/
theorem visitFold_wePos (s : State) : ∀ (cs : List (Nat × Stem)) (h : Hist) (pos : Nat),
    ((visitFold s cs h pos).1.wePos = h.wePos ∧ (visitFold s cs h pos).1.we = h.we ∧
        ∀ c ∈ cs, (s.cell c.1).we = 0) ∨
    ∃ k, ∃ hk : k < cs.length, (s.cell (cs[k]).1).we ≠ 0 ∧
      (∀ j, k < j → ∀ hj : j < cs.length, (s.cell (cs[j]).1).we = 0) ∧
      (visitFold s cs h pos).1.wePos = some (pos + ((cs.take (k + 1)).map (·.2.length)).sum) ∧
      (visitFold s cs h pos).1.we = (s.cell (cs[k]).1).we
  | [], h, pos => Or.inl ⟨rfl, rfl, fun c hc => by simp at hc⟩
  | c :: cs, h, pos => by
    rw [visitFold_cons]
    rcases visitFold_wePos s cs (h.visit (s.cell c.1) (pos + c.2.length)) (pos + c.2.length) with
      ⟨h1, h1', h2⟩ | ⟨k, hk, h1, h2, h3, h3'⟩
    · by_cases hw : (s.cell c.1).we ≠ 0
      · right
        refine ⟨0, by simp, by simpa using hw, fun j hj hjl => ?_, ?_, ?_⟩
        · cases j with
          | zero => omega
          | succ j => simp only [List.getElem_cons_succ]; exact h2 _ (List.getElem_mem _)
        · rw [h1, Hist.visit_wePos, if_pos hw]; simp
        · rw [h1', Hist.visit_we, if_pos hw]; simp
      · left
        refine ⟨by rw [h1, Hist.visit_wePos, if_neg hw], by rw [h1', Hist.visit_we, if_neg hw], fun c' hc' => ?_⟩
        rcases List.mem_cons.mp hc' with rfl | hc'
        · simpa using hw
        · exact h2 c' hc'
    · right
      refine ⟨k + 1, by simp only [List.length_cons]; omega, by simpa using h1, fun j hj hjl => ?_, ?_, by simpa using h3'⟩
      · cases j with
        | zero => omega
        | succ j => simp only [List.getElem_cons_succ]; exact h2 j (by omega) (by simpa using hjl)
      · rw [h3]; simp [Nat.add_assoc]

/-- the stems matched by the descent are the stems asked for -/
theorem pathCells_map_snd {s : State} : ∀ (stems : List Stem) (u : T),
    (u.pathCells s stems).map (·.2) = stems.take (u.pathCells s stems).length := by
  intro stems
  induction stems with
  | nil => intro u; simp [T.pathCells]
  | cons stem rest ih =>
    intro u
    cases hf : u.find s stem with
    | corrupt => simp [T.pathCells, hf]
    | missing q sl => simp [T.pathCells, hf]
    | found a =>
      rw [T.pathCells_cons_found hf]
      simp only [List.map_cons, List.length_cons, List.take_succ_cons]
      rw [ih]

theorem sum_map_length_eq_flatten (l : List Bytes) : (l.map (·.length)).sum = l.flatten.length := by
  induction l with
  | nil => rfl
  | cons x l ih => simp only [List.map_cons, List.sum_cons, List.flatten_cons, List.length_append, ih]

/-- `follow_lru` as the fold over the path cells (whole history) -/
theorem followLru_hist {s : State} {t : T} (h : Shape s t) (stems : LRU) (hs : stems ≠ []) :
    (s.followLru stems).2 = (visitFold s (t.pathCells s stems) {} 0).1 := by
  unfold State.followLru
  by_cases hsz : s.trie.size ≤ 1
  · rw [if_pos hsz]
    have : t = .nil := h.eq_nil hsz
    subst this
    rw [T.pathCells_nil_tree]; rfl
  · rw [if_neg hsz]
    have hroot := h.root
    rw [if_neg hsz] at hroot
    have htne : t ≠ .nil := by
      intro e; subst e; simp at hroot
    have h2 := (followLruGo_eq (s := s) stems t 0 {} [] h.rep htne h.size_le hs).2
    rw [hroot] at h2
    exact h2

/-- the walk found a webentity: its id and the byte position where its prefix ends -/
theorem followLru_longest {s : State} {t : T} (h : Shape s t) (stems : LRU) (hs : stems ≠ []) {k : Nat}
    (hl : LongestAt s.weMap stems k) :
    (s.followLru stems).2.we = s.weMap (stems.take k) ∧
    (s.followLru stems).2.wePos = some (stems.take k).flatten.length := by
  rw [followLru_hist h stems hs]
  obtain ⟨hk0, hkl, hk, hmax⟩ := hl
  have hlen := pathCells_length_le (s := s) stems t
  rcases visitFold_wePos s (t.pathCells s stems) {} 0 with ⟨_, _, hz⟩ | ⟨k', hk', h1, h2, h3, h3'⟩
  · exfalso
    by_cases hlt : k - 1 < (t.pathCells s stems).length
    · have := weMap_take_pathCells h stems (k - 1) hlt
      rw [show k - 1 + 1 = k by omega] at this
      exact hk (this.trans (hz _ (List.getElem_mem _)))
    · have := weMap_take_beyond h stems (k - 1) (by omega) (by omega)
      rw [show k - 1 + 1 = k by omega] at this
      exact hk this
  · have e1 := weMap_take_pathCells h stems k' hk'
    have hkk : k = k' + 1 := by
      by_cases hlt : k < k' + 1
      · exfalso
        exact h1 (e1.symm.trans (hmax (k' + 1) hlt (by omega)))
      · by_cases hgt : k' + 1 < k
        · exfalso
          by_cases hlt2 : k - 1 < (t.pathCells s stems).length
          · have := weMap_take_pathCells h stems (k - 1) hlt2
            rw [show k - 1 + 1 = k by omega] at this
            exact hk (this.trans (h2 (k - 1) (by omega) hlt2))
          · have := weMap_take_beyond h stems (k - 1) (by omega) (by omega)
            rw [show k - 1 + 1 = k by omega] at this
            exact hk this
        · omega
    subst hkk
    refine ⟨by rw [h3', e1], ?_⟩
    rw [h3, Nat.zero_add]
    congr 1
    have : ((t.pathCells s stems).take (k' + 1)).map (fun x => x.2.length)
        = (((t.pathCells s stems).map (·.2)).take (k' + 1)).map (·.length) := by
      rw [← List.map_take, List.map_map]; rfl
    rw [this, pathCells_map_snd, List.take_take, Nat.min_eq_left (by omega), sum_map_length_eq_flatten]

/-- the walk found none -/
theorem followLru_none {s : State} {t : T} (h : Shape s t) (stems : LRU) (hs : stems ≠ [])
    (hn : NoneAt s.weMap stems) :
    (s.followLru stems).2.we = 0 ∧ (s.followLru stems).2.wePos = none := by
  rw [followLru_hist h stems hs]
  have hlen := pathCells_length_le (s := s) stems t
  rcases visitFold_wePos s (t.pathCells s stems) {} 0 with ⟨h1, h1', _⟩ | ⟨k', hk', h1, _, _, _⟩
  · exact ⟨h1', h1⟩
  · exfalso
    have e1 := weMap_take_pathCells h stems k' hk'
    exact h1 (e1.symm.trans (hn (k' + 1) (by omega) (by omega)))

/-! ### `lru_iter` cuts a byte prefix -/

theorem lruIterGo_prefix : ∀ (b cur : Bytes), ∃ tl, cur.reverse ++ b = (lruIterGo b cur).flatten ++ tl
  | [], cur => ⟨cur.reverse, by simp [lruIterGo]⟩
  | x :: xs, cur => by
    simp only [lruIterGo]
    split
    · obtain ⟨tl, e⟩ := lruIterGo_prefix xs []
      refine ⟨tl, ?_⟩
      simp only [List.reverse_nil, List.nil_append] at e
      rw [List.flatten_cons, List.append_assoc, List.append_assoc, ← e]
      simp
    · obtain ⟨tl, e⟩ := lruIterGo_prefix xs (x :: cur)
      refine ⟨tl, ?_⟩
      rw [← e]; simp

/-- the stems of an LRU concatenate to an initial segment of it -/
theorem lruIter_prefix (b : Bytes) : ∃ tl, b = (lruIter b).flatten ++ tl := by
  obtain ⟨tl, e⟩ := lruIterGo_prefix b []
  exact ⟨tl, by unfold lruIter; simpa using e⟩

theorem take_flatten_take (b : Bytes) (k : Nat) :
    b.take ((lruIter b).take k).flatten.length = ((lruIter b).take k).flatten := by
  obtain ⟨tl, e⟩ := lruIter_prefix b
  have e2 : (lruIter b).flatten = ((lruIter b).take k).flatten ++ ((lruIter b).drop k).flatten := by
    rw [← List.flatten_append, List.take_append_drop]
  conv => lhs; arg 2; rw [e, e2, List.append_assoc]
  rw [List.take_left']
  rfl

theorem flatten_take_pos {stems : LRU} (hw : ∀ x ∈ stems, StemWf x) {k : Nat} (hk : 0 < k)
    (hkl : k ≤ stems.length) : 0 < (stems.take k).flatten.length := by
  cases stems with
  | nil => simp at hkl; omega
  | cons x xs =>
    cases k with
    | zero => omega
    | succ k =>
      obtain ⟨y, rfl, _⟩ := hw x (by simp)
      simp only [List.take_succ_cons, List.flatten_cons, List.length_append, List.length_cons, List.length_nil]
      omega

/-! ### the two public resolutions -/

/-- C04, one state: `retrieve_webentity` answers the id attached to the longest stem-prefix of the
    query that carries one -/
theorem retrieveWebentity_ok_iff {s : State} {t : T} (h : Shape s t) (q : Bytes) (w : Nat) :
    s.retrieveWebentity q = .ok w ↔
      ∃ k, LongestAt s.weMap (lruIter q) k ∧ w = s.weMap ((lruIter q).take k) := by
  by_cases hne : lruIter q = []
  · have hf : s.followLru (lruIter q) = (none, {}) ∨ s.followLru (lruIter q) = (some 1, {}) := by
      rw [hne]; unfold State.followLru; split
      · exact Or.inl rfl
      · exact Or.inr rfl
    have : s.retrieveWebentity q = .error .traph := by
      unfold State.retrieveWebentity
      rcases hf with hf | hf <;> rw [hf] <;> rfl
    rw [this]
    constructor
    · intro hc; cases hc
    · rintro ⟨k, ⟨h1, h2, _⟩, _⟩
      rw [hne] at h2; simp at h2; omega
  · rcases longest_or_none s.weMap (lruIter q) with hn | ⟨k, hl⟩
    · have hf := (followLru_none h _ hne hn).1
      have : s.retrieveWebentity q = .error .traph := by
        unfold State.retrieveWebentity
        simp only [hf, if_true]
      rw [this]
      constructor
      · intro hc; cases hc
      · rintro ⟨k, hl, _⟩; exact absurd hn hl.not_none
    · have hf := (followLru_longest h _ hne hl).1
      have : s.retrieveWebentity q = .ok (s.weMap ((lruIter q).take k)) := by
        unfold State.retrieveWebentity
        simp only [hf, if_neg hl.2.2.1]
      rw [this]
      constructor
      · intro hc
        simp only [Except.ok.injEq] at hc
        exact ⟨k, hl, hc.symm⟩
      · rintro ⟨k', hl', rfl⟩
        rw [hl.unique hl']

/-- …and fails, with the library's own error, iff no stem-prefix carries one -/
theorem retrieveWebentity_error_iff {s : State} {t : T} (h : Shape s t) (q : Bytes) (e : Err) :
    s.retrieveWebentity q = .error e ↔ e = .traph ∧ NoneAt s.weMap (lruIter q) := by
  rcases longest_or_none s.weMap (lruIter q) with hn | ⟨k, hl⟩
  · constructor
    · intro he
      refine ⟨?_, hn⟩
      unfold State.retrieveWebentity at he
      simp only at he
      split at he <;> cases he
      rfl
    · rintro ⟨rfl, _⟩
      cases hr : s.retrieveWebentity q with
      | error e' =>
        unfold State.retrieveWebentity at hr
        simp only at hr
        split at hr <;> cases hr
        rfl
      | ok w =>
        obtain ⟨k, hl, _⟩ := (retrieveWebentity_ok_iff h q w).mp hr
        exact absurd hn hl.not_none
  · have := (retrieveWebentity_ok_iff h q _).mpr ⟨k, hl, rfl⟩
    rw [this]
    constructor
    · intro hc; cases hc
    · rintro ⟨_, hn⟩; exact absurd hn hl.not_none

/-- C04, one state: `retrieve_prefix` answers that longest stem-prefix itself (as bytes) -/
theorem retrievePrefix_ok_iff {s : State} {t : T} (h : Shape s t) (q : Bytes) (p : Bytes) :
    s.retrievePrefix q = .ok p ↔
      ∃ k, LongestAt s.weMap (lruIter q) k ∧ p = ((lruIter q).take k).flatten := by
  by_cases hne : lruIter q = []
  · have hf : s.followLru (lruIter q) = (none, {}) ∨ s.followLru (lruIter q) = (some 1, {}) := by
      rw [hne]; unfold State.followLru; split
      · exact Or.inl rfl
      · exact Or.inr rfl
    have : s.retrievePrefix q = .error .traph := by
      unfold State.retrievePrefix
      rcases hf with hf | hf <;> rw [hf] <;> rfl
    rw [this]
    constructor
    · intro hc; cases hc
    · rintro ⟨k, ⟨h1, h2, _⟩, _⟩
      rw [hne] at h2; simp at h2; omega
  · rcases longest_or_none s.weMap (lruIter q) with hn | ⟨k, hl⟩
    · have hf := (followLru_none h _ hne hn).2
      have : s.retrievePrefix q = .error .traph := by
        unfold State.retrievePrefix
        simp only [hf]
      rw [this]
      constructor
      · intro hc; cases hc
      · rintro ⟨k, hl, _⟩; exact absurd hn hl.not_none
    · have hf := (followLru_longest h _ hne hl).2
      have hpos := flatten_take_pos (lruIter_wf q) hl.1 hl.2.1
      have : s.retrievePrefix q = .ok (((lruIter q).take k).flatten) := by
        unfold State.retrievePrefix
        simp only [hf]
        rw [if_neg (by omega), take_flatten_take]
      rw [this]
      constructor
      · intro hc
        simp only [Except.ok.injEq] at hc
        exact ⟨k, hl, hc.symm⟩
      · rintro ⟨k', hl', rfl⟩
        rw [hl.unique hl']

theorem retrievePrefix_error_iff {s : State} {t : T} (h : Shape s t) (q : Bytes) (e : Err) :
    s.retrievePrefix q = .error e ↔ e = .traph ∧ NoneAt s.weMap (lruIter q) := by
  rcases longest_or_none s.weMap (lruIter q) with hn | ⟨k, hl⟩
  · constructor
    · intro he
      refine ⟨?_, hn⟩
      unfold State.retrievePrefix at he
      simp only at he
      split at he
      · split at he <;> cases he
        rfl
      · cases he; rfl
    · rintro ⟨rfl, _⟩
      cases hr : s.retrievePrefix q with
      | error e' =>
        unfold State.retrievePrefix at hr
        simp only at hr
        split at hr
        · split at hr <;> cases hr
          rfl
        · cases hr; rfl
      | ok w =>
        obtain ⟨k, hl, _⟩ := (retrievePrefix_ok_iff h q w).mp hr
        exact absurd hn hl.not_none
  · have := (retrievePrefix_ok_iff h q _).mpr ⟨k, hl, rfl⟩
    rw [this]
    constructor
    · intro hc; cases hc
    · rintro ⟨_, hn⟩; exact absurd hn hl.not_none

end Traph

import Proofs.CoLinkGraph
/-! C16 — inbound/outbound symmetry under interleaving: an invariant *with a lag*, exact at quiescence.

    `index_batch_crawl_iter` writes the out-list of a source as soon as the source's targets are exhausted, and the
    in-lists only in its second pass (one target per section). Hence at a yield point in the middle of a batch

      * the OUT-lists lag by the `target_blocks` of the source in progress only (`cl_pendOut`),
      * the IN-lists lag by the whole `inlinks` multimap accumulated so far — in the second pass by the part of it
        not yet written —, plus the in-link of a target created in the section that has just yielded, which the
        generator appends to the multimap only after the `yield` (`cl_pendIn`).

    `C16_links_mid_schedule`: after EVERY schedule (complete or not), bag by bag,
        written out-links + pending out-links = written in-links + pending in-links = submitted links,
    and `pending out ≤ pending in` generator by generator, so an in-list never runs ahead of the out-list
    (`C16_inlinks_lag`). When no crawl batch is in progress nothing is pending and symmetry is exact
    (`C16_symmetry_at_quiescence`, `C16_final_symmetry`). The window is observable: `SymEx` is a two-source batch
    after two sections of which `get_page_links` reports the link A → B on A's side and not on B's side. -/
namespace Traph
open State Layout

theorem cl_sum_le {f g : Nat → Nat} : ∀ {n : Nat}, (∀ i, i < n → f i ≤ g i) → cl_sum f n ≤ cl_sum g n
  | 0, _ => Nat.le_refl _
  | n + 1, h => by
    simp only [cl_sum]
    exact Nat.add_le_add (cl_sum_le (fun i hi => h i (by omega))) (h n (by omega))

/-- **C16, links, the precise invariant of every schedule** (complete or not). Started from fresh generators on an
    index whose bags are the links `L0`: there are lists `G i` — the links generator `i` has submitted so far, a prefix
    of the links of request `i` — such that for all blocks `a`, `x`

      #(x in out-list of a) + Σᵢ pendOutᵢ a x  =  #(pairs a → x in L0 ++ G 0 ++ G 1 ++ …)  =
      #(a in in-list of x)  + Σᵢ pendInᵢ a x,

    the stub array holds one stub per written end, and `pendOutᵢ ≤ pendInᵢ` pointwise. `pendOutᵢ`, `pendInᵢ` are read
    off the private state of generator `i` (`CoSt.pendOut`, `CoSt.pendIn`; zero unless it is a crawl batch). -/
theorem C16_links_mid_schedule {s : State} {t : T} {L0 : List (Bytes × Bytes)} (hs : Shape s t) (hi : Inv s t)
    (hr : RulesOk s) (hp : ParOk s t 0) (g : Graph s t L0) (reqs : List CoReq) (hwf : ∀ r ∈ reqs, r.Wf)
    (hcanon : ∀ r ∈ reqs, r.Canon) (sched : Sched) :
    ∃ t' G, Shape (Sys.run (s, reqs.map CoReq.init) sched).1.1 t' ∧
      LinksOk (Sys.run (s, reqs.map CoReq.init) sched).1.1 ∧
      (∀ i, G i ++ (cl_mach (Sys.run (s, reqs.map CoReq.init) sched).1.2 i).linksTodo =
        ((reqs[i]?).map CoReq.links).getD []) ∧
      (∀ st ∈ L0 ++ cl_cat G reqs.length,
        IsPage (Sys.run (s, reqs.map CoReq.init) sched).1.1 t' (lruIter st.1) ∧
        IsPage (Sys.run (s, reqs.map CoReq.init) sched).1.1 t' (lruIter st.2)) ∧
      (∀ a x, count x ((Sys.run (s, reqs.map CoReq.init) sched).1.1.outBag a) +
          cl_sum (fun i => (cl_mach (Sys.run (s, reqs.map CoReq.init) sched).1.2 i).pendOut a x) reqs.length =
        ncount (Sys.run (s, reqs.map CoReq.init) sched).1.1 (L0 ++ cl_cat G reqs.length) a x) ∧
      (∀ a x, count a ((Sys.run (s, reqs.map CoReq.init) sched).1.1.inBag x) +
          cl_sum (fun i => (cl_mach (Sys.run (s, reqs.map CoReq.init) sched).1.2 i).pendIn a x) reqs.length =
        ncount (Sys.run (s, reqs.map CoReq.init) sched).1.1 (L0 ++ cl_cat G reqs.length) a x) ∧
      ((Sys.run (s, reqs.map CoReq.init) sched).1.1.links.size +
          cl_sum (fun i => (cl_mach (Sys.run (s, reqs.map CoReq.init) sched).1.2 i).pendN) reqs.length =
        1 + 2 * (L0 ++ cl_cat G reqs.length).length) ∧
      (∀ i a x, (cl_mach (Sys.run (s, reqs.map CoReq.init) sched).1.2 i).pendOut a x ≤
        (cl_mach (Sys.run (s, reqs.map CoReq.init) sched).1.2 i).pendIn a x) := by
  obtain ⟨t', G, h, _, _, _, cg⟩ :=
    cl_sched L0 (cl_R reqs) (cl_B reqs) sched _ (cl_init hs hi hr hp g reqs hwf hcanon)
  have hlen : (Sys.run (s, reqs.map CoReq.init) sched).1.2.length = reqs.length := by
    rw [Sys.run_length]; simp
  refine ⟨t', G, h.shape, cg.ok, cg.tot, ?_, fun a x => ?_, fun a x => ?_, ?_, cg.lag⟩
  · have := cg.pgs; rw [hlen] at this; exact this
  · have := cg.out a x; rw [hlen] at this; exact this
  · have := cg.inn a x; rw [hlen] at this; exact this
  · have := cg.size; rw [hlen] at this; exact this

/-- **symmetry with its lag, at every yield point of every schedule**: for all blocks `a`, `x`,
    out-links written + out-links pending = in-links written + in-links pending -/
theorem C16_symmetry_mid_schedule {s : State} {t : T} {L0 : List (Bytes × Bytes)} (hs : Shape s t) (hi : Inv s t)
    (hr : RulesOk s) (hp : ParOk s t 0) (g : Graph s t L0) (reqs : List CoReq) (hwf : ∀ r ∈ reqs, r.Wf)
    (hcanon : ∀ r ∈ reqs, r.Canon) (sched : Sched) (a x : Nat) :
    count x ((Sys.run (s, reqs.map CoReq.init) sched).1.1.outBag a) +
        cl_sum (fun i => (cl_mach (Sys.run (s, reqs.map CoReq.init) sched).1.2 i).pendOut a x) reqs.length =
      count a ((Sys.run (s, reqs.map CoReq.init) sched).1.1.inBag x) +
        cl_sum (fun i => (cl_mach (Sys.run (s, reqs.map CoReq.init) sched).1.2 i).pendIn a x) reqs.length := by
  obtain ⟨_, _, _, _, _, _, ho, hn, _⟩ := C16_links_mid_schedule hs hi hr hp g reqs hwf hcanon sched
  rw [ho a x, hn a x]

/-- **the in-lists are the ones that lag**: at every yield point of every schedule an in-list holds at most the
    occurrences the corresponding out-list holds — a link is never visible on the target's side before it is visible
    on the source's side -/
theorem C16_inlinks_lag {s : State} {t : T} {L0 : List (Bytes × Bytes)} (hs : Shape s t) (hi : Inv s t)
    (hr : RulesOk s) (hp : ParOk s t 0) (g : Graph s t L0) (reqs : List CoReq) (hwf : ∀ r ∈ reqs, r.Wf)
    (hcanon : ∀ r ∈ reqs, r.Canon) (sched : Sched) (a x : Nat) :
    count a ((Sys.run (s, reqs.map CoReq.init) sched).1.1.inBag x) ≤
      count x ((Sys.run (s, reqs.map CoReq.init) sched).1.1.outBag a) := by
  obtain ⟨_, _, _, _, _, _, ho, hn, _, hlag⟩ := C16_links_mid_schedule hs hi hr hp g reqs hwf hcanon sched
  have e1 := ho a x
  have e2 := hn a x
  have e3 : cl_sum (fun i => (cl_mach (Sys.run (s, reqs.map CoReq.init) sched).1.2 i).pendOut a x) reqs.length ≤
      cl_sum (fun i => (cl_mach (Sys.run (s, reqs.map CoReq.init) sched).1.2 i).pendIn a x) reqs.length :=
    cl_sum_le (fun i _ => hlag i a x)
  omega

/-- **exact symmetry whenever no crawl batch is in progress** (all batch generators not started yet — nothing pending
    in a fresh generator — or returned): in particular before the first and after the last section of the batches -/
theorem C16_symmetry_at_quiescence {s : State} {t : T} {L0 : List (Bytes × Bytes)} (hs : Shape s t) (hi : Inv s t)
    (hr : RulesOk s) (hp : ParOk s t 0) (g : Graph s t L0) (reqs : List CoReq) (hwf : ∀ r ∈ reqs, r.Wf)
    (hcanon : ∀ r ∈ reqs, r.Canon) (sched : Sched)
    (hquiet : ∀ (i : Nat) (b : BatchSt), (Sys.run (s, reqs.map CoReq.init) sched).1.2[i]? = some (CoSt.batch b) →
      (∀ a x, cl_pendOut b a x = 0) ∧ (∀ a x, cl_pendIn b a x = 0)) (a x : Nat) :
    count x ((Sys.run (s, reqs.map CoReq.init) sched).1.1.outBag a) =
      count a ((Sys.run (s, reqs.map CoReq.init) sched).1.1.inBag x) := by
  have e := C16_symmetry_mid_schedule hs hi hr hp g reqs hwf hcanon sched a x
  have hz : ∀ i, (cl_mach (Sys.run (s, reqs.map CoReq.init) sched).1.2 i).pendOut a x = 0 ∧
      (cl_mach (Sys.run (s, reqs.map CoReq.init) sched).1.2 i).pendIn a x = 0 := by
    intro i
    unfold cl_mach
    cases hc : (Sys.run (s, reqs.map CoReq.init) sched).1.2[i]? with
    | none => exact ⟨rfl, rfl⟩
    | some c =>
      cases c with
      | batch b => exact ⟨(hquiet i b hc).1 a x, (hquiet i b hc).2 a x⟩
      | _ => exact ⟨rfl, rfl⟩
  rw [cl_sum_zero (fun i _ => (hz i).1), cl_sum_zero (fun i _ => (hz i).2)] at e
  omega

/-- **C16, symmetry of the final state**: once every writer has returned, whatever the schedule, the out-lists and
    the in-lists describe the same multigraph -/
theorem C16_final_symmetry {s : State} {t : T} {L0 : List (Bytes × Bytes)} (hs : Shape s t) (hi : Inv s t)
    (hr : RulesOk s) (hp : ParOk s t 0) (g : Graph s t L0) (reqs : List CoReq) (hwf : ∀ r ∈ reqs, r.Wf)
    (hcanon : ∀ r ∈ reqs, r.Canon) (sched : Sched)
    (hdone : ∀ i r, reqs[i]? = some r → r.op ≠ none →
      ∃ a, (i, CoOut.done a) ∈ (Sys.run (s, reqs.map CoReq.init) sched).2) (a b : Nat) :
    count b ((Sys.run (s, reqs.map CoReq.init) sched).1.1.outBag a) =
      count a ((Sys.run (s, reqs.map CoReq.init) sched).1.1.inBag b) := by
  obtain ⟨t', v, _⟩ := C16_final_graph hs hi hr hp g reqs hwf hcanon sched hdone
  exact v.graph.symm a b

#print axioms C16_links_mid_schedule
#print axioms C16_inlinks_lag
#print axioms C16_symmetry_at_quiescence
#print axioms C16_final_symmetry

/-! ### the window is observable -/

namespace SymEx

def b (s : List Char) : Bytes := s.map (·.toNat)
def pA : Bytes := b "s:http|h:com|h:a|p:a|".toList
def pB : Bytes := b "s:http|h:com|h:a|p:b|".toList
def pC : Bytes := b "s:http|h:com|h:a|p:c|".toList
def pD : Bytes := b "s:http|h:com|h:a|p:d|".toList

/-- an empty index -/
def s0 : State := (State.fresh {} .never [] []).1

/-- one crawl batch: A → B, C → D -/
def reqs : List CoReq := [.batch [(pA, [pB]), (pC, [pD])]]

/-- the index after two sections of the batch (it needs five to return) -/
def mid : State := (Sys.run (s0, reqs.map CoReq.init) [0, 0]).1.1

/-- the index after the batch has returned -/
def fin : State := (Sys.run (s0, reqs.map CoReq.init) [0, 0, 0, 0, 0]).1.1

set_option maxRecDepth 100000 in
/-- the batch yields four times and returns at its fifth `next()` -/
theorem trace :
    (Sys.run (s0, reqs.map CoReq.init) [0, 0, 0, 0, 0]).2 =
      [(0, .yielded), (0, .yielded), (0, .yielded), (0, .yielded), (0, .done (.report { pages := 4, we := [] }))] := by
  decide

set_option maxRecDepth 100000 in
/-- **between the second and the third section of the batch the link A → B is in A's out-list and not in B's
    in-list**: `get_page_links` (an atomic query run at that yield point) reports it as an outbound link of A and
    reports no inbound link of B; blocks 4 and 5 are A's and B's -/
theorem asymmetric_window :
    mid.ask (.lruNode pA) = .optNat (some 4) ∧ mid.ask (.lruNode pB) = .optNat (some 5) ∧
    mid.outBag 4 = [5] ∧ mid.inBag 5 = [] ∧
    mid.ask (.pageLinks pA false false true) = .links [(pA, pB, 1)] ∧
    mid.ask (.pageLinks pB true false false) = .links [] := by decide

set_option maxRecDepth 100000 in
/-- once the batch has returned both sides agree -/
theorem symmetric_at_the_end :
    fin.outBag 4 = [5] ∧ fin.inBag 5 = [4] ∧ fin.outBag 6 = [7] ∧ fin.inBag 7 = [6] ∧
    fin.ask (.pageLinks pA false false true) = .links [(pA, pB, 1)] ∧
    fin.ask (.pageLinks pB true false false) = .links [(pA, pB, 1)] := by decide

/-- the prefix all four pages hang below -/
def pW : Bytes := b "s:http|h:com|h:a|".toList

/-- `get_webentity_pagelinks_iter(weid = 1, [pW], inbound, internal, outbound all on)`; no page is in webentity 1,
    so every link is listed once as outbound of its source and once as inbound of its target -/
def plq : QSt :=
  .pagelinks { cur := { prefixes := [pW] }, weid := 1, incIn := true, incInt := true, incOut := true }

def reqs2 : List CoReq := [.batch [(pA, [pB]), (pC, [pD])], .queryOther plq]

set_option maxRecDepth 100000 in
/-- **the window observed by a cooperatively scheduled QUERY**: the page-links generator created and drained between
    the second and the third section of the batch answers `[(A, B, 1)]` — the link is listed from A's out-list and is
    missing from B's in-list; the batch then completes normally -/
theorem observed_by_query :
    (Sys.run (s0, reqs2.map CoReq.init) [0, 0, 1, 1, 0, 0, 0]).2 =
      [(0, .yielded), (0, .yielded), (1, .yielded), (1, .done (.links [(pA, pB, 1)])),
       (0, .yielded), (0, .yielded), (0, .done (.report { pages := 4, we := [] }))] := by decide

set_option maxRecDepth 100000 in
/-- the same query drained after the batch has returned lists every link on both sides -/
theorem observed_at_the_end :
    (Sys.run (s0, reqs2.map CoReq.init) [0, 0, 0, 0, 0, 1, 1, 1, 1, 1]).2 =
      [(0, .yielded), (0, .yielded), (0, .yielded), (0, .yielded), (0, .done (.report { pages := 4, we := [] })),
       (1, .yielded), (1, .yielded), (1, .yielded), (1, .yielded),
       (1, .done (.links [(pA, pB, 1), (pA, pB, 1), (pC, pD, 1), (pC, pD, 1)]))] := by decide

#print axioms asymmetric_window
#print axioms symmetric_at_the_end
#print axioms observed_by_query
#print axioms observed_at_the_end

end SymEx

end Traph

import Proofs.CoSchedules
/-! C16, finding F16 as a theorem about the model: the clause "a query's answer contains no item that
    qualified at no moment of its execution" is **false** of `get_webentity_pages_iter`.

    History: webentity 1 on `s:http|h:com|h:a|`; pages `…p:x|` and `…p:x|p:y|`; a creation rule (one path stem)
    anchored at the prefix, which creates webentity 2 on `…p:x|`; webentity 2 is deleted again. Then two
    generators: the page query for webentity 1 and a crawl batch submitting the page `…p:x|p:z|`.
    Schedule `[0, 1, 0, 0, 0]`: the query yields at `…p:x|` (a page of webentity 1 at that moment, holding a
    stale copy of the block with `we = 0`); the batch runs its only section — `__add_page` inserts
    `…p:x|p:z|` and, in the same section, the rule creates webentity 3 on `…p:x|`; the query goes on below
    `…p:x|` from its stale copy and lists `…p:x|p:z|`. At no yield point was that LRU a page of webentity 1:
    before the batch's section it is not in the index, from then on it resolves to webentity 3. -/
namespace Traph.Phantom
open Traph State

def b (s : List Char) : Bytes := s.map (·.toNat)
def pa : Bytes := b "s:http|h:com|h:a|".toList
def px : Bytes := b "s:http|h:com|h:a|p:x|".toList
def py : Bytes := b "s:http|h:com|h:a|p:x|p:y|".toList
def pz : Bytes := b "s:http|h:com|h:a|p:x|p:z|".toList

/-- the index before the two generators are created -/
def before : State := (State.fresh {} .never [] []).1.run
  [.create [pa], .addPage px false, .addPage py false, .addRule pa (.path 1), .delete 2 [px]]

def reqs : List CoReq := [.queryPages [pa], .batch [(pz, [])]]

/-- the index after the batch's only section (the query never writes, so this is also the final index) -/
def after : State := (Sys.run (before, reqs.map CoReq.init) [0, 1]).1.1

set_option maxRecDepth 100000 in
/-- the query's answer lists `…p:x|p:z|` -/
theorem answer_lists_pz :
    (0, CoOut.done (.pages [(px, false), (py, false), (pz, true)])) ∈
      (Sys.run (before, reqs.map CoReq.init) [0, 1, 0, 0, 0]).2 := by decide

set_option maxRecDepth 100000 in
/-- the only two index states of the schedule: `before` until the batch's section, `after` from then on -/
theorem index_states :
    (Sys.run (before, reqs.map CoReq.init) [0]).1.1 = before ∧
    (Sys.run (before, reqs.map CoReq.init) [0, 1, 0]).1.1 = after ∧
    (Sys.run (before, reqs.map CoReq.init) [0, 1, 0, 0]).1.1 = after ∧
    (Sys.run (before, reqs.map CoReq.init) [0, 1, 0, 0, 0]).1.1 = after := ⟨rfl, rfl, rfl, rfl⟩

set_option maxRecDepth 100000 in
/-- before the batch's section `…p:x|p:z|` is not in the index; the pages of webentity 1 are `…p:x|`, `…p:x|p:y|` -/
theorem before_not_a_page :
    before.ask (.lruNode pz) = .optNat none ∧
    before.ask (.pages [pa]) = .pages [(px, false), (py, false)] := by decide

set_option maxRecDepth 100000 in
/-- from the batch's section on `…p:x|p:z|` is a page of webentity 3, and webentity 1 has no page left -/
theorem after_foreign :
    after.ask (.retrieveWebentity pz) = .nat 3 ∧ after.ask (.retrieveWebentity pa) = .nat 1 ∧
    after.ask (.pages [pa]) = .pages [] := by decide

#print axioms answer_lists_pz
#print axioms index_states
#print axioms before_not_a_page
#print axioms after_foreign

end Traph.Phantom

import Proofs.Marks
import Proofs.Small
import Proofs.ForPrefixes
/-! C13, the query side in terms of the finite map: under the shape and mark invariants the pruned DFS
    started from the node stored under the stem path `P` meets exactly the webentity ids attached to the
    entries whose path has `P` as a prefix (the node itself and all its descendants at any depth); hence
    the answer of `get_webentity_child_webentities`. -/
namespace Traph
open State

/-! ### the subtree hanging below a node, located by its path -/

/-- the node labelled `a` of a sibling tree, as a represented subtree whose child tree is `u.childAt a` -/
theorem sib_subtree {s : State} : ∀ (u : T) (a : Nat), Rep s u → u.addrs.Nodup → MarkOk s u → a ∈ u.sibs →
    ∃ l r, Rep s (.node a l (u.childAt a) r) ∧ (T.node a l (u.childAt a) r).addrs.Nodup ∧
      MarkOk s (.node a l (u.childAt a) r) ∧ (T.node a l (u.childAt a) r).size ≤ u.size
  | .nil, a, _, _, _, h => by simp [T.sibs] at h
  | .node d l c r, a, hr, hnd, hm, h => by
    have hn := T.nodup_node hnd
    simp only [T.sibs, List.mem_append, List.mem_cons] at h
    rcases h with h | h | h
    · rw [T.childAt_node_left hnd h]
      obtain ⟨l', r', h1, h2, h3, h4⟩ := sib_subtree l a hr.2.2.1 hn.2.2.2.1 hm.1 h
      exact ⟨l', r', h1, h2, h3, by simp only [T.size] at h4 ⊢; omega⟩
    · subst h
      rw [T.childAt_node_self]; exact ⟨l, r, hr, hnd, hm, Nat.le_refl _⟩
    · rw [T.childAt_node_right hnd h]
      obtain ⟨l', r', h1, h2, h3, h4⟩ := sib_subtree r a hr.2.2.2.2 hn.2.2.2.2.2.1 hm.2.1 h
      exact ⟨l', r', h1, h2, h3, by simp only [T.size] at h4 ⊢; omega⟩

/-- the node stored under `pre ++ stems` is the root of a represented subtree whose child tree holds exactly
    the entries whose path properly extends `pre ++ stems` -/
theorem subtree_at {s : State} : ∀ (stems : List Stem) (u : T) (lo hi : Option Stem) (pre : LRU) (a : Nat),
    Rep s u → OrdT s u lo hi → u.addrs.Nodup → MarkOk s u → (pre ++ stems, a) ∈ u.entries s pre →
    ∃ l c r, Rep s (.node a l c r) ∧ (T.node a l c r).addrs.Nodup ∧ MarkOk s (.node a l c r) ∧
      (T.node a l c r).size ≤ u.size ∧
      ∀ q b, (q, b) ∈ c.entries s (pre ++ stems) ↔
        ((q, b) ∈ u.entries s pre ∧ ∃ x rest, q = pre ++ (stems ++ x :: rest)) := by
  intro stems
  induction stems with
  | nil =>
    intro u lo hi pre a _ _ _ _ hent
    obtain ⟨x, rest, e⟩ := entries_prefix _ _ _ _ hent
    have := congrArg List.length e
    simp at this
  | cons stem tl ih =>
    intro u lo hi pre a hr hord hnd hm hent
    obtain ⟨a0, hmem, hfa, hcase⟩ := entry_head_find hord hnd hent
    obtain ⟨_, hst⟩ := T.find_sound u a0 hfa
    obtain ⟨l0, r0, h1, h2, h3, h4⟩ := sib_subtree u a0 hr hnd hm hmem
    have E : ∀ (tl' : List Stem) (b : Nat), tl' ≠ [] →
        ((pre ++ stem :: tl', b) ∈ u.entries s pre ↔
          (pre ++ stem :: tl', b) ∈ (u.childAt a0).entries s (pre ++ [stem])) := by
      intro tl' b htl'
      constructor
      · intro hq
        obtain ⟨a1, _, hf1, hc1⟩ := entry_head_find hord hnd hq
        rw [hfa] at hf1
        cases hf1
        rcases hc1 with ⟨e, _⟩ | ⟨_, hin⟩
        · exact absurd e htl'
        · exact hin
      · intro hin
        have := T.childAt_entries (s := s) (x := (pre ++ stem :: tl', b)) u pre a0 hmem
          (by rw [hst]; exact hin)
        exact this
    rcases hcase with ⟨htl, hba⟩ | ⟨htl, hin⟩
    · subst htl; subst hba
      refine ⟨l0, u.childAt a, r0, h1, h2, h3, h4, fun q b => ?_⟩
      constructor
      · intro hc
        obtain ⟨x, rest, e⟩ := entries_prefix _ _ _ _ hc
        have e' : q = pre ++ stem :: (x :: rest) := by rw [e]; simp
        subst e'
        exact ⟨(E (x :: rest) b (by simp)).mpr hc, x, rest, by simp⟩
      · rintro ⟨hq, x, rest, e⟩
        have e' : q = pre ++ stem :: (x :: rest) := by rw [e]; simp
        subst e'
        exact (E (x :: rest) b (by simp)).mp hq
    · have hord' := OrdT.childAt u lo hi a0 hord hmem
      have hnd' := T.childAt_nodup u a0 hnd hmem
      have hin' : (pre ++ [stem] ++ tl, a) ∈ (u.childAt a0).entries s (pre ++ [stem]) := by
        simpa using hin
      obtain ⟨l, c, r, g1, g2, g3, g4, hiff⟩ :=
        ih (u.childAt a0) none none (pre ++ [stem]) a h1.2.2.2.1 hord' hnd' h3.2.2.1 hin'
      have hsz := T.childAt_size u a0
      refine ⟨l, c, r, g1, g2, g3, by omega, fun q b => ?_⟩
      have hpath : pre ++ [stem] ++ tl = pre ++ stem :: tl := by simp
      rw [hpath] at hiff
      constructor
      · intro hc
        obtain ⟨hin2, x, rest, e⟩ := (hiff q b).mp hc
        have e' : q = pre ++ stem :: (tl ++ x :: rest) := by rw [e]; simp
        subst e'
        exact ⟨(E (tl ++ x :: rest) b (by simp)).mpr hin2, x, rest, by simp⟩
      · rintro ⟨hq, x, rest, e⟩
        have e' : q = pre ++ stem :: (tl ++ x :: rest) := by rw [e]; simp
        subst e'
        exact (hiff _ b).mpr ⟨(E (tl ++ x :: rest) b (by simp)).mp hq, x, rest, by simp⟩

/-! ### C13 in terms of the finite map -/

/-- the pruned DFS from the node stored under `P` meets exactly the webentity ids attached to `P` or to any
    path extending `P` -/
theorem C13_children_paths {s : State} {t : T} (hs : Shape s t) (hm : MarkOk s t) {P : LRU} {a : Nat}
    (hP : (P, a) ∈ t.entries s []) (lru : Bytes) (w : Nat) :
    ∀ x, (x ≠ 0 ∧ x ≠ w ∧ ∃ bl ∈ s.dfsIter (some (a, lru)) true, (s.cell bl.1).we = x) ↔
         (x ≠ 0 ∧ x ≠ w ∧ ∃ q b, (q, b) ∈ t.entries s [] ∧ P <+: q ∧ (s.cell b).we = x) := by
  intro x
  obtain ⟨l, c, r, h1, h2, h3, h4, hiff⟩ :=
    subtree_at P t none none [] a hs.rep hs.ord hs.nodup hm (by simpa using hP)
  simp only [List.nil_append] at hiff
  have hsz : (T.node a l c r).size ≤ s.trie.size := Nat.le_trans h4 hs.size_le
  rw [← C13_children_exact h1 h2 hsz h3 lru w x]
  constructor
  · rintro ⟨h0, hw, b, hb, hx⟩
    refine ⟨h0, hw, ?_⟩
    rcases List.mem_cons.mp hb with rfl | hb
    · exact ⟨P, _, hP, List.prefix_refl _, hx⟩
    · obtain ⟨q, hq⟩ := T.addrs_mem_entries (s := s) c P hb
      obtain ⟨hq', y, rest, e⟩ := (hiff q b).mp hq
      exact ⟨q, b, hq', ⟨y :: rest, e.symm⟩, hx⟩
  · rintro ⟨h0, hw, q, b, hq, ⟨ext, e⟩, hx⟩
    refine ⟨h0, hw, b, ?_, hx⟩
    cases ext with
    | nil =>
      simp only [List.append_nil] at e
      subst e
      have := entries_path_injective hs.ord hs.nodup hq hP
      rw [this]; exact List.mem_cons_self
    | cons y rest =>
      exact List.mem_cons_of_mem _ (entries_addr_mem _ _ _ _ ((hiff q b).mpr ⟨hq, y, rest, e.symm⟩))

/-- C13 for the API: the answer of `get_webentity_child_webentities(weid, prefixes)` is exactly the set of
    webentity ids (other than `weid`) attached to a stored path that extends one of the prefixes — at any
    depth, whatever the `noChild` marks say. (Prefixes are given with their closing separator, so
    `lruIter p ≠ []`.) -/
theorem C13_childWebentities_exact {s : State} {t : T} (hs : Shape s t) (hm : MarkOk s t) (w : Nat)
    (ps : List Bytes) (hps : ∀ p ∈ ps, lruIter p ≠ []) (l : List Nat)
    (h : s.childWebentities w ps = .ok l) (x : Nat) :
    x ∈ l ↔ x ≠ 0 ∧ x ≠ w ∧ ∃ p ∈ ps, ∃ q b, (q, b) ∈ t.entries s [] ∧ lruIter p <+: q ∧
      (s.cell b).we = x := by
  unfold childWebentities at h
  cases hf : s.forPrefixes ps (fun n p => ((s.dfsIter (some (n, p)) true).map (fun bl => (s.cell bl.1).we)).filter
      (fun w' => w' ≠ 0 && w' ≠ w)) with
  | error e => rw [hf] at h; cases h
  | ok xs =>
    rw [hf] at h
    cases h
    rw [mem_sortDedup, forPrefixes_mem s ps _ xs hf]
    constructor
    · rintro ⟨p, hp, n, hn, hx⟩
      simp only [List.mem_filter, List.mem_map, Bool.and_eq_true, ne_eq,
        decide_eq_true_eq] at hx
      obtain ⟨⟨bl, hbl, rfl⟩, h0, hw⟩ := hx
      have hP := (lruNode_iff_entries hs _ (hps p hp) n).mp hn
      obtain ⟨_, _, q, b, hq, hpre, hxe⟩ :=
        (C13_children_paths hs hm hP p w _).mp ⟨h0, hw, bl, hbl, rfl⟩
      exact ⟨h0, hw, p, hp, q, b, hq, hpre, hxe⟩
    · rintro ⟨h0, hw, p, hp, q, b, hq, hpre, hxe⟩
      -- the prefix node exists: the finite map is prefix-closed
      obtain ⟨ext, e⟩ := hpre
      have hlen : 0 < (lruIter p).length := List.length_pos_iff.mpr (hps p hp)
      obtain ⟨n, hn⟩ := entries_prefix_closed t [] q b hq (lruIter p).length (by simpa using hlen)
        (by rw [← e]; simp)
      have htake : q.take (lruIter p).length = lruIter p := by rw [← e]; simp
      rw [htake] at hn
      obtain ⟨_, _, bl, hbl, hxe'⟩ :=
        (C13_children_paths hs hm hn p w x).mpr ⟨h0, hw, q, b, hq, ⟨ext, e⟩, hxe⟩
      refine ⟨p, hp, n, (lruNode_iff_entries hs _ (hps p hp) n).mpr hn, ?_⟩
      simp only [List.mem_filter, List.mem_map, Bool.and_eq_true, ne_eq,
        decide_eq_true_eq]
      exact ⟨⟨bl, hbl, hxe'⟩, h0, hw⟩

#print axioms subtree_at
#print axioms C13_children_paths
#print axioms C13_childWebentities_exact

end Traph

import Proofs.CoSchedules
import Proofs.Resolve
/-! C16 — the fuel of the two query machines whose section fuel is recomputed from the CURRENT index
    (`CoSt.pages`, `CoSt.net`). This file: the page query `get_webentity_pages_iter`.

    * §0 the pointer graph of a represented tree (`cf_edges`): a block has at most one referrer, in one slot.
    * §1 the ghost invariant `cf_PI`: the blocks held by the traversal and the blocks already expanded are DISTINCT
      blocks of the tree (ghost set `V`), closed under "referred to by an expanded block" up to the prefix nodes;
      stable under the sections of all other generators (`.mono`).
      HISTORY: the model used to grant a section `cf_oldFuel = trie.size + prefixes.length + 2` iterations. With the
      invariant `cf_PagesInvA` (ghosts kept across prefixes; holds initially iff the prefixes are pairwise not prefixes
      of one another, `cf_Apart`) that constant suffices (`cf_old_pagesResume_fuel`); without the hypothesis it does
      NOT: `cf_old_pages_fuel_insufficient_dup`, `cf_old_pages_fuel_insufficient_nested` (kernel-checked witnesses;
      Python has no fuel — the atomic request of the model answers `[]` there). This is why the constant was changed.
    * §1' the constant of the model now, `(trie.size + 1) * (prefixes.length + 1)`, suffices for ARBITRARY prefixes
      (equal, nested, …): local invariant `cf_PagesInv` (ghosts reset when a prefix is opened; holds initially for
      every well-formed prefix list), `cf_pagesResume_fuel_general`, `cf_pagesResume_fuel`.
    * §3 `cf_sched_never` (generic induction over schedules for read-only machines),
      `cf_C16_pages_query_failures`, `cf_C16_pages_query_no_fuel`: for every schedule, whatever the other
      generators are, for every (well-formed) prefix list, the page query never fails except with `TraphException`
      (prefix not in the index).
    The network query is in `Proofs/CoFuelNet.lean`, "drained = atomic" in `Proofs/CoFuelDrain.lean`. -/
namespace Traph
open State Layout

/-! ## 0. the pointer graph of a represented tree: every block has at most one referrer, in one slot -/

def cf_edgeTo (a : Nat) (sl : Slot) : T → List (Nat × Slot × Nat)
  | .nil => []
  | .node b _ _ _ => [(a, sl, b)]

/-- the pointers of the tree: (referring block, slot, block referred to) -/
def cf_edges : T → List (Nat × Slot × Nat)
  | .nil => []
  | .node a l c r =>
    (cf_edgeTo a .L l ++ cf_edges l) ++ (cf_edgeTo a .C c ++ cf_edges c) ++ (cf_edgeTo a .R r ++ cf_edges r)

theorem cf_edges_targets (a : Nat) (sl : Slot) : ∀ u : T,
    (cf_edgeTo a sl u ++ cf_edges u).map (·.2.2) = u.addrs
  | .nil => rfl
  | .node b l c r => by
    have hl := cf_edges_targets b .L l
    have hc := cf_edges_targets b .C c
    have hr := cf_edges_targets b .R r
    show (([(a, sl, b)] : List (Nat × Slot × Nat)) ++ ((cf_edgeTo b .L l ++ cf_edges l) ++ (cf_edgeTo b .C c ++ cf_edges c) ++
      (cf_edgeTo b .R r ++ cf_edges r))).map (·.2.2) = b :: (l.addrs ++ c.addrs ++ r.addrs)
    rw [List.map_append, List.map_append, List.map_append, hl, hc, hr]
    rfl

theorem cf_edges_nodup {u : T} (hnd : u.addrs.Nodup) : ((cf_edges u).map (·.2.2)).Nodup := by
  cases u with
  | nil => simp [cf_edges]
  | node b l c r =>
    have h := cf_edges_targets 0 .L (.node b l c r)
    simp only [cf_edgeTo, List.cons_append, List.nil_append, List.map_cons] at h
    rw [← h] at hnd
    exact (List.nodup_cons.mp hnd).2

theorem cf_edges_not_root {u : T} (hnd : u.addrs.Nodup) (e : Nat × Slot × Nat) (he : e ∈ cf_edges u) :
    e.2.2 ≠ u.root := by
  cases u with
  | nil => simp [cf_edges] at he
  | node b l c r =>
    have h := cf_edges_targets 0 .L (.node b l c r)
    simp only [cf_edgeTo, List.cons_append, List.nil_append, List.map_cons] at h
    rw [← h] at hnd
    have := (List.nodup_cons.mp hnd).1
    intro e'
    apply this
    simp only [T.root_node] at e'
    exact List.mem_map.mpr ⟨e, he, e'⟩

theorem cf_edgeTo_mem {s : State} {u : T} (hr : Rep s u) (a : Nat) (sl : Slot) (hne : u.root ≠ 0) :
    (a, sl, u.root) ∈ cf_edgeTo a sl u := by
  cases u with
  | nil => simp at hne
  | node b l c r => simp [cf_edgeTo]

/-- every non-null pointer of a block of the tree is an edge -/
theorem cf_edges_mem {s : State} : ∀ (u : T), Rep s u → ∀ (y : Nat) (sl : Slot), y ∈ u.addrs →
    (s.cell y).slot sl ≠ 0 → (y, sl, (s.cell y).slot sl) ∈ cf_edges u
  | .nil, _, y, _, hy, _ => by simp [T.addrs] at hy
  | .node a l c r, hr, y, sl, hy, hne => by
    have hce := Rep.cell_eq hr
    obtain ⟨_, _, rl, rc, rr⟩ := hr
    simp only [T.addrs, List.mem_cons, List.mem_append] at hy
    simp only [cf_edges, List.mem_append]
    rcases hy with rfl | (hy | hy) | hy
    · cases sl with
      | L =>
        simp only [Cell.slot] at hne ⊢
        rw [hce.1] at hne ⊢
        exact Or.inl (Or.inl (Or.inl (cf_edgeTo_mem rl _ _ hne)))
      | C =>
        simp only [Cell.slot] at hne ⊢
        rw [hce.2.1] at hne ⊢
        exact Or.inl (Or.inr (Or.inl (cf_edgeTo_mem rc _ _ hne)))
      | R =>
        simp only [Cell.slot] at hne ⊢
        rw [hce.2.2] at hne ⊢
        exact Or.inr (Or.inl (cf_edgeTo_mem rr _ _ hne))
    · exact Or.inl (Or.inl (Or.inr (cf_edges_mem l rl y sl hy hne)))
    · exact Or.inl (Or.inr (Or.inr (cf_edges_mem c rc y sl hy hne)))
    · exact Or.inr (Or.inr (cf_edges_mem r rr y sl hy hne))

/-- `y` refers to `x` in slot `sl` -/
def cf_Par (s : State) (y : Nat) (sl : Slot) (x : Nat) : Prop := x ≠ 0 ∧ (s.cell y).slot sl = x

/-- a block of the tree has one referrer at most, and it refers to it in one slot only -/
theorem cf_par_unique {s : State} {t : T} (h : Shape s t) {y y' x : Nat} {sl sl' : Slot}
    (hy : y ∈ t.addrs) (hy' : y' ∈ t.addrs) (p : cf_Par s y sl x) (p' : cf_Par s y' sl' x) :
    y = y' ∧ sl = sl' := by
  have e1 := cf_edges_mem t h.rep y sl hy (by rw [p.2]; exact p.1)
  have e2 := cf_edges_mem t h.rep y' sl' hy' (by rw [p'.2]; exact p'.1)
  rw [p.2] at e1
  rw [p'.2] at e2
  have := nodup_map_inj (·.2.2) _ (cf_edges_nodup h.nodup) _ e1 _ e2 rfl
  simp only [Prod.mk.injEq, and_true] at this
  exact this

theorem cf_Par.mono {s s' : State} {y x : Nat} {sl : Slot} (le : s ⊑ s') (hy : y < s.trie.size)
    (p : cf_Par s y sl x) : cf_Par s' y sl x := by
  have cl := le.cell_le y hy
  refine ⟨p.1, ?_⟩
  obtain ⟨hne, e⟩ := p
  cases sl with
  | L => simp only [Cell.slot] at e ⊢; rw [cl.left (by rw [e]; exact hne), e]
  | C => simp only [Cell.slot] at e ⊢; rw [cl.child (by rw [e]; exact hne), e]
  | R => simp only [Cell.slot] at e ⊢; rw [cl.right (by rw [e]; exact hne), e]

/-! ## 1. the page query: blocks popped are popped once -/

/-- neither path is a prefix of the other (in particular they differ) -/
def cf_Apart (a b : LRU) : Prop := ¬ a <+: b ∧ ¬ b <+: a

theorem cf_pairwise_ne {l : List LRU} (h : l.Pairwise cf_Apart) {a b : LRU} (ha : a ∈ l) (hb : b ∈ l) (hne : a ≠ b) :
    cf_Apart a b := by
  induction l with
  | nil => simp at ha
  | cons x xs ih =>
    rw [List.pairwise_cons] at h
    rcases List.mem_cons.mp ha with ea | ha' <;> rcases List.mem_cons.mp hb with eb | hb'
    · exact absurd (ea.trans eb.symm) hne
    · rw [ea]; exact h.1 b hb'
    · rw [eb]; exact ⟨(h.1 a ha').2, (h.1 a ha').1⟩
    · exact ih h.2 ha' hb'

/-- the ghost part of the local invariant of the page query. `front` : the blocks still to be expanded or
    popped (the block of the stale copy first); `V` : the blocks already expanded; `opened` : the paths of the
    prefixes opened so far, `cur` the last of them. The blocks of `front ++ V` are distinct; each is the node
    of an opened prefix or is referred to by a block of `V`. -/
structure cf_PI (s : State) (t : T) (prefixes : List Bytes) (start : Nat) (front V : List Nat)
    (opened : List LRU) (cur : LRU) : Prop where
  nd    : (front ++ V).Nodup
  apart : (opened ++ prefixes.map lruIter).Pairwise cf_Apart
  wf    : ∀ pf ∈ prefixes, lruIter pf ≠ []
  live  : ∀ b ∈ front, ∃ q, (q, b) ∈ t.entries s [] ∧ cur <+: q ∧ (cur, start) ∈ t.entries s [] ∧ cur ∈ opened
  clos  : ∀ x ∈ front ++ V, ∃ q, (q, x) ∈ t.entries s [] ∧ ∃ P ∈ opened, P <+: q ∧
            (q = P ∨ ∃ y ∈ V, ∃ sl, cf_Par s y sl x)

theorem cf_PI.mono {s s' : State} {t t' : T} {prefixes : List Bytes} {start : Nat} {front V : List Nat}
    {opened : List LRU} {cur : LRU} (h : Shape s t) (x : Ext s t s' t') (le : s ⊑ s')
    (hp : cf_PI s t prefixes start front V opened cur) : cf_PI s' t' prefixes start front V opened cur where
  nd := hp.nd
  apart := hp.apart
  wf := hp.wf
  live := fun b hb => by
    obtain ⟨q, h1, h2, h3, h4⟩ := hp.live b hb
    exact ⟨q, x.keep _ _ h1, h2, x.keep _ _ h3, h4⟩
  clos := fun y hy => by
    obtain ⟨q, h1, P, hP, h2, h3⟩ := hp.clos y hy
    refine ⟨q, x.keep _ _ h1, P, hP, h2, ?_⟩
    rcases h3 with h3 | ⟨z, hz, sl, hpar⟩
    · exact Or.inl h3
    · obtain ⟨qz, hz1, _⟩ := hp.clos z (List.mem_append_right _ hz)
      exact Or.inr ⟨z, hz, sl, hpar.mono le (entry_lt h hz1)⟩

theorem cf_PI.length_le {s : State} {t : T} {prefixes : List Bytes} {start : Nat} {front V : List Nat}
    {opened : List LRU} {cur : LRU} (h : Shape s t)
    (hp : cf_PI s t prefixes start front V opened cur) : front.length + V.length ≤ s.trie.size := by
  rw [← List.length_append]
  refine nodup_length_le _ _ hp.nd (fun x hx => ?_)
  obtain ⟨q, h1, _⟩ := hp.clos x hx
  exact entry_lt h h1

/-- opening the next prefix -/
theorem cf_PI.open {s : State} {t : T} {pf : Bytes} {more : List Bytes} {start : Nat} {V : List Nat}
    {opened : List LRU} {cur : LRU} (h : Shape s t)
    (hp : cf_PI s t (pf :: more) start [] V opened cur) {n : Nat} (hn : s.lruNode (lruIter pf) = some n) :
    cf_PI s t more n [n] V (opened ++ [lruIter pf]) (lruIter pf) := by
  have hne := hp.wf pf (by simp)
  have hent : (lruIter pf, n) ∈ t.entries s [] := (lruNode_iff_entries h _ hne n).mp hn
  have hap := hp.apart
  rw [List.map_cons, List.pairwise_append] at hap
  refine ⟨?_, ?_, fun x hx => hp.wf x (List.mem_cons_of_mem _ hx), ?_, ?_⟩
  · rw [List.singleton_append, List.nodup_cons]
    refine ⟨fun hV => ?_, by simpa using hp.nd⟩
    obtain ⟨q, h1, P, hP, h2, _⟩ := hp.clos n (by simpa using hV)
    have := entries_addr_injective h.nodup h1 hent
    subst this
    exact (hap.2.2 P hP _ (by simp)).1 h2
  · rw [List.append_assoc, List.singleton_append]
    exact hp.apart
  · intro b hb
    simp only [List.mem_singleton] at hb
    subst hb
    exact ⟨_, hent, List.prefix_rfl, hent, by simp⟩
  · intro x hx
    rw [List.singleton_append, List.mem_cons] at hx
    rcases hx with rfl | hx
    · exact ⟨_, hent, _, by simp, List.prefix_rfl, Or.inl rfl⟩
    · obtain ⟨q, h1, P, hP, h2, h3⟩ := hp.clos x (by simpa using hx)
      exact ⟨q, h1, P, List.mem_append_left _ hP, h2, h3⟩

theorem cf_mem_opt {α : Type} {c : Prop} [Decidable c] {x y : α} {M : List α} :
    x ∈ (if c then [y] else []) ++ M ↔ (c ∧ x = y) ∨ x ∈ M := by
  by_cases hc : c <;> simp [hc]

theorem cf_nodup_opt {α : Type} {c : Prop} [Decidable c] {y : α} {M : List α} (hM : M.Nodup) (hy : c → y ∉ M) :
    ((if c then [y] else []) ++ M).Nodup := by
  by_cases hc : c
  · simp only [hc, if_true, List.singleton_append, List.nodup_cons]; exact ⟨hy hc, hM⟩
  · simpa [hc] using hM

/-- expanding block `b`: its non-null pointers are pushed (the siblings only below the prefix node), `b`
    joins `V` -/
theorem cf_PI.expand {s : State} {t : T} {prefixes : List Bytes} {start b : Nat} {F V : List Nat}
    {opened : List LRU} {cur : LRU} (h : Shape s t)
    (hp : cf_PI s t prefixes start (b :: F) V opened cur) {c1 c2 c3 : Prop} [Decidable c1] [Decidable c2] [Decidable c3]
    {x1 x2 x3 : Nat} (h1 : c1 → cf_Par s b .C x1) (h2 : c2 → cf_Par s b .L x2 ∧ b ≠ start)
    (h3 : c3 → cf_Par s b .R x3 ∧ b ≠ start) :
    cf_PI s t prefixes start ((if c1 then [x1] else []) ++ ((if c2 then [x2] else []) ++ ((if c3 then [x3] else []) ++ F)))
      (b :: V) opened cur := by
  obtain ⟨qb, hb1, hb2, hb3, hb4⟩ := hp.live b (by simp)
  have hbA : b ∈ t.addrs := entries_addr_mem _ _ _ _ hb1
  obtain ⟨q0, eqb, f1, f2, f3⟩ := entries_last_and_ptrs t [] qb b h.rep hb1
  -- where a block referred to by `b` lives
  have key : ∀ sl x, cf_Par s b sl x → (sl = .C ∨ b ≠ start) → ∃ q z, (q ++ [z], x) ∈ t.entries s [] ∧ cur <+: q := by
    intro sl x hpar hsl
    obtain ⟨hx0, hx⟩ := hpar
    cases sl with
    | C =>
      simp only [Cell.slot] at hx
      subst hx
      exact ⟨qb, _, f3 hx0, hb2⟩
    | L =>
      simp only [Cell.slot] at hx
      subst hx
      have hbs : b ≠ start := by rcases hsl with hsl | hsl; · cases hsl
                                 · exact hsl
      have hcur : cur <+: q0 := by
        rw [eqb] at hb2
        rcases List.prefix_concat_iff.mp hb2 with e | e
        · exfalso
          rw [← eqb] at e
          rw [e] at hb3
          exact hbs (entries_path_injective h.ord h.nodup hb1 hb3)
        · exact e
      exact ⟨q0, _, f1 hx0, hcur⟩
    | R =>
      simp only [Cell.slot] at hx
      subst hx
      have hbs : b ≠ start := by rcases hsl with hsl | hsl; · cases hsl
                                 · exact hsl
      have hcur : cur <+: q0 := by
        rw [eqb] at hb2
        rcases List.prefix_concat_iff.mp hb2 with e | e
        · exfalso
          rw [← eqb] at e
          rw [e] at hb3
          exact hbs (entries_path_injective h.ord h.nodup hb1 hb3)
        · exact e
      exact ⟨q0, _, f2 hx0, hcur⟩
  have hbV : b ∉ V := by
    have := hp.nd
    rw [List.cons_append, List.nodup_cons] at this
    exact fun hv => this.1 (List.mem_append_right _ hv)
  have fresh : ∀ sl x, cf_Par s b sl x → (sl = .C ∨ b ≠ start) → x ∉ (b :: F) ++ V := by
    intro sl x hpar hsl hx
    obtain ⟨q, z, hq, hcur⟩ := key sl x hpar hsl
    obtain ⟨q', hq', P, hP, hPq, hcl⟩ := hp.clos x hx
    have := entries_addr_injective h.nodup hq' hq
    subst this
    rcases hcl with e | ⟨y, hy, sl', hpar'⟩
    · have hne : cur ≠ P := by
        intro e'
        have e2 : cur = q ++ [z] := e'.trans e.symm
        rw [e2] at hcur
        have := hcur.length_le
        simp at this
        omega
      have := (cf_pairwise_ne hp.apart (List.mem_append_left _ hb4) (List.mem_append_left _ hP) hne).1
      apply this
      rw [← e]
      exact hcur.trans (List.prefix_append _ _)
    · obtain ⟨qy, hy1, _⟩ := hp.clos y (List.mem_append_right _ hy)
      have := (cf_par_unique h (entries_addr_mem _ _ _ _ hy1) hbA hpar' hpar).1
      subst this
      exact hbV hy
  have hndFV : (F ++ b :: V).Nodup := (List.perm_middle.nodup_iff).mpr (by simpa using hp.nd)
  have memFV : ∀ x, x ∈ F ++ b :: V ↔ x ∈ (b :: F) ++ V := by
    intro x; simp only [List.mem_append, List.mem_cons]
    constructor
    · rintro (h | h | h)
      · exact Or.inl (Or.inr h)
      · exact Or.inl (Or.inl h)
      · exact Or.inr h
    · rintro ((h | h) | h)
      · exact Or.inr (Or.inl h)
      · exact Or.inl h
      · exact Or.inr (Or.inr h)
  refine ⟨?_, hp.apart, hp.wf, ?_, ?_⟩
  · simp only [List.append_assoc]
    refine cf_nodup_opt (cf_nodup_opt (cf_nodup_opt hndFV ?_) ?_) ?_
    · intro hc hx
      exact fresh _ _ (h3 hc).1 (Or.inr (h3 hc).2) ((memFV _).mp hx)
    · intro hc hx
      rcases cf_mem_opt.mp hx with ⟨hc3, e⟩ | hx
      · have := (cf_par_unique h hbA hbA (h2 hc).1 (e ▸ (h3 hc3).1)).2
        cases this
      · exact fresh _ _ (h2 hc).1 (Or.inr (h2 hc).2) ((memFV _).mp hx)
    · intro hc hx
      rcases cf_mem_opt.mp hx with ⟨hc2, e⟩ | hx
      · have := (cf_par_unique h hbA hbA (h1 hc) (e ▸ (h2 hc2).1)).2
        cases this
      · rcases cf_mem_opt.mp hx with ⟨hc3, e⟩ | hx
        · have := (cf_par_unique h hbA hbA (h1 hc) (e ▸ (h3 hc3).1)).2
          cases this
        · exact fresh _ _ (h1 hc) (Or.inl rfl) ((memFV _).mp hx)
  · intro x hx
    rcases cf_mem_opt.mp hx with ⟨hc, rfl⟩ | hx
    · obtain ⟨q, z, hq, hcur⟩ := key _ _ (h1 hc) (Or.inl rfl)
      exact ⟨_, hq, hcur.trans (List.prefix_append _ _), hb3, hb4⟩
    rcases cf_mem_opt.mp hx with ⟨hc, rfl⟩ | hx
    · obtain ⟨q, z, hq, hcur⟩ := key _ _ (h2 hc).1 (Or.inr (h2 hc).2)
      exact ⟨_, hq, hcur.trans (List.prefix_append _ _), hb3, hb4⟩
    rcases cf_mem_opt.mp hx with ⟨hc, rfl⟩ | hx
    · obtain ⟨q, z, hq, hcur⟩ := key _ _ (h3 hc).1 (Or.inr (h3 hc).2)
      exact ⟨_, hq, hcur.trans (List.prefix_append _ _), hb3, hb4⟩
    exact hp.live x (List.mem_cons_of_mem _ hx)
  · have old : ∀ x ∈ (b :: F) ++ V, ∃ q, (q, x) ∈ t.entries s [] ∧ ∃ P ∈ opened, P <+: q ∧
        (q = P ∨ ∃ y ∈ b :: V, ∃ sl, cf_Par s y sl x) := by
      intro x hx
      obtain ⟨q, hq, P, hP, hPq, hcl⟩ := hp.clos x hx
      refine ⟨q, hq, P, hP, hPq, ?_⟩
      rcases hcl with e | ⟨y, hy, sl, hpar⟩
      · exact Or.inl e
      · exact Or.inr ⟨y, List.mem_cons_of_mem _ hy, sl, hpar⟩
    have new : ∀ sl x, cf_Par s b sl x → (sl = .C ∨ b ≠ start) → ∃ q, (q, x) ∈ t.entries s [] ∧ ∃ P ∈ opened, P <+: q ∧
        (q = P ∨ ∃ y ∈ b :: V, ∃ sl, cf_Par s y sl x) := by
      intro sl x hpar hsl
      obtain ⟨q, z, hq, hcur⟩ := key sl x hpar hsl
      exact ⟨_, hq, cur, hb4, hcur.trans (List.prefix_append _ _), Or.inr ⟨b, by simp, sl, hpar⟩⟩
    intro x hx
    simp only [List.append_assoc] at hx
    rcases cf_mem_opt.mp hx with ⟨hc, rfl⟩ | hx
    · exact new _ _ (h1 hc) (Or.inl rfl)
    rcases cf_mem_opt.mp hx with ⟨hc, rfl⟩ | hx
    · exact new _ _ (h2 hc).1 (Or.inr (h2 hc).2)
    rcases cf_mem_opt.mp hx with ⟨hc, rfl⟩ | hx
    · exact new _ _ (h3 hc).1 (Or.inr (h3 hc).2)
    exact old x ((memFV x).mp hx)

theorem cf_weDfsPush_map (start b : Nat) (lru cur : Bytes) (lvl : Nat) (c : Cell) (stack : List (Nat × Bytes × Nat)) :
    (weDfsPush start b lru cur lvl c stack).map (·.1) =
      (if (b = start ∨ c.we = 0) ∧ c.child ≠ 0 then [c.child] else []) ++
        ((if b ≠ start ∧ c.left ≠ 0 then [c.left] else []) ++
          ((if b ≠ start ∧ c.right ≠ 0 then [c.right] else []) ++ stack.map (·.1))) := by
  unfold weDfsPush
  by_cases h1 : b = start <;> by_cases h2 : c.we = 0 <;> by_cases h3 : c.child = 0 <;>
    by_cases h4 : c.left = 0 <;> by_cases h5 : c.right = 0 <;> simp [h1, h2, h3, h4, h5]

/-- what `expand` needs about the pointers of a copy `c` of block `b` that is below the block's contents -/
theorem cf_PI.expand_copy {s : State} {t : T} {prefixes : List Bytes} {start b : Nat} {F V : List Nat}
    {opened : List LRU} {cur : LRU} (h : Shape s t)
    (hp : cf_PI s t prefixes start (b :: F) V opened cur) {c : Cell} (cl : CellLe c (s.cell b)) :
    cf_PI s t prefixes start
      ((if (b = start ∨ c.we = 0) ∧ c.child ≠ 0 then [c.child] else []) ++
        ((if b ≠ start ∧ c.left ≠ 0 then [c.left] else []) ++
          ((if b ≠ start ∧ c.right ≠ 0 then [c.right] else []) ++ F))) (b :: V) opened cur := by
  refine hp.expand h (fun hc => ⟨hc.2, ?_⟩) (fun hc => ⟨⟨hc.2, ?_⟩, hc.1⟩) (fun hc => ⟨⟨hc.2, ?_⟩, hc.1⟩)
  · exact cl.child hc.2
  · exact cl.left hc.2
  · exact cl.right hc.2

def cf_pendBlock (p : PagesSt) : List Nat :=
  match p.pend with
  | some (b, _, _, _, _) => [b]
  | none => []

/-- the block of the stale copy (to be expanded when the query is resumed), then the blocks of the stack -/
def cf_front (p : PagesSt) : List Nat := cf_pendBlock p ++ p.stack.map (·.1)

structure cf_PInv (s : State) (t : T) (p : PagesSt) (V : List Nat) (opened : List LRU) (cur : LRU) : Prop where
  pi     : cf_PI s t p.prefixes p.start (cf_front p) V opened cur
  pendle : ∀ b lru cu lvl c, p.pend = some (b, lru, cu, lvl, c) → CellLe c (s.cell b)

/-- the local invariant of the page query under which the OLD constant sufficed (independent of `PagesOk`): the
    blocks the traversal still holds and the blocks it has expanded SINCE THE START are distinct blocks of the tree,
    closed under "is referred to by an expanded block" up to the prefix nodes; the prefixes (opened and to come) are
    pairwise not prefixes of one another -/
def cf_PagesInvA (s : State) (t : T) (p : PagesSt) : Prop := ∃ V opened cur, cf_PInv s t p V opened cur

theorem cf_PagesInvA.mono {s s' : State} {t t' : T} {p : PagesSt} (h : Shape s t) (x : Ext s t s' t') (le : s ⊑ s')
    (hp : cf_PagesInvA s t p) : cf_PagesInvA s' t' p := by
  obtain ⟨V, opened, cur, hpi, hle⟩ := hp
  refine ⟨V, opened, cur, hpi.mono h x le, fun b lru cu lvl c e => ?_⟩
  have hb : b ∈ cf_front p := by simp [cf_front, cf_pendBlock, e]
  obtain ⟨q, h1, _⟩ := hpi.live b hb
  exact (hle b lru cu lvl c e).trans (le.cell_le b (entry_lt h h1))

theorem cf_PagesInvA.init (s : State) (t : T) (prefixes : List Bytes) (hwf : ∀ pf ∈ prefixes, lruIter pf ≠ [])
    (hap : (prefixes.map lruIter).Pairwise cf_Apart) : cf_PagesInvA s t { prefixes := prefixes } :=
  ⟨[], [], [], ⟨by simp [cf_front, cf_pendBlock], by simpa using hap, hwf, fun b hb => by simp [cf_front, cf_pendBlock] at hb,
    fun b hb => by simp [cf_front, cf_pendBlock] at hb⟩, fun _ _ _ _ _ e => by simp at e⟩

/-- expanding the stale copy: the state the next section starts from -/
theorem cf_PI.norm {s : State} {t : T} {p : PagesSt} {ps : List Bytes} {V : List Nat} {opened : List LRU} {cur : LRU}
    (h : Shape s t) (hpi : cf_PI s t ps p.start (cf_front p) V opened cur)
    (hle : ∀ b lru cu lvl c, p.pend = some (b, lru, cu, lvl, c) → CellLe c (s.cell b)) :
    ∃ V', V.length ≤ V'.length ∧ cf_PI s t ps p.start (p.pending.map (·.1)) V' opened cur := by
  unfold PagesSt.pending
  cases hpe : p.pend with
  | none =>
    simp only
    refine ⟨V, Nat.le_refl _, ?_⟩
    have : cf_front p = p.stack.map (·.1) := by simp [cf_front, cf_pendBlock, hpe]
    rw [this] at hpi
    exact hpi
  | some x =>
    obtain ⟨b, lru, cu, lvl, c⟩ := x
    simp only
    refine ⟨b :: V, by simp, ?_⟩
    have : cf_front p = b :: p.stack.map (·.1) := by simp [cf_front, cf_pendBlock, hpe]
    rw [this] at hpi
    rw [cf_weDfsPush_map]
    exact hpi.expand_copy h (hle b lru cu lvl c hpe)

theorem cf_PInv.norm {s : State} {t : T} {p : PagesSt} {V : List Nat} {opened : List LRU} {cur : LRU}
    (h : Shape s t) (hp : cf_PInv s t p V opened cur) :
    ∃ V', V.length ≤ V'.length ∧ cf_PI s t p.prefixes p.start (p.pending.map (·.1)) V' opened cur :=
  hp.pi.norm h hp.pendle

theorem cf_pages_aux : ∀ (fuel : Nat) (s : State) (t : T) (prefixes : List Bytes) (start : Nat)
    (stack : List (Nat × Bytes × Nat)) (pages : List (Bytes × Bool)) (V : List Nat) (opened : List LRU) (cur : LRU),
    Shape s t → cf_PI s t prefixes start (stack.map (·.1)) V opened cur →
    s.trie.size + prefixes.length + 1 ≤ fuel + V.length →
    (pagesResume fuel s ⟨prefixes, start, stack, none, pages⟩).2 ≠ .failed (.other "fuel") ∧
    ((pagesResume fuel s ⟨prefixes, start, stack, none, pages⟩).2 = .yielded →
      cf_PagesInvA s t (pagesResume fuel s ⟨prefixes, start, stack, none, pages⟩).1)
  | 0, s, t, prefixes, start, stack, pages, V, opened, cur, h, hp, hf => by
    have := hp.length_le h
    omega
  | fuel + 1, s, t, prefixes, start, stack, pages, V, opened, cur, h, hp, hf => by
    rw [pagesResume]
    simp only
    cases stack with
    | nil =>
      simp only
      cases prefixes with
      | nil => simp
      | cons pf more =>
        simp only
        cases hn : s.lruNode (lruIter pf) with
        | none => simp
        | some n =>
          simp only
          refine cf_pages_aux fuel s t more n [(n, lruDirname pf, 0)] pages V _ _ h (hp.open h hn) ?_
          simp only [List.length_cons] at hf
          omega
    | cons top rest =>
      obtain ⟨b, lru, lvl⟩ := top
      simp only
      split
      · refine ⟨by simp, fun _ => ⟨V, opened, cur, ?_, ?_⟩⟩
        · exact hp
        · intro b' lru' cu' lvl' c' e'
          simp only [Option.some.injEq, Prod.mk.injEq] at e'
          obtain ⟨rfl, _, _, _, rfl⟩ := e'
          exact CellLe.refl _
      · have hp' := hp
        rw [List.map_cons] at hp'
        have := hp'.expand_copy h (CellLe.refl (s.cell b))
        rw [← cf_weDfsPush_map start b lru (lru ++ s.stemAt b) lvl (s.cell b) rest] at this
        refine cf_pages_aux fuel s t prefixes start _ pages (b :: V) opened cur h this ?_
        simp only [List.length_cons]
        omega

/-- the constant `CoSt.resume` granted a section of the page query BEFORE the change of the model -/
def cf_oldFuel (s : State) (p : PagesSt) : Nat := s.trie.size + p.prefixes.length + 2

/-- (history) the old constant was sufficient for one section of the page query in any state of the machine
    satisfying `cf_PagesInvA` (which holds initially when the prefixes are pairwise not prefixes of one another, is
    stable under the sections of all other generators, and is re-established here) — and only then:
    `cf_old_pages_fuel_insufficient_*` -/
theorem cf_old_pagesResume_fuel {s : State} {t : T} {p : PagesSt} (h : Shape s t) (hp : cf_PagesInvA s t p) :
    (pagesResume (cf_oldFuel s p) s p).2 ≠ .failed (.other "fuel") ∧
    ((pagesResume (cf_oldFuel s p) s p).2 = .yielded →
      cf_PagesInvA s t (pagesResume (cf_oldFuel s p) s p).1) := by
  obtain ⟨V, opened, cur, hinv⟩ := hp
  obtain ⟨V', hV, hpi⟩ := hinv.norm h
  rw [show cf_oldFuel s p = (s.trie.size + p.prefixes.length + 1) + 1 from rfl, pagesResume_norm]
  exact cf_pages_aux _ s t p.prefixes p.start p.pending p.pages V' opened cur h hpi (by omega)

/-! ## 1'. the constant of the model: `(trie.size + 1) * (prefixes.length + 1)` suffices for arbitrary prefixes -/

/-- **the local invariant of the page query** (independent of `PagesOk`), without any hypothesis on the prefixes
    (only well-formedness): the blocks the traversal still holds and the blocks it has expanded under the CURRENT
    prefix are distinct blocks of the tree — popped once (the ghosts are reset when a prefix is opened) -/
def cf_PagesInv (s : State) (t : T) (p : PagesSt) : Prop :=
  (∀ pf ∈ p.prefixes, lruIter pf ≠ []) ∧
  (∀ b lru cu lvl c, p.pend = some (b, lru, cu, lvl, c) → CellLe c (s.cell b)) ∧
  ∃ V cur, cf_PI s t [] p.start (cf_front p) V [cur] cur

theorem cf_PagesInv.mono {s s' : State} {t t' : T} {p : PagesSt} (h : Shape s t) (x : Ext s t s' t') (le : s ⊑ s')
    (hp : cf_PagesInv s t p) : cf_PagesInv s' t' p := by
  obtain ⟨hwf, hle, V, cur, hpi⟩ := hp
  refine ⟨hwf, fun b lru cu lvl c e => ?_, V, cur, hpi.mono h x le⟩
  have hb : b ∈ cf_front p := by simp [cf_front, cf_pendBlock, e]
  obtain ⟨q, h1, _⟩ := hpi.live b hb
  exact (hle b lru cu lvl c e).trans (le.cell_le b (entry_lt h h1))

theorem cf_PagesInv.init (s : State) (t : T) (prefixes : List Bytes) (hwf : ∀ pf ∈ prefixes, lruIter pf ≠ []) :
    cf_PagesInv s t { prefixes := prefixes } :=
  ⟨hwf, fun _ _ _ _ _ e => by simp at e, [], [], by simp [cf_front, cf_pendBlock], by simp, fun _ h => by simp at h,
    fun b hb => by simp [cf_front, cf_pendBlock] at hb, fun b hb => by simp [cf_front, cf_pendBlock] at hb⟩

theorem cf_pages_aux_gen : ∀ (fuel : Nat) (s : State) (t : T) (prefixes : List Bytes) (start : Nat)
    (stack : List (Nat × Bytes × Nat)) (pages : List (Bytes × Bool)) (V : List Nat) (cur : LRU),
    Shape s t → (∀ pf ∈ prefixes, lruIter pf ≠ []) → cf_PI s t [] start (stack.map (·.1)) V [cur] cur →
    (s.trie.size + 1) * prefixes.length + s.trie.size + 1 ≤ fuel + V.length →
    (pagesResume fuel s ⟨prefixes, start, stack, none, pages⟩).2 ≠ .failed (.other "fuel") ∧
    ((pagesResume fuel s ⟨prefixes, start, stack, none, pages⟩).2 = .yielded →
      cf_PagesInv s t (pagesResume fuel s ⟨prefixes, start, stack, none, pages⟩).1)
  | 0, s, t, prefixes, start, stack, pages, V, cur, h, hwf, hp, hf => by
    have := hp.length_le h
    omega
  | fuel + 1, s, t, prefixes, start, stack, pages, V, cur, h, hwf, hp, hf => by
    rw [pagesResume]
    simp only
    cases stack with
    | nil =>
      simp only
      cases prefixes with
      | nil => simp
      | cons pf more =>
        simp only
        cases hn : s.lruNode (lruIter pf) with
        | none => simp
        | some n =>
          simp only
          have hent : (lruIter pf, n) ∈ t.entries s [] := (lruNode_iff_entries h _ (hwf pf (by simp)) n).mp hn
          have hV := hp.length_le h
          refine cf_pages_aux_gen fuel s t more n [(n, lruDirname pf, 0)] pages [] (lruIter pf) h
            (fun x hx => hwf x (List.mem_cons_of_mem _ hx)) ?_ ?_
          · refine ⟨by simp, by simp, fun _ hx => by simp at hx, fun b hb => ?_, fun b hb => ?_⟩
            · simp only [List.map_cons, List.map_nil, List.mem_singleton] at hb
              subst hb
              exact ⟨_, hent, List.prefix_rfl, hent, by simp⟩
            · simp only [List.map_cons, List.map_nil, List.append_nil, List.mem_singleton] at hb
              subst hb
              exact ⟨_, hent, _, by simp, List.prefix_rfl, Or.inl rfl⟩
          · simp only [List.length_cons, List.length_nil, Nat.mul_add, Nat.mul_one] at hf ⊢
            omega
    | cons top rest =>
      obtain ⟨b, lru, lvl⟩ := top
      simp only
      split
      · refine ⟨by simp, fun _ => ⟨hwf, ?_, V, cur, hp⟩⟩
        intro b' lru' cu' lvl' c' e'
        simp only [Option.some.injEq, Prod.mk.injEq] at e'
        obtain ⟨rfl, _, _, _, rfl⟩ := e'
        exact CellLe.refl _
      · have hp' := hp
        rw [List.map_cons] at hp'
        have := hp'.expand_copy h (CellLe.refl (s.cell b))
        rw [← cf_weDfsPush_map start b lru (lru ++ s.stemAt b) lvl (s.cell b) rest] at this
        refine cf_pages_aux_gen fuel s t prefixes start _ pages (b :: V) cur h hwf this ?_
        simp only [List.length_cons]
        omega

/-- **the fuel that suffices for one section of the page query whatever the prefixes** (equal, nested, …):
    every `F ≥ (trie.size + 1) * (prefixes.length + 1)`, recomputed from the current index -/
theorem cf_pagesResume_fuel_general {s : State} {t : T} {p : PagesSt} (h : Shape s t) (hp : cf_PagesInv s t p)
    (F : Nat) (hF : (s.trie.size + 1) * (p.prefixes.length + 1) ≤ F) :
    (pagesResume F s p).2 ≠ .failed (.other "fuel") ∧
    ((pagesResume F s p).2 = .yielded → cf_PagesInv s t (pagesResume F s p).1) := by
  obtain ⟨hwf, hle, V, cur, hpi⟩ := hp
  obtain ⟨V', hV, hpi'⟩ := hpi.norm h hle
  obtain ⟨F', rfl⟩ : ∃ F', F = F' + 1 := ⟨F - 1, by
    have : 0 < (s.trie.size + 1) * (p.prefixes.length + 1) := Nat.mul_pos (by omega) (by omega)
    omega⟩
  rw [pagesResume_norm]
  refine cf_pages_aux_gen _ s t p.prefixes p.start p.pending p.pages V' cur h hwf ?_ ?_
  · exact hpi'
  · simp only [Nat.mul_add, Nat.mul_one] at hF
    omega

/-- **(1a) fuel sufficiency for one section of the page query**, at the constant `CoSt.resume` grants, in any
    state of the machine satisfying the local invariant (which holds initially for EVERY well-formed prefix list —
    equal or nested prefixes included —, is stable under the sections of all other generators, and is re-established
    here) -/
theorem cf_pagesResume_fuel {s : State} {t : T} {p : PagesSt} (h : Shape s t) (hp : cf_PagesInv s t p) :
    (pagesResume ((s.trie.size + 1) * (p.prefixes.length + 1)) s p).2 ≠ .failed (.other "fuel") ∧
    ((pagesResume ((s.trie.size + 1) * (p.prefixes.length + 1)) s p).2 = .yielded →
      cf_PagesInv s t (pagesResume ((s.trie.size + 1) * (p.prefixes.length + 1)) s p).1) :=
  cf_pagesResume_fuel_general h hp _ (Nat.le_refl _)

/-! ## 3. every schedule: the generic induction -/

/-- a local invariant `J` of read-only machines that is stable under foreign sections, re-established by
    the machine's own sections, and excludes the outcomes `Bad` of a section: then no schedule, whatever the
    other generators are and do, makes the machine produce a `Bad` outcome -/
theorem cf_sched_never (J : State → T → CoSt → Prop) (Bad : CoOut → Prop)
    (hmono : ∀ s s' t t' c, Shape s t → Ext s t s' t' → s ⊑ s' → J s t c → J s' t' c)
    (hsec : ∀ s t c, Shape s t → J s t c →
      (c.resume s).1 = s ∧ ¬ Bad (c.resume s).2.2 ∧ J s t (c.resume s).2.1) :
    ∀ (sched : Sched) (σ : Sys) (t : T), Shape σ.1 t → ∀ (i : Nat) (c : CoSt), σ.2[i]? = some c → J σ.1 t c →
      ∀ o, (i, o) ∈ (σ.run sched).2 → ¬ Bad o
  | [], σ, t, _, i, c, _, _, o, hm => by simp [Sys.run_nil] at hm
  | j :: rest, σ, t, h, i, c, hc, hJ, o, hm => by
    cases hcj : σ.2[j]? with
    | none =>
      rw [Sys.run_cons_none _ hcj] at hm
      exact cf_sched_never J Bad hmono hsec rest σ t h i c hc hJ o hm
    | some cj =>
      rw [Sys.run_cons_some _ hcj] at hm
      obtain ⟨t1, sec⟩ := resume_sec h cj
      have hjlt : j < σ.2.length := (List.getElem?_eq_some_iff.mp hcj).1
      simp only [List.mem_cons, Prod.mk.injEq] at hm
      by_cases hij : j = i
      · subst hij
        rw [hc] at hcj
        cases hcj
        obtain ⟨e1, e2, e3⟩ := hsec σ.1 t c h hJ
        rcases hm with ⟨_, rfl⟩ | hm
        · exact e2
        · refine cf_sched_never J Bad hmono hsec rest _ t1 sec.ext.shape j (c.resume σ.1).2.1 ?_ ?_ o hm
          · exact List.getElem?_set_self hjlt
          · exact hmono _ _ _ _ _ h sec.ext sec.le e3
      · rcases hm with ⟨e, _⟩ | hm
        · exact absurd e.symm hij
        · refine cf_sched_never J Bad hmono hsec rest _ t1 sec.ext.shape i c ?_ ?_ o hm
          · show (σ.2.set j (cj.resume σ.1).2.1)[i]? = some c
            rw [List.getElem?_set_ne hij]; exact hc
          · exact hmono _ _ _ _ _ h sec.ext sec.le hJ

/-- the failures of a section of the page query, with no hypothesis at all -/
theorem cf_pagesResume_failed : ∀ (fuel : Nat) (s : State) (p : PagesSt) (e : Err),
    (pagesResume fuel s p).2 = .failed e → e = .traph ∨ e = .other "fuel"
  | 0, s, p, e, he => by
    simp only [pagesResume, CoOut.failed.injEq] at he
    exact Or.inr he.symm
  | fuel + 1, s, p, e, he => by
    rw [pagesResume] at he
    simp only at he
    split at he
    · split at he
      · simp at he
      · split at he
        · simp only [CoOut.failed.injEq] at he
          exact Or.inl he.symm
        · exact cf_pagesResume_failed fuel s _ e he
    · split at he
      · simp at he
      · exact cf_pagesResume_failed fuel s _ e he

/-- the outcomes excluded for a page query: any failure other than the `TraphException` of a prefix that is
    not in the index (and `StopIteration` when resumed after its end) -/
def cf_BadPages (o : CoOut) : Prop := ∃ e, o = .failed e ∧ e ≠ .traph ∧ e ≠ .other "StopIteration"

/-- the local invariant of a page query that has not returned; nothing for one that has -/
def cf_JPages (s : State) (t : T) : CoSt → Prop
  | .pages p => cf_PagesInv s t p
  | .finished => True
  | _ => False

theorem cf_JPages_sec (s : State) (t : T) (c : CoSt) (h : Shape s t) (hJ : cf_JPages s t c) :
    (c.resume s).1 = s ∧ ¬ cf_BadPages (c.resume s).2.2 ∧ cf_JPages s t (c.resume s).2.1 := by
  cases c with
  | pages p =>
    obtain ⟨g1, g2⟩ := cf_pagesResume_fuel h hJ
    refine ⟨rfl, ?_, ?_⟩
    · rw [resume_pages_out]
      rintro ⟨e, he, h1, _⟩
      rcases cf_pagesResume_failed _ _ _ e he with rfl | rfl
      · exact h1 rfl
      · exact g1 he
    by_cases ho : (pagesResume ((s.trie.size + 1) * (p.prefixes.length + 1)) s p).2 = .yielded
    · rw [resume_pages_yielded s p ho]; exact g2 ho
    · rw [resume_pages_stopped s p ho]; trivial
  | finished =>
    refine ⟨rfl, ?_, trivial⟩
    rintro ⟨e, he, _, h2⟩
    simp only [CoSt.resume, CoOut.failed.injEq] at he
    exact h2 he.symm
  | batch b => exact absurd hJ id
  | rule r => exact absurd hJ id
  | net n => exact absurd hJ id
  | query q => exact absurd hJ id

theorem cf_JPages_mono (s s' : State) (t t' : T) (c : CoSt) (h : Shape s t) (x : Ext s t s' t') (le : s ⊑ s')
    (hJ : cf_JPages s t c) : cf_JPages s' t' c := by
  cases c with
  | pages p => exact cf_PagesInv.mono h x le hJ
  | finished => trivial
  | batch b => exact absurd hJ id
  | rule r => exact absurd hJ id
  | net n => exact absurd hJ id
  | query q => exact absurd hJ id

/-- **(3) C16, page query, no section ever runs out of fuel**: for every schedule, whatever the other
    generators are (writers included; not even their well-formedness is needed), started from fresh
    generators on an index with the shape invariant, the page query `reqs[i] = queryPages ps` whose prefixes
    are well formed (ANY such list: equal prefixes, prefixes below one another, …) never fails, except with the
    `TraphException` of a prefix that is not in the index (and `StopIteration` if resumed after its end); in
    particular never with "fuel". (With the old constant of the model this was false without a hypothesis on the
    prefixes: `cf_old_pages_fuel_insufficient_*`.) -/
theorem cf_C16_pages_query_failures {s : State} {t : T} (hs : Shape s t) (reqs : List CoReq) (sched : Sched)
    (i : Nat) (ps : List Bytes) (hreq : reqs[i]? = some (.queryPages ps))
    (hwf : ∀ pf ∈ ps, lruIter pf ≠ []) (e : Err)
    (hm : (i, CoOut.failed e) ∈ (Sys.run (s, reqs.map CoReq.init) sched).2) :
    e = .traph ∨ e = .other "StopIteration" := by
  have hget : (s, reqs.map CoReq.init).2[i]? = some (CoSt.pages { prefixes := ps }) := by
    simp only [List.getElem?_map, hreq, Option.map_some]; rfl
  have := cf_sched_never cf_JPages cf_BadPages cf_JPages_mono cf_JPages_sec sched _ t hs i _ hget
    (cf_PagesInv.init s t ps hwf) _ hm
  by_cases h1 : e = .traph
  · exact Or.inl h1
  · by_cases h2 : e = .other "StopIteration"
    · exact Or.inr h2
    · exact absurd ⟨e, rfl, h1, h2⟩ this

theorem cf_C16_pages_query_no_fuel {s : State} {t : T} (hs : Shape s t) (reqs : List CoReq) (sched : Sched)
    (i : Nat) (ps : List Bytes) (hreq : reqs[i]? = some (.queryPages ps))
    (hwf : ∀ pf ∈ ps, lruIter pf ≠ []) :
    (i, CoOut.failed (.other "fuel")) ∉ (Sys.run (s, reqs.map CoReq.init) sched).2 := fun hm => by
  rcases cf_C16_pages_query_failures hs reqs sched i ps hreq hwf _ hm with h | h
  · cases h
  · exact absurd h (by decide)

/-! ## why the constant was changed: the OLD fuel constant of `CoSt.pages` was NOT sufficient when a prefix is a
    prefix of (or equal to) another -/

def cf_b (s : String) : Bytes := s.toList.map (·.toNat)

/-- an index holding one webentity prefix and no page -/
def cf_idx (l : String) : State := (State.fresh {} .domain [] []).1.run [.create [cf_b l]]

set_option maxRecDepth 1000000 in
/-- **finding (old model fuel)**: the same prefix twice. The index has 3 nodes (`trie.size = 4`); the first section
    opens `a|`, pops 3 blocks, opens `a|` again, pops the same 3 blocks, and needs a 9th iteration to return; the old
    constant granted `4 + 2 + 2 = 8`. The atomic request answers `[]` — and so does the machine with the constant of
    the model now (`5 * 3 = 15`). -/
theorem cf_old_pages_fuel_insufficient_dup :
    (cf_idx "a|b|c|").trie.size = 4 ∧
    (pagesResume (cf_oldFuel (cf_idx "a|b|c|") { prefixes := [cf_b "a|", cf_b "a|"] }) (cf_idx "a|b|c|")
      { prefixes := [cf_b "a|", cf_b "a|"] }).2 = .failed (.other "fuel") ∧
    (pagesResume 9 (cf_idx "a|b|c|") { prefixes := [cf_b "a|", cf_b "a|"] }).2 = .done (.pages []) ∧
    (CoSt.resume (cf_idx "a|b|c|") (.pages { prefixes := [cf_b "a|", cf_b "a|"] })).2.2 = .done (.pages []) ∧
    (cf_idx "a|b|c|").ask (.pages [cf_b "a|", cf_b "a|"]) = .pages [] := by decide +kernel

set_option maxRecDepth 1000000 in
/-- **finding (old model fuel)**: two different prefixes, one below the other (4 nodes, `trie.size = 5`: 1 + 4 + 1 + 3 + 1
    = 10 iterations, 9 granted by the old constant; `6 * 3 = 18` now) -/
theorem cf_old_pages_fuel_insufficient_nested :
    (cf_idx "a|b|c|d|").trie.size = 5 ∧
    (pagesResume (cf_oldFuel (cf_idx "a|b|c|d|") { prefixes := [cf_b "a|", cf_b "a|b|"] }) (cf_idx "a|b|c|d|")
      { prefixes := [cf_b "a|", cf_b "a|b|"] }).2 = .failed (.other "fuel") ∧
    (pagesResume 10 (cf_idx "a|b|c|d|") { prefixes := [cf_b "a|", cf_b "a|b|"] }).2 = .done (.pages []) ∧
    (CoSt.resume (cf_idx "a|b|c|d|") (.pages { prefixes := [cf_b "a|", cf_b "a|b|"] })).2.2 = .done (.pages []) ∧
    (cf_idx "a|b|c|d|").ask (.pages [cf_b "a|", cf_b "a|b|"]) = .pages [] := by decide +kernel

#print axioms cf_old_pagesResume_fuel
#print axioms cf_pagesResume_fuel
#print axioms cf_pagesResume_fuel_general
#print axioms cf_C16_pages_query_failures
#print axioms cf_C16_pages_query_no_fuel
#print axioms cf_old_pages_fuel_insufficient_dup
#print axioms cf_old_pages_fuel_insufficient_nested

end Traph

import Proofs.ClearCrash
import Proofs.LinkBag
/-! C18 with `clear`, part 2: the one state that is not below anything — a crash between the two truncations
    of a `clear` (trie file empty, link file still the old one).

    Reopening it succeeds and finds a trie with just its header block. Every request of the public API starts
    from the trie; on a trie of one block no traversal reads a single link stub, so the stale link file is
    unreachable: every query answers exactly as on the completely cleared index, with the one exception of
    `count_links`, which is computed from the size of the link file (`midClear_counts`).

    The order of the truncations matters: `swapped_order_breaks` is a kernel-checked example showing that with
    the link file truncated FIRST, the intermediate state has page blocks whose list heads point past the
    end of the link store. -/
namespace Traph
open State

/-! ### queries on a trie that has just its header block -/

section trie1
variable {st : State} (h : st.trie = #[{}])
include h

theorem size_t1 : st.trie.size = 1 := by rw [h]; rfl

theorem cell_t1 (b : Nat) : st.cell b = {} := by
  unfold State.cell; rw [h]
  cases b <;> rfl

theorem lruNode_t1 (l : LRU) : st.lruNode l = none := by simp [lruNode, size_t1 h]

theorem followLru_t1 (l : LRU) : st.followLru l = (none, {}) := by simp [followLru, size_t1 h]

theorem dfsIter_t1 (b : Bool) : st.dfsIter none b = [] := by simp [dfsIter, size_t1 h]

theorem dfsWe_t1 : st.dfsWe = [] := by simp [dfsWe, size_t1 h]

theorem allBlocks_t1 : st.allBlocks = [] := by simp [allBlocks, size_t1 h, List.range_succ]

theorem stemAt_t1 (b : Nat) : st.stemAt b = [] := by
  unfold State.stemAt; rw [h]
  cases b <;> rfl

theorem parents_t1 (b : Nat) : st.parents b = [] := by
  simp [parents, parentsGo, cell_t1 h]

theorem windup_t1 (b : Nat) : st.windup b = [] := by
  simp [windup, parents_t1 h, stemAt_t1 h]

omit h in
theorem foldl_forPrefixesStep_error {α} (f : Nat → Bytes → List α) (e : Err) (ps : List Bytes) :
    ps.foldl (st.forPrefixesStep f) (.error e) = .error e := by
  induction ps with
  | nil => rfl
  | cons p ps ih => simpa [forPrefixesStep] using ih

/-- every per-prefix query: no prefix is in the trie -/
theorem forPrefixes_t1 {α} (ps : List Bytes) (f : Nat → Bytes → List α) :
    st.forPrefixes ps f = if ps = [] then .ok [] else .error .traph := by
  cases ps with
  | nil => rfl
  | cons p ps =>
    simp only [forPrefixes, List.foldl_cons, forPrefixesStep, lruNode_t1 h]
    rw [foldl_forPrefixesStep_error]; simp

theorem retrievePrefix_t1 (l : Bytes) : st.retrievePrefix l = .error .traph := by
  simp [retrievePrefix, followLru_t1 h]

theorem retrieveWebentity_t1 (l : Bytes) : st.retrieveWebentity l = .error .traph := by
  simp [retrieveWebentity, followLru_t1 h]

theorem webentityByPrefix_t1 (p : Bytes) : st.webentityByPrefix p = .error .traph := by
  simp [webentityByPrefix, lruNode_t1 h]

/-- only the RAM default rule is consulted -/
theorem potentialPrefix_t1 (l : Bytes) :
    st.potentialPrefix l = (match st.dflt.search l with
      | some k => if k.isEmpty then .ok none else .ok (some k)
      | none => .ok none) := by
  simp [potentialPrefix, followLru_t1 h, longestCandidate]
  cases st.dflt.search l <;> rfl

theorem webentityPages_t1 (ps : List Bytes) :
    st.webentityPages ps = if ps = [] then .ok [] else .error .traph := by
  simp only [webentityPages, forPrefixes_t1 h]

theorem webentityCrawledPages_t1 (ps : List Bytes) :
    st.webentityCrawledPages ps = if ps = [] then .ok [] else .error .traph := by
  simp only [webentityCrawledPages, webentityPages_t1 h]
  split <;> rfl

theorem mostLinked_t1 (ps : List Bytes) (k : Nat) (d : Option Nat) :
    st.mostLinked ps k d = if ps = [] then .ok [] else .error .traph := by
  simp only [mostLinked, forPrefixes_t1 h]
  split <;> rfl

theorem parentWebentities_t1 (w : Nat) (ps : List Bytes) :
    st.parentWebentities w ps = if ps = [] then .ok [] else .error .traph := by
  simp only [parentWebentities, forPrefixes_t1 h]
  split <;> rfl

theorem childWebentities_t1 (w : Nat) (ps : List Bytes) :
    st.childWebentities w ps = if ps = [] then .ok [] else .error .traph := by
  simp only [childWebentities, forPrefixes_t1 h]
  split <;> rfl

theorem webentityPagelinks_t1 (w : Nat) (ps : List Bytes) (i n o : Bool) :
    st.webentityPagelinks w ps i n o =
      if !n && !o && !i then .error .traph else if ps = [] then .ok [] else .error .traph := by
  simp only [webentityPagelinks, forPrefixes_t1 h]

theorem citedWebentities_t1 (ps : List Bytes) (o : Bool) :
    st.citedWebentities ps o = if ps = [] then .ok [] else .error .traph := by
  simp only [citedWebentities, forPrefixes_t1 h]
  split <;> rfl

theorem webentityDegrees_t1 (ps : List Bytes) :
    st.webentityDegrees ps = if ps = [] then .ok [0, 0, 0] else .error .traph := by
  by_cases hp : ps = [] <;> simp [webentityDegrees, citedWebentities_t1 h, hp]

theorem pageLinks_t1 (l : Bytes) (i n o : Bool) : st.pageLinks l i n o = [] := by
  simp [pageLinks, lruNode_t1 h]

theorem pageDegree_t1 (l : Bytes) (k : DegKind) (w : Bool) : st.pageDegree l k w = 0 := by
  cases k <;> cases w <;> simp [pageDegree, pageLinks_t1 h]

theorem network_t1 (o a : Bool) : st.network o a = [] := by simp [network, dfsWe_t1 h]

theorem networkSlow_t1 (o a : Bool) : st.networkSlow o a = [] := by simp [networkSlow, dfsWe_t1 h]

theorem pagesIter_t1 : st.pagesIter = [] := by simp [pagesIter, dfsIter_t1 h]

theorem prefixIter_t1 : st.prefixIter = [] := by simp [prefixIter, dfsIter_t1 h]

theorem linksIter_t1 (o : Bool) : st.linksIter o = [] := by simp [linksIter, dfsIter_t1 h]

theorem countPages_t1 : st.countPages = 0 := by simp [countPages, allBlocks_t1 h]

theorem countCrawledPages_t1 : st.countCrawledPages = 0 := by simp [countCrawledPages, allBlocks_t1 h]

theorem metrics_t1 : st.metrics = {} := by simp [metrics, allBlocks_t1 h]

theorem linksMetrics_t1 : st.linksMetrics = (0, none, 0, none) := by simp [linksMetrics, allBlocks_t1 h]

theorem paginatePagesPrefixes_t1 (k : Option Nat) (co : Bool) (l : List (Nat × Bytes)) (pp : Option Nat) (acc : PagAcc) :
    st.paginatePagesPrefixes k co l pp acc = (match l with
      | [] => .ok { done := true, count := acc.n, crawled := acc.c, pages := acc.pages, token := none }
      | _ :: _ => .error .traph) := by
  cases l with
  | nil => rfl
  | cons ip rest => obtain ⟨i, p⟩ := ip; simp [paginatePagesPrefixes, lruNode_t1 h]

theorem paginateLinksPrefixes_t1 (w : Nat) (n o : Bool) (k : Option Nat) (l : List (Nat × Bytes)) (pp : Option Nat)
    (acc : PlAcc) :
    st.paginateLinksPrefixes w n o k l pp acc = (match l with
      | [] => .ok { done := true, sourcePages := acc.n, links := acc.links, token := none }
      | _ :: _ => .error .traph) := by
  cases l with
  | nil => rfl
  | cons ip rest => obtain ⟨i, p⟩ := ip; simp [paginateLinksPrefixes, lruNode_t1 h]

end trie1

/-- ALL QUERIES BUT `count_links`: two indexes whose tries have just the header block and that were given the
    same default rule answer every query alike — whatever their link files, RAM rule dicts, id counters hold -/
theorem ask_t1_congr {st st' : State} (h : st.trie = #[{}]) (h' : st'.trie = #[{}]) (hd : st.dflt = st'.dflt)
    (q : Query) (hq : q ≠ .counts) : st.ask q = st'.ask q := by
  cases q with
  | counts => exact absurd rfl hq
  | retrievePrefix l => simp only [ask, retrievePrefix_t1 h, retrievePrefix_t1 h']
  | potentialPrefix l => simp only [ask, potentialPrefix_t1 h, potentialPrefix_t1 h', hd]
  | retrieveWebentity l => simp only [ask, retrieveWebentity_t1 h, retrieveWebentity_t1 h']
  | webentityByPrefix p => simp only [ask, webentityByPrefix_t1 h, webentityByPrefix_t1 h']
  | pages ps => simp only [ask, webentityPages_t1 h, webentityPages_t1 h']
  | crawledPages ps => simp only [ask, webentityCrawledPages_t1 h, webentityCrawledPages_t1 h']
  | paginatePages ps k t co =>
    simp only [ask, paginatePages, paginatePagesPrefixes_t1 h, paginatePagesPrefixes_t1 h']
  | mostLinked ps k d => simp only [ask, mostLinked_t1 h, mostLinked_t1 h']
  | parents w ps => simp only [ask, parentWebentities_t1 h, parentWebentities_t1 h']
  | children w ps => simp only [ask, childWebentities_t1 h, childWebentities_t1 h']
  | pagelinks w ps i n o => simp only [ask, webentityPagelinks_t1 h, webentityPagelinks_t1 h']
  | paginateLinks w ps n o k t =>
    simp only [ask, paginateLinks, paginateLinksPrefixes_t1 h, paginateLinksPrefixes_t1 h']
  | cited ps o => simp only [ask, citedWebentities_t1 h, citedWebentities_t1 h']
  | weDegrees ps => simp only [ask, webentityDegrees_t1 h, webentityDegrees_t1 h']
  | pageLinks l i n o => simp only [ask, pageLinks_t1 h, pageLinks_t1 h']
  | pageDegree l k w => simp only [ask, pageDegree_t1 h, pageDegree_t1 h']
  | network o a slow => simp only [ask, network_t1 h, network_t1 h', networkSlow_t1 h, networkSlow_t1 h']
  | expand p => rfl
  | linksIter o => simp only [ask, linksIter_t1 h, linksIter_t1 h']
  | pagesIter => simp only [ask, pagesIter_t1 h, pagesIter_t1 h']
  | prefixIter => simp only [ask, prefixIter_t1 h, prefixIter_t1 h']
  | metrics => simp only [ask, metrics_t1 h, metrics_t1 h']; rfl
  | lruNode l => simp only [ask, lruNode_t1 h, lruNode_t1 h']
  | windup b => simp only [ask, windup_t1 h, windup_t1 h']
  | dfs => simp only [ask, dfsIter_t1 h, dfsIter_t1 h']

/-! ### (b) the mid-clear state -/

/-- the completely cleared index as a reopen finds it (both files empty: both headers written again) -/
def State.clearedOpen (ram : State) : State := { ram with hdrId := 0, trie := #[{}], links := #[{}], log := [] }

theorem openCut_empty (ram : State) : openCut ram {} 0 = .ok ram.clearedOpen := by
  simp [openCut, State.clearedOpen]

@[simp] theorem midClearOpen_trie (ram a : State) : (ram.midClearOpen a).trie = #[{}] := rfl
@[simp] theorem midClearOpen_hdrId (ram a : State) : (ram.midClearOpen a).hdrId = 0 := rfl
@[simp] theorem midClearOpen_links (ram a : State) : (ram.midClearOpen a).links = a.links := rfl

/-- reopening the mid-clear files succeeds: fresh trie, id counter 0, the old link file -/
theorem midClear_opens (ram a : State) (hl : Live a) :
    ∃ st, openCut ram a.midClear 0 = .ok st ∧ st.trie = #[{}] ∧ st.hdrId = 0 ∧ st.links = a.links :=
  ⟨_, openCut_midClear ram a hl, rfl, rfl, rfl⟩

/-- EVERY query except `count_links` answers on the mid-clear index exactly what it answers on the completely
    cleared index: the stale link file is unreachable -/
theorem midClear_ask (ram a : State) (q : Query) (hq : q ≠ .counts) :
    (ram.midClearOpen a).ask q = ram.clearedOpen.ask q :=
  ask_t1_congr (st := ram.midClearOpen a) (st' := ram.clearedOpen) rfl rfl rfl q hq

/-- the exception: `count_links` is computed from the size of the link file, so it still reports the number of
    stubs of the index that is being cleared (no page, no crawled page) -/
theorem midClear_counts (ram a : State) :
    (ram.midClearOpen a).ask .counts = .counts 0 0 (a.links.size - 1) := by
  simp only [ask, countPages_t1 (midClearOpen_trie ram a), countCrawledPages_t1 (midClearOpen_trie ram a)]
  rfl

theorem clearedOpen_counts (ram : State) : ram.clearedOpen.ask .counts = .counts 0 0 0 := by
  have h : ram.clearedOpen.trie = #[{}] := rfl
  simp only [ask, countPages_t1 h, countCrawledPages_t1 h]
  rfl

/-- `metrics()` divides by the number of stems, which is 0: `ZeroDivisionError`, as on any empty index -/
theorem midClear_metrics (ram a : State) :
    (ram.midClearOpen a).metrics = {} ∧ (ram.midClearOpen a).ask .metrics = .err (.other "ZeroDivisionError") := by
  refine ⟨metrics_t1 rfl, ?_⟩
  simp only [ask, metrics_t1 (midClearOpen_trie ram a)]; rfl

/-- the observers of the crash-cut harness, value by value: no stub is read at all -/
theorem midClear_observers (ram a : State) :
    let st := ram.midClearOpen a
    st.pagesIter = [] ∧ (∀ o, st.linksIter o = []) ∧ st.prefixIter = [] ∧ (∀ b, st.dfsIter none b = []) ∧
    (∀ o au, st.network o au = [] ∧ st.networkSlow o au = []) ∧
    st.countPages = 0 ∧ st.countCrawledPages = 0 ∧ st.countLinks2 = a.links.size - 1 ∧
    st.linksMetrics = (0, none, 0, none) ∧
    (∀ l, st.retrieveWebentity l = .error .traph) ∧ (∀ l, st.retrievePrefix l = .error .traph) ∧
    (∀ p, st.webentityByPrefix p = .error .traph) ∧
    (∀ ps, st.webentityPages ps = if ps = [] then .ok [] else .error .traph) ∧
    (∀ l i n o, st.pageLinks l i n o = []) ∧ (∀ l, st.lruNode l = none) := by
  have h : (ram.midClearOpen a).trie = #[{}] := rfl
  exact ⟨pagesIter_t1 h, linksIter_t1 h, prefixIter_t1 h, dfsIter_t1 h,
    fun o au => ⟨network_t1 h o au, networkSlow_t1 h o au⟩, countPages_t1 h, countCrawledPages_t1 h, rfl,
    linksMetrics_t1 h, retrieveWebentity_t1 h, retrievePrefix_t1 h, webentityByPrefix_t1 h,
    webentityPages_t1 h, pageLinks_t1 h, lruNode_t1 h⟩

/-- the mid-clear index satisfies the range/acyclicity invariant of the link store (no block holds a list head,
    and the old link file is as well-formed as it was) -/
theorem midClear_linksOk (ram a : State) (hwf : a.LinksWf) (hl : Live a) : LinksOk (ram.midClearOpen a) := by
  have hc : ∀ b, (ram.midClearOpen a).cell b = {} := cell_t1 rfl
  refine ⟨State.linksWf_congr (s := a) rfl hwf, fun b => ?_, fun b => ?_⟩
  · rw [hc]; exact hl.2
  · rw [hc]; exact hl.2

/-- it reports no page and no link at all — so certainly only pages and links of the completed history -/
theorem midClear_reports_nothing (ram a : State) :
    (ram.midClearOpen a).ask .pagesIter = .pages [] ∧
    (∀ o, (ram.midClearOpen a).ask (.linksIter o) = .pairs []) ∧
    (∀ o au slow, (ram.midClearOpen a).ask (.network o au slow) = .net []) ∧
    (ram.midClearOpen a).ask .prefixIter = .prefixes [] ∧
    (ram.midClearOpen a).ask .dfs = .blocks [] := by
  have h : (ram.midClearOpen a).trie = #[{}] := rfl
  refine ⟨?_, fun o => ?_, fun o au slow => ?_, ?_, ?_⟩
  · simp only [ask, pagesIter_t1 h]
  · simp only [ask, linksIter_t1 h]
  · simp only [ask, network_t1 h, networkSlow_t1 h]; simp
  · simp only [ask, prefixIter_t1 h]
  · simp only [ask, dfsIter_t1 h]

/-! ### the order of the truncations matters

    Had `clear` emptied the link file first (`[.truncLinks, .truncTrie]`), a crash between the two would leave
    the OLD trie with an EMPTY link store: page blocks still hold list heads, which now point past the end of
    the link store. A two-page, one-link history is enough. -/

/-- a fresh index (no rules), then `add_links([(a|, b|)])` -/
def swapDemo : State := ((State.fresh {} .never []).1.step (.addLinks [([97, 124], [98, 124])])).1

/-- what a reopen would find after the first truncation of the opposite order -/
def swapDemoCut : Except Err State := openCut {} (swapDemo.files.applyE .truncLinks) 0

/-- with the link file truncated first, the reopened index has a page block (block 1, `a|`) whose out-list head
    is stub 1 while the link store has only its header: `LinksOk` fails, the link walk runs off the file.
    With the model's order this cannot happen (`midClear_linksOk`). -/
theorem swapped_order_breaks :
    ∃ st, swapDemoCut = .ok st ∧ (st.cell 1).flags.page = true ∧ (st.cell 1).out = 1 ∧ st.links.size = 1 ∧
      (st.cell 2).flags.page = true ∧ (st.cell 2).inn = 2 ∧ ¬ LinksOk st := by
  refine ⟨_, rfl, by decide, by decide, by decide, by decide, by decide, fun h => ?_⟩
  have := h.out 1
  revert this
  decide

/-- the same cut with the model's order: the first event is `truncTrie`, and the state is the harmless one -/
example : openCut {} (swapDemo.files.applyE .truncTrie) 0 = .ok (({} : State).midClearOpen swapDemo) :=
  openCut_midClear {} swapDemo ⟨by decide, by decide⟩

#print axioms ask_t1_congr
#print axioms midClear_ask
#print axioms midClear_observers
#print axioms swapped_order_breaks

end Traph
